/-
C12 (T4, second batch) — address-level access programs of MORE kernels, in the vocabulary of
`Model/C12Kernels.lean` (`RStep`: destination = index into the call's OWNED arrays, sources =
`Role.inp i | Role.own i`; `mkStep`/`compile` unchanged).

Kernels: `dilate` (`_morph.cpp`, a SCATTER kernel: read-modify-write of the result at neighbour
positions), `rank_filter` and `template_match` (`_convolve.cpp`, gather kernels), `cooccurence`
(`features/_texture.cpp`, data-dependent write address), the per-line `dist_transform` and `py_dt`
(`_distance.cpp`), `borders` (`_labeled.cpp`), `thin` (`_thin.cpp`), `zoom_shift` (`_interpolate.cpp`).

Addresses come from the same index arithmetic as the first five programs: `iterAddr` (the iterator's
`data_` after `k` increments; the flat result pointer `rpos`/`out` is modelled by the iterator address
of the result view, as `erodeRaw`/`convolveRaw` do: the wrappers pass a C-contiguous result),
`fixPos`/`nbrAddr` neighbour positions through `C08.View.addr`, `C07.footprint`/`C07.offsetOf`,
`C01.support`, `C05.popTo`/`build`/`advance`, `C15.pass`/`iter`, `C18.axisEntry`/`tensorTerms`.

What is a REAL step program (`op` computes the stored value from the values read) and what is a TRACE
REPLAY (the addresses and/or the control flow follow a run of the model on given data; the stored value is
not recomputed from the reads) is stated per kernel below.

Import-free (only `Mahotas.Model.*`).
-/
import Mahotas.Model.C12Kernels
import Mahotas.Model.C07
import Mahotas.Model.C05
import Mahotas.Model.C15
import Mahotas.Model.C18
import Mahotas.Model.C19
namespace Mahotas.C12
open Mahotas

/-! ## shared pieces -/

/-- the constructor of `filter_iterator(array, filter, mode, compress)`: with `compress` the filter
(argument `inp fi`) is read through its iterator and copied into the call's own `filter_data_` (`own 1`);
without it nothing is read (`footprint = 0`) and `filter_data_` IS the filter's data pointer -/
def filterCtorRaw (compress : Bool) (fi : Nat) (vF : C08.View) : List RStep :=
  if compress then filterCopyRaw fi vF else []

/-- where `filter[j]` is read: the compressed copy `own 1 [j]`, or the raw data `inp fi [base + j]` -/
def filtSrc (compress : Bool) (fi : Nat) (vF : C08.View) (j : Nat) : RLoc :=
  if compress then ⟨.own 1, (j : Int)⟩ else ⟨.inp fi, vF.base + (j : Int)⟩

/-- `rpos + cur_offsets_idx_[j]`: the result pointer of pixel number `i` (position `p`) plus the
stride-weighted coordinate offset to the fixed neighbour position `q`
(`init_filter_offsets` on the RESULT array); equals `v.addr q` when `iterAddr v i = v.addr p` -/
def scatterAddr (v : C08.View) (i : Nat) (p q : List Int) : Int :=
  iterAddr v i + (v.addr (q.map Int.toNat) - v.addr (p.map Int.toNat))

/-! ## dilate (`_morph.cpp` `dilate<T>`): scatter kernel — REAL step program

roles: `inp 0` = array, `inp 1` = Bc; `own 0` = result, `own 1` = `filter_data_` (bool images only:
`compress = is_bool(T())`; otherwise `filter[j]` reads `inp 1` directly).

`std::fill(res, min)`, then for every pixel `i` and every support entry `j` one read-modify-write of the
result at the (clamped) neighbour position: `nval = dilate_add(*iter, filter[j]); retrieve(rpos, j, arr_val);
if (nval > arr_val) set(rpos, j, nval)`.  The step is data independent: where the C++ does not store
(`*iter == min`: `continue`; `nval <= arr_val`) the step stores the value it read back (same memory; the
access sets are a superset of the C++'s).  The heights are those of `C01.support` (as in `erodeRaw`); the read
of `filter[j]` is in the sources for the read set. -/

/-- the value a scatter step leaves: `vs = [arr_val, *iter, filter[j]]` -/
def dilateVal (dt : DT) (h : Int) : List Val → Val
  | r :: v :: _ => if v = dt.lo then r else if dilateAdd dt v h > r then dilateAdd dt v h else r
  | _ => 0

def dilateStepR (dt : DT) (vA vOut vBc : C08.View) (i : Nat) (jkh : Nat × (List Int × Int)) : Option RStep :=
  let p := unravelI vA.shape i
  (fixPos .nearest vA.shape (addPos p jkh.2.1)).map fun q =>
    { dst := 0, doff := scatterAddr vOut i p q,
      srcs := [⟨.own 0, scatterAddr vOut i p q⟩, ⟨.inp 0, iterAddr vA i⟩, filtSrc dt.isBool 1 vBc jkh.1],
      op := dilateVal dt jkh.2.2 }

/-- support entries with their index `j` (the index into `filter_data_`) -/
def enumFrom {α : Type} : Nat → List α → List (Nat × α)
  | _, [] => []
  | n, x :: xs => (n, x) :: enumFrom (n + 1) xs

def dilateRaw (dt : DT) (vA vOut vBc : C08.View) (bc : Array Int) : List RStep :=
  let sup := C01.support vBc.shape bc dt.isBool
  filterCtorRaw dt.isBool 1 vBc ++
  (List.range (shapeSize vA.shape)).map (fun (i : Nat) => (⟨0, iterAddr vOut i, [], fun _ => dt.lo⟩ : RStep)) ++
  (List.range (shapeSize vA.shape)).flatMap fun i => (enumFrom 0 sup).filterMap (dilateStepR dt vA vOut vBc i)

/-! ## rank_filter (`_convolve.cpp` `rank_filter<T>`): gather kernel with a private buffer — REAL step program

roles: `inp 0` = array, `inp 1` = Bc; `own 0` = result, `own 1` = `filter_data_`, `own 2` = `n_data`
(`neighbours`), `own 3` = the locals of `std::nth_element` (modelled as a snapshot of the range).

Per pixel: `neighbours[n++] = val` for every sample the border rule delivers (`cval = 0` for a flagged sample
in `constant` mode, dropped in `ignore`), `std::nth_element(neighbours, neighbours + currank, neighbours + n)`,
`*rpos = neighbours[currank]`.  `nth_element` permutes `neighbours[0, n)` in place; its contract only fixes
position `currank`.  It is modelled by ONE admissible outcome, the full sort: snapshot the range into the
locals, then `neighbours[idx] = sorted(snapshot)[idx]`.  Nothing is written when `rank` is outside `[0, N2)`. -/

/-- the samples of pixel `p`: `some a` = read at address `a`, `none` = the constant `cval = 0` -/
def rankSamples (m : Mode) (vA : C08.View) (fp : List (List Int)) (p : List Int) : List (Option Int) :=
  fp.filterMap fun k =>
    match nbrAddr m vA (addPos p k) with
    | some a => some (some a)
    | none => if m = .constant then some none else none

/-- sorted element number `idx` of the values read: `C07.kthSmallest` (structurally recursive, so the
kernel can evaluate it; equal to `C07.nthElement` = `(mergeSort vs)[idx]?` by `C07.kthSmallest_eq_nthElement`) -/
def sortedAt (idx : Nat) (vs : List Val) : Val := (C07.kthSmallest vs idx).getD 0

def rankPixel (m : Mode) (rank : Nat) (vA vOut : C08.View) (fp : List (List Int)) (i : Nat) : List RStep :=
  let s := rankSamples m vA fp (unravelI vA.shape i)
  let n := s.length
  (List.range n).map (fun (j : Nat) =>
    (⟨2, (j : Int), (match s.getD j none with | some a => [⟨.inp 0, a⟩] | none => []), fun vs => vs.headD 0⟩ : RStep)) ++
  (List.range n).map (fun (j : Nat) => (⟨3, (j : Int), [⟨.own 2, (j : Int)⟩], fun vs => vs.headD 0⟩ : RStep)) ++
  (List.range n).map (fun (j : Nat) =>
    (⟨2, (j : Int), (List.range n).map (fun (l : Nat) => ⟨.own 3, (l : Int)⟩), sortedAt j⟩ : RStep)) ++
  [⟨0, iterAddr vOut i, [⟨.own 2, ((C07.curRank n fp.length rank : Nat) : Int)⟩], fun vs => vs.headD 0⟩]

def rankRaw (m : Mode) (rank : Int) (vA vOut vBc : C08.View) (bc : Array Int) : List RStep :=
  let fp := C07.footprint vBc.shape bc
  filterCopyRaw 1 vBc ++
  (if rank < 0 ∨ rank ≥ (fp.length : Int) then [] else
    (List.range (shapeSize vA.shape)).flatMap (rankPixel m rank.toNat vA vOut fp))

/-! ## template_match (`_convolve.cpp` `template_match<T>`): gather kernel — REAL step program

roles: `inp 0` = f, `inp 1` = t (the template: `compress = false`, so `fiter[j]` reads the template's own
data `t.data()[j]`; there is no copy); `own 0` = result.

One step per pixel: the samples the border rule delivers and the template entries at the same `j` are read,
`diff2 += delta*delta` (`just_equality`: `diff2 = 1; break` at the first non-zero delta). -/

def tmVals (je : Bool) : List Val → List Val → Int → Int
  | v :: vs, t :: ts, d =>
    let delta := if v > t then v - t else t - v
    if je && delta != 0 then 1 else tmVals je vs ts (d + delta * delta)
  | _, _, d => d

/-- the samples of pixel `p` that are really read: (address in `f`, template index `j`) -/
def tmLive (m : Mode) (vA : C08.View) (tshape : List Nat) (p : List Int) : List (Int × Nat) :=
  (List.range (shapeSize tshape)).filterMap fun j =>
    (nbrAddr m vA (addPos p (C07.offsetOf tshape j))).map fun a => (a, j)

def tmPixel (m : Mode) (je : Bool) (vA vOut vT : C08.View) (k : Nat) : RStep :=
  let live := tmLive m vA vT.shape (unravelI vA.shape k)
  { dst := 0, doff := iterAddr vOut k,
    srcs := live.map (fun aj => ⟨.inp 0, aj.1⟩) ++ live.map (fun aj => ⟨.inp 1, vT.base + (aj.2 : Int)⟩),
    op := fun vs => tmVals je (vs.take live.length) (vs.drop live.length) 0 }

def templateMatchRaw (m : Mode) (je : Bool) (vA vOut vT : C08.View) : List RStep :=
  (List.range (shapeSize vA.shape)).map (tmPixel m je vA vOut vT)

/-! ## cooccurence (`features/_texture.cpp` `cooccurence<T>`): data-dependent write address — REAL steps,
addresses generated from the image memory (as `foldRaw` does from the label memory)

roles: `inp 0` = array, `inp 1` = Bc; `own 0` = `res` (the int32 matrix `texture.py` allocates for the call),
`own 1` = `filter_data_`, `own 2` = a register.

Per element: `val = *iter`; if `retrieve(iter, 0, val2)` (mode `ignore`: the neighbour at the FIRST non-zero
entry of Bc lies inside) then `++res.at(val, val2)`, a read-modify-write at `vR.addr [val, val2]`.  A negative
value makes the C++ throw: the program stops there (the register receives the two values read). -/

def coocLog (vA vR : C08.View) (mA : Int → Int) (d : List Int) : List Nat → List RStep
  | [] => []
  | k :: ks =>
    match nbrAddr .ignore vA (addPos (unravelI vA.shape k) d) with
    | none => ⟨2, 0, [⟨.inp 0, iterAddr vA k⟩], fun vs => vs.headD 0⟩ :: coocLog vA vR mA d ks
    | some a =>
      let val := mA (iterAddr vA k)
      let val2 := mA a
      if val < 0 ∨ val2 < 0 then
        [⟨2, 0, [⟨.inp 0, iterAddr vA k⟩, ⟨.inp 0, a⟩], fun vs => vs.headD 0⟩]
      else
        ⟨0, vR.addr [val.toNat, val2.toNat],
          [⟨.own 0, vR.addr [val.toNat, val2.toNat]⟩, ⟨.inp 0, iterAddr vA k⟩, ⟨.inp 0, a⟩],
          fun vs => vs.headD 0 + 1⟩ :: coocLog vA vR mA d ks

def cooccurenceRaw (vA vR vBc : C08.View) (bc : Array Int) (mA : Int → Int) : List RStep :=
  filterCopyRaw 1 vBc ++
  (match C07.footprint vBc.shape bc with
   | [] => []     -- no non-zero entry: the C++ indexes an empty offset table (excluded by `texture.py`)
   | d :: _ => coocLog vA vR mA d (List.range (shapeSize vA.shape)))

/-! ## distance (`_distance.cpp` `dist_transform`, `py_dt`) — TRACE REPLAY (addresses and control flow follow
`C05.popTo`/`C05.build`/`C05.advance` on the line's values; `z` holds doubles, possibly infinite: the steps of
`z`, `v`, `Df` store `0` / the index, not the model's abscissae)

NOTE: `py_dt` does NOT release the interpreter lock (there is no `gil_release` in `_distance.cpp`); the program
is listed for completeness of the footprint: the array `f` is an OUTPUT the call owns (`distance.py` passes a
fresh copy) and so are `orig`, and the heap buffers `z`, `v`, `Df`, `ot`.

roles: no argument array; `own 0` = `f`, `own 1` = `z`, `own 2` = `v`, `own 3` = `Df`, `own 4` = `orig`,
`own 5` = `ot`.  `addr t` / `oaddr t` = element address of sample `t` of the line in `f` / `orig`. -/

/-- the `do { s = …; if (s > z[k]) break; --k; } while (true)` loop at abscissa `q` on stack `st` (top
first, `k = st.length - 1`): every visited `k` reads `f[q]`, `v[k]`, `f[v[k]]`, `z[k]` into a register cell
(`own 1 [n + 1]`, past the `n + 1` cells of `z`: the local `s`) -/
def popLog (g : Nat → Rat) (addr : Nat → Int) (n q : Nat) : C05.Stack → List RStep
  | [] => []
  | (v, z) :: rest =>
    let k : Int := (rest.length : Nat)
    (⟨1, ((n + 1 : Nat) : Int), [⟨.own 0, addr q⟩, ⟨.own 2, k⟩, ⟨.own 0, addr v⟩, ⟨.own 1, k⟩], fun _ => 0⟩ : RStep) ::
    (if C05.leOpt (C05.sInt g v q) z then popLog g addr n q rest else [])

/-- `++k; v[k] = q; z[k] = s; z[k+1] = inf` -/
def pushLog (g : Nat → Rat) (addr : Nat → Int) (n q : Nat) (st : C05.Stack) : List RStep :=
  let k : Int := ((C05.popTo g q st).length : Nat)
  popLog g addr n q st ++
  [⟨2, k, [], fun _ => (q : Int)⟩, ⟨1, k, [⟨.own 1, ((n + 1 : Nat) : Int)⟩], fun vs => vs.headD 0⟩,
   ⟨1, k + 1, [], fun _ => 0⟩]

/-- the read-out walk `while (z[k+1] < q) ++k` on the stack turned bottom first (`k` = entries left behind) -/
def advanceLog (n : Nat) (x : Rat) : Nat → List (Nat × Option Rat) → List RStep
  | k, _ :: e' :: rest =>
    (⟨1, ((n + 1 : Nat) : Int), [⟨.own 1, ((k + 1 : Nat) : Int)⟩], fun vs => vs.headD 0⟩ : RStep) ::
    (if C05.ltOpt e'.2 x then advanceLog n x (k + 1) (e' :: rest) else [])
  | _, _ => []

/-- entries of the stack the walk has left behind before abscissa `q` -/
def walked (bottomFirst : List (Nat × Option Rat)) (q : Nat) : List (Nat × Option Rat) :=
  (List.range q).foldl (fun cur (t : Nat) => C05.advance (t : Rat) cur) bottomFirst

/-- `dist_transform` on one line of `n` samples whose values are `line` -/
def dtLineRaw (withOrig : Bool) (line : Array Int) (addr oaddr : Nat → Int) (n : Nat) : List RStep :=
  let g : Nat → Rat := fun i => ((line.getD i 0 : Int) : Rat)
  let full := (C05.build g (n - 1)).reverse
  -- `v[0] = 0; z[0] = -inf; z[1] = inf`
  [⟨2, 0, [], fun _ => 0⟩, ⟨1, 0, [], fun _ => 0⟩, ⟨1, 1, [], fun _ => 0⟩] ++
  (List.range (n - 1)).flatMap (fun (m : Nat) => pushLog g addr n (m + 1) (C05.build g m)) ++
  (List.range n).flatMap (fun (q : Nat) =>
    let before := walked full q
    let cur := C05.advance (q : Rat) before
    let k : Int := ((full.length - cur.length : Nat) : Int)
    advanceLog n (q : Rat) (full.length - before.length) before ++
    -- `Df[q] = square(q - v[k]) + f[v[k]*stride]` (a real step), `ot[q] = orig[v[k]*ostride]`
    [⟨3, (q : Int), [⟨.own 2, k⟩, ⟨.own 0, addr (C05.headV cur)⟩],
      fun vs => match vs with | v :: fv :: _ => ((q : Int) - v) ^ 2 + fv | _ => 0⟩] ++
    (if withOrig then [⟨5, (q : Int), [⟨.own 2, k⟩, ⟨.own 4, oaddr (C05.headV cur)⟩],
      fun vs => match vs with | _ :: o :: _ => o | _ => 0⟩] else [])) ++
  -- `f[q*stride] = Df[q]; orig[q*ostride] = ot[q]` (real steps)
  (List.range n).flatMap (fun (q : Nat) =>
    (⟨0, addr q, [⟨.own 3, (q : Int)⟩], fun vs => vs.headD 0⟩ : RStep) ::
    (if withOrig then [⟨4, oaddr q, [⟨.own 5, (q : Int)⟩], fun vs => vs.headD 0⟩] else []))

/-- one pass of `py_dt` (`for start …`), the lines' values taken from the current buffers (`C05.dtLine` run
alongside) -/
def dtPassRaw (withOrig : Bool) (n : Nat) (b sk so ob osk oso : Int) :
    Array Int × Array Int → List Nat → List RStep :=
  logFold (fun fo (start : Nat) => C05.dtLine fo (b + (start : Int) * so) sk (ob + (start : Int) * oso) osk n)
    (fun fo (start : Nat) =>
      let off := b + (start : Int) * so
      let line : Array Int := ((List.range n).map fun (t : Nat) => fo.1.getD (C05.lineAddr off sk t) 0).toArray
      dtLineRaw withOrig line (fun t => off + (t : Int) * sk) (fun t => ob + (start : Int) * oso + (t : Int) * osk) n)

/-- `py_dt(f, orig)` on a 2-D view of shape `(d0, d1)` of the flat buffers `fo` (the arguments of `C05.pyDt`) -/
def distanceRaw (withOrig : Bool) (fo : Array Int × Array Int) (d0 d1 : Nat) (b s0 s1 ob os0 os1 : Int) :
    List RStep :=
  let size := d0 * d1
  if size == 0 then [] else
    dtPassRaw withOrig d0 b s0 s1 ob os0 os1 fo (List.range (size / d0)) ++
    dtPassRaw withOrig d1 b s1 s0 ob os1 os0 (C05.dtPass fo d0 (size / d0) b s0 s1 ob os0 os1)
      (List.range (size / d1))

/-! ## borders (`_labeled.cpp` `borders<T>`) — REAL steps, accesses generated from the image memory (the
early `break` and the conditional store are followed exactly)

roles: `inp 0` = array (labeled), `inp 1` = filter; `own 0` = result (zero-filled by `labeled.borders`),
`own 1` = `filter_data_`, `own 2` = a register.

Per pixel: `cur = *iter`, the neighbours are read up to and including the first one that differs; then
`*out = true`.  A pixel with no differing neighbour stores nothing (the register receives `cur`). -/

/-- the neighbour addresses read: up to and including the first whose value differs from `cur` -/
def bordersReads (mA : Int → Int) (cur : Int) : List Int → List Int × Bool
  | [] => ([], false)
  | a :: as =>
    if mA a != cur then ([a], true) else
      let r := bordersReads mA cur as
      (a :: r.1, r.2)

def bordersPixel (m : Mode) (vA vOut : C08.View) (fp : List (List Int)) (mA : Int → Int) (k : Nat) : RStep :=
  let p := unravelI vA.shape k
  let r := bordersReads mA (mA (iterAddr vA k)) (fp.filterMap fun d => nbrAddr m vA (addPos p d))
  let srcs : List RLoc := ⟨.inp 0, iterAddr vA k⟩ :: r.1.map (fun a => ⟨.inp 0, a⟩)
  if r.2 then ⟨0, iterAddr vOut k, srcs,
    fun vs => match vs with | cur :: ns => if ns.any (· != cur) then 1 else 0 | _ => 0⟩
  else ⟨2, 0, srcs, fun vs => vs.headD 0⟩

def bordersRaw (m : Mode) (vA vOut vBc : C08.View) (bc : Array Int) (mA : Int → Int) : List RStep :=
  filterCopyRaw 1 vBc ++
  (List.range (shapeSize vA.shape)).map (bordersPixel m vA vOut (C07.footprint vBc.shape bc) mA)

/-! ## thin (`_thin.cpp` `py_thin`) — REAL steps; the number of outer iterations and the early exit of
`match` at an unset pixel follow the run of `C15.pass`/`C15.iter` on the image content (replayed control flow)

roles: no argument array (`thin.py` allocates both the zero-framed work image and the buffer for the call);
`own 0` = array (work image), `own 1` = buffer, `own 2` = `elems[8]` (cell `12*e + j` = `data[j]`,
`12*e + 6 + j` = `offset[j]`), `own 3` = the register `any_change`.

`fast_hitmiss`: `buffer[i] = match(array + i, elem)`: the pixel, and for a set pixel its six listed neighbours
(superset: `match` returns at the first mismatch); then `if (*pb && *pa) { *pa = false; any_change = true; }`
(the step stores `*pa` back where the C++ does not store). -/

/-- `coordinates_delta(array, d0, d1)` in elements -/
def thinDelta (v : C08.View) (d0 d1 : Int) : Int :=
  match v.strides with
  | s0 :: s1 :: _ => d0 * s0 + d1 * s1
  | _ => 0

/-- `match(array + i, elem)` on `vs = *array :: the six neighbours` -/
def hmOp (e : C15.Elem) (vs : List Val) : Val :=
  if vs.headD 0 != 0 && (e.zip vs.tail).all (fun tv => (tv.2 != 0) == tv.1.2.2) then 1 else 0

def thinFillRaw (vA : C08.View) : List RStep :=
  (enumFrom 0 Generated.thinElems).flatMap fun ee =>
    (enumFrom 0 ee.2).flatMap fun jt =>
      [⟨2, ((12 * ee.1 + jt.1 : Nat) : Int), [], fun _ => if jt.2.2.2 then 1 else 0⟩,
       ⟨2, ((12 * ee.1 + 6 + jt.1 : Nat) : Int), [], fun _ => thinDelta vA jt.2.1 jt.2.2.1⟩]

def thinPassLog (vA vB : C08.View) (b : C15.Bin) (ee : Nat × C15.Elem) : List RStep :=
  let n := b.rows * b.cols
  (List.range n).map (fun (i : Nat) =>
    let tbl : List RLoc := (List.range 12).map fun (j : Nat) => ⟨.own 2, ((12 * ee.1 + j : Nat) : Int)⟩
    (⟨1, vB.base + (i : Int),
      ⟨.own 0, vA.base + (i : Int)⟩ ::
        (if b.data.getD i false then
          ee.2.map (fun t => (⟨.own 0, vA.base + (i : Int) + thinDelta vA t.1 t.2.1⟩ : RLoc)) ++ tbl else []),
      hmOp ee.2⟩ : RStep)) ++
  (List.range n).flatMap fun (j : Nat) =>
    [⟨3, 0, [⟨.own 1, vB.base + (j : Int)⟩, ⟨.own 0, vA.base + (j : Int)⟩, ⟨.own 3, 0⟩],
      fun vs => match vs with | pb :: pa :: ac :: _ => if pb != 0 && pa != 0 then 1 else ac | _ => 0⟩,
     ⟨0, vA.base + (j : Int), [⟨.own 1, vB.base + (j : Int)⟩, ⟨.own 0, vA.base + (j : Int)⟩],
      fun vs => match vs with | pb :: pa :: _ => if pb != 0 && pa != 0 then 0 else pa | _ => 0⟩]

/-- one outer iteration: `any_change = false`, then the eight passes -/
def thinIterLog (vA vB : C08.View) (b : C15.Bin) : List RStep :=
  (⟨3, 0, [], fun _ => 0⟩ : RStep) ::
  logFold (fun b (ee : Nat × C15.Elem) => C15.pass b ee.2) (thinPassLog vA vB) b (enumFrom 0 Generated.thinElems)

/-- the loop `while (any_change && …)` along `C15.thinLoop` -/
def thinLoopLog (vA vB : C08.View) : Nat → C15.Bin → List RStep
  | 0, _ => []
  | fuel + 1, b =>
    let b' := C15.iter b
    (⟨3, 1, [⟨.own 3, 0⟩], fun vs => vs.headD 0⟩ : RStep) :: thinIterLog vA vB b ++
    (if b'.data == b.data then [] else thinLoopLog vA vB fuel b')

def thinRaw (vA vB : C08.View) (b : C15.Bin) (maxIter : Int) : List RStep :=
  let full := b.count + 1
  thinFillRaw vA ++ thinLoopLog vA vB (if maxIter < 0 then full else min full maxIter.toNat) b

/-! ## zoom_shift (`_interpolate.cpp` `zoom_shift<FT>`) — COARSE, SETS ONLY (the interpolated value is a float,
not a `Val`: every step stores `0`)

roles: `inp 0` = array, `inp 1` = `zoom_ar`, `inp 2` = `shift_ar`; `own 0` = output, `own 1` = the per-axis
tables `zeros`/`offsets`/`edge_offsets`/`splvals` (cell `pairNat r kk`), `own 2` = `idxs`/`fcoordinates`/
`foffsets` (cell `fi`).

Precalculation: for every axis `r` and output index `kk` the cell `(r, kk)` is computed from `shifts[r]`,
`zooms[r]`.  Per output element: the table cells of its coordinates are read; a flagged axis gives `*io = cval`;
otherwise for every knot tuple (`C18.tensorTerms` of the folded knot indices of `C18.axisEntry`) `idxs[fi]` is
written and `array.data()[idxs[fi]]` read at `vA.addr knot`. -/

section Zoom
variable {α : Type} [Add α] [Sub α] [Mul α] [Div α] [Neg α] [NatCast α] [IntCast α] [LT α] [DecidableLT α]

/-- the per-axis entries of output position `p` (the recursion of `C18.pixel`) -/
def zsEntries (fl : α → Int) (order : Nat) (m : Mode) :
    List Nat → List Int → List (Option α) → List (Option α) → Option (List (List Int × List α))
  | len :: ls, kk :: ks, s :: ss, z :: zs =>
    match C18.axisEntry fl order m len (C18.coord kk.toNat s z), zsEntries fl order m ls ks ss zs with
    | some e, some es => some (e :: es)
    | _, _ => none
  | _, _, _, _ => some []

def zsPixel (fl : α → Int) (order : Nat) (m : Mode) (vA vOut : C08.View) (shifts zooms : List (Option α))
    (k : Nat) : List RStep :=
  let p := unravelI vOut.shape k
  let tbl : List RLoc := (enumFrom 0 p).map fun rp => ⟨.own 1, ((pairNat rp.1 rp.2.toNat : Nat) : Int)⟩
  match zsEntries fl order m vA.shape p shifts zooms with
  | none => [⟨0, iterAddr vOut k, tbl, fun _ => 0⟩]
  | some entries =>
    let knots := (C18.tensorTerms entries).map (·.1)
    (enumFrom 0 knots).map (fun fk => (⟨2, (fk.1 : Int), tbl, fun _ => 0⟩ : RStep)) ++
    [⟨0, iterAddr vOut k,
      tbl ++ (enumFrom 0 knots).map (fun fk => ⟨.own 2, (fk.1 : Int)⟩) ++
        knots.map (fun pos => ⟨.inp 0, vA.addr (pos.map Int.toNat)⟩),
      fun _ => 0⟩]

def zoomShiftRaw (fl : α → Int) (order : Nat) (m : Mode) (vA vOut : C08.View) (shifts zooms : List (Option α)) :
    List RStep :=
  (enumFrom 0 vOut.shape).flatMap (fun rd =>
    (List.range rd.2).map fun (kk : Nat) =>
      (⟨1, ((pairNat rd.1 kk : Nat) : Int), [⟨.inp 1, (rd.1 : Int)⟩, ⟨.inp 2, (rd.1 : Int)⟩], fun _ => 0⟩ : RStep)) ++
  (List.range (shapeSize vOut.shape)).flatMap (zsPixel fl order m vA vOut shifts zooms)

end Zoom

/-! ## the kernels as calls -/

/-- a kernel invocation of the second batch with everything its access trace depends on (`zoomShift`: the
integer data of the precalculated tables, i.e. the role-level program of `zoomShiftRaw` at some scalar type) -/
inductive Kernel2 where
  | dilate (dt : DT) (vA vOut vBc : C08.View) (bc : Array Int)
  | rank (m : Mode) (rank : Int) (vA vOut vBc : C08.View) (bc : Array Int)
  | templateMatch (m : Mode) (je : Bool) (vA vOut vT : C08.View)
  | cooccurence (vA vR vBc : C08.View) (bc : Array Int) (mA : Int → Int)
  | distance (withOrig : Bool) (fo : Array Int × Array Int) (d0 d1 : Nat) (b s0 s1 ob os0 os1 : Int)
  | borders (m : Mode) (vA vOut vBc : C08.View) (bc : Array Int) (mA : Int → Int)
  | thin (vA vB : C08.View) (b : C15.Bin) (maxIter : Int)
  | zoomShift (fl : Rat → Int) (order : Nat) (m : Mode) (vA vOut : C08.View) (shifts zooms : List (Option Rat))

def Kernel2.raw : Kernel2 → List RStep
  | .dilate dt vA vOut vBc bc => dilateRaw dt vA vOut vBc bc
  | .rank m rk vA vOut vBc bc => rankRaw m rk vA vOut vBc bc
  | .templateMatch m je vA vOut vT => templateMatchRaw m je vA vOut vT
  | .cooccurence vA vR vBc bc mA => cooccurenceRaw vA vR vBc bc mA
  | .distance wo fo d0 d1 b s0 s1 ob os0 os1 => distanceRaw wo fo d0 d1 b s0 s1 ob os0 os1
  | .borders m vA vOut vBc bc mA => bordersRaw m vA vOut vBc bc mA
  | .thin vA vB b maxIter => thinRaw vA vB b maxIter
  | .zoomShift fl order m vA vOut shifts zooms => zoomShiftRaw fl order m vA vOut shifts zooms

/-- number of argument arrays and of owned arrays the kernel's roles refer to -/
def Kernel2.arity : Kernel2 → Nat × Nat
  | .dilate .. => (2, 2)
  | .rank .. => (2, 4)
  | .templateMatch .. => (2, 1)
  | .cooccurence .. => (2, 3)
  | .distance .. => (0, 6)
  | .borders .. => (2, 3)
  | .thin .. => (0, 4)
  | .zoomShift .. => (3, 3)

/-- kernel `k` called on the arrays of `c` -/
def Kernel2.call (k : Kernel2) (c : Call) : KCall := ⟨c, k.raw⟩

end Mahotas.C12
