/-
C12 (T4, third batch, round 4) — address-level access programs of further kernels, in the vocabulary of
`Model/C12Kernels.lean` (`RStep`: destination = index into the call's OWNED arrays, sources = `Role.inp i | Role.own i`).

Kernels: `majority_filter` and `locmin_max` (below).

`majority_filter` (`_morph.cpp: py_majority_filter`): a GATHER kernel — REAL step program, data independent.
roles: `inp 0` = the input image (read as `input.at(y+dy, x+dx)`, any strides), `own 0` = the (C-contiguous, zero-filled)
output. One step per window `k` (`y = k / (cols−N)`, `x = k % (cols−N)`, the loops `y != rows−N`, `x != cols−N` as they are):
the `N·N` pixels of the window are read, the output cell `(y+N/2)*cols + N/2 + x` receives `true` when `count >= N*N/2`;
where the C++ does not store, the step stores the value it read back from that cell (same memory; the access sets are a
superset of the C++'s).

Import-free (only `Mahotas.Model.*`).
-/
import Mahotas.Model.C12Kernels2
import Mahotas.Model.C14
namespace Mahotas.C12
open Mahotas

/-- the window pixels of window `(y, x)`: `input.at(y+dy, x+dx)`, `dy, dx < n`, in loop order -/
def majWindow (n : Nat) (vA : C08.View) (y x : Nat) : List Int :=
  (List.range n).flatMap fun dy => (List.range n).map fun dx => vA.at [y + dy, x + dx]

/-- the flat output index `output_iter − output.data()` of window `(y, x)` -/
def majIdx (n cols y x : Nat) : Nat := (y + n / 2) * cols + n / 2 + x

/-- `vs = [old value of the output cell, window pixels…]`: `if (count >= T) *output_iter = true;` -/
def majVal (n : Nat) : List Val → Val
  | old :: px => if px.countP (fun v => v != 0) ≥ n * n / 2 then 1 else old
  | [] => 0

def majPixel (n cols : Nat) (vA vOut : C08.View) (k : Nat) : RStep :=
  let y := k / (cols - n)
  let x := k % (cols - n)
  let o : Int := vOut.base + ((majIdx n cols y x : Nat) : Int)
  { dst := 0, doff := o,
    srcs := ⟨.own 0, o⟩ :: (majWindow n vA y x).map fun a => (⟨.inp 0, a⟩ : RLoc),
    op := majVal n }

def majorityRaw (n : Nat) (vA vOut : C08.View) : List RStep :=
  match vA.shape with
  | [rows, cols] =>
    if rows < n || cols < n then []
    else (List.range ((rows - n) * (cols - n))).map (majPixel n cols vA vOut)
  | _ => []

/-! ## locmin_max (`_morph.cpp` `locmin_max<T>`, as repaired: filter built from the input array): gather kernel — REAL

roles: `inp 0` = array, `inp 1` = Bc (the wrapper has removed its centre); `own 0` = the zero-filled bool result
(`PyArray_FILLWBYTE(output, 0)`), `own 1` = `filter_data_`.  Per pixel: `cur = *iter`, every neighbour through
`ExtendNearest` (`retrieve`), `goto skip_to_next` as soon as one beats `cur`, else `*rpos = true`.  One step per pixel: it
reads the old value of the result cell, `cur` and ALL neighbours (a superset of what the C++ reads when it exits early) and
stores `1` or the old value back. -/

/-- `vs = [old result cell, cur, neighbours…]` -/
def locVal (isMin : Bool) : List Val → Val
  | old :: cur :: nbs => if nbs.all (fun a => !C14.beats isMin a cur) then 1 else old
  | _ => 0

def locPixel (isMin : Bool) (vA vOut : C08.View) (nb : List (List Int)) (k : Nat) : RStep :=
  let p := unravelI vA.shape k
  { dst := 0, doff := iterAddr vOut k,
    srcs := ⟨.own 0, iterAddr vOut k⟩ :: ⟨.inp 0, iterAddr vA k⟩ ::
      nb.map (fun d => (⟨.inp 0, (nbrAddr .nearest vA (addPos p d)).getD vA.base⟩ : RLoc)),
    op := locVal isMin }

def locminmaxRaw (isMin : Bool) (vA vOut vBc : C08.View) (bc : Array Int) : List RStep :=
  filterCopyRaw 1 vBc ++
  (List.range (shapeSize vA.shape)).map (locPixel isMin vA vOut (C14.neighbours vBc.shape bc))

/-! ## hitmiss (`_morph.cpp` `hitmiss<T>`): gather kernel through `at_flat` — REAL step program

roles: `inp 0` = input, `inp 1` = Bc (read while the neighbour table is built: the program is generated from the table
`C08.hmTable vA mB vB`, i.e. from Bc's memory, as the labeled fold is from the labels); `own 0` = the result. Per pixel `i` one
unconditional store: `0` where the loop control skips the pixel (`C14.hmEvaluated` false: margins), else the conjunction of
`input.at_flat(i + delta) == value` over the table — the step reads ALL table entries (the C++ stops at the first mismatch:
a superset). -/

def hmVal (vals : List Int) (vs : List Val) : Val :=
  if (vals.zip vs).all (fun p => p.2 == p.1) then 1 else 0

def hmPixel (vA vOut : C08.View) (tab : List (Int × Int)) (bshape : List Nat) (i : Nat) : RStep :=
  if C14.hmEvaluated vA.shape bshape (vA.flatToPos (i : Int)) then
    { dst := 0, doff := iterAddr vOut i,
      srcs := tab.map (fun e => (⟨.inp 0, vA.atFlat ((i : Int) + e.1).toNat⟩ : RLoc)),
      op := hmVal (tab.map (·.2)) }
  else { dst := 0, doff := iterAddr vOut i, srcs := [], op := fun _ => 0 }

def hitmissRaw (vA vOut : C08.View) (tab : List (Int × Int)) (bshape : List Nat) : List RStep :=
  (List.range (shapeSize vA.shape)).map (hmPixel vA vOut tab bshape)

inductive Kernel3 where
  | majority (n : Nat) (vA vOut : C08.View)
  | locminmax (isMin : Bool) (vA vOut vBc : C08.View) (bc : Array Int)
  | hitmiss (vA vOut : C08.View) (tab : List (Int × Int)) (bshape : List Nat)

def Kernel3.raw : Kernel3 → List RStep
  | .majority n vA vOut => majorityRaw n vA vOut
  | .locminmax isMin vA vOut vBc bc => locminmaxRaw isMin vA vOut vBc bc
  | .hitmiss vA vOut tab bshape => hitmissRaw vA vOut tab bshape

/-- number of argument arrays and of owned arrays the kernel's roles refer to -/
def Kernel3.arity : Kernel3 → Nat × Nat
  | .majority .. => (1, 1)
  | .locminmax .. => (2, 2)
  | .hitmiss .. => (2, 1)

/-- kernel `k` called on the arrays of `c` -/
def Kernel3.call (k : Kernel3) (c : Call) : KCall := ⟨c, k.raw⟩

end Mahotas.C12
