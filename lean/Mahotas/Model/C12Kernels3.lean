/-
C12 (T4, third batch, round 4) — address-level access programs of further kernels, in the vocabulary of
`Model/C12Kernels.lean` (`RStep`: destination = index into the call's OWNED arrays, sources = `Role.inp i | Role.own i`).

`majority_filter` (`_morph.cpp: py_majority_filter`): a GATHER kernel — REAL step program, data independent.
roles: `inp 0` = the input image (read as `input.at(y+dy, x+dx)`, any strides), `own 0` = the (C-contiguous, zero-filled)
output. One step per window `k` (`y = k / (cols−N)`, `x = k % (cols−N)`, the loops `y != rows−N`, `x != cols−N` as they are):
the `N·N` pixels of the window are read, the output cell `(y+N/2)*cols + N/2 + x` receives `true` when `count >= N*N/2`;
where the C++ does not store, the step stores the value it read back from that cell (same memory; the access sets are a
superset of the C++'s).

Import-free (only `Mahotas.Model.*`).
-/
import Mahotas.Model.C12Kernels2
namespace Mahotas.C12
open Mahotas

/-- the window pixels of window `(y, x)`: `input.at(y+dy, x+dx)`, `dy, dx < n`, in loop order -/
def majWindow (n : Nat) (vA : C08.View) (y x : Nat) : List Int :=
  (List.range n).flatMap fun dy => (List.range n).map fun dx => vA.at [y + dy, x + dx]

/-- the flat output index `output_iter − output.data()` of window `(y, x)` -/
def majIdx (n cols y x : Nat) : Nat := (y + n / 2) * cols + n / 2 + x

/-- `vs = [old value of the output cell, window pixels…]`: `if (count >= T) *output_iter = true;` -/
def majVal (n : Nat) : List Val → Val
  | old :: px => if px.countP (fun v => v != 0) ≥ n * n / 2 then 1 else old
  | [] => 0

def majPixel (n cols : Nat) (vA vOut : C08.View) (k : Nat) : RStep :=
  let y := k / (cols - n)
  let x := k % (cols - n)
  let o : Int := vOut.base + ((majIdx n cols y x : Nat) : Int)
  { dst := 0, doff := o,
    srcs := ⟨.own 0, o⟩ :: (majWindow n vA y x).map fun a => (⟨.inp 0, a⟩ : RLoc),
    op := majVal n }

def majorityRaw (n : Nat) (vA vOut : C08.View) : List RStep :=
  match vA.shape with
  | [rows, cols] =>
    if rows < n || cols < n then []
    else (List.range ((rows - n) * (cols - n))).map (majPixel n cols vA vOut)
  | _ => []

inductive Kernel3 where
  | majority (n : Nat) (vA vOut : C08.View)

def Kernel3.raw : Kernel3 → List RStep
  | .majority n vA vOut => majorityRaw n vA vOut

/-- number of argument arrays and of owned arrays the kernel's roles refer to -/
def Kernel3.arity : Kernel3 → Nat × Nat
  | .majority .. => (1, 1)

/-- kernel `k` called on the arrays of `c` -/
def Kernel3.call (k : Kernel3) (c : Call) : KCall := ⟨c, k.raw⟩

end Mahotas.C12
