/-
C13 — region measurements and label-map utilities
(`_labeled.cpp`: `labeled_foldl`, `labeled_sum/max/min`, `relabel`, `is_same_labeling`, `remove_regions`,
 `borders`, `border`; `labeled.py`: `remove_bordering`, `filter_labeled`, `labeled_size`, `bwperim`, `bbox`;
 `_bbox.cpp`; `_center_of_mass.cpp`; `_histogram.cpp`).
Every definition is a transliteration of the loop that exists; the specifications (`…Spec`) restate the
property's words and are computed independently.
-/
import Mahotas.Model.Border
import Mahotas.Model.DType
import Mahotas.Model.C03
namespace Mahotas.C13
open Mahotas

/-! ### `labeled_foldl` and its instances -/

/-- `labeled_foldl`: `result[l] = f(value, result[l])` for every pixel whose label satisfies
    `0 ≤ l < maxlabel`, starting from `start` everywhere. Pixels are `(value, label)` in scan order. -/
def labeledFold {α : Type} (f : α → α → α) (start : α) (maxlabel : Nat) (px : List (α × Int)) : Array α :=
  px.foldl (fun res x => if 0 ≤ x.2 ∧ x.2 < (maxlabel : Int) then res.modify x.2.toNat (f x.1) else res)
    (Array.replicate maxlabel start)

/-- the values carrying label `l`, in scan order -/
def valuesOf {α : Type} (px : List (α × Int)) (l : Int) : List α :=
  (px.filter fun x => x.2 == l).map (·.1)

/-- `std_like_max(a, b) = (a < b) ? b : a`, `std_like_min(a, b) = !(b < a) ? a : b` -/
def stdMax {α : Type} [LT α] [DecidableRel (α := α) (· < ·)] (a b : α) : α := if a < b then b else a
def stdMin {α : Type} [LT α] [DecidableRel (α := α) (· < ·)] (a b : α) : α := if b < a then b else a

/-- integer instances: `std::plus<T>` wraps in the dtype (`-fno-strict-overflow`); bool sums are `or` -/
def sumInt (dt : DT) (n : Nat) (px : List (Int × Int)) : Array Int :=
  if dt.isBool then labeledFold (fun a r => if a ≠ 0 ∨ r ≠ 0 then 1 else 0) 0 n px
  else labeledFold (fun a r => dt.wrap (a + r)) 0 n px
def maxInt (dt : DT) (n : Nat) (px : List (Int × Int)) : Array Int := labeledFold stdMax dt.lo n px
def minInt (dt : DT) (n : Nat) (px : List (Int × Int)) : Array Int := labeledFold stdMin dt.hi n px

/-- floating instances; `lowest`/`highest` are `numeric_limits<T>::lowest()/max()` of the C type -/
def sumFloat (n : Nat) (px : List (Float × Int)) : Array Float := labeledFold (fun a r => a + r) 0.0 n px
def maxFloat (lowest : Float) (n : Nat) (px : List (Float × Int)) : Array Float := labeledFold stdMax lowest n px
def minFloat (highest : Float) (n : Nat) (px : List (Float × Int)) : Array Float := labeledFold stdMin highest n px

/-- `numeric_limits<double>::max()` and `numeric_limits<float>::max()` (as a double) -/
def dblMax : Float := Float.ofBits 0x7FEFFFFFFFFFFFFF
def fltMax : Float := Float.ofBits 0x47EFFFFFE0000000

/-! ### the exact per-label oracles of the driver for `labeled_sum/max/min` (unbounded integers) -/

/-- slot `l` = the exact integer sum of the values labelled `l` -/
def sumSpec (n : Nat) (px : List (Int × Int)) : List Int :=
  (List.range n).map fun (l : Nat) => (valuesOf px (l : Int)).foldl (· + ·) 0

/-- bool images: slot `l` = 1 iff some pixel labelled `l` is set -/
def orSpec (n : Nat) (px : List (Int × Int)) : List Int :=
  (List.range n).map fun (l : Nat) => if (valuesOf px (l : Int)).any (· ≠ 0) then 1 else 0

/-- slot `l` = the maximum of the values labelled `l` (0 for an empty label: not compared) -/
def maxSpec (n : Nat) (px : List (Int × Int)) : List Int :=
  (List.range n).map fun (l : Nat) => (valuesOf px (l : Int)).foldl max ((valuesOf px (l : Int)).headD 0)

def minSpec (n : Nat) (px : List (Int × Int)) : List Int :=
  (List.range n).map fun (l : Nat) => (valuesOf px (l : Int)).foldl min ((valuesOf px (l : Int)).headD 0)

/-- the `spec=` field of `kind=fold` (for float data: on the scaled integers, then `Float.ofInt · / scale`) -/
def foldSpec (isBool : Bool) (op : String) (n : Nat) (px : List (Int × Int)) : List Int :=
  match op with
  | "sum" => if isBool then orSpec n px else sumSpec n px
  | "max" => maxSpec n px
  | _ => minSpec n px

/-! ### histogram / sizes -/

/-- `compute_histogram` into a zeroed array of `n` bins -/
def histogram (n : Nat) (vals : List Int) : Array Nat :=
  vals.foldl (fun h v => h.modify v.toNat (· + 1)) (Array.replicate n 0)

def maxOf (vals : List Int) : Int := vals.foldl max 0

/-- `fullhistogram` of an unsigned image (bool: `[zeros, ones]`) -/
def fullHistogram (isBool : Bool) (vals : List Int) : List Nat :=
  if isBool then
    let ones := (vals.filter (· ≠ 0)).length
    [vals.length - ones, ones]
  else (histogram ((maxOf vals).toNat + 1) vals).toList

def countSpec (vals : List Int) (n : Nat) : List Nat :=
  (List.range n).map fun (i : Nat) => (vals.filter (· == (i : Int))).length

/-! ### bounding boxes -/

def bboxInit (shape : List Nat) : List Int := shape.flatMap fun (d : Nat) => [(d : Int), 0]

/-- one pixel of the generic loop: `extrema[2j] = min(.., where[j])`, `extrema[2j+1] = max(.., where[j]+1)` -/
def bboxUpdate : List Int → List Int → List Int
  | lo :: hi :: rest, p :: ps => min lo p :: max hi (p + 1) :: bboxUpdate rest ps
  | ext, _ => ext

/-- `py_bbox`'s final test: no pixel seen (`extrema[1] == 0`) ⇒ all zeros -/
def bboxFinish (ext : List Int) : List Int := if ext.getD 1 0 == 0 then ext.map (fun _ => 0) else ext

/-- generic `bbox<T>` -/
def bboxGeneric (shape : List Nat) (data : List Int) : List Int :=
  bboxFinish (((List.range data.length).foldl (fun ext i =>
    if data.getD i 0 ≠ 0 then bboxUpdate ext (unravelI shape i) else ext) (bboxInit shape)))

/-- the x-loop of `carray2_bbox` for row `y` (skip-ahead to the known right edge) -/
def bboxRow (N1 : Nat) (row : Nat → Int) (y : Int) : Nat → Nat → (Int × Int × Int × Int) → (Int × Int × Int × Int)
  | 0, _, e => e
  | fuel + 1, x, e =>
    if x ≥ N1 then e else
    if row x ≠ 0 then
      let e0 := min e.1 y
      let e1 := max e.2.1 (y + 1)
      let e2 := min e.2.2.1 x
      if ((x : Int) + 1) < e.2.2.2 then
        bboxRow N1 row y fuel ((e.2.2.2 - (x : Int) - 1).toNat + x + 1) (e0, e1, e2, e.2.2.2)
      else bboxRow N1 row y fuel (x + 1) (e0, e1, e2, (x : Int) + 1)
    else bboxRow N1 row y fuel (x + 1) e

/-- `carray2_bbox` (C-contiguous 2-D fast path) -/
def bboxFast (N0 N1 : Nat) (data : List Int) : List Int :=
  let e := (List.range N0).foldl (fun e y => bboxRow N1 (fun x => data.getD (y * N1 + x) 0) y (N1 + 1) 0 e)
    ((N0 : Int), (0 : Int), (N1 : Int), (0 : Int))
  bboxFinish [e.1, e.2.1, e.2.2.1, e.2.2.2]

/-- specification: per axis the least coordinate and the greatest coordinate + 1 of the non-zero pixels
    (`none` when there is no such pixel) -/
def bboxSpec (shape : List Nat) (data : List Int) : Option (List Int) :=
  let ps := ((List.range data.length).filter fun i => data.getD i 0 ≠ 0).map (unravelI shape)
  match ps with
  | [] => none
  | p0 :: _ =>
    some ((List.range shape.length).flatMap fun j =>
      [ps.foldl (fun m p => min m (p.getD j 0)) (p0.getD j 0),
       ps.foldl (fun m p => max m (p.getD j 0 + 1)) (p0.getD j 0 + 1)])

/-- `bbox_labeled` + the absent-label zeroing of `py_bbox_labeled`, for labels `0..n`: the block
    `extrema + label*2*nd` of every label starts as `[dim_0, 0, dim_1, 0, …]`, every pixel updates the block
    of its label, and a block whose `extrema[1]` is still 0 is zeroed. -/
def bboxLabeled (shape : List Nat) (labels : List Int) (n : Nat) : List Int :=
  let rows := (List.range labels.length).foldl (fun (rows : Array (List Int)) i =>
      rows.modify (labels.getD i 0).toNat (fun r => bboxUpdate r (unravelI shape i)))
    (Array.replicate (n + 1) (bboxInit shape))
  (List.range (n + 1)).flatMap fun l => bboxFinish (rows.getD l [])

def bboxLabeledSpec (shape : List Nat) (labels : List Int) (n : Nat) : List Int :=
  (List.range (n + 1)).flatMap fun (l : Nat) =>
    match bboxSpec shape (labels.map fun v => if v == (l : Int) then 1 else 0) with
    | some b => b
    | none => List.replicate (2 * shape.length) 0

/-! ### centre of mass -/

/-- the arithmetic the kernel uses, as data: the model is run at `Float` and proved over any field -/
structure NumOps (α : Type) where
  zero : α
  add : α → α → α
  mul : α → α → α
  div : α → α → α
  ofNat : Nat → α

def floatOps : NumOps Float :=
  { zero := 0.0, add := (· + ·), mul := (· * ·), div := (· / ·), ofNat := Float.ofNat }

/-- `centers_label[j] += val * pos.index_rev(j)` for `j = 0..nd-1` (`index_rev(j)` = coordinate `nd-1-j`) -/
def rowAdd {α : Type} (ops : NumOps α) (nd : Nat) (val : α) (pos : List Nat) (row : List α) : List α :=
  (List.range nd).map fun j =>
    ops.add (row.getD j ops.zero) (ops.mul val (ops.ofNat (pos.getD (nd - 1 - j) 0)))

/-- one pixel of `center_of_mass<T>`: `totals[label] += val` and the row of the label is advanced -/
def comStep {α : Type} (ops : NumOps α) (shape : List Nat) (vals : List α) (labels : List Int)
    (st : Array α × Array (List α)) (i : Nat) : Array α × Array (List α) :=
  let l := (labels.getD i 0).toNat
  (st.1.modify l (fun t => ops.add t (vals.getD i ops.zero)),
   st.2.modify l (rowAdd ops shape.length (vals.getD i ops.zero) (unravel shape i)))

/-- `center_of_mass<T>` + the division and coordinate reversal of `py_center_of_mass`;
    `labels = []` stands for `labels == NULL`. Result: `(maxlabel+1) × nd`, row-major.
    (`centers + label*nd` is kept as one row per label.) -/
def comModelG {α : Type} (ops : NumOps α) (shape : List Nat) (vals : List α) (labels : List Int) : List α :=
  let nd := shape.length
  let nl := (maxOf labels).toNat + 1
  let st := (List.range vals.length).foldl (comStep ops shape vals labels)
    (Array.replicate nl ops.zero, Array.replicate nl (List.replicate nd ops.zero))
  (List.range nl).flatMap fun l =>
    ((List.range nd).map fun j =>
      ops.div ((st.2.getD l []).getD j ops.zero) (st.1.getD l ops.zero)).reverse

def comModel (shape : List Nat) (vals : List Float) (labels : List Int) : List Float :=
  comModelG floatOps shape vals labels

/-- specification on exact integers: data `k / scale`; numerator `Σ k·coord_j` and denominator `Σ k`
    per label (the quotient is compared only when the denominator is non-zero) -/
def comSpec (shape : List Nat) (ks : List Int) (labels : List Int) : List (Int × Int) :=
  let nd := shape.length
  let nl := (maxOf labels).toNat + 1
  let idx := List.range ks.length
  (List.range nl).flatMap fun (l : Nat) =>
    let mine := idx.filter fun i => (labels.getD i 0) == (l : Int)
    let den := (mine.map fun i => ks.getD i 0).foldl (· + ·) 0
    (List.range nd).map fun j =>
      ((mine.map fun i => ks.getD i 0 * ((unravel shape i).getD j 0 : Nat)).foldl (· + ·) 0, den)

/-! ### relabel, is_same_labeling, remove_regions, remove_bordering, filter_labeled -/

/-- `relabel`: the first-seen renumbering loop with `0 ↦ 0` -/
def relabel (labels : List Int) : List Int × Int := C03.renumber 0 labels

/-- specification: 0 stays 0; a non-zero value gets 1 + the number of distinct non-zero values whose
    first occurrence precedes its own first occurrence; count = number of distinct non-zero values -/
def relabelSpec (labels : List Int) : List Int × Int :=
  let firsts := (List.range labels.length).filter fun i =>
    labels.getD i 0 ≠ 0 && labels.idxOf (labels.getD i 0) == i
  (labels.map fun v => if v == 0 then 0 else
      (((firsts.filter fun i => i < labels.idxOf v).length + 1 : Nat) : Int), (firsts.length : Int))

/-- `is_same_labeling`: two maps seeded with `0 ↦ 0`, `insert` keeps an existing entry -/
def sameGo (index rindex : List (Int × Int)) : List (Int × Int) → Bool
  | [] => true
  | (a, b) :: rest =>
    let index' := if (index.lookup a).isSome then index else (a, b) :: index
    let rindex' := if (rindex.lookup b).isSome then rindex else (b, a) :: rindex
    if index'.lookup a != some b || rindex'.lookup b != some a then false
    else sameGo index' rindex' rest

def isSameLabeling (a b : List Int) : Bool := sameGo [(0, 0)] [(0, 0)] (a.zip b)

/-- specification: some bijection of label values fixing 0 carries one map to the other, i.e. equal
    labels correspond to equal labels in both directions and background corresponds to background -/
def sameSpec (a b : List Int) : Bool :=
  let ps := a.zip b
  ps.all fun x => (x.1 == 0) == (x.2 == 0) && ps.all fun y => (x.1 == y.1) == (x.2 == y.2)

/-- `std::binary_search(first, last, x)` = `lower_bound` then `!(x < *it)` -/
def lowerBound (arr : Array Int) (x : Int) : Nat → Nat → Nat → Nat
  | 0, first, _ => first
  | fuel + 1, first, count =>
    if count = 0 then first else
    let step := count / 2
    if arr.getD (first + step) 0 < x then lowerBound arr x fuel (first + step + 1) (count - (step + 1))
    else lowerBound arr x fuel first step

def binarySearch (arr : Array Int) (x : Int) : Bool :=
  let i := lowerBound arr x (arr.size + 1) 0 arr.size
  i < arr.size && !(x < arr.getD i 0)

/-- `np.unique`: sorted, duplicates removed -/
def sortedUnique (xs : List Int) : List Int := (xs.mergeSort (· ≤ ·)).eraseDups

def removeRegions (labels regions : List Int) : List Int :=
  let r := (sortedUnique regions).toArray
  labels.map fun v => if v ≠ 0 && binarySearch r v then 0 else v

def removeRegionsSpec (labels regions : List Int) : List Int :=
  labels.map fun v => if regions.contains v then 0 else v

/-- Python `slice(r)` and `slice(n - r, None)` on an axis of length `n` (`r ≥ 0`): is index `x` selected? -/
def inBorderSlices (n : Nat) (r : Nat) (x : Nat) : Bool :=
  let stop := min r n
  let start : Nat := if r ≤ n then n - r else (2 * n - r)   -- negative start counts from the end, clipped at 0
  x < stop || (start ≤ x && x < n)

/-- `remove_bordering`: values seen in the border slabs are zeroed everywhere (`out *= (im != val)`) -/
def removeBordering (shape : List Nat) (labels : List Int) (rsize : List Nat) : List Int :=
  let idx := List.range labels.length
  let invalid := (idx.filter fun i =>
      let pos := unravel shape i
      labels.getD i 0 ≠ 0 &&
      (List.range shape.length).any fun d => inBorderSlices (shape.getD d 0) (rsize.getD d 0) (pos.getD d 0)).map
        fun i => labels.getD i 0
  labels.map fun v => if invalid.contains v then 0 else v

/-- specification: a region is selected iff one of its pixels lies closer than `rsize` to a face of the image -/
def touchesBorder (shape : List Nat) (labels : List Int) (rsize : List Nat) (v : Int) : Bool :=
  (List.range labels.length).any fun i =>
    labels.getD i 0 == v && (List.range shape.length).any fun d =>
      let x := (unravel shape i).getD d 0
      let n := shape.getD d 0
      let r := rsize.getD d 0
      x < r || n ≤ x + r

def removeBorderingSpec (shape : List Nat) (labels : List Int) (rsize : List Nat) : List Int :=
  labels.map fun v => if v ≠ 0 && touchesBorder shape labels rsize v then 0 else v

/-- the size test of `filter_labeled` (min/max = 0 encode "not given", as the wrapper's `if min_size:` does) -/
def badSize (minSize maxSize c : Nat) : Bool :=
  (minSize ≠ 0 && c < minSize) || (maxSize ≠ 0 && c > maxSize)

/-- `filter_labeled` -/
def filterLabeled (shape : List Nat) (labels : List Int) (rb : Bool) (minSize maxSize : Nat) : List Int × Int :=
  let st : List Int × Int :=
    if rb then relabel (removeBordering shape labels (shape.map fun _ => 1)) else (labels, maxOf labels)
  let nr := st.2.toNat
  let sizes := histogram (nr + 1) st.1
  let toRemove := (List.range (nr + 1)).filter fun l => l ≠ 0 && badSize minSize maxSize (sizes.getD l 0)
  relabel (removeRegions st.1 (toRemove.map fun (l : Nat) => (l : Int)))

/-- specification: the label map with exactly the selected regions zeroed (regions touching the border when
    `rb`, regions smaller than `minSize` / larger than `maxSize` when given) -/
def filterKept (shape : List Nat) (labels : List Int) (rb : Bool) (minSize maxSize : Nat) : List Int :=
  labels.map fun v =>
    if v ≠ 0 && ((rb && touchesBorder shape labels (shape.map fun _ => 1) v) ||
        badSize minSize maxSize (labels.filter (· == v)).length) then 0 else v

def filterLabeledSpec (shape : List Nat) (labels : List Int) (rb : Bool) (minSize maxSize : Nat) : List Int × Int :=
  relabelSpec (filterKept shape labels rb minSize maxSize)

/-! ### borders, border, bwperim -/

/-- `borders<T>`: some neighbour the iterator retrieves (per the border mode) differs from the pixel -/
def bordersModel (m : Mode) (shape : List Nat) (labels : List Int) (offs : List (List Int)) : List Bool :=
  (List.range labels.length).map fun i =>
    let cur := labels.getD i 0
    offs.any fun k =>
      match fixPos m shape (addPos (unravelI shape i) k) with
      | some q => labels.getD (ravelI shape q) 0 != cur
      | none => false

/-- specification: the same with the *mathematical* border rule (`borderSpec`): with `constant`/`ignore`
    only neighbours inside the image count -/
def bordersSpec (m : Mode) (shape : List Nat) (labels : List Int) (offs : List (List Int)) : List Bool :=
  (List.range labels.length).map fun i =>
    let cur := labels.getD i 0
    offs.any fun k =>
      match specPos m shape (addPos (unravelI shape i) k) with
      | some q => labels.getD (ravelI shape q) 0 != cur
      | none => false

/-- `border<T>(…, i, j)` (`ExtendConstant`): pixels of `i` with a neighbour `j` inside the image and vice versa -/
def borderModel (shape : List Nat) (labels : List Int) (offs : List (List Int)) (li lj : Int) : List Bool :=
  (List.range labels.length).map fun ii =>
    let cur := labels.getD ii 0
    if cur = li ∨ cur = lj then
      let other := if cur = li then lj else li
      offs.any fun k =>
        match fixPos .constant shape (addPos (unravelI shape ii) k) with
        | some q => labels.getD (ravelI shape q) 0 == other
        | none => false
    else false

def borderSpec2 (shape : List Nat) (labels : List Int) (offs : List (List Int)) (li lj : Int) : List Bool :=
  (List.range labels.length).map fun ii =>
    let cur := labels.getD ii 0
    offs.any fun k =>
      let q := addPos (unravelI shape ii) k
      inside shape q &&
        ((cur == li && labels.getD (ravelI shape q) 0 == lj) || (cur == lj && labels.getD (ravelI shape q) 0 == li))

/-- `bwperim`: `bw & borders(bw, n, mode)` -/
def bwperim (m : Mode) (shape : List Nat) (bw : List Int) (offs : List (List Int)) : List Bool :=
  (bw.zip (bordersModel m shape bw offs)).map fun x => x.1 ≠ 0 && x.2

def bwperimSpec (m : Mode) (shape : List Nat) (bw : List Int) (offs : List (List Int)) : List Bool :=
  (bw.zip (bordersSpec m shape bw offs)).map fun x => x.1 ≠ 0 && x.2

/-! ### round 4: the Python wrappers around the kernels (`bbox.py`, `labeled.py`, `histogram.py`) -/

/-- `bbox(img, border=b)` (`bbox.py`): `if border:` the lower ends become `max(lo - b, 0)` and the upper ends
    `hi + b` — the upper end is **not** clipped to the image (slicing clips it later); `b` may be negative -/
def bboxBorderGo (b : Int) : List Int → List Int
  | lo :: hi :: rest => max (lo - b) 0 :: (hi + b) :: bboxBorderGo b rest
  | e => e

def bboxBorder (ext : List Int) (b : Int) : List Int := if b = 0 then ext else bboxBorderGo b ext

/-- one end of the Python slice `slice(s, e)` on an axis of length `n`: a negative index counts from the end,
    everything is clipped into `[0, n]` -/
def sliceBound (n : Nat) (v : Int) : Nat := if v < 0 then (v + (n : Int)).toNat else min v.toNat n

/-- is index `x` selected by `slice(s, e)` on an axis of length `n`? -/
def sliceSel (n : Nat) (s e : Int) (x : Nat) : Bool := sliceBound n s ≤ x && x < sliceBound n e

/-- `img[tuple(slice(s, e) for s, e in box)]` (`bbox(…, as_slice=True)` + the indexing of `croptobbox`):
    the shape of the view and the flat indices (C order) of the pixels it shows, in the view's own C order -/
def cropTo (shape : List Nat) (box : List Int) : List Nat × List Nat :=
  let nd := shape.length
  let outShape := (List.range nd).map fun d =>
    sliceBound (shape.getD d 0) (box.getD (2 * d + 1) 0) - sliceBound (shape.getD d 0) (box.getD (2 * d) 0)
  (outShape, (List.range (shapeSize shape)).filter fun i =>
    (List.range nd).all fun d =>
      sliceSel (shape.getD d 0) (box.getD (2 * d) 0) (box.getD (2 * d + 1) 0) ((unravel shape i).getD d 0))

/-- specification of `croptobbox(img, border=b)` for `b ≥ 0` and a box `[lo_d, hi_d)` inside the image:
    exactly the pixels within `b` of the box on every axis, clipped to the image -/
def cropSpec (shape : List Nat) (box : List Int) (b : Int) : List Nat :=
  (List.range (shapeSize shape)).filter fun i =>
    (List.range shape.length).all fun d =>
      let x : Int := ((unravel shape i).getD d 0 : Nat)
      decide (box.getD (2 * d) 0 - b ≤ x) && decide (x < box.getD (2 * d + 1) 0 + b)

/-- `labeled_sum(array, labeled, minlength)`: `max(labeled.max() + 1, minlength)` output slots
    (`minlength = none` is Python's `None`) -/
def foldLen (labels : List Int) (minlength : Option Int) : Nat :=
  match minlength with
  | none => (maxOf labels + 1).toNat
  | some m => (max (maxOf labels + 1) m).toNat

/-- `labeled_size`: `fullhistogram(labeled.astype(np.uint32))` — labels are reduced modulo 2^32 and a bool
    map goes through the counting kernel (not through the `[zeros, ones]` shortcut) -/
def labeledSize (vals : List Int) : List Nat := fullHistogram false (vals.map (· % 4294967296))

/-- dtypes `fullhistogram` accepts: bool by the wrapper's shortcut, the unsigned types by the kernel's
    switch; signed types pass `_verify_is_integer_type` and are rejected by the kernel (`Cannot handle type.`) -/
def histAccepts (dt : String) : Bool := ["b1", "u8", "u16", "u32", "u64"].contains dt

/-- `is_same_labeling` of the wrapper: maps of different shapes are never the same labeling -/
def isSameLabelingShaped (s0 s1 : List Nat) (a b : List Int) : Bool := s0 == s1 && isSameLabeling a b
def sameSpecShaped (s0 s1 : List Nat) (a b : List Int) : Bool := s0 == s1 && sameSpec a b

/-- `remove_regions_where(labeled, conditions)`: `regions, = np.where(conditions)`; `remove_regions` -/
def removeRegionsWhere (labels conds : List Int) : List Int :=
  removeRegions labels (((List.range conds.length).filter fun i => conds.getD i 0 ≠ 0).map fun (i : Nat) => (i : Int))

/-- specification: a pixel is zeroed iff `conditions[label]` exists and is true -/
def removeRegionsWhereSpec (labels conds : List Int) : List Int :=
  labels.map fun v => if 0 ≤ v && v.toNat < conds.length && conds.getD v.toNat 0 ≠ 0 then 0 else v

/-! #### `labeled.perimeter` (2-D): `bwperim`, convolution with the 3×3 mask `[[10,2,10],[2,1,2],[10,2,10]]`
    (mode `reflect`), `fullhistogram`, dot product of the first 34 bins with the weight table -/

def nb9 : List (List Int) := [[-1, -1], [-1, 0], [-1, 1], [0, -1], [0, 0], [0, 1], [1, -1], [1, 0], [1, 1]]

def perimMagic (k : List Int) : Nat :=
  if k.getD 0 0 = 0 ∧ k.getD 1 0 = 0 then 1 else if k.getD 0 0 = 0 ∨ k.getD 1 0 = 0 then 2 else 10

/-- `mh.convolve(perim.astype(uint8), _perimeter_magic)`: default mode `reflect` through `fix_offset`;
    the mask is symmetric, so the flip of the convolution is invisible; sums ≤ 49 fit `uint8` -/
def perimTerm (shape : List Nat) (perim : List Bool) (i : Nat) (k : List Int) : Nat :=
  match fixPos .reflect shape (addPos (unravelI shape i) k) with
  | some q => if perim.getD (ravelI shape q) false then perimMagic k else 0
  | none => 0

def perimConvAt (shape : List Nat) (perim : List Bool) (i : Nat) : Nat :=
  (nb9.map (perimTerm shape perim i)).foldl (· + ·) 0

def perimConv (shape : List Nat) (perim : List Bool) : List Nat :=
  (List.range perim.length).map (perimConvAt shape perim)

/-- class of a histogram bin in `_perimeter_values`: 1 ↦ weight 1, 2 ↦ √2, 3 ↦ (1+√2)/2, 0 ↦ weight 0 -/
def perimClass (v : Nat) : Nat :=
  if [5, 7, 15, 17, 25, 27].contains v then 1 else if [21, 33].contains v then 2
  else if [13, 23].contains v then 3 else 0

/-- `perimeter`: how many pixels enter the dot product with weight 1, √2 and (1+√2)/2
    (`histogram[:34]` against the table; the result is `n1 + n2·√2 + n3·(1+√2)/2` in double) -/
def perimeterCounts (m : Mode) (shape : List Nat) (bw : List Int) (offs : List (List Int)) : List Nat :=
  let conv := perimConv shape (bwperim m shape bw offs)
  let hist := fullHistogram false (conv.map fun (v : Nat) => (v : Int))
  let size := min 34 hist.length
  [1, 2, 3].map fun c =>
    (((List.range size).filter fun v => perimClass v == c).map fun v => hist.getD v 0).foldl (· + ·) 0

/-- specification: classify every perimeter pixel by its numbers `a` of edge neighbours and `d` of diagonal
    neighbours on the perimeter (neighbours by the mathematical `reflect` rule): weight 1 for `a ∈ {2,3}, d ≤ 2`;
    √2 for `(a, d) ∈ {(0,2), (1,3)}`; (1+√2)/2 for `a = 1, d ∈ {1,2}`; everything else weight 0 -/
def perimClassAD (c a d : Nat) : Nat :=
  if c = 0 then 0
  else if (a = 2 ∨ a = 3) ∧ d ≤ 2 then 1
  else if (a = 0 ∧ d = 2) ∨ (a = 1 ∧ d = 3) then 2
  else if a = 1 ∧ (d = 1 ∨ d = 2) then 3 else 0

def perimAt (shape : List Nat) (perim : List Bool) (i : Nat) (k : List Int) : Nat :=
  match specPos .reflect shape (addPos (unravelI shape i) k) with
  | some q => if perim.getD (ravelI shape q) false then 1 else 0
  | none => 0

def perimCls (shape : List Nat) (perim : List Bool) (i : Nat) : Nat :=
  perimClassAD (perimAt shape perim i [0, 0])
    (perimAt shape perim i [-1, 0] + perimAt shape perim i [0, -1] + perimAt shape perim i [0, 1] +
      perimAt shape perim i [1, 0])
    (perimAt shape perim i [-1, -1] + perimAt shape perim i [-1, 1] + perimAt shape perim i [1, -1] +
      perimAt shape perim i [1, 1])

def perimeterCountsSpec (m : Mode) (shape : List Nat) (bw : List Int) (offs : List (List Int)) : List Nat :=
  let perim := bwperimSpec m shape bw offs
  [1, 2, 3].map fun c => ((List.range perim.length).filter fun i => perimCls shape perim i == c).length

/-! ### driver entry -/

def modeOf (s : String) : Mode :=
  match s with
  | "nearest" => .nearest | "wrap" => .wrap | "reflect" => .reflect
  | "mirror" => .mirror | "ignore" => .ignore | _ => .constant

def handle (a : Args) : String :=
  let shape := a.nats "shape"
  let data := a.ints "data"
  let labels := a.ints "labels"
  match a.str "kind" with
  | "fold" =>
    let n := a.nat "n"
    let op := a.str "op"
    let dtn := a.str "dt"
    let cnt := (List.range n).map fun (l : Nat) => (valuesOf (data.zip labels) (l : Int)).length
    -- the length the wrapper allocates (`labeled.max() + 1`, `minlength`); `n` is what the harness measured
    let ml : Option Int := if a.str "minlength" == "-" || !a.has "minlength" then none else some (a.int "minlength")
    let len := foldLen labels ml
    if dtn == "f32" || dtn == "f64" then
      let scale := Float.ofNat (a.nat "scale" 1)
      let px := (data.map fun k => Float.ofInt k / scale).zip labels
      let big := if dtn == "f32" then fltMax else dblMax
      let model := match op with
        | "sum" => sumFloat n px
        | "max" => maxFloat (-big) n px
        | _ => minFloat big n px
      -- exact specification on the scaled integers
      let ipx := data.zip labels
      let spec := (foldSpec false op n ipx).map fun (v : Int) => Float.ofInt v / scale
      s!"model={showFloats model.toList} spec={showFloats spec} cnt={showNats cnt} len={len}"
    else
      let dt := DT.ofName dtn
      let px := data.zip labels
      let model := match op with
        | "sum" => sumInt dt n px
        | "max" => maxInt dt n px
        | _ => minInt dt n px
      let spec := foldSpec dt.isBool op n px
      -- the slots where oracle and model are comparable: the hypotheses of `C13_labeled_sum_oracle_eq_model`
      -- (`dt.InRange` of the exact sum) and `C13_labeled_max_min_oracle_eq_model` (a non-empty label), evaluated here
      let ok := if op == "sum" then spec.map fun (v : Int) => decide (dt.lo ≤ v ∧ v ≤ dt.hi)
        else cnt.map fun c => decide (0 < c)
      s!"model={showInts model.toList} spec={showInts spec} cnt={showNats cnt} len={len} ok={showBools ok}"
  | "hist" =>
    let h := fullHistogram (a.str "dt" == "b1") data
    s!"model={showNats h} spec={showNats (countSpec data h.length)}"
  | "bbox" =>
    let fast := match shape with
      | [n0, n1] => bboxFast n0 n1 data
      | _ => bboxGeneric shape data
    let spec := match bboxSpec shape data with
      | some b => showInts b
      | none => "none"
    s!"generic={showInts (bboxGeneric shape data)} fast={showInts fast} spec={spec}"
  | "bboxl" =>
    let n := (maxOf labels).toNat
    s!"model={showInts (bboxLabeled shape labels n)} spec={showInts (bboxLabeledSpec shape labels n)}"
  | "com" =>
    let scale := Float.ofNat (a.nat "scale" 1)
    let vals := data.map fun k => Float.ofInt k / scale
    let model := comModel shape vals labels
    let sp := comSpec shape data labels
    let spec := sp.map fun nd => Float.ofInt nd.1 / Float.ofInt nd.2
    let ok := sp.map fun nd => nd.2 != 0
    s!"model={showFloats model} spec={showFloats spec} ok={showBools ok}"
  | "relabel" =>
    let m := relabel labels
    let s := relabelSpec labels
    s!"model={showInts m.1} nmodel={m.2} spec={showInts s.1} nspec={s.2}"
  | "same" =>
    let b := a.ints "labels2"
    s!"model={showBools [isSameLabeling labels b]} spec={showBools [sameSpec labels b]}"
  | "remove" =>
    let r := a.ints "regions"
    s!"model={showInts (removeRegions labels r)} spec={showInts (removeRegionsSpec labels r)}"
  | "rmborder" =>
    let r := a.nats "rsize"
    s!"model={showInts (removeBordering shape labels r)} spec={showInts (removeBorderingSpec shape labels r)}"
  | "filter" =>
    let rb := a.nat "rb" != 0
    let m := filterLabeled shape labels rb (a.nat "min") (a.nat "max")
    let s := filterLabeledSpec shape labels rb (a.nat "min") (a.nat "max")
    s!"model={showInts m.1} nmodel={m.2} spec={showInts s.1} nspec={s.2}"
  | "borders" =>
    let offs := C03.offsets (a.nats "bshape") (a.ints "bc").toArray
    let m := modeOf (a.str "mode")
    s!"model={showBools (bordersModel m shape labels offs)} spec={showBools (bordersSpec m shape labels offs)}"
  | "border" =>
    let offs := C03.offsets (a.nats "bshape") (a.ints "bc").toArray
    let m := borderModel shape labels offs (a.int "i") (a.int "j")
    let s := borderSpec2 shape labels offs (a.int "i") (a.int "j")
    s!"model={showBools m} spec={showBools s}"
  | "bwperim" =>
    let offs := C03.offsets (a.nats "bshape") (a.ints "bc").toArray
    let m := modeOf (a.str "mode")
    s!"model={showBools (bwperim m shape labels offs)} spec={showBools (bwperimSpec m shape labels offs)}"
  | "bboxb" =>
    -- bbox(img, border=b[, as_slice=True]) and croptobbox(img, border=b)
    let b := a.int "border"
    let raw := match shape with
      | [n0, n1] => if a.nat "fast" != 0 then bboxFast n0 n1 data else bboxGeneric shape data
      | _ => bboxGeneric shape data
    let box := bboxBorder raw b
    let crop := cropTo shape box
    let sl := (List.range shape.length).flatMap fun d =>
      [sliceBound (shape.getD d 0) (box.getD (2 * d) 0), sliceBound (shape.getD d 0) (box.getD (2 * d + 1) 0)]
    let spec := match bboxSpec shape data with
      | some bx => if b ≥ 0 then showNats (cropSpec shape bx b) else "none"
      | none => "none"
    s!"box={showInts box} slices={showNats sl} cshape={showNats crop.1} cidx={showNats crop.2} spec={spec}"
  | "size" =>
    let h := labeledSize data
    s!"model={showNats h} spec={showNats (countSpec data h.length)}"
  | "histok" => s!"accept={showBools [histAccepts (a.str "dt")]}"
  | "same2" =>
    let b := a.ints "labels2"
    let s2 := a.nats "shape2"
    s!"model={showBools [isSameLabelingShaped shape s2 labels b]} spec={showBools [sameSpecShaped shape s2 labels b]}"
  | "rmwhere" =>
    let c := a.ints "conds"
    s!"model={showInts (removeRegionsWhere labels c)} spec={showInts (removeRegionsWhereSpec labels c)}"
  | "perimeter" =>
    let offs := C03.offsets (a.nats "bshape") (a.ints "bc").toArray
    let m := modeOf (a.str "mode")
    s!"model={showNats (perimeterCounts m shape labels offs)} spec={showNats (perimeterCountsSpec m shape labels offs)}"
  | k => s!"error=unknown-kind-{k}"

end Mahotas.C13
