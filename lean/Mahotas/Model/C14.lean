/-
C14 — local / regional extrema, hole closing, hit-or-miss
(`_morph.cpp`: `locmin_max`, `remove_fake_regmin_max`, `close_holes`, `hitmiss`;
 `morph.py`: `_remove_centre`, `locmax`, `locmin`, `regmax`, `regmin`, `close_holes`, `hitmiss`).

Values are integers: the kernels only *compare* pixel values, so float images enter through an
order isomorphism onto integers (done by the harness, NaN excluded).
-/
import Mahotas.Model.C01
namespace Mahotas.C14
open Mahotas

/-! ### neighbourhoods -/

def isZeroPos (k : List Int) : Bool := k.all (· == 0)

/-- offsets `k - c` of the non-zero entries of `Bc`, the centre removed
    (`_remove_centre` in Python followed by the compressed footprint / `neighbours(Bc)`), scan order. -/
def neighbours (bshape : List Nat) (bc : Array Int) : List (List Int) :=
  let c := centreOf bshape
  (List.range (shapeSize bshape)).filterMap fun i =>
    let k := subPos (unravelI bshape i) c
    if bc.getD i 0 == 0 || isZeroPos k then none else some k

/-- `_remove_centre` (`morph.py`): `Bc[tuple(s//2 for s in Bc.shape)] = False`, done by
    `locmax`/`locmin`/`regmax`/`regmin` on a copy of the structuring element as given (round 4). -/
def removeCentre (bshape : List Nat) (bc : Array Int) : Array Int :=
  bc.setIfInBounds (ravelI bshape (centreOf bshape)) 0

/-- the offsets `filter_iterator(…, compress_zeros = true)` visits: every non-zero entry of the
    array it is given, the centre included when it is set; scan order. `locmin_max` runs over this
    list (after `_remove_centre`), `remove_fake_regmin_max` and `close_holes` over `neighbours`
    (the C++ `neighbours(Bc)`, which skips the centre position itself). -/
def rawOffsets (bshape : List Nat) (bc : Array Int) : List (List Int) :=
  let c := centreOf bshape
  (List.range (shapeSize bshape)).filterMap fun i =>
    if bc.getD i 0 == 0 then none else some (subPos (unravelI bshape i) c)

/-! ### decidable checks of the hypotheses of the theorems (soundness: `Proofs/StarCheck.lean`) -/

/-- the integers between 0 and `a` (inclusive) -/
def intRange (a : Int) : List Int :=
  if 0 ≤ a then (List.range (a.toNat + 1)).map (fun (n : Nat) => Int.ofNat n)
  else (List.range ((-a).toNat + 1)).map (fun (n : Nat) => -Int.ofNat n)

/-- every offset between 0 and `k`, coordinate-wise -/
def betweens : List Int → List (List Int)
  | [] => [[]]
  | a :: as => (intRange a).flatMap fun a' => (betweens as).map fun r => a' :: r

/-- the neighbourhood (centre removed) is coordinate-wise star-shaped -/
def starShapedB (nb : List (List Int)) : Bool :=
  nb.all fun k => (betweens k).all fun k' => isZeroPos k' || nb.contains k'

/-- the neighbourhood is symmetric and its offsets have the given rank -/
def symNbB (rank : Nat) (nb : List (List Int)) : Bool :=
  nb.all fun k => nb.contains (negPos k) && k.length == rank

/-- element offsets (with heights) closed under "between 0 and a member" and under negation -/
def symStarB (sup : List (List Int × Int)) : Bool :=
  sup.all fun kh =>
    ((betweens kh.1).all fun k' => (sup.map (·.1)).contains k') && (sup.map (·.1)).contains (negPos kh.1)

/-! ### `locmin_max` -/

/-- `a` beats `b`: strictly lower (minima) / strictly higher (maxima) -/
def beats (isMin : Bool) (a b : Int) : Bool := if isMin then decide (a < b) else decide (a > b)

/-- model of `locmin_max<T>`: the pixel is marked unless some neighbour, read through
    `ExtendNearest`, beats it. -/
def locAt (isMin : Bool) (A : Img Int) (nb : List (List Int)) (p : List Int) : Bool :=
  nb.all fun k => !beats isMin (C01.readNearest A (addPos p k)) (A.getD p 0)

/-- specification: no neighbour *inside the image* exceeds (undercuts) the pixel. -/
def locSpecAt (isMin : Bool) (A : Img Int) (nb : List (List Int)) (p : List Int) : Bool :=
  nb.all fun k => !(inside A.shape (addPos p k) && beats isMin (A.getD (addPos p k) 0) (A.getD p 0))

def locModel (isMin : Bool) (A : Img Int) (nb : List (List Int)) : Array Bool :=
  ((allPos A.shape).map (locAt isMin A nb)).toArray

/-- specification for an **arbitrary** neighbourhood (round 4): the pixel is marked unless the value
    at some neighbour position *clamped onto the image coordinate by coordinate* (`clampPos`,
    `max 0 (min x (n-1))`) beats it. For star-shaped neighbourhoods this is `locSpecAt`. -/
def locClampedSpecAt (isMin : Bool) (A : Img Int) (nb : List (List Int)) (p : List Int) : Bool :=
  nb.all fun k => !beats isMin (A.getD (clampPos A.shape (addPos p k)) 0) (A.getD p 0)

/-- `mahotas.locmax` / `locmin` on the structuring element **as given**: `_remove_centre`, then the
    kernel over the compressed footprint of what is left. -/
def locModelRaw (isMin : Bool) (A : Img Int) (bshape : List Nat) (bc : Array Int) : Array Bool :=
  locModel isMin A (rawOffsets bshape (removeCentre bshape bc))

/-! ### stack flood fill (shared by `remove_fake_regmin_max` and `close_holes`) -/

/-- one pop of the stack: every neighbour of `p` that is inside the image and still available is
    taken (its flag cleared) and pushed. -/
def floodVisit (shape : List Nat) (nb : List (List Int)) (p : List Int)
    (st : Array Bool × List (List Int)) : Array Bool × List (List Int) :=
  nb.foldl (fun acc k =>
      let q := addPos p k
      if inside shape q && acc.1.getD (ravelI shape q) false then
        (acc.1.setIfInBounds (ravelI shape q) false, q :: acc.2)
      else acc) st

/-- `while (!stack.empty())` with fuel; `avail` flags the pixels that may still be taken. -/
def flood (shape : List Nat) (nb : List (List Int)) : Nat → Array Bool → List (List Int) → Array Bool
  | 0, avail, _ => avail
  | _ + 1, avail, [] => avail
  | fuel + 1, avail, p :: stack =>
    let st := floodVisit shape nb p (avail, stack)
    flood shape nb fuel st.1 st.2

/-! ### `remove_fake_regmin_max` -/

def weakBeats (isMin : Bool) (a b : Int) : Bool := if isMin then decide (a ≤ b) else decide (a ≥ b)

/-- a marked pixel with an *unmarked* neighbour inside the image whose value is at least as good -/
def hasFakeWitness (isMin : Bool) (A : Img Int) (nb : List (List Int)) (m : Array Bool) (p : List Int) : Bool :=
  nb.any fun k =>
    let q := addPos p k
    inside A.shape q && !m.getD (ravelI A.shape q) false && weakBeats isMin (A.getD q 0) (A.getD p 0)

/-- scan in C order; a marked pixel with a fake witness is unmarked together with everything
    reachable from it through marked pixels. -/
def removeFake (isMin : Bool) (A : Img Int) (nb : List (List Int)) (marks : Array Bool) : Array Bool :=
  (allPos A.shape).foldl (fun m p =>
      let i := ravelI A.shape p
      if !m.getD i false then m
      else if hasFakeWitness isMin A nb m p then
        flood A.shape nb (A.size + 1) (m.setIfInBounds i false) [p]
      else m) marks

def regModel (isMin : Bool) (A : Img Int) (nb : List (List Int)) : Array Bool :=
  removeFake isMin A nb (locModel isMin A nb)

/-- executable specification of "the plateau of `p` has no strictly better neighbour":
    `bad₀ q` = some neighbour inside the image beats `q`; a pixel is bad when an equal-valued
    neighbour (in either direction) is bad; iterate to the fixed point (`size` rounds suffice). -/
def badStep (A : Img Int) (nb : List (List Int)) (bad : Array Bool) : Array Bool :=
  ((allPos A.shape).map fun q =>
    bad.getD (ravelI A.shape q) false ||
    nb.any fun k =>
      let r := addPos q k
      let r' := subPos q k
      (inside A.shape r && A.getD r 0 == A.getD q 0 && bad.getD (ravelI A.shape r) false) ||
      (inside A.shape r' && A.getD r' 0 == A.getD q 0 && bad.getD (ravelI A.shape r') false)).toArray

def iter {α : Type} (f : α → α) : Nat → α → α
  | 0, x => x
  | n + 1, x => iter f n (f x)

def regBad0 (isMin : Bool) (A : Img Int) (nb : List (List Int)) : Array Bool :=
  ((allPos A.shape).map fun q => !locSpecAt isMin A nb q).toArray

def regSpecBad (isMin : Bool) (A : Img Int) (nb : List (List Int)) : Array Bool :=
  iter (badStep A nb) A.size (regBad0 isMin A nb)

def regSpec (isMin : Bool) (A : Img Int) (nb : List (List Int)) : Array Bool :=
  (regSpecBad isMin A nb).map (!·)

/-- did the iteration of `regSpec` reach its fixed point? (one more round changes nothing; the
    driver prints it, `C14_regspec_eq_regional_partial` needs it) -/
def regSpecFixed (isMin : Bool) (A : Img Int) (nb : List (List Int)) : Bool :=
  (badStep A nb (regSpecBad isMin A nb)).toList == (regSpecBad isMin A nb).toList

/-- `mahotas.regmax` / `regmin` on the structuring element as given: `_remove_centre` in Python,
    `locmin_max` over the compressed footprint, `remove_fake_regmin_max` over `neighbours(Bc)`. -/
def regModelRaw (isMin : Bool) (A : Img Int) (bshape : List Nat) (bc : Array Int) : Array Bool :=
  removeFake isMin A (neighbours bshape (removeCentre bshape bc)) (locModelRaw isMin A bshape bc)

/-! ### `close_holes` -/

/-- the border seeding loop: for every axis `d`, every position whose `d`-th coordinate is `0`
    or `dim d - 1` (the Python wrapper admits 2-D images only). -/
def onBorder : List Nat → List Int → Bool
  | d :: ds, p :: ps => p == 0 || p == (d : Int) - 1 || onBorder ds ps
  | _, _ => false

/-- availability before seeding: the background pixels -/
def chAvail0 (ref : Img Int) : Array Bool := (ref.data.toList.map (· == 0)).toArray

/-- the seeds: background pixels on the border, in scan order -/
def chSeeds (ref : Img Int) : List (List Int) :=
  (allPos ref.shape).filter fun p => onBorder ref.shape p && ref.getD p 1 == 0

/-- seeding takes the seeds -/
def chAvail1 (ref : Img Int) : Array Bool :=
  (chSeeds ref).foldl (fun a p => a.setIfInBounds (ravelI ref.shape p) false) (chAvail0 ref)

/-- model of `close_holes`: background border pixels are seeded (taken), the flood takes every
    background pixel reachable from them, the result is the complement of what was taken.
    (Fuel: one pop per taken pixel, at most `size` takes after the seeds.) -/
def closeHoles (ref : Img Int) (nb : List (List Int)) : Array Bool :=
  let avail := flood ref.shape nb (ref.size + (chSeeds ref).length + 1) (chAvail1 ref) (chSeeds ref).reverse
  -- taken = background ∧ ¬ still available ; result = ¬ taken
  ((List.range ref.size).map fun i => ref.data.getD i 0 != 0 || avail.getD i false).toArray

/-- executable specification: `reach₀` = background border pixels; a background pixel becomes
    reached when a neighbour (either direction) is reached; `size` rounds; result = complement. -/
def reachStep (ref : Img Int) (nb : List (List Int)) (reach : Array Bool) : Array Bool :=
  ((allPos ref.shape).map fun q =>
    reach.getD (ravelI ref.shape q) false ||
    (ref.getD q 1 == 0 && nb.any fun k =>
      let r := addPos q k
      let r' := subPos q k
      (inside ref.shape r && reach.getD (ravelI ref.shape r) false) ||
      (inside ref.shape r' && reach.getD (ravelI ref.shape r') false))).toArray

def closeHolesSpec (ref : Img Int) (nb : List (List Int)) : Array Bool :=
  let r0 := ((allPos ref.shape).map fun p => onBorder ref.shape p && ref.getD p 1 == 0).toArray
  (iter (reachStep ref nb) ref.size r0).map (!·)

/-! ### `hitmiss` -/

/-- the template entries that are tested: offset `k - c` and the required value, entries equal
    to 2 dropped; scan order (the C++ shuffles this list with a fixed-seed `mt19937`, which only
    changes the order in which the conjunction below is evaluated). -/
def hmEntries (bshape : List Nat) (bc : Array Int) : List (List Int × Int) :=
  let c := centreOf bshape
  (List.range (shapeSize bshape)).filterMap fun i =>
    let v := bc.getD i 0
    if v == 2 then none else some (subPos (unravelI bshape i) c, v)

/-- positions at which the kernel evaluates the template (everywhere else it writes 0):
    on every axis but the last the margin rule `min(p, n-1-p) ≥ b/2`; on the last axis the
    `slack` counter: the margin rule must hold at `x = b/2`, and then `n - b + 1` consecutive
    positions are evaluated. For odd `b` this is the margin rule again. -/
def hmEvaluated : List Nat → List Nat → List Int → Bool
  | n :: ns, b :: bs, x :: xs =>
    let c : Int := (b / 2 : Nat)
    if ns.isEmpty then
      bs.isEmpty && xs.isEmpty &&
      decide (min c ((n : Int) - c - 1) ≥ c) && decide (c ≤ x) && decide (x < c + ((n : Int) - (b : Int) + 1))
    else
      decide (min x ((n : Int) - x - 1) ≥ c) && hmEvaluated ns bs xs
  | _, _, _ => false

/-! #### the `slack` loop itself (round 4): a transliteration of the main loop of `hitmiss<T>`, as far as
     *which flat indices are evaluated* is concerned. `hmEvaluated` above is its closed form; the driver
     compares the two on every `hitmiss` line (`loopok=`), `C14_hitmiss_loop_table_partial` on a finite table. -/

/-- the `for d` loop inside `while (!slack)`: the first axis whose margin `min(cur[d], dim[d]-cur[d]-1)` is
    smaller than `Bc.dim(d)/2`, as the number of output positions to zero (`size` = product of the later
    image sides); `none` when no axis is bad (`!moved`). -/
def hmFirstBad : List Nat → List Nat → List Int → Option Nat
  | n :: ns, b :: bs, x :: xs =>
    if min x ((n : Int) - x - 1) < ((b / 2 : Nat) : Int) then some (shapeSize ns) else hmFirstBad ns bs xs
  | _, _, _ => none

/-- `for (i = 0; i != N; ++i) { while (!slack) {…} --slack; evaluate i }` with fuel; state: the flat index `i`,
    the counter `slack`, the flags written so far (reversed: `true` = evaluated, `false` = zero written
    without evaluating). A skip writes `min(size, N - i)` zeros (`if (i == N) return`). -/
def hmLoop (shape bshape : List Nat) (N : Nat) (lastSlack : Int) : Nat → Nat → Int → List Bool → List Bool
  | 0, _, _, acc => acc
  | fuel + 1, i, slack, acc =>
    if i ≥ N then acc
    else if slack == 0 then
      match hmFirstBad shape bshape (unravelI shape i) with
      | some size => hmLoop shape bshape N lastSlack fuel (i + size) 0 (List.replicate (min size (N - i)) false ++ acc)
      | none => hmLoop shape bshape N lastSlack fuel i lastSlack acc
    else hmLoop shape bshape N lastSlack fuel (i + 1) (slack - 1) (true :: acc)

/-- which positions the loop evaluates, in C order (`slack = input.dim(last) - Bc.dim(last) + 1`; two steps per
    position suffice as fuel) -/
def hmLoopFlags (shape bshape : List Nat) : List Bool :=
  let N := shapeSize shape
  let lastSlack : Int := (shape.getLastD 0 : Int) - (bshape.getLastD 0 : Int) + 1
  (hmLoop shape bshape N lastSlack (2 * N + 2) 0 0 []).reverse

/-- the loop and its closed form agree on this image / template shape -/
def hmLoopOk (shape bshape : List Nat) : Bool :=
  hmLoopFlags shape bshape == (allPos shape).map (hmEvaluated shape bshape)

/-- model of `hitmiss<T>` at one pixel, the entries tested in the given order. -/
def hitmissAt (A : Img Int) (bshape : List Nat) (entries : List (List Int × Int)) (p : List Int) : Int :=
  if hmEvaluated A.shape bshape p then
    (if entries.all fun e => A.getD (addPos p e.1) 0 == e.2 then 1 else 0)
  else 0

/-- specification: the whole template lies inside the image when centred at `p`, and every
    entry different from 2 equals the pixel under it. -/
def templateInside (shape bshape : List Nat) (p : List Int) : Bool :=
  let c := centreOf bshape
  inside shape (subPos p c) &&
  inside shape (addPos (subPos p c) (bshape.map fun (d : Nat) => (d : Int) - 1))

def hitmissSpecAt (A : Img Int) (bshape : List Nat) (bc : Array Int) (p : List Int) : Int :=
  if templateInside A.shape bshape p &&
     ((List.range (shapeSize bshape)).all fun i =>
        bc.getD i 0 == 2 ||
        A.getD (addPos p (subPos (unravelI bshape i) (centreOf bshape))) 0 == bc.getD i 0)
  then 1 else 0

/-- closed form of what the `slack` rule does with **even** template sides (round 4): a position at
    which the template fits is nevertheless skipped when, on some axis with an even side `b`,
    * the axis is the last one and the image side equals `b` (the margin test at `x = b/2` fails, so
      the whole row is skipped), or
    * the axis is not the last one and `x` is the last fitting position `n - b/2`
      (the symmetric margin rule `min(x, n-1-x) ≥ b/2` rejects it). -/
def hmEvenExcluded : List Nat → List Nat → List Int → Bool
  | n :: ns, b :: bs, x :: xs =>
    (b % 2 == 0 && (if ns.isEmpty then n == b else x == (n : Int) - ((b / 2 : Nat) : Int))) ||
      hmEvenExcluded ns bs xs
  | _, _, _ => false

/-- the answer of `hitmiss` in closed form for every template shape (odd, even, larger than the
    image): 1 exactly when the template fits at `p`, `p` is not one of the positions the even-side
    rule skips, and every entry different from 2 equals the pixel under it. -/
def hitmissClosedAt (A : Img Int) (bshape : List Nat) (bc : Array Int) (p : List Int) : Int :=
  if templateInside A.shape bshape p && !hmEvenExcluded A.shape bshape p &&
     ((List.range (shapeSize bshape)).all fun i =>
        bc.getD i 0 == 2 ||
        A.getD (addPos p (subPos (unravelI bshape i) (centreOf bshape))) 0 == bc.getD i 0)
  then 1 else 0

/-! ### driver entry -/

/-- the binary image number `idx` of a shape: pixel `j` (C order) is bit `j` of `idx` -/
def bitImg (shape : List Nat) (idx : Nat) : Img Int :=
  { shape := shape, data := ((List.range (shapeSize shape)).map fun j => if idx.testBit j then (1 : Int) else 0).toArray }

def digits (xs : List Int) : String := String.join (xs.map fun x => if x == 0 then "0" else "1")

/-- the structuring element as the Python wrappers obtain it (round 4). Without `arg=` the pair
    `bshape`/`bc` is the array handed to the kernel (protocol of rounds 1–3, and `hitmiss`, which does not
    call `get_structuring_elem`). With `arg=none | arg=int v=<n> | arg=array bshape=… bc=…` the argument goes
    through C01's model of `get_structuring_elem(f, Bc)`: `None` / integers through `translate_sizes` and the
    cross loop, arrays through the cast to the dtype of the image (`dt=b1|u8|…`; `close_holes` casts to bool;
    `dt` absent for float images, where every non-zero entry stays non-zero). -/
def elemOf (a : Args) (ndim : Nat) : Except String (List Nat × Array Int) :=
  if a.has "arg" then
    let dt := if a.has "dt" then DT.ofName (a.str "dt") else dtI 64
    match C01.getStructuringElem dt ndim (C01.bcArgOf a) with
    | .ok e => .ok e
    | .error e => .error (C01.showSEError e)
  else .ok (a.nats "bshape", (a.ints "bc").toArray)

def handleWith (a : Args) (shape bshape : List Nat) (bc : Array Int) : String :=
  let A : Img Int := { shape := shape, data := (a.ints "data").toArray }
  match a.str "kind" with
  | "loc" =>
    let isMin := a.nat "min" == 1
    let nb := neighbours bshape bc
    let regular := starShapedB nb && symNbB shape.length nb
    let star := starShapedB nb
    s!"model={showBools (locModelRaw isMin A bshape bc).toList} spec={showBools ((allPos shape).map (locSpecAt isMin A nb))} cspec={showBools ((allPos shape).map (locClampedSpecAt isMin A nb))} regular={if regular then 1 else 0} star={if star then 1 else 0}"
  | "reg" =>
    let isMin := a.nat "min" == 1
    let nb := neighbours bshape bc
    let regular := starShapedB nb && symNbB shape.length nb
    -- `big=1` (size-threshold cases): the fixed-point specification is quadratic and is left out
    let big := a.nat "big" == 1
    let specS := if big then "" else showBools (regSpec isMin A nb).toList
    let fixS := if big || regSpecFixed isMin A nb then 1 else 0
    s!"model={showBools (regModelRaw isMin A bshape bc).toList} spec={specS} loc={showBools ((allPos shape).map (locSpecAt isMin A nb))} regular={if regular then 1 else 0} fix={fixS}"
  | "holes" =>
    let nb := neighbours bshape bc
    let regular := symNbB shape.length nb
    let specS := if a.nat "big" == 1 then "" else showBools (closeHolesSpec A nb).toList
    s!"model={showBools (closeHoles A nb).toList} spec={specS} regular={if regular then 1 else 0}"
  | "hitmiss" =>
    let es := hmEntries bshape bc
    s!"model={showInts ((allPos shape).map (hitmissAt A bshape es))} modelrev={showInts ((allPos shape).map (hitmissAt A bshape es.reverse))} spec={showInts ((allPos shape).map (hitmissSpecAt A bshape bc))} closed={showInts ((allPos shape).map (hitmissClosedAt A bshape bc))} loopok={if hmLoopOk shape bshape then 1 else 0}"
  | "hmblock" =>
    -- all binary images with index in [lo, hi) (pixel j of image `idx` = bit j of `idx`); digits, no separators
    let es := hmEntries bshape bc
    let idxs := (List.range (a.nat "hi" - a.nat "lo")).map (· + a.nat "lo")
    let model := idxs.map fun idx => digits ((allPos shape).map fun p => hitmissAt (bitImg shape idx) bshape es p)
    let spec := idxs.map fun idx => digits ((allPos shape).map fun p => hitmissSpecAt (bitImg shape idx) bshape bc p)
    let closed := idxs.map fun idx => digits ((allPos shape).map fun p => hitmissClosedAt (bitImg shape idx) bshape bc p)
    s!"model={String.join model} spec={String.join spec} closed={String.join closed} loopok={if hmLoopOk shape bshape then 1 else 0}"
  | "holesblock" =>
    let nb := neighbours bshape bc
    let idxs := (List.range (a.nat "hi" - a.nat "lo")).map (· + a.nat "lo")
    let model := idxs.map fun idx => digits ((closeHoles (bitImg shape idx) nb).toList.map fun b => if b then 1 else 0)
    let spec := idxs.map fun idx => digits ((closeHolesSpec (bitImg shape idx) nb).toList.map fun b => if b then 1 else 0)
    s!"model={String.join model} spec={String.join spec}"
  | k => s!"error=unknown-kind-{k}"

def handle (a : Args) : String :=
  let shape := a.nats "shape"
  match elemOf a shape.length with
  | .ok (bshape, bc) => handleWith a shape bshape bc
  | .error e => s!"error=structuring-element-{e}"

end Mahotas.C14
