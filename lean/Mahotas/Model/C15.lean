/-
C15 — thinning (`thin.py`, `_thin.cpp`), Euler number (`euler.py`), convex hull
(`_convex.cpp`, `polygon.py`).  Executable model + the statement's predicates (specification).
The templates and look-up tables come from `Generated/Tables.lean` (extracted from the sources).
-/
import Mahotas.Model.Basic
import Mahotas.Generated.Tables
import Mahotas.Model.Border
namespace Mahotas.C15
open Mahotas

/-! ## binary images -/

/-- a 2-D binary image, row major; every read outside the box is `false` -/
structure Bin where
  rows : Nat
  cols : Nat
  data : Array Bool

namespace Bin

def get (b : Bin) (y x : Int) : Bool :=
  if 0 ≤ y ∧ y < (b.rows : Int) ∧ 0 ≤ x ∧ x < (b.cols : Int) then
    b.data.getD (y.toNat * b.cols + x.toNat) false
  else false

/-- the image with pixel `(y, x)` equal to `f y x` -/
def tabulate (rows cols : Nat) (f : Int → Int → Bool) : Bin :=
  { rows := rows, cols := cols,
    data := Array.ofFn (n := rows * cols) fun i => f ((i.val / cols : Nat) : Int) ((i.val % cols : Nat) : Int) }

/-- number of set pixels -/
def count (b : Bin) : Nat := (b.data.toList.filter id).length

def ofInts (rows cols : Nat) (d : List Int) : Bin :=
  { rows := rows, cols := cols, data := (d.map (· != 0)).toArray }

def toInts (b : Bin) : List Int := b.data.toList.map fun v => if v then 1 else 0

end Bin

/-! ## thinning -/

/-- a hit-or-miss element: (row offset, column offset, required value) -/
abbrev Elem := List (Int × Int × Bool)

/-- `match` of `_thin.cpp`: the pixel is set and every listed neighbour has the required value.
    The C code reads through raw pointer offsets inside the zero-framed buffer; a frame pixel is
    never set, so it returns before any read — reading `false` outside the box is the same function. -/
def matchElem (b : Bin) (e : Elem) (y x : Int) : Bool :=
  b.get y x && e.all fun t => b.get (y + t.1) (x + t.2.1) == t.2.2

/-- one pass: `fast_hitmiss` into the buffer, then every matching pixel is cleared (in parallel) -/
def pass (b : Bin) (e : Elem) : Bin :=
  Bin.tabulate b.rows b.cols fun y x => b.get y x && !matchElem b e y x

/-- one iteration of the outer loop: the eight passes in the order of `elems[0..8)` -/
def iter (b : Bin) : Bin := Generated.thinElems.foldl pass b

/-- the outer loop `while (any_change && …)`: `any_change` is set iff some pass cleared a pixel,
    i.e. iff the iteration changed the image (pixels are only ever cleared). -/
def thinLoop : Nat → Bin → Bin
  | 0, b => b
  | fuel + 1, b =>
    let b' := iter b
    if b'.data == b.data then b' else thinLoop fuel b'

/-- `_thin.thin(image, buffer, max_iter)`. An iteration that changes something clears at least one
    pixel, so `count + 1` iterations always reach the fixed point (`max_iter < 0`). -/
def thinCore (b : Bin) (maxIter : Int) : Bin :=
  let full := b.count + 1
  thinLoop (if maxIter < 0 then full else min full maxIter.toNat) b

/-- `bbox` of a 2-D image: `(min0, max0, min1, max1)`, all zero for an empty image -/
def bbox (b : Bin) : Nat × Nat × Nat × Nat :=
  let ys := (List.range b.rows).filter fun (y : Nat) => (List.range b.cols).any fun (x : Nat) => b.get (y : Int) (x : Int)
  let xs := (List.range b.cols).filter fun (x : Nat) => (List.range b.rows).any fun (y : Nat) => b.get (y : Int) (x : Int)
  match ys, xs with
  | y0 :: _, x0 :: _ => (y0, ys.getLastD y0 + 1, x0, xs.getLastD x0 + 1)
  | _, _ => (0, 0, 0, 0)

/-- `mahotas.thin`: crop to the bounding box, add a zero frame, thin, paste back -/
def thinModel (b : Bin) (maxIter : Int := -1) : Bin :=
  let (min0, max0, min1, max1) := bbox b
  let r := max0 - min0
  let c := max1 - min1
  let exp := Bin.tabulate (r + 2) (c + 2) fun y x =>
    decide (1 ≤ y) && decide (y ≤ r) && decide (1 ≤ x) && decide (x ≤ c) && b.get (y - 1 + min0) (x - 1 + min1)
  let t := thinCore exp maxIter
  Bin.tabulate b.rows b.cols fun y x =>
    decide ((min0 : Int) ≤ y) && decide (y < max0) && decide ((min1 : Int) ≤ x) && decide (x < max1) &&
      t.get (y - min0 + 1) (x - min1 + 1)

/-! ## connected components (flood fill; the counting oracle of the statement) -/

def neigh (conn8 : Bool) : List (Int × Int) :=
  if conn8 then [(-1, -1), (-1, 0), (-1, 1), (0, -1), (0, 1), (1, -1), (1, 0), (1, 1)]
  else [(-1, 0), (0, -1), (0, 1), (1, 0)]

/-- flood from the stack through `mask`; returns the visited set and whether the border was touched.
    A pixel is marked when pushed, so `rows * cols + 1` steps always empty the stack. -/
def flood (rows cols : Nat) (mask : Array Bool) (conn8 : Bool) :
    Nat → List Nat → Array Bool → Bool → Array Bool × Bool
  | 0, _, seen, tb => (seen, tb)
  | _, [], seen, tb => (seen, tb)
  | fuel + 1, i :: st, seen, tb =>
    let y : Int := ((i / cols : Nat) : Int)
    let x : Int := ((i % cols : Nat) : Int)
    let tb := tb || y == 0 || x == 0 || y == (rows : Int) - 1 || x == (cols : Int) - 1
    let r := (neigh conn8).foldl (fun (acc : List Nat × Array Bool) d =>
        let yy := y + d.1
        let xx := x + d.2
        if 0 ≤ yy ∧ yy < (rows : Int) ∧ 0 ≤ xx ∧ xx < (cols : Int) then
          let j := yy.toNat * cols + xx.toNat
          if mask.getD j false && !acc.2.getD j true then (j :: acc.1, acc.2.setIfInBounds j true) else acc
        else acc) (st, seen)
    flood rows cols mask conn8 fuel r.1 r.2 tb

/-- (number of components of `mask`, number of those that touch the image border) -/
def countComps (rows cols : Nat) (mask : Array Bool) (conn8 : Bool) : Nat × Nat :=
  let n := rows * cols
  let r := (List.range n).foldl (fun (acc : Array Bool × Nat × Nat) i =>
      if mask.getD i false && !acc.1.getD i true then
        let (seen, tb) := flood rows cols mask conn8 (n + 1) [i] (acc.1.setIfInBounds i true) false
        (seen, acc.2.1 + 1, acc.2.2 + (if tb then 1 else 0))
      else acc) (Array.replicate n false, 0, 0)
  (r.2.1, r.2.2)

/-- number of `conn`-connected components of the foreground -/
def components (b : Bin) (conn8 : Bool) : Nat := (countComps b.rows b.cols b.data conn8).1

/-- number of holes: components of the background (in the connectivity `conn8`) that do not touch the border -/
def holes (b : Bin) (conn8 : Bool) : Nat :=
  let r := countComps b.rows b.cols (b.data.map (!·)) conn8
  r.1 - r.2

/-- the statement's Euler number: components minus holes with the 8/4 (or 4/8) pairing -/
def eulerSpec (b : Bin) (conn8 : Bool) : Int :=
  (components b conn8 : Int) - (holes b (!conn8) : Int)

/-! ## Euler number by bit quads -/

/-- table index of the 2×2 window whose top-left pixel is `(y, x)`: `Σ _powers[i][j] · f[y+i, x+j]` -/
def quadCode (b : Bin) (y x : Int) : Nat :=
  ((Generated.eulerPowers.zipIdx.map fun (row, i) =>
      (row.zipIdx.map fun (w, j) => if b.get (y + (i : Int)) (x + (j : Int)) then w else 0).foldl (· + ·) 0)).foldl (· + ·) 0

/-- `euler(f, n)` in the default mode, times `eulerDen` (= 4): the look-up summed over every 2×2
    window that meets the image (top-left corner from `(-1, -1)` to `(rows-1, cols-1)`), reading
    background outside — the repaired code pads one background row/column so that the windows
    straddling the bottom and right borders are visited too. -/
def eulerModel4 (b : Bin) (conn8 : Bool) : Int :=
  let tbl := if conn8 then Generated.eulerLookup8 else Generated.eulerLookup4
  ((List.range (b.rows + 1)).map fun (i : Nat) =>
    ((List.range (b.cols + 1)).map fun (j : Nat) =>
      tbl.getD (quadCode b ((i : Int) - 1) ((j : Int) - 1)) 0).foldl (· + ·) 0).foldl (· + ·) 0

/-- the pinned (unrepaired) behaviour: only windows whose bottom-right pixel lies in the image -/
def eulerPinned4 (b : Bin) (conn8 : Bool) : Int :=
  let tbl := if conn8 then Generated.eulerLookup8 else Generated.eulerLookup4
  ((List.range b.rows).map fun (i : Nat) =>
    ((List.range b.cols).map fun (j : Nat) =>
      tbl.getD (quadCode b ((i : Int) - 1) ((j : Int) - 1)) 0).foldl (· + ·) 0).foldl (· + ·) 0

/-! ### `euler(f, n, mode)` for the other border modes (round 4)

Only `mode='constant'` pads a background row and column (and is what the statement speaks about). For every other mode
`convolve(f, _powers, mode)` visits the `rows × cols` windows whose bottom-right pixel lies in the image and reads the row /
column `-1` through the border mode (`fixOffset` of `Model/Border.lean`, the transliteration of `fix_offset`): `nearest` and
`reflect` repeat row 0, `mirror` reads row 1 (row 0 for a single row), `wrap` reads the last row, `ignore` skips the element
(weight 0, like background). -/

/-- pixel `(y, x)` read through border mode `m` -/
def getMode (b : Bin) (m : Mode) (y x : Int) : Bool :=
  match fixOffset m y (b.rows : Int), fixOffset m x (b.cols : Int) with
  | some yy, some xx => b.get yy xx
  | _, _ => false

/-- table index of the window whose top-left pixel is `(y, x)`, read through mode `m` -/
def quadCodeMode (b : Bin) (m : Mode) (y x : Int) : Nat :=
  ((Generated.eulerPowers.zipIdx.map fun (row, i) =>
      (row.zipIdx.map fun (w, j) => if getMode b m (y + (i : Int)) (x + (j : Int)) then w else 0).foldl (· + ·) 0)).foldl (· + ·) 0

/-- `euler(f, n, mode)` times 4 for every border mode: the default `constant` is `eulerModel4` (padded); the others sum the
    look-up over the `rows × cols` windows ending inside the image, read through the mode -/
def eulerMode4 (b : Bin) (conn8 : Bool) (m : Mode) : Int :=
  match m with
  | .constant => eulerModel4 b conn8
  | m =>
    let tbl := if conn8 then Generated.eulerLookup8 else Generated.eulerLookup4
    ((List.range b.rows).map fun (i : Nat) =>
      ((List.range b.cols).map fun (j : Nat) =>
        tbl.getD (quadCodeMode b m ((i : Int) - 1) ((j : Int) - 1)) 0).foldl (· + ·) 0).foldl (· + ·) 0

/-- Gray's bit-quad weights (times 4): +1 for one set pixel, −1 for three, ∓2 for a diagonal pair -/
def grayQuad (conn8 : Bool) (a b c d : Bool) : Int :=
  let n := a.toNat + b.toNat + c.toNat + d.toNat
  if n = 1 then 1 else if n = 3 then -1
  else if n = 2 ∧ a = d ∧ b = c then (if conn8 then -2 else 2) else 0

/-! ## convex hull (`_convex.cpp`) -/

abbrev Pt := Int × Int

def isLeft (p0 p1 p2 : Pt) : Int :=
  (p1.1 - p0.1) * (p2.2 - p0.2) - (p2.1 - p0.1) * (p1.2 - p0.2)

def forwardCmp (a b : Pt) : Bool := if a.1 == b.1 then a.2 < b.2 else a.1 < b.1
def reverseCmp (a b : Pt) : Bool := if a.1 == b.1 then a.2 > b.2 else a.1 > b.1

/-- `while (h >= 2 && isLeft(P[h-2], P[h-1], P[i]) >= 0) --h;` -/
def popWhile (P : Array Pt) (pi : Pt) : Nat → Nat
  | h + 2 => if isLeft (P.getD h (0, 0)) (P.getD (h + 1) (0, 0)) pi ≥ 0 then popWhile P pi (h + 1) else h + 2
  | h => h

/-- `inPlaceScan(P, N, reverse)` on a stand-alone array (the points are distinct, so the sorted
    order is unique and `std::sort` is determined) -/
def inPlaceScan (P : Array Pt) (reverse : Bool) : Array Pt × Nat :=
  let sorted := (P.toList.mergeSort fun a b => a == b || (if reverse then reverseCmp a b else forwardCmp a b)).toArray
  (List.range' 1 (sorted.size - 1)).foldl (fun (acc : Array Pt × Nat) i =>
      let h := popWhile acc.1 (acc.1.getD i (0, 0)) acc.2
      (acc.1.swapIfInBounds h i, h + 1)) (sorted, 1)

/-- `inPlaceGraham`: the hull corners, in the order the code returns them -/
def grahamModel (pts : List Pt) : List Pt :=
  let N := pts.length
  if N ≤ 3 then pts else
  let (P, h) := inPlaceScan pts.toArray false
  -- for (i = 0; i != h-1; ++i) swap(P[i], P[i+1]): rotate the first h entries left by one
  let P := (List.range (h - 1)).foldl (fun (P : Array Pt) i => P.swapIfInBounds i (i + 1)) P
  let (Q, h') := inPlaceScan (P.extract (h - 2) N) true
  (P.extract 0 (h - 2)).toList ++ (Q.extract 0 h').toList

/-- foreground pixels in scan order, as `(y, x)` -/
def foreground (b : Bin) : List Pt :=
  (List.range (b.rows * b.cols)).filterMap fun i =>
    if b.data.getD i false then some (((i / b.cols : Nat) : Int), ((i % b.cols : Nat) : Int)) else none

def hullModel (b : Bin) : List Pt := grahamModel (foreground b)

def cyclicPairs (v : List Pt) : List (Pt × Pt) :=
  match v with
  | [] => []
  | a :: _ => v.zip (v.drop 1 ++ [a])

def lexMin (l : List Pt) : Option Pt := l.foldl (fun m p => match m with
  | none => some p | some q => if forwardCmp p q then some p else some q) none
def lexMax (l : List Pt) : Option Pt := l.foldl (fun m p => match m with
  | none => some p | some q => if forwardCmp q p then some p else some q) none

/-- the statement's predicate on a returned corner list `v` for foreground `fg`:
    corners are foreground pixels, pairwise distinct; every foreground pixel (hence every corner:
    convex position, collinear corners allowed) lies on one and the same side of — or on — every
    directed edge of the closed polygon; the lexicographically extreme pixels are corners (this
    pins down the degenerate polygon when all pixels are collinear). -/
def hullOK (fg v : List Pt) : Bool :=
  v.all (fun p => fg.contains p) &&
  v.eraseDups.length == v.length &&
  (fg.isEmpty == v.isEmpty) &&
  ((cyclicPairs v).all (fun e => fg.all fun p => isLeft e.1 e.2 p ≤ 0) ||
   (cyclicPairs v).all (fun e => fg.all fun p => isLeft e.1 e.2 p ≥ 0)) &&
  (match lexMin fg, lexMax fg with
   | some a, some z => v.contains a && v.contains z
   | _, _ => true)

/-! ## `fill_polygon` / `fill_convexhull` (`polygon.py`) -/

/-- crossing abscissae of scan line `y` with the closed polygon (`nodes` of `fill_polygon`), in
    the float arithmetic of the Python code: `p[1] + (y-p[0])/(pj[0]-p[0])*(pj[1]-p[1])` -/
def rowNodes (poly : List (Float × Float)) (y : Float) : List Float :=
  match poly.getLast? with
  | none => []
  | some last =>
    (poly.zip (last :: poly)).filterMap fun (p, pj) =>
      if (p.1 < y && pj.1 >= y) || (pj.1 < y && p.1 >= y) then
        some (p.2 + (y - p.1) / (pj.1 - p.1) * (pj.2 - p.2))
      else none

/-- `zip(nodes[::2], nodes[1::2])` -/
def pairUp : List Float → List (Float × Float)
  | a :: b :: rest => (a, b) :: pairUp rest
  | _ => []

/-- `int(v)` for the non-negative abscissae that occur -/
def truncNat (v : Float) : Nat := v.floor.toUInt64.toNat

/-- pixel `(y, x)` is painted by `fill_polygon(poly, canvas)` on a canvas with `rows` rows -/
def polyFilled (rows : Nat) (poly : List Pt) (y x : Int) : Bool :=
  match poly with
  | [] => false
  | p0 :: _ =>
    let minY := poly.foldl (fun m p => min m p.1) p0.1
    let maxY := poly.foldl (fun m p => max m p.1) p0.1
    let maxY := if maxY < (rows : Int) then maxY + 1 else maxY
    decide (minY ≤ y) && decide (y < maxY) && decide (0 ≤ x) &&
      (pairUp ((rowNodes (poly.map fun p => (Float.ofInt p.1, Float.ofInt p.2)) (Float.ofInt y)).mergeSort
          fun a b => a ≤ b)).any fun (n, nn) =>
        decide ((truncNat n : Int) ≤ x) && decide (x < (truncNat (nn + 1) : Int))

/-- `fill_convexhull(bwimg)` for a boolean image: the filled hull polygon, then `canvas[bwimg] = 1` -/
def fillHullModel (b : Bin) : Bin :=
  let poly := hullModel b
  Bin.tabulate b.rows b.cols fun y x => polyFilled b.rows poly y x || b.get y x

/-! ## driver entry -/

def flatPts (v : List Pt) : List Int := v.flatMap fun p => [p.1, p.2]

def unflatPts : List Int → List Pt
  | a :: b :: rest => (a, b) :: unflatPts rest
  | _ => []

def subsetB (a b : Bin) : Bool :=
  (List.range a.data.size).all fun i => !a.data.getD i false || b.data.getD i false

def handle (a : Args) : String :=
  let shape := a.nats "shape"
  let rows := shape.headD 0
  let cols := shape.getD 1 0
  let b := Bin.ofInts rows cols (a.ints "data")
  match a.str "kind" with
  | "thin" =>
    let m := thinModel b (a.int "maxiter" (-1))
    let base := s!"model={showInts m.toInts} nin={components b true}"
    if a.has "got" then
      let g := Bin.ofInts rows cols (a.ints "got")
      base ++ s!" nout={components g true} subset={if subsetB g b then 1 else 0}"
    else base
  | "euler" =>
    s!"m8={eulerModel4 b true} m4={eulerModel4 b false} p8={eulerPinned4 b true} p4={eulerPinned4 b false} " ++
    s!"den={Generated.eulerDen} spec8={eulerSpec b true} spec4={eulerSpec b false} " ++
    s!"c8={components b true} c4={components b false} h4={holes b false} h8={holes b true}" ++
    (match Mode.ofCode (a.nat "mode") with
     | some m => if a.has "mode" then s!" mm8={eulerMode4 b true m} mm4={eulerMode4 b false m}" else ""
     | none => "")
  | "hull" =>
    let fg := foreground b
    let m := grahamModel fg
    let base := s!"model={showInts (flatPts m)} modelok={if hullOK fg m then 1 else 0} fill={showInts (fillHullModel b).toInts}"
    if a.has "got" then
      base ++ s!" ok={if hullOK fg (unflatPts (a.ints "got")) then 1 else 0}"
    else base
  | k => s!"error=unknown-kind-{k}"

end Mahotas.C15
