/-
C16 — thresholds (`thresholding.py`: `otsu`, `rc`, `soft_threshold`, `bernsen`, `gbernsen`;
`_histogram.cpp`: `otsu`; `histogram.py`: `fullhistogram`).

The numeric kernels are written once, generic in the arithmetic, and are *run* at `Float`
(bit-exact with the C/numpy doubles: same operations in the same order) and at `Rat`
(exact), and *proved* at `Rat`/`Int`.
-/
import Mahotas.Model.Border
namespace Mahotas.C16
open Mahotas

/-! ## histogram -/

/-- `fullhistogram`: bins `0 … max`, one increment per pixel (`compute_histogram`) -/
def fullhistogram (img : List Nat) : Array Nat :=
  img.foldl (fun h v => h.modify v (· + 1)) (Array.replicate (img.foldl max 0 + 1) 0)

/-- running sums `Σ_{j ≤ i} l[j]` -/
def cumsum : List Nat → Nat → List Nat
  | [], _ => []
  | x :: xs, acc => (acc + x) :: cumsum xs (acc + x)

/-- `l[i] * i` -/
def weighted (l : List Nat) : List Nat := l.zipIdx.map fun (v, i) => i * v

def sumL (l : List Nat) : Nat := l.foldl (· + ·) 0

section generic
variable {α : Type} [Add α] [Sub α] [Mul α] [Div α] [LT α] [DecidableLT α]

/-! ## Otsu (`_histogram.cpp: otsu`) -/

/-- the loop `for (T = 1; T != n; ++T)` with its running class means.
    `h`, `nB`, `nO` are the histogram and the two cumulative counts. -/
def otsuLoop (cast : Nat → α) (h nB nO : Nat → Nat) : List Nat → α → α → α → Nat → Nat
  | [], _, _, _, bestT => bestT
  | T :: rest, muB, muO, best, bestT =>
    if nB T = 0 then otsuLoop cast h nB nO rest muB muO best bestT          -- continue
    else if nO T = 0 then bestT                                              -- break
    else
      let muB' := (muB * cast (nB (T - 1)) + cast (T * h T)) / cast (nB T)
      let muO' := (muO * cast (nO (T - 1)) - cast (T * h T)) / cast (nO T)
      let s := cast (nB T) * cast (nO T) * (muB' - muO') * (muB' - muO')
      if best < s then otsuLoop cast h nB nO rest muB' muO' s T
      else otsuLoop cast h nB nO rest muB' muO' best bestT

/-- `otsu(hist, n)`; counts are exact in a double below 2^53, so they are kept as naturals and
    converted (`cast`) where the C code uses them in double arithmetic. -/
def otsuGen (cast : Nat → α) (hist : List Nat) : Nat :=
  let n := hist.length
  if n ≤ 1 then 0 else
  let H := hist.toArray
  let h := fun i => H.getD i 0
  let Hsum := sumL (hist.drop 1)
  if Hsum = 0 then 0 else
  let NB := (cumsum hist 0).toArray
  let nB := fun i => NB.getD i 0
  let nO := fun i => nB (n - 1) - nB i
  let muB := cast 0
  let muO := cast (sumL (weighted hist)) / cast Hsum
  let best := cast (nB 0) * cast (nO 0) * (muB - muO) * (muB - muO)
  otsuLoop cast h nB nO (List.range' 1 (n - 1)) muB muO best 0

/-! ## Riddler–Calvard (`thresholding.py: rc`) -/

/-- the loop `while t < min(maxt, res)` over `t = 0, 1, …` -/
def rcLoop (cast : Nat → α) (cum rcum fm rfm : Nat → Nat) (maxt : Nat) : List Nat → α → α
  | [], res => res
  | t :: rest, res =>
    if t < maxt ∧ cast t < res then
      let res' :=
        if cum t ≠ 0 ∧ rcum (t + 1) ≠ 0 then
          (cast (fm t) / cast (cum t) + cast (rfm (t + 1)) / cast (rcum (t + 1))) / cast 2
        else res
      rcLoop cast cum rcum fm rfm maxt rest res'
    else res

/-- index of the last non-zero bin (`while hist[maxt] == 0: maxt -= 1`), 0 if there is none -/
def lastNonzero (hist : List Nat) : Nat :=
  (hist.zipIdx.foldl (fun m (v, i) => if v ≠ 0 then i else m) 0)

/-- `rc` on a histogram that has a non-zero bin -/
def rcGen (cast : Nat → α) (hist : List Nat) : α :=
  let n := hist.length
  let C := (cumsum hist 0).toArray
  let F := (cumsum (weighted hist) 0).toArray
  let cum := fun i => C.getD i 0
  let fm := fun i => F.getD i 0
  -- reversed cumulative sums: Σ_{j ≥ i}
  let rcum := fun i => cum (n - 1) - (if i = 0 then 0 else cum (i - 1))
  let rfm := fun i => fm (n - 1) - (if i = 0 then 0 else fm (i - 1))
  let maxt := lastNonzero hist
  rcLoop cast cum rcum fm rfm maxt (List.range n) (cast maxt)

/-! ## from the image: the histogram is the only summary used -/

/-- the histogram handed to the kernels: `fullhistogram(img)`, bin 0 cleared when zeros are ignored -/
def histOf (img : List Nat) (ignoreZeros : Bool) : List Nat :=
  let h := (fullhistogram img).toList
  if ignoreZeros then h.set 0 0 else h

/-- `mahotas.otsu(img, ignore_zeros)` on the pixels in C order -/
def otsuImg (cast : Nat → α) (img : List Nat) (ignoreZeros : Bool) : Nat :=
  otsuGen cast (histOf img ignoreZeros)

/-- `mahotas.rc(img, ignore_zeros)`; `if hist[0] == img.size: return 0` when zeros are ignored -/
def rcImg (cast : Nat → α) (img : List Nat) (ignoreZeros : Bool) : α :=
  if ignoreZeros && (fullhistogram img).getD 0 0 == img.length then cast 0
  else rcGen cast (histOf img ignoreZeros)

/-! ## soft threshold -/

/-- `f = f*(|f| > t); f -= t*(f > t); f += t*(f < -t)` for one element -/
def softGen (zero : α) (f t : α) : α :=
  let absf := if f < zero then zero - f else f
  let g := if t < absf then f else zero
  let g1 := if t < g then g - t else g
  if g1 < zero - t then g1 + t else g1

/-- the statement: shrink the magnitude by `t`, zero when it does not exceed `t` -/
def softSpec (zero : α) (f t : α) : α :=
  let absf := if f < zero then zero - f else f
  if t < absf then (if f < zero then zero - (absf - t) else absf - t) else zero

end generic

/-! ## exact specification of the two global thresholds (rationals) -/

def ratStr (q : Rat) : String := s!"{q.num}/{q.den}"

/-- between-class variance `n_B n_O (μ_B − μ_O)²` of the split `{0..T} | {T+1..}`; 0 when a class is empty.
    Arguments: the four class sums. -/
def sigmaOf (nB nO sB sO : Nat) : Rat :=
  if nB = 0 ∨ nO = 0 then 0
  else (nB : Rat) * (nO : Rat) * ((sB : Rat) / (nB : Rat) - (sO : Rat) / (nO : Rat)) *
        ((sB : Rat) / (nB : Rat) - (sO : Rat) / (nO : Rat))

/-- `σ(T)` for every `T = 0 … n-1` -/
def sigmaAll (hist : List Nat) : List Rat :=
  let C := cumsum hist 0
  let F := cumsum (weighted hist) 0
  let tot := C.getLastD 0
  let ftot := F.getLastD 0
  (C.zip F).map fun (c, f) => sigmaOf c (tot - c) f (ftot - f)

def listMax (l : List Rat) : Rat := l.foldl (fun m x => if m < x then x else m) 0

/-- first index attaining the maximum -/
def firstArgmax (l : List Rat) : Nat :=
  let m := listMax l
  (l.zipIdx.find? fun (x, _) => x == m).map (·.2) |>.getD 0

/-- midpoint of the class means for the split at `t` (both classes non-empty) -/
def midpoint (cB cO sB sO : Nat) : Rat :=
  ((sB : Rat) / (cB : Rat) + (sO : Rat) / (cO : Rat)) / 2

def absRat (q : Rat) : Rat := if q < 0 then -q else q

/-- Riddler–Calvard by the statement: with `lo`/`hi` the smallest/largest occurring level, the
    midpoint of the class means at the first `t ∈ [lo, hi)` whose midpoint is `≤ t+1`
    (one level: that level; no pixel: 0). Also returns the smallest distance `|m(t) − (t+1)|`
    met on the way (the decision margin). -/
def rcSpec (hist : List Nat) : Rat × Rat × Nat × Nat :=
  let C := (cumsum hist 0).toArray
  let F := (cumsum (weighted hist) 0).toArray
  let tot := C.getD (hist.length - 1) 0
  let ftot := F.getD (hist.length - 1) 0
  let hi := lastNonzero hist
  let lo := ((hist.zipIdx.find? fun (v, _) => v ≠ 0).map (·.2)).getD 0
  if tot = 0 then (0, 1, 0, 0) else
  if lo = hi then ((lo : Rat), 1, lo, hi) else
  let rec go (ts : List Nat) (margin : Rat) (last : Rat) : Rat × Rat :=
    match ts with
    | [] => (last, margin)
    | t :: rest =>
      let m := midpoint (C.getD t 0) (tot - C.getD t 0) (F.getD t 0) (ftot - F.getD t 0)
      let d := absRat (m - ((t : Rat) + 1))
      let margin := if d < margin then d else margin
      if m ≤ (t : Rat) + 1 then (m, margin) else go rest margin m
  let r := go (List.range' lo (hi - lo)) (hi + 1 : Nat) 0
  (r.1, r.2, lo, hi)

/-! ## Bernsen -/

/-- the statement's rule for one pixel, everything doubled to stay in the integers
    (`2·mid = max + min`): where the local contrast reaches the threshold the pixel is compared with
    the local mid-grey, elsewhere the mid-grey with the global threshold. `true` = below
    (the orientation `fmean > f` / `fmean < gthresh` of the code). -/
def bernsenRule (lmax lmin f ct g2 : Int) : Bool :=
  if lmax - lmin ≥ ct then decide (lmax + lmin > 2 * f) else decide (lmax + lmin < g2)

/-- the pinned (unrepaired) selection: alternatives the other way round -/
def bernsenPinned (lmax lmin f ct g2 : Int) : Bool :=
  if lmax - lmin < ct then decide (lmax + lmin > 2 * f) else decide (lmax + lmin < g2)

/-- offsets `k − shape/2` of the non-zero entries of the structuring element -/
def seOffsets (bshape : List Nat) (bc : Array Int) : List (List Int) :=
  let c := centreOf bshape
  (List.range (shapeSize bshape)).filterMap fun i =>
    if bc.getD i 0 == 0 then none else some (subPos (unravelI bshape i) c)

/-- the neighbourhood values `rank_filter` gathers at `p` (mode `reflect`) -/
def neighbours (A : Img Int) (offs : List (List Int)) (p : List Int) : List Int :=
  offs.filterMap fun k =>
    match fixPos .reflect A.shape (addPos p k) with
    | some q => some (A.getD q 0)
    | none => none

def listMaxI (l : List Int) : Int := l.foldl max (l.headD 0)
def listMinI (l : List Int) : Int := l.foldl min (l.headD 0)

/-- `gbernsen(f, se, contrast_threshold, gthresh)` at pixel `p`; `g2 = 2·gthresh` -/
def gbernsenAt (rule : Int → Int → Int → Int → Int → Bool) (A : Img Int) (offs : List (List Int))
    (ct g2 : Int) (p : List Int) : Bool :=
  let nb := neighbours A offs p
  rule (listMaxI nb) (listMinI nb) (A.getD p 0) ct g2

/-- the whole neighbourhood lies inside the image (no border rule involved) -/
def interiorAt (shape : List Nat) (offs : List (List Int)) (p : List Int) : Bool :=
  offs.all fun k => inside shape (addPos p k)


/-! ## rounding-error budget of `otsu` (the theorems are in `Proofs/C16Round.lean`) -/

/-- index of the first non-zero bin (as in `rcSpec`), 0 if there is none -/
def loOf (hist : List Nat) : Nat :=
  ((hist.zipIdx.find? fun (v, _) => v ≠ 0).map (·.2)).getD 0

/-- unit roundoff of binary64, `2^-53` -/
def u53 : Rat := 1 / 9007199254740992

def etaMax (Δ E : Rat) : Rat := (1 + u53) * (2 * E) + u53 * Δ

def sigBound (N W Δ E : Rat) : Rat :=
  ((1 + u53) * (E * N) + u53 * (W * Δ)) * (2 * Δ + etaMax Δ E) +
    (2 * u53 + u53 * u53) * (W * ((Δ + etaMax Δ E) * (Δ + etaMax Δ E)))

/-- the explicit error bound for the `sigma_between` values computed by `otsu` in binary64: `N` pixels,
    first moment `Fn = Σ i·h[i]`, occupied levels `lo … hi`.  With `u = 2^-53`, `Δ = hi − lo`,
    `E = u·Fn·(1 + 4Δ)`: `((1+u)·E·N + u·N²·Δ)·(2Δ + η) + (2u+u²)·N²·(Δ+η)²`, `η = 2(1+u)E + uΔ`
    (leading term `8u·Δ²·Fn·N`). -/
def otsuErrBound (N Fn lo hi : Nat) : Rat :=
  sigBound (N : Rat) ((N : Rat) * (N : Rat)) ((hi - lo : Nat) : Rat)
    (u53 * (Fn : Rat) * (1 + 4 * ((hi - lo : Nat) : Rat)))

/-- the margin of the guarded comparison: a threshold computed in binary64 has an exact
    between-class variance within this distance of the exact maximum (`C16_otsu_rounded_near_optimal`) -/
def otsuMargin (hist : List Nat) : Rat :=
  2 * otsuErrBound ((cumsum hist 0).toArray.getD (hist.length - 1) 0)
    ((cumsum (weighted hist) 0).toArray.getD (hist.length - 1) 0) (loOf hist) (lastNonzero hist)

/-! ## `morph.circle_se` -/

/-- entry `(i, j)` of `circle_se(r)`: `X² + Y² < r²` with `X, Y = −r … r` (strict inequality) -/
def circleAt (r i j : Nat) : Bool :=
  decide (((i : Int) - r) * ((i : Int) - r) + ((j : Int) - r) * ((j : Int) - r) < (r : Int) * r)

/-- `circle_se(r)` as the row-major `(2r+1) × (2r+1)` array of 0/1 -/
def circleSe (r : Nat) : List Int :=
  (List.range ((2 * r + 1) * (2 * r + 1))).map fun k =>
    if circleAt r (k / (2 * r + 1)) (k % (2 * r + 1)) then 1 else 0

/-- the three bit vectors the driver prints for `gbernsen` -/
def bernsenOut (shape : List Nat) (data : List Int) (bshape : List Nat) (bc : List Int) (ct g2 : Int) : String :=
  let A : Img Int := { shape := shape, data := data.toArray }
  let offs := seOffsets bshape bc.toArray
  let ps := allPos shape
  s!"model={showBools (ps.map (gbernsenAt bernsenRule A offs ct g2))} " ++
  s!"pinned={showBools (ps.map (gbernsenAt bernsenPinned A offs ct g2))} " ++
  s!"interior={showBools (ps.map (interiorAt shape offs))}"

/-! ## driver entry -/

def natsOf (a : Args) (k : String) : List Nat := (a.ints k).map Int.toNat

def floatCast (n : Nat) : Float := Float.ofNat n
def ratCast (n : Nat) : Rat := (n : Rat)

def handle (a : Args) : String :=
  match a.str "kind" with
  | "hist" =>
    s!"hist={showNats (fullhistogram (natsOf a "data")).toList}"
  | "otsu" =>
    -- data = pixels; iz = ignore_zeros; got = the threshold the implementation returned
    let pix := natsOf a "data"
    let iz := a.nat "iz" == 1
    let hist := histOf pix iz
    let sig := sigmaAll hist
    let got := a.nat "got"
    let exact := if hist.length ≤ 4096 then toString (otsuImg ratCast pix iz) else "skipped"
    s!"model={otsuImg floatCast pix iz} exact={exact} first={firstArgmax sig} " ++
    s!"smax={ratStr (listMax sig)} sgot={ratStr (sig.getD got (-1))} n={hist.length} " ++
    s!"margin={ratStr (otsuMargin hist)}"
  | "rc" =>
    let pix := natsOf a "data"
    let iz := a.nat "iz" == 1
    let hist := histOf pix iz
    let allZero := iz && (fullhistogram pix).getD 0 0 == pix.length
    let sp := if allZero then ((0 : Rat), (1 : Rat), 0, 0) else rcSpec hist
    let exact := if hist.length ≤ 4096 then ratStr (rcImg ratCast pix iz) else "skipped"
    s!"model={showFloats [rcImg floatCast pix iz]} exact={exact} spec={ratStr sp.1} " ++
    s!"margin={ratStr sp.2.1} lo={sp.2.2.1} hi={sp.2.2.2}"
  | "soft" =>
    if a.str "dt" == "f64" then
      let t := (a.floats "t").headD 0
      let fs := a.floats "data"
      s!"model={showFloats (fs.map fun f => softGen 0.0 f t)} spec={showFloats (fs.map fun f => softSpec 0.0 f t)}"
    else
      let t := a.int "t"
      let fs := a.ints "data"
      s!"model={showInts (fs.map fun f => softGen (0 : Int) f t)} spec={showInts (fs.map fun f => softSpec (0 : Int) f t)}"
  | "gbernsen" =>
    let shape := a.nats "shape"
    let A : Img Int := { shape := shape, data := (a.ints "data").toArray }
    let offs := seOffsets (a.nats "bshape") (a.ints "bc").toArray
    let ct := a.int "ct"
    let g2 := a.int "g2"
    let ps := allPos shape
    s!"model={showBools (ps.map (gbernsenAt bernsenRule A offs ct g2))} " ++
    s!"pinned={showBools (ps.map (gbernsenAt bernsenPinned A offs ct g2))} " ++
    s!"interior={showBools (ps.map (interiorAt shape offs))}"
  | "bernsen" =>
    -- `bernsen(f, radius, …)`: the structuring element is built here (`circleSe`), not taken from the implementation
    let r := a.nat "radius"
    let se := circleSe r
    bernsenOut (a.nats "shape") (a.ints "data") [2 * r + 1, 2 * r + 1] se (a.int "ct") (a.int "g2") ++
    s!" se={showInts se}"
  | k => s!"error=unknown-kind-{k}"

end Mahotas.C16
