/-
C17 — driver entry of the wavelet model. The executable model itself lives in `Model/C17Core.lean` (row kernels on
abstract rows, the row/column glue, `wavelet_center`) and `Model/C17Mem.lean` (the same kernels at the level of the
strided memory the C code works on: pointer arithmetic of `high = data + step*N1/2`, in-place passes over `f` and `f.T`,
the wrappers' `inline` handling, `_wavelet_center_compute` for every integer border).
-/
import Mahotas.Model.C17Core
import Mahotas.Model.C17Mem
namespace Mahotas.C17
open Mahotas

local instance : NatCast Float := ⟨Float.ofNat⟩
local instance : IntCast Float := ⟨Float.ofInt⟩

def handle (a : Args) : String :=
  match a.str "kind" with
  | "t" =>
    match a.nats "shape" with
    | [N0, N1] =>
      let f := ofArray N1 (a.floats "data").toArray
      let pe := a.nat "pe" 1 == 1
      let cs : List Float := coeffsOf (a.nat "code" 0)
      let r : List Float :=
        match a.str "name" with
        | "haar" => tabulate2 N0 N1 (haar2 pe N0 N1 f)
        | "ihaar" => tabulate2 N0 N1 (ihaar2 pe N0 N1 f)
        -- same functions as `daubechies2` / `idaubechies2`, with the first pass materialised
        | "daubechies" => twoPass N0 N1 (rowsPass (waveletRow cs) N1) (colsPass (waveletRow cs) N0) f
        | "idaubechies" => twoPass N0 N1 (colsPass (iwaveletRow cs) N0) (rowsPass (iwaveletRow cs) N1) f
        | _ => []
      s!"model={showFloats r}"
    | _ => "error=shape"
  | "center" =>
    match centerCompute (a.nats "shape") (a.nat "border" 0) with
    | some (ns, d) => s!"nshape={showNats ns} delta={showNats d}"
    | none => "nshape=none delta=none"
  | "coeffs" => s!"model={showFloats (coeffsOf (a.nat "code" 0) : List Float)}"
  | "wrap" =>
    match wrapTarget (a.nat "isfloat" 1 == 1) (a.nat "inline" 0 == 1) with
    | .input => "target=input"
    | .fresh => "target=fresh"
  | _ => Mem.handle a

end Mahotas.C17
