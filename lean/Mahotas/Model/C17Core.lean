/-
C17 — executable model of the wavelet code: the row kernels `haar`, `ihaar`, `wavelet`, `iwavelet`
of `mahotas/_convolve.cpp` (zero outside `[0,N)`), the row-then-column glue of `convolve.py`
(second pass through the transposed view), the `/2`, `*2` normalisations, and
`wavelet_center` / `wavelet_decenter`.

Rows and images are total functions `Nat → α`, `Nat → Nat → α` together with their lengths; the
kernels are written once, polymorphic in the scalar type: the driver *runs* them at `Float`
(coefficients from `Generated/Tables.lean`, the exact float32 values), `Proofs/C17.lean` and
`Properties/C17.lean` *prove* facts about the same definitions over fields.
-/
import Mahotas.Model.Basic
import Mahotas.Generated.Tables
namespace Mahotas.C17
open Mahotas

section Poly
variable {α : Type} [Add α] [Sub α] [Mul α] [Div α] [Neg α] [NatCast α] [IntCast α]

abbrev Im (α : Type) := Nat → Nat → α

/-- `T()` -/
@[inline] def zero : α := ((0 : Nat) : α)
@[inline] def two : α := ((2 : Nat) : α)

/-- one row of `haar<T>`: `low[x] = d[2x] + d[2x+1]`, `high[x] = d[2x+1] − d[2x]`, `high = buffer + N/2`;
    for odd `N` the last buffer slot is never written and keeps `T()`. -/
def haarRow (N : Nat) (f : Nat → α) (x : Nat) : α :=
  if x < N / 2 then f (2 * x) + f (2 * x + 1)
  else if x < 2 * (N / 2) then f (2 * (x - N / 2) + 1) - f (2 * (x - N / 2))
  else zero

/-- one row of `ihaar<T>`: `buffer[2x] = (l−h)/2`, `buffer[2x+1] = (l+h)/2` with `l = d[x]`, `h = d[N/2+x]` -/
def ihaarRow (N : Nat) (g : Nat → α) (k : Nat) : α :=
  if k < 2 * (N / 2) then
    let l := g (k / 2)
    let h := g (N / 2 + k / 2)
    if k % 2 = 0 then (l - h) / two else (l + h) / two
  else zero

/-- `_access(data, N, p, step)`: zero outside `[0,N)` -/
def access (N : Nat) (f : Nat → α) (p : Int) : α :=
  if 0 ≤ p ∧ p < (N : Int) then f p.toNat else zero

/-- one row of `wavelet<T>` with scaling coefficients `cs` (`ncoeffs = cs.length`):
    `low[x] = Σ_ci cs[n−1−ci]·d[2x+ci]`, `high[x] = Σ_ci (ci even ? −1 : +1)·cs[ci]·d[2x+ci]`,
    accumulated from `T()` in the order of `ci`. -/
def waveletRow (cs : List α) (N : Nat) (f : Nat → α) (x : Nat) : α :=
  let n := cs.length
  if x < N / 2 then
    (List.range n).foldl (fun acc ci =>
      acc + cs.getD (n - ci - 1) zero * access N f ((2 * x + ci : Nat) : Int)) zero
  else if x < 2 * (N / 2) then
    (List.range n).foldl (fun acc ci =>
      acc + (if ci % 2 = 0 then -(cs.getD ci zero) else cs.getD ci zero)
            * access N f ((2 * (x - N / 2) + ci : Nat) : Int)) zero
  else zero

/-- one row of `iwavelet<T>`: for every tap with odd `xmap2 = x + ci − n + 2`, `xmap = xmap2 / 2`
    (C division, truncating towards zero: `−1/2 = 0`, a quirk that only matters within `n` samples of
    the left end), `l += cs[ci]·low[xmap]`, `h += (ci even ? +1 : −1)·cs[n−1−ci]·high[xmap]`;
    the result is `(l + h)/2`. -/
def iwaveletRow (cs : List α) (N : Nat) (g : Nat → α) (x : Nat) : α :=
  let n := cs.length
  let taps := (List.range n).filter fun ci => (((x + ci : Nat) : Int) - (n : Int) + 2) % 2 ≠ 0
  let xmap := fun (ci : Nat) => ((((x + ci : Nat) : Int) - (n : Int) + 2)).tdiv 2
  let l := taps.foldl (fun acc ci => acc + cs.getD ci zero * access (N / 2) g (xmap ci)) zero
  let h := taps.foldl (fun acc ci =>
      acc + (if ci % 2 = 0 then cs.getD (n - ci - 1) zero else -(cs.getD (n - ci - 1) zero))
            * access (N / 2) (fun k => g (N / 2 + k)) (xmap ci)) zero
  (l + h) / two

/-- a row kernel applied to every row (`kernel(f)`) -/
def rowsPass (T : Nat → (Nat → α) → Nat → α) (N1 : Nat) (f : Im α) : Im α := fun y => T N1 (f y)
/-- a row kernel applied through the transposed view (`kernel(f.T)`): every column -/
def colsPass (T : Nat → (Nat → α) → Nat → α) (N0 : Nat) (f : Im α) : Im α :=
  fun y x => T N0 (fun k => f k x) y

/-- `convolve.haar`: rows, columns, then `/= 2` when `preserve_energy` -/
def haar2 (pe : Bool) (N0 N1 : Nat) (f : Im α) : Im α :=
  let g := colsPass haarRow N0 (rowsPass haarRow N1 f)
  if pe then fun y x => g y x / two else g

/-- `convolve.ihaar`: rows, columns, then `*= 2` when `preserve_energy` -/
def ihaar2 (pe : Bool) (N0 N1 : Nat) (f : Im α) : Im α :=
  let g := colsPass ihaarRow N0 (rowsPass ihaarRow N1 f)
  if pe then fun y x => g y x * two else g

/-- `convolve.daubechies`: rows, then columns -/
def daubechies2 (cs : List α) (N0 N1 : Nat) (f : Im α) : Im α :=
  colsPass (waveletRow cs) N0 (rowsPass (waveletRow cs) N1 f)

/-- `convolve.idaubechies`: columns (`f.T`) first, then rows -/
def idaubechies2 (cs : List α) (N0 N1 : Nat) (f : Im α) : Im α :=
  rowsPass (iwaveletRow cs) N1 (colsPass (iwaveletRow cs) N0 f)

/-- a table entry `(m, k)` of `Generated/Tables.lean` as a scalar: `m / 2^k` -/
def coef (mk : Int × Nat) : α := (mk.1 : α) / ((2 ^ mk.2 : Nat) : α)

/-- `dcoeffs(code)` restricted to `ncoeffs = 2*(code+1)` entries -/
def coeffsOf (code : Nat) : List α :=
  ((Generated.dcoeffs.getD code []).take (2 * (code + 1))).map coef

/-- `wavelet_center`'s embedding: `f` at offset `(d0,d1)`, `cval` elsewhere -/
def center (N0 N1 d0 d1 : Nat) (cval : α) (f : Im α) : Im α :=
  fun y x => if d0 ≤ y ∧ y < d0 + N0 ∧ d1 ≤ x ∧ x < d1 + N1 then f (y - d0) (x - d1) else cval

/-- `wavelet_decenter`'s slice -/
def decenter (d0 d1 : Nat) (w : Im α) : Im α := fun y x => w (y + d0) (x + d1)

/-! ### the Python wrappers' buffer handling -/

/-- which buffer the row kernels of a wrapper call write into: the caller's array or a fresh one -/
inductive Target | input | fresh
deriving DecidableEq, Repr

/-- `_wavelet_array(f, inline, …)`: `f = _as_floating_point_array(f)` (a non-floating array is converted by
    `astype(np.double)`: a new array; a floating one is passed through), then `if not inline: return f.copy()`,
    else `return f` -/
def wrapTarget (isFloat inline : Bool) : Target :=
  let afterCast := if isFloat then Target.input else Target.fresh
  if !inline then Target.fresh else afterCast

/-- a wrapper call `T(f, inline=…)` (`haar`, `ihaar`, `daubechies`, `idaubechies`: the kernels and the final
    scaling all work in place on the array `_wavelet_array` returned) seen from the caller:
    (content of the caller's array afterwards, returned array) -/
def wrapCall (T : Im α → Im α) (isFloat inline : Bool) (f : Im α) : Im α × Im α :=
  match wrapTarget isFloat inline with
  | .input => (T f, T f)
  | .fresh => (f, T f)

end Poly

/-- `_wavelet_center_compute`: the first `c ≥ 1` (below `16+border`) for which every
    `delta_d = (2^(⌊log2 o_d⌋+c) − o_d) / 2` exceeds `border`; returns the new shape and the offsets. -/
def centerCompute (oshape : List Nat) (border : Nat) : Option (List Nat × List Nat) :=
  let cand := fun (c : Nat) =>
    let nshape := oshape.map fun o => 2 ^ (Nat.log2 o + c)
    let delta := (nshape.zip oshape).map fun no => (no.1 - no.2) / 2
    (nshape, delta)
  ((List.range (15 + border)).map (· + 1)).findSome? fun c =>
    let (ns, d) := cand c
    if d.all (fun x => border < x) then some (ns, d) else none

/-! ## driver -/

local instance : NatCast Float := ⟨Float.ofNat⟩
local instance : IntCast Float := ⟨Float.ofInt⟩

def ofArray (N1 : Nat) (a : Array Float) : Im Float := fun y x => a.getD (y * N1 + x) 0.0

def tabulate2 (N0 N1 : Nat) (f : Im Float) : List Float :=
  (List.range (N0 * N1)).map fun i => f (i / N1) (i % N1)

/-- evaluate a two-pass transform with the intermediate image stored (as the C code does) -/
def twoPass (N0 N1 : Nat) (first second : Im Float → Im Float) (f : Im Float) : List Float :=
  let mid := (tabulate2 N0 N1 (first f)).toArray
  tabulate2 N0 N1 (second (ofArray N1 mid))

end Mahotas.C17
