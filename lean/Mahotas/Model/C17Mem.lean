/-
C17 — the wavelet kernels at the level of the memory the C code works on.

`Model/C17Core.lean` describes the kernels on abstract rows. The C functions of `_convolve.cpp` work in place on a
strided 2-D view (`aligned_array<T>`: `data(y) = base + y·stride(0)`, `step = stride(1)`, strides in elements), one
row after the other, and `convolve.py` calls them on `f` and on the transposed view `f.T`. Two of them compute the
address of the second half of a row as `high = data + step*N1/2` — `(step·N1)/2` with C's truncating division — which
is `data + step·(N1/2)` only when `N1` is even or `|step| ≤ 1`; on an odd side reached with a larger step (the
transposed pass over a C-contiguous image with an odd number of rows) `ihaar` and `iwavelet` read the "high" samples
from other array elements. This file transliterates exactly that: memory is a function from element addresses to
values, a view is `(offset, shape, strides)`, a pass is a fold of `rowStep` over the rows of the view, a wrapper call
is `pass v` then `pass v.T` (`idaubechies`: the other way round) and the optional scaling of the view, on the caller's
buffer or on a fresh copy according to `wrapTarget`. It also has `_wavelet_center_compute` for every integer border
(`centerComputeI`: the guards of the Python function, the loop `for c in range(1, 64)`).

Everything is polymorphic in the scalar type like the core model; the driver runs it at `Float`
(kinds `mem`, `centeri`), `Proofs/C17Mem.lean` proves facts about the same definitions.
-/
import Mahotas.Model.C17Core
namespace Mahotas.C17.Mem
open Mahotas Mahotas.C17

section Poly
variable {α : Type} [Add α] [Sub α] [Mul α] [Div α] [Neg α] [NatCast α] [IntCast α]

/-- memory: element address ↦ value (addresses in units of one array element) -/
abbrev Memory (α : Type) := Int → α

/-- a strided 2-D view: address of element `(y, x)` is `off + s0·y + s1·x` -/
structure View where
  off : Int
  N0 : Nat
  N1 : Nat
  s0 : Int
  s1 : Int
deriving Repr, DecidableEq

/-- `f.T` -/
def View.T (v : View) : View := ⟨v.off, v.N1, v.N0, v.s1, v.s0⟩
def View.addr (v : View) (y x : Nat) : Int := v.off + v.s0 * y + v.s1 * x
/-- the image a view shows -/
def View.read (v : View) (m : Memory α) : Im α := fun y x => m (v.addr y x)
/-- the C-contiguous view of an `N0 × N1` array at offset 0 -/
def View.contig (N0 N1 : Nat) : View := ⟨0, N0, N1, N1, 1⟩
/-- the Fortran-contiguous view of an `N0 × N1` array at offset 0 -/
def View.fortran (N0 N1 : Nat) : View := ⟨0, N0, N1, 1, N0⟩

/-- `for (x = 0; x != N; ++x) data[step*x] = buffer[x];` (for `step = 0` the last store wins) -/
def writeRow (m : Memory α) (data step : Int) (N : Nat) (buf : Nat → α) : Memory α := fun a =>
  if step = 0 then (if a = data ∧ 0 < N then buf (N - 1) else m a)
  else if (a - data) % step = 0 ∧ 0 ≤ (a - data) / step ∧ (a - data) / step < (N : Int) then
    buf ((a - data) / step).toNat
  else m a

/-- the element offset of `high` as the PINNED tree computed it, `high = data + step*N1/2`: C's truncating division of
    the product `(step·N1)/2` (wrong for an odd `N1` reached with `|step| ≥ 2`; repaired in /repo by
    "fix: ihaar/iwavelet computed the start of the high-pass half as (step*N1)/2 instead of step*(N1/2)").
    Kept for the history theorems `C17_high_pointer_pinned`, `C17_high_reads_in_row_pinned`. -/
def highOffPinned (step : Int) (N : Nat) : Int := (step * (N : Int)).tdiv 2

/-- the element offset of `high = data + step*(N1/2)` (`ihaar`, `iwavelet`, as repaired): sample `N1/2` of the row -/
def highOff (step : Int) (N : Nat) : Int := step * ((N / 2 : Nat) : Int)

/-- one row of `ihaar<T>` with the two half rows read separately: `l = low[x·step]`, `h = high[x·step]` -/
def ihaarRowG (N : Nat) (lo hi : Nat → α) (k : Nat) : α :=
  if k < 2 * (N / 2) then
    let l := lo (k / 2)
    let h := hi (k / 2)
    if k % 2 = 0 then (l - h) / two else (l + h) / two
  else zero

/-- one row of `iwavelet<T>` with the two half rows read separately (`_access(low, N1/2, xmap, step)`,
    `_access(high, N1/2, xmap, step)`) -/
def iwaveletRowG (cs : List α) (N : Nat) (lo hi : Nat → α) (x : Nat) : α :=
  let n := cs.length
  let taps := (List.range n).filter fun ci => (((x + ci : Nat) : Int) - (n : Int) + 2) % 2 ≠ 0
  let xmap := fun (ci : Nat) => ((((x + ci : Nat) : Int) - (n : Int) + 2)).tdiv 2
  let l := taps.foldl (fun acc ci => acc + cs.getD ci zero * access (N / 2) lo (xmap ci)) zero
  let h := taps.foldl (fun acc ci =>
      acc + (if ci % 2 = 0 then cs.getD (n - ci - 1) zero else -(cs.getD (n - ci - 1) zero))
            * access (N / 2) hi (xmap ci)) zero
  (l + h) / two

/-- the four row kernels of `_convolve.cpp` -/
inductive Kern | haar | ihaar | wavelet | iwavelet
deriving DecidableEq, Repr

/-- the contents of `buffer` after the inner loops of one row: `haar` and `wavelet` read `data[p·step]` only (their
    `high` is a pointer into the scratch buffer), `ihaar` and `iwavelet` read `low = data` and
    `high = data + step*N1/2` -/
def rowResult (k : Kern) (cs : List α) (m : Memory α) (data step : Int) (N : Nat) : Nat → α :=
  let lo := fun (i : Nat) => m (data + step * (i : Int))
  let hi := fun (i : Nat) => m (data + highOff step N + step * (i : Int))
  match k with
  | .haar => haarRow N lo
  | .wavelet => waveletRow cs N lo
  | .ihaar => ihaarRowG N lo hi
  | .iwavelet => iwaveletRowG cs N lo hi

/-- the body of `for (y = 0; y != N0; ++y)`: compute `buffer` from row `y`, store it back -/
def rowStep (k : Kern) (cs : List α) (v : View) (m : Memory α) (y : Nat) : Memory α :=
  let data := v.off + v.s0 * (y : Int)
  writeRow m data v.s1 v.N1 (rowResult k cs m data v.s1 v.N1)

/-- one call of a C kernel on a view: the rows in order, in place -/
def pass (k : Kern) (cs : List α) (v : View) (m : Memory α) : Memory α :=
  (List.range v.N0).foldl (rowStep k cs v) m

/-- `f /= 2.0`, `f *= 2.0` on the view (numpy visits every element of the view once) -/
def scaleView (g : α → α) (v : View) (m : Memory α) : Memory α :=
  (List.range v.N0).foldl (fun (m : Memory α) (y : Nat) =>
    let data := v.off + v.s0 * (y : Int)
    writeRow m data v.s1 v.N1 (fun x => g (m (data + v.s1 * (x : Int))))) m

/-- the four wrappers of `convolve.py` -/
inductive Wrapper | haar | ihaar | daubechies | idaubechies
deriving DecidableEq, Repr

/-- the body of a wrapper after `_wavelet_array`: kernel on `f`, kernel on `f.T` (`idaubechies`: `f.T` first),
    then the scaling. The memory is carried as a state `σ` (`get`/`put`): `σ = Memory α` with the identities in the
    theorems; the driver carries a materialised array and stores the memory back into it after every row -/
def wrapperBodyG {σ : Type} (get : σ → Memory α) (put : Memory α → σ) (w : Wrapper) (pe : Bool) (cs : List α)
    (v : View) (s : σ) : σ :=
  let run := fun (k : Kern) (v : View) (s : σ) =>
    (List.range v.N0).foldl (fun (s : σ) (y : Nat) => put (rowStep k cs v (get s) y)) s
  match w with
  | .haar =>
    let s := run .haar v.T (run .haar v s)
    if pe then put (scaleView (fun t => t / two) v (get s)) else s
  | .ihaar =>
    let s := run .ihaar v.T (run .ihaar v s)
    if pe then put (scaleView (fun t => t * two) v (get s)) else s
  | .daubechies => run .wavelet v.T (run .wavelet v s)
  | .idaubechies => run .iwavelet v (run .iwavelet v.T s)

/-- the wrapper body on plain memory -/
def wrapperBody (w : Wrapper) (pe : Bool) (cs : List α) (v : View) (m : Memory α) : Memory α :=
  wrapperBodyG (σ := Memory α) id id w pe cs v m

/-- the layout of the array `_wavelet_array` hands to the kernels when it is not the caller's: `f.copy()` is
    C-contiguous; `astype(np.double)` alone (integer input with `inline=True`) keeps the order of the axes
    (`order='K'`: the axis with the smaller absolute stride stays the fast one) -/
def freshView (isFloat inline : Bool) (v : View) : View :=
  if !isFloat ∧ inline ∧ v.s0.natAbs < v.s1.natAbs then View.fortran v.N0 v.N1 else View.contig v.N0 v.N1

/-- a fresh array holding the image `f` with the layout `u` (offset 0, C or Fortran contiguous) -/
def freshMem (u : View) (f : Im α) : Memory α := fun a =>
  if u.s1 = 1 then f (a / (u.N1 : Int)).toNat (a % (u.N1 : Int)).toNat
  else f (a % (u.N0 : Int)).toNat (a / (u.N0 : Int)).toNat

/-- a wrapper call `w(f, inline=…)` on the view `v` of the caller's memory:
    (the caller's memory afterwards, the returned image) -/
def wrapMemG {σ : Type} (get : σ → Memory α) (put : Memory α → σ) (w : Wrapper) (pe : Bool) (cs : List α)
    (isFloat inline : Bool) (v : View) (s : σ) : σ × Im α :=
  match wrapTarget isFloat inline with
  | .input =>
    let s' := wrapperBodyG get put w pe cs v s
    (s', v.read (get s'))
  | .fresh =>
    let u := freshView isFloat inline v
    let s' := wrapperBodyG get put w pe cs u (put (freshMem u (v.read (get s))))
    (s, u.read (get s'))

/-- a wrapper call on plain memory -/
def wrapMem (w : Wrapper) (pe : Bool) (cs : List α) (isFloat inline : Bool) (v : View) (m : Memory α) :
    Memory α × Im α :=
  wrapMemG (σ := Memory α) id id w pe cs isFloat inline v m

end Poly

/-! ### `_wavelet_center_compute` for every integer border -/

/-- the first `c` in `lo, lo+1, …, lo+fuel−1` with `P c` -/
def searchC (P : Nat → Bool) : Nat → Nat → Option Nat
  | 0, _ => none
  | fuel + 1, c => if P c then some c else searchC P fuel (c + 1)

/-- the candidate of step `c`: sides `2^(⌊log2 o⌋ + c)`, offsets `(new − old) // 2` -/
def centerCand (oshape : List Nat) (c : Nat) : List Nat × List Nat :=
  let nshape := oshape.map fun o => 2 ^ (Nat.log2 o + c)
  (nshape, (nshape.zip oshape).map fun no => (no.1 - no.2) / 2)

/-- `_wavelet_center_compute(oshape, border)` as it is in `convolve.py`: `ValueError` (here `none`) for
    `border ≥ 2^40`, an empty shape or a side `≤ 0`; otherwise the first `c` of `range(1, 64)` for which every
    offset exceeds `border` (`np.min(delta) <= border: continue`) — for a negative border that is `c = 1`. -/
def centerComputeI (oshape : List Int) (border : Int) : Option (List Nat × List Nat) :=
  if border ≥ 2 ^ 40 then none
  else if oshape.isEmpty ∨ oshape.any (· ≤ 0) then none
  else
    let o := oshape.map Int.toNat
    (searchC (fun c => (centerCand o c).2.all fun d => border < (d : Int)) 63 1).map (centerCand o)

/-! ## driver -/

local instance : NatCast Float := ⟨Float.ofNat⟩
local instance : IntCast Float := ⟨Float.ofInt⟩

/-- the driver's memory state: an array of `size` elements (the caller's root buffer, or the fresh copy) -/
def ofBuf (a : Array Float) : Memory Float := fun p => if 0 ≤ p then a.getD p.toNat 0.0 else 0.0
def toBuf (size : Nat) (m : Memory Float) : Array Float := Array.ofFn (n := size) (fun i => m (i.val : Int))

def wrapperOf : String → Option Wrapper
  | "haar" => some .haar
  | "ihaar" => some .ihaar
  | "daubechies" => some .daubechies
  | "idaubechies" => some .idaubechies
  | _ => none

def handle (a : Args) : String :=
  match a.str "kind" with
  | "mem" =>
    match a.nats "shape", a.ints "strides", wrapperOf (a.str "name") with
    | [N0, N1], [s0, s1], some w =>
      let buf := (a.floats "buf").toArray
      let size := max buf.size (N0 * N1)
      let v : View := ⟨a.int "off" 0, N0, N1, s0, s1⟩
      let cs : List Float := coeffsOf (a.nat "code" 0)
      let (b', r) := wrapMemG ofBuf (toBuf size) w (a.nat "pe" 1 == 1) cs (a.nat "isfloat" 1 == 1)
        (a.nat "inline" 0 == 1) v (toBuf size (ofBuf buf))
      let out := (List.range buf.size).map fun (i : Nat) => b'.getD i 0.0
      let tgt := match wrapTarget (a.nat "isfloat" 1 == 1) (a.nat "inline" 0 == 1) with
        | .input => "input"
        | .fresh => "fresh"
      s!"model={showFloats (tabulate2 N0 N1 r)} buf={showFloats out} target={tgt}"
    | _, _, _ => "error=mem-arguments"
  | "centeri" =>
    match centerComputeI (a.ints "shape") (a.int "border" 0) with
    | some (ns, d) => s!"nshape={showNats ns} delta={showNats d}"
    | none => "nshape=none delta=none"
  | k => s!"error=unknown-kind-{k}"

end Mahotas.C17.Mem
