/-
C18 — executable model of `mahotas/_interpolate.cpp` (`spline_coefficients`, `zoom_shift`,
`spline_filter1d`) and of the Python glue in `interpolate.py` / `resize.py`, as they are on the
repaired tree (coordinates inside `[0, len-1]` keep their fractional part, the border rule is applied
to the nearest sample position of coordinates outside, start index `order odd ? floor x : floor (x+1/2)`).

The algebraic layer (B-spline weights, coordinate maps, start index, tensor-product sum) is written
once, polymorphic in the scalar type: the driver *runs* it at `Float`, `Proofs/C18.lean` and
`Properties/C18.lean` *prove* facts about the same definitions over ordered fields.  `floor` is a
parameter (`fl : α → Int`): `Float.floor` in the driver, `Int.floor` in the theorems.
The recursive prefilter uses `sqrt/log/pow` and is modelled at `Float` only.
-/
import Mahotas.Model.Border
import Mahotas.Model.DType
import Mahotas.Model.C18Shape
namespace Mahotas.C18
open Mahotas

/-! ## polymorphic layer -/
section Poly
variable {α : Type} [Add α] [Sub α] [Mul α] [Div α] [Neg α] [NatCast α] [IntCast α] [LT α] [DecidableLT α]

/-- the rational constant `a/b` (`a`, `b` small naturals, so the quotient is the correctly rounded
    double the C literal denotes) -/
@[inline] def q (a b : Nat) : α := (a : α) / (b : α)

/-- `fabs` -/
def absV (y : α) : α := if y < ((0 : Nat) : α) then -y else y

/-- one B-spline weight as a function of the distance `y ≥ 0` to the knot: the `switch(order)` body
    of `spline_coefficients`, literally (orders 1–5; anything else gives 0). -/
def splineCoeff (order : Nat) (y : α) : α :=
  match order with
  | 1 => if ((1 : Nat) : α) < y then ((0 : Nat) : α) else ((1 : Nat) : α) - y
  | 2 =>
    if y < q 1 2 then q 3 4 - y * y
    else if y < q 3 2 then
      let z : α := q 3 2 - y
      q 1 2 * z * z
    else ((0 : Nat) : α)
  | 3 =>
    if y < ((1 : Nat) : α) then (y * y * (y - ((2 : Nat) : α)) * ((3 : Nat) : α) + ((4 : Nat) : α)) / ((6 : Nat) : α)
    else if y < ((2 : Nat) : α) then
      let z : α := ((2 : Nat) : α) - y
      z * z * z / ((6 : Nat) : α)
    else ((0 : Nat) : α)
  | 4 =>
    if y < q 1 2 then
      let z : α := y * y
      z * (z * q 1 4 - q 5 8) + q 115 192
    else if y < q 3 2 then
      y * (y * (y * (q 5 6 - y / ((6 : Nat) : α)) - q 5 4) + q 5 24) + q 55 96
    else if y < q 5 2 then
      let z : α := y - q 5 2
      let z2 : α := z * z
      z2 * z2 / ((24 : Nat) : α)
    else ((0 : Nat) : α)
  | 5 =>
    if y < ((1 : Nat) : α) then
      let f : α := y * y
      f * (f * (q 1 4 - y / ((12 : Nat) : α)) - q 1 2) + q 11 20
    else if y < ((2 : Nat) : α) then
      y * (y * (y * (y * (y / ((24 : Nat) : α) - q 3 8) + q 5 4) - q 7 4) + q 5 8) + q 17 40
    else if y < ((3 : Nat) : α) then
      let f : α := ((3 : Nat) : α) - y
      let z : α := f * f
      f * z * z / ((120 : Nat) : α)
    else ((0 : Nat) : α)
  | _ => ((0 : Nat) : α)

/-- index of the first of the `order+1` knots used at coordinate `x`
    (`order & 1 ? floor(x) : floor(x + 0.5)`, minus `order/2`), computed identically in
    `spline_coefficients` and in `zoom_shift`. -/
def startIdx (fl : α → Int) (order : Nat) (x : α) : Int :=
  (if order % 2 = 1 then fl x else fl (x + q 1 2)) - ((order / 2 : Nat) : Int)

/-- the `order+1` weights of `spline_coefficients(x, order, ·)` -/
def weights (fl : α → Int) (order : Nat) (x : α) : List α :=
  (List.range (order + 1)).map fun h =>
    splineCoeff order (absV (((startIdx fl order x : Int) : α) - x + ((h : Nat) : α)))

/-- `std_like_round` followed by the cast to `npy_intp` (`ceil z = -floor (-z)`) -/
def roundI (fl : α → Int) (v : α) : Int :=
  if ((0 : Nat) : α) < v then fl (v + q 1 2) else -(fl (-(v - q 1 2)))

/-- output index → input coordinate: `cc = kk; if (shifts) cc += shift; if (zooms) cc *= zoom` -/
def coord (kk : Nat) (shift zoom : Option α) : α :=
  let c : α := (kk : α)
  let c := match shift with | some s => c + s | none => c
  match zoom with | some z => c * z | none => c

/-- the border handling of `zoom_shift`: a coordinate inside `[0, len-1]` is kept as it is; one
    outside goes, rounded to the nearest sample position, through `fix_offset`
    (`none` = `border_flag_value`: the output pixel receives `cval`). -/
def mapCoord (fl : α → Int) (m : Mode) (len : Nat) (cc : α) : Option α :=
  if cc < ((0 : Nat) : α) ∨ (((len : Int) - 1 : Int) : α) < cc then
    match fixOffset m (roundI fl cc) len with
    | some i => some (i : α)
    | none => none
  else some cc

/-- the mirror folding of the knots that stick out of the array (`edge_offsets`): the arithmetic is,
    line for line, that of `fix_offset(ExtendMirror, ·)`; inside `[0,len)` it is the identity, which
    is why the code only applies it when `start < 0 || start + order >= len`. -/
def edgeFold (len : Nat) (idx : Int) : Int := (fixOffset .mirror idx len).getD 0

/-- what `zoom_shift` precomputes for one output index along one axis:
    `none` (flagged: the pixel gets `cval`) or the folded knot indices with their weights. -/
def axisEntry (fl : α → Int) (order : Nat) (m : Mode) (len : Nat) (cc : α) : Option (List Int × List α) :=
  match mapCoord fl m len cc with
  | none => none
  | some c =>
    let start := startIdx fl order c
    some ((List.range (order + 1)).map (fun h => edgeFold len (start + (h : Nat))), weights fl order c)

/-- all knot tuples with their per-axis weights, first axis slowest (the order of `fcoordinates`) -/
def tensorTerms : List (List Int × List α) → List (List Int × List α)
  | [] => [([], [])]
  | (idx, w) :: rest =>
    (idx.zip w).flatMap fun iw => (tensorTerms rest).map fun pw => (iw.1 :: pw.1, iw.2 :: pw.2)

/-- `t = 0; for fi: coeff = data[idx]; for r: coeff *= splvals[r][..]; t += coeff` -/
def tensorSum (zero : α) (sample : List Int → α) (entries : List (List Int × List α)) : α :=
  (tensorTerms entries).foldl (fun t pw => t + pw.2.foldl (· * ·) (sample pw.1)) zero

/-- one output pixel of `zoom_shift` -/
def pixel (fl : α → Int) (order : Nat) (m : Mode) (cval : α) (im : Img α)
    (shifts zooms : List (Option α)) (p : List Int) : α :=
  let rec go : List Nat → List Int → List (Option α) → List (Option α) → Option (List (List Int × List α))
    | len :: ls, kk :: ks, s :: ss, z :: zs =>
      match axisEntry fl order m len (coord kk.toNat s z), go ls ks ss zs with
      | some e, some es => some (e :: es)
      | _, _ => none
    | _, _, _, _ => some []
  match go im.shape p shifts zooms with
  | none => cval
  | some entries => tensorSum ((0 : Nat) : α) (fun pos => im.getD pos ((0 : Nat) : α)) entries

/-- `zoom_shift` -/
def zoomShift (fl : α → Int) (order : Nat) (m : Mode) (cval : α) (im : Img α)
    (shifts zooms : List (Option α)) (oshape : List Nat) : Img α :=
  Img.tabulate oshape (pixel fl order m cval im shifts zooms)

/-- `interpolate.zoom`: factor `(n_in − 1)/(n_out − 1)`, replaced by 1 when it is not finite -/
def zoomFactor (nin nout : Nat) : α :=
  if nout = 1 then ((1 : Nat) : α) else (((nin : Int) - 1 : Int) : α) / (((nout : Int) - 1 : Int) : α)

/-- `interpolate.shift` after the optional prefilter: `shift *= -1`, then `zoom_shift` onto the input's shape -/
def shiftGlue (fl : α → Int) (order : Nat) (m : Mode) (cval : α) (im : Img α) (shift : List α) : Img α :=
  zoomShift fl order m cval im (shift.map fun s => some (-s)) (shift.map fun _ => none) im.shape

/-- `interpolate.zoom(out=array of shape oshape)` after the optional prefilter -/
def zoomGlue (fl : α → Int) (order : Nat) (m : Mode) (cval : α) (im : Img α) (oshape : List Nat) : Img α :=
  zoomShift fl order m cval im (oshape.map fun _ => none)
    ((im.shape.zip oshape).map fun io => some (zoomFactor io.1 io.2)) oshape

/-! ### `resize.py` (the wrappers around `zoom`)

`pre` stands for `_maybe_filter` (`spline_filter` for `order > 1`, the identity otherwise; the driver passes
`splineFilter order`).  `none` = the wrapper raises `ValueError`. -/

/-- `resize_to(im, nsize, order)`: `if len(nsize) != im.ndim: raise ValueError`;
    `out = np.empty(nsize, dtype=im.dtype)`; `return zoom(im, nsize / im.shape, order=order, out=out)`.
    With `out` given, `zoom` does not use the factors it is handed: it recomputes them from `out.shape`
    (`zoomGlue`), with the defaults `mode='constant'`, `cval=0.0`. -/
def resizeTo (fl : α → Int) (pre : Img α → Img α) (order : Nat) (im : Img α) (nsize : List Nat) : Option (Img α) :=
  if nsize.length ≠ im.shape.length then none
  else some (zoomGlue fl order .constant ((0 : Nat) : α) (pre im) nsize)

/-- `imresize(img, nsize, order)` on its integer path (`nsize` a tuple or list whose first entry is a Python
    `int`): `out = np.empty(nsize, dtype=np.float64)`; `nsize /= img.shape`; `return zoom(img, nsize, order=order, out=out)`
    — the requested shape is passed as `out` (since `5b53411`; before, `int(s·(n/s))` could be `n − 1`).  A size of
    the wrong length raises `ValueError` (from the in-place broadcast or from `zoom`'s own checks). -/
def imresizeInt (fl : α → Int) (pre : Img α → Img α) (order : Nat) (img : Img α) (nsize : List Nat) : Option (Img α) :=
  if nsize.length ≠ img.shape.length then none
  else some (zoomGlue fl order .constant ((0 : Nat) : α) (pre img) nsize)

/-- `im.transpose((2,0,1))[c]`: channel `c` of an `(h, w, k)` array as an `(h, w)` array -/
def channel (im : Img α) (c : Nat) : Img α :=
  Img.tabulate (im.shape.take 2) fun p => im.getD (p ++ [((c : Nat) : Int)]) ((0 : Nat) : α)

/-- `np.dstack` of `(h, w)` arrays: an `(h, w, len)` array whose entry `(y, x, c)` is entry `(y, x)` of array `c` -/
def dstack (hw : List Nat) (chs : List (Img α)) : Img α :=
  Img.tabulate (hw ++ [chs.length]) fun p =>
    match chs[(p.getD 2 0).toNat]? with
    | some ch => ch.getD (p.take 2) ((0 : Nat) : α)
    | none => ((0 : Nat) : α)

/-- `resize_rgb_to(im, nsize, order)`: `_check_3(im)` (`im.ndim != 3 or im.shape[2] != 3` raises `ValueError`);
    `np.dstack([resize_to(ch, nsize, order) for ch in im.transpose((2,0,1))])` -/
def resizeRgbTo (fl : α → Int) (pre : Img α → Img α) (order : Nat) (im : Img α) (nsize : List Nat) : Option (Img α) :=
  if im.shape.length ≠ 3 ∨ im.shape.getD 2 0 ≠ 3 then none
  else
    let chs := (List.range 3).filterMap fun c => resizeTo fl pre order (channel im c) nsize
    if chs.length ≠ 3 then none else some (dstack nsize chs)

/-- `zoom(array, factor, order, mode)` without `out`: the scalar-to-vector broadcast and the length check
    (`zoomFactors`), `output_shape = int(s * z)` per axis (`zoomOutShape`, `Model/C18Shape.lean`), then — like every
    call — the factors handed to `zoom_shift` are recomputed from the shapes (`zoomGlue`). `none` = raises. -/
def zoomByFactor (fl : α → Int) (pre : Img α → Img α) (order : Nat) (m : Mode) (cval : α) (im : Img α)
    (scalar : Bool) (zs : List α) : Option (Img α) :=
  match zoomOutShape fl im.shape (zoomFactors im.shape.length scalar zs) with
  | none => none
  | some os => some (zoomGlue fl order m cval (pre im) os)

/-- `imresize(img, nsize, order)` on its factor path (`nsize` a float, or a sequence whose first entry is not a
    Python `int`): `return zoom(img, nsize, order=order)` (defaults `mode='constant'`, `cval=0.0`) -/
def imresizeFactor (fl : α → Int) (pre : Img α → Img α) (order : Nat) (img : Img α) (scalar : Bool) (zs : List α) :
    Option (Img α) :=
  zoomByFactor fl pre order .constant ((0 : Nat) : α) img scalar zs

/-- `resize_to` on an image of an integer dtype `dt`: `out = np.empty(nsize, dtype=im.dtype)`; `zoom` works in
    `float64` and ends with `o_out[:] = out[:]` — every interpolated value is truncated toward zero (`castToInt`;
    `none` entries: outside the dtype's range, not modelled) -/
def resizeToDT (fl : α → Int) (pre : Img α → Img α) (order : Nat) (dt : DT) (im : Img α) (nsize : List Nat) :
    Option (Img (Option Int)) :=
  match resizeTo fl pre order im nsize with
  | none => none
  | some r => some { shape := r.shape, data := r.data.map (castToInt fl dt) }

/-! ### specification (the statement's words)

Along one axis, for the coordinate `cc` an output index maps to:
* `cc` an integer (anywhere): the sample at the position the border rule (`borderSpec`, the
  mathematical definition, not `fix_offset`) assigns to it, or `cval`;
* order 1 and `0 ≤ cc ≤ len−1`: linear interpolation of the two neighbours;
* otherwise the statement fixes no closed form (`none`; the chain
  "prefilter reproduces the samples" + "value = B-spline expansion at `cc`" is checked instead). -/
inductive SpecAxis (α : Type) | unspecified | cval | knots (l : List (Int × α))

def specAxis (fl : α → Int) (order : Nat) (m : Mode) (len : Nat) (cc : α) : SpecAxis α :=
  let i := fl cc
  let isInt : Bool := ¬ (cc < (i : α)) ∧ ¬ ((i : α) < cc)
  if isInt then
    match borderSpec m i len with
    | some j => .knots [(j, ((1 : Nat) : α))]
    | none => .cval
  else if order = 1 ∧ ¬ (cc < ((0 : Nat) : α)) ∧ ¬ ((((len : Int) - 1 : Int) : α) < cc) then
    let t : α := cc - (i : α)
    .knots [(i, ((1 : Nat) : α) - t), (i + 1, t)]
  else .unspecified

/-- nested (mathematical) tensor-product sum -/
def specSum (sample : List Int → α) : List (List (Int × α)) → List Int → α
  | [], pos => sample pos.reverse
  | ax :: rest, pos => ax.foldl (fun t iw => t + iw.2 * specSum sample rest (iw.1 :: pos)) ((0 : Nat) : α)

def specPixel (fl : α → Int) (order : Nat) (m : Mode) (cval : α) (im : Img α)
    (shifts zooms : List (Option α)) (p : List Int) : Option α :=
  let rec go : List Nat → List Int → List (Option α) → List (Option α) → Option (Option (List (List (Int × α))))
    | len :: ls, kk :: ks, s :: ss, z :: zs =>
      match specAxis fl order m len (coord kk.toNat s z), go ls ks ss zs with
      | .unspecified, _ => none
      | _, none => none
      | .cval, some _ => some none
      | .knots _, some none => some none
      | .knots l, some (some es) => some (some (l :: es))
    | _, _, _, _ => some (some [])
  match go im.shape p shifts zooms with
  | none => none
  | some none => some cval
  | some (some axes) => some (specSum (fun pos => im.getD pos ((0 : Nat) : α)) axes [])

/-! ### the recursive prefilter, one pole

`spline_filter1d` runs, for every pole `z`, a causal pass `c⁺[k] = s[k] + z·c⁺[k−1]` (from an initial value
`c⁺[0]` that is a — possibly truncated — geometric sum) and an anti-causal pass
`c⁻[n−1] = z/(z²−1)·(c⁺[n−1] + z·c⁺[n−2])`, `c⁻[k] = z·(c⁻[k+1] − c⁺[k])`. -/

/-- causal pass from a given first value -/
def causal (z c0 : α) (s : Nat → α) : Nat → α
  | 0 => c0
  | k + 1 => s (k + 1) + z * causal z c0 s k

/-- anti-causal pass, counted from the end: `anticausalRev … j = c⁻[n−1−j]` -/
def anticausalRev (z : α) (n : Nat) (cp : Nat → α) : Nat → α
  | 0 => (z / (z * z - ((1 : Nat) : α))) * (cp (n - 1) + z * cp (n - 2))
  | j + 1 => z * (anticausalRev z n cp j - cp (n - 2 - j))

/-- both passes for one pole on a line of length `n ≥ 2` -/
def onePole (z c0 : α) (n : Nat) (s : Nat → α) (k : Nat) : α :=
  anticausalRev z n (causal z c0 s) (n - 1 - k)

/-- the initial value of the causal pass on long lines (`max < len`): the geometric sum cut after `mx` terms,
    `zn = p; sum = line[0]; for (ll = 1; ll < max; ll++) { sum += zn * line[ll]; zn *= p; }` -/
def initTrunc (z : α) (mx : Nat) (s : Nat → α) : α :=
  ((List.range (mx - 1)).foldl (fun (st : α × α) i => (st.1 + st.2 * s (i + 1), st.2 * z)) (s 0, z)).1

/-- one turn of the loop of the full initialisation: state `(sum, zn, z2n)`, `ll = i + 1` -/
def stepFull (z iz : α) (s : Nat → α) (st : α × α × α) (i : Nat) : α × α × α :=
  (st.1 + (st.2.1 + st.2.2) * s (i + 1), st.2.1 * z, st.2.2 * iz)

/-- the initial value of the causal pass on short lines (`max ≥ len`): the closed form of the geometric sum
    over the mirror-extended line; `zpow` is `pow(p, len − 1)`:
    `zn = p; iz = 1/p; z2n = zpow; sum = line[0] + z2n*line[len−1]; z2n *= z2n*iz;
     for (ll = 1; ll ≤ len−2; ll++) { sum += (zn + z2n)*line[ll]; zn *= p; z2n *= iz; }  sum / (1 − zn*zn)` -/
def initFull (z zpow : α) (len : Nat) (s : Nat → α) : α :=
  let iz : α := ((1 : Nat) : α) / z
  let st := (List.range (len - 2)).foldl (stepFull z iz s) (s 0 + zpow * s (len - 1), z, zpow * (zpow * iz))
  st.1 / (((1 : Nat) : α) - st.2.1 * st.2.1)

/-! ### `spline_filter1d` / `spline_filter` on arrays

The array loop of the prefilter, polymorphic: the driver runs it at `Float` with the code's poles, weight and
initialisation rule; `Proofs/C18Array.lean` proves over any field that it computes, position by position, the separable
prefilter `prefilterNd` the interpolation theorems speak about. -/

/-- the initial value `spline_filter1d` gives the causal pass of pole `p` on a line of length `len`: the sum cut after
    `cut p` terms when that is below the length, otherwise the closed form over the mirrored line
    (`pw p n` stands for `pow(p, n)`) -/
def iniCode (cut : α → Int) (pw : α → Nat → α) (p : α) (len : Nat) (s : Nat → α) : α :=
  if cut p < (len : Int) then initTrunc p (cut p).toNat s else initFull p (pw p (len - 1)) len s

/-- one line of `spline_filter1d` for the weight `w`, the poles `ps` and the initialisation rule `ini`: a line of at
    most one sample is returned as it is; otherwise `line *= w` and, pole after pole, `line[0] = ini p len line`, the
    causal and the anti-causal pass (`onePole`; it reads `line[0]` only through the initial value) -/
def filterLineP (w : α) (ps : List α) (ini : α → Nat → (Nat → α) → α) (line0 : Array α) : Array α :=
  let len := line0.size
  if len ≤ 1 then line0
  else ps.foldl (fun line p =>
      (Array.range len).map
        (onePole p (ini p len (fun k => line.getD k ((0 : Nat) : α))) len (fun k => line.getD k ((0 : Nat) : α))))
    (line0.map (· * w))

/-- the `len` samples of the line through `p` along `axis` -/
def lineOf (im : Img α) (axis : Nat) (p : List Int) (len : Nat) : Array α :=
  (Array.range len).map fun k => im.getD (p.set axis ((k : Nat) : Int)) ((0 : Nat) : α)

/-- `spline_filter1d` along `axis` with the line filter `F`: every line along the axis is replaced by `F line`
    (each line is filtered once — stored at the flat index of its first sample — and every sample is read from its
    line; the lines are disjoint, so this is what the in-place loop of the C++ code leaves behind).
    An axis of length ≤ 1 (or beyond the rank) leaves the array as it is. -/
def filterAxisP (F : Array α → Array α) (im : Img α) (axis : Nat) : Img α :=
  let len := im.shape.getD axis 1
  if len ≤ 1 then im
  else
    let lines : Array (Array α) := ((allPos im.shape).map fun p =>
      if p.getD axis 0 = 0 then F (lineOf im axis p len) else #[]).toArray
    Img.tabulate im.shape fun p =>
      (lines.getD (ravelI im.shape (p.set axis 0)) #[]).getD (p.getD axis 0).toNat ((0 : Nat) : α)

/-- `interpolate.spline_filter`: `for axis in range(array.ndim): spline_filter1d(output, order, axis)` -/
def splineFilterP (F : Array α → Array α) (im : Img α) : Img α :=
  (List.range im.shape.length).foldl (filterAxisP F) im

end Poly

/-! ## `Float` instance and the prefilter -/

local instance : NatCast Float := ⟨Float.ofNat⟩
local instance : IntCast Float := ⟨Float.ofInt⟩

def flF (x : Float) : Int := (Float.floor x).toInt64.toInt

/-- `init_poles` -/
def poles (order : Nat) : List Float :=
  match order with
  | 2 => [Float.sqrt 8.0 - 3.0]
  | 3 => [Float.sqrt 3.0 - 2.0]
  | 4 => [Float.sqrt (664.0 - Float.sqrt 438976.0) + Float.sqrt 304.0 - 19.0,
          Float.sqrt (664.0 + Float.sqrt 438976.0) - Float.sqrt 304.0 - 19.0]
  | 5 => [Float.sqrt (67.5 - Float.sqrt 4436.25) + Float.sqrt 26.25 - 6.5,
          Float.sqrt (67.5 + Float.sqrt 4436.25) - Float.sqrt 26.25 - 6.5]
  | _ => []

def poleWeight (ps : List Float) : Float :=
  ps.foldl (fun w p => w * ((1.0 - p) * (1.0 - 1.0 / p))) 1.0

/-- number of terms after which the causal initialisation sum is cut (`log_tolerance = log(1e-15)`) -/
def cutLen (p : Float) : Int := (Float.ceil (Float.log 1e-15 / Float.log (Float.abs p))).toInt64.toInt

/-- one line of `spline_filter1d`: `filterLineP` with the code's poles, their weight, and the code's initialisation
    rule (cut at `cutLen`, `pow` for the closed form) -/
def filterLine (order : Nat) (line0 : Array Float) : Array Float :=
  filterLineP (poleWeight (poles order)) (poles order)
    (iniCode cutLen (fun p n => Float.pow p (Float.ofNat n))) line0

/-- was the initialisation sum cut short on a line of this length? (then the coefficients reproduce
    the samples to about `1e-15` relative instead of to rounding) -/
def truncated (order len : Nat) : Bool :=
  len > 1 && (poles order).any fun p => cutLen p < (len : Int)

/-- `spline_filter1d` along `axis` -/
def filterAxis (order : Nat) (im : Img Float) (axis : Nat) : Img Float := filterAxisP (filterLine order) im axis

/-- `interpolate.spline_filter` -/
def splineFilter (order : Nat) (im : Img Float) : Img Float :=
  if order ≤ 1 then im else splineFilterP (filterLine order) im

/-! ## driver -/

def showOptInts (xs : List (Option Int)) : String :=
  ",".intercalate (xs.map fun | some i => toString i | none => "u")

/-- the factor vector of a driver line: `factor=` (float bit patterns) with `scalar=0/1` -/
def factorArgs (a : Args) : Bool × List Float := (a.nat "scalar" 0 == 1, a.floats "factor")

/-- `int(s * z)` raises on a non-finite product (`ValueError` for NaN, `OverflowError` for ±inf) -/
def finiteProducts (shape : List Nat) (scalar : Bool) (zs : List Float) : Bool :=
  ((shape.zip (zoomFactors shape.length scalar zs)).all fun sz => (Float.ofNat sz.1 * sz.2).isFinite)

def showOptFloats (xs : List (Option Float)) : String :=
  ",".intercalate (xs.map fun | some f => toString f.toBits.toNat | none => "u")

def handle (a : Args) : String :=
  let shape := a.nats "shape"
  let im : Img Float := { shape := shape, data := (a.floats "data").toArray }
  let order := a.nat "order" 1
  match a.str "kind" with
  | "sf" =>
    let r := splineFilter order im
    s!"model={showFloats r.data.toList}"
  | "bs" =>
    -- B-spline expansion of the given coefficients at the sample points
    let r := zoomShift flF order .mirror 0.0 im (shape.map fun _ => none) (shape.map fun _ => none) shape
    s!"spec={showFloats r.data.toList}"
  | "osh" =>
    -- the output shape a zoom factor asks for: `ifactor=` an integer vector (exact), else `factor=` floats
    let r : Option (List Nat) :=
      if a.has "ifactor" then
        zoomOutShape (fun (i : Int) => i) shape (zoomFactors shape.length (a.nat "scalar" 0 == 1) (a.ints "ifactor"))
      else
        let (sc, zs) := factorArgs a
        if finiteProducts shape sc zs then zoomOutShape flF shape (zoomFactors shape.length sc zs) else none
    match r with
    | some o => s!"oshape={showNats o}"
    | none => "oshape=none"
  | "rsi" =>
    -- `resize_to` on an image of an integer dtype: the float values and their truncation to the dtype
    let dt := DT.ofName (a.str "dtype")
    match resizeTo flF (splineFilter order) order im (a.nats "nsize"),
        resizeToDT flF (splineFilter order) order dt im (a.nats "nsize") with
    | some o, some c => s!"shape={showNats o.shape} model={showFloats o.data.toList} cast={showOptInts c.data.toList}"
    | _, _ => "shape=none model=none cast=none"
  | "rs" =>
    -- the wrappers of `resize.py`
    let nsize := a.nats "nsize"
    let r : Option (Img Float) :=
      match a.str "name" with
      | "imresize_factor" =>
        let (sc, zs) := factorArgs a
        if finiteProducts shape sc zs then imresizeFactor flF (splineFilter order) order im sc zs else none
      | "resize_to" => resizeTo flF (splineFilter order) order im nsize
      | "imresize" => imresizeInt flF (splineFilter order) order im nsize
      | "resize_rgb_to" => resizeRgbTo flF (splineFilter order) order im nsize
      | _ => none
    match r with
    | some o => s!"shape={showNats o.shape} model={showFloats o.data.toList}"
    | none => "shape=none model=none"
  | "zs" =>
    match Mode.ofCode (a.nat "mode") with
    | none => "error=bad-mode"
    | some m =>
      let cval := (a.floats "cval").headD 0.0
      let pre := a.nat "prefilter" 1 == 1
      let coeffs := if pre then splineFilter order im else im
      let trunc := pre && order > 1 && shape.any (truncated order)
      let (shifts, zooms, oshape) :=
        if a.has "shifts" then
          ((a.floats "shifts").map fun s => some (-s), shape.map fun _ => (none : Option Float), shape)
        else
          let os := a.nats "oshape"
          (os.map fun _ => (none : Option Float), (shape.zip os).map fun io => some (zoomFactor io.1 io.2), os)
      let r := zoomShift flF order m cval coeffs shifts zooms oshape
      -- the specification speaks about the *unfiltered* samples; without prefilter and order > 1 the
      -- caller promises coefficients, and only the model applies
      let spec : List (Option Float) :=
        if order > 1 && !pre then (allPos oshape).map fun _ => none
        else (allPos oshape).map (specPixel flF order m cval im shifts zooms)
      s!"model={showFloats r.data.toList} spec={showOptFloats spec} trunc={if trunc then 1 else 0}"
  | k => s!"error=unknown-kind-{k}"

end Mahotas.C18
