/-
C18 — the discrete glue of `interpolate.zoom` / `resize.py` that is not interpolation: the output shape a zoom
*factor* asks for (`int(s * z)` per axis, after the scalar-to-vector broadcast and the length check), and the cast of
the interpolated `float64` values to an integer dtype (`o_out[:] = out[:]`, what `resize_to` does on an integer image).
Polymorphic in the scalar type like `Model/C18.lean` (`floor` is a parameter); the driver runs it at `Float`
(`Float.floor`) and, for integer factors (`np.array((2, 3))` is an `int64` array: `s * z` is exact), at `Int`.
-/
import Mahotas.Model.Basic
import Mahotas.Model.DType
namespace Mahotas.C18
open Mahotas

section Poly
variable {α : Type} [Mul α] [Neg α] [NatCast α] [LT α] [DecidableLT α]

/-- Python `int(v)` / the C cast `(T)v` on a floating-point value: truncation toward zero -/
def truncI (fl : α → Int) (v : α) : Int := if v < ((0 : Nat) : α) then -(fl (-v)) else fl v

/-- `int(s * z)`: the output length `zoom` computes for an axis of length `s` and the factor `z` -/
def zoomOutLen (fl : α → Int) (s : Nat) (z : α) : Int := truncI fl ((s : α) * z)

/-- `zoom = np.array(zoom); if zoom.ndim == 0: zoom = np.array([zoom]*array.ndim)` -/
def zoomFactors (ndim : Nat) (scalar : Bool) (zs : List α) : List α :=
  if scalar then (match zs with | z :: _ => List.replicate ndim z | [] => []) else zs

/-- `if len(zoom) != array.ndim: raise ValueError`;
    `output_shape = tuple([int(s * z) for s, z in zip(array.shape, zoom)])`; `np.empty(output_shape)` raises
    `ValueError` on a negative entry. `none` = raises. -/
def zoomOutShape (fl : α → Int) : List Nat → List α → Option (List Nat)
  | [], [] => some []
  | s :: ss, z :: zs =>
    let t := zoomOutLen fl s z
    if t < 0 then none
    else match zoomOutShape fl ss zs with
      | some r => some (t.toNat :: r)
      | none => none
  | _, _ => none

/-- the cast of one interpolated value to an integer dtype (`o_out[:] = out[:]`: C conversion, truncation toward
    zero); a truncated value outside the dtype's range is not modelled (`none`: the C conversion is undefined there) -/
def castToInt (fl : α → Int) (dt : DT) (v : α) : Option Int :=
  let t := truncI fl v
  if dt.lo ≤ t ∧ t ≤ dt.hi then some t else none

end Poly
end Mahotas.C18
