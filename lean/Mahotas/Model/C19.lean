/-
C19 — texture / shape descriptors: `cooccurence`, `haralick` (texture.py, _texture.cpp),
LBP code mapping and histogram (lbp.py, _lbp.cpp), `moments` (moments.py), SURF integral image
(_surf.cpp `integral`). Direction tables come from `Generated/Tables.lean`.
-/
import Mahotas.Model.Basic
import Mahotas.Generated.Tables
import Mahotas.Model.C19Tas
import Mahotas.Model.C19Lbp
namespace Mahotas.C19
open Mahotas Mahotas.Generated

local instance : NatCast Float := ⟨Float.ofNat⟩
local instance : IntCast Float := ⟨Float.ofInt⟩

/-! ## co-occurrence -/

/-- all positions of a box in C scan order (structural recursion: easy to reason about) -/
def boxPos : List Nat → List (List Int)
  | [] => [[]]
  | d :: ds => (List.range d).flatMap (fun (i : Nat) => (boxPos ds).map (fun t => (i : Int) :: t))

/-- **specification**: `C[a][b] = #{p | p inside, p+d inside, f p = a, f (p+d) = b}` -/
def coocCount (s : List Nat) (f : List Int → Int) (d : List Int) (a b : Int) : Nat :=
  (boxPos s).countP (fun p => inside s (addPos p d) && (f p == a && f (addPos p d) == b))

/-- symmetric variant: `C + Cᵀ` (the loop at the end of `py_cooccurent`) -/
def coocSym (s : List Nat) (f : List Int → Int) (d : List Int) (a b : Int) : Nat :=
  coocCount s f d a b + coocCount s f d b a

/-- **model** of `_texture.cpp: cooccurence<T>`: scan the image in C order; wherever the one-hot
    neighbourhood element lies inside the image (`ExtendIgnore`), increment `res[val][val2]`.
    `m` = side of the result matrix; values are assumed in `[0,m)` (the C++ throws on negatives,
    and writes out of bounds otherwise). -/
def coocModel (m : Nat) (im : Img Int) (d : List Int) : Array Nat :=
  (boxPos im.shape).foldl (fun acc p =>
      let q := addPos p d
      if inside im.shape q then
        let i := (im.getD p 0).toNat * m + (im.getD q 0).toNat
        acc.modify i (· + 1)
      else acc)
    (Array.replicate (m * m) 0)

/-- the symmetric fold: `total = C[y][x] + C[x][y]` written to both -/
def symFold (m : Nat) (c : Array Nat) : Array Nat :=
  ((List.range (m * m)).map fun k => c.getD k 0 + c.getD ((k % m) * m + k / m) 0).toArray

def coocSpecMat (m : Nat) (im : Img Int) (d : List Int) (sym : Bool) : List Nat :=
  (List.range (m * m)).map fun k =>
    let a : Int := (k / m : Nat); let b : Int := (k % m : Nat)
    if sym then coocSym im.shape (fun p => im.getD p 0) d a b
    else coocCount im.shape (fun p => im.getD p 0) d a b

/-- direction `dir` of the table for this rank scaled by `distance` -/
def direction (ndim dir : Nat) (dist : Int) : List Int :=
  ((if ndim == 2 then deltas2d else deltas3d).getD dir []).map (· * dist)

/-- 180° rotation of the index space: `p ↦ (shape − 1) − p` -/
def revPos : List Nat → List Int → List Int
  | d :: ds, p :: ps => ((d : Int) - 1 - p) :: revPos ds ps
  | _, _ => []

/-- swap of the first two axes (2-D: transposition) -/
def swap01 {α : Type} : List α → List α
  | a :: b :: t => b :: a :: t
  | l => l

/-! ## Haralick features: the textbook functions of the normalised matrix (Float) -/

/-- left-to-right sum starting from `zero` (generic: run at `Float`, proved over ordered fields) -/
def gsum {α : Type} [Add α] (zero : α) (xs : List α) : α := xs.foldl (· + ·) zero

def fsum (xs : List Float) : Float := gsum 0.0 xs
/-- `_entropy(p) = −Σ p log₂ p` with `0 log 0 = 0`; generic in the scalar type and its logarithm -/
def entropyG {α : Type} [Add α] [Mul α] [Neg α] [BEq α] (zero : α) (log2 : α → α) (xs : List α) : α :=
  -(gsum zero (xs.map fun p => if p == zero then zero else p * log2 p))

def entropy (xs : List Float) : Float := entropyG 0.0 Float.log2 xs

/-- `p = cmat / cmat.sum()`: the normalised co-occurrence matrix (row-major), generic in the scalar type -/
def normMat {α : Type} [Div α] (cast : Nat → α) (c : List Nat) : Array α :=
  (c.map fun v => cast v / cast (c.foldl (· + ·) 0)).toArray

/-- entry `(i, j)` of a row-major `m × m` matrix -/
def matAt {α : Type} (zero : α) (m : Nat) (p : Array α) (i j : Nat) : α := p.getD (i * m + j) zero

/-- all index pairs in row-major order -/
def allPairs (m : Nat) : List (Nat × Nat) := (List.range m).flatMap fun i => (List.range m).map fun j => (i, j)

def absDiff (i j : Nat) : Nat := if i ≥ j then i - j else j - i

/-- `p_{x+y}(k) = Σ_{i+j=k} p(i,j)`, `k = 0 … 2m−1`, as the code folds it (one term per row) -/
def pplusG {α : Type} [Add α] (zero : α) (m : Nat) (P : Nat → Nat → α) : List α :=
  (List.range (2 * m)).map fun k =>
    gsum zero ((List.range m).map fun i => if i ≤ k ∧ k - i < m then P i (k - i) else zero)

/-- `p_{x−y}(k) = Σ_{|i−j|=k} p(i,j)`, `k = 0 … m−1` -/
def pminusG {α : Type} [Add α] (zero : α) (m : Nat) (P : Nat → Nat → α) : List α :=
  (List.range m).map fun k =>
    gsum zero ((List.range m).flatMap fun i => (List.range m).filterMap fun j =>
      if absDiff i j == k then some (P i j) else none)

/-- angular second moment `Σ p(i,j)²` -/
def asmG {α : Type} [Add α] [Mul α] (zero : α) (m : Nat) (P : Nat → Nat → α) : α :=
  gsum zero ((allPairs m).map fun (i, j) => P i j * P i j)

/-! The features that do not involve logarithms are generic definitions (run at `Float`, proved over ordered
fields in `Proofs/C19HaralickFeat.lean`); each is the textbook formula over the normalised matrix `p`. -/

/-- `p.sum(0)`: column sums `p_x(j) = Σ_i p(i,j)` -/
def colSumG {α : Type} [Add α] (zero : α) (m : Nat) (P : Nat → Nat → α) : List α :=
  (List.range m).map fun j => gsum zero ((List.range m).map fun i => P i j)

/-- `p.sum(1)`: row sums `p_y(i) = Σ_j p(i,j)` -/
def rowSumG {α : Type} [Add α] (zero : α) (m : Nat) (P : Nat → Nat → α) : List α :=
  (List.range m).map fun i => gsum zero ((List.range m).map fun j => P i j)

/-- mean `Σ_{k<n} q(k) · k` of a distribution given as a list -/
def meanG {α : Type} [Add α] [Mul α] (zero : α) (cast : Nat → α) (q : List α) (n : Nat) : α :=
  gsum zero ((List.range n).map fun k => q.getD k zero * cast k)

/-- second moment `Σ_{k<n} q(k) · k²` -/
def meanSqG {α : Type} [Add α] [Mul α] (zero : α) (cast : Nat → α) (q : List α) (n : Nat) : α :=
  gsum zero ((List.range n).map fun k => q.getD k zero * cast (k * k))

/-- variance `Σ k² q(k) − (Σ k q(k))²` (f4 = sum of squares: variance, for `q = p_x`) -/
def varG {α : Type} [Add α] [Sub α] [Mul α] (zero : α) (cast : Nat → α) (q : List α) (n : Nat) : α :=
  meanSqG zero cast q n - meanG zero cast q n * meanG zero cast q n

/-- f2 contrast `Σ_k k² p_{x−y}(k)` -/
def contrastG {α : Type} [Add α] [Mul α] (zero : α) (cast : Nat → α) (m : Nat) (pminus : List α) : α :=
  gsum zero ((List.range m).map fun k => cast (k * k) * pminus.getD k zero)

/-- numerator of f3 (correlation): `Σ_{i,j} i j p(i,j) − μ_x μ_y` -/
def covG {α : Type} [Add α] [Sub α] [Mul α] (zero : α) (cast : Nat → α) (m : Nat) (P : Nat → Nat → α)
    (ux uy : α) : α :=
  gsum zero ((allPairs m).map fun ij => cast (ij.1 * ij.2) * P ij.1 ij.2) - ux * uy

/-- f5 inverse difference moment `Σ_{i,j} p(i,j) / (1 + (i−j)²)` -/
def idmG {α : Type} [Add α] [Mul α] [Div α] (zero one : α) (cast : Nat → α) (m : Nat) (P : Nat → Nat → α) : α :=
  gsum zero ((allPairs m).map fun ij =>
    P ij.1 ij.2 / (one + cast (absDiff ij.1 ij.2 * absDiff ij.1 ij.2)))

/-- f6 sum average `Σ_k k p_{x+y}(k)` -/
def sumAvgG {α : Type} [Add α] [Mul α] (zero : α) (cast : Nat → α) (m : Nat) (pplus : List α) : α :=
  gsum zero ((List.range (2 * m)).map fun k => cast k * pplus.getD k zero)

/-- f7 sum variance `Σ_k (k − f6)² p_{x+y}(k)` -/
def sumVarG {α : Type} [Add α] [Sub α] [Mul α] (zero : α) (cast : Nat → α) (m : Nat) (pplus : List α) (mu : α) : α :=
  gsum zero ((List.range (2 * m)).map fun k => (cast k - mu) * (cast k - mu) * pplus.getD k zero)

/-- f10 difference variance: the variance of the *values* of `p_{x−y}` (mahotas' default interpretation) -/
def diffVarG {α : Type} [Add α] [Sub α] [Mul α] [Div α] (zero : α) (cast : Nat → α) (m : Nat) (pminus : List α) : α :=
  let mean := gsum zero pminus / cast m
  gsum zero (pminus.map fun v => (v - mean) * (v - mean)) / cast m

/-- `HXY1 = −Σ_{i,j} p(i,j) log₂(p_x(j) p_y(i))` (terms with `p(i,j) = 0` dropped) -/
def hxy1G {α : Type} [Add α] [Mul α] [Neg α] [BEq α] (zero : α) (log2 : α → α) (m : Nat) (P : Nat → Nat → α)
    (px py : List α) : α :=
  -(gsum zero ((allPairs m).map fun ij =>
    let q := px.getD ij.2 zero * py.getD ij.1 zero
    if P ij.1 ij.2 == zero then zero else P ij.1 ij.2 * log2 q))

/-- `HXY2 = −Σ_{i,j} p_x(j) p_y(i) log₂(p_x(j) p_y(i))` -/
def hxy2G {α : Type} [Add α] [Mul α] [Neg α] [BEq α] (zero : α) (log2 : α → α) (m : Nat) (_P : Nat → Nat → α)
    (px py : List α) : α :=
  -(gsum zero ((allPairs m).map fun ij =>
    let q := px.getD ij.2 zero * py.getD ij.1 zero
    if q == zero then zero else q * log2 q))

/-- features 1..13 (Haralick 1973, with the corrected sum variance `Σ (k − f6)² p_{x+y}(k)`;
    f10 = variance of the *values* of `p_{x−y}` (mahotas' default interpretation)).
    `c` = integer matrix (row-major, `m×m`, already symmetrised / zero-stripped). -/
def haralick13 (m : Nat) (c : List Nat) : List Float :=
  let p := normMat Float.ofNat c
  let P := matAt 0.0 m p
  let fl := fun (n : Nat) => Float.ofNat n
  let px := colSumG 0.0 m P      -- p.sum(0)
  let py := rowSumG 0.0 m P      -- p.sum(1)
  let ux := meanG 0.0 fl px m
  let uy := meanG 0.0 fl py m
  let vx := varG 0.0 fl px m
  let vy := varG 0.0 fl py m
  let pplus := pplusG 0.0 m P
  let pminus := pminusG 0.0 m P
  let f1 := asmG 0.0 m P
  let f2 := contrastG 0.0 fl m pminus
  let f3 := covG 0.0 fl m P ux uy / (Float.sqrt vx * Float.sqrt vy)
  let f4 := vx
  let f5 := idmG 0.0 1.0 fl m P
  let f6 := sumAvgG 0.0 fl m pplus
  let f7 := sumVarG 0.0 fl m pplus f6
  let f8 := entropy pplus
  let f9 := entropy p.toList
  let f10 := diffVarG 0.0 fl m pminus
  let f11 := entropy pminus
  let hx := entropy px
  let hy := entropy py
  let hxy1 := hxy1G 0.0 Float.log2 m P px py
  let hxy2 := hxy2G 0.0 Float.log2 m P px py
  let f12 := (f9 - hxy1) / (if hx < hy then hy else hx)
  let e := 1.0 - Float.exp (-2.0 * (hxy2 - f9))
  let f13 := Float.sqrt (if e < 0.0 then 0.0 else e)
  -- the two documented alternatives: `use_x_minus_y_variance` (f10 = VAR[|x−y|]) and
  -- `preserve_haralick_bug` (f7 centred at the sum entropy f8 instead of the sum average f6)
  let f10alt := varG 0.0 fl pminus m
  let f7bug := sumVarG 0.0 fl m pplus f8
  [f1, f2, f3, f4, f5, f6, f7, f8, f9, f10, f11, f12, f13, vx, vy, hx, hy, f10alt, f7bug]

/-- `ignore_zeros`: first row and column cleared -/
def stripZeros (m : Nat) (c : List Nat) : List Nat :=
  (List.range (m * m)).map fun k => if k / m == 0 || k % m == 0 then 0 else c.getD k 0

/-! ### the 14th feature: Haralick's matrix `Q` (round 4)

`f14 = (second largest eigenvalue of Q)^{1/2}`, `Q(i,j) = Σ_k p(i,k) p(j,k) / (p_x(i) p_y(k))` with the row marginal
`p_x(i) = Σ_k p(i,k)` (`py` in `texture.py`) and the column marginal `p_y(k) = Σ_i p(i,k)` (`px` in `texture.py`).
`texture.py` amputates the empty rows/columns and takes the eigenvalues of the symmetric matrix `A Aᵀ`,
`A(i,k) = p(i,k)/sqrt(p_x(i) p_y(k))`, which is similar to `Q` (`Q = D⁻¹ᐟ² (A Aᵀ) D¹ᐟ²`, `D = diag p_x`).
The model is `Q` itself (generic in the scalar type; terms of an empty row/column are dropped); the eigenvalues are
taken by the harness (numpy) from the model's matrix. -/

/-- `Q(i,j)` given the row marginals `r` and column marginals `c` -/
def qEntryG {α : Type} [Add α] [Mul α] [Div α] [BEq α] (zero : α) (m : Nat) (P : Nat → Nat → α) (r c : List α)
    (i j : Nat) : α :=
  gsum zero ((List.range m).map fun k =>
    if r.getD i zero == zero || c.getD k zero == zero then zero
    else P i k * P j k / (r.getD i zero * c.getD k zero))

/-- Haralick's `Q` of the normalised matrix `P` -/
def qMatG {α : Type} [Add α] [Mul α] [Div α] [BEq α] (zero : α) (m : Nat) (P : Nat → Nat → α) (i j : Nat) : α :=
  qEntryG zero m P (rowSumG zero m P) (colSumG zero m P) i j

/-- `Q` of a count matrix at `Float`, row-major -/
def haralickQ (m : Nat) (c : List Nat) : List Float :=
  let P := matAt 0.0 m (normMat Float.ofNat c)
  let r := rowSumG 0.0 m P
  let cs := colSumG 0.0 m P
  (allPairs m).map fun ij => qEntryG 0.0 m P r cs ij.1 ij.2

/-! ### `return_mean` / `return_mean_ptp` (round 4)

`features.mean(axis=0)` adds the rows one after the other (first row, `+=` second row, …) and divides by the number of
rows; `np.ptp(features, axis=0)` is `maximum.reduce − minimum.reduce` along the same axis. Generic in the scalar type. -/

/-- `np.add.reduce(rows, axis=0)` -/
def colFoldG {α : Type} (f : α → α → α) : List (List α) → List α
  | [] => []
  | r0 :: rest => rest.foldl (fun acc r => List.zipWith f acc r) r0

/-- `features.mean(axis=0)` -/
def colMeanG {α : Type} [Add α] [Div α] (cast : Nat → α) (rows : List (List α)) : List α :=
  (colFoldG (· + ·) rows).map (· / cast rows.length)

def maxG {α : Type} [LT α] [DecidableLT α] (a b : α) : α := if a < b then b else a
def minG {α : Type} [LT α] [DecidableLT α] (a b : α) : α := if b < a then b else a

/-- `np.ptp(features, axis=0)` (no NaN) -/
def colPtpG {α : Type} [Sub α] [LT α] [DecidableLT α] (rows : List (List α)) : List α :=
  List.zipWith (· - ·) (colFoldG maxG rows) (colFoldG minG rows)

/-! ## LBP code mapping (`_lbp.cpp`) -/

/-- `roll_right(v, points) = (v >> 1) | ((v & 1) << (points-1))` -/
def rollRight (P v : Nat) : Nat := (v >>> 1) ||| ((v &&& 1) <<< (P - 1))

/-- loop state of `map`: (current rotation, running minimum) -/
def mapStep (P : Nat) (st : Nat × Nat) : Nat × Nat :=
  let v := rollRight P st.1
  (v, if v < st.2 then v else st.2)

def iter {α : Type} (f : α → α) : Nat → α → α
  | 0, x => x
  | n + 1, x => iter f n (f x)

/-- `map(v, points)`: minimum over `points` successive right-rotations (and `v` itself) -/
def lbpMap (P v : Nat) : Nat := (iter (mapStep P) P (v, v)).2

/-- histogram of `codes` with `n` bins (`fullhistogram`) -/
def histogram (n : Nat) (codes : List Nat) : List Nat :=
  (List.range n).map fun b => codes.count b

/-- `lbp`'s compression: keep the bins of the pivots (`map c = c`) among all `2^P` codes -/
def lbpCompress (P : Nat) (mapped : List Nat) : List Nat :=
  ((List.range (2 ^ P)).filter fun c => lbpMap P c == c).map fun c => mapped.count c

/-! ## SURF integral image (`_surf.cpp: integral<T>`) -/

/-- one row of the in-place recurrence
    `a(i,j) += a(i-1,j) + a(i,j-1) - a(i-1,j-1)`; `left = a(i,j-1)`, `diag = a(i-1,j-1)`,
    `above = a(i-1, j..)`. Outside the image the terms are 0 (first row / column). -/
def scanRow {α : Type} [Add α] [Sub α] : α → α → List α → List α → List α
  | left, diag, a :: as, x :: xs =>
    let v := x + ((a + left) - diag)
    v :: scanRow v a as xs
  | _, _, _, _ => []

def integralAux {α : Type} [Add α] [Sub α] [OfNat α 0] : List α → List (List α) → List (List α)
  | _, [] => []
  | prev, row :: rest =>
    let cur := scanRow 0 0 prev row
    cur :: integralAux cur rest

/-- the integral image of a list of rows of width `w` -/
def integral {α : Type} [Add α] [Sub α] [OfNat α 0] (w : Nat) (rows : List (List α)) : List (List α) :=
  integralAux (List.replicate w 0) rows

/-- `Σ_{k ≤ n} g k` -/
def sumTo {α : Type} [Add α] (g : Nat → α) : Nat → α
  | 0 => g 0
  | n + 1 => sumTo g n + g (n + 1)

/-- **specification**: the two-dimensional prefix sum `Σ_{a ≤ i} Σ_{b ≤ j} f[a][b]` -/
def prefix2 {α : Type} [Add α] [OfNat α 0] (rows : List (List α)) (i j : Nat) : α :=
  sumTo (fun a => sumTo (fun b => (rows.getD a []).getD b 0) j) i

/-- integer dtypes wrap modulo `2^bits` -/
def wrapTo (bits : Nat) (signed : Bool) (v : Int) : Int :=
  let m : Int := 2 ^ bits
  let r := v % m
  if signed && r ≥ m / 2 then r - m else r

/-! ## moments -/

def powN {α : Type} [Mul α] [OfNat α 1] (x : α) : Nat → α
  | 0 => 1
  | n + 1 => powN x n * x

/-- `Σ_k xs[k] * w (start + k)` -/
def dotFrom {α : Type} [Add α] [Mul α] [OfNat α 0] (w : Nat → α) : Nat → List α → α
  | _, [] => 0
  | k, x :: xs => x * w k + dotFrom w (k + 1) xs

/-- model of `moments`: `np.dot(np.dot(img, (arange(c) - c1)**p1), (arange(r) - c0)**p0)` -/
def moments {α : Type} [Add α] [Sub α] [Mul α] [OfNat α 0] [OfNat α 1] (cast : Nat → α)
    (rows : List (List α)) (p0 p1 : Nat) (c0 c1 : α) : α :=
  dotFrom (fun i => powN (cast i - c0) p0) 0
    (rows.map fun r => dotFrom (fun j => powN (cast j - c1) p1) 0 r)

/-- **specification**: the defining double sum `Σ_i Σ_j img[i][j] (i − c0)^p0 (j − c1)^p1` -/
def momentsSpec {α : Type} [Add α] [Sub α] [Mul α] [OfNat α 0] [OfNat α 1] (cast : Nat → α)
    (rows : List (List α)) (p0 p1 : Nat) (c0 c1 : α) : α :=
  let rec rowsFrom : Nat → List (List α) → α
    | _, [] => 0
    | i, r :: rs =>
      dotFrom (fun j => powN (cast i - c0) p0 * powN (cast j - c1) p1) 0 r + rowsFrom (i + 1) rs
  rowsFrom 0 rows

/-! ## Zernike: selection and normalisation of the pixel weights (`zernike.py`) -/

/-- `k = (Dn <= 1.) & (P > 0); frac_center = P[k] / P[k].sum()`: the pixels inside the unit disc with a
    positive value, divided by their sum; `inDisc` is the mask `Dn <= 1` in C order. Generic in the
    scalar type: run at `Float`, proved over ordered fields. (`np.sum` adds pairwise, the model left
    to right: compared at 1e-12, never bit for bit.) -/
def zernikeFrac {α : Type} [Add α] [Div α] [LT α] [DecidableLT α] (zero : α) (inDisc : List Bool)
    (P : List α) : List α :=
  let sel := ((inDisc.zip P).filter fun dv => dv.1 && decide (zero < dv.2)).map (·.2)
  let tot := gsum zero sel
  sel.map (· / tot)

/-! ## Zernike: the kernel `znl` (`_zernike.cpp`) and `zernike_moments` (`zernike.py`)

Complex numbers are pairs `(re, im)` of the scalar type (`std::complex<double>` at `Float`). Everything is
generic in the scalar type, its square root and its power function: the driver runs the definitions at
`Float` (`Float.sqrt`, `Float.pow`), the rotation theorem (`Proofs/C19Zernike.lean`) is about the same
definitions over an arbitrary field with *arbitrary* `sqrt` and `pow` functions. -/

def cxAdd {α : Type} [Add α] (z w : α × α) : α × α := (z.1 + w.1, z.2 + w.2)
def cxMul {α : Type} [Add α] [Sub α] [Mul α] (z w : α × α) : α × α :=
  (z.1 * w.1 - z.2 * w.2, z.1 * w.2 + z.2 * w.1)
/-- real scalar times complex (`double * complex<double>`) -/
def cxScale {α : Type} [Mul α] (s : α) (z : α × α) : α × α := (s * z.1, s * z.2)
def cxConj {α : Type} [Neg α] (z : α × α) : α × α := (z.1, -z.2)
def cxNormSq {α : Type} [Add α] [Mul α] (z : α × α) : α := z.1 * z.1 + z.2 * z.2
/-- `z ** k` by repeated multiplication (`An**p` in `zernike.py`) -/
def cxPow {α : Type} [Add α] [Sub α] [Mul α] (zero one : α) (z : α × α) : Nat → α × α
  | 0 => (one, zero)
  | k + 1 => cxMul (cxPow zero one z k) z

/-- `fact(n)`: the table `_factorialtable` for `n < 13`, `double(n) * fact(n-1)` beyond -/
def zfact {α : Type} [Mul α] (cast : Nat → α) : Nat → α
  | 0 => cast (factorialTable.getD 0 0)
  | n + 1 =>
    if n + 1 < factorialTable.length then cast (factorialTable.getD (n + 1) 0)
    else cast (n + 1) * zfact cast n

/-- `g_m[m] = f * fact(n-m) / (fact(m) * fact((n-2m+l)/2) * fact((n-2m-l)/2))`, `f = (m & 1) ? -1 : 1` -/
def zcoef {α : Type} [Mul α] [Div α] [Neg α] (one : α) (cast : Nat → α) (n l m : Nat) : α :=
  ((if m % 2 = 1 then -one else one) * zfact cast (n - m)) /
    (zfact cast m * zfact cast ((n - 2 * m + l) / 2) * zfact cast ((n - 2 * m - l) / 2))

/-- inner loop of `znl` at one pixel: `Vnl = Σ_{m ≤ (n-l)/2} g_m[m] * pow(d, n-2m) * a` -/
def zVnl {α : Type} [Add α] [Mul α] [Div α] [Neg α] (zero one : α) (cast : Nat → α) (pow : α → Nat → α)
    (n l : Nat) (d : α) (a : α × α) : α × α :=
  (List.range ((n - l) / 2 + 1)).foldl
    (fun acc m => cxAdd acc (cxScale (zcoef one cast n l m * pow d (n - 2 * m)) a)) (zero, zero)

/-- `_zernike.znl(D, A, P, n, l)`: `v = Σ_i P[i] * conj(Vnl_i)`, then `v *= (n+1)/pi` -/
def znlG {α : Type} [Add α] [Mul α] [Div α] [Neg α] (zero one : α) (cast : Nat → α) (pow : α → Nat → α)
    (pi : α) (D : List α) (A : List (α × α)) (P : List α) (n l : Nat) : α × α :=
  let v := (D.zip (A.zip P)).foldl
    (fun v dap => cxAdd v (cxScale dap.2.2 (cxConj (zVnl zero one cast pow n l dap.1 dap.2.1)))) (zero, zero)
  cxScale (cast (n + 1) / pi) v

/-- the pixels `zernike_moments` keeps, in C order, as `(Dn, An, P)`:
    `Yn = (y - c0)/radius`, `Xn = (x - c1)/radius`, `Dn = max(sqrt(Xn**2 + Yn**2), 1e-9)`,
    selection `(Dn <= 1) & (P > 0)`, `An = Xn/Dn + i Yn/Dn`. -/
def zernikeSel {α : Type} [Add α] [Sub α] [Mul α] [Div α] [LT α] [LE α] [DecidableLT α] [DecidableLE α]
    (zero one : α) (cast : Nat → α) (sqrt : α → α) (eps : α) (R C : Nat) (im : Nat → Nat → α)
    (c0 c1 radius : α) : List (α × (α × α) × α) :=
  (List.range R).flatMap fun y => (List.range C).filterMap fun x =>
    let yn := (cast y - c0) / radius
    let xn := (cast x - c1) / radius
    let d0 := sqrt (xn * xn + yn * yn)
    let dn := if d0 < eps then eps else d0
    if dn ≤ one ∧ zero < im y x then some (dn, (xn / dn, yn / dn), im y x) else none

/-- `z_nl` of `zernike_moments` before `abs`: weights `P[k] / P[k].sum()`, angles `An ** l`, kernel `znl` -/
def zernikeZ {α : Type} [Add α] [Sub α] [Mul α] [Div α] [Neg α] [LT α] [LE α] [DecidableLT α] [DecidableLE α]
    (zero one : α) (cast : Nat → α) (sqrt : α → α) (pow : α → Nat → α) (eps pi : α) (R C : Nat)
    (im : Nat → Nat → α) (c0 c1 radius : α) (n l : Nat) : α × α :=
  let sel := zernikeSel zero one cast sqrt eps R C im c0 c1 radius
  let tot := gsum zero (sel.map fun s => s.2.2)
  znlG zero one cast pow pi (sel.map fun s => s.1) (sel.map fun s => cxPow zero one s.2.1 l)
    (sel.map fun s => s.2.2 / tot) n l

/-- the `(n, l)` pairs in the order `zernike_moments` emits them -/
def zernikeNL (degree : Nat) : List (Nat × Nat) :=
  (List.range (degree + 1)).flatMap fun n =>
    (List.range (n + 1)).filterMap fun l => if (n - l) % 2 = 0 then some (n, l) else none

/-- `zernike_moments(im, radius, degree, cm)`: `abs(z_nl)` for every `(n, l)` -/
def zernikeAbs {α : Type} [Add α] [Sub α] [Mul α] [Div α] [Neg α] [LT α] [LE α] [DecidableLT α] [DecidableLE α]
    (zero one : α) (cast : Nat → α) (sqrt : α → α) (pow : α → Nat → α) (eps pi : α) (R C : Nat)
    (im : Nat → Nat → α) (c0 c1 radius : α) (degree : Nat) : List α :=
  (zernikeNL degree).map fun nl =>
    sqrt (cxNormSq (zernikeZ zero one cast sqrt pow eps pi R C im c0 c1 radius nl.1 nl.2))

/-! ## round 4: machine integers for `integral<T>`, `moments(normalize=…, cm=None)`, the radial polynomial -/

/-- a value of an integer dtype of `bits` bits (two's complement when `signed`): the arithmetic of the C++
    template `integral<T>` on integer `T` — every `+`/`-` result is reduced into the dtype's range
    (`-fno-strict-overflow`; the narrow types are promoted to `int` and truncated on the store, which is the
    same reduction). -/
structure MInt (bits : Nat) (signed : Bool) where
  v : Int
deriving DecidableEq

instance {b : Nat} {s : Bool} : Add (MInt b s) := ⟨fun x y => ⟨wrapTo b s (x.v + y.v)⟩⟩
instance {b : Nat} {s : Bool} : Sub (MInt b s) := ⟨fun x y => ⟨wrapTo b s (x.v - y.v)⟩⟩
instance {b : Nat} {s : Bool} : OfNat (MInt b s) 0 := ⟨⟨0⟩⟩

/-- the value numpy stores when an integer is converted to the dtype (`astype`) -/
def MInt.ofInt (b : Nat) (s : Bool) (v : Int) : MInt b s := ⟨wrapTo b s v⟩

/-- `integral<T>` run in the dtype's own arithmetic (wrap-around at every operation) -/
def integralMachine (bits : Nat) (signed : Bool) (w : Nat) (rows : List (List Int)) : List (List Int) :=
  (integral w (rows.map fun r => r.map (MInt.ofInt bits signed))).map fun r => r.map (·.v)

/-- `p = np.arange(n, dtype=float); if cm is not None: p -= c; p **= pw; if normalize: p /= p.sum()`
    (`c = none` is `cm=None`: nothing is subtracted) -/
def momentWeights {α : Type} [Add α] [Sub α] [Mul α] [Div α] [OfNat α 0] [OfNat α 1] (cast : Nat → α)
    (n pw : Nat) (c : Option α) (normalize : Bool) : List α :=
  let p := (List.range n).map fun j => match c with
    | some c => powN (cast j - c) pw
    | none => powN (cast j) pw
  if normalize then
    let s := gsum 0 p
    p.map (· / s)
  else p

/-- `np.dot(xs, ws)` with the weights as a list -/
def dotList {α : Type} [Add α] [Mul α] [OfNat α 0] : List α → List α → α
  | x :: xs, w :: ws => x * w + dotList xs ws
  | _, _ => 0

/-- `moments(img, p0, p1, cm, normalize=…)` as `moments.py` evaluates it:
    `np.dot(np.dot(img, p_cols), p_rows)` with the two weight vectors of `momentWeights` -/
def momentsFull {α : Type} [Add α] [Sub α] [Mul α] [Div α] [OfNat α 0] [OfNat α 1] (cast : Nat → α)
    (R C : Nat) (rows : List (List α)) (p0 p1 : Nat) (cm : Option (α × α)) (normalize : Bool) : α :=
  let w1 := momentWeights cast C p1 (cm.map (·.2)) normalize
  let w0 := momentWeights cast R p0 (cm.map (·.1)) normalize
  dotList (rows.map fun r => dotList r w1) w0

/-- the radial polynomial `R_n^l(d) = Σ_{m ≤ (n-l)/2} g_m · d^(n-2m)` that `znl` accumulates (`zVnl = R · a`) -/
def zRadial {α : Type} [Add α] [Mul α] [Div α] [Neg α] (zero one : α) (cast : Nat → α) (pow : α → Nat → α)
    (n l : Nat) (d : α) : α :=
  (List.range ((n - l) / 2 + 1)).foldl (fun acc m => acc + zcoef one cast n l m * pow d (n - 2 * m)) zero

def zPowF (d : Float) (k : Nat) : Float := Float.pow d (Float.ofNat k)
/-- `const double pi = atan(1.0)*4;` -/
def zPiF : Float := Float.atan 1.0 * 4.0

/-! ## driver -/

def chunk {α : Type} (w : Nat) (xs : List α) : List (List α) :=
  if w = 0 then [] else
  let rec go : Nat → List α → List (List α)
    | 0, _ => []
    | fuel + 1, l => if l.isEmpty then [] else l.take w :: go fuel (l.drop w)
  go xs.length xs

def handle (a : Args) : String :=
  match a.str "kind" with
  | "cooc" =>
    let shape := a.nats "shape"
    let im : Img Int := { shape := shape, data := (a.ints "data").toArray }
    let m := a.nat "m"
    let d := direction shape.length (a.nat "dir") (a.int "dist" 1)
    let sym := a.nat "sym" == 1
    let c := coocModel m im d
    let c := if sym then symFold m c else c
    let spec := if a.nat "spec" == 1 then showNats (coocSpecMat m im d sym) else "-"
    s!"model={showNats c.toList} spec={spec} d={showInts d}"
  | "haralick" =>
    let shape := a.nats "shape"
    let im : Img Int := { shape := shape, data := (a.ints "data").toArray }
    let m := a.nat "m"
    let ndirs := if shape.length == 2 then deltas2d.length else deltas3d.length
    let rows := (List.range ndirs).map fun dir =>
      let c := (symFold m (coocModel m im (direction shape.length dir (a.int "dist" 1)))).toList
      let c := if a.nat "iz" == 1 then stripZeros m c else c
      haralick13 m c
    s!"feats={showFloats rows.flatten} ndirs={ndirs}"
  | "lbpmap" =>
    let P := a.nat "p"
    let vs := if a.has "hi" then (List.range (a.nat "hi" - a.nat "lo")).map (· + a.nat "lo") else a.nats "codes"
    s!"map={showNats (vs.map (lbpMap P))}"
  | "lbphist" =>
    let P := a.nat "p"
    let mapped := (a.nats "codes").map (lbpMap P)
    s!"hist={showNats (lbpCompress P mapped)}"
  | "integral" =>
    let w := a.nat "w"
    let rows := chunk w (a.ints "data")
    let out := (integral w rows).flatten
    let spec := (List.range rows.length).flatMap fun i => (List.range w).map fun j => prefix2 rows i j
    let bits := a.nat "bits"
    let wr := fun (v : Int) => if bits == 0 then v else wrapTo bits (a.nat "signed" == 1) v
    let machine := if bits == 0 then out else (integralMachine bits (a.nat "signed" == 1) w rows).flatten
    s!"model={showInts (out.map wr)} spec={showInts (spec.map wr)} machine={showInts machine}"
  | "integralf" =>
    let w := a.nat "w"
    let rows := chunk w (a.floats "data")
    s!"model={showFloats (integral w rows).flatten}"
  | "moments" =>
    let w := a.nat "w"
    let rows := chunk w (a.ints "data")
    let p0 := a.nat "p0"; let p1 := a.nat "p1"
    let c0 := a.int "c0"; let c1 := a.int "c1"
    s!"model={moments (fun n => (n : Int)) rows p0 p1 c0 c1} spec={momentsSpec (fun n => (n : Int)) rows p0 p1 c0 c1}"
  | "momentsf" =>
    -- `moments` with `normalize` / `cm=None` at Float (np.dot may add in another order: compared at 1e-12)
    let w := a.nat "w"
    let rows := chunk w (a.floats "data")
    let cmf := a.floats "cm"
    let cm : Option (Float × Float) := if a.nat "hascm" == 1 then some (cmf.headD 0.0, cmf.getD 1 0.0) else none
    s!"model={showFloats [momentsFull Float.ofNat rows.length w rows (a.nat "p0") (a.nat "p1") cm (a.nat "normalize" == 1)]}"
  | "zradial" =>
    let n := a.nat "n"; let l := a.nat "l"
    s!"r={showFloats ((a.floats "d").map fun d => zRadial 0.0 1.0 Float.ofNat zPowF n l d)}"
  | "zfrac" =>
    let disc := (a.nats "disc").map (· != 0)
    s!"frac={showFloats (zernikeFrac 0.0 disc (a.floats "data"))}"
  | "znl" =>
    let z := znlG 0.0 1.0 Float.ofNat zPowF zPiF (a.floats "d") ((a.floats "are").zip (a.floats "aim"))
      (a.floats "p") (a.nat "n") (a.nat "l")
    s!"z={showFloats [z.1, z.2]}"
  | "zernike" =>
    let shape := a.nats "shape"
    let R := shape.headD 0
    let C := shape.getD 1 0
    let data := (a.floats "data").toArray
    let im := fun (y x : Nat) => data.getD (y * C + x) 0.0
    let cm := a.floats "cm"
    let radius := (a.floats "radius").headD 1.0
    let zs := (zernikeNL (a.nat "degree")).map fun nl =>
      zernikeZ 0.0 1.0 Float.ofNat Float.sqrt zPowF 1e-9 zPiF R C im (cm.headD 0.0) (cm.getD 1 0.0) radius nl.1 nl.2
    let nsel := (zernikeSel 0.0 1.0 Float.ofNat Float.sqrt 1e-9 R C im (cm.headD 0.0) (cm.getD 1 0.0) radius).length
    s!"z={showFloats (zs.flatMap fun z => [z.1, z.2])} abs={showFloats (zs.map fun z => Float.sqrt (cxNormSq z))} nsel={nsel}"
  | "tables" =>
    s!"d2={showInts deltas2d.flatten} d3={showInts deltas3d.flatten} fact={showNats factorialTable}"
  | "harq" =>
    let shape := a.nats "shape"
    let im : Img Int := { shape := shape, data := (a.ints "data").toArray }
    let m := a.nat "m"
    let ndirs := if shape.length == 2 then deltas2d.length else deltas3d.length
    let qs := (List.range ndirs).map fun dir =>
      let c := (symFold m (coocModel m im (direction shape.length dir (a.int "dist" 1)))).toList
      let c := if a.nat "iz" == 1 then stripZeros m c else c
      haralickQ m c
    s!"q={showFloats qs.flatten} ndirs={ndirs}"
  | "harmean" =>
    -- `return_mean` / `return_mean_ptp` of a feature matrix (rows = directions)
    let rows := chunk (a.nat "w") (a.floats "feats")
    s!"mean={showFloats (colMeanG Float.ofNat rows)} ptp={showFloats (colPtpG rows)}"
  | "tas" => C19Tas.handle a
  | "lbpt" =>
    -- `lbp_transform(image, radius, points, ignore_zeros, preserve_shape=False)`: sampling, raw codes, `_lbp.map`
    let im : Img Float := { shape := a.nats "shape", data := (a.floats "data").toArray }
    let radius := (a.floats "radius").headD 1.0
    let dydx := (a.floats "sin").zip (a.floats "cos")
    let raw := C19Lbp.rawCodes C18.flF im radius dydx (a.nat "iz" == 1)
    s!"raw={showNats raw} codes={showNats (raw.map (lbpMap dydx.length))}"
  | k => s!"error=unknown-kind-{k}"

end Mahotas.C19
