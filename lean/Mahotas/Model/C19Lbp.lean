/-
C19 — LBP sampling (`mahotas/features/lbp.py: lbp_transform`): the circular sampling by interpolated shifts and the raw
codes, before the rotation-minimal mapping `_lbp.map` (modelled in `Model/C19.lean: lbpMap`).

    angles = np.linspace(0, 2*np.pi, points+1)[:-1]
    for dy,dx in zip(np.sin(angles), np.cos(angles)):
        data.append(select(shift(image, [radius*dy,radius*dx], order=1)))
    codes = (data > pixels).astype(np.int32); codes *= 2**np.arange(points)[:,np.newaxis]; codes = codes.sum(0)

`shift(…, order=1)` (mode `constant`, `cval = 0`, no prefilter for order 1) is the model of C18 (`C18.shiftGlue`), generic
in the scalar type: the driver runs it at `Float` (bit-exact with `_interpolate.cpp`), the theorems are about the same
definitions over ordered fields. The sines and cosines come from libm through numpy: they are inputs.
-/
import Mahotas.Model.C18
namespace Mahotas.C19Lbp
open Mahotas

section Poly
variable {α : Type} [Add α] [Sub α] [Mul α] [Div α] [Neg α] [NatCast α] [IntCast α] [LT α] [DecidableLT α]

/-- sample image `i`: `shift(image, [radius*dy_i, radius*dx_i], order=1)` -/
def sample (fl : α → Int) (im : Img α) (radius : α) (dydx : α × α) : Img α :=
  C18.shiftGlue fl 1 .constant ((0 : Nat) : α) im [radius * dydx.1, radius * dydx.2]

/-- `Σ_i b_i 2^i` -/
def codeOfBits : List Bool → Nat
  | [] => 0
  | b :: bs => (if b then 1 else 0) + 2 * codeOfBits bs

/-- the comparison bits of pixel `p`: `data[i][p] > pixels[p]` -/
def bitsAt (im : Img α) (samples : List (Img α)) (p : List Int) : List Bool :=
  samples.map fun s => decide (im.getD p ((0 : Nat) : α) < s.getD p ((0 : Nat) : α))

/-- `select`: every pixel in C order, or (`ignore_zeros`) the pixels with a non-zero value (`np.nonzero`; no NaN) -/
def selected (im : Img α) (ignoreZeros : Bool) : List (List Int) :=
  (allPos im.shape).filter fun p =>
    !ignoreZeros || decide (im.getD p ((0 : Nat) : α) < ((0 : Nat) : α)) || decide (((0 : Nat) : α) < im.getD p ((0 : Nat) : α))

/-- the raw codes of `lbp_transform` (before `_lbp.map`) -/
def rawCodes (fl : α → Int) (im : Img α) (radius : α) (dydx : List (α × α)) (ignoreZeros : Bool) : List Nat :=
  let samples := dydx.map (sample fl im radius)
  (selected im ignoreZeros).map fun p => codeOfBits (bitsAt im samples p)

end Poly
end Mahotas.C19Lbp
