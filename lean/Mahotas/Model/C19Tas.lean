/-
C19 — Threshold Adjacency Statistics (`mahotas/features/tas.py`: `_tas`, `tas`, `pftas`).

`_ctas(b)`: `V = convolve(b.astype(uint8), M)` with the 3×3 (3×3×3) kernel of ones whose centre is 10 (28),
border mode `reflect`; `values, _ = np.histogram(V, bins=arange(11))` (`arange(28)`); `values[:9]` (`[:27]`);
divided by their sum when it is positive.  Because a selected pixel has `V ≥ 10` (`≥ 28`), the bins that are kept
(`V = 0 … 8`, `0 … 26`) count the pixels that are **not** selected, by the number of selected pixels among their
8 (26) neighbours (a neighbour outside the image is the reflected pixel).  `_tas` evaluates `_ctas` on three
binarisations and on their complements.
-/
import Mahotas.Model.Basic
namespace Mahotas.C19Tas
open Mahotas

/-- all positions of a box in C scan order -/
def boxPos : List Nat → List (List Int)
  | [] => [[]]
  | d :: ds => (List.range d).flatMap (fun (i : Nat) => (boxPos ds).map (fun t => (i : Int) :: t))

/-- the window offsets `{-1,0,1}^n` in C order -/
def offs : Nat → List (List Int)
  | 0 => [[]]
  | n + 1 => ([-1, 0, 1] : List Int).flatMap fun d => (offs n).map (d :: ·)

def isZero (d : List Int) : Bool := d.all (· == 0)

/-- border mode `reflect` for an index at most one step outside `[0, n)`: `-1 ↦ 0`, `n ↦ n-1` -/
def reflect1 (n : Nat) (i : Int) : Int :=
  if i < 0 then 0 else if i ≥ (n : Int) then (n : Int) - 1 else i

def reflectPos : List Nat → List Int → List Int
  | n :: s, i :: p => reflect1 n i :: reflectPos s p
  | _, _ => []

def bit (c : Bool) : Nat := if c then 1 else 0

/-- `convolve(b.astype(uint8), M)[p]`: `Σ_d M[d] · b[reflect(p + d)]`, `M` = ones with centre `w0`
    (the sum is at most `w0 + 3^n − 1 ≤ 54`: no `uint8` wrap-around) -/
def convAt (s : List Nat) (w0 : Nat) (b : List Int → Bool) (p : List Int) : Nat :=
  ((offs s.length).map fun d => (if isZero d then w0 else 1) * bit (b (reflectPos s (addPos p d)))).sum

/-- `np.histogram(V, bins=np.arange(nb + 1))[0]`: `nb` unit bins `[k, k+1)`, the last one closed (`[nb-1, nb]`) -/
def npHistogram (nb : Nat) (V : List Nat) : List Nat :=
  (List.range nb).map fun k => V.count k + (if k + 1 = nb then V.count nb else 0)

/-- centre weight, number of bins, number of saved bins for an image of rank `nd`
    (`_M2[1,1] = 10`, `_bins2 = arange(11)`, `saved = 9`; `_M3[1,1,1] = _M3.sum() + 1 = 28`, `_bins3 = arange(28)`, `saved = 27`) -/
def params (nd : Nat) : Nat × Nat × Nat := if nd == 2 then (10, 10, 9) else (28, 27, 27)

/-- the integer part of `_ctas`: `np.histogram(convolve(b, M), bins)[0][:saved]` -/
def ctasCounts (s : List Nat) (b : List Int → Bool) : List Nat :=
  let (w0, nb, saved) := params s.length
  (npHistogram nb ((boxPos s).map (convAt s w0 b))).take saved

/-- `values / float(s)` when `s = values.sum() > 0`, the (integer, all zero) values otherwise -/
def normalise {α : Type} [Div α] (cast : Nat → α) (vals : List Nat) : List α :=
  if vals.sum > 0 then vals.map (fun v => cast v / cast vals.sum) else vals.map cast

/-- `_ctas` -/
def ctas {α : Type} [Div α] (cast : Nat → α) (s : List Nat) (b : List Int → Bool) : List α :=
  normalise cast (ctasCounts s b)

/-! ### specification -/

/-- number of selected pixels among the `3^n − 1` neighbours of `p` (reflected at the border) -/
def nbCount (s : List Nat) (b : List Int → Bool) (p : List Int) : Nat :=
  ((offs s.length).filter (fun d => !isZero d)).countP fun d => b (reflectPos s (addPos p d))

/-- **specification**: the number of pixels that are *not* selected and have exactly `k` selected neighbours -/
def tasCount (s : List Nat) (b : List Int → Bool) (k : Nat) : Nat :=
  (boxPos s).countP fun p => !b p && nbCount s b p == k

/-- number of pixels that are not selected -/
def offCount (s : List Nat) (b : List Int → Bool) : Nat := (boxPos s).countP fun p => !b p

/-- Hamilton et al.'s statistic: the number of *selected* pixels with exactly `k` selected neighbours -/
def hamiltonCount (s : List Nat) (b : List Int → Bool) (k : Nat) : Nat :=
  (boxPos s).countP fun p => b p && nbCount s b p == k

/-! ### `_tas`: the three binarisations -/

/-- `(img > mu - margin) * (img < mu + margin)`, `img > mu - margin`, `img > mu` (comparisons in binary64) -/
def masks (mu margin : Float) (v : Float) : List Bool :=
  [decide (v > mu - margin) && decide (v < mu + margin), decide (v > mu - margin), decide (v > mu)]

/-- `total = np.sum(img > thresh); mu = ((img > thresh)*img).sum() / (total + 1e-8)` for an integer image
    (the integer sum is exact; it is converted to binary64 by the division) -/
def muInt (thresh : Int) (data : List Int) : Float :=
  let sel := data.filter (· > thresh)
  Float.ofInt (sel.foldl (· + ·) 0) / (Float.ofNat sel.length + 1e-8)

/-- `_tas(img, thresh, margin)` given `mu`: `concatenate(alltas + allntas)`; returns the integer counts too -/
def tasG {α : Type} [Div α] (cast : Nat → α) (s : List Nat) (data : Array Float) (mu margin : Float) :
    List α × List Nat :=
  let sel := fun (i : Nat) (p : List Int) => ((masks mu margin (data.getD (ravelI s p) 0.0)).getD i false)
  let pos := (List.range 3).map fun i => sel i
  let neg := (List.range 3).map fun i => fun p => !sel i p
  let all := pos ++ neg
  (all.flatMap fun b => ctas cast s b, all.flatMap fun b => ctasCounts s b)

def handle (a : Args) : String :=
  match a.str "kind" with
  | "tas" =>
    let s := a.nats "shape"
    let margin := (a.floats "margin").headD 0.0
    let (data, mu) :=
      if a.has "idata" then
        let d := a.ints "idata"
        ((d.map Float.ofInt).toArray, muInt (a.int "thresh") d)
      else ((a.floats "fdata").toArray, (a.floats "mu").headD 0.0)
    let (vals, counts) := tasG Float.ofNat s data mu margin
    let b0 := fun (p : List Int) => (masks mu margin (data.getD (ravelI s p) 0.0)).getD (a.nat "specmask") false
    let saved := (params s.length).2.2
    let spec := (List.range saved).map (tasCount s b0)
    let ham := (List.range saved).map fun k => hamiltonCount s b0 (saved - 1 - k)
    s!"tas={showFloats vals} counts={showNats counts} spec={showNats spec} ham={showNats ham} mu={showFloats [mu]}"
  | k => s!"error=unknown-kind-{k}"

end Mahotas.C19Tas
