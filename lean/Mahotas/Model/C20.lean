/-
C20 — colour conversions (`colors.py`) and `stretch` / `stretch_rgb` (`stretch.py`).

The matrices, constants and the `np.choose` selections come from `Generated/Tables.lean`
(regenerated from the sources on every run). The linear parts are written once, polymorphic in the
scalar type: the driver runs them at `Float`, the theorems are proved at `Rat`.
-/
import Mahotas.Model.Basic
import Mahotas.Generated.Tables
import Mahotas.Model.C20Stretch
namespace Mahotas.C20
open Mahotas Mahotas.Generated

/-! ## linear part (polymorphic) -/

/-- dot product of two lists (missing entries count as 0) -/
def dot {α : Type} [Add α] [Mul α] [OfNat α 0] : List α → List α → α
  | a :: as, b :: bs => a * b + dot as bs
  | _, _ => 0

/-- matrix (list of rows) times vector: what `_convert` does along the channel axis -/
def matVec {α : Type} [Add α] [Mul α] [OfNat α 0] (m : List (List α)) (v : List α) : List α :=
  m.map (fun row => dot row v)

/-- matrix product (rows of `a` times columns of `b`, `b` given by rows, 3 columns) -/
def col {α : Type} [OfNat α 0] (b : List (List α)) (j : Nat) : List α := b.map (fun r => r.getD j 0)

def matMul {α : Type} [Add α] [Mul α] [OfNat α 0] (a b : List (List α)) : List (List α) :=
  a.map (fun row => (List.range 3).map (fun j => dot row (col b j)))

/-- `rgb2grey`: `np.dot(array, [0.30, 0.59, 0.11])` -/
def grey {α : Type} [Add α] [Mul α] [OfNat α 0] (w : List α) (r g b : α) : α := dot w [r, g, b]

/-! ## transfer functions

Written once, generic in the scalar type and its power function: the driver runs them at `Float` with
`Float.pow` and the extracted `…F` constants, the monotonicity / white-point theorems
(`Proofs/C20Real.lean`) are about the same definitions at `ℝ` with `Real.rpow` and the exact rationals
`…Q` of the same decimal literals. The small integer literals of the source (`1.`, `1/3.`, `29./6`,
`4/29.`, `116`, `16`, `500`, `200`) are passed as a record so that the `Float` instance keeps the
literal spelling. -/

/-- the integer literals occurring in `colors.py`, at the scalar type in use -/
structure Lits (α : Type) where
  one : α
  three : α
  four : α
  six : α
  twentyNine : α
  c16 : α
  c116 : α
  c200 : α
  c500 : α

def litsF : Lits Float := ⟨1.0, 3.0, 4.0, 6.0, 29.0, 16.0, 116.0, 200.0, 500.0⟩

/-- sRGB decoding of one channel value `c ∈ [0,255]`, generic: `x = c/scale`,
    `high = ((x+a)/(1+a))^gamma`, `low = x/slope`; `lowBelow` says which alternative
    `np.choose` takes where `x ≤ knee` (the standard: the linear segment). -/
def srgbToLinearG {α : Type} [Add α] [Div α] [LE α] [DecidableLE α]
    (pow : α → α → α) (one scale a gamma slope knee : α) (lowBelow : Bool) (c : α) : α :=
  let x := c / scale
  let high := pow ((x + a) / (one + a)) gamma
  let low := x / slope
  if x ≤ knee then (if lowBelow then low else high) else (if lowBelow then high else low)

/-- sRGB decoding at `Float` with the extracted constants -/
def srgbToLinearWith (lowBelow : Bool) (c : Float) : Float :=
  srgbToLinearG Float.pow litsF.one srgbScaleF srgbAF srgbGammaF srgbSlopeF srgbKneeF lowBelow c

/-- sRGB encoding of one linear value, result scaled to 0..255, generic:
    `high = (1+a)·v^(1/gamma) − a`, `low = slope·v`; `lowBelow` says which alternative `np.choose` takes
    where `v ≤ knee` (the standard: the linear segment); the selected value is multiplied by `scale`.
    (`gamma` and `scale` are the literals `2.4` of `1./2.4` and `255.` of `srgb *= 255.` in `xyz2rgb`.) -/
def linearToSrgbG {α : Type} [Add α] [Sub α] [Mul α] [Div α] [LE α] [DecidableLE α]
    (pow : α → α → α) (one gamma a slope knee scale : α) (lowBelow : Bool) (v : α) : α :=
  let high := (one + a) * pow v (one / gamma) - a
  let low := slope * v
  (if v ≤ knee then (if lowBelow then low else high) else (if lowBelow then high else low)) * scale

/-- sRGB encoding at `Float` with the extracted constants (`(1.0 + a) * pow v (1.0 / 2.4) - a`,
    `12.92 * v`, `… * 255.0`); since round 4 the `1`, `2.4` and `255.` are the extracted literals of `xyz2rgb` too
    (`srgbOneInvF` serves as the `1` of `(1 + a)` and as the numerator of `1./2.4`: `C20_tables_xyz2rgb_literals`) -/
def linearToSrgbWith (lowBelow : Bool) (v : Float) : Float :=
  linearToSrgbG Float.pow srgbOneInvF srgbGammaInvF srgbAInvF srgbSlopeInvF srgbKneeInvF srgbScaleInvF lowBelow v

/-- the CIE L*a*b* helper `f`, generic: `large = t^(1/3)`, `small = ((1/3)(29/6)(29/6)) t + 4/29`,
    knee `(δnum/δden)^k`; `smallBelow` = which alternative is taken where `t ≤ knee` -/
def labFG {α : Type} [Add α] [Mul α] [Div α] [LE α] [DecidableLE α]
    (pow : α → α → α) (natCast : Nat → α) (L : Lits α) (dnum dden : α) (smallBelow : Bool) (k : Nat) (t : α) : α :=
  let large := pow t (L.one / L.three)
  let small := ((L.one / L.three) * (L.twentyNine / L.six) * (L.twentyNine / L.six)) * t + L.four / L.twentyNine
  let knee := pow (dnum / dden) (natCast k)
  if t ≤ knee then (if smallBelow then small else large) else (if smallBelow then large else small)

def labFWith (smallBelow : Bool) (k : Nat) (t : Float) : Float :=
  labFG Float.pow Float.ofNat litsF labDeltaNumF labDeltaDenF smallBelow k t

/-- `rgb2xyz`, generic: the transfer function on each channel, then the matrix -/
def rgb2xyzG {α : Type} [Add α] [Mul α] [OfNat α 0] (m : List (List α)) (transfer : α → α) (rgb : List α) : List α :=
  matVec m (rgb.map transfer)

def rgb2xyzWith (lowBelow : Bool) (rgb : List Float) : List Float :=
  rgb2xyzG rgb2xyzMF (srgbToLinearWith lowBelow) rgb

/-- `xyz2rgb`, generic: the matrix, then the encoding on each channel -/
def xyz2rgbG {α : Type} [Add α] [Mul α] [OfNat α 0] (m : List (List α)) (encode : α → α) (xyz : List α) : List α :=
  (matVec m xyz).map encode

def xyz2rgbWith (lowBelow : Bool) (xyz : List Float) : List Float :=
  xyz2rgbG xyz2rgbMF (linearToSrgbWith lowBelow) xyz

/-- `xyz2lab`, generic: `L = 116 f(y/yn) − 16`, `a = 500 (f(x/xn) − f(y/yn))`, `b = 200 (f(y/yn) − f(z/zn))` -/
def xyz2labG {α : Type} [Sub α] [Mul α] [Div α] (f : α → α) (L : Lits α) (white xyz : List α) : List α :=
  match xyz, white with
  | [x, y, z], [xn, yn, zn] =>
    let fx := f (x / xn)
    let fy := f (y / yn)
    let fz := f (z / zn)
    [L.c116 * fy - L.c16, L.c500 * (fx - fy), L.c200 * (fy - fz)]
  | _, _ => []

def xyz2labWith (smallBelow : Bool) (k : Nat) (xyz : List Float) : List Float :=
  xyz2labG (labFWith smallBelow k) litsF labWhiteF xyz

/-- model of the code as it is (selections as extracted) -/
def rgb2xyz := rgb2xyzWith fwdLowWhenBelow
def xyz2rgb := xyz2rgbWith invLowWhenBelow
def xyz2lab := xyz2labWith labSmallWhenBelow labKneeExp
def rgb2lab (rgb : List Float) : List Float := xyz2lab (rgb2xyz rgb)

/-! ### specification: the sRGB (IEC 61966-2-1) / CIE L*a*b* definitions with the standards' own numbers,
written out independently of the extracted tables (`C20_model_is_standard` proves the two coincide
for the tree the tables were extracted from) -/

def stdM : List (List Float) := [[0.4124, 0.3576, 0.1805], [0.2126, 0.7152, 0.0722], [0.0193, 0.1192, 0.9505]]
def stdMInv : List (List Float) := [[3.2406, -1.5372, -0.4986], [-0.9689, 1.8758, 0.0415], [0.0557, -0.204, 1.057]]

def srgbToLinearStd (c : Float) : Float :=
  let x := c / 255.0
  if x ≤ 0.04045 then x / 12.92 else Float.pow ((x + 0.055) / (1.0 + 0.055)) 2.4

def linearToSrgbStd (v : Float) : Float :=
  (if v ≤ 0.0031308 then 12.92 * v else (1.0 + 0.055) * Float.pow v (1.0 / 2.4) - 0.055) * 255.0

def labFStd (t : Float) : Float :=
  if t ≤ Float.pow (6.0 / 29.0) (Float.ofNat 3) then ((1.0 / 3.0) * (29.0 / 6.0) * (29.0 / 6.0)) * t + 4.0 / 29.0
  else Float.pow t (1.0 / 3.0)

def rgb2xyzSpec (rgb : List Float) : List Float := matVec stdM (rgb.map srgbToLinearStd)
def xyz2rgbSpec (xyz : List Float) : List Float := (matVec stdMInv xyz).map linearToSrgbStd
def xyz2labSpec (xyz : List Float) : List Float :=
  match xyz with
  | [x, y, z] =>
    let fx := labFStd (x / 0.95047)
    let fy := labFStd (y / 1.0)
    let fz := labFStd (z / 1.08883)
    [116.0 * fy - 16.0, 500.0 * (fx - fy), 200.0 * (fy - fz)]
  | _ => []
def rgb2labSpec (rgb : List Float) : List Float := xyz2labSpec (rgb2xyzSpec rgb)

/-- `rgb2sepia`: matrix product in double, cast to float32, clipped to [0,255], cast to uint8 -/
def sepia (rgb : List Float) : List Nat :=
  (matVec sepiaMF rgb).map fun v =>
    let s := v.toFloat32
    let s := if s < 255.0 then s else 255.0      -- np.minimum(sepia, 255)
    let s := if s < 0.0 then 0.0 else s          -- np.maximum(sepia, 0)
    s.toUInt8.toNat

/-- specification of sepia over the rationals for integer channels: floor of the clipped exact value -/
def sepiaSpecQ (r g b : Int) : List Int :=
  (matVec sepiaMQ [(r : Rat), (g : Rat), (b : Rat)]).map fun v =>
    let v := if v < 255 then v else 255
    let v := if v < 0 then 0 else v
    v.floor

/-! ## dtype handling of the colour conversions (round 4)

`rgb/255.` (true division), `np.dot(matrix, array)` and `x/xn` convert an integer image to `double` first, so a
conversion of an integer image is the conversion of the converted values; a `dtype=` request is `astype(dtype)` of
the `float64` result (for `xyz2rgb` since the repair: of the returned sRGB values, not of the linear intermediate):
C truncation, then the dtype's reduction. -/

def rgb2xyzInt (rgb : List Int) : List Float := rgb2xyz (rgb.map Float.ofInt)
def rgb2labInt (rgb : List Int) : List Float := rgb2lab (rgb.map Float.ofInt)
def roundTripInt (rgb : List Int) : List Float := xyz2rgb (rgb2xyzInt rgb)
def greyInt (rgb : List Int) : Float := dot greyWF (rgb.map Float.ofInt)

/-- `astype(dt)` of a list of doubles for an integer dtype -/
def castOutInt (dt : DT) (v : List Float) : List Int := v.map fun y => dt.wrap (truncF y)

def intTriples (xs : List Int) : List (List Int) :=
  match xs with
  | r :: g :: b :: rest => [r, g, b] :: intTriples rest
  | _ => []

/-! ## driver -/

def triples (xs : List Float) : List (List Float) :=
  match xs with
  | r :: g :: b :: rest => [r, g, b] :: triples rest
  | _ => []

def handle (a : Args) : String :=
  match a.str "kind" with
  | "rgb" =>
    let ts := triples (a.floats "rgb")
    let xyz := ts.map rgb2xyz
    let cat := fun (l : List (List Float)) => showFloats l.flatten
    s!"xyz={cat xyz} xyzspec={cat (ts.map rgb2xyzSpec)} lab={cat (ts.map rgb2lab)} " ++
    s!"labspec={cat (ts.map rgb2labSpec)} back={cat (xyz.map xyz2rgb)} " ++
    s!"grey={showFloats (ts.map fun t => dot greyWF t)} sepia={showNats (ts.map sepia).flatten}"
  | "rgbint" =>
    let ts := intTriples (a.ints "rgb")
    let dt := DT.ofName (a.str "out")
    let xyz := (ts.map rgb2xyzInt).flatten
    let lab := (ts.map rgb2labInt).flatten
    let back := (ts.map roundTripInt).flatten
    let grey := ts.map greyInt
    s!"xyz={showFloats xyz} lab={showFloats lab} back={showFloats back} grey={showFloats grey} " ++
    s!"xyzint={showInts (castOutInt dt xyz)} labint={showInts (castOutInt dt lab)} " ++
    s!"backint={showInts (castOutInt dt back)} greyint={showInts (castOutInt dt grey)}"
  | "xyz2rgb" =>
    let ts := triples (a.floats "xyz")
    s!"rgb={showFloats (ts.map xyz2rgb).flatten} rgbspec={showFloats (ts.map xyz2rgbSpec).flatten}"
  | "sepiaq" =>
    let v := a.ints "rgb"
    let rec go : List Int → List Int
      | r :: g :: b :: rest => sepiaSpecQ r g b ++ go rest
      | _ => []
    s!"sepia={showInts (go v)}"
  | "stretch" =>
    let xs := a.floats "data"
    let lo := Float.ofInt (a.int "lo")
    let hi := Float.ofInt (a.int "hi")
    let ys := stretchList xs lo hi
    s!"float={showFloats ys} int={showInts (ys.map truncF)} intq={showInts (ys.map fun y => truncQ (floatToRat y))}"
  | "consts" =>
    s!"m={showFloats (rgb2xyzMF.flatten ++ xyz2rgbMF.flatten ++ sepiaMF.flatten ++ greyWF ++ labWhiteF)}"
  | _ => handleStretch a

end Mahotas.C20
