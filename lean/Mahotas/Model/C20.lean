/- C20 — executable model (stub; filled in by the property's owner). -/
import Mahotas.Model.Border
import Mahotas.Model.DType
namespace Mahotas.C20
open Mahotas

def handle (a : Args) : String :=
  match a.str "kind" with
  | k => s!"error=unknown-kind-{k}"

end Mahotas.C20
