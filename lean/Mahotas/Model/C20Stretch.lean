/-
C20 — `mahotas/stretch.py`: `stretch` (argument decoding, scaling, final cast), `stretch_rgb`, `as_rgb`.

The arithmetic (`stretchList`) is polymorphic in the scalar type: the driver runs it at `Float`, the theorems are
proved at `Rat`. Round 4 adds the *call level*: the decoding of the optional positional arguments
(`decodeArgs`), the cast to the requested dtype (`castInt`: C truncation, then the dtype's two's-complement
reduction; bool = "non-zero"; float32 = rounding), the per-channel `stretch_rgb` and `as_rgb` with its shape
rules and errors. (Moved here from `Model/C20.lean`, which imports this file; names unchanged.)
-/
import Mahotas.Model.Basic
import Mahotas.Model.DType
namespace Mahotas.C20
open Mahotas

/-! ## stretch -/

/-- the affine map of `stretch`: `(x - mn) * ((hi - lo) / ptp) + lo` -/
def stretchCore {α : Type} [Add α] [Sub α] [Mul α] [Div α] (mn ptp lo hi x : α) : α :=
  (x - mn) * ((hi - lo) / ptp) + lo

/-- `if max >= min: np.minimum(img, max, out=img)`: rounding must not carry a pixel above `hi` -/
def capHi {α : Type} [LT α] [DecidableLT α] (lo hi y : α) : α :=
  if hi < lo then y else if hi < y then hi else y

def minL {α : Type} [LT α] [DecidableLT α] : α → List α → α
  | m, [] => m
  | m, x :: xs => minL (if x < m then x else m) xs

def maxL {α : Type} [LT α] [DecidableLT α] : α → List α → α
  | m, [] => m
  | m, x :: xs => maxL (if m < x then x else m) xs

/-- `stretch` before the final cast: `img -= img.min(); ptp = img.ptp();` constant image ↦ all `lo`,
    otherwise the affine map (`x ↦ (x - min) * ((hi - lo)/ptp) + lo`) capped at `hi`. -/
def stretchList {α : Type} [Add α] [Sub α] [Mul α] [Div α] [LT α] [DecidableLT α] [OfNat α 0]
    (xs : List α) (lo hi : α) : List α :=
  match xs with
  | [] => []
  | x0 :: rest =>
    let mn := minL x0 rest
    let ptp := maxL (x0 - mn) (rest.map (· - mn))
    if 0 < ptp then xs.map (fun x => capHi lo hi (stretchCore mn ptp lo hi x)) else xs.map (fun _ => lo)

/-- C cast double → integer dtype (truncation towards zero); exact for |v| < 2^63 -/
def truncF (v : Float) : Int := v.toInt64.toInt

/-- exact counterpart of `truncF`: the C conversion of a real (here rational) number to an integer type
    discards the fractional part, i.e. rounds **towards zero** (`floor` for `q ≥ 0`, `-floor(-q) = ceil q`
    for `q < 0`) — not `floor`: `truncQ (-5/2) = -2`. -/
def truncQ (q : Rat) : Int := if 0 ≤ q then q.floor else -((-q).floor)

/-- the exact rational value of a finite double (`frexp`: `v = m·2^e`, `m·2^53` is an integer); only used by
    the driver to print `truncQ` beside `truncF` -/
def floatToRat (v : Float) : Rat :=
  let (m, e) := v.frExp
  let mi : Int := (m * 9007199254740992.0).toInt64.toInt
  let k := e - 53
  if 0 ≤ k then ((mi * (2 : Int) ^ k.toNat : Int) : Rat) else mkRat mi (2 ^ (-k).toNat)


/-! ## the call level of `stretch` (round 4) -/

/-- `stretch(img, arg0=None, arg1=None)`: `if arg0 is None: (0, 255) elif arg1 is None: (0, arg0) else: (arg0, arg1)`.
    (`arg1` is ignored when `arg0` is `None`.) -/
def decodeArgs (arg0 arg1 : Option Int) : Int × Int :=
  match arg0, arg1 with
  | none, _ => (0, 255)
  | some a, none => (0, a)
  | some a, some b => (a, b)

/-- `astype(dtype)` of one scaled value for an integer / bool dtype: bool is "non-zero"; an integer dtype takes the
    C conversion (`trunc`: fractional part discarded) reduced to the dtype (`DT.wrap`: the identity on the dtype's
    range, see `C20_stretch_dtype_cast`). -/
def castInt {α : Type} [LT α] [DecidableLT α] [OfNat α 0] (trunc : α → Int) (dt : DT) (y : α) : Int :=
  if dt.isBool then (if 0 < y then 1 else if y < 0 then 1 else 0) else dt.wrap (trunc y)

/-- `stretch(img, arg0, arg1, dtype)` for an integer/bool `dtype`, generic in the scalar type
    (`ofInt`: the conversion of the Python integers `min`, `max`; `trunc`: the C cast) -/
def stretchIntG {α : Type} [Add α] [Sub α] [Mul α] [Div α] [LT α] [DecidableLT α] [OfNat α 0]
    (ofInt : Int → α) (trunc : α → Int) (dt : DT) (xs : List α) (arg0 arg1 : Option Int) : List Int :=
  let r := decodeArgs arg0 arg1
  (stretchList xs (ofInt r.1) (ofInt r.2)).map (castInt trunc dt)

/-- the `Float` instance the driver runs for integer/bool dtypes -/
def stretchInt (dt : DT) (xs : List Float) (arg0 arg1 : Option Int) : List Int :=
  stretchIntG Float.ofInt truncF dt xs arg0 arg1

/-- `dtype=float` / `np.float64` (no cast) and `np.float32` (rounding to single, shown as a double) -/
def stretchFloat (single : Bool) (xs : List Float) (arg0 arg1 : Option Int) : List Float :=
  let r := decodeArgs arg0 arg1
  let ys := stretchList xs (Float.ofInt r.1) (Float.ofInt r.2)
  if single then ys.map (fun y => y.toFloat32.toFloat) else ys

/-! ## channel-interleaved data (`np.dstack`) -/

/-- channel `i` of pixel-interleaved data with `d` channels: elements `i, d+i, 2d+i, …` (`img[:,:,i]` raveled) -/
def channel {β : Type} (dflt : β) (d i : Nat) (xs : List β) : List β :=
  let a := xs.toArray      -- (constant-time indexing: images of 2^16 pixels and more go through the driver)
  (List.range (xs.length / d)).map fun p => a.getD (p * d + i) dflt

/-- `np.dstack` of `d` arrays with `n·B` elements each whose common shape has `B` elements behind the second
    axis (`B = 1` for 1-D and 2-D arrays: pixel-interleaving): element `j` of the result comes from array
    `(j / B) % d`, position `(j / (B·d))·B + j % B`. -/
def dstackData (B d n : Nat) (chs : List (List Int)) : List Int :=
  let arrs := chs.map List.toArray
  (List.range (n * d * B)).map fun j => (arrs.getD ((j / B) % d) #[]).getD ((j / (B * d)) * B + j % B) 0

/-- shape of `np.dstack([a, b, c])` for three arrays of shape `s` (`atleast_3d`, then axis 2) -/
def dstackShape : List Nat → List Nat
  | [] => [1, 1, 3]
  | [n] => [1, n, 3]
  | [h, w] => [h, w, 3]
  | h :: w :: d :: rest => h :: w :: (3 * d) :: rest

/-- number of elements behind the second axis -/
def dstackBlock : List Nat → Nat
  | _ :: _ :: d :: rest => shapeSize (d :: rest)
  | _ => 1

/-! ## `stretch_rgb` -/

/-- `stretch_rgb(img, arg0, arg1, dtype)`: 2-D ⇒ `stretch`; 3-D `(h, w, d)` ⇒ `np.dstack` of `stretch` of every
    channel `img[:,:,i]`, each with its own minimum and range; otherwise `ValueError`. -/
def stretchRgbG {α : Type} [Add α] [Sub α] [Mul α] [Div α] [LT α] [DecidableLT α] [OfNat α 0]
    (ofInt : Int → α) (trunc : α → Int) (dt : DT) (shape : List Nat) (xs : List α) (arg0 arg1 : Option Int) :
    Except String (List Int) :=
  match shape with
  | [_, _] => .ok (stretchIntG ofInt trunc dt xs arg0 arg1)
  | [h, w, d] =>
    .ok (dstackData 1 d (h * w) ((List.range d).map fun i => stretchIntG ofInt trunc dt (channel 0 d i xs) arg0 arg1))
  | _ => .error "ValueError: mahotas.stretch_rgb: Only works for RGB images"

def stretchRgb (dt : DT) (shape : List Nat) (xs : List Float) (arg0 arg1 : Option Int) : Except String (List Int) :=
  stretchRgbG Float.ofInt truncF dt shape xs arg0 arg1

/-! ## `as_rgb` -/

/-- one argument of `as_rgb`: `None`, a number (or 0-d array; integers only here), or an array -/
inductive Chan (α : Type) where
  | none
  | scalar (v : Int)
  | arr (shape : List Nat) (data : List α)

/-- the shape the `for c in (r,g,b)` loop leaves in `shape`: that of the first argument that is neither `None`
    nor 0-dimensional (`shape != ()`); no such argument ⇒ the `else` branch raises -/
def firstShape {α : Type} : List (Chan α) → Option (List Nat)
  | [] => none
  | .arr (d :: s) _ :: _ => some (d :: s)
  | _ :: rest => firstShape rest

/-- `stretch(c)`: defaults `0, 255, np.uint8` -/
def stretchU8G {α : Type} [Add α] [Sub α] [Mul α] [Div α] [LT α] [DecidableLT α] [OfNat α 0]
    (ofInt : Int → α) (trunc : α → Int) (xs : List α) : List Int :=
  stretchIntG ofInt trunc (dtU 8) xs none none

def Chan.isScalar {α : Type} : Chan α → Bool
  | .scalar _ => true
  | _ => false

/-- the inner function `s(c)` of `as_rgb`. `anyNumber`: one of `r, g, b` is a Python number — then the formatting of
    the shape-mismatch message (`sh = lambda c: c.shape if c is not None else ' . '`) fails with `AttributeError`
    before the `ValueError` is raised (the code as it is). -/
def asRgbChan {α : Type} [Add α] [Sub α] [Mul α] [Div α] [LT α] [DecidableLT α] [OfNat α 0]
    (ofInt : Int → α) (trunc : α → Int) (shape : List Nat) (anyNumber : Bool) : Chan α → Except String (List Int)
  | .none => .ok (List.replicate (shapeSize shape) 0)
  | .scalar v => .ok (List.replicate (shapeSize shape) ((dtU 8).wrap v))   -- np.tile(c, shape).astype(np.uint8)
  | .arr s d =>
    if s = [] then .error "0-d array: pass it as a scalar"
    else if s = shape then .ok (stretchU8G ofInt trunc d)
    else if anyNumber then .error "AttributeError: 'int' object has no attribute 'shape'"
    else .error "ValueError: mahotas.as_rgb: Not all arguments have the same shape"

/-- `as_rgb(r, g, b)`: shape and raveled data of the `uint8` result, or the `ValueError` -/
def asRgbG {α : Type} [Add α] [Sub α] [Mul α] [Div α] [LT α] [DecidableLT α] [OfNat α 0]
    (ofInt : Int → α) (trunc : α → Int) (r g b : Chan α) : Except String (List Nat × List Int) :=
  match firstShape [r, g, b] with
  | none => .error "ValueError: mahotas.as_rgb: Not all arguments can be None"
  | some shape =>
    let num := r.isScalar || g.isScalar || b.isScalar
    match asRgbChan ofInt trunc shape num r, asRgbChan ofInt trunc shape num g, asRgbChan ofInt trunc shape num b with
    | .ok cr, .ok cg, .ok cb =>
      let B := dstackBlock shape
      .ok (dstackShape shape, dstackData B 3 (shapeSize shape / B) [cr, cg, cb])
    | .error e, _, _ => .error e
    | _, .error e, _ => .error e
    | _, _, .error e => .error e

def asRgb (r g b : Chan Float) : Except String (List Nat × List Int) := asRgbG Float.ofInt truncF r g b

/-! ## driver (kinds `stretchcall`, `stretchrgb`, `asrgb`; delegated from `C20.handle`) -/

def optInt (a : Args) (k : String) : Option Int := if a.has k then (a.ints k).head? else none

def parseChan (a : Args) (k : String) : Chan Float :=
  let v := a.str k
  if v == "none" then .none
  else if v == "arr" then .arr (a.nats (k ++ "shape")) (a.floats (k ++ "data"))
  else .scalar (a.int k)

def handleStretch (a : Args) : String :=
  match a.str "kind" with
  | "stretchcall" =>
    let xs := a.floats "data"
    let (lo, hi) := decodeArgs (optInt a "arg0") (optInt a "arg1")
    match a.str "out" with
    | "f64" => s!"lo={lo} hi={hi} float={showFloats (stretchFloat false xs (optInt a "arg0") (optInt a "arg1"))}"
    | "f32" => s!"lo={lo} hi={hi} float={showFloats (stretchFloat true xs (optInt a "arg0") (optInt a "arg1"))}"
    | o => s!"lo={lo} hi={hi} int={showInts (stretchInt (DT.ofName o) xs (optInt a "arg0") (optInt a "arg1"))}"
  | "stretchrgb" =>
    match stretchRgb (DT.ofName (a.str "out")) (a.nats "shape") (a.floats "data") (optInt a "arg0") (optInt a "arg1") with
    | .ok v => s!"ok=1 int={showInts v}"
    | .error e => s!"ok=0 error={e.replace " " "_"}"
  | "asrgb" =>
    match asRgb (parseChan a "c0") (parseChan a "c1") (parseChan a "c2") with
    | .ok (s, v) => s!"ok=1 shape={showNats s} int={showInts v}"
    | .error e => s!"ok=0 error={e.replace " " "_"}"
  | k => s!"error=unknown-kind-{k}"

end Mahotas.C20
