/-
Integer dtypes: range, two's-complement wrap-around (`-fno-strict-overflow`),
and the saturating helpers of `_morph.cpp` transliterated operation by operation.
-/
import Mahotas.Model.Basic
namespace Mahotas

/-- an integer dtype: `[lo, hi]`, `hi - lo + 1 = 2^bits`. `isBool` selects the bool specialisations. -/
structure DT where
  lo : Int
  hi : Int
  isBool : Bool := false
deriving Repr, DecidableEq

def DT.signed (dt : DT) : Bool := decide (dt.lo < 0)
def DT.card (dt : DT) : Int := dt.hi - dt.lo + 1

/-- reduce an exact integer to the dtype (what a C++ `T r = a - b;` stores). -/
def DT.wrap (dt : DT) (x : Int) : Int := (x - dt.lo) % dt.card + dt.lo

def DT.clamp (dt : DT) (x : Int) : Int := max dt.lo (min x dt.hi)

def dtBool : DT := { lo := 0, hi := 1, isBool := true }
def dtU (bits : Nat) : DT := { lo := 0, hi := 2 ^ bits - 1 }
def dtI (bits : Nat) : DT := { lo := -(2 ^ (bits - 1)), hi := 2 ^ (bits - 1) - 1 }

/-- protocol names: `b1 u8 u16 u32 u64 i8 i16 i32 i64` -/
def DT.ofName : String → DT
  | "b1" => dtBool
  | "u8" => dtU 8 | "u16" => dtU 16 | "u32" => dtU 32 | "u64" => dtU 64
  | "i8" => dtI 8 | "i16" => dtI 16 | "i32" => dtI 32 | "i64" => dtI 64
  | _ => dtI 64

/-- `erode_sub` of `_morph.cpp`. -/
def erodeSub (dt : DT) (a b : Int) : Int :=
  if dt.isBool then (if a ≠ 0 ∧ b ≠ 0 then 1 else 0) else
  if b = dt.lo then dt.hi else
  if !dt.signed && decide (b > a) then 0 else
  let r := dt.wrap (a - b)
  if dt.signed && decide (r > a) then dt.lo else r

/-- `dilate_add` of `_morph.cpp` (overflow test as repaired, `b >= 0 && r < a`: for a height `b ≥ 0`
    the wrapped sum overflowed iff it is smaller than `a`; for a negative height the stored sum is returned
    as it is). Tied to the C++ text for ALL `a`, `b` by `cscalar_dilate_add_eq_model`. -/
def dilateAdd (dt : DT) (a b : Int) : Int :=
  if dt.isBool then (if a ≠ 0 ∧ b ≠ 0 then 1 else 0) else
  if a = dt.lo then a else
  if b = dt.lo then b else
  let r := dt.wrap (a + b)
  if b ≥ 0 ∧ r < a then dt.hi else r

/-- `subm` of `_morph.cpp`, one element. -/
def submElem (dt : DT) (a b : Int) : Int :=
  if dt.signed then
    let v := dt.wrap (a - b)
    if b ≥ 0 ∧ v ≤ a then v
    else if b < 0 ∧ v > a then v
    else if b ≥ 0 then dt.lo
    else dt.hi
  else
    if b > a then 0 else a - b

end Mahotas
