/-
F6 — the offset-table mechanism of `filter_iterator` (mahotas/_filters.h, _filters.cpp).

Every neighbourhood kernel walks the array with a `filter_iterator`: `init_filter_offsets`
precomputes one set of offsets per *region* of the array (border regions and the interior),
`init_filter_iterator` computes how to move a pointer through that table, and `iterate_both`
moves it while the array iterator advances in C scan order. This file transliterates the three
functions as small total functions, and states the closed form every property model uses instead.

Conventions
* origins are 0 (`filter_iterator` always passes `origins = 0`), so `orgn = fshape[ii] / 2`;
* offsets are kept as *coordinate offsets* (one `Int` per axis, `none` = `border_flag_value`);
  the element offset of the code is the linear map `elemOffset astrides` of that vector, so the
  strides of the array play no role in which element is retrieved;
* the odometer state (`coordinates`, `position` of `init_filter_offsets`, `position_` of the array
  iterator) is stored last axis first, because all three loops run `for (ii = rank-1; ii >= 0; ii--)`
  (the array iterator of numpypp/array.hpp stores its position reversed itself). The axis loop that
  computes an entry reads them in axis order (`.reverse`).
-/
import Mahotas.Model.Border
namespace Mahotas
namespace FilterIter

/-- One offset-table entry: coordinate offsets per axis, `none` = `border_flag_value`. -/
abbrev Entry := Option (List Int)

/-! ## the three odometers -/

/-- Loop skeleton shared by `next point in the filter`, `move to the next array region`
    (both in `init_filter_offsets`) and `iterator_base::operator++`:
    `for (ii = rank-1; ii >= 0; ii--) { if (x[ii] can advance) { advance; break; } else x[ii] = 0; }`
    on lists that hold the last axis first. `succ ax x = none` means "does not fit: reset and carry". -/
def odoRev {α : Type} (succ : α → Int → Option Int) : List α → List Int → List Int
  | a :: as, x :: xs =>
    match succ a x with
    | some y => y :: xs
    | none => 0 :: odoRev succ as xs
  | _, _ => []

/-- `if (coordinates[ii] < fshape[ii] - 1) { coordinates[ii]++; break; } else coordinates[ii] = 0;` -/
def coordSucc (f : Nat) (c : Int) : Option Int :=
  if c < (f : Int) - 1 then some (c + 1) else none

/-- `if (position[ii] == orgn) { position[ii] += ashape[ii] - fshape[ii] + 1;
       if (position[ii] <= orgn) position[ii] = orgn + 1; } else position[ii]++;
     if (position[ii] < ashape[ii]) break; else position[ii] = 0;` -/
def posSucc (af : Nat × Nat) (p : Int) : Option Int :=
  let a : Int := af.1
  let f : Int := af.2
  let orgn : Int := f / 2
  let p1 := if p = orgn then
              (if p + (a - f + 1) ≤ orgn then orgn + 1 else p + (a - f + 1))
            else p + 1
  if p1 < a then some p1 else none

/-- `++position_[i]; if (position_[i] != dimensions_[i]) return; position_[i] = 0;` -/
def itSucc (n : Nat) (p : Int) : Option Int :=
  if p + 1 ≠ (n : Int) then some (p + 1) else none

/-! ## `init_filter_offsets` -/

/-- the axis loop for one footprint element:
    `cc = fix_offset(mode, coordinates[ii] - orgn + position[ii], ashape[ii]);`
    `if (cc == border_flag_value) { offset = border_flag_value; break; } else { cc -= position[ii]; … }` -/
def entry (m : Mode) : List Nat → List Nat → List Int → List Int → Entry
  | a :: as, f :: fs, c :: cs, p :: ps =>
    match fixOffset m (c - ((f : Int) / 2) + p) a with
    | none => none
    | some cc =>
      match entry m as fs cs ps with
      | none => none
      | some r => some ((cc - p) :: r)
  | _, _, _, _ => some []

/-- `offset += astrides[ii] * cc` summed over the axes: the element offset the code stores. -/
def elemOffset : List Int → List Int → Int
  | s :: ss, c :: cs => s * c + elemOffset ss cs
  | _, _ => 0

/-- `offsets_size *= (ashape[ii] < fshape[ii] ? ashape[ii] : fshape[ii])` -/
def offsetsSize : List Nat → List Nat → Nat
  | a :: as, f :: fs => (if a < f then a else f) * offsetsSize as fs
  | _, _ => 1

/-- `footprint_size`: number of set entries among the first `filter_size` of the footprint -/
def footprintSize (fshape : List Nat) (fp : Array Bool) : Nat :=
  ((List.range (shapeSize fshape)).filter fun kk => fp.getD kk false).length

/-- the loop `for (kk = …)` over the elements of the footprint for one region, `n` iterations
    left: the entries stored (in order) and the filter coordinates afterwards. -/
def kkLoop (m : Mode) (ashape fshape : List Nat) (fp : Array Bool) (positionRev : List Int) :
    Nat → Nat → List Int → List Entry × List Int
  | 0, _, coordsRev => ([], coordsRev)
  | n + 1, kk, coordsRev =>
    let rest := kkLoop m ashape fshape fp positionRev n (kk + 1) (odoRev coordSucc fshape.reverse coordsRev)
    if fp.getD kk false then
      (entry m ashape fshape coordsRev.reverse positionRev.reverse :: rest.1, rest.2)
    else rest

/-- the loop `for (ll = …)` over the regions, `n` iterations left: everything stored in `offsets`. -/
def llLoop (m : Mode) (ashape fshape : List Nat) (fp : Array Bool) :
    Nat → List Int → List Int → List Entry
  | 0, _, _ => []
  | n + 1, coordsRev, positionRev =>
    let r := kkLoop m ashape fshape fp positionRev (shapeSize fshape) 0 coordsRev
    r.1 ++ llLoop m ashape fshape fp n r.2 (odoRev posSucc (ashape.zip fshape).reverse positionRev)

/-- `init_filter_offsets`: the table (as a flat vector, like `offsets`) and the return value
    `footprint_size`. `fp[kk] = !!filter[kk]`; pass an all-true footprint for `compress = false`. -/
def initFilterOffsets (m : Mode) (ashape fshape : List Nat) (fp : Array Bool) : Array Entry × Nat :=
  ((llLoop m ashape fshape fp (offsetsSize ashape fshape)
      (fshape.map fun _ => 0) (ashape.map fun _ => 0)).toArray,
   footprintSize fshape fp)

/-! ## `init_filter_iterator` -/

/-- per axis: `strides_[d]`, `backstrides_[d]`, `minbound_[d]`, `maxbound_[d]` -/
structure AxisIt where
  stride : Int
  backstride : Int
  minbound : Int
  maxbound : Int
deriving Repr, DecidableEq

/-- the arrays as they are filled in axis order, before the four `std::reverse` calls:
    `strides[rank-1] = filter_size; strides[ii] = strides[ii+1] * step(ii+1)`,
    `backstrides[ii] = (step(ii) - 1) * strides[ii]`, `minbound[ii] = orgn`,
    `maxbound[ii] = ashape[ii] - fshape[ii] + orgn` with `step(ii) = min(ashape[ii], fshape[ii])`. -/
def initAxes (filterSize : Int) : List Nat → List Nat → List AxisIt
  | a :: as, f :: fs =>
    let rest := initAxes filterSize as fs
    let stride : Int :=
      match rest, as, fs with
      | r :: _, a1 :: _, f1 :: _ => r.stride * (if a1 < f1 then (a1 : Int) else (f1 : Int))
      | _, _, _ => filterSize
    let step : Int := if a < f then (a : Int) else (f : Int)
    let orgn : Int := (f : Int) / 2
    { stride := stride, backstride := (step - 1) * stride,
      minbound := orgn, maxbound := (a : Int) - (f : Int) + orgn } :: rest
  | _, _ => []

/-- `init_filter_iterator` (the result is stored reversed). -/
def initFilterIterator (fshape : List Nat) (filterSize : Nat) (ashape : List Nat) : List AxisIt :=
  (initAxes (filterSize : Int) ashape fshape).reverse

/-! ## `iterate_both`, `retrieve` -/

/-- the carry loop of `iterate_both` over the reversed axes; returns the new `cur_offsets_idx_`
    (as an index into `offsets_`). `posRev[d] = iterator.index_rev(d)`,
    `dimsRev[d] = iterator.dimension_rev(d)`. -/
def iterateBoth : List AxisIt → List Int → List Nat → Int → Int
  | it :: its, p :: ps, n :: ns, cur =>
    if p < (n : Int) - 1 then
      (if p < it.minbound ∨ p ≥ it.maxbound then cur + it.stride else cur)
    else iterateBoth its ps ns (cur - it.backstride)
  | _, _, _, cur => cur

structure State where
  /-- `iterator.position_` (last axis first) -/
  posRev : List Int
  /-- `cur_offsets_idx_ - offsets_.begin()` -/
  cur : Int
deriving Repr, DecidableEq

/-- a filter iterator: the table, its `size_`, and the four reversed arrays -/
structure FIter where
  offsets : Array Entry
  size : Nat
  its : List AxisIt

/-- the constructor of `filter_iterator` -/
def mkFIter (m : Mode) (ashape fshape : List Nat) (fp : Array Bool) : FIter :=
  let t := initFilterOffsets m ashape fshape fp
  { offsets := t.1, size := t.2, its := initFilterIterator fshape t.2 ashape }

def initState (ashape : List Nat) : State := { posRev := ashape.map fun _ => 0, cur := 0 }

/-- `fiter.iterate_both(iter)`: move the table pointer, then `++iter`. -/
def step (fi : FIter) (ashape : List Nat) (s : State) : State :=
  { posRev := odoRev itSucc ashape.reverse s.posRev,
    cur := iterateBoth fi.its s.posRev ashape.reverse s.cur }

/-- the state after `n` calls of `iterate_both` -/
def stateAfter (fi : FIter) (ashape : List Nat) : Nat → State
  | 0 => initState ashape
  | n + 1 => step fi ashape (stateAfter fi ashape n)

/-- `retrieve(iterator, j, ·)`: the table entry `cur_offsets_idx_[j]`
    (outer `none` = read past the end of `offsets_`, never happens by F6). -/
def retrieve (fi : FIter) (s : State) (j : Nat) : Option Entry :=
  fi.offsets[(s.cur + (j : Int)).toNat]?

/-! ## the closed form -/

/-- filter coordinates of the footprint elements in the order the (compressed) filter stores them -/
def footprintCoords (fshape : List Nat) (fp : Array Bool) : List (List Int) :=
  ((List.range (shapeSize fshape)).filter fun kk => fp.getD kk false).map (unravelI fshape)

/-- The closed form all property models use: at array position `p` the footprint element with filter
    coordinate `k` reads position `fix(mode, p_d + k_d - ⌊fshape_d/2⌋, ashape_d)` in every axis `d`
    (`fixPos`), flagged if any axis is flagged; returned as the coordinate offset from `p`. -/
def closedForm (m : Mode) (ashape fshape : List Nat) (p k : List Int) : Entry :=
  (fixPos m ashape (addPos p (subPos k (centreOf fshape)))).map fun q => subPos q p

/-! ## driver -/

def showEntry : Entry → String
  | none => "u"
  | some cs => if cs.isEmpty then "-" else ",".intercalate (cs.map toString)

def showEntries (es : List Entry) : String :=
  if es.isEmpty then "-" else "|".intercalate (es.map showEntry)

/-- what the table mechanism retrieves at the `n` positions visited first (C scan order) -/
def mechanismWalk (fi : FIter) (ashape : List Nat) (n : Nat) : List (List Entry) :=
  let rec go : Nat → State → List (List Entry)
    | 0, _ => []
    | k + 1, s =>
      ((List.range fi.size).map fun j => (retrieve fi s j).getD (some [2147483647])) ::
        go k (step fi ashape s)
  go n (initState ashape)

def closedWalk (m : Mode) (ashape fshape : List Nat) (fp : Array Bool) : List (List Entry) :=
  let ks := footprintCoords fshape fp
  (allPos ashape).map fun p => ks.map (closedForm m ashape fshape p)

end FilterIter

/-- op `f6`: `f6 ashape=… fshape=… fp=<0/1 per filter element, C order> mode=<code 0..5>`.
    Answers, for every array position in scan order (`;`), the coordinate offsets retrieved for every
    footprint element (`|`; `u` = flagged), from the table mechanism (`table=`) and from the closed
    form (`closed=`); `size=` is `filter_iterator::size()`, `tsize=` the length of `offsets_`. -/
def filterIterHandle (a : Args) : String :=
  let ashape := a.nats "ashape"
  let fshape := a.nats "fshape"
  let fp : Array Bool := ((a.ints "fp").map fun x => decide (x ≠ 0)).toArray
  match Mode.ofCode (a.nat "mode" 99) with
  | none => "error=bad-mode"
  | some m =>
    if ashape.length ≠ fshape.length then "error=rank-mismatch" else
    let fi := FilterIter.mkFIter m ashape fshape fp
    let tab := FilterIter.mechanismWalk fi ashape (shapeSize ashape)
    let cl := FilterIter.closedWalk m ashape fshape fp
    let sh := fun (w : List (List FilterIter.Entry)) =>
      if w.isEmpty then "-" else ";".intercalate (w.map FilterIter.showEntries)
    s!"size={fi.size} tsize={fi.offsets.size} table={sh tab} closed={sh cl} agree={if tab == cl then 1 else 0}"

end Mahotas
