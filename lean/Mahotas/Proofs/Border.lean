/-
F1–F5: the transliteration of `fix_offset` equals the mathematical border rules,
for every coordinate and every length ≥ 1.
-/
import Mahotas.Model.Border
namespace Mahotas

theorem mod_unique (cc len r k : Int) (h0 : 0 ≤ r) (h1 : r < len) (hk : cc = r + len * k) :
    cc % len = r := by
  subst hk
  rw [Int.add_mul_emod_self_left]
  exact Int.emod_eq_of_lt h0 h1

theorem tdiv_decomp (a b : Int) (ha : 0 ≤ a) (hb : 0 < b) :
    ∃ m, a = b * a.tdiv b + m ∧ 0 ≤ m ∧ m < b := by
  refine ⟨a.tmod b, ?_, Int.tmod_nonneg _ ha, Int.tmod_lt_of_pos _ hb⟩
  have := Int.mul_tdiv_add_tmod a b
  omega

/-- F1 -/
theorem fixOffset_nearest (cc len : Int) (h : 0 < len) :
    fixOffset .nearest cc len = some (clampSpec cc len) := by
  unfold fixOffset clampSpec; simp only; congr 1; omega

/-- F2 -/
theorem fixOffset_wrap (cc len : Int) (h : 0 < len) :
    fixOffset .wrap cc len = some (wrapSpec cc len) := by
  unfold fixOffset wrapSpec
  simp only
  by_cases hl : len ≤ 1
  · have : len = 1 := by omega
    subst this
    simp only [Int.emod_one]
    grind
  · by_cases h1 : cc < 0
    · simp only [h1, hl, if_true, if_false]
      obtain ⟨m, hm, hm0, hm1⟩ := tdiv_decomp (-cc) len (by omega) h
      generalize (-cc).tdiv len = q at hm ⊢
      congr 1
      symm
      split
      · exact mod_unique cc len _ (-(q+1)) (by omega) (by omega) (by rw [Int.mul_neg, Int.mul_add]; omega)
      · exact mod_unique cc len _ (-q) (by omega) (by omega) (by rw [Int.mul_neg]; omega)
    · by_cases h2 : cc ≥ len
      · simp only [h1, h2, hl, if_true, if_false]
        obtain ⟨m, hm, hm0, hm1⟩ := tdiv_decomp cc len (by omega) h
        generalize cc.tdiv len = q at hm ⊢
        congr 1; symm
        exact mod_unique cc len _ q (by omega) (by omega) (by omega)
      · simp only [h1, h2, if_false]
        congr 1; symm
        exact Int.emod_eq_of_lt (by omega) (by omega)

/-- the value of the reflect rule from a decomposition `cc = r + 2 len k`, `0 ≤ r < 2 len` -/
theorem reflectSpec_of_decomp (cc len r k : Int) (h0 : 0 ≤ r) (h1 : r < 2 * len)
    (hk : cc = r + (2 * len) * k) :
    reflectSpec cc len = if r < len then r else 2 * len - 1 - r := by
  unfold reflectSpec
  simp only
  rw [mod_unique cc (2 * len) r k h0 h1 hk]

/-- F4 (holds since the repair of `fix_offset`; before it the rule returned −1 at `cc = −k·2·len`, k ≥ 2) -/
theorem fixOffset_reflect (cc len : Int) (h : 0 < len) :
    fixOffset .reflect cc len = some (reflectSpec cc len) := by
  unfold fixOffset
  simp only
  by_cases hl : len ≤ 1
  · have hlen : len = 1 := by omega
    subst hlen
    have hs : reflectSpec cc 1 = 0 := by
      unfold reflectSpec; simp only; omega
    rw [hs]; grind
  · by_cases h1 : cc < 0
    · simp only [h1, hl, if_true, if_false]
      by_cases h3 : cc < -(2 * len)
      · simp only [h3, if_true]
        obtain ⟨m, hm, hm0, hm1⟩ := tdiv_decomp (-cc) (2 * len) (by omega) (by omega)
        generalize (-cc).tdiv (2 * len) = q at hm ⊢
        have e : 2 * len * q + cc = -m := by omega
        rw [e]
        by_cases hz : m = 0
        · subst hz
          simp only [Int.neg_zero, if_true]
          congr 1; symm
          rw [reflectSpec_of_decomp cc len 0 (-q) (by omega) (by omega) (by rw [Int.mul_neg]; omega)]
          simp [h]
        · have hz' : ¬ (-m = 0) := by omega
          simp only [hz', if_false]
          congr 1; symm
          rw [reflectSpec_of_decomp cc len (2 * len - m) (-(q+1)) (by omega) (by omega)
            (by rw [Int.mul_neg, Int.mul_add]; omega)]
          split <;> split <;> omega
      · simp only [h3, if_false]
        have hz' : ¬ (cc = 0) := by omega
        simp only [hz', if_false]
        congr 1; symm
        by_cases h4 : cc = -(2 * len)
        · rw [reflectSpec_of_decomp cc len 0 (-1) (by omega) (by omega) (by omega)]
          split <;> split <;> omega
        · rw [reflectSpec_of_decomp cc len (cc + 2 * len) (-1) (by omega) (by omega) (by omega)]
          split <;> split <;> omega
    · by_cases h2 : cc ≥ len
      · simp only [h1, h2, hl, if_true, if_false]
        obtain ⟨m, hm, hm0, hm1⟩ := tdiv_decomp cc (2 * len) (by omega) (by omega)
        generalize cc.tdiv (2 * len) = q at hm ⊢
        congr 1; symm
        rw [reflectSpec_of_decomp cc len m q hm0 hm1 (by omega)]
        have e : cc - 2 * len * q = m := by omega
        rw [e]
        split <;> split <;> omega
      · simp only [h1, h2, if_false]
        congr 1; symm
        rw [reflectSpec_of_decomp cc len cc 0 (by omega) (by omega) (by omega)]
        split <;> omega

theorem mirrorSpec_of_decomp (cc len r k : Int) (hl : ¬ len ≤ 1) (h0 : 0 ≤ r) (h1 : r < 2 * len - 2)
    (hk : cc = r + (2 * len - 2) * k) :
    mirrorSpec cc len = if r < len then r else 2 * len - 2 - r := by
  unfold mirrorSpec
  simp only [hl, if_false]
  rw [mod_unique cc (2 * len - 2) r k h0 h1 hk]

/-- F3 -/
theorem fixOffset_mirror (cc len : Int) (h : 0 < len) :
    fixOffset .mirror cc len = some (mirrorSpec cc len) := by
  unfold fixOffset
  simp only
  by_cases hl : len ≤ 1
  · have hs : mirrorSpec cc len = 0 := by unfold mirrorSpec; simp [hl]
    rw [hs]
    have hlen : len = 1 := by omega
    subst hlen
    grind
  · by_cases h1 : cc < 0
    · simp only [h1, hl, if_true, if_false]
      obtain ⟨m, hm, hm0, hm1⟩ := tdiv_decomp (-cc) (2 * len - 2) (by omega) (by omega)
      generalize (-cc).tdiv (2 * len - 2) = q at hm ⊢
      have e : (2 * len - 2) * q + cc = -m := by omega
      rw [e]
      congr 1; symm
      by_cases hz : m = 0
      · subst hz
        rw [mirrorSpec_of_decomp cc len 0 (-q) hl (by omega) (by omega) (by rw [Int.mul_neg]; omega)]
        split <;> split <;> omega
      · rw [mirrorSpec_of_decomp cc len (2 * len - 2 - m) (-(q+1)) hl (by omega) (by omega)
          (by rw [Int.mul_neg, Int.mul_add]; omega)]
        split <;> split <;> omega
    · by_cases h2 : cc ≥ len
      · simp only [h1, h2, hl, if_true, if_false]
        obtain ⟨m, hm, hm0, hm1⟩ := tdiv_decomp cc (2 * len - 2) (by omega) (by omega)
        generalize cc.tdiv (2 * len - 2) = q at hm ⊢
        congr 1; symm
        rw [mirrorSpec_of_decomp cc len m q hl hm0 hm1 (by omega)]
        have e : cc - (2 * len - 2) * q = m := by omega
        rw [e]
        split <;> split <;> omega
      · simp only [h1, h2, if_false]
        congr 1; symm
        rw [mirrorSpec_of_decomp cc len cc 0 hl (by omega) (by omega) (by omega)]
        split <;> omega

theorem fixOffset_constant (m : Mode) (hm : m = .constant ∨ m = .ignore) (cc len : Int) :
    fixOffset m cc len = borderSpec m cc len := by
  rcases hm with rfl | rfl <;> unfold fixOffset borderSpec <;> simp only <;> grind

/-- F1–F4 together: the code's border rule is the specified one in every mode. -/
theorem fixOffset_eq_spec (m : Mode) (cc len : Int) (h : 0 < len) :
    fixOffset m cc len = borderSpec m cc len := by
  cases m
  · exact fixOffset_nearest cc len h
  · exact fixOffset_wrap cc len h
  · exact fixOffset_reflect cc len h
  · exact fixOffset_mirror cc len h
  · exact fixOffset_constant _ (Or.inl rfl) cc len
  · exact fixOffset_constant _ (Or.inr rfl) cc len

theorem borderSpec_range (m : Mode) (cc len : Int) (h : 0 < len) :
    ∀ r, borderSpec m cc len = some r → 0 ≤ r ∧ r < len := by
  intro r hr
  cases m <;> simp only [borderSpec, clampSpec, wrapSpec, reflectSpec, mirrorSpec] at hr
  · cases hr; omega
  · cases hr; exact ⟨Int.emod_nonneg _ (by omega), Int.emod_lt_of_pos _ h⟩
  · have h0 := Int.emod_nonneg cc (show (2 * len) ≠ 0 by omega)
    have h1 := Int.emod_lt_of_pos cc (show 0 < 2 * len by omega)
    split at hr <;> cases hr <;> omega
  · by_cases hl : len ≤ 1
    · simp only [hl, if_true] at hr; cases hr; omega
    · simp only [hl, if_false] at hr
      have h0 := Int.emod_nonneg cc (show (2 * len - 2) ≠ 0 by omega)
      have h1 := Int.emod_lt_of_pos cc (show 0 < 2 * len - 2 by omega)
      split at hr <;> cases hr <;> omega
  · split at hr
    · cases hr; omega
    · cases hr
  · split at hr
    · cases hr; omega
    · cases hr

/-- F5: whatever `fix_offset` returns is the flag or a valid index. -/
theorem fixOffset_range (m : Mode) (cc len : Int) (h : 0 < len) :
    ∀ r, fixOffset m cc len = some r → 0 ≤ r ∧ r < len := by
  rw [fixOffset_eq_spec m cc len h]; exact borderSpec_range m cc len h

end Mahotas
