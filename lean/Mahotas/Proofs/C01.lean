/-
Helper lemmas for C01 (erode): the gather kernel equals the lattice definition.
-/
import Mahotas.Model.C01
import Mahotas.Proofs.DType
namespace Mahotas.C01
open Mahotas

theorem fixPos_nearest (shape : List Nat) (q : List Int)
    (hs : ∀ d ∈ shape, 0 < d) :
    fixPos .nearest shape q = some (clampPos shape q) := by
  induction shape generalizing q with
  | nil => cases q <;> simp [fixPos, clampPos]
  | cons d ds ih =>
    cases q with
    | nil => simp [fixPos, clampPos]
    | cons c cs =>
      have hd : (0 : Int) < d := by
        have := hs d (by simp); omega
      simp only [fixPos, clampPos]
      rw [fixOffset_nearest c d hd, ih cs (fun d hd => hs d (by simp [hd]))]

theorem readNearest_eq (A : Img Int) (q : List Int) (hs : ∀ d ∈ A.shape, 0 < d) :
    readNearest A q = A.getD (clampPos A.shape q) 0 := by
  unfold readNearest; rw [fixPos_nearest A.shape q hs]

theorem erode_fold (dt : DT) (A : Img Int) (p : List Int)
    (hs : ∀ d ∈ A.shape, 0 < d)
    (sup : List (List Int × Int))
    (hA : ∀ q, dt.InRange (A.getD q 0))
    (hmem : ∀ kh ∈ sup, ∀ a, dt.InRange a → isMember dt kh = true →
        erodeSub dt a kh.2 = (if dt.isBool then a else dt.clamp (a - kh.2)))
    (hnon : ∀ kh ∈ sup, ∀ a, dt.InRange a → isMember dt kh = false → erodeSub dt a kh.2 = dt.hi)
    (v : Int) (hv : v ≤ dt.hi) :
    sup.foldl (fun v kh => min v (erodeSub dt (readNearest A (addPos p kh.1)) kh.2)) v =
    (sup.filter (isMember dt)).foldl (fun v kh =>
      let a := A.getD (clampPos A.shape (addPos p kh.1)) 0
      min v (if dt.isBool then a else dt.clamp (a - kh.2))) v := by
  induction sup generalizing v with
  | nil => simp
  | cons kh t ih =>
    simp only [List.foldl_cons]
    have hr := readNearest_eq A (addPos p kh.1) hs
    have hin := hA (clampPos A.shape (addPos p kh.1))
    by_cases hm : isMember dt kh = true
    · rw [List.filter_cons_of_pos hm]
      simp only [List.foldl_cons]
      rw [hr, hmem kh (by simp) _ hin hm]
      exact ih (fun k hk => hmem k (by simp [hk])) (fun k hk => hnon k (by simp [hk])) _
        (by omega)
    · have hm' : isMember dt kh = false := by simpa using hm
      rw [List.filter_cons_of_neg hm]
      rw [hr, hnon kh (by simp) _ hin hm']
      have : min v dt.hi = v := by omega
      rw [this]
      exact ih (fun k hk => hmem k (by simp [hk])) (fun k hk => hnon k (by simp [hk])) v hv

end Mahotas.C01
