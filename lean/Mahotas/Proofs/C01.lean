/-
Helper lemmas for C01 (erode): the gather kernel equals the lattice definition.
-/
import Mahotas.Model.C01
import Mahotas.Proofs.DType
namespace Mahotas.C01
open Mahotas

theorem fixPos_nearest (shape : List Nat) (q : List Int)
    (hs : ∀ d ∈ shape, 0 < d) :
    fixPos .nearest shape q = some (clampPos shape q) := by
  induction shape generalizing q with
  | nil => cases q <;> simp [fixPos, clampPos]
  | cons d ds ih =>
    cases q with
    | nil => simp [fixPos, clampPos]
    | cons c cs =>
      have hd : (0 : Int) < d := by
        have := hs d (by simp); omega
      simp only [fixPos, clampPos]
      rw [fixOffset_nearest c d hd, ih cs (fun d hd => hs d (by simp [hd]))]

theorem readNearest_eq (A : Img Int) (q : List Int) (hs : ∀ d ∈ A.shape, 0 < d) :
    readNearest A q = A.getD (clampPos A.shape q) 0 := by
  unfold readNearest; rw [fixPos_nearest A.shape q hs]

theorem erode_fold (dt : DT) (A : Img Int) (p : List Int)
    (hs : ∀ d ∈ A.shape, 0 < d)
    (sup : List (List Int × Int))
    (hA : ∀ q, dt.InRange (A.getD q 0))
    (hmem : ∀ kh ∈ sup, ∀ a, dt.InRange a → isMember dt kh = true →
        erodeSub dt a kh.2 = (if dt.isBool then a else dt.clamp (a - kh.2)))
    (hnon : ∀ kh ∈ sup, ∀ a, dt.InRange a → isMember dt kh = false → erodeSub dt a kh.2 = dt.hi)
    (v : Int) (hv : v ≤ dt.hi) :
    sup.foldl (fun v kh => min v (erodeSub dt (readNearest A (addPos p kh.1)) kh.2)) v =
    (sup.filter (isMember dt)).foldl (fun v kh =>
      let a := A.getD (clampPos A.shape (addPos p kh.1)) 0
      min v (if dt.isBool then a else dt.clamp (a - kh.2))) v := by
  induction sup generalizing v with
  | nil => simp
  | cons kh t ih =>
    simp only [List.foldl_cons]
    have hr := readNearest_eq A (addPos p kh.1) hs
    have hin := hA (clampPos A.shape (addPos p kh.1))
    by_cases hm : isMember dt kh = true
    · rw [List.filter_cons_of_pos hm]
      simp only [List.foldl_cons]
      rw [hr, hmem kh (by simp) _ hin hm]
      exact ih (fun k hk => hmem k (by simp [hk])) (fun k hk => hnon k (by simp [hk])) _
        (by omega)
    · have hm' : isMember dt kh = false := by simpa using hm
      rw [List.filter_cons_of_neg hm]
      rw [hr, hnon kh (by simp) _ hin hm']
      have : min v dt.hi = v := by omega
      rw [this]
      exact ih (fun k hk => hmem k (by simp [hk])) (fun k hk => hnon k (by simp [hk])) v hv

/-! ### the early exit of the inner loop -/

theorem foldl_min_lo (dt : DT) (f : List Int × Int → Int) (sup : List (List Int × Int))
    (h : ∀ kh ∈ sup, dt.lo ≤ f kh) : sup.foldl (fun v kh => min v (f kh)) dt.lo = dt.lo := by
  induction sup with
  | nil => rfl
  | cons kh t ih =>
    simp only [List.foldl_cons]
    have := h kh (by simp)
    rw [Int.min_eq_left this]
    exact ih (fun k hk => h k (by simp [hk]))

theorem erodeAtExit_go (dt : DT) (A : Img Int) (p : List Int) (sup : List (List Int × Int))
    (h : ∀ kh ∈ sup, dt.lo ≤ erodeSub dt (readNearest A (addPos p kh.1)) kh.2) (v : Int) :
    erodeAtExit.go dt A p sup v =
      sup.foldl (fun v kh => min v (erodeSub dt (readNearest A (addPos p kh.1)) kh.2)) v := by
  induction sup generalizing v with
  | nil => rfl
  | cons kh t ih =>
    simp only [erodeAtExit.go, List.foldl_cons]
    have ht : ∀ k ∈ t, dt.lo ≤ erodeSub dt (readNearest A (addPos p k.1)) k.2 :=
      fun k hk => h k (by simp [hk])
    split
    · next he =>
      rw [he]
      exact (foldl_min_lo dt (fun kh => erodeSub dt (readNearest A (addPos p kh.1)) kh.2) t ht).symm
    · exact ih ht _


theorem erodeSub_ge_lo (dt : DT) (hdt : dt.WF ∨ dt = dtBool) (a b : Int) (ha : dt.InRange a)
    (hb : dt.InRange b) (hb0 : 0 ≤ b ∨ b = dt.lo) : dt.lo ≤ erodeSub dt a b := by
  rcases hdt with wf | rfl
  · by_cases he : b = dt.lo
    · unfold erodeSub
      simp only [wf.notBool, Bool.false_eq_true, if_false, he, if_true]
      have := wf.hi_pos; rcases wf.lo_cases with h | h <;> omega
    · have h0 : 0 ≤ b := by rcases hb0 with h | h; exact h; exact absurd h he
      rw [erodeSub_spec dt wf a b ha hb h0]
      simp only [he, if_false]
      unfold DT.clamp; omega
  · unfold erodeSub
    simp only [dtBool, if_true]
    split <;> decide

theorem erodeAtExit_eq (dt : DT) (hdt : dt.WF ∨ dt = dtBool) (A : Img Int) (sup : List (List Int × Int))
    (p : List Int) (hs : ∀ d ∈ A.shape, 0 < d) (hA : ∀ q, dt.InRange (A.getD q 0))
    (hB : ∀ kh ∈ sup, dt.InRange kh.2 ∧ (0 ≤ kh.2 ∨ kh.2 = dt.lo)) :
    erodeAtExit dt A sup p = erodeAt dt A sup p := by
  unfold erodeAtExit erodeAt
  apply erodeAtExit_go
  intro kh hkh
  apply erodeSub_ge_lo dt hdt _ _ _ (hB kh hkh).1 (hB kh hkh).2
  rw [readNearest_eq A _ hs]
  exact hA _

end Mahotas.C01
