/-
Helper lemmas for C01, round 3: the Python dispatch (`get_structuring_elem`) and the C++ dispatch
(`py_erode`/`py_dilate`: fast binary path or generic kernel).
-/
import Mahotas.Proofs.C01Loops
import Mahotas.Proofs.C01Tables
namespace Mahotas.C01
open Mahotas

/-! ### the cross loop of `get_structuring_elem` -/

/-- a loop that sets cell `i` of a zero array to 1 when `p i` holds tabulates the indicator of `p` -/
theorem fold_set_indicator (n : Nat) (p : Nat → Prop) [DecidablePred p] (m : Nat) (hm : m ≤ n) :
    let a := (List.range m).foldl (fun (bc : Array Int) i => if p i then bc.setIfInBounds i 1 else bc)
      (Array.replicate n 0)
    a.size = n ∧ ∀ j, j < n → a[j]? = some (if j < m ∧ p j then 1 else 0) := by
  induction m with
  | zero =>
    simp only [List.range_zero, List.foldl_nil]
    refine ⟨by simp, fun j hj => ?_⟩
    simp [hj]
  | succ m ih =>
    obtain ⟨hs, hv⟩ := ih (by omega)
    simp only [List.range_succ, List.foldl_append, List.foldl_cons, List.foldl_nil]
    generalize (List.range m).foldl (fun (bc : Array Int) i => if p i then bc.setIfInBounds i 1 else bc)
      (Array.replicate n 0) = a at hs hv
    by_cases hp : p m
    · simp only [hp, if_true]
      refine ⟨by simp [hs], fun j hj => ?_⟩
      rw [Array.getElem?_setIfInBounds]
      by_cases hjm : m = j
      · subst hjm; simp [hp, hs, hj]
      · simp only [hjm, if_false]
        rw [hv j hj]
        congr 1
        by_cases hpj : p j
        · have : (j < m ↔ j < m + 1) := by omega
          simp [hpj, this]
        · simp [hpj]
    · simp only [hp, if_false]
      refine ⟨hs, fun j hj => ?_⟩
      rw [hv j hj]
      congr 1
      by_cases hjm : j = m
      · subst hjm; simp [hp]
      · have : (j < m ↔ j < m + 1) := by omega
        simp [this]

theorem fold_set_eq_map (n : Nat) (p : Nat → Prop) [DecidablePred p] :
    (List.range n).foldl (fun (bc : Array Int) i => if p i then bc.setIfInBounds i 1 else bc)
      (Array.replicate n 0) = ((List.range n).map fun i => if p i then (1 : Int) else 0).toArray := by
  obtain ⟨hs, hv⟩ := fold_set_indicator n p n (Nat.le_refl _)
  apply Array.ext_getElem?
  intro j
  by_cases hj : j < n
  · rw [hv j hj]
    simp [hj]
  · rw [Array.getElem?_eq_none (by omega), Array.getElem?_eq_none (by simp; omega)]

/-- the loop of `get_structuring_elem` builds the ℓ1 ball `crossElem` -/
theorem crossLoop_eq (d : Nat) (r : Int) : crossLoop d r = crossElem d r := by
  unfold crossLoop crossElem allPos
  simp only [List.map_map]
  exact fold_set_eq_map _ _

/-! ### `translate_sizes`, and the element an integer argument stands for -/

/-- the table lookup, spelled out (the table is regenerated from `morph.py` on every run) -/
theorem translateLookup_eq (d : Nat) (v : Int) :
    translateLookup d v =
      if d = 2 ∧ v = 4 then some 1 else if d = 2 ∧ v = 8 then some 2
      else if d = 3 ∧ v = 6 then some 1 else none := by
  unfold translateLookup Generated.translateSizes
  simp only [List.find?]
  by_cases h2 : d = 2
  · subst h2
    by_cases h4 : v = 4
    · subst h4; rfl
    · by_cases h8 : v = 8
      · subst h8; rfl
      · have e4 : ((4 : Int) == v) = false := by simpa using fun h => h4 h.symm
        have e8 : ((8 : Int) == v) = false := by simpa using fun h => h8 h.symm
        simp [e4, e8, h4, h8]
  · by_cases h3 : d = 3
    · subst h3
      by_cases h6 : v = 6
      · subst h6; rfl
      · have e6 : ((6 : Int) == v) = false := by simpa using fun h => h6 h.symm
        simp [e6, h6]
    · have e2 : ((2 : Nat) == d) = false := by simpa using fun h => h2 h.symm
      have e3 : ((3 : Nat) == d) = false := by simpa using fun h => h3 h.symm
      simp [e2, e3, h2, h3]

/-- the radius an integer argument `v` stands for on arrays of rank `d`: the translated connectivity count
    if `(d, v)` is a key of `translate_sizes`, otherwise `v` itself -/
def seRadius (d : Nat) (v : Int) : Int :=
  match translateLookup d v with
  | some r => (r : Int)
  | none => v

theorem crossOfInt_eq (d : Nat) (r : Int) : crossOfInt d r = (List.replicate d 3, crossElem d r) := by
  unfold crossOfInt
  split
  · next h =>
    simp only [Bool.and_eq_true, beq_iff_eq] at h
    obtain ⟨rfl, rfl⟩ := h
    decide +kernel
  · rw [crossLoop_eq]

theorem getSE_none (dt : DT) (d : Nat) :
    getStructuringElem dt d .none = .ok (List.replicate d 3, crossElem d 1) := by
  simp only [getStructuringElem, crossOfInt_eq]

theorem getSE_int (dt : DT) (d : Nat) (v : Int) :
    getStructuringElem dt d (.int v) = .ok (List.replicate d 3, crossElem d (seRadius d v)) := by
  cases h : translateLookup d v <;> simp only [getStructuringElem, seRadius, h, crossOfInt_eq]

/-! ### the cast to the dtype of the image -/

theorem castTo_bool01 (x : Int) : castTo dtBool x = 0 ∨ castTo dtBool x = 1 := by
  unfold castTo
  by_cases h : x = 0 <;> simp [dtBool, h]

theorem castTo_id (dt : DT) (hdt : dt.WF ∨ dt = dtBool) (x : Int) (hx : dt.InRange x) : castTo dt x = x := by
  unfold castTo
  rcases hdt with wf | rfl
  · simp only [wf.notBool, Bool.false_eq_true, if_false]
    exact DT.wrap_in dt x hx
  · simp only [DT.InRange, dtBool] at hx
    have : x = 0 ∨ x = 1 := by omega
    rcases this with rfl | rfl <;> simp [dtBool]

theorem map_castTo_id (dt : DT) (hdt : dt.WF ∨ dt = dtBool) (bc : Array Int)
    (h : ∀ x ∈ bc.toList, dt.InRange x) : bc.map (castTo dt) = bc := by
  have : bc.map (castTo dt) = bc.map id := by
    apply Array.map_congr_left
    intro x hx
    exact castTo_id dt hdt x (h x (by simpa using hx))
  rw [this, Array.map_id]

theorem getD_map_castTo (dt : DT) (bc : Array Int) (i : Nat) (h0 : castTo dt 0 = 0) :
    (bc.map (castTo dt)).getD i 0 = castTo dt (bc.getD i 0) := by
  rw [Array.getD_eq_getD_getElem?, Array.getD_eq_getD_getElem?, Array.getElem?_map]
  cases bc[i]? with
  | none => simp [h0]
  | some x => rfl

/-! ### arrays from their cells -/

theorem array_eq_of_cells (a b : Array Int) (n : Nat) (ha : a.size = n) (hb : b.size = n)
    (h : ∀ i, i < n → a.getD i 0 = b.getD i 0) : a = b := by
  apply Array.ext
  · rw [ha, hb]
  · intro i h1 h2
    have := h i (by omega)
    rw [getD_eq_getElem _ i h1, getD_eq_getElem _ i h2] at this
    exact this

theorem applyWrites_size (ws : List (Nat × Int)) (o : Array Int) : (applyWrites ws o).size = o.size := by
  induction ws generalizing o with
  | nil => rfl
  | cons w t ih =>
    simp only [applyWrites, List.foldl_cons] at ih ⊢
    rw [ih, andInto_size]

/-- the erosion row loops never change the number of cells (empty images included) -/
theorem fastErodeLoops_size (Ny Nx : Nat) (data : Array Int) (bshape : List Nat) (bc : Array Int)
    (hdata : data.size = shapeSize [Ny, Nx]) :
    (fastErodeLoops ⟨[Ny, Nx], data⟩ bshape bc).size = shapeSize [Ny, Nx] := by
  rw [fastErodeLoops_eq_writes, applyWrites_size]
  split
  · exact hdata
  · simp

theorem erodeModel_size (dt : DT) (A : Img Int) (sup : List (List Int × Int)) :
    (erodeModel dt A sup).size = A.size := by
  simp [erodeModel, allPos, Img.size]

theorem erodeModel_getD (dt : DT) (A : Img Int) (sup : List (List Int × Int)) (i : Nat) (hi : i < A.size) :
    (erodeModel dt A sup).getD i 0 = erodeAtExit dt A sup (unravelI A.shape i) := by
  unfold erodeModel
  exact tab_getD A.shape _ i hi

/-- the flags never matter unless the image is a 2-D boolean one -/
theorem pathOf_generic (dt : DT) (d : Nat) (fl : ArrFlags) (h : dt.isBool = false ∨ d ≠ 2) :
    pathOf dt d fl = .generic := by
  unfold pathOf
  rcases h with h | h
  · simp [h]
  · simp [h]

theorem pathOf_fast (dt : DT) (d : Nat) (fl : ArrFlags) (h : pathOf dt d fl = .fast) :
    dt.isBool = true ∧ d = 2 ∧ fl.isCArray = true := by
  unfold pathOf at h
  split at h
  · next hc => simpa [Bool.and_eq_true, and_assoc] using hc
  · cases h

theorem isBool_eq (dt : DT) (hdt : dt.WF ∨ dt = dtBool) (h : dt.isBool = true) : dt = dtBool := by
  rcases hdt with wf | rfl
  · rw [wf.notBool] at h; cases h
  · rfl

/-- every non-zero entry inside the element box is in the support -/
theorem mem_support_of (S : List Nat) (bc : Array Int) (c : Bool) (i : Nat) (hi : i < shapeSize S)
    (h : bc.getD i 0 ≠ 0) :
    (subPos (unravelI S i) (centreOf S), bc.getD i 0) ∈ support S bc c := by
  unfold support
  simp only [List.mem_filterMap, List.mem_range]
  refine ⟨i, hi, ?_⟩
  have hb : (bc.getD i 0 == 0) = false := by simpa using h
  simp only [hb, Bool.and_false]
  rfl

theorem crossElem_size (d : Nat) (r : Int) : (crossElem d r).size = shapeSize (List.replicate d 3) := by
  simp [crossElem, allPos]

theorem crossElem_01 (d : Nat) (r : Int) (i : Nat) :
    (crossElem d r).getD i 0 = 0 ∨ (crossElem d r).getD i 0 = 1 := by
  by_cases hi : i < shapeSize (List.replicate d 3)
  · rw [crossElem_eq]; exact ballElem_entries _ 1 _ i hi
  · left
    rw [Array.getD_eq_getD_getElem?, Array.getElem?_eq_none (by rw [crossElem_size]; omega)]; rfl

end Mahotas.C01
