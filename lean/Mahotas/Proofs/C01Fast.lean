/-
Helper lemmas for C01: the 2-D boolean fast path (`fast_binary_dilate_erode_2d`).
* the positions read/written through the fast path's offset list (centre handled separately, `dx`
  clamped to `±Nx`) are those of the compressed support of the generic kernel;
* erosion branch = lattice definition; dilation branch (scatter with clamp) = generic scatter kernel.
-/
import Mahotas.Proofs.C01Scatter
namespace Mahotas.C01
open Mahotas

theorem mem_support2 (By Bx : Nat) (bc : Array Int) (kh : List Int × Int) :
    kh ∈ support [By, Bx] bc true ↔
      ∃ i, i < By * Bx ∧ bc.getD i 0 ≠ 0 ∧
        kh = ([((i / Bx : Nat) : Int) - ((By / 2 : Nat) : Int), ((i % Bx : Nat) : Int) - ((Bx / 2 : Nat) : Int)], bc.getD i 0) := by
  unfold support
  simp only [List.mem_filterMap, List.mem_range, shapeSize, Nat.mul_one, Bool.true_and, centreOf, List.map_cons, List.map_nil,
    unravelI, unravel, subPos, Nat.div_one, Int.ofNat_eq_natCast]
  constructor
  · rintro ⟨i, hi, h⟩
    refine ⟨i, hi, ?_⟩
    split at h
    · cases h
    · next hne => cases h; exact ⟨by simpa using hne, rfl⟩
  · rintro ⟨i, hi, hne, rfl⟩
    refine ⟨i, hi, ?_⟩
    have hb : (bc.getD i 0 == 0) = false := by simpa using hne
    rw [hb]; rfl

theorem mem_fastPositions (Nx : Int) (By Bx : Nat) (bc : Array Int) (d : Int × Int) :
    d ∈ fastPositions Nx [By, Bx] bc true ↔
      ∃ i, i < By * Bx ∧ bc.getD i 0 ≠ 0 ∧
        ¬ (((i / Bx : Nat) : Int) - ((By / 2 : Nat) : Int) = 0 ∧ ((i % Bx : Nat) : Int) - ((Bx / 2 : Nat) : Int) = 0) ∧
        d = (((i / Bx : Nat) : Int) - ((By / 2 : Nat) : Int),
             (let dx := ((i % Bx : Nat) : Int) - ((Bx / 2 : Nat) : Int)
              if dx > Nx then Nx else if dx < -Nx then -Nx else dx)) := by
  unfold fastPositions
  simp only [List.mem_filterMap, List.mem_range, if_true]
  constructor
  · rintro ⟨i, hi, h⟩
    refine ⟨i, hi, ?_⟩
    split at h
    · cases h
    · next hne =>
      split at h
      · cases h
      · next hc => cases h; exact ⟨by simpa using hne, by simpa using hc, rfl⟩
  · rintro ⟨i, hi, hne, hc, rfl⟩
    refine ⟨i, hi, ?_⟩
    have : ¬ ((bc.getD i 0 == 0) = true) := by simpa using hne
    simp only [this]
    have : ¬ (((((i / Bx : Nat) : Int) - ((By / 2 : Nat) : Int) == 0) && (((i % Bx : Nat) : Int) - ((Bx / 2 : Nat) : Int) == 0)) = true) := by
      simpa using hc
    simp only [this, Bool.false_eq_true, if_false]

theorem centre_index (By Bx i : Nat) (h1 : i / Bx = By / 2) (h2 : i % Bx = Bx / 2) :
    i = By / 2 * Bx + Bx / 2 := by
  have := Nat.div_add_mod' i Bx
  rw [h1, h2] at this; exact this.symm

theorem centre_index_div (By Bx : Nat) (h : By / 2 * Bx + Bx / 2 < By * Bx) :
    (By / 2 * Bx + Bx / 2) / Bx = By / 2 ∧ (By / 2 * Bx + Bx / 2) % Bx = Bx / 2 := by
  have hB : 0 < Bx := by
    rcases Nat.eq_zero_or_pos Bx with h0 | h0
    · subst h0; simp at h
    · exact h0
  have h2 : Bx / 2 < Bx := by omega
  constructor
  · rw [Nat.mul_comm, Nat.mul_add_div hB, Nat.div_eq_of_lt h2, Nat.add_zero]
  · rw [Nat.mul_comm, Nat.mul_add_mod, Nat.mod_eq_of_lt h2]

theorem getD_ne_lt (bc : Array Int) (i : Nat) (h : bc.getD i 0 ≠ 0) : i < bc.size := by
  rw [Array.getD_eq_getD_getElem?] at h
  rcases Nat.lt_or_ge i bc.size with h1 | h1
  · exact h1
  · rw [Array.getElem?_eq_none h1] at h; simp at h

theorem centreSet_iff (By Bx : Nat) (bc : Array Int) :
    centreSet [By, Bx] bc = true ↔ bc.getD (By / 2 * Bx + Bx / 2) 0 ≠ 0 := by
  simp [centreSet]

theorem clamp_dx (Nx x dx : Int) (hx : 0 ≤ x ∧ x < Nx) :
    clampSpec (x + (if dx > Nx then Nx else if dx < -Nx then -Nx else dx)) Nx = clampSpec (x + dx) Nx := by
  unfold clampSpec
  split
  · omega
  · split <;> omega

/-- the positions read through the compressed support are the centre (if set) and the positions read
    through the fast path's offset list -/
theorem fast_targets (Ny Nx By Bx : Nat) (bc : Array Int) (hbc : bc.size = By * Bx) (y x : Int)
    (hy : 0 ≤ y ∧ y < Ny) (hx : 0 ≤ x ∧ x < Nx) (t : List Int) :
    (∃ kh ∈ support [By, Bx] bc true, clampPos [Ny, Nx] (addPos [y, x] kh.1) = t) ↔
    ((centreSet [By, Bx] bc = true ∧ t = [y, x]) ∨
      ∃ d ∈ fastPositions Nx [By, Bx] bc true, clampPos [Ny, Nx] [y + d.1, x + d.2] = t) := by
  constructor
  · rintro ⟨kh, hkh, rfl⟩
    rw [mem_support2] at hkh
    obtain ⟨i, hi, hne, rfl⟩ := hkh
    by_cases hc : ((i / Bx : Nat) : Int) - ((By / 2 : Nat) : Int) = 0 ∧ ((i % Bx : Nat) : Int) - ((Bx / 2 : Nat) : Int) = 0
    · left
      have e := centre_index By Bx i (by omega) (by omega)
      refine ⟨?_, ?_⟩
      · rw [centreSet_iff, ← e]; exact hne
      · simp only [addPos, clampPos, clampSpec, hc.1, hc.2]
        simp only [List.cons.injEq, and_true]
        omega
    · right
      refine ⟨_, (mem_fastPositions Nx By Bx bc _).mpr ⟨i, hi, hne, hc, rfl⟩, ?_⟩
      simp only [addPos, clampPos, List.cons.injEq, and_true, true_and]
      exact clamp_dx Nx x _ hx
  · rintro (⟨hc, rfl⟩ | ⟨d, hd, rfl⟩)
    · rw [centreSet_iff] at hc
      have hlt := getD_ne_lt bc _ hc
      rw [hbc] at hlt
      obtain ⟨e1, e2⟩ := centre_index_div By Bx hlt
      refine ⟨_, (mem_support2 By Bx bc _).mpr ⟨_, hlt, hc, rfl⟩, ?_⟩
      simp only [addPos, clampPos, clampSpec, e1, e2, List.cons.injEq, and_true]
      omega
    · rw [mem_fastPositions] at hd
      obtain ⟨i, hi, hne, hc, rfl⟩ := hd
      refine ⟨_, (mem_support2 By Bx bc _).mpr ⟨i, hi, hne, rfl⟩, ?_⟩
      simp only [addPos, clampPos, List.cons.injEq, and_true, true_and]
      exact (clamp_dx Nx x _ hx).symm

theorem foldl_and {α : Type} (g : α → Bool) (l : List α) (init : Bool) :
    l.foldl (fun v d => v && g d) init = (init && l.all g) := by
  induction l generalizing init with
  | nil => simp
  | cons a t ih => simp only [List.foldl_cons, ih, List.all_cons, Bool.and_assoc]

theorem foldl_min01 {α : Type} (f : α → Int) (l : List α) (h : ∀ x ∈ l, f x = 0 ∨ f x = 1)
    (v : Int) (hv : v = 0 ∨ v = 1) :
    l.foldl (fun v x => min v (f x)) v = if (v != 0 && l.all (fun x => f x != 0)) = true then 1 else 0 := by
  induction l generalizing v with
  | nil => rcases hv with rfl | rfl <;> simp
  | cons a t ih =>
    simp only [List.foldl_cons]
    have ha := h a (by simp)
    rw [ih (fun x hx => h x (by simp [hx])) (min v (f a)) (by omega)]
    rcases hv with rfl | rfl <;> rcases ha with ha | ha <;> simp [ha, Int.min_def]

theorem mem_support2_ne (By Bx : Nat) (bc : Array Int) (kh : List Int × Int)
    (h : kh ∈ support [By, Bx] bc true) : isMember dtBool kh = true := by
  rw [mem_support2] at h
  obtain ⟨i, _, hne, rfl⟩ := h
  simp only [isMember, dtBool, if_true]
  exact decide_eq_true hne

theorem fastErodeAt_eq_spec (Ny Nx : Nat) (data : Array Int) (By Bx : Nat) (bc : Array Int) (y x : Int)
    (hA : ∀ q, (Img.mk [Ny, Nx] data).getD q 0 = 0 ∨ (Img.mk [Ny, Nx] data).getD q 0 = 1)
    (hbc : bc.size = By * Bx) (hy : 0 ≤ y ∧ y < Ny) (hx : 0 ≤ x ∧ x < Nx) :
    fastErodeAt ⟨[Ny, Nx], data⟩ [By, Bx] bc [y, x] =
      erodeSpecAt dtBool ⟨[Ny, Nx], data⟩ (support [By, Bx] bc true) [y, x] := by
  simp only [fastErodeAt, erodeSpecAt]
  rw [foldl_and]
  have hspec := foldl_min01
    (fun kh : List Int × Int => (Img.mk [Ny, Nx] data).getD (clampPos [Ny, Nx] (addPos [y, x] kh.1)) 0)
    ((support [By, Bx] bc true).filter (isMember dtBool)) (fun kh _ => hA _) 1 (Or.inr rfl)
  simp only [dtBool, if_true] at hspec ⊢
  rw [hspec]
  have ft := fast_targets Ny Nx By Bx bc hbc y x hy hx
  have key : ((if centreSet [By, Bx] bc = true then (Img.mk [Ny, Nx] data).getD [y, x] 0 != 0 else true) &&
      (fastPositions Nx [By, Bx] bc true).all fun d =>
        (Img.mk [Ny, Nx] data).getD (clampPos [Ny, Nx] [y + d.1, x + d.2]) 0 != 0) =
      ((1 : Int) != 0 && ((support [By, Bx] bc true).filter (isMember ⟨0, 1, true⟩)).all fun kh =>
        (Img.mk [Ny, Nx] data).getD (clampPos [Ny, Nx] (addPos [y, x] kh.1)) 0 != 0) := by
    rw [Bool.eq_iff_iff]
    simp only [Bool.and_eq_true, List.all_eq_true, bne_iff_ne, ne_eq, List.mem_filter, and_imp]
    constructor
    · rintro ⟨hinit, hpos⟩
      refine ⟨by decide, ?_⟩
      intro kh hkh _
      rcases (ft _).mp ⟨kh, hkh, rfl⟩ with ⟨hc, e⟩ | ⟨d, hd, e⟩
      · rw [e]; simpa [hc] using hinit
      · rw [← e]; exact hpos d hd
    · rintro ⟨_, hsup⟩
      constructor
      · by_cases hc : centreSet [By, Bx] bc = true
        · obtain ⟨kh, hkh, e⟩ := (ft [y, x]).mpr (Or.inl ⟨hc, rfl⟩)
          have := hsup kh hkh (mem_support2_ne By Bx bc kh hkh)
          rw [e] at this
          simpa [hc] using this
        · simp [hc]
      · intro d hd
        obtain ⟨kh, hkh, e⟩ := (ft _).mpr (Or.inr ⟨d, hd, rfl⟩)
        have := hsup kh hkh (mem_support2_ne By Bx bc kh hkh)
        rw [e] at this; exact this
  rw [key]
  rfl

/-! ### fast dilation -/

theorem set1_getD (out : Array Int) (j i : Nat) (hi : i < out.size) :
    (out.setIfInBounds j 1).getD i 0 = if j = i then 1 else out.getD i 0 := by
  rw [Array.getD_eq_getD_getElem?, Array.getD_eq_getD_getElem?, Array.getElem?_setIfInBounds]
  by_cases h : j = i
  · subst h; simp [hi]
  · simp [h]

theorem fold_set1 (js : List Nat) (out : Array Int) (i : Nat) (hi : i < out.size) :
    (js.foldl (fun out j => out.setIfInBounds j 1) out).size = out.size ∧
    (js.foldl (fun out j => out.setIfInBounds j 1) out).getD i 0 =
      if i ∈ js then 1 else out.getD i 0 := by
  induction js generalizing out with
  | nil => simp
  | cons j t ih =>
    simp only [List.foldl_cons]
    obtain ⟨h1, h2⟩ := ih (out.setIfInBounds j 1) (by simpa using hi)
    refine ⟨by simpa using h1, ?_⟩
    rw [h2, set1_getD out j i hi]
    simp only [List.mem_cons]
    by_cases hc : i ∈ t
    · simp only [hc, or_true, if_true]
    · by_cases hj : j = i
      · subst hj; simp only [hc, or_false, if_true, if_false]
      · have : ¬ i = j := fun h => hj h.symm
        simp only [hc, hj, this, or_false, if_false]

theorem fold_set1_outer {α : Type} (c : α → Bool) (tg : α → List Nat) (ps : List α) (out : Array Int)
    (i : Nat) (hi : i < out.size) :
    let r := ps.foldl (fun out p => if c p = true then out else (tg p).foldl (fun out j => out.setIfInBounds j 1) out) out
    r.size = out.size ∧
    r.getD i 0 = if (∃ p ∈ ps, c p = false ∧ i ∈ tg p) then 1 else out.getD i 0 := by
  induction ps generalizing out with
  | nil => simp
  | cons p t ih =>
    simp only [List.foldl_cons]
    by_cases hc : c p = true
    · simp only [hc, if_true]
      obtain ⟨h3, h4⟩ := ih out hi
      refine ⟨h3, ?_⟩
      rw [h4]
      have : (∃ q ∈ p :: t, c q = false ∧ i ∈ tg q) ↔ (∃ q ∈ t, c q = false ∧ i ∈ tg q) := by
        simp [hc]
      simp only [this]
    · have hc' : c p = false := by simpa using hc
      simp only [hc', Bool.false_eq_true, if_false]
      obtain ⟨h1, h2⟩ := fold_set1 (tg p) out i hi
      obtain ⟨h3, h4⟩ := ih ((tg p).foldl (fun out j => out.setIfInBounds j 1) out) (by omega)
      refine ⟨by omega, ?_⟩
      rw [h4, h2]
      by_cases ha : ∃ q ∈ t, c q = false ∧ i ∈ tg q
      · have : ∃ q ∈ p :: t, c q = false ∧ i ∈ tg q := by
          obtain ⟨q, hq, h⟩ := ha; exact ⟨q, List.mem_cons_of_mem _ hq, h⟩
        simp only [ha, this, if_true]
      · by_cases hb : i ∈ tg p
        · have : ∃ q ∈ p :: t, c q = false ∧ i ∈ tg q := ⟨p, by simp, hc', hb⟩
          simp only [ha, hb, this, if_true, if_false]
        · have : ¬ ∃ q ∈ p :: t, c q = false ∧ i ∈ tg q := by
            rintro ⟨q, hq, h⟩
            rcases List.mem_cons.mp hq with rfl | hq
            · exact hb h.2
            · exact ha ⟨q, hq, h⟩
          simp only [ha, hb, this, if_false]

theorem inside2 (Ny Nx : Nat) (p : List Int) (h : inside [Ny, Nx] p = true) :
    ∃ y x, p = [y, x] ∧ (0 ≤ y ∧ y < Ny) ∧ (0 ≤ x ∧ x < Nx) := by
  match p, h with
  | [y, x], h =>
    simp only [inside, Bool.and_eq_true, decide_eq_true_eq, and_true] at h
    exact ⟨y, x, rfl, h.1, h.2⟩
  | [], h => simp [inside] at h
  | [_], h => simp [inside] at h
  | _ :: _ :: _ :: _, h => simp [inside] at h

/-- flat targets of the fast dilation branch from pixel `p` -/
def fastTg (shape : List Nat) (pos : List (Int × Int)) (p : List Int) : List Nat :=
  match p with
  | [y, x] => pos.map fun d => ravelI shape (clampPos shape [y + d.1, x + d.2])
  | _ => []

theorem fastDilate_unfold (Ny Nx : Nat) (data : Array Int) (bshape : List Nat) (bc : Array Int) :
    fastDilate ⟨[Ny, Nx], data⟩ bshape bc =
      (allPos [Ny, Nx]).foldl (fun out p =>
        if ((Img.mk [Ny, Nx] data).getD p 0 == 0) = true then out
        else (fastTg [Ny, Nx] (fastPositions Nx bshape bc true) p).foldl (fun out j => out.setIfInBounds j 1) out)
      (if centreSet bshape bc = true then data else Array.replicate (shapeSize [Ny, Nx]) 0) := by
  simp only [fastDilate, Img.size]
  congr 1
  funext out p
  split
  · rfl
  · unfold fastTg
    match p with
    | [y, x] => simp only [List.foldl_map]
    | [] => rfl
    | [_] => rfl
    | _ :: _ :: _ :: _ => rfl

/-- a cell of the fast dilation branch (pointwise form): 1 if some non-zero pixel scatters onto it through
    an offset of the list, else the initial value (copy of the input, or 0) -/
theorem fastDilate_getD (Ny Nx : Nat) (data : Array Int) (bshape : List Nat) (bc : Array Int)
    (hdata : data.size = shapeSize [Ny, Nx]) (i : Nat) (hi : i < shapeSize [Ny, Nx]) :
    (fastDilate ⟨[Ny, Nx], data⟩ bshape bc).size = shapeSize [Ny, Nx] ∧
    (fastDilate ⟨[Ny, Nx], data⟩ bshape bc).getD i 0 =
      if (∃ p ∈ allPos [Ny, Nx], ((Img.mk [Ny, Nx] data).getD p 0 == 0) = false ∧
            i ∈ fastTg [Ny, Nx] (fastPositions Nx bshape bc true) p) then 1
      else (if centreSet bshape bc = true then data else Array.replicate (shapeSize [Ny, Nx]) 0).getD i 0 := by
  have hinit_sz : (if centreSet bshape bc = true then data else Array.replicate (shapeSize [Ny, Nx]) 0).size =
      shapeSize [Ny, Nx] := by
    split
    · exact hdata
    · simp
  obtain ⟨h1, h2⟩ := fold_set1_outer (fun p => (Img.mk [Ny, Nx] data).getD p 0 == 0)
    (fastTg [Ny, Nx] (fastPositions Nx bshape bc true)) (allPos [Ny, Nx]) _ i (by rw [hinit_sz]; exact hi)
  rw [← fastDilate_unfold] at h1 h2
  exact ⟨by rw [h1, hinit_sz], h2⟩

theorem scatCands_bool (A : Img Int) (sup : List (List Int × Int)) (hB : ∀ kh ∈ sup, kh.2 ≠ 0)
    (i : Nat) (x : Int) (hx : x ∈ scatCands dtBool A sup i) : x = 1 := by
  rw [mem_scatCands] at hx
  obtain ⟨p, _, hv, kh, hkh, _, rfl⟩ := hx
  have hv' : A.getD p 0 ≠ 0 := hv
  show dilateAdd dtBool (A.getD p 0) kh.2 = 1
  unfold dilateAdd
  simp [dtBool, hv', hB kh hkh]

theorem listMax_ones (l : List Int) (h : ∀ x ∈ l, x = 1) :
    listMax 0 l = if l = [] then 0 else 1 := by
  cases l with
  | nil => rfl
  | cons a t =>
    simp only [reduceCtorEq, if_false]
    rcases listMax_mem 0 (a :: t) with e | e
    · have := le_listMax_of_mem 0 (a :: t) a (by simp)
      have := h a (by simp); omega
    · exact h _ e

theorem ne_nil_iff_exists (l : List Int) : l ≠ [] ↔ ∃ v, v ∈ l := by
  cases l with
  | nil => simp
  | cons a t => simp only [ne_eq, reduceCtorEq, not_false_eq_true, true_iff]; exact ⟨a, by simp⟩

theorem img_getD_inside (A : Img Int) (q : List Int) (hq : inside A.shape q = true) :
    A.getD q 0 = A.data.getD (ravelI A.shape q) 0 := by
  unfold Img.getD; simp [hq]

theorem fastDilate_cell (Ny Nx : Nat) (data : Array Int) (By Bx : Nat) (bc : Array Int)
    (hNy : 0 < Ny) (hNx : 0 < Nx) (hdata : data.size = shapeSize [Ny, Nx])
    (hA : ∀ q, (Img.mk [Ny, Nx] data).getD q 0 = 0 ∨ (Img.mk [Ny, Nx] data).getD q 0 = 1)
    (hbc : bc.size = By * Bx) (i : Nat) (hi : i < shapeSize [Ny, Nx]) :
    (fastDilate ⟨[Ny, Nx], data⟩ [By, Bx] bc).size = shapeSize [Ny, Nx] ∧
    (dilateModel dtBool ⟨[Ny, Nx], data⟩ (support [By, Bx] bc true)).size = shapeSize [Ny, Nx] ∧
    (fastDilate ⟨[Ny, Nx], data⟩ [By, Bx] bc).getD i 0 =
      (dilateModel dtBool ⟨[Ny, Nx], data⟩ (support [By, Bx] bc true)).getD i 0 := by
  -- abbreviations
  let A : Img Int := ⟨[Ny, Nx], data⟩
  let sup := support [By, Bx] bc true
  let pos := fastPositions Nx [By, Bx] bc true
  have hs : ∀ d ∈ A.shape, 0 < d := by
    intro d hd
    have hd' : d ∈ [Ny, Nx] := hd
    have : d = Ny ∨ d = Nx := by simpa using hd'
    rcases this with rfl | rfl <;> assumption
  have hsup : ∀ kh ∈ sup, kh.2 ≠ 0 := by
    intro kh hkh
    obtain ⟨j, _, hne, rfl⟩ := (mem_support2 By Bx bc kh).mp hkh
    exact hne
  have hlen : ∀ kh ∈ sup, kh.1.length = A.shape.length := by
    intro kh hkh
    obtain ⟨j, _, _, rfl⟩ := (mem_support2 By Bx bc kh).mp hkh
    rfl
  -- the generic kernel
  obtain ⟨hmsz, hmv⟩ := dilateModel_getD dtBool A hs sup i hi
  have hones := scatCands_bool A sup hsup i
  have hmv : (dilateModel dtBool A sup).getD i dtBool.lo = listMax 0 (scatCands dtBool A sup i) := hmv
  rw [listMax_ones _ hones] at hmv
  -- the fast kernel
  have hinit : i < (if centreSet [By, Bx] bc = true then data
      else Array.replicate (shapeSize [Ny, Nx]) 0).size := by
    split
    · rw [hdata]; exact hi
    · simpa using hi
  obtain ⟨hfsz, hfv⟩ := fold_set1_outer (fun p => A.getD p 0 == 0) (fastTg [Ny, Nx] pos) (allPos [Ny, Nx]) _ i hinit
  rw [← fastDilate_unfold] at hfsz hfv
  have hq : inside [Ny, Nx] (unravelI [Ny, Nx] i) = true := inside_unravelI _ i hi
  have hiq : ravelI [Ny, Nx] (unravelI [Ny, Nx] i) = i := ravelI_unravelI _ i hi
  obtain ⟨qy, qx, hqe, hqy, hqx⟩ := inside2 Ny Nx _ hq
  refine ⟨?_, hmsz, ?_⟩
  · rw [hfsz]; split
    · exact hdata
    · simp
  show _ = (dilateModel dtBool A sup).getD i dtBool.lo
  rw [hfv, hmv]
  -- a scatter pair of the generic kernel for cell `i`, read through `fast_targets`
  have cand_iff : scatCands dtBool A sup i ≠ [] ↔
      ∃ y x, ((0 ≤ y ∧ y < (Ny : Int)) ∧ (0 ≤ x ∧ x < (Nx : Int))) ∧ A.getD [y, x] 0 ≠ 0 ∧
        ((centreSet [By, Bx] bc = true ∧ unravelI [Ny, Nx] i = [y, x]) ∨
          ∃ d ∈ pos, clampPos [Ny, Nx] [y + d.1, x + d.2] = unravelI [Ny, Nx] i) := by
    rw [ne_nil_iff_exists]
    constructor
    · rintro ⟨v, hv⟩
      rw [mem_scatCands] at hv
      obtain ⟨p, hp, hne, kh, hkh, ht, _⟩ := hv
      obtain ⟨y, x, rfl, hy, hx⟩ := inside2 Ny Nx p hp
      rw [← hiq, target_eq_iff A.shape hs _ _ _ hp (hlen kh hkh) hq] at ht
      exact ⟨y, x, ⟨hy, hx⟩, hne, (fast_targets Ny Nx By Bx bc hbc y x hy hx _).mp ⟨kh, hkh, ht⟩⟩
    · rintro ⟨y, x, ⟨hy, hx⟩, hne, h⟩
      obtain ⟨kh, hkh, ht⟩ := (fast_targets Ny Nx By Bx bc hbc y x hy hx _).mpr h
      have hp : inside [Ny, Nx] [y, x] = true := by simp [inside, hy, hx]
      refine ⟨_, (mem_scatCands dtBool A sup i _).mpr ⟨[y, x], hp, hne, kh, hkh, ?_, rfl⟩⟩
      rw [← hiq, target_eq_iff A.shape hs _ _ _ hp (hlen kh hkh) hq]; exact ht
  by_cases hF : ∃ p ∈ allPos [Ny, Nx], (A.getD p 0 == 0) = false ∧ i ∈ fastTg [Ny, Nx] pos p
  · simp only [hF, if_true]
    obtain ⟨p, hp, hne, hin⟩ := hF
    rw [mem_allPos] at hp
    obtain ⟨y, x, rfl, hy, hx⟩ := inside2 Ny Nx p hp
    simp only [fastTg, List.mem_map] at hin
    obtain ⟨d, hd, ht⟩ := hin
    have hne' : A.getD [y, x] 0 ≠ 0 := by simpa using hne
    have hd' : inside [Ny, Nx] (clampPos [Ny, Nx] [y + d.1, x + d.2]) = true :=
      clampPos_inside _ _ hs (by simp)
    have : scatCands dtBool A sup i ≠ [] :=
      cand_iff.mpr ⟨y, x, ⟨hy, hx⟩, hne', Or.inr ⟨d, hd, ravelI_inj _ _ _ hd' hq (by rw [ht, hiq])⟩⟩
    simp only [this, if_false]
  · simp only [hF, if_false]
    have hcell : A.getD (unravelI [Ny, Nx] i) 0 = data.getD i 0 := by
      rw [img_getD_inside A _ hq]; show data.getD (ravelI [Ny, Nx] _) 0 = _; rw [hiq]
    by_cases hC : centreSet [By, Bx] bc = true ∧ A.getD (unravelI [Ny, Nx] i) 0 ≠ 0
    · have : scatCands dtBool A sup i ≠ [] := by
        apply cand_iff.mpr
        refine ⟨qy, qx, ⟨hqy, hqx⟩, by rw [← hqe]; exact hC.2, Or.inl ⟨hC.1, hqe⟩⟩
      simp only [this, hC.1, if_true, if_false]
      rw [← hcell]
      rcases hA (unravelI [Ny, Nx] i) with h | h
      · exact absurd h hC.2
      · exact h
    · have : ¬ scatCands dtBool A sup i ≠ [] := by
        intro hne
        obtain ⟨y, x, ⟨hy, hx⟩, hv, h⟩ := cand_iff.mp hne
        rcases h with ⟨hc, e⟩ | ⟨d, hd, e⟩
        · exact hC ⟨hc, by rw [e]; exact hv⟩
        · apply hF
          have hp : inside [Ny, Nx] [y, x] = true := by simp [inside, hy, hx]
          refine ⟨[y, x], (mem_allPos _ _).mpr hp, by simpa using hv, ?_⟩
          simp only [fastTg, List.mem_map]
          exact ⟨d, hd, by rw [e, hiq]⟩
      have hnil : scatCands dtBool A sup i = [] := by
        by_cases h : scatCands dtBool A sup i = []
        · exact h
        · exact absurd h this
      simp only [hnil, if_true]
      by_cases hc : centreSet [By, Bx] bc = true
      · simp only [hc, if_true]
        rw [← hcell]
        rcases hA (unravelI [Ny, Nx] i) with h | h
        · exact h
        · exact absurd ⟨hc, by rw [h]; decide⟩ hC
      · simp only [hc]
        simp [Array.getD_eq_getD_getElem?, hi]

theorem getD_eq_getElem (xs : Array Int) (i : Nat) (h : i < xs.size) : xs.getD i 0 = xs[i] := by
  rw [Array.getD_eq_getD_getElem?, Array.getElem?_eq_getElem h]; rfl

/-- fast dilation = generic dilation, as arrays (non-empty image) -/
theorem fastDilate_eq (Ny Nx : Nat) (data : Array Int) (By Bx : Nat) (bc : Array Int)
    (hNy : 0 < Ny) (hNx : 0 < Nx) (hdata : data.size = shapeSize [Ny, Nx])
    (hA : ∀ q, (Img.mk [Ny, Nx] data).getD q 0 = 0 ∨ (Img.mk [Ny, Nx] data).getD q 0 = 1)
    (hbc : bc.size = By * Bx) :
    fastDilate ⟨[Ny, Nx], data⟩ [By, Bx] bc =
      dilateModel dtBool ⟨[Ny, Nx], data⟩ (support [By, Bx] bc true) := by
  have h0 : 0 < shapeSize [Ny, Nx] := by
    simp only [shapeSize, Nat.mul_one]; exact Nat.mul_pos hNy hNx
  obtain ⟨hf, hm, _⟩ := fastDilate_cell Ny Nx data By Bx bc hNy hNx hdata hA hbc 0 h0
  apply Array.ext
  · rw [hf, hm]
  · intro i h1 h2
    have hi : i < shapeSize [Ny, Nx] := by rw [← hf]; exact h1
    have := (fastDilate_cell Ny Nx data By Bx bc hNy hNx hdata hA hbc i hi).2.2
    rw [getD_eq_getElem _ i h1, getD_eq_getElem _ i h2] at this
    exact this

/-- empty image: both kernels return the empty array -/
theorem fastDilate_eq_empty (Ny Nx : Nat) (data : Array Int) (bshape : List Nat) (bc : Array Int)
    (hz : shapeSize [Ny, Nx] = 0) (hdata : data.size = shapeSize [Ny, Nx]) :
    fastDilate ⟨[Ny, Nx], data⟩ bshape bc =
      dilateModel dtBool ⟨[Ny, Nx], data⟩ (support bshape bc true) := by
  have hd : data = #[] := Array.eq_empty_of_size_eq_zero (by rw [hdata, hz])
  subst hd
  have hal : allPos [Ny, Nx] = [] := by unfold allPos; rw [hz]; rfl
  rw [fastDilate_unfold]
  unfold dilateModel
  simp only [hal, List.foldl_nil, Img.size, hz]
  split <;> rfl

end Mahotas.C01
