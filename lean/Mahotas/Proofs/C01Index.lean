/-
Helper lemmas for C01: C-order index arithmetic on `List Int` positions
(`inside`, `ravelI`, `unravelI`, `allPos`, `clampPos`, `addPos`, `subPos`).
-/
import Mahotas.Model.C01
import Mahotas.Proofs.Border
namespace Mahotas.C01
open Mahotas

theorem inside_length {s : List Nat} {p : List Int} (h : inside s p = true) : p.length = s.length := by
  induction s generalizing p with
  | nil => cases p <;> simp_all [inside]
  | cons d ds ih =>
    cases p with
    | nil => simp [inside] at h
    | cons c cs =>
      simp only [inside, Bool.and_eq_true] at h
      simp [ih h.2]

theorem inside_cons (d : Nat) (ds : List Nat) (c : Int) (cs : List Int) :
    inside (d :: ds) (c :: cs) = true ↔ (0 ≤ c ∧ c < (d : Int)) ∧ inside ds cs = true := by
  simp [inside]

theorem inside_unravelI (s : List Nat) (i : Nat) (h : i < shapeSize s) :
    inside s (unravelI s i) = true := by
  induction s generalizing i with
  | nil => simp [unravelI, unravel, inside]
  | cons d ds ih =>
    have hS : 0 < shapeSize ds := by
      rcases Nat.eq_zero_or_pos (shapeSize ds) with h0 | h0
      · simp [shapeSize, h0] at h
      · exact h0
    have h1 : i / shapeSize ds < d := by
      apply Nat.div_lt_of_lt_mul
      rw [Nat.mul_comm]; exact h
    have h2 := ih (i % shapeSize ds) (Nat.mod_lt _ hS)
    simp only [unravelI] at h2 ⊢
    simp only [unravel, List.map_cons, inside, Bool.and_eq_true, decide_eq_true_eq]
    refine ⟨⟨?_, ?_⟩, h2⟩
    · exact Int.natCast_nonneg _
    · exact Int.ofNat_lt.mpr h1

theorem ravelI_unravelI (s : List Nat) (i : Nat) (h : i < shapeSize s) :
    ravelI s (unravelI s i) = i := by
  induction s generalizing i with
  | nil => simp [shapeSize] at h; simp [ravelI, h]
  | cons d ds ih =>
    have hS : 0 < shapeSize ds := by
      rcases Nat.eq_zero_or_pos (shapeSize ds) with h0 | h0
      · simp [shapeSize, h0] at h
      · exact h0
    have h2 := ih (i % shapeSize ds) (Nat.mod_lt _ hS)
    simp only [unravelI] at h2 ⊢
    simp only [unravel, List.map_cons, ravelI, h2]
    simp only [Int.ofNat_eq_natCast, Int.toNat_natCast]
    exact Nat.div_add_mod' i (shapeSize ds)

theorem ravelI_lt (s : List Nat) (p : List Int) (h : inside s p = true) :
    ravelI s p < shapeSize s := by
  induction s generalizing p with
  | nil => cases p <;> simp_all [inside, ravelI, shapeSize]
  | cons d ds ih =>
    cases p with
    | nil => simp [inside] at h
    | cons c cs =>
      rw [inside_cons] at h
      have h2 := ih cs h.2
      simp only [ravelI, shapeSize]
      have hc : c.toNat < d := by omega
      calc c.toNat * shapeSize ds + ravelI ds cs < c.toNat * shapeSize ds + shapeSize ds := by omega
        _ = (c.toNat + 1) * shapeSize ds := by rw [Nat.add_mul, Nat.one_mul]
        _ ≤ d * shapeSize ds := Nat.mul_le_mul_right _ hc

theorem unravelI_ravelI (s : List Nat) (p : List Int) (h : inside s p = true) :
    unravelI s (ravelI s p) = p := by
  induction s generalizing p with
  | nil => cases p <;> simp_all [inside, unravelI, unravel]
  | cons d ds ih =>
    cases p with
    | nil => simp [inside] at h
    | cons c cs =>
      rw [inside_cons] at h
      have h2 := ih cs h.2
      have h3 := ravelI_lt ds cs h.2
      simp only [unravelI] at h2 ⊢
      simp only [ravelI, unravel, List.map_cons]
      have hS : 0 < shapeSize ds := by omega
      have e1 : (c.toNat * shapeSize ds + ravelI ds cs) / shapeSize ds = c.toNat := by
        rw [Nat.mul_comm, Nat.mul_add_div hS, Nat.div_eq_of_lt h3, Nat.add_zero]
      have e2 : (c.toNat * shapeSize ds + ravelI ds cs) % shapeSize ds = ravelI ds cs := by
        rw [Nat.mul_comm, Nat.mul_add_mod, Nat.mod_eq_of_lt h3]
      rw [e1, e2, h2]
      congr 1
      simp only [Int.ofNat_eq_natCast]
      omega

theorem mem_allPos (s : List Nat) (p : List Int) : p ∈ allPos s ↔ inside s p = true := by
  unfold allPos
  simp only [List.mem_map, List.mem_range]
  constructor
  · rintro ⟨i, hi, rfl⟩; exact inside_unravelI s i hi
  · intro h; exact ⟨ravelI s p, ravelI_lt s p h, unravelI_ravelI s p h⟩

theorem ravelI_inj (s : List Nat) (p q : List Int) (hp : inside s p = true) (hq : inside s q = true)
    (h : ravelI s p = ravelI s q) : p = q := by
  rw [← unravelI_ravelI s p hp, ← unravelI_ravelI s q hq, h]

theorem clampPos_inside (s : List Nat) (p : List Int) (hs : ∀ d ∈ s, 0 < d)
    (hl : s.length ≤ p.length) : inside s (clampPos s p) = true := by
  induction s generalizing p with
  | nil => cases p <;> simp [clampPos, inside]
  | cons d ds ih =>
    cases p with
    | nil => simp at hl
    | cons c cs =>
      have hd : 0 < d := hs d (by simp)
      simp only [clampPos, inside_cons, clampSpec]
      refine ⟨by omega, ih cs (fun d hd => hs d (by simp [hd])) (by simpa using hl)⟩

theorem clampPos_of_inside (s : List Nat) (p : List Int) (h : inside s p = true) :
    clampPos s p = p := by
  induction s generalizing p with
  | nil => cases p <;> simp_all [inside, clampPos]
  | cons d ds ih =>
    cases p with
    | nil => simp [inside] at h
    | cons c cs =>
      rw [inside_cons] at h
      simp only [clampPos, clampSpec, ih cs h.2]
      congr 1; omega

theorem addPos_length (a b : List Int) : (addPos a b).length = min a.length b.length := by
  induction a generalizing b with
  | nil => simp [addPos]
  | cons x xs ih => cases b with
    | nil => simp [addPos]
    | cons y ys => simp [addPos, ih]

theorem subPos_length (a b : List Int) : (subPos a b).length = min a.length b.length := by
  induction a generalizing b with
  | nil => simp [subPos]
  | cons x xs ih => cases b with
    | nil => simp [subPos]
    | cons y ys => simp [subPos, ih]

end Mahotas.C01
