/-
Helper lemmas for C01: the erosion branch of `fast_binary_dilate_erode_2d` loop by loop
(`fastErodeLoops`: rows, offsets, border loop of `|dx|` iterations, main loop of `Nx − |dx|` iterations
over a flat 0/1 array) equals the pointwise form `fastErodeAt`; likewise the dilation branch
(`fastDilateLoops`, OR-writes) equals the pointwise scatter `fastDilate`.
Method: every loop is a fold of `out[j] &= b` writes; a fold of such writes leaves in cell `i` the AND
of its initial value with all values written to `i` (order-independent); the writes of one (row, offset)
pass hit every column of the row exactly with the clamped read.
-/
import Mahotas.Proofs.C01Fast
namespace Mahotas.C01
open Mahotas

/-! ### AND-writes into a flat 0/1 array -/

theorem andInto_size (o : Array Int) (j : Nat) (b : Int) : (andInto o j b).size = o.size := by
  unfold andInto; simp

theorem andInto_getD (o : Array Int) (j i : Nat) (b : Int) (hi : i < o.size) :
    (andInto o j b).getD i 0 =
      if j = i then (if (o.getD i 0 != 0 && b != 0) = true then 1 else 0) else o.getD i 0 := by
  unfold andInto
  rw [Array.getD_eq_getD_getElem?, Array.getElem?_setIfInBounds]
  by_cases h : j = i
  · subst h; simp only [if_true, hi, Option.getD_some]
  · simp only [h, if_false, Array.getD_eq_getD_getElem?]

/-- a list of writes `(cell, value)` applied in order -/
def applyWrites (ws : List (Nat × Int)) (o : Array Int) : Array Int :=
  ws.foldl (fun o w => andInto o w.1 w.2) o

theorem applyWrites_getD (ws : List (Nat × Int)) (o : Array Int) (i : Nat) (hi : i < o.size)
    (h01 : o.getD i 0 = 0 ∨ o.getD i 0 = 1) :
    (applyWrites ws o).size = o.size ∧
    (applyWrites ws o).getD i 0 =
      if (o.getD i 0 != 0 && ws.all (fun w => w.1 != i || w.2 != 0)) = true then 1 else 0 := by
  induction ws generalizing o with
  | nil =>
    refine ⟨rfl, ?_⟩
    simp only [applyWrites, List.foldl_nil, List.all_nil, Bool.and_true]
    rcases h01 with h | h <;> simp [h]
  | cons w t ih =>
    have hsz := andInto_size o w.1 w.2
    have hv := andInto_getD o w.1 i w.2 hi
    have h01' : (andInto o w.1 w.2).getD i 0 = 0 ∨ (andInto o w.1 w.2).getD i 0 = 1 := by
      rw [hv]
      by_cases hj : w.1 = i
      · simp only [hj, if_true]
        by_cases hc : (o.getD i 0 != 0 && w.2 != 0) = true
        · right; simp only [hc, if_true]
        · left; simp only [hc]; rfl
      · simp only [hj, if_false]; exact h01
    obtain ⟨h1, h2⟩ := ih (andInto o w.1 w.2) (by omega) h01'
    refine ⟨by simp only [applyWrites, List.foldl_cons] at h1 ⊢; omega, ?_⟩
    simp only [applyWrites, List.foldl_cons] at h2 ⊢
    rw [h2, hv]
    simp only [List.all_cons]
    by_cases hj : w.1 = i
    · simp only [hj, if_true, bne_self_eq_false, Bool.false_or]
      generalize (o.getD i 0 != 0) = a
      generalize (w.2 != 0) = bb
      generalize (t.all fun w => w.1 != i || w.2 != 0) = c
      cases a <;> cases bb <;> cases c <;> rfl
    · have : (w.1 != i) = true := by simpa using hj
      simp only [hj, if_false, this, Bool.true_or, Bool.true_and]

/-! ### the row loops as lists of writes -/

/-- the writes of one (row, offset) pass, in the order the two loops perform them -/
def rowWrites (data : Array Int) (Nx orow irow : Nat) (dx : Int) : List (Nat × Int) :=
  let n := Nx - dx.natAbs
  if dx > 0 then
    (List.range dx.toNat).map (fun i => (orow + (Nx - i - 1), data.getD (irow + (Nx - 1)) 0)) ++
    (List.range n).map (fun i => (orow + i, data.getD (irow + dx.toNat + i) 0))
  else if dx < 0 then
    (List.range (-dx).toNat).map (fun i => (orow + i, data.getD irow 0)) ++
    (List.range n).map (fun i => (orow + (-dx).toNat + i, data.getD (irow + i) 0))
  else (List.range n).map (fun i => (orow + i, data.getD (irow + i) 0))

theorem fastErodeRow_eq (data : Array Int) (Nx orow irow : Nat) (dx : Int) (res : Array Int) :
    fastErodeRow data Nx orow irow dx res = applyWrites (rowWrites data Nx orow irow dx) res := by
  unfold fastErodeRow rowWrites applyWrites
  simp only
  split
  · rw [List.foldl_append, List.foldl_map, List.foldl_map]
  · split
    · rw [List.foldl_append, List.foldl_map, List.foldl_map]
    · rw [List.foldl_map]

theorem rowWrites_mem (data : Array Int) (Nx orow irow : Nat) (dx : Int) (hNx : 0 < Nx)
    (hdx : -(Nx : Int) ≤ dx ∧ dx ≤ Nx) (w : Nat × Int) (hw : w ∈ rowWrites data Nx orow irow dx) :
    ∃ x, x < Nx ∧ w.1 = orow + x ∧ w.2 = data.getD (irow + (clampSpec ((x : Int) + dx) Nx).toNat) 0 := by
  unfold rowWrites at hw
  simp only at hw
  split at hw
  · rcases List.mem_append.mp hw with h | h
    · obtain ⟨i, hi, rfl⟩ := List.mem_map.mp h
      rw [List.mem_range] at hi
      refine ⟨Nx - i - 1, by omega, rfl, ?_⟩
      simp only; congr 2; unfold clampSpec; omega
    · obtain ⟨i, hi, rfl⟩ := List.mem_map.mp h
      rw [List.mem_range] at hi
      refine ⟨i, by omega, rfl, ?_⟩
      simp only; congr 1; unfold clampSpec; omega
  · split at hw
    · rcases List.mem_append.mp hw with h | h
      · obtain ⟨i, hi, rfl⟩ := List.mem_map.mp h
        rw [List.mem_range] at hi
        refine ⟨i, by omega, rfl, ?_⟩
        simp only; congr 1; unfold clampSpec; omega
      · obtain ⟨i, hi, rfl⟩ := List.mem_map.mp h
        rw [List.mem_range] at hi
        refine ⟨(-dx).toNat + i, by omega, by simp only; omega, ?_⟩
        simp only; congr 1; unfold clampSpec; omega
    · obtain ⟨i, hi, rfl⟩ := List.mem_map.mp hw
      rw [List.mem_range] at hi
      refine ⟨i, by omega, rfl, ?_⟩
      simp only; congr 1; unfold clampSpec; omega

theorem rowWrites_cover (data : Array Int) (Nx orow irow : Nat) (dx : Int)
    (hdx : -(Nx : Int) ≤ dx ∧ dx ≤ Nx) (x : Nat) (hx : x < Nx) :
    ∃ w ∈ rowWrites data Nx orow irow dx, w.1 = orow + x := by
  unfold rowWrites
  simp only
  split
  · by_cases h : x < Nx - dx.natAbs
    · exact ⟨_, List.mem_append_right _ (List.mem_map.mpr ⟨x, List.mem_range.mpr h, rfl⟩), rfl⟩
    · refine ⟨_, List.mem_append_left _ (List.mem_map.mpr ⟨Nx - 1 - x, List.mem_range.mpr (by omega), rfl⟩), ?_⟩
      simp only; omega
  · split
    · by_cases h : x < (-dx).toNat
      · exact ⟨_, List.mem_append_left _ (List.mem_map.mpr ⟨x, List.mem_range.mpr h, rfl⟩), rfl⟩
      · refine ⟨_, List.mem_append_right _ (List.mem_map.mpr ⟨x - (-dx).toNat, List.mem_range.mpr (by omega), rfl⟩), ?_⟩
        simp only; omega
    · exact ⟨_, List.mem_map.mpr ⟨x, List.mem_range.mpr (by omega), rfl⟩, rfl⟩

/-! ### the whole erosion branch -/

/-- all writes of the erosion branch in program order -/
def erodeWrites (data : Array Int) (Ny Nx : Nat) (pos : List (Int × Int)) : List (Nat × Int) :=
  (List.range Ny).flatMap fun y => pos.flatMap fun d =>
    rowWrites data Nx (y * Nx) (fastRow Ny y d.1 * Nx) d.2

theorem fastErodeLoops_eq_writes (Ny Nx : Nat) (data : Array Int) (bshape : List Nat) (bc : Array Int) :
    fastErodeLoops ⟨[Ny, Nx], data⟩ bshape bc =
      applyWrites (erodeWrites data Ny Nx (fastPositions Nx bshape bc true))
        (if centreSet bshape bc = true then data else Array.replicate (shapeSize [Ny, Nx]) 1) := by
  simp only [fastErodeLoops, Img.size]
  unfold applyWrites erodeWrites
  rw [List.foldl_flatMap]
  congr 1
  funext res y
  rw [List.foldl_flatMap]
  congr 1
  funext res d
  exact fastErodeRow_eq data Nx _ _ d.2 res

theorem fastRow_eq (Ny y : Nat) (dy : Int) (hy : y < Ny) :
    fastRow Ny y dy = (clampSpec ((y : Int) + dy) Ny).toNat := by
  unfold fastRow clampSpec
  simp only
  split <;> split <;> omega

theorem fastPositions_dx (Nx : Nat) (bshape : List Nat) (bc : Array Int) (d : Int × Int)
    (h : d ∈ fastPositions Nx bshape bc true) : -(Nx : Int) ≤ d.2 ∧ d.2 ≤ Nx := by
  match bshape, h with
  | [By, Bx], h =>
    rw [mem_fastPositions] at h
    obtain ⟨i, _, _, _, rfl⟩ := h
    simp only
    split
    · omega
    · split <;> omega
  | [], h => simp [fastPositions] at h
  | [_], h => simp [fastPositions] at h
  | _ :: _ :: _ :: _, h => simp [fastPositions] at h

theorem flat_index_unique (Nx y x y' x' : Nat) (hx : x < Nx) (hx' : x' < Nx)
    (h : y * Nx + x = y' * Nx + x') : y = y' ∧ x = x' := by
  have hN : 0 < Nx := by omega
  have e1 : (y * Nx + x) / Nx = y := by
    rw [Nat.mul_comm, Nat.mul_add_div hN, Nat.div_eq_of_lt hx, Nat.add_zero]
  have e2 : (y' * Nx + x') / Nx = y' := by
    rw [Nat.mul_comm, Nat.mul_add_div hN, Nat.div_eq_of_lt hx', Nat.add_zero]
  have : y = y' := by rw [← e1, ← e2, h]
  subst this
  exact ⟨rfl, by omega⟩

theorem getD_flat (Ny Nx : Nat) (data : Array Int) (a b : Int) (ha : 0 ≤ a ∧ a < Ny) (hb : 0 ≤ b ∧ b < Nx) :
    (Img.mk [Ny, Nx] data).getD [a, b] 0 = data.getD (a.toNat * Nx + b.toNat) 0 := by
  unfold Img.getD
  have : inside [Ny, Nx] [a, b] = true := by simp [inside, ha, hb]
  simp only [this, if_true]
  simp [ravelI, shapeSize]

theorem fastErodeLoops_cell (Ny Nx : Nat) (data : Array Int) (bshape : List Nat) (bc : Array Int)
    (hdata : data.size = shapeSize [Ny, Nx]) (h01 : ∀ i, data.getD i 0 = 0 ∨ data.getD i 0 = 1)
    (y x : Nat) (hy : y < Ny) (hx : x < Nx) :
    (fastErodeLoops ⟨[Ny, Nx], data⟩ bshape bc).size = shapeSize [Ny, Nx] ∧
    (fastErodeLoops ⟨[Ny, Nx], data⟩ bshape bc).getD (y * Nx + x) 0 =
      fastErodeAt ⟨[Ny, Nx], data⟩ bshape bc [(y : Int), (x : Int)] := by
  have hsize : shapeSize [Ny, Nx] = Ny * Nx := by simp [shapeSize]
  have hi : y * Nx + x < Ny * Nx := by
    calc y * Nx + x < y * Nx + Nx := by omega
      _ = (y + 1) * Nx := by rw [Nat.add_mul, Nat.one_mul]
      _ ≤ Ny * Nx := Nat.mul_le_mul_right _ hy
  have hNx : 0 < Nx := by omega
  rw [fastErodeLoops_eq_writes]
  have hinit_sz : (if centreSet bshape bc = true then data else Array.replicate (shapeSize [Ny, Nx]) 1).size =
      shapeSize [Ny, Nx] := by
    split
    · exact hdata
    · simp
  have hinit01 : ∀ j, (if centreSet bshape bc = true then data else Array.replicate (shapeSize [Ny, Nx]) 1).getD j 0 = 0 ∨
      (if centreSet bshape bc = true then data else Array.replicate (shapeSize [Ny, Nx]) 1).getD j 0 = 1 := by
    intro j
    split
    · exact h01 j
    · rw [Array.getD_eq_getD_getElem?, Array.getElem?_replicate]
      split
      · right; rfl
      · left; rfl
  obtain ⟨h1, h2⟩ := applyWrites_getD (erodeWrites data Ny Nx (fastPositions Nx bshape bc true)) _
    (y * Nx + x) (by rw [hinit_sz, hsize]; exact hi) (hinit01 _)
  refine ⟨by rw [h1, hinit_sz], ?_⟩
  rw [h2]
  simp only [fastErodeAt]
  rw [foldl_and]
  have hcell : (Img.mk [Ny, Nx] data).getD [(y : Int), (x : Int)] 0 = data.getD (y * Nx + x) 0 := by
    rw [getD_flat Ny Nx data y x (by omega) (by omega)]; simp
  have key : ((if centreSet bshape bc = true then data else Array.replicate (shapeSize [Ny, Nx]) 1).getD (y * Nx + x) 0 != 0 &&
      (erodeWrites data Ny Nx (fastPositions Nx bshape bc true)).all fun w => w.1 != y * Nx + x || w.2 != 0) =
      ((if centreSet bshape bc = true then (Img.mk [Ny, Nx] data).getD [(y : Int), (x : Int)] 0 != 0 else true) &&
      (fastPositions Nx bshape bc true).all fun d =>
        (Img.mk [Ny, Nx] data).getD (clampPos [Ny, Nx] [(y : Int) + d.1, (x : Int) + d.2]) 0 != 0) := by
    congr 1
    · by_cases hc : centreSet bshape bc = true
      · simp only [hc, if_true, hcell]
      · have hc' : centreSet bshape bc = false := by simpa using hc
        simp only [hc', Bool.false_eq_true, if_false]
        rw [Array.getD_eq_getD_getElem?, Array.getElem?_replicate]
        simp [hsize, hi]
    · rw [Bool.eq_iff_iff]
      simp only [List.all_eq_true, Bool.or_eq_true, bne_iff_ne, ne_eq]
      -- the value a write into cell (y, x) through offset d carries
      have hval : ∀ d ∈ fastPositions Nx bshape bc true, ∀ w ∈ rowWrites data Nx (y * Nx) (fastRow Ny y d.1 * Nx) d.2,
          w.1 = y * Nx + x →
          w.2 = (Img.mk [Ny, Nx] data).getD (clampPos [Ny, Nx] [(y : Int) + d.1, (x : Int) + d.2]) 0 := by
        intro d hd w hw hw1
        obtain ⟨x', hx', e1, e2⟩ := rowWrites_mem data Nx _ _ d.2 hNx (fastPositions_dx Nx bshape bc d hd) w hw
        have : x' = x := by omega
        subst this
        rw [e2, fastRow_eq Ny y d.1 hy]
        simp only [clampPos]
        rw [getD_flat Ny Nx data _ _ (by unfold clampSpec; omega) (by unfold clampSpec; omega)]
      constructor
      · intro hall d hd
        obtain ⟨w, hw, hw1⟩ := rowWrites_cover data Nx (y * Nx) (fastRow Ny y d.1 * Nx) d.2
          (fastPositions_dx Nx bshape bc d hd) x hx
        have hmem : w ∈ erodeWrites data Ny Nx (fastPositions Nx bshape bc true) := by
          unfold erodeWrites
          rw [List.mem_flatMap]
          exact ⟨y, List.mem_range.mpr hy, List.mem_flatMap.mpr ⟨d, hd, hw⟩⟩
        rcases hall w hmem with h | h
        · exact absurd hw1 h
        · rw [← hval d hd w hw hw1]; exact h
      · intro hall w hw
        unfold erodeWrites at hw
        rw [List.mem_flatMap] at hw
        obtain ⟨y', hy', hw⟩ := hw
        rw [List.mem_flatMap] at hw
        obtain ⟨d, hd, hw⟩ := hw
        rw [List.mem_range] at hy'
        by_cases hw1 : w.1 = y * Nx + x
        · right
          obtain ⟨x', hx', e1, _⟩ := rowWrites_mem data Nx _ _ d.2 hNx (fastPositions_dx Nx bshape bc d hd) w hw
          have := (flat_index_unique Nx y' x' y x hx' hx (by omega)).1
          subst this
          rw [hval d hd w hw hw1]; exact hall d hd
        · left; exact hw1
  rw [key]

/-- raw 0/1 data from the 0/1 image -/
theorem data01_of_img (shape : List Nat) (data : Array Int) (hdata : data.size = shapeSize shape)
    (hA : ∀ q, (Img.mk shape data).getD q 0 = 0 ∨ (Img.mk shape data).getD q 0 = 1) (i : Nat) :
    data.getD i 0 = 0 ∨ data.getD i 0 = 1 := by
  by_cases hi : i < shapeSize shape
  · have := hA (unravelI shape i)
    rw [img_getD_inside _ _ (inside_unravelI shape i hi)] at this
    simp only [ravelI_unravelI shape i hi] at this
    exact this
  · left
    rw [Array.getD_eq_getD_getElem?, Array.getElem?_eq_none (by omega)]; rfl

/-! ### OR-writes (dilation branch) -/

theorem orInto_size (o : Array Int) (j : Nat) (b : Int) : (orInto o j b).size = o.size := by
  unfold orInto; simp

theorem orInto_getD (o : Array Int) (j i : Nat) (b : Int) (hi : i < o.size) :
    (orInto o j b).getD i 0 =
      if j = i then (if (o.getD i 0 != 0 || b != 0) = true then 1 else 0) else o.getD i 0 := by
  unfold orInto
  rw [Array.getD_eq_getD_getElem?, Array.getElem?_setIfInBounds]
  by_cases h : j = i
  · subst h; simp only [if_true, hi, Option.getD_some]
  · simp only [h, if_false, Array.getD_eq_getD_getElem?]

def applyOrWrites (ws : List (Nat × Int)) (o : Array Int) : Array Int :=
  ws.foldl (fun o w => orInto o w.1 w.2) o

theorem applyOrWrites_getD (ws : List (Nat × Int)) (o : Array Int) (i : Nat) (hi : i < o.size)
    (h01 : o.getD i 0 = 0 ∨ o.getD i 0 = 1) :
    (applyOrWrites ws o).size = o.size ∧
    (applyOrWrites ws o).getD i 0 =
      if (o.getD i 0 != 0 || ws.any (fun w => w.1 == i && w.2 != 0)) = true then 1 else 0 := by
  induction ws generalizing o with
  | nil =>
    refine ⟨rfl, ?_⟩
    simp only [applyOrWrites, List.foldl_nil, List.any_nil, Bool.or_false]
    rcases h01 with h | h <;> simp [h]
  | cons w t ih =>
    have hsz := orInto_size o w.1 w.2
    have hv := orInto_getD o w.1 i w.2 hi
    have h01' : (orInto o w.1 w.2).getD i 0 = 0 ∨ (orInto o w.1 w.2).getD i 0 = 1 := by
      rw [hv]
      by_cases hj : w.1 = i
      · simp only [hj, if_true]
        by_cases hc : (o.getD i 0 != 0 || w.2 != 0) = true
        · right; simp only [hc, if_true]
        · left; simp only [hc]; rfl
      · simp only [hj, if_false]; exact h01
    obtain ⟨h1, h2⟩ := ih (orInto o w.1 w.2) (by omega) h01'
    refine ⟨by simp only [applyOrWrites, List.foldl_cons] at h1 ⊢; omega, ?_⟩
    simp only [applyOrWrites, List.foldl_cons] at h2 ⊢
    rw [h2, hv]
    simp only [List.any_cons]
    by_cases hj : w.1 = i
    · simp only [hj, if_true, beq_self_eq_true, Bool.true_and]
      generalize (o.getD i 0 != 0) = a
      generalize (w.2 != 0) = bb
      generalize (t.any fun w => w.1 == i && w.2 != 0) = c
      cases a <;> cases bb <;> cases c <;> rfl
    · have : (w.1 == i) = false := by simpa using hj
      simp only [hj, if_false, this, Bool.false_and, Bool.false_or]

def rowWritesD (data : Array Int) (Nx orow irow : Nat) (dx : Int) : List (Nat × Int) :=
  let n := Nx - dx.natAbs
  if dx > 0 then
    (List.range dx.toNat).map (fun i => (orow + (Nx - 1), data.getD (irow + (Nx - i - 1)) 0)) ++
    (List.range n).map (fun i => (orow + dx.toNat + i, data.getD (irow + i) 0))
  else if dx < 0 then
    (List.range (-dx).toNat).map (fun i => (orow, data.getD (irow + i) 0)) ++
    (List.range n).map (fun i => (orow + i, data.getD (irow + (-dx).toNat + i) 0))
  else (List.range n).map (fun i => (orow + i, data.getD (irow + i) 0))

theorem fastDilateRow_eq (data : Array Int) (Nx orow irow : Nat) (dx : Int) (res : Array Int) :
    fastDilateRow data Nx orow irow dx res = applyOrWrites (rowWritesD data Nx orow irow dx) res := by
  unfold fastDilateRow rowWritesD applyOrWrites
  simp only
  split
  · rw [List.foldl_append, List.foldl_map, List.foldl_map]
  · split
    · rw [List.foldl_append, List.foldl_map, List.foldl_map]
    · rw [List.foldl_map]

theorem rowWritesD_mem (data : Array Int) (Nx orow irow : Nat) (dx : Int) (hNx : 0 < Nx)
    (hdx : -(Nx : Int) ≤ dx ∧ dx ≤ Nx) (w : Nat × Int) (hw : w ∈ rowWritesD data Nx orow irow dx) :
    ∃ x, x < Nx ∧ w.1 = orow + (clampSpec ((x : Int) + dx) Nx).toNat ∧ w.2 = data.getD (irow + x) 0 := by
  unfold rowWritesD at hw
  simp only at hw
  split at hw
  · rcases List.mem_append.mp hw with h | h
    · obtain ⟨i, hi, rfl⟩ := List.mem_map.mp h
      rw [List.mem_range] at hi
      refine ⟨Nx - i - 1, by omega, ?_, rfl⟩
      simp only; unfold clampSpec; omega
    · obtain ⟨i, hi, rfl⟩ := List.mem_map.mp h
      rw [List.mem_range] at hi
      refine ⟨i, by omega, ?_, rfl⟩
      simp only; unfold clampSpec; omega
  · split at hw
    · rcases List.mem_append.mp hw with h | h
      · obtain ⟨i, hi, rfl⟩ := List.mem_map.mp h
        rw [List.mem_range] at hi
        refine ⟨i, by omega, ?_, rfl⟩
        simp only; unfold clampSpec; omega
      · obtain ⟨i, hi, rfl⟩ := List.mem_map.mp h
        rw [List.mem_range] at hi
        refine ⟨(-dx).toNat + i, by omega, ?_, ?_⟩
        · simp only; unfold clampSpec; omega
        · simp only; congr 1; omega
    · obtain ⟨i, hi, rfl⟩ := List.mem_map.mp hw
      rw [List.mem_range] at hi
      refine ⟨i, by omega, ?_, rfl⟩
      simp only; unfold clampSpec; omega

theorem rowWritesD_cover (data : Array Int) (Nx orow irow : Nat) (dx : Int)
    (hdx : -(Nx : Int) ≤ dx ∧ dx ≤ Nx) (x : Nat) (hx : x < Nx) :
    ∃ w ∈ rowWritesD data Nx orow irow dx,
      w.1 = orow + (clampSpec ((x : Int) + dx) Nx).toNat ∧ w.2 = data.getD (irow + x) 0 := by
  unfold rowWritesD
  simp only
  split
  · by_cases h : x < Nx - dx.natAbs
    · refine ⟨_, List.mem_append_right _ (List.mem_map.mpr ⟨x, List.mem_range.mpr h, rfl⟩), ?_, rfl⟩
      simp only; unfold clampSpec; omega
    · refine ⟨_, List.mem_append_left _ (List.mem_map.mpr ⟨Nx - 1 - x, List.mem_range.mpr (by omega), rfl⟩), ?_, ?_⟩
      · simp only; unfold clampSpec; omega
      · simp only; congr 1; omega
  · split
    · by_cases h : x < (-dx).toNat
      · refine ⟨_, List.mem_append_left _ (List.mem_map.mpr ⟨x, List.mem_range.mpr h, rfl⟩), ?_, rfl⟩
        simp only; unfold clampSpec; omega
      · refine ⟨_, List.mem_append_right _ (List.mem_map.mpr ⟨x - (-dx).toNat, List.mem_range.mpr (by omega), rfl⟩), ?_, ?_⟩
        · simp only; unfold clampSpec; omega
        · simp only; congr 1; omega
    · refine ⟨_, List.mem_map.mpr ⟨x, List.mem_range.mpr (by omega), rfl⟩, ?_, rfl⟩
      simp only; unfold clampSpec; omega

/-! ### the whole dilation branch -/

def dilateWrites (data : Array Int) (Ny Nx : Nat) (pos : List (Int × Int)) : List (Nat × Int) :=
  (List.range Ny).flatMap fun y => pos.flatMap fun d =>
    rowWritesD data Nx (fastRow Ny y d.1 * Nx) (y * Nx) d.2

theorem fastDilateLoops_eq_writes (Ny Nx : Nat) (data : Array Int) (bshape : List Nat) (bc : Array Int) :
    fastDilateLoops ⟨[Ny, Nx], data⟩ bshape bc =
      applyOrWrites (dilateWrites data Ny Nx (fastPositions Nx bshape bc true))
        (if centreSet bshape bc = true then data else Array.replicate (shapeSize [Ny, Nx]) 0) := by
  simp only [fastDilateLoops, Img.size]
  unfold applyOrWrites dilateWrites
  rw [List.foldl_flatMap]
  congr 1
  funext res y
  rw [List.foldl_flatMap]
  congr 1
  funext res d
  exact fastDilateRow_eq data Nx _ _ d.2 res

theorem ravelI_clamp2 (Ny Nx : Nat) (a b : Int) :
    ravelI [Ny, Nx] (clampPos [Ny, Nx] [a, b]) = (clampSpec a Ny).toNat * Nx + (clampSpec b Nx).toNat := by
  simp [clampPos, ravelI, shapeSize]

theorem fastDilateLoops_cell (Ny Nx : Nat) (data : Array Int) (bshape : List Nat) (bc : Array Int)
    (hdata : data.size = shapeSize [Ny, Nx]) (h01 : ∀ i, data.getD i 0 = 0 ∨ data.getD i 0 = 1)
    (i : Nat) (hi : i < shapeSize [Ny, Nx]) :
    (fastDilateLoops ⟨[Ny, Nx], data⟩ bshape bc).size = shapeSize [Ny, Nx] ∧
    (fastDilateLoops ⟨[Ny, Nx], data⟩ bshape bc).getD i 0 =
      (fastDilate ⟨[Ny, Nx], data⟩ bshape bc).getD i 0 := by
  have hsize : shapeSize [Ny, Nx] = Ny * Nx := by simp [shapeSize]
  have hNx : 0 < Nx := by
    rcases Nat.eq_zero_or_pos Nx with h | h
    · subst h; simp [shapeSize] at hi
    · exact h
  rw [fastDilateLoops_eq_writes]
  have hinit_sz : (if centreSet bshape bc = true then data else Array.replicate (shapeSize [Ny, Nx]) 0).size =
      shapeSize [Ny, Nx] := by
    split
    · exact hdata
    · simp
  have hinit01 : ∀ j, (if centreSet bshape bc = true then data else Array.replicate (shapeSize [Ny, Nx]) 0).getD j 0 = 0 ∨
      (if centreSet bshape bc = true then data else Array.replicate (shapeSize [Ny, Nx]) 0).getD j 0 = 1 := by
    intro j
    split
    · exact h01 j
    · rw [Array.getD_eq_getD_getElem?, Array.getElem?_replicate]
      split
      · left; rfl
      · left; rfl
  obtain ⟨h1, h2⟩ := applyOrWrites_getD (dilateWrites data Ny Nx (fastPositions Nx bshape bc true)) _
    i (by rw [hinit_sz]; exact hi) (hinit01 _)
  refine ⟨by rw [h1, hinit_sz], ?_⟩
  rw [h2, (fastDilate_getD Ny Nx data bshape bc hdata i hi).2]
  -- a non-zero write into cell `i` exists iff a non-zero pixel scatters onto `i`
  have key : (dilateWrites data Ny Nx (fastPositions Nx bshape bc true)).any (fun w => w.1 == i && w.2 != 0) = true ↔
      ∃ p ∈ allPos [Ny, Nx], ((Img.mk [Ny, Nx] data).getD p 0 == 0) = false ∧
        i ∈ fastTg [Ny, Nx] (fastPositions Nx bshape bc true) p := by
    simp only [List.any_eq_true, Bool.and_eq_true, beq_iff_eq, bne_iff_ne, ne_eq]
    constructor
    · rintro ⟨w, hw, hw1, hw2⟩
      unfold dilateWrites at hw
      rw [List.mem_flatMap] at hw
      obtain ⟨y, hy, hw⟩ := hw
      rw [List.mem_flatMap] at hw
      obtain ⟨d, hd, hw⟩ := hw
      rw [List.mem_range] at hy
      obtain ⟨x, hx, e1, e2⟩ := rowWritesD_mem data Nx _ _ d.2 hNx (fastPositions_dx Nx bshape bc d hd) w hw
      have hp : inside [Ny, Nx] [(y : Int), (x : Int)] = true := by simp [inside]; omega
      refine ⟨[(y : Int), (x : Int)], (mem_allPos _ _).mpr hp, ?_, ?_⟩
      · rw [getD_flat Ny Nx data y x (by omega) (by omega)]
        simp only [Int.toNat_natCast]
        rw [← e2]; simpa using hw2
      · simp only [fastTg, List.mem_map]
        refine ⟨d, hd, ?_⟩
        rw [ravelI_clamp2, ← fastRow_eq Ny y d.1 hy, ← hw1, e1]
    · rintro ⟨p, hp, hne, hin⟩
      rw [mem_allPos] at hp
      obtain ⟨y, x, rfl, hy, hx⟩ := inside2 Ny Nx p hp
      simp only [fastTg, List.mem_map] at hin
      obtain ⟨d, hd, ht⟩ := hin
      obtain ⟨w, hw, e1, e2⟩ := rowWritesD_cover data Nx (fastRow Ny y.toNat d.1 * Nx) (y.toNat * Nx) d.2
        (fastPositions_dx Nx bshape bc d hd) x.toNat (by omega)
      have ey : ((y.toNat : Nat) : Int) = y := by omega
      have ex : ((x.toNat : Nat) : Int) = x := by omega
      refine ⟨w, ?_, ?_, ?_⟩
      · unfold dilateWrites
        rw [List.mem_flatMap]
        exact ⟨y.toNat, List.mem_range.mpr (by omega), List.mem_flatMap.mpr ⟨d, hd, hw⟩⟩
      · rw [e1, fastRow_eq Ny y.toNat d.1 (by omega), ey, ex, ← ravelI_clamp2]; exact ht
      · rw [e2, ← getD_flat Ny Nx data y x hy hx]; simpa using hne
  by_cases hE : ∃ p ∈ allPos [Ny, Nx], ((Img.mk [Ny, Nx] data).getD p 0 == 0) = false ∧
        i ∈ fastTg [Ny, Nx] (fastPositions Nx bshape bc true) p
  · simp only [hE, if_true, key.mpr hE, Bool.or_true]
  · have : ¬ ((dilateWrites data Ny Nx (fastPositions Nx bshape bc true)).any (fun w => w.1 == i && w.2 != 0) = true) :=
      fun h => hE (key.mp h)
    simp only [hE, if_false, this, Bool.or_false]
    rcases hinit01 i with h | h <;> simp [h]

/-- loops = pointwise form, as arrays -/
theorem fastDilateLoops_eq (Ny Nx : Nat) (data : Array Int) (bshape : List Nat) (bc : Array Int)
    (hdata : data.size = shapeSize [Ny, Nx]) (h01 : ∀ i, data.getD i 0 = 0 ∨ data.getD i 0 = 1) :
    fastDilateLoops ⟨[Ny, Nx], data⟩ bshape bc = fastDilate ⟨[Ny, Nx], data⟩ bshape bc := by
  by_cases h0 : 0 < shapeSize [Ny, Nx]
  · obtain ⟨hf, _⟩ := fastDilateLoops_cell Ny Nx data bshape bc hdata h01 0 h0
    obtain ⟨hg, _⟩ := fastDilate_getD Ny Nx data bshape bc hdata 0 h0
    apply Array.ext
    · rw [hf, hg]
    · intro i h1 h2
      have hi : i < shapeSize [Ny, Nx] := by rw [← hf]; exact h1
      have := (fastDilateLoops_cell Ny Nx data bshape bc hdata h01 i hi).2
      rw [getD_eq_getElem _ i h1, getD_eq_getElem _ i h2] at this
      exact this
  · -- empty image: no rows, no pixels
    have hz : shapeSize [Ny, Nx] = 0 := by omega
    have hd : data = #[] := Array.eq_empty_of_size_eq_zero (by rw [hdata, hz])
    subst hd
    rw [fastDilateLoops_eq_writes, fastDilate_unfold]
    have hal : allPos [Ny, Nx] = [] := by unfold allPos; rw [hz]; rfl
    rw [hal]
    have : dilateWrites #[] Ny Nx (fastPositions Nx bshape bc true) = [] := by
      apply List.eq_nil_iff_forall_not_mem.mpr
      intro w hw
      unfold dilateWrites at hw
      rw [List.mem_flatMap] at hw
      obtain ⟨y, hy, hw⟩ := hw
      rw [List.mem_flatMap] at hw
      obtain ⟨d, hd, hw⟩ := hw
      rw [List.mem_range] at hy
      rcases Nat.eq_zero_or_pos Nx with h | h
      · subst h
        have := fastPositions_dx 0 bshape bc d hd
        have hdx : d.2 = 0 := by omega
        unfold rowWritesD at hw
        simp [hdx] at hw
      · have : 0 < Ny * Nx := Nat.mul_pos (by omega) h
        simp [shapeSize] at hz
        omega
    rw [this]
    rfl

end Mahotas.C01
