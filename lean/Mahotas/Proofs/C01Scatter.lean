/-
Helper lemmas for C01 (dilate): the scatter kernel (fold over pixels in scan order, running
maximum into an array) equals a pointwise maximum — the array disappears from the reasoning.
-/
import Mahotas.Proofs.C01
import Mahotas.Proofs.C01Index
namespace Mahotas.C01
open Mahotas

/-! ### running maximum over a list -/

/-- maximum of `lo` and the members of `l` (as a left fold, the way the kernels compute it) -/
def listMax (lo : Int) (l : List Int) : Int := l.foldl max lo

theorem listMax_cons (lo x : Int) (l : List Int) : listMax lo (x :: l) = listMax (max lo x) l := rfl

theorem le_listMax_init (lo : Int) (l : List Int) : lo ≤ listMax lo l := by
  induction l generalizing lo with
  | nil => exact Int.le_refl _
  | cons x t ih => rw [listMax_cons]; have := ih (max lo x); omega

theorem le_listMax_of_mem (lo : Int) (l : List Int) (x : Int) (h : x ∈ l) : x ≤ listMax lo l := by
  induction l generalizing lo with
  | nil => cases h
  | cons y t ih =>
    rw [listMax_cons]
    rcases List.mem_cons.mp h with rfl | h
    · have := le_listMax_init (max lo x) t; omega
    · exact ih _ h

theorem listMax_mem (lo : Int) (l : List Int) : listMax lo l = lo ∨ listMax lo l ∈ l := by
  induction l generalizing lo with
  | nil => exact Or.inl rfl
  | cons x t ih =>
    rw [listMax_cons]
    rcases ih (max lo x) with h | h
    · rw [h]
      rcases Int.le_total lo x with hx | hx
      · right; rw [Int.max_eq_right hx]; simp
      · left; exact Int.max_eq_left hx
    · right; exact List.mem_cons_of_mem _ h

theorem listMax_le (lo b : Int) (l : List Int) (h0 : lo ≤ b) (h : ∀ x ∈ l, x ≤ b) :
    listMax lo l ≤ b := by
  rcases listMax_mem lo l with e | e
  · rw [e]; exact h0
  · exact h _ e

/-- order independence: two candidate lists that dominate each other (up to `lo`) have the same maximum -/
theorem listMax_eq_of_dom (lo : Int) (l1 l2 : List Int)
    (h12 : ∀ x ∈ l1, x ≤ lo ∨ ∃ y ∈ l2, x ≤ y) (h21 : ∀ y ∈ l2, y ≤ lo ∨ ∃ x ∈ l1, y ≤ x) :
    listMax lo l1 = listMax lo l2 := by
  apply Int.le_antisymm
  · apply listMax_le _ _ _ (le_listMax_init lo l2)
    intro x hx
    rcases h12 x hx with h | ⟨y, hy, hxy⟩
    · exact Int.le_trans h (le_listMax_init lo l2)
    · exact Int.le_trans hxy (le_listMax_of_mem lo l2 y hy)
  · apply listMax_le _ _ _ (le_listMax_init lo l1)
    intro y hy
    rcases h21 y hy with h | ⟨x, hx, hyx⟩
    · exact Int.le_trans h (le_listMax_init lo l1)
    · exact Int.le_trans hyx (le_listMax_of_mem lo l1 x hx)

theorem foldl_max_map {α : Type} (f : α → Int) (l : List α) (lo : Int) :
    l.foldl (fun v x => max v (f x)) lo = listMax lo (l.map f) := by
  unfold listMax; rw [List.foldl_map]

/-! ### one cell of the output array under a running-maximum store -/

/-- `if (nval > out[j]) out[j] = nval;` -/
def updMax (lo : Int) (out : Array Int) (j : Nat) (nval : Int) : Array Int :=
  if nval > out.getD j lo then out.setIfInBounds j nval else out

theorem updMax_size (lo : Int) (out : Array Int) (j : Nat) (nval : Int) :
    (updMax lo out j nval).size = out.size := by
  unfold updMax; split <;> simp

theorem updMax_getD (lo : Int) (out : Array Int) (j i : Nat) (nval : Int) (hi : i < out.size) :
    (updMax lo out j nval).getD i lo = if j = i then max (out.getD i lo) nval else out.getD i lo := by
  unfold updMax
  rw [Array.getD_eq_getD_getElem?, Array.getD_eq_getD_getElem?, Array.getD_eq_getD_getElem?]
  by_cases hji : j = i
  · subst hji
    simp only [if_true]
    by_cases hgt : nval > out[j]?.getD lo
    · simp only [hgt, if_true]
      simp only [Array.getElem?_setIfInBounds, hi, if_true]
      simp only [Option.getD_some]; omega
    · simp only [hgt, if_false]; omega
  · simp only [hji, if_false]
    split
    · simp only [Array.getElem?_setIfInBounds, hji, if_false]
    · rfl

theorem dilateScatter_eq (dt : DT) (shape : List Nat) (hs : ∀ d ∈ shape, 0 < d) (v : Int)
    (p : List Int) (out : Array Int) (kh : List Int × Int) :
    dilateScatter dt shape v p out kh =
      updMax dt.lo out (ravelI shape (clampPos shape (addPos p kh.1))) (dilateAdd dt v kh.2) := by
  unfold dilateScatter updMax
  rw [fixPos_nearest shape _ hs]

/-- what one scatter step does to the cell with flat index `i` -/
def scatStep (dt : DT) (shape : List Nat) (v : Int) (p : List Int) (i : Nat) (acc : Int)
    (kh : List Int × Int) : Int :=
  if ravelI shape (clampPos shape (addPos p kh.1)) = i then max acc (dilateAdd dt v kh.2) else acc

theorem scatter_inner (dt : DT) (shape : List Nat) (hs : ∀ d ∈ shape, 0 < d) (v : Int) (p : List Int)
    (i : Nat) (sup : List (List Int × Int)) (out : Array Int) (hi : i < out.size) :
    (sup.foldl (dilateScatter dt shape v p) out).size = out.size ∧
    (sup.foldl (dilateScatter dt shape v p) out).getD i dt.lo =
      sup.foldl (scatStep dt shape v p i) (out.getD i dt.lo) := by
  induction sup generalizing out with
  | nil => simp
  | cons kh t ih =>
    simp only [List.foldl_cons]
    have e := dilateScatter_eq dt shape hs v p out kh
    have hsz : (dilateScatter dt shape v p out kh).size = out.size := by rw [e, updMax_size]
    obtain ⟨h1, h2⟩ := ih (dilateScatter dt shape v p out kh) (by omega)
    refine ⟨by omega, ?_⟩
    rw [h2]
    congr 1
    rw [e, updMax_getD _ _ _ _ _ hi]
    rfl

/-- the per-pixel body of `dilate<T>` seen from cell `i` -/
def scatPix (dt : DT) (A : Img Int) (sup : List (List Int × Int)) (i : Nat) (acc : Int)
    (p : List Int) : Int :=
  if A.getD p dt.lo = dt.lo then acc else sup.foldl (scatStep dt A.shape (A.getD p dt.lo) p i) acc

theorem scatter_outer (dt : DT) (A : Img Int) (hs : ∀ d ∈ A.shape, 0 < d) (sup : List (List Int × Int))
    (i : Nat) (ps : List (List Int)) (out : Array Int) (hi : i < out.size) :
    let r := ps.foldl (fun out p =>
      let v := A.getD p dt.lo
      if v = dt.lo then out else sup.foldl (dilateScatter dt A.shape v p) out) out
    r.size = out.size ∧ r.getD i dt.lo = ps.foldl (scatPix dt A sup i) (out.getD i dt.lo) := by
  induction ps generalizing out with
  | nil => simp
  | cons p t ih =>
    simp only [List.foldl_cons]
    by_cases hv : A.getD p dt.lo = dt.lo
    · simp only [hv, if_true]
      have := ih out hi
      simp only [scatPix, hv, if_true] at this ⊢
      exact this
    · simp only [hv, if_false]
      obtain ⟨h1, h2⟩ := scatter_inner dt A.shape hs (A.getD p dt.lo) p i sup out hi
      have := ih (sup.foldl (dilateScatter dt A.shape (A.getD p dt.lo) p) out) (by omega)
      simp only at this
      refine ⟨by omega, ?_⟩
      rw [this.2, h2]
      simp only [scatPix, hv, if_false]

/-- all values a scatter step stores (or tries to store) into cell `i`, in the order the kernel visits them -/
def scatCands (dt : DT) (A : Img Int) (sup : List (List Int × Int)) (i : Nat) : List Int :=
  (allPos A.shape).flatMap fun p =>
    if A.getD p dt.lo = dt.lo then [] else
      sup.filterMap fun kh =>
        if ravelI A.shape (clampPos A.shape (addPos p kh.1)) = i
        then some (dilateAdd dt (A.getD p dt.lo) kh.2) else none

theorem scatStep_fold (dt : DT) (shape : List Nat) (v : Int) (p : List Int) (i : Nat)
    (sup : List (List Int × Int)) (acc : Int) :
    sup.foldl (scatStep dt shape v p i) acc =
    (sup.filterMap fun kh =>
        if ravelI shape (clampPos shape (addPos p kh.1)) = i
        then some (dilateAdd dt v kh.2) else none).foldl max acc := by
  rw [List.foldl_filterMap]
  congr 1
  funext acc kh
  unfold scatStep
  split <;> rfl

theorem scatPix_fold (dt : DT) (A : Img Int) (sup : List (List Int × Int)) (i : Nat)
    (ps : List (List Int)) (acc : Int) :
    ps.foldl (scatPix dt A sup i) acc =
    (ps.flatMap fun p =>
      if A.getD p dt.lo = dt.lo then [] else
        sup.filterMap fun kh =>
          if ravelI A.shape (clampPos A.shape (addPos p kh.1)) = i
          then some (dilateAdd dt (A.getD p dt.lo) kh.2) else none).foldl max acc := by
  rw [List.foldl_flatMap]
  congr 1
  funext acc p
  unfold scatPix
  split
  · rfl
  · exact scatStep_fold dt A.shape _ p i sup acc

/-- **the key lemma**: the cell `i` of the scatter model is the maximum of `lo` and the candidates for `i`. -/
theorem dilateModel_getD (dt : DT) (A : Img Int) (hs : ∀ d ∈ A.shape, 0 < d)
    (sup : List (List Int × Int)) (i : Nat) (hi : i < A.size) :
    (dilateModel dt A sup).size = A.size ∧
    (dilateModel dt A sup).getD i dt.lo = listMax dt.lo (scatCands dt A sup i) := by
  have h := scatter_outer dt A hs sup i (allPos A.shape) (Array.replicate A.size dt.lo) (by simpa using hi)
  simp only at h
  unfold dilateModel
  refine ⟨by simpa using h.1, ?_⟩
  rw [h.2, scatPix_fold]
  unfold listMax scatCands
  congr 1
  simp [Array.getD_eq_getD_getElem?, hi]

theorem mem_scatCands (dt : DT) (A : Img Int) (sup : List (List Int × Int)) (i : Nat) (x : Int) :
    x ∈ scatCands dt A sup i ↔
      ∃ p, inside A.shape p = true ∧ A.getD p dt.lo ≠ dt.lo ∧ ∃ kh ∈ sup,
        ravelI A.shape (clampPos A.shape (addPos p kh.1)) = i ∧ x = dilateAdd dt (A.getD p dt.lo) kh.2 := by
  unfold scatCands
  simp only [List.mem_flatMap, mem_allPos]
  constructor
  · rintro ⟨p, hp, hx⟩
    by_cases hv : A.getD p dt.lo = dt.lo
    · simp [hv] at hx
    · simp only [hv, if_false, List.mem_filterMap] at hx
      obtain ⟨kh, hkh, hx⟩ := hx
      refine ⟨p, hp, hv, kh, hkh, ?_⟩
      split at hx
      · next h => exact ⟨h, by simpa using hx.symm⟩
      · cases hx
  · rintro ⟨p, hp, hv, kh, hkh, ht, rfl⟩
    refine ⟨p, hp, ?_⟩
    simp only [hv, if_false, List.mem_filterMap]
    exact ⟨kh, hkh, by simp [ht]⟩

/-- target index equals the index of `q` iff the clamped position is `q` -/
theorem target_eq_iff (shape : List Nat) (hs : ∀ d ∈ shape, 0 < d) (p k q : List Int)
    (hp : inside shape p = true) (hk : k.length = shape.length) (hq : inside shape q = true) :
    ravelI shape (clampPos shape (addPos p k)) = ravelI shape q ↔ clampPos shape (addPos p k) = q := by
  constructor
  · intro h
    apply ravelI_inj shape _ _ _ hq h
    apply clampPos_inside shape _ hs
    rw [addPos_length, inside_length hp, hk]; omega
  · intro h; rw [h]

/-! ### scatter against gather -/

/-- the value the gather specification takes from member `kh` at pixel `q` -/
def gatherVal (dt : DT) (A : Img Int) (q : List Int) (kh : List Int × Int) : Int :=
  let a := A.getD (clampPos A.shape (subPos q kh.1)) dt.lo
  if a = dt.lo then dt.lo else if dt.isBool then a else dt.clamp (a + kh.2)

theorem dilateSpecAt_eq (dt : DT) (A : Img Int) (sup : List (List Int × Int)) (q : List Int) :
    dilateSpecAt dt A sup q = listMax dt.lo ((sup.filter (isMember dt)).map (gatherVal dt A q)) := by
  unfold dilateSpecAt
  rw [← foldl_max_map]
  rfl

/-- the scatter value agrees with the specification's arithmetic: for a member `dilate_add` is the
    saturated sum (bool: the pixel itself), for a non-member it is the dtype minimum -/
def ValOK (dt : DT) (A : Img Int) (sup : List (List Int × Int)) : Prop :=
  ∀ kh ∈ sup, ∀ p, inside A.shape p = true → A.getD p dt.lo ≠ dt.lo →
    dilateAdd dt (A.getD p dt.lo) kh.2 =
      if isMember dt kh = true then
        (if dt.isBool then A.getD p dt.lo else dt.clamp (A.getD p dt.lo + kh.2))
      else dt.lo

/-- scatter = gather at `q` as soon as the (source pixel, member) pairs that reach `q` by a clamped
    scatter and by a clamped gather are the same up to an exchange of members of equal height. -/
theorem scatter_eq_gather_at (dt : DT) (A : Img Int) (sup : List (List Int × Int)) (q : List Int)
    (hs : ∀ d ∈ A.shape, 0 < d) (hq : inside A.shape q = true)
    (hlen : ∀ kh ∈ sup, kh.1.length = A.shape.length)
    (hval : ValOK dt A sup)
    (hSG : ∀ p kh, inside A.shape p = true → kh ∈ sup → isMember dt kh = true →
      clampPos A.shape (addPos p kh.1) = q →
      ∃ kh' ∈ sup, isMember dt kh' = true ∧ kh'.2 = kh.2 ∧ clampPos A.shape (subPos q kh'.1) = p)
    (hGS : ∀ kh ∈ sup, isMember dt kh = true →
      ∃ kh' ∈ sup, isMember dt kh' = true ∧ kh'.2 = kh.2 ∧
        clampPos A.shape (addPos (clampPos A.shape (subPos q kh.1)) kh'.1) = q) :
    (dilateModel dt A sup).getD (ravelI A.shape q) dt.lo = dilateSpecAt dt A sup q := by
  have hi : ravelI A.shape q < A.size := ravelI_lt A.shape q hq
  rw [(dilateModel_getD dt A hs sup _ hi).2, dilateSpecAt_eq]
  apply listMax_eq_of_dom
  · intro x hx
    rw [mem_scatCands] at hx
    obtain ⟨p, hp, hv, kh, hkh, ht, rfl⟩ := hx
    rw [target_eq_iff A.shape hs p kh.1 q hp (hlen kh hkh) hq] at ht
    rw [hval kh hkh p hp hv]
    by_cases hm : isMember dt kh = true
    · right
      obtain ⟨kh', hkh', hm', hh, hg⟩ := hSG p kh hp hkh hm ht
      refine ⟨gatherVal dt A q kh', ?_, ?_⟩
      · exact List.mem_map.mpr ⟨kh', List.mem_filter.mpr ⟨hkh', hm'⟩, rfl⟩
      · simp only [gatherVal, hg, hv, hm, hh, if_true, if_false]; exact Int.le_refl _
    · left; simp only [hm]; exact Int.le_refl _
  · intro y hy
    obtain ⟨kh, hkh, rfl⟩ := List.mem_map.mp hy
    obtain ⟨hkh, hm⟩ := List.mem_filter.mp hkh
    by_cases hv : A.getD (clampPos A.shape (subPos q kh.1)) dt.lo = dt.lo
    · left; simp only [gatherVal, hv, if_true]; exact Int.le_refl _
    · right
      obtain ⟨kh', hkh', hm', hh, hg⟩ := hGS kh hkh hm
      have hp : inside A.shape (clampPos A.shape (subPos q kh.1)) = true := by
        apply clampPos_inside A.shape _ hs
        rw [subPos_length, inside_length hq, hlen kh hkh]; omega
      refine ⟨dilateAdd dt (A.getD (clampPos A.shape (subPos q kh.1)) dt.lo) kh'.2, ?_, ?_⟩
      · rw [mem_scatCands]
        exact ⟨_, hp, hv, kh', hkh', by rw [hg], rfl⟩
      · rw [hval kh' hkh' _ hp hv]
        simp only [gatherVal, hv, hm', hh, if_true, if_false]; exact Int.le_refl _

theorem valOK_wf (dt : DT) (wf : dt.WF) (A : Img Int) (sup : List (List Int × Int))
    (hA : ∀ p, inside A.shape p = true → dt.InRange (A.getD p dt.lo))
    (hB : ∀ kh ∈ sup, dt.InRange kh.2 ∧ (0 ≤ kh.2 ∨ kh.2 = dt.lo)) : ValOK dt A sup := by
  intro kh hkh p hp hv
  obtain ⟨hr, h0⟩ := hB kh hkh
  have hnb := wf.notBool
  by_cases he : kh.2 = dt.lo
  · have : isMember dt kh = false := by simp [isMember, hnb, he]
    simp only [this]
    unfold dilateAdd
    simp [hnb, hv, he]
  · have : isMember dt kh = true := by simp [isMember, hnb, he]
    simp only [this, hnb, if_true]
    have h0' : 0 ≤ kh.2 := by rcases h0 with h | h; exact h; exact absurd h he
    rw [dilateAdd_spec dt wf _ _ (hA p hp) hr h0']
    simp [hv, he]

theorem valOK_bool (A : Img Int) (sup : List (List Int × Int))
    (hA : ∀ p, inside A.shape p = true → A.getD p 0 = 0 ∨ A.getD p 0 = 1)
    (hB : ∀ kh ∈ sup, kh.2 = 1) : ValOK dtBool A sup := by
  intro kh hkh p hp hv
  have h1 := hB kh hkh
  have : isMember dtBool kh = true := by simp [isMember, dtBool, h1]
  simp only [this, if_true]
  have hv' : A.getD p 0 = 1 := by
    rcases hA p hp with h | h
    · exact absurd h hv
    · exact h
  show dilateAdd dtBool (A.getD p 0) kh.2 = if dtBool.isBool = true then A.getD p 0 else _
  unfold dilateAdd
  simp [dtBool, h1, hv']

end Mahotas.C01
