/-
C01, round 4: dilation at **every** pixel for non-flat elements whose heights do not increase away from the
centre ("height-monotone star-shaped") — in particular the cross / box / disk on a **signed** dtype, where a 0
entry is a member of height 0.

Scatter with clamp vs gather with clamp: if `clamp(p + k) = q` then `k' = q − p` lies between 0 and `k`, is a
member of height `≥ h(k)`, and the gather from `q` through `k'` reads `p` unclamped, giving a value
`≥ dilate_add(A p, h(k))`; conversely the gather through `k` reads `p = clamp(q − k) = q − k'` with `k'` between 0
and `k`, and the scatter from `p` through `k'` lands on `q`, giving a value `≥` the gathered one.
-/
import Mahotas.Proofs.C01Star
import Mahotas.Proofs.C02Families
namespace Mahotas.C01
open Mahotas

theorem clamp_mono (dt : DT) (x y : Int) (h : x ≤ y) : dt.clamp x ≤ dt.clamp y := by
  unfold DT.clamp; omega

/-- scatter = gather at `q` as soon as every (source pixel, member) pair that reaches `q` one way is
    dominated by a pair that reaches it the other way through a member of **at least the same height** -/
theorem scatter_eq_gather_at_mono (dt : DT) (A : Img Int) (sup : List (List Int × Int)) (q : List Int)
    (hs : ∀ d ∈ A.shape, 0 < d) (hq : inside A.shape q = true)
    (hlen : ∀ kh ∈ sup, kh.1.length = A.shape.length)
    (hval : ValOK dt A sup)
    (hSG : ∀ p kh, inside A.shape p = true → kh ∈ sup → isMember dt kh = true →
      clampPos A.shape (addPos p kh.1) = q →
      ∃ kh' ∈ sup, isMember dt kh' = true ∧ kh.2 ≤ kh'.2 ∧ clampPos A.shape (subPos q kh'.1) = p)
    (hGS : ∀ kh ∈ sup, isMember dt kh = true →
      ∃ kh' ∈ sup, isMember dt kh' = true ∧ kh.2 ≤ kh'.2 ∧
        clampPos A.shape (addPos (clampPos A.shape (subPos q kh.1)) kh'.1) = q) :
    (dilateModel dt A sup).getD (ravelI A.shape q) dt.lo = dilateSpecAt dt A sup q := by
  have hi : ravelI A.shape q < A.size := ravelI_lt A.shape q hq
  rw [(dilateModel_getD dt A hs sup _ hi).2, dilateSpecAt_eq]
  apply listMax_eq_of_dom
  · intro x hx
    rw [mem_scatCands] at hx
    obtain ⟨p, hp, hv, kh, hkh, ht, rfl⟩ := hx
    rw [target_eq_iff A.shape hs p kh.1 q hp (hlen kh hkh) hq] at ht
    rw [hval kh hkh p hp hv]
    by_cases hm : isMember dt kh = true
    · right
      obtain ⟨kh', hkh', hm', hh, hg⟩ := hSG p kh hp hkh hm ht
      refine ⟨gatherVal dt A q kh', ?_, ?_⟩
      · exact List.mem_map.mpr ⟨kh', List.mem_filter.mpr ⟨hkh', hm'⟩, rfl⟩
      · simp only [gatherVal, hg, hv, hm, if_true, if_false]
        split
        · exact Int.le_refl _
        · exact clamp_mono dt _ _ (by omega)
    · left; simp only [hm]; exact Int.le_refl _
  · intro y hy
    obtain ⟨kh, hkh, rfl⟩ := List.mem_map.mp hy
    obtain ⟨hkh, hm⟩ := List.mem_filter.mp hkh
    by_cases hv : A.getD (clampPos A.shape (subPos q kh.1)) dt.lo = dt.lo
    · left; simp only [gatherVal, hv, if_true]; exact Int.le_refl _
    · right
      obtain ⟨kh', hkh', hm', hh, hg⟩ := hGS kh hkh hm
      have hp : inside A.shape (clampPos A.shape (subPos q kh.1)) = true := by
        apply clampPos_inside A.shape _ hs
        rw [subPos_length, inside_length hq, hlen kh hkh]; omega
      refine ⟨dilateAdd dt (A.getD (clampPos A.shape (subPos q kh.1)) dt.lo) kh'.2, ?_, ?_⟩
      · rw [mem_scatCands]
        exact ⟨_, hp, hv, kh', hkh', by rw [hg], rfl⟩
      · rw [hval kh' hkh' _ hp hv]
        simp only [gatherVal, hv, hm', if_true, if_false]
        split
        · exact Int.le_refl _
        · exact clamp_mono dt _ _ (by omega)

/-- the members of the element are coordinate-wise star-shaped and their heights do not increase away from
    the centre: with a member `(k, h)` every offset `k'` between 0 and `k` is a member of height `≥ h` -/
def HeightMonotoneStar (dt : DT) (sup : List (List Int × Int)) : Prop :=
  ∀ kh ∈ sup, isMember dt kh = true → ∀ k', between k' kh.1 = true →
    ∃ kh' ∈ sup, isMember dt kh' = true ∧ kh.2 ≤ kh'.2 ∧ kh'.1 = k'

/-- the executable test `starMonotone` of the driver is sound for `HeightMonotoneStar` -/
theorem heightMonotone_of_check (dt : DT) (bshape : List Nat) (sup : List (List Int × Int))
    (hbox : ∀ kh ∈ sup, kh.1 ∈ boxOffsets bshape)
    (h : starMonotone bshape (sup.filter (isMember dt)) = true) : HeightMonotoneStar dt sup := by
  intro kh hkh hm k' hb
  have hmem : kh ∈ sup.filter (isMember dt) := List.mem_filter.mpr ⟨hkh, hm⟩
  obtain ⟨i, hi, hk⟩ := (mem_boxOffsets bshape kh.1).mp (hbox kh hkh)
  have hb' := hb
  rw [hk] at hb'
  obtain ⟨hin, hk'⟩ := between_boxOffsets bshape k' i hi hb'
  have hk'box : k' ∈ boxOffsets bshape := (mem_boxOffsets bshape k').mpr ⟨_, hin, hk'⟩
  unfold starMonotone at h
  simp only [List.all_eq_true, Bool.or_eq_true, Bool.not_eq_true', List.any_eq_true, Bool.and_eq_true,
    beq_iff_eq, decide_eq_true_eq] at h
  rcases h kh hmem k' hk'box with h1 | ⟨kh', hkh', e, hle⟩
  · rw [hb] at h1; cases h1
  · exact ⟨kh', (List.mem_filter.mp hkh').1, (List.mem_filter.mp hkh').2, hle, e⟩

/-- **dilation at every pixel for height-monotone star-shaped elements** -/
theorem dilate_heightMonotone_everywhere (dt : DT) (A : Img Int) (sup : List (List Int × Int)) (q : List Int)
    (hs : ∀ d ∈ A.shape, 0 < d) (hlen : ∀ kh ∈ sup, kh.1.length = A.shape.length)
    (hval : ValOK dt A sup) (hmono : HeightMonotoneStar dt sup) (hq : inside A.shape q = true) :
    (dilateModel dt A sup).getD (ravelI A.shape q) dt.lo = dilateSpecAt dt A sup q := by
  apply scatter_eq_gather_at_mono dt A sup q hs hq hlen hval
  · intro p kh hp hkh hm ht
    obtain ⟨hbt, hg⟩ := star_scatter A.shape p q kh.1 hp hq (hlen kh hkh) ht
    obtain ⟨kh', hkh', hm', hh, hk'⟩ := hmono kh hkh hm _ hbt
    exact ⟨kh', hkh', hm', hh, by rw [hk']; exact hg⟩
  · intro kh hkh hm
    obtain ⟨hbt, hg⟩ := star_gather A.shape q kh.1 hq (hlen kh hkh)
    obtain ⟨kh', hkh', hm', hh, hk'⟩ := hmono kh hkh hm _ hbt
    exact ⟨kh', hkh', hm', hh, by rw [hk']; exact hg⟩

/-- a cross / disk / odd all-ones box **on a signed dtype** (every cell of the box is a member, height 1 on
    the footprint and 0 off it) is height-monotone star-shaped -/
theorem heightMonotone_regular_signed (dt : DT) (wf : dt.WF) (hneg : dt.lo < 0) {d : Nat} {S : List Nat}
    {bc : Array Int} (h : RegularElem d S bc) : HeightMonotoneStar dt (support S bc false) := by
  have hmemb : ∀ kh ∈ support S bc false, isMember dt kh = true := by
    intro kh hkh
    unfold isMember
    rw [wf.notBool]
    rcases h.heights false kh hkh with h0 | h1 <;> simp <;> omega
  intro kh hkh _ k' hb
  obtain ⟨i, hi, hk⟩ := (mem_boxOffsets S kh.1).mp (support_mem_boxOffsets S bc false kh hkh)
  have hb' := hb
  rw [hk] at hb'
  obtain ⟨hin, hk'⟩ := between_boxOffsets S k' i hi hb'
  obtain ⟨kh', hkh', e⟩ := (mem_support_false_fst S bc k').mpr ((mem_boxOffsets S k').mpr ⟨_, hin, hk'⟩)
  rcases h.heights false kh hkh with h0 | h1
  · refine ⟨kh', hkh', hmemb kh' hkh', ?_, e⟩
    rcases h.heights false kh' hkh' with h0' | h1' <;> omega
  · have hkt : kh ∈ support S bc true := (mem_support_true_iff S bc kh).mpr ⟨hkh, by omega⟩
    have h1m := h.star_mem kh hkt k' hb
    have h1f := ((mem_support_true_iff S bc _).mp h1m).1
    exact ⟨(k', 1), h1f, hmemb _ h1f, by show kh.2 ≤ 1; omega, rfl⟩

end Mahotas.C01
