/-
Helper lemmas for C01 (dilate): where clamping is unobservable.
* box-interior pixels: no clamped scatter lands on `q`, no gather from `q` is clamped;
* coordinate-wise star-shaped supports (F12 ported from `StarScatterGatherSpike.lean` to the
  model's `clampPos/addPos/subPos` on `List Int`): a clamped scatter from `p` reaches `q`
  iff a clamped gather from `q` reads `p`, through the member `q − p`.
-/
import Mahotas.Proofs.C01Scatter
namespace Mahotas.C01
open Mahotas

/-! ### offsets of the element box -/

/-- `k` is an offset of the element box: `k + c` is a position of the box -/
theorem mem_boxOffsets (bshape : List Nat) (k : List Int) :
    k ∈ boxOffsets bshape ↔ ∃ i, inside bshape i = true ∧ k = subPos i (centreOf bshape) := by
  unfold boxOffsets
  simp only [List.mem_map, mem_allPos]
  constructor
  · rintro ⟨i, hi, rfl⟩; exact ⟨i, hi, rfl⟩
  · rintro ⟨i, hi, rfl⟩; exact ⟨i, hi, rfl⟩

theorem centreOf_length (s : List Nat) : (centreOf s).length = s.length := by
  simp [centreOf]

theorem boxOffsets_length (bshape : List Nat) (k : List Int) (h : k ∈ boxOffsets bshape) :
    k.length = bshape.length := by
  obtain ⟨i, hi, rfl⟩ := (mem_boxOffsets bshape k).mp h
  rw [subPos_length, inside_length hi, centreOf_length]; omega

/-- every offset of `support` is an offset of the element box -/
theorem support_mem_boxOffsets (bshape : List Nat) (bc : Array Int) (compress : Bool)
    (kh : List Int × Int) (h : kh ∈ support bshape bc compress) : kh.1 ∈ boxOffsets bshape := by
  unfold support at h
  simp only [List.mem_filterMap, List.mem_range] at h
  obtain ⟨i, hi, h⟩ := h
  rw [mem_boxOffsets]
  refine ⟨unravelI bshape i, inside_unravelI bshape i hi, ?_⟩
  split at h
  · cases h
  · cases h; rfl

/-! ### box-interior pixels -/

theorem boxInterior_cons (n : Nat) (ns : List Nat) (b : Nat) (bs : List Nat) (q : Int) (qs : List Int) :
    boxInterior (n :: ns) (b :: bs) (q :: qs) = true ↔
      ((0 ≤ q - ((b / 2 : Nat) : Int) ∧ q - ((b / 2 : Nat) : Int) < n) ∧
       (0 ≤ q + (((b : Int) - 1) - ((b / 2 : Nat) : Int)) ∧ q + (((b : Int) - 1) - ((b / 2 : Nat) : Int)) < n) ∧
       (0 ≤ q - (((b : Int) - 1) - ((b / 2 : Nat) : Int)) ∧ q - (((b : Int) - 1) - ((b / 2 : Nat) : Int)) < n) ∧
       (0 ≤ q + ((b / 2 : Nat) : Int) ∧ q + ((b / 2 : Nat) : Int) < n)) ∧
      boxInterior ns bs qs = true := by
  simp only [boxInterior, centreOf, List.map_cons, subPos, addPos, inside_cons, Bool.and_eq_true]
  constructor
  · rintro ⟨⟨⟨⟨h1, h1'⟩, h2, h2'⟩, h3, h3'⟩, h4, h4'⟩
    exact ⟨⟨h1, h2, h3, h4⟩, ⟨⟨h1', h2'⟩, h3'⟩, h4'⟩
  · rintro ⟨⟨h1, h2, h3, h4⟩, ⟨⟨h1', h2'⟩, h3'⟩, h4'⟩
    exact ⟨⟨⟨⟨h1, h1'⟩, h2, h2'⟩, h3, h3'⟩, h4, h4'⟩

/-- at a box-interior pixel a clamped scatter through a box offset that lands on `q` was not clamped,
    and the gather from `q` through the same offset reads the source pixel -/
theorem boxInterior_scatter (shape bshape : List Nat) (q p i : List Int)
    (hl : bshape.length = shape.length)
    (hb : boxInterior shape bshape q = true) (hp : inside shape p = true) (hq : inside shape q = true)
    (hi : inside bshape i = true)
    (h : clampPos shape (addPos p (subPos i (centreOf bshape))) = q) :
    clampPos shape (subPos q (subPos i (centreOf bshape))) = p := by
  induction shape generalizing bshape q p i with
  | nil =>
    cases p with
    | nil => cases q <;> simp_all [clampPos, inside]
    | cons _ _ => simp [inside] at hp
  | cons n ns ih =>
    cases bshape with
    | nil => simp at hl
    | cons b bs =>
      cases p with
      | nil => simp [inside] at hp
      | cons p0 ps =>
        cases q with
        | nil => simp [inside] at hq
        | cons q0 qs =>
          cases i with
          | nil => simp [inside] at hi
          | cons i0 is =>
            rw [boxInterior_cons] at hb
            rw [inside_cons] at hp hq hi
            simp only [centreOf, List.map_cons, subPos, addPos, clampPos, List.cons.injEq] at h ⊢
            refine ⟨?_, ih bs qs ps is (by simpa using hl) hb.2 hp.2 hq.2 hi.2 h.2⟩
            have h1 := h.1
            unfold clampSpec at h1 ⊢
            omega

/-- at a box-interior pixel a gather through a box offset is not clamped, and scattering back
    through the same offset lands on `q` -/
theorem boxInterior_gather (shape bshape : List Nat) (q i : List Int)
    (hl : bshape.length = shape.length)
    (hb : boxInterior shape bshape q = true) (hq : inside shape q = true)
    (hi : inside bshape i = true) :
    clampPos shape (addPos (clampPos shape (subPos q (subPos i (centreOf bshape))))
      (subPos i (centreOf bshape))) = q := by
  induction shape generalizing bshape q i with
  | nil => cases q <;> simp_all [clampPos, inside]
  | cons n ns ih =>
    cases bshape with
    | nil => simp at hl
    | cons b bs =>
      cases q with
      | nil => simp [inside] at hq
      | cons q0 qs =>
        cases i with
        | nil => simp [inside] at hi
        | cons i0 is =>
          rw [boxInterior_cons] at hb
          rw [inside_cons] at hq hi
          simp only [centreOf, List.map_cons, subPos, addPos, clampPos, List.cons.injEq]
          refine ⟨?_, ih bs qs is (by simpa using hl) hb.2 hq.2 hi.2⟩
          unfold clampSpec
          omega

/-! ### star-shaped supports (F12) -/

theorem between_cons (a : Int) (as : List Int) (b : Int) (bs : List Int) :
    between (a :: as) (b :: bs) = true ↔
      ((0 ≤ a ∧ a ≤ b) ∨ (b ≤ a ∧ a ≤ 0)) ∧ between as bs = true := by
  simp [between]

/-- scatter side: if the clamped `p + k` is `q` then `q − p` lies between `0` and `k`,
    and the gather from `q` through `q − p` reads `p` (unclamped). -/
theorem star_scatter (shape : List Nat) (p q k : List Int)
    (hp : inside shape p = true) (hq : inside shape q = true) (hk : k.length = shape.length)
    (h : clampPos shape (addPos p k) = q) :
    between (subPos q p) k = true ∧ clampPos shape (subPos q (subPos q p)) = p := by
  induction shape generalizing p q k with
  | nil =>
    cases p with
    | nil => cases q <;> cases k <;> simp_all [subPos, clampPos, inside, between]
    | cons _ _ => simp [inside] at hp
  | cons n ns ih =>
    cases p with
    | nil => simp [inside] at hp
    | cons p0 ps =>
      cases q with
      | nil => simp [inside] at hq
      | cons q0 qs =>
        cases k with
        | nil => simp at hk
        | cons k0 ks =>
          rw [inside_cons] at hp hq
          simp only [addPos, clampPos, List.cons.injEq] at h
          obtain ⟨ih1, ih2⟩ := ih ps qs ks hp.2 hq.2 (by simpa using hk) h.2
          have h1 := h.1
          simp only [subPos, clampPos, between_cons, List.cons.injEq]
          unfold clampSpec at h1 ⊢
          exact ⟨⟨by omega, ih1⟩, by omega, ih2⟩

/-- gather side: `p = clamp(q − k)`; then `q − p` lies between `0` and `k`
    and the scatter from `p` through `q − p` lands on `q` (unclamped). -/
theorem star_gather (shape : List Nat) (q k : List Int)
    (hq : inside shape q = true) (hk : k.length = shape.length) :
    between (subPos q (clampPos shape (subPos q k))) k = true ∧
    clampPos shape (addPos (clampPos shape (subPos q k)) (subPos q (clampPos shape (subPos q k)))) = q := by
  induction shape generalizing q k with
  | nil => cases q <;> cases k <;> simp_all [subPos, clampPos, inside, between]
  | cons n ns ih =>
    cases q with
    | nil => simp [inside] at hq
    | cons q0 qs =>
      cases k with
      | nil => simp at hk
      | cons k0 ks =>
        rw [inside_cons] at hq
        obtain ⟨ih1, ih2⟩ := ih qs ks hq.2 (by simpa using hk)
        simp only [subPos, addPos, clampPos, between_cons, List.cons.injEq]
        unfold clampSpec
        exact ⟨⟨by omega, ih1⟩, by omega, ih2⟩

/-- an offset between `0` and a box offset is a box offset -/
theorem between_boxOffsets (bshape : List Nat) (k' i : List Int)
    (hi : inside bshape i = true)
    (hb : between k' (subPos i (centreOf bshape)) = true) :
    inside bshape (addPos k' (centreOf bshape)) = true ∧
    k' = subPos (addPos k' (centreOf bshape)) (centreOf bshape) := by
  induction bshape generalizing k' i with
  | nil =>
    cases i with
    | nil => cases k' <;> simp_all [centreOf, subPos, addPos, inside, between]
    | cons _ _ => simp [inside] at hi
  | cons b bs ih =>
    cases i with
    | nil => simp [inside] at hi
    | cons i0 is =>
      cases k' with
      | nil => simp [centreOf, subPos, between] at hb
      | cons a as =>
        rw [inside_cons] at hi
        simp only [centreOf, List.map_cons, subPos, between_cons] at hb
        obtain ⟨ih1, ih2⟩ := ih as is hi.2 hb.2
        simp only [centreOf, List.map_cons, addPos, subPos, inside_cons, List.cons.injEq]
        simp only [centreOf] at ih1 ih2
        exact ⟨⟨by omega, ih1⟩, by omega, ih2⟩

theorem flatHeights_eq (hs : List Int) (h : flatHeights hs = true) :
    ∀ x ∈ hs, ∀ y ∈ hs, x = y := by
  cases hs with
  | nil => intro x hx; cases hx
  | cons a t =>
    simp only [flatHeights, List.all_eq_true, beq_iff_eq] at h
    have key : ∀ x ∈ a :: t, x = a := by
      intro x hx
      rcases List.mem_cons.mp hx with rfl | hx
      · rfl
      · exact h x hx
    intro x hx y hy
    rw [key x hx, key y hy]

/-- what the executable test `starShaped … && flatHeights …` of the driver gives: a member between
    `0` and a member is a member, of the same height -/
theorem star_exchange (dt : DT) (bshape : List Nat) (sup : List (List Int × Int))
    (hbox : ∀ kh ∈ sup, kh.1 ∈ boxOffsets bshape)
    (hstar : starShaped bshape ((sup.filter (isMember dt)).map (·.1)) = true)
    (hflat : flatHeights ((sup.filter (isMember dt)).map (·.2)) = true)
    (kh : List Int × Int) (hkh : kh ∈ sup) (hm : isMember dt kh = true) (k' : List Int)
    (hb : between k' kh.1 = true) :
    ∃ kh' ∈ sup, isMember dt kh' = true ∧ kh'.2 = kh.2 ∧ kh'.1 = k' := by
  have hmem : kh ∈ sup.filter (isMember dt) := List.mem_filter.mpr ⟨hkh, hm⟩
  obtain ⟨i, hi, hk⟩ := (mem_boxOffsets bshape kh.1).mp (hbox kh hkh)
  rw [hk] at hb
  obtain ⟨hin, hk'⟩ := between_boxOffsets bshape k' i hi hb
  have hk'box : k' ∈ boxOffsets bshape := (mem_boxOffsets bshape k').mpr ⟨_, hin, hk'⟩
  unfold starShaped at hstar
  simp only [List.all_eq_true, Bool.or_eq_true, Bool.not_eq_true', List.contains_iff_mem] at hstar
  have := hstar kh.1 (List.mem_map.mpr ⟨kh, hmem, rfl⟩) k' hk'box
  rw [← hk] at hb
  rcases this with h | h
  · rw [hb] at h; cases h
  · obtain ⟨kh', hkh', e⟩ := List.mem_map.mp h
    refine ⟨kh', (List.mem_filter.mp hkh').1, (List.mem_filter.mp hkh').2, ?_, e⟩
    exact flatHeights_eq _ hflat _ (List.mem_map.mpr ⟨kh', hkh', rfl⟩) _ (List.mem_map.mpr ⟨kh, hmem, rfl⟩)

end Mahotas.C01
