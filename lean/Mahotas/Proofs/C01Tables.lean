/-
Helper lemmas for C01: the structuring elements produced by `get_structuring_elem` (ℓ1 balls in
`{0,1,2}^d`) and `disk` (open Euclidean balls in `{0..2r}^d`) as sets of offsets; all-ones boxes;
all of them pass the driver's regularity test (`starShaped`, `flatHeights`).
-/
import Mahotas.Proofs.C01Star
namespace Mahotas.C01
open Mahotas

theorem tab_getD (S : List Nat) (f : List Int → Int) (i : Nat) (hi : i < shapeSize S) :
    ((allPos S).map f).toArray.getD i 0 = f (unravelI S i) := by
  unfold allPos
  simp [Array.getD_eq_getD_getElem?, hi]

theorem tab_getD_ge (S : List Nat) (f : List Int → Int) (i : Nat) (hi : ¬ i < shapeSize S) :
    ((allPos S).map f).toArray.getD i 0 = 0 := by
  unfold allPos
  simp [Array.getD_eq_getD_getElem?, hi]

/-- members of a tabulated element -/
theorem mem_support_tab (S : List Nat) (f : List Int → Int) (kh : List Int × Int) :
    kh ∈ support S ((allPos S).map f).toArray true ↔
      ∃ p, inside S p = true ∧ f p ≠ 0 ∧ kh = (subPos p (centreOf S), f p) := by
  unfold support
  simp only [List.mem_filterMap, List.mem_range, Bool.true_and]
  constructor
  · rintro ⟨i, hi, h⟩
    rw [tab_getD S f i hi] at h
    split at h
    · cases h
    · next hne =>
      cases h
      exact ⟨unravelI S i, inside_unravelI S i hi, by simpa using hne, rfl⟩
  · rintro ⟨p, hp, hne, rfl⟩
    refine ⟨ravelI S p, ravelI_lt S p hp, ?_⟩
    rw [tab_getD S f _ (ravelI_lt S p hp), unravelI_ravelI S p hp]
    have : (f p == 0) = false := by simpa using hne
    rw [this]; rfl

/-! ### the symmetric box `{-r..r}^d` -/

theorem centreOf_replicate (d r : Nat) : centreOf (List.replicate d (2 * r + 1)) = List.replicate d (r : Int) := by
  unfold centreOf
  rw [List.map_replicate]
  congr 1
  have : (2 * r + 1) / 2 = r := by omega
  rw [this]

theorem inside_replicate (d n : Nat) (p : List Int) :
    inside (List.replicate d n) p = true ↔ p.length = d ∧ ∀ x ∈ p, 0 ≤ x ∧ x < (n : Int) := by
  induction d generalizing p with
  | zero => cases p <;> simp [inside]
  | succ d ih =>
    cases p with
    | nil => simp [List.replicate_succ, inside]
    | cons c cs =>
      rw [List.replicate_succ, inside_cons, ih]
      simp only [List.length_cons, Nat.add_right_cancel_iff, List.mem_cons, forall_eq_or_imp]
      constructor
      · rintro ⟨h1, h2, h3⟩; exact ⟨h2, h1, h3⟩
      · rintro ⟨h2, h1, h3⟩; exact ⟨h1, h2, h3⟩

theorem subPos_replicate (d : Nat) (r : Int) (p : List Int) (h : p.length = d) :
    subPos p (List.replicate d r) = p.map (· - r) := by
  induction d generalizing p with
  | zero => cases p <;> simp_all [subPos]
  | succ d ih =>
    cases p with
    | nil => simp at h
    | cons c cs => simp only [List.replicate_succ, subPos, List.map_cons, ih cs (by simpa using h)]

/-- offsets of the centred odd box: all coordinates in `[-r, r]` -/
theorem mem_boxOffsets_sym (d r : Nat) (k : List Int) :
    k ∈ boxOffsets (List.replicate d (2 * r + 1)) ↔
      k.length = d ∧ ∀ x ∈ k, -(r : Int) ≤ x ∧ x ≤ r := by
  rw [mem_boxOffsets, centreOf_replicate]
  constructor
  · rintro ⟨p, hp, rfl⟩
    rw [inside_replicate] at hp
    rw [subPos_replicate d r p hp.1]
    refine ⟨by simpa using hp.1, ?_⟩
    intro x hx
    obtain ⟨a, ha, rfl⟩ := List.mem_map.mp hx
    have := hp.2 a ha
    omega
  · rintro ⟨hl, hk⟩
    refine ⟨k.map (· + (r : Int)), ?_, ?_⟩
    · rw [inside_replicate]
      refine ⟨by simpa using hl, ?_⟩
      intro x hx
      obtain ⟨a, ha, rfl⟩ := List.mem_map.mp hx
      have := hk a ha
      omega
    · rw [subPos_replicate d r _ (by simpa using hl), List.map_map]
      have : ((fun x : Int => x - ↑r) ∘ fun x => x + ↑r) = id := by funext x; simp
      rw [this, List.map_id]

/-! ### norms -/

def l1N : List Int → Int
  | [] => 0
  | x :: xs => (x.natAbs : Int) + l1N xs

def sqN : List Int → Int
  | [] => 0
  | x :: xs => x * x + sqN xs

theorem foldl_add_init (l : List Int) (a : Int) : l.foldl (· + ·) a = a + l.foldl (· + ·) 0 := by
  induction l generalizing a with
  | nil => simp
  | cons x t ih => simp only [List.foldl_cons]; rw [ih (a + x), ih (0 + x)]; omega

theorem l1_fold (p : List Int) (c : Int) :
    (p.map fun x => ((x - c).natAbs : Int)).foldl (· + ·) 0 = l1N (p.map (· - c)) := by
  induction p with
  | nil => rfl
  | cons x t ih => simp only [List.map_cons, List.foldl_cons, l1N]; rw [foldl_add_init, ih]; omega

theorem sq_fold (p : List Int) (c : Int) :
    (p.map fun x => (x - c) * (x - c)).foldl (· + ·) 0 = sqN (p.map (· - c)) := by
  induction p with
  | nil => rfl
  | cons x t ih => simp only [List.map_cons, List.foldl_cons, sqN]; rw [foldl_add_init, ih]; omega

theorem sq_le_of_between (a b : Int) (h : (0 ≤ a ∧ a ≤ b) ∨ (b ≤ a ∧ a ≤ 0)) : a * a ≤ b * b := by
  rcases h with ⟨h0, h1⟩ | ⟨h1, h0⟩
  · exact Int.mul_le_mul h1 h1 h0 (by omega)
  · have := Int.mul_le_mul (show -a ≤ -b by omega) (show -a ≤ -b by omega) (by omega) (by omega)
    rwa [Int.neg_mul_neg, Int.neg_mul_neg] at this

theorem sqN_nonneg (k : List Int) : 0 ≤ sqN k := by
  induction k with
  | nil => simp [sqN]
  | cons a t ih =>
    have := sq_le_of_between 0 a (by omega)
    simp only [sqN]; omega

theorem norms_between (k' k : List Int) (h : between k' k = true) : l1N k' ≤ l1N k ∧ sqN k' ≤ sqN k := by
  induction k' generalizing k with
  | nil => cases k with
    | nil => simp [l1N, sqN]
    | cons _ _ => simp [between] at h
  | cons a as ih =>
    cases k with
    | nil => simp [between] at h
    | cons b bs =>
      rw [between_cons] at h
      obtain ⟨h1, h2⟩ := ih bs h.2
      have := sq_le_of_between a b h.1
      simp only [l1N, sqN]
      constructor <;> omega

theorem norms_neg (k : List Int) : l1N (negPos k) = l1N k ∧ sqN (negPos k) = sqN k := by
  induction k with
  | nil => simp [negPos, l1N, sqN]
  | cons a as ih =>
    simp only [negPos, List.map_cons, l1N, sqN] at ih ⊢
    rw [ih.1, ih.2, Int.neg_mul_neg]
    constructor <;> omega

theorem norms_zero (d : Nat) : l1N (List.replicate d 0) = 0 ∧ sqN (List.replicate d 0) = 0 := by
  induction d with
  | zero => simp [l1N, sqN]
  | succ d ih => simp [List.replicate_succ, l1N, sqN, ih.1, ih.2]


/-! ### ball-shaped elements in the centred odd box -/

/-- the 0/1 table of `{k ∈ {-ρ..ρ}^d | g k}` in C order -/
def ballElem (d ρ : Nat) (g : List Int → Bool) : Array Int :=
  ((allPos (List.replicate d (2 * ρ + 1))).map fun p =>
    if g (p.map (· - (ρ : Int))) = true then (1 : Int) else 0).toArray

theorem mem_ball_support (d ρ : Nat) (g : List Int → Bool) (kh : List Int × Int) :
    kh ∈ support (List.replicate d (2 * ρ + 1)) (ballElem d ρ g) true ↔
      kh.1 ∈ boxOffsets (List.replicate d (2 * ρ + 1)) ∧ g kh.1 = true ∧ kh.2 = 1 := by
  unfold ballElem
  rw [mem_support_tab, mem_boxOffsets, centreOf_replicate]
  constructor
  · rintro ⟨p, hp, hne, rfl⟩
    have hl := ((inside_replicate d _ p).mp hp).1
    rw [subPos_replicate d ρ p hl]
    by_cases hg : g (p.map (· - (ρ : Int))) = true
    · exact ⟨⟨p, hp, (subPos_replicate d ρ p hl).symm⟩, hg, by simp [hg]⟩
    · simp [hg] at hne
  · rintro ⟨⟨p, hp, hk⟩, hg, h1⟩
    have hl := ((inside_replicate d _ p).mp hp).1
    refine ⟨p, hp, ?_, ?_⟩
    · rw [← subPos_replicate d ρ p hl, ← hk]; simp [hg]
    · rw [← subPos_replicate d ρ p hl, ← hk]
      simp only [hg, if_true]
      rw [← h1]

theorem mem_ball_members (d ρ : Nat) (g : List Int → Bool) (k : List Int) :
    k ∈ (support (List.replicate d (2 * ρ + 1)) (ballElem d ρ g) true).map (·.1) ↔
      k ∈ boxOffsets (List.replicate d (2 * ρ + 1)) ∧ g k = true := by
  rw [List.mem_map]
  constructor
  · rintro ⟨kh, hkh, rfl⟩
    have := (mem_ball_support d ρ g kh).mp hkh
    exact ⟨this.1, this.2.1⟩
  · rintro ⟨h1, h2⟩
    exact ⟨(k, 1), (mem_ball_support d ρ g (k, 1)).mpr ⟨h1, h2, rfl⟩, rfl⟩

theorem flatHeights_of_const (hs : List Int) (c : Int) (h : ∀ x ∈ hs, x = c) : flatHeights hs = true := by
  cases hs with
  | nil => rfl
  | cons a t =>
    simp only [flatHeights, List.all_eq_true, beq_iff_eq]
    intro x hx
    rw [h x (by simp [hx]), h a (by simp)]

/-- a ball whose predicate is inherited by every offset between `0` and a member passes the driver's
    regularity test; it is flat -/
theorem ball_regular (d ρ : Nat) (g : List Int → Bool)
    (hg : ∀ k' k, between k' k = true → g k = true → g k' = true) :
    let sup := support (List.replicate d (2 * ρ + 1)) (ballElem d ρ g) true
    starShaped (List.replicate d (2 * ρ + 1)) (sup.map (·.1)) = true ∧
    flatHeights (sup.map (·.2)) = true ∧ (∀ kh ∈ sup, kh.2 = 1) := by
  intro sup
  refine ⟨?_, ?_, ?_⟩
  · unfold starShaped
    simp only [List.all_eq_true, Bool.or_eq_true, Bool.not_eq_true', List.contains_iff_mem]
    intro k hk k' hk'
    by_cases hb : between k' k = true
    · right
      rw [mem_ball_members] at hk ⊢
      exact ⟨hk', hg k' k hb hk.2⟩
    · left; simpa using hb
  · apply flatHeights_of_const _ 1
    intro x hx
    obtain ⟨kh, hkh, rfl⟩ := List.mem_map.mp hx
    exact ((mem_ball_support d ρ g kh).mp hkh).2.2
  · intro kh hkh
    exact ((mem_ball_support d ρ g kh).mp hkh).2.2

theorem negPos_boxOffsets (d ρ : Nat) (k : List Int)
    (h : k ∈ boxOffsets (List.replicate d (2 * ρ + 1))) :
    negPos k ∈ boxOffsets (List.replicate d (2 * ρ + 1)) := by
  rw [mem_boxOffsets_sym] at h ⊢
  refine ⟨by simpa [negPos] using h.1, ?_⟩
  intro x hx
  obtain ⟨a, ha, rfl⟩ := List.mem_map.mp hx
  have := h.2 a ha
  omega

theorem zero_boxOffsets (d ρ : Nat) : List.replicate d (0 : Int) ∈ boxOffsets (List.replicate d (2 * ρ + 1)) := by
  rw [mem_boxOffsets_sym]
  refine ⟨by simp, ?_⟩
  intro x hx
  have := (List.mem_replicate.mp hx).2
  omega

/-! ### `crossElem`, `diskElem` are such balls -/

theorem crossElem_eq (d : Nat) (r : Int) :
    crossElem d r = ballElem d 1 (fun k => decide (l1N k ≤ r)) := by
  unfold crossElem ballElem
  simp only [l1_fold, decide_eq_true_eq]
  rfl

theorem diskElem_eq (d r : Nat) :
    diskElem d r = ballElem d r (fun k => decide (sqN k < ((r * r : Nat) : Int))) := by
  unfold diskElem ballElem
  simp only [sq_fold, decide_eq_true_eq]


/-! ### members as the kernels see them -/

/-- bool images: the compressed support consists of members only -/
theorem support_filter_bool (S : List Nat) (bc : Array Int) :
    (support S bc true).filter (isMember dtBool) = support S bc true := by
  rw [List.filter_eq_self]
  intro kh hkh
  unfold support at hkh
  simp only [List.mem_filterMap, List.mem_range, Bool.true_and] at hkh
  obtain ⟨i, _, h⟩ := hkh
  split at h
  · cases h
  · next hne =>
    cases h
    simp only [isMember, dtBool, if_true]
    simpa using hne

/-- unsigned images: the members of the uncompressed support are the non-zero entries -/
theorem support_filter_unsigned (dt : DT) (hlo : dt.lo = 0) (hnb : dt.isBool = false) (S : List Nat)
    (bc : Array Int) :
    (support S bc false).filter (isMember dt) = support S bc true := by
  unfold support
  rw [List.filter_filterMap]
  congr 1
  funext i
  simp only [Bool.false_and, Bool.true_and, Bool.false_eq_true, if_false, Option.filter_some,
    isMember, hnb, hlo]
  by_cases h : bc.getD i 0 = 0
  · simp [h]
  · simp

/-- all-ones box: every box offset is a member -/
theorem mem_box_members (S : List Nat) (bc : Array Int) (hbc : ∀ i, i < shapeSize S → bc.getD i 0 = 1)
    (kh : List Int × Int) :
    kh ∈ support S bc true ↔ kh.1 ∈ boxOffsets S ∧ kh.2 = 1 := by
  unfold support
  simp only [List.mem_filterMap, List.mem_range, Bool.true_and]
  rw [mem_boxOffsets]
  constructor
  · rintro ⟨i, hi, h⟩
    rw [hbc i hi] at h
    simp only [show ((1 : Int) == 0) = false by decide, Bool.false_eq_true, if_false, Option.some.injEq] at h
    subst h
    exact ⟨⟨unravelI S i, inside_unravelI S i hi, rfl⟩, rfl⟩
  · rintro ⟨⟨p, hp, hk⟩, h1⟩
    refine ⟨ravelI S p, ravelI_lt S p hp, ?_⟩
    rw [hbc _ (ravelI_lt S p hp), unravelI_ravelI S p hp]
    simp only [show ((1 : Int) == 0) = false by decide, Bool.false_eq_true, if_false, Option.some.injEq]
    rw [← hk, ← h1]

theorem box_regular (S : List Nat) (bc : Array Int) (hbc : ∀ i, i < shapeSize S → bc.getD i 0 = 1) :
    let sup := support S bc true
    starShaped S (sup.map (·.1)) = true ∧ flatHeights (sup.map (·.2)) = true ∧ (∀ kh ∈ sup, kh.2 = 1) := by
  intro sup
  refine ⟨?_, ?_, ?_⟩
  · unfold starShaped
    simp only [List.all_eq_true, Bool.or_eq_true, Bool.not_eq_true', List.contains_iff_mem]
    intro k _ k' hk'
    right
    exact List.mem_map.mpr ⟨(k', 1), (mem_box_members S bc hbc _).mpr ⟨hk', rfl⟩, rfl⟩
  · apply flatHeights_of_const _ 1
    intro x hx
    obtain ⟨kh, hkh, rfl⟩ := List.mem_map.mp hx
    exact ((mem_box_members S bc hbc kh).mp hkh).2
  · intro kh hkh
    exact ((mem_box_members S bc hbc kh).mp hkh).2

theorem support_heights (S : List Nat) (bc : Array Int) (c : Bool) (kh : List Int × Int)
    (h : kh ∈ support S bc c) : ∃ i, i < shapeSize S ∧ kh.2 = bc.getD i 0 := by
  unfold support at h
  simp only [List.mem_filterMap, List.mem_range] at h
  obtain ⟨i, hi, h⟩ := h
  split at h
  · cases h
  · cases h; exact ⟨i, hi, rfl⟩

theorem ballElem_entries (d ρ : Nat) (g : List Int → Bool) (i : Nat)
    (hi : i < shapeSize (List.replicate d (2 * ρ + 1))) :
    (ballElem d ρ g).getD i 0 = 0 ∨ (ballElem d ρ g).getD i 0 = 1 := by
  unfold ballElem
  rw [tab_getD _ _ i hi]
  split
  · right; rfl
  · left; rfl

/-- everything T6 says about a ball-shaped element, at once -/
theorem ball_props (d ρ : Nat) (g : List Int → Bool)
    (hg : ∀ k' k, between k' k = true → g k = true → g k' = true)
    (hneg : ∀ k, g k = true → g (negPos k) = true) :
    let M := support (List.replicate d (2 * ρ + 1)) (ballElem d ρ g) true
    (∀ k, k ∈ M.map (·.1) ↔ (k.length = d ∧ ∀ x ∈ k, -(ρ : Int) ≤ x ∧ x ≤ ρ) ∧ g k = true) ∧
    (∀ kh ∈ M, kh.2 = 1) ∧
    starShaped (List.replicate d (2 * ρ + 1)) (M.map (·.1)) = true ∧
    flatHeights (M.map (·.2)) = true ∧
    (∀ k ∈ M.map (·.1), negPos k ∈ M.map (·.1)) ∧
    (g (List.replicate d 0) = true → List.replicate d 0 ∈ M.map (·.1)) ∧
    ((∀ k, g k = false) → M = []) := by
  intro M
  obtain ⟨h1, h2, h3⟩ := ball_regular d ρ g hg
  refine ⟨?_, h3, h1, h2, ?_, ?_, ?_⟩
  · intro k; rw [mem_ball_members, mem_boxOffsets_sym]
  · intro k hk
    rw [mem_ball_members] at hk ⊢
    exact ⟨negPos_boxOffsets d ρ k hk.1, hneg k hk.2⟩
  · intro h0
    rw [mem_ball_members]
    exact ⟨zero_boxOffsets d ρ, h0⟩
  · intro hnone
    apply List.eq_nil_iff_forall_not_mem.mpr
    intro kh hkh
    have := ((mem_ball_support d ρ g kh).mp hkh).2.1
    rw [hnone] at this; cases this

end Mahotas.C01
