/-
Helper lemmas for C02: order-theoretic characterisations of the gather erosion (`v ≤ ε g p ↔ …`)
and of the scatter dilation (`δ f q ≤ w ↔ …`) of the C01 model, from which the adjunction and
the laws of opening and closing follow.
-/
import Mahotas.Model.C02
import Mahotas.Proofs.C02Index
namespace Mahotas.C02
open Mahotas Mahotas.C01

/-! ### erosion: a running minimum -/

theorem le_foldl_min {β : Type} (l : List β) (φ : β → Int) (init v : Int) :
    v ≤ l.foldl (fun acc x => min acc (φ x)) init ↔ v ≤ init ∧ ∀ x ∈ l, v ≤ φ x := by
  induction l generalizing init with
  | nil => simp
  | cons a t ih =>
    simp only [List.foldl_cons, ih, List.mem_cons, forall_eq_or_imp]
    constructor
    · rintro ⟨h1, h2⟩; exact ⟨by omega, by omega, h2⟩
    · rintro ⟨h1, h2, h3⟩; exact ⟨by omega, h3⟩

/-- universal property of the model erosion -/
theorem le_erodeAt_iff (dt : DT) (A : Img Int) (sup : List (List Int × Int)) (p : List Int) (v : Int) :
    v ≤ erodeAt dt A sup p ↔
      v ≤ dt.hi ∧ ∀ kh ∈ sup, v ≤ erodeSub dt (readNearest A (addPos p kh.1)) kh.2 := by
  unfold erodeAt
  exact le_foldl_min sup _ dt.hi v

/-! ### dilation: scattered running maxima -/

theorem getD_default {a : Array Int} {j : Nat} (d d' : Int) (hj : j < a.size) : a.getD j d = a.getD j d' := by
  simp [Array.getD_eq_getD_getElem?, Array.getElem?_eq_getElem hj]

theorem getD_setIfInBounds (a : Array Int) (i j : Nat) (x d : Int) (hj : j < a.size) :
    (a.setIfInBounds i x).getD j d = if i = j then x else a.getD j d := by
  simp only [Array.getD_eq_getD_getElem?, Array.getElem?_setIfInBounds]
  by_cases h : i = j
  · subst h; simp [hj]
  · simp [h]

theorem dilateScatter_size (dt : DT) (shape : List Nat) (v : Int) (p : List Int) (out : Array Int)
    (kh : List Int × Int) : (dilateScatter dt shape v p out kh).size = out.size := by
  unfold dilateScatter
  split
  · simp only []; split <;> simp
  · rfl

theorem dilateScatter_le_iff (dt : DT) (shape : List Nat) (hs : ∀ d ∈ shape, 0 < d) (v : Int)
    (p : List Int) (out : Array Int) (kh : List Int × Int) (j : Nat) (hj : j < out.size) (w : Int) :
    (dilateScatter dt shape v p out kh).getD j dt.lo ≤ w ↔
      out.getD j dt.lo ≤ w ∧ (ravelI shape (clampPos shape (addPos p kh.1)) = j → dilateAdd dt v kh.2 ≤ w) := by
  unfold dilateScatter
  rw [fixPos_nearest shape _ hs]
  simp only []
  by_cases hgt : dilateAdd dt v kh.2 > out.getD (ravelI shape (clampPos shape (addPos p kh.1))) dt.lo
  · simp only [hgt, if_true]
    rw [getD_setIfInBounds _ _ _ _ _ hj]
    by_cases hij : ravelI shape (clampPos shape (addPos p kh.1)) = j
    · simp only [hij, if_true, true_implies]
      rw [hij] at hgt
      constructor
      · intro h; exact ⟨by omega, h⟩
      · intro h; exact h.2
    · simp [hij]
  · simp only [hgt, if_false]
    constructor
    · intro h
      refine ⟨h, fun hij => ?_⟩
      rw [hij] at hgt; omega
    · intro h; exact h.1

theorem scatterFold_size (dt : DT) (shape : List Nat) (v : Int) (p : List Int)
    (sup : List (List Int × Int)) (out : Array Int) :
    (sup.foldl (dilateScatter dt shape v p) out).size = out.size := by
  induction sup generalizing out with
  | nil => rfl
  | cons kh t ih => simp only [List.foldl_cons, ih, dilateScatter_size]

theorem scatterFold_le_iff (dt : DT) (shape : List Nat) (hs : ∀ d ∈ shape, 0 < d) (v : Int)
    (p : List Int) (sup : List (List Int × Int)) (out : Array Int) (j : Nat) (hj : j < out.size) (w : Int) :
    (sup.foldl (dilateScatter dt shape v p) out).getD j dt.lo ≤ w ↔
      out.getD j dt.lo ≤ w ∧
      ∀ kh ∈ sup, ravelI shape (clampPos shape (addPos p kh.1)) = j → dilateAdd dt v kh.2 ≤ w := by
  induction sup generalizing out with
  | nil => simp
  | cons kh t ih =>
    simp only [List.foldl_cons, List.mem_cons, forall_eq_or_imp]
    rw [ih _ (by rw [dilateScatter_size]; exact hj), dilateScatter_le_iff dt shape hs v p out kh j hj w]
    exact and_assoc

/-- one step of the outer loop of `dilate<T>` -/
def dilateStep (dt : DT) (A : Img Int) (sup : List (List Int × Int)) (out : Array Int) (p : List Int) : Array Int :=
  let v := A.getD p dt.lo
  if v = dt.lo then out else sup.foldl (dilateScatter dt A.shape v p) out

theorem dilateModel_eq (dt : DT) (A : Img Int) (sup : List (List Int × Int)) :
    dilateModel dt A sup = (allPos A.shape).foldl (dilateStep dt A sup) (Array.replicate A.size dt.lo) := rfl

theorem dilateStep_size (dt : DT) (A : Img Int) (sup : List (List Int × Int)) (out : Array Int) (p : List Int) :
    (dilateStep dt A sup out p).size = out.size := by
  unfold dilateStep
  simp only []
  split
  · rfl
  · exact scatterFold_size ..

theorem dilateFold_size (dt : DT) (A : Img Int) (sup : List (List Int × Int)) (ps : List (List Int))
    (out : Array Int) : (ps.foldl (dilateStep dt A sup) out).size = out.size := by
  induction ps generalizing out with
  | nil => rfl
  | cons p t ih => simp only [List.foldl_cons, ih, dilateStep_size]

theorem dilateFold_le_iff (dt : DT) (A : Img Int) (hs : ∀ d ∈ A.shape, 0 < d)
    (sup : List (List Int × Int)) (ps : List (List Int)) (out : Array Int) (j : Nat) (hj : j < out.size)
    (w : Int) :
    (ps.foldl (dilateStep dt A sup) out).getD j dt.lo ≤ w ↔
      out.getD j dt.lo ≤ w ∧
      ∀ p ∈ ps, A.getD p dt.lo ≠ dt.lo → ∀ kh ∈ sup,
        ravelI A.shape (clampPos A.shape (addPos p kh.1)) = j → dilateAdd dt (A.getD p dt.lo) kh.2 ≤ w := by
  induction ps generalizing out with
  | nil => simp
  | cons p t ih =>
    simp only [List.foldl_cons, List.mem_cons, forall_eq_or_imp]
    rw [ih _ (by rw [dilateStep_size]; exact hj)]
    unfold dilateStep
    simp only []
    by_cases hv : A.getD p dt.lo = dt.lo
    · simp [hv]
    · simp only [hv, if_false, ne_eq, not_false_eq_true, true_implies]
      rw [scatterFold_le_iff dt A.shape hs _ p sup out j hj w]
      exact and_assoc

theorem dilateModel_size (dt : DT) (A : Img Int) (sup : List (List Int × Int)) :
    (dilateModel dt A sup).size = A.size := by
  rw [dilateModel_eq, dilateFold_size]; simp

/-- universal property of the model dilation (scatter with clamp, running maxima) -/
theorem dilateModel_le_iff (dt : DT) (A : Img Int) (hs : ∀ d ∈ A.shape, 0 < d)
    (sup : List (List Int × Int)) (j : Nat) (hj : j < A.size) (w : Int) :
    (dilateModel dt A sup).getD j dt.lo ≤ w ↔
      dt.lo ≤ w ∧
      ∀ p ∈ allPos A.shape, A.getD p dt.lo ≠ dt.lo → ∀ kh ∈ sup,
        ravelI A.shape (clampPos A.shape (addPos p kh.1)) = j → dilateAdd dt (A.getD p dt.lo) kh.2 ≤ w := by
  rw [dilateModel_eq, dilateFold_le_iff dt A hs sup _ _ j (by simpa using hj) w]
  have : (Array.replicate A.size dt.lo).getD j dt.lo = dt.lo := by
    simp [Array.getD_eq_getD_getElem?, hj]
  rw [this]

/-! ### the adjunction on the model, from a scalar adjunction -/

/-- flat index of the pixel that `p` reaches through the element offset `k` (clamped) -/
def target (shape : List Nat) (p k : List Int) : Nat := ravelI shape (clampPos shape (addPos p k))

theorem target_lt (shape : List Nat) (hs : ∀ d ∈ shape, 0 < d) (p k : List Int)
    (hp : p ∈ allPos shape) (hk : k.length = shape.length) : target shape p k < shapeSize shape := by
  obtain ⟨i, _, rfl⟩ := mem_allPos shape p hp
  apply ravelI_lt
  apply inside_clampPos shape _ hs
  rw [addPos_length _ _ (by rw [hk, unravelI_length]), unravelI_length]

theorem readNearest_target (G : Img Int) (hs : ∀ d ∈ G.shape, 0 < d) (p k : List Int)
    (hp : p ∈ allPos G.shape) (hk : k.length = G.shape.length) :
    readNearest G (addPos p k) = G.data.getD (target G.shape p k) 0 := by
  obtain ⟨i, _, rfl⟩ := mem_allPos G.shape p hp
  rw [readNearest_eq G _ hs, Img.getD_inside]
  · rfl
  · apply inside_clampPos G.shape _ hs
    rw [addPos_length _ _ (by rw [hk, unravelI_length]), unravelI_length]

/-- **adjunction, generic form**: whenever the scalar operations `dilate_add(·,h)` / `erode_sub(·,h)`
    are adjoint on the pairs of values that actually meet, the model dilation and the model erosion
    are adjoint: `δ F ≤ G` pointwise iff `F ≤ ε G` pointwise. -/
theorem adjunction_core (dt : DT) (F G : Img Int) (sup : List (List Int × Int))
    (hshape : G.shape = F.shape) (hs : ∀ d ∈ F.shape, 0 < d)
    (hlen : ∀ kh ∈ sup, kh.1.length = F.shape.length)
    (hFhi : ∀ p ∈ allPos F.shape, F.getD p dt.lo ≤ dt.hi)
    (hGlo : ∀ j, j < shapeSize F.shape → dt.lo ≤ G.data.getD j 0)
    (hsc : ∀ p ∈ allPos F.shape, ∀ kh ∈ sup,
      (F.getD p dt.lo = dt.lo → dt.lo ≤ erodeSub dt (G.data.getD (target F.shape p kh.1) 0) kh.2) ∧
      (F.getD p dt.lo ≠ dt.lo →
        (dilateAdd dt (F.getD p dt.lo) kh.2 ≤ G.data.getD (target F.shape p kh.1) 0 ↔
         F.getD p dt.lo ≤ erodeSub dt (G.data.getD (target F.shape p kh.1) 0) kh.2))) :
    (∀ j, j < shapeSize F.shape → (dilateModel dt F sup).getD j dt.lo ≤ G.data.getD j 0) ↔
    (∀ p ∈ allPos F.shape, F.getD p dt.lo ≤ erodeAt dt G sup p) := by
  have hsG : ∀ d ∈ G.shape, 0 < d := by rw [hshape]; exact hs
  constructor
  · intro h p hp
    rw [le_erodeAt_iff]
    refine ⟨hFhi p hp, fun kh hkh => ?_⟩
    rw [readNearest_target G hsG p kh.1 (by rw [hshape]; exact hp) (by rw [hshape]; exact hlen kh hkh), hshape]
    have hj := target_lt F.shape hs p kh.1 hp (hlen kh hkh)
    have hD := (dilateModel_le_iff dt F hs sup _ hj _).mp (h _ hj)
    by_cases hv : F.getD p dt.lo = dt.lo
    · rw [hv]; exact (hsc p hp kh hkh).1 hv
    · exact ((hsc p hp kh hkh).2 hv).mp (hD.2 p hp hv kh hkh rfl)
  · intro h j hj
    rw [dilateModel_le_iff dt F hs sup j hj]
    refine ⟨hGlo j hj, fun p hp hv kh hkh hidx => ?_⟩
    have hE := ((le_erodeAt_iff dt G sup p _).mp (h p hp)).2 kh hkh
    rw [readNearest_target G hsG p kh.1 (by rw [hshape]; exact hp) (by rw [hshape]; exact hlen kh hkh), hshape] at hE
    have := ((hsc p hp kh hkh).2 hv).mpr hE
    have ht : target F.shape p kh.1 = j := hidx
    rw [ht] at this
    exact this

end Mahotas.C02
