/-
C02, round 4: `open` / `close` with a caller-supplied output buffer (`morph.py:393-472`) as buffer programs.
The programs of `Model/C02.lean` (`openBuf`, `closeBuf`: erode/dilate *into* a buffer with arbitrary old
contents, copy, second kernel into the same buffer) compute the pure compositions `openModel` / `closeModel`
for every initial buffer content of the right size.
-/
import Mahotas.Proofs.C02
namespace Mahotas.C02
open Mahotas Mahotas.C01

theorem arr_eq_of_getD (a b : Array Int) (hsz : a.size = b.size)
    (h : ∀ i, i < a.size → a.getD i 0 = b.getD i 0) : a = b := by
  apply Array.ext hsz
  intro i h1 h2
  have := h i h1
  simp only [Array.getD_eq_getD_getElem?, Array.getElem?_eq_getElem h1, Array.getElem?_eq_getElem h2,
    Option.getD_some] at this
  exact this

/-- a scan that stores `g i` into cell `i` for `i < n` -/
theorem foldSet_spec (g : Nat → Int) (n : Nat) (out : Array Int) :
    ((List.range n).foldl (fun o i => o.setIfInBounds i (g i)) out).size = out.size ∧
    ∀ j, j < out.size →
      ((List.range n).foldl (fun o i => o.setIfInBounds i (g i)) out).getD j 0 =
        if j < n then g j else out.getD j 0 := by
  induction n with
  | zero => simp
  | succ n ih =>
    rw [List.range_succ, List.foldl_append]
    simp only [List.foldl_cons, List.foldl_nil]
    obtain ⟨hs, hv⟩ := ih
    refine ⟨by rw [Array.size_setIfInBounds, hs], fun j hj => ?_⟩
    rw [getD_setIfInBounds _ _ _ _ _ (by rw [hs]; exact hj)]
    by_cases hnj : n = j
    · subst hnj; simp
    · rw [if_neg hnj, hv j hj]
      by_cases h1 : j < n
      · rw [if_pos h1, if_pos (by omega)]
      · rw [if_neg h1, if_neg (by omega)]

theorem fillBuf_eq (out : Array Int) (v : Int) : fillBuf out v = Array.replicate out.size v := by
  obtain ⟨hs, hv⟩ := foldSet_spec (fun _ => v) out.size out
  apply arr_eq_of_getD
  · unfold fillBuf; rw [hs]; simp
  · intro j hj
    have hj' : j < out.size := by unfold fillBuf at hj; rw [hs] at hj; exact hj
    unfold fillBuf
    rw [hv j hj', if_pos hj']
    simp [Array.getD_eq_getD_getElem?, hj']

/-- `erode` into a buffer overwrites every cell: the result is the pure erosion, whatever the buffer held -/
theorem erodeInto_eq (dt : DT) (A : Img Int) (sup : List (List Int × Int)) (out : Array Int)
    (hsz : out.size = A.size) : erodeInto dt A sup out = (erodeImg dt A sup).data := by
  obtain ⟨hs, hv⟩ := foldSet_spec (fun i => erodeAt dt A sup (unravelI A.shape i)) A.size out
  have hE : (erodeImg dt A sup).data.size = A.size := size_map_allPos _ _
  apply arr_eq_of_getD
  · unfold erodeInto; rw [hs, hsz, hE]
  · intro j hj
    have hj' : j < out.size := by unfold erodeInto at hj; rw [hs] at hj; exact hj
    have hjA : j < shapeSize A.shape := by rw [hsz] at hj'; exact hj'
    unfold erodeInto
    rw [hv j hj', if_pos (by rw [← hsz]; exact hj')]
    simp only [erodeImg]
    rw [getD_map_allPos A.shape _ j 0 hjA]

/-- `dilate` into a buffer first fills it: the result is the pure dilation, whatever the buffer held -/
theorem dilateInto_eq (dt : DT) (A : Img Int) (sup : List (List Int × Int)) (out : Array Int)
    (hsz : out.size = A.size) : dilateInto dt A sup out = dilateModel dt A sup := by
  unfold dilateInto dilateModel
  rw [fillBuf_eq, hsz]

/-- **`open` with `out=` computes the pure composition**, for every initial content of the buffer -/
theorem openBuf_eq (dt : DT) (A : Img Int) (sup : List (List Int × Int)) (out : Array Int)
    (hsz : out.size = A.size) : openBuf dt A sup out = (openModel dt A sup).data := by
  unfold openBuf
  simp only []
  rw [erodeInto_eq dt A sup out hsz]
  have hE : (erodeImg dt A sup).data.size = A.size := size_map_allPos _ _
  exact dilateInto_eq dt (erodeImg dt A sup) sup _ hE

/-- **`close` with `out=` computes the pure composition**, for every initial content of the buffer -/
theorem closeBuf_eq (dt : DT) (A : Img Int) (sup : List (List Int × Int)) (out : Array Int)
    (hsz : out.size = A.size) : closeBuf dt A sup out = (closeModel dt A sup).data := by
  unfold closeBuf
  simp only []
  rw [dilateInto_eq dt A sup out hsz]
  exact erodeInto_eq dt (dilateImg dt A sup) sup _ (dilateModel_size dt A sup)

/-- without the copy the dilation destroys its own input: after the fill every cell holds the dtype minimum,
    every pixel is skipped, and the "opening" is constant `lo` — for every image, element and buffer -/
theorem dilateInPlace_eq (dt : DT) (shape : List Nat) (sup : List (List Int × Int)) (buf : Array Int) :
    dilateInPlace dt shape sup buf = Array.replicate buf.size dt.lo := by
  unfold dilateInPlace
  rw [fillBuf_eq]
  generalize allPos shape = ps
  induction ps with
  | nil => rfl
  | cons p t ih =>
    rw [List.foldl_cons]
    have : (Array.replicate buf.size dt.lo).getD (ravelI shape p) dt.lo = dt.lo := by
      simp only [Array.getD_eq_getD_getElem?, Array.getElem?_replicate]
      split <;> rfl
    simp only [this, if_true]
    exact ih

end Mahotas.C02

namespace Mahotas.C02
open Mahotas Mahotas.C01

/-- a scan that replaces cell `i` by `φ i (cell i)` for `i < n` (each cell is read before it is written, once) -/
theorem foldUpd_spec (φ : Nat → Int → Int) (n : Nat) (out : Array Int) :
    ((List.range n).foldl (fun o i => o.setIfInBounds i (φ i (o.getD i 0))) out).size = out.size ∧
    ∀ j, j < out.size →
      ((List.range n).foldl (fun o i => o.setIfInBounds i (φ i (o.getD i 0))) out).getD j 0 =
        if j < n then φ j (out.getD j 0) else out.getD j 0 := by
  induction n with
  | zero => simp
  | succ n ih =>
    rw [List.range_succ, List.foldl_append]
    simp only [List.foldl_cons, List.foldl_nil]
    obtain ⟨hs, hv⟩ := ih
    refine ⟨by rw [Array.size_setIfInBounds, hs], fun j hj => ?_⟩
    rw [getD_setIfInBounds _ _ _ _ _ (by rw [hs]; exact hj)]
    by_cases hnj : n = j
    · subst hnj
      rw [if_pos rfl, hv n hj, if_neg (Nat.lt_irrefl n), if_pos (Nat.lt_succ_self n)]
    · rw [if_neg hnj, hv j hj]
      by_cases h1 : j < n
      · rw [if_pos h1, if_pos (by omega)]
      · rw [if_neg h1, if_neg (by omega)]

/-- the pure specification of `subm` on arrays -/
def submPure (dt : DT) (a b : Array Int) : Array Int :=
  ((List.range a.size).map fun i => submElem dt (a.getD i 0) (b.getD i 0)).toArray

theorem submPure_getD (dt : DT) (a b : Array Int) (j : Nat) (hj : j < a.size) :
    (submPure dt a b).getD j 0 = submElem dt (a.getD j 0) (b.getD j 0) := by
  simp [submPure, Array.getD_eq_getD_getElem?, List.getElem?_map, List.getElem?_range hj]

theorem submInPlace_eq (dt : DT) (out b : Array Int) : submInPlace dt out b = submPure dt out b := by
  obtain ⟨hs, hv⟩ := foldUpd_spec (fun i x => submElem dt x (b.getD i 0)) out.size out
  apply arr_eq_of_getD
  · unfold submInPlace; rw [hs]; simp [submPure]
  · intro j hj
    have hj' : j < out.size := by unfold submInPlace at hj; rw [hs] at hj; exact hj
    unfold submInPlace
    rw [hv j hj', if_pos hj', submPure_getD dt out b j hj']

theorem submInPlaceSelf_getD (dt : DT) (out : Array Int) (j : Nat) (hj : j < out.size) :
    (submInPlaceSelf dt out).getD j 0 = submElem dt (out.getD j 0) (out.getD j 0) := by
  obtain ⟨_, hv⟩ := foldUpd_spec (fun _ x => submElem dt x x) out.size out
  unfold submInPlaceSelf
  rw [hv j hj, if_pos hj]

theorem copyInto_eq (out a : Array Int) (hsz : out.size = a.size) : copyInto out a = a := by
  obtain ⟨hs, hv⟩ := foldSet_spec (fun i => a.getD i 0) out.size out
  apply arr_eq_of_getD
  · unfold copyInto; rw [hs, hsz]
  · intro j hj
    have hj' : j < out.size := by unfold copyInto at hj; rw [hs] at hj; exact hj
    unfold copyInto
    rw [hv j hj', if_pos hj']

end Mahotas.C02
