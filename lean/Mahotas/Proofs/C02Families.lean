/-
C02 (and C14) — the hypotheses the lattice-law theorems put on the structuring element, proved once
for whole families instead of per concrete element by a Boolean checker:

* `crossElem d r`   — what `get_structuring_elem` builds (ℓ1 ball in `{0,1,2}^d`), every rank and radius;
* `diskElem d r`    — what `disk(r, d)` builds (open Euclidean ball in `{0..2r}^d`), every rank and radius;
* all-ones boxes of arbitrary odd sides, every rank.

`CrossBoxDisk d S bc` says "(S, bc) is one of those"; `RegularElem` collects what the three share (rank,
odd sides, 0/1 entries, star-shaped and symmetric member set — the last two taken from the C01 tables
`ball_props` / `box_regular`). Everything downstream (`SymStar`, lengths, heights, `Scalars`,
`CentreMember`) is derived from `RegularElem` for the supports exactly as the drivers build them
(`support S bc dt.isBool`: compressed for bool, uncompressed otherwise).
-/
import Mahotas.Proofs.C01Tables
import Mahotas.Proofs.C02Laws

namespace Mahotas.C01
open Mahotas

/-- `(S, bc)` is a cross `crossElem d r` (any radius), a disk `diskElem d r` (any radius), or an
    all-ones box of rank `d` whose sides are all odd -/
def CrossBoxDisk (d : Nat) (S : List Nat) (bc : Array Int) : Prop :=
  (∃ r : Int, S = List.replicate d 3 ∧ bc = crossElem d r) ∨
  (∃ r : Nat, S = List.replicate d (2 * r + 1) ∧ bc = diskElem d r) ∨
  (S.length = d ∧ (∀ b ∈ S, b % 2 = 1) ∧ ∀ i, i < shapeSize S → bc.getD i 0 = 1)

/-- the same families with the centre present: cross of radius `r ≥ 0`, disk of radius `r ≥ 1`
    (`disk(0)` is the empty element), any all-ones odd box -/
def CentredCrossBoxDisk (d : Nat) (S : List Nat) (bc : Array Int) : Prop :=
  (∃ r : Int, 0 ≤ r ∧ S = List.replicate d 3 ∧ bc = crossElem d r) ∨
  (∃ r : Nat, 1 ≤ r ∧ S = List.replicate d (2 * r + 1) ∧ bc = diskElem d r) ∨
  (S.length = d ∧ (∀ b ∈ S, b % 2 = 1) ∧ ∀ i, i < shapeSize S → bc.getD i 0 = 1)

theorem CentredCrossBoxDisk.toFamily {d : Nat} {S : List Nat} {bc : Array Int}
    (h : CentredCrossBoxDisk d S bc) : CrossBoxDisk d S bc := by
  rcases h with ⟨r, _, h1, h2⟩ | ⟨r, _, h1, h2⟩ | h
  · exact Or.inl ⟨r, h1, h2⟩
  · exact Or.inr (Or.inl ⟨r, h1, h2⟩)
  · exact Or.inr (Or.inr h)

/-- what the three families share -/
structure RegularElem (d : Nat) (S : List Nat) (bc : Array Int) : Prop where
  rank : S.length = d
  odd : ∀ b ∈ S, b % 2 = 1
  entries : ∀ i, i < shapeSize S → bc.getD i 0 = 0 ∨ bc.getD i 0 = 1
  star : starShaped S ((support S bc true).map (·.1)) = true
  neg : ∀ k ∈ (support S bc true).map (·.1), negPos k ∈ (support S bc true).map (·.1)

/-! ### boxes of arbitrary odd sides -/

/-- the reflection of a box offset is a box offset when every side is odd -/
theorem negPos_boxOffsets_odd (S : List Nat) (hodd : ∀ b ∈ S, b % 2 = 1) (k : List Int)
    (h : k ∈ boxOffsets S) : negPos k ∈ boxOffsets S := by
  rw [mem_boxOffsets] at h ⊢
  obtain ⟨i, hi, rfl⟩ := h
  induction S generalizing i with
  | nil =>
    cases i with
    | nil => exact ⟨[], rfl, by simp [negPos, subPos]⟩
    | cons _ _ => simp [inside] at hi
  | cons b bs ih =>
    cases i with
    | nil => simp [inside] at hi
    | cons i0 is =>
      rw [inside_cons] at hi
      obtain ⟨j, hj, e⟩ := ih (fun b hb => hodd b (by simp [hb])) is hi.2
      have hb := hodd b (by simp)
      refine ⟨((b : Int) - 1 - i0) :: j, ?_, ?_⟩
      · rw [inside_cons]; exact ⟨by omega, hj⟩
      · simp only [centreOf, List.map_cons, subPos, negPos, List.cons.injEq] at e ⊢
        exact ⟨by omega, e⟩

/-- the zero offset is a box offset when every side is positive -/
theorem zero_boxOffsets_pos (S : List Nat) (hpos : ∀ b ∈ S, 0 < b) :
    List.replicate S.length (0 : Int) ∈ boxOffsets S := by
  rw [mem_boxOffsets]
  refine ⟨centreOf S, ?_, ?_⟩
  · induction S with
    | nil => rfl
    | cons b bs ih =>
      have hb := hpos b (by simp)
      simp only [centreOf, List.map_cons]
      rw [inside_cons]
      exact ⟨by omega, ih (fun b hb => hpos b (by simp [hb]))⟩
  · induction S with
    | nil => rfl
    | cons b bs ih =>
      simp only [centreOf, List.map_cons, subPos, List.length_cons, List.replicate_succ, List.cons.injEq]
      exact ⟨by omega, ih (fun b hb => hpos b (by simp [hb]))⟩

/-! ### the two supports -/

theorem mem_support_false (S : List Nat) (bc : Array Int) (kh : List Int × Int) :
    kh ∈ support S bc false ↔
      ∃ i, i < shapeSize S ∧ kh = (subPos (unravelI S i) (centreOf S), bc.getD i 0) := by
  unfold support
  simp only [List.mem_filterMap, List.mem_range, Bool.false_and, Bool.false_eq_true, if_false,
    Option.some.injEq]
  constructor
  · rintro ⟨i, hi, h⟩; exact ⟨i, hi, h.symm⟩
  · rintro ⟨i, hi, h⟩; exact ⟨i, hi, h.symm⟩

theorem mem_support_true (S : List Nat) (bc : Array Int) (kh : List Int × Int) :
    kh ∈ support S bc true ↔
      ∃ i, i < shapeSize S ∧ bc.getD i 0 ≠ 0 ∧ kh = (subPos (unravelI S i) (centreOf S), bc.getD i 0) := by
  unfold support
  simp only [List.mem_filterMap, List.mem_range, Bool.true_and]
  constructor
  · rintro ⟨i, hi, h⟩
    split at h
    · cases h
    · next hne => cases h; exact ⟨i, hi, by simpa using hne, rfl⟩
  · rintro ⟨i, hi, hne, rfl⟩
    refine ⟨i, hi, ?_⟩
    have : (bc.getD i 0 == 0) = false := by simpa using hne
    rw [this]; rfl

/-- the compressed support (what bool images see, and the members for unsigned dtypes) is the
    uncompressed one without its zero entries -/
theorem mem_support_true_iff (S : List Nat) (bc : Array Int) (kh : List Int × Int) :
    kh ∈ support S bc true ↔ kh ∈ support S bc false ∧ kh.2 ≠ 0 := by
  rw [mem_support_true, mem_support_false]
  constructor
  · rintro ⟨i, hi, hne, rfl⟩; exact ⟨⟨i, hi, rfl⟩, hne⟩
  · rintro ⟨⟨i, hi, rfl⟩, hne⟩; exact ⟨i, hi, hne, rfl⟩

/-- the offsets of the uncompressed support are exactly the offsets of the element box -/
theorem mem_support_false_fst (S : List Nat) (bc : Array Int) (k : List Int) :
    (∃ kh ∈ support S bc false, kh.1 = k) ↔ k ∈ boxOffsets S := by
  constructor
  · rintro ⟨kh, hkh, rfl⟩; exact support_mem_boxOffsets S bc false kh hkh
  · intro h
    obtain ⟨p, hp, rfl⟩ := (mem_boxOffsets S k).mp h
    refine ⟨(_, bc.getD (ravelI S p) 0), (mem_support_false S bc _).mpr ⟨ravelI S p, ravelI_lt S p hp, ?_⟩, rfl⟩
    rw [unravelI_ravelI S p hp]

/-! ### the families are regular -/

theorem regular_cross (d : Nat) (r : Int) : RegularElem d (List.replicate d 3) (crossElem d r) := by
  have h := ball_props d 1 (fun k => decide (l1N k ≤ r))
    (fun k' k hb hk => by
      have := (norms_between k' k hb).1
      simp only [decide_eq_true_eq] at hk ⊢; omega)
    (fun k hk => by
      have := (norms_neg k).1
      simp only [decide_eq_true_eq] at hk ⊢; omega)
  rw [← crossElem_eq] at h
  obtain ⟨_, _, h3, _, h5, _, _⟩ := h
  refine ⟨by simp, ?_, ?_, h3, h5⟩
  · intro b hb; rw [(List.mem_replicate.mp hb).2]
  · intro i hi; rw [crossElem_eq]; exact ballElem_entries _ 1 _ i hi

theorem regular_disk (d r : Nat) : RegularElem d (List.replicate d (2 * r + 1)) (diskElem d r) := by
  have h := ball_props d r (fun k => decide (sqN k < ((r * r : Nat) : Int)))
    (fun k' k hb hk => by
      have := (norms_between k' k hb).2
      simp only [decide_eq_true_eq] at hk ⊢; omega)
    (fun k hk => by
      have := (norms_neg k).2
      simp only [decide_eq_true_eq] at hk ⊢; omega)
  rw [← diskElem_eq] at h
  obtain ⟨_, _, h3, _, h5, _, _⟩ := h
  refine ⟨by simp, ?_, ?_, h3, h5⟩
  · intro b hb; rw [(List.mem_replicate.mp hb).2]; omega
  · intro i hi; rw [diskElem_eq]; exact ballElem_entries _ r _ i hi

theorem regular_box (S : List Nat) (bc : Array Int) (hodd : ∀ b ∈ S, b % 2 = 1)
    (hbc : ∀ i, i < shapeSize S → bc.getD i 0 = 1) : RegularElem S.length S bc := by
  refine ⟨rfl, hodd, fun i hi => Or.inr (hbc i hi), (box_regular S bc hbc).1, ?_⟩
  intro k hk
  obtain ⟨kh, hkh, rfl⟩ := List.mem_map.mp hk
  have := (mem_box_members S bc hbc kh).mp hkh
  exact List.mem_map.mpr ⟨(negPos kh.1, 1),
    (mem_box_members S bc hbc _).mpr ⟨negPos_boxOffsets_odd S hodd _ this.1, rfl⟩, rfl⟩

theorem CrossBoxDisk.regular {d : Nat} {S : List Nat} {bc : Array Int} (h : CrossBoxDisk d S bc) :
    RegularElem d S bc := by
  rcases h with ⟨r, rfl, rfl⟩ | ⟨r, rfl, rfl⟩ | ⟨rfl, hodd, hbc⟩
  · exact regular_cross d r
  · exact regular_disk d r
  · exact regular_box S bc hodd hbc

/-! ### consequences of regularity -/

section
variable {d : Nat} {S : List Nat} {bc : Array Int}

theorem RegularElem.len (h : RegularElem d S bc) (c : Bool) :
    ∀ kh ∈ support S bc c, kh.1.length = d := by
  intro kh hkh
  rw [boxOffsets_length S kh.1 (support_mem_boxOffsets S bc c kh hkh), h.rank]

theorem RegularElem.heights (h : RegularElem d S bc) (c : Bool) :
    ∀ kh ∈ support S bc c, kh.2 = 0 ∨ kh.2 = 1 := by
  intro kh hkh
  obtain ⟨i, hi, e⟩ := support_heights S bc c kh hkh
  rw [e]; exact h.entries i hi

theorem RegularElem.ones (h : RegularElem d S bc) : ∀ kh ∈ support S bc true, kh.2 = 1 := by
  intro kh hkh
  have h2 := ((mem_support_true_iff S bc kh).mp hkh).2
  rcases h.heights true kh hkh with h0 | h1
  · exact absurd h0 h2
  · exact h1

/-- members are closed under "between 0 and a member" -/
theorem RegularElem.star_mem (h : RegularElem d S bc) (kh : List Int × Int) (hkh : kh ∈ support S bc true)
    (k' : List Int) (hb : between k' kh.1 = true) : (k', (1 : Int)) ∈ support S bc true := by
  obtain ⟨i, hi, hk⟩ := (mem_boxOffsets S kh.1).mp (support_mem_boxOffsets S bc true kh hkh)
  have hb' := hb
  rw [hk] at hb'
  obtain ⟨hin, hk'⟩ := between_boxOffsets S k' i hi hb'
  have hk'box : k' ∈ boxOffsets S := (mem_boxOffsets S k').mpr ⟨_, hin, hk'⟩
  have hstar := h.star
  unfold starShaped at hstar
  simp only [List.all_eq_true, Bool.or_eq_true, Bool.not_eq_true', List.contains_iff_mem] at hstar
  rcases hstar kh.1 (List.mem_map.mpr ⟨kh, hkh, rfl⟩) k' hk'box with h1 | h1
  · rw [hb] at h1; cases h1
  · obtain ⟨kh', hkh', e⟩ := List.mem_map.mp h1
    have h2 := h.ones kh' hkh'
    have : kh' = (k', 1) := Prod.ext e h2
    rw [← this]; exact hkh'

/-- members are closed under negation -/
theorem RegularElem.neg_mem (h : RegularElem d S bc) (kh : List Int × Int) (hkh : kh ∈ support S bc true) :
    (negPos kh.1, (1 : Int)) ∈ support S bc true := by
  obtain ⟨kh', hkh', e⟩ := List.mem_map.mp (h.neg kh.1 (List.mem_map.mpr ⟨kh, hkh, rfl⟩))
  have h2 := h.ones kh' hkh'
  have : kh' = (negPos kh.1, 1) := Prod.ext e h2
  rw [← this]; exact hkh'

end

/-- the centre `(0,…,0)` with height 1 is a member of every centred cross / disk / odd box -/
theorem CentredCrossBoxDisk.centre {d : Nat} {S : List Nat} {bc : Array Int}
    (h : CentredCrossBoxDisk d S bc) : (List.replicate d (0 : Int), (1 : Int)) ∈ support S bc true := by
  have key : List.replicate d (0 : Int) ∈ (support S bc true).map (·.1) := by
    rcases h with ⟨r, hr, rfl, rfl⟩ | ⟨r, hr, rfl, rfl⟩ | ⟨rfl, hodd, hbc⟩
    · have h := ball_props d 1 (fun k => decide (l1N k ≤ r))
        (fun k' k hb hk => by
          have := (norms_between k' k hb).1
          simp only [decide_eq_true_eq] at hk ⊢; omega)
        (fun k hk => by
          have := (norms_neg k).1
          simp only [decide_eq_true_eq] at hk ⊢; omega)
      rw [← crossElem_eq] at h
      obtain ⟨_, _, _, _, _, h6, _⟩ := h
      apply h6
      have := (norms_zero d).1
      simp only [decide_eq_true_eq]; omega
    · have h := ball_props d r (fun k => decide (sqN k < ((r * r : Nat) : Int)))
        (fun k' k hb hk => by
          have := (norms_between k' k hb).2
          simp only [decide_eq_true_eq] at hk ⊢; omega)
        (fun k hk => by
          have := (norms_neg k).2
          simp only [decide_eq_true_eq] at hk ⊢; omega)
      rw [← diskElem_eq] at h
      obtain ⟨_, _, _, _, _, h6, _⟩ := h
      apply h6
      have := (norms_zero d).2
      have hpos : 0 < r * r := Nat.mul_pos hr hr
      simp only [decide_eq_true_eq]; omega
    · exact List.mem_map.mpr ⟨(_, 1), (mem_box_members S bc hbc _).mpr
        ⟨zero_boxOffsets_pos S (fun b hb => by have := hodd b hb; omega), rfl⟩, rfl⟩
  obtain ⟨kh, hkh, e⟩ := List.mem_map.mp key
  have h2 := h.toFamily.regular.ones kh hkh
  have : kh = (List.replicate d 0, 1) := Prod.ext e h2
  rw [← this]; exact hkh

end Mahotas.C01

namespace Mahotas.C02
open Mahotas Mahotas.C01

/-- the dtypes of the C02 laws: an unsigned integer dtype (range `[0, hi]`, `hi ≥ 1`) or bool -/
def UnsignedOrBool (dt : DT) : Prop := (dt.WF ∧ dt.lo = 0) ∨ dt = dtBool

section
variable {d : Nat} {S : List Nat} {bc : Array Int}

/-- `SymStar` of the compressed support (bool images; the members for unsigned dtypes) -/
theorem symStar_true (h : RegularElem d S bc) : SymStar (support S bc true) :=
  ⟨fun kh hkh k' hb => ⟨(k', 1), h.star_mem kh hkh k' hb, rfl⟩,
   fun kh hkh => ⟨(negPos kh.1, 1), h.neg_mem kh hkh, rfl⟩⟩

/-- `SymStar` of the uncompressed support (non-bool images: every box entry is kept): the box of
    odd sides is symmetric and star-shaped -/
theorem symStar_false (h : RegularElem d S bc) : SymStar (support S bc false) := by
  constructor
  · intro kh hkh k' hb
    obtain ⟨i, hi, hk⟩ := (mem_boxOffsets S kh.1).mp (support_mem_boxOffsets S bc false kh hkh)
    rw [hk] at hb
    obtain ⟨hin, hk'⟩ := between_boxOffsets S k' i hi hb
    exact (mem_support_false_fst S bc k').mpr ((mem_boxOffsets S k').mpr ⟨_, hin, hk'⟩)
  · intro kh hkh
    exact (mem_support_false_fst S bc _).mpr
      (negPos_boxOffsets_odd S h.odd _ (support_mem_boxOffsets S bc false kh hkh))

theorem symStar_family (h : RegularElem d S bc) (c : Bool) : SymStar (support S bc c) := by
  cases c
  · exact symStar_false h
  · exact symStar_true h

/-- the scalar interface for the support the driver builds for the dtype -/
theorem scalars_family (dt : DT) (hdt : UnsignedOrBool dt) (h : RegularElem d S bc) :
    Scalars dt (support S bc dt.isBool) := by
  rcases hdt with ⟨wf, hlo⟩ | rfl
  · apply scalars_unsigned dt wf hlo
    intro kh hkh
    have := wf.hi_pos
    unfold DT.InRange
    rcases h.heights _ kh hkh with h0 | h1 <;> omega
  · apply scalars_bool
    intro kh hkh
    have := h.ones kh hkh
    omega

/-- the centre is a member in the sense of `cerode`/`cdilate` -/
theorem centreMember_family (dt : DT) (hdt : UnsignedOrBool dt) (h : CentredCrossBoxDisk d S bc) :
    CentreMember dt (support S bc dt.isBool) := by
  have hc := h.centre
  have hz : C14.isZeroPos (List.replicate d (0 : Int), (1 : Int)).1 = true := by
    simp [C14.isZeroPos]
  rcases hdt with ⟨wf, hlo⟩ | rfl
  · have := wf.hi_pos
    rw [wf.notBool]
    exact centreMember_unsigned dt wf hlo _ _ ((mem_support_true_iff S bc _).mp hc).1 hz
      (by unfold DT.InRange; simp only; omega) (show (1 : Int) ≠ 0 by decide)
  · exact centreMember_bool _ _ hc hz (show (1 : Int) ≠ 0 by decide)

/-- for the families every height is 0 or 1, so "f + h < hi for every height" follows from
    "f + 1 < hi", a hypothesis about the image only -/
theorem hiClear_dilate_family (dt : DT) (hdt : UnsignedOrBool dt) (h : RegularElem d S bc) (F : Img Int)
    (hs : ∀ d ∈ F.shape, 0 < d) (hF : RangeImg dt F)
    (hcl : dt.isBool = true ∨ ∀ i, i < shapeSize F.shape → F.data.getD i 0 + 1 < dt.hi) :
    HiClear dt (dilateImg dt F (support S bc dt.isBool)) := by
  rcases hdt with ⟨wf, hlo⟩ | rfl
  · rcases hcl with hb | hcl
    · rw [wf.notBool] at hb; cases hb
    · apply hiClear_dilate_unsigned dt wf hlo _ _ F hs hF
      · intro i hi kh hkh
        have := hcl i hi
        rcases h.heights _ kh hkh with h0 | h1 <;> omega
      · intro kh hkh
        have := wf.hi_pos
        unfold DT.InRange
        rcases h.heights _ kh hkh with h0 | h1 <;> omega
  · intro j _; exact Or.inl rfl

theorem hiClear_of_below (dt : DT) (F : Img Int)
    (hcl : dt.isBool = true ∨ ∀ i, i < shapeSize F.shape → F.data.getD i 0 + 1 < dt.hi) :
    HiClear dt F := by
  intro j hj
  rcases hcl with hb | hcl
  · exact Or.inl hb
  · have := hcl j hj; exact Or.inr (by omega)

/-- `NoSat` for every pixel/entry pair from a hypothesis about the images only -/
theorem noSat_family (dt : DT) (h : RegularElem d S bc) (F G : Img Int) (hshape : G.shape = F.shape)
    (hs : ∀ d ∈ F.shape, 0 < d) (hd : F.shape.length = d) (c : Bool)
    (hc : HiClear dt F ∨ HiClear dt G) :
    ∀ i, i < shapeSize F.shape → ∀ kh ∈ support S bc c,
      NoSat dt (F.data.getD i 0) (G.data.getD (tgt F.shape i kh.1) 0) kh.2 := by
  rcases hc with hc | hc
  · intro i hi kh hkh
    rcases hc i hi with hb | hlt
    · exact Or.inl hb
    · refine Or.inr (Or.inr ?_)
      rcases h.heights c kh hkh with h0 | h1 <;> omega
  · intro i hi kh hkh
    have ht := tgt_lt F.shape hs i hi kh.1 (by rw [h.len c kh hkh, hd])
    rcases hc _ (by rw [hshape]; exact ht) with hb | hlt
    · exact Or.inl hb
    · exact Or.inr (Or.inl hlt)

end

end Mahotas.C02
