/-
Index arithmetic used by the C02/C14 proofs: C-order ravel/unravel round trip, positions produced by
`allPos` are inside the image, clamped positions are inside the image.
-/
import Mahotas.Model.C01
import Mahotas.Proofs.C01
namespace Mahotas
open Mahotas

theorem unravel_length (s : List Nat) (i : Nat) : (unravel s i).length = s.length := by
  induction s generalizing i with
  | nil => simp [unravel]
  | cons d ds ih => simp [unravel, ih]

theorem unravelI_length (s : List Nat) (i : Nat) : (unravelI s i).length = s.length := by
  simp [unravelI, unravel_length]

theorem shapeSize_pos_of_lt (s : List Nat) (i : Nat) (h : i < shapeSize s) : 0 < shapeSize s := by omega

/-- positions enumerated by `allPos` are inside the image -/
theorem inside_unravelI (s : List Nat) (i : Nat) (h : i < shapeSize s) : inside s (unravelI s i) = true := by
  induction s generalizing i with
  | nil => simp [unravelI, unravel, inside]
  | cons d ds ih =>
    simp only [shapeSize] at h
    have hS : 0 < shapeSize ds := by
      rcases Nat.eq_zero_or_pos (shapeSize ds) with h0 | h0
      · rw [h0] at h; simp at h
      · exact h0
    have h1 : i / shapeSize ds < d := by
      apply Nat.div_lt_of_lt_mul; rw [Nat.mul_comm]; exact h
    have h2 : i % shapeSize ds < shapeSize ds := Nat.mod_lt _ hS
    have := ih (i % shapeSize ds) h2
    simp only [unravelI] at this
    simp only [unravelI, unravel, List.map_cons, inside, this, Bool.and_true, Bool.and_eq_true,
      decide_eq_true_eq]
    constructor
    · exact Int.natCast_nonneg _
    · exact Int.ofNat_lt.mpr h1

/-- C-order round trip: the flat index of the `i`-th position is `i` -/
theorem ravelI_unravelI (s : List Nat) (i : Nat) (h : i < shapeSize s) : ravelI s (unravelI s i) = i := by
  induction s generalizing i with
  | nil => simp [shapeSize] at h; simp [unravelI, unravel, ravelI, h]
  | cons d ds ih =>
    simp only [shapeSize] at h
    have hS : 0 < shapeSize ds := by
      rcases Nat.eq_zero_or_pos (shapeSize ds) with h0 | h0
      · rw [h0] at h; simp at h
      · exact h0
    have h2 : i % shapeSize ds < shapeSize ds := Nat.mod_lt _ hS
    have := ih (i % shapeSize ds) h2
    simp only [unravelI] at this
    simp only [unravelI, unravel, List.map_cons, ravelI, this, Int.toNat_natCast]
    rw [Nat.mul_comm]; exact Nat.div_add_mod i (shapeSize ds)

theorem ravelI_lt (s : List Nat) (q : List Int) (h : inside s q = true) : ravelI s q < shapeSize s := by
  induction s generalizing q with
  | nil => cases q <;> simp_all [inside, ravelI, shapeSize]
  | cons d ds ih =>
    cases q with
    | nil => simp [inside] at h
    | cons x xs =>
      simp only [inside, Bool.and_eq_true, decide_eq_true_eq] at h
      have hr := ih xs h.2
      simp only [ravelI, shapeSize]
      have hx : x.toNat + 1 ≤ d := by omega
      calc x.toNat * shapeSize ds + ravelI ds xs < x.toNat * shapeSize ds + shapeSize ds := by omega
        _ = (x.toNat + 1) * shapeSize ds := by rw [Nat.add_mul, Nat.one_mul]
        _ ≤ d * shapeSize ds := Nat.mul_le_mul_right _ hx

theorem mem_allPos (s : List Nat) (p : List Int) (h : p ∈ allPos s) :
    ∃ i, i < shapeSize s ∧ p = unravelI s i := by
  simp only [allPos, List.mem_map, List.mem_range] at h
  obtain ⟨i, hi, rfl⟩ := h
  exact ⟨i, hi, rfl⟩

theorem unravelI_mem_allPos (s : List Nat) (i : Nat) (h : i < shapeSize s) : unravelI s i ∈ allPos s := by
  simp only [allPos, List.mem_map, List.mem_range]
  exact ⟨i, h, rfl⟩

theorem addPos_length (a b : List Int) (h : b.length = a.length) : (addPos a b).length = a.length := by
  induction a generalizing b with
  | nil => cases b <;> simp [addPos]
  | cons x xs ih =>
    cases b with
    | nil => simp at h
    | cons y ys => simp [addPos, ih ys (by simpa using h)]

/-- a clamped position lies inside the image -/
theorem inside_clampPos (s : List Nat) (q : List Int) (hs : ∀ d ∈ s, 0 < d) (hl : q.length = s.length) :
    inside s (clampPos s q) = true := by
  induction s generalizing q with
  | nil => cases q <;> simp_all [clampPos, inside]
  | cons d ds ih =>
    cases q with
    | nil => simp at hl
    | cons x xs =>
      have hd : 0 < d := hs d (by simp)
      have hcs : clampSpec x d = max 0 (min x ((d : Int) - 1)) := rfl
      simp only [clampPos, inside, ih xs (fun e he => hs e (by simp [he])) (by simpa using hl), Bool.and_true]
      generalize clampSpec x d = c at hcs ⊢
      simp only [Bool.and_eq_true, decide_eq_true_eq]
      omega

theorem Img.getD_inside {α : Type} (A : Img α) (q : List Int) (d : α) (h : inside A.shape q = true) :
    A.getD q d = A.data.getD (ravelI A.shape q) d := by
  simp [Img.getD, h]

/-- the value at the `i`-th position is the `i`-th datum -/
theorem Img.getD_unravelI {α : Type} (A : Img α) (i : Nat) (d : α) (h : i < shapeSize A.shape) :
    A.getD (unravelI A.shape i) d = A.data.getD i d := by
  rw [Img.getD_inside A _ d (inside_unravelI _ _ h), ravelI_unravelI _ _ h]

/-- `((allPos s).map f).toArray` read at a flat index -/
theorem getD_map_allPos {β : Type} (s : List Nat) (f : List Int → β) (i : Nat) (d : β) (h : i < shapeSize s) :
    (((allPos s).map f).toArray).getD i d = f (unravelI s i) := by
  simp [Array.getD_eq_getD_getElem?, allPos, List.getElem?_map, List.getElem?_range h]

theorem size_map_allPos {β : Type} (s : List Nat) (f : List Int → β) :
    (((allPos s).map f).toArray).size = shapeSize s := by
  simp [allPos]

end Mahotas
