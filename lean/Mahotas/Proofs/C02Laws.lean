/-
C02: the lattice laws of the model operators, derived from the universal properties of
`Proofs/C02.lean` and a small interface of scalar facts (`Scalars`), instantiated for the unsigned
dtypes and for bool.
-/
import Mahotas.Proofs.C02
namespace Mahotas.C02
open Mahotas Mahotas.C01

/-- every datum of the image is representable -/
def RangeImg (dt : DT) (A : Img Int) : Prop := ∀ j, j < shapeSize A.shape → dt.InRange (A.data.getD j 0)

/-- pointwise order of two images of the same shape -/
def LeImg (A B : Img Int) : Prop := ∀ j, j < shapeSize A.shape → A.data.getD j 0 ≤ B.data.getD j 0

/-- the pair `(a, b)` meets under height `h` without saturating: the image is boolean, or `b` is
    below the dtype maximum, or `a + h` does not exceed it. -/
def NoSat (dt : DT) (a b h : Int) : Prop := dt.isBool = true ∨ b < dt.hi ∨ a + h ≤ dt.hi

/-- the scalar facts about `erode_sub(·, h)` / `dilate_add(·, h)` for the heights of an element -/
structure Scalars (dt : DT) (sup : List (List Int × Int)) : Prop where
  lo0 : dt.lo = 0
  hi_pos : 0 < dt.hi
  e_range : ∀ kh ∈ sup, ∀ a, dt.InRange a → dt.InRange (erodeSub dt a kh.2)
  d_range : ∀ kh ∈ sup, ∀ a, dt.InRange a → dt.InRange (dilateAdd dt a kh.2)
  e_mono : ∀ kh ∈ sup, ∀ a a', dt.InRange a → dt.InRange a' → a ≤ a' → erodeSub dt a kh.2 ≤ erodeSub dt a' kh.2
  d_mono : ∀ kh ∈ sup, ∀ a a', dt.InRange a → dt.InRange a' → a ≤ a' → dilateAdd dt a kh.2 ≤ dilateAdd dt a' kh.2
  adj : ∀ kh ∈ sup, ∀ a b, dt.InRange a → dt.InRange b → a ≠ dt.lo → NoSat dt a b kh.2 →
    (dilateAdd dt a kh.2 ≤ b ↔ a ≤ erodeSub dt b kh.2)

/-! ### instances -/

theorem scalars_unsigned (dt : DT) (wf : dt.WF) (hlo : dt.lo = 0) (sup : List (List Int × Int))
    (hsup : ∀ kh ∈ sup, dt.InRange kh.2) : Scalars dt sup := by
  have hnb := wf.notBool
  have hp := wf.hi_pos
  have h0 : ∀ kh ∈ sup, 0 ≤ kh.2 := fun kh hkh => by have := (hsup kh hkh).1; omega
  refine ⟨hlo, hp, ?_, ?_, ?_, ?_, ?_⟩
  · intro kh hkh a ha
    rw [erodeSub_spec dt wf a kh.2 ha (hsup kh hkh) (h0 kh hkh)]
    unfold DT.InRange DT.clamp at *
    split <;> omega
  · intro kh hkh a ha
    rw [dilateAdd_spec dt wf a kh.2 ha (hsup kh hkh) (h0 kh hkh)]
    unfold DT.InRange DT.clamp at *
    split <;> omega
  · intro kh hkh a a' ha ha' hle
    rw [erodeSub_spec dt wf a kh.2 ha (hsup kh hkh) (h0 kh hkh),
      erodeSub_spec dt wf a' kh.2 ha' (hsup kh hkh) (h0 kh hkh)]
    unfold DT.clamp
    split <;> omega
  · intro kh hkh a a' ha ha' hle
    rw [dilateAdd_spec dt wf a kh.2 ha (hsup kh hkh) (h0 kh hkh),
      dilateAdd_spec dt wf a' kh.2 ha' (hsup kh hkh) (h0 kh hkh)]
    have := hsup kh hkh
    unfold DT.InRange DT.clamp at *
    split <;> split <;> omega
  · intro kh hkh a b ha hb hne hns
    rw [dilateAdd_spec dt wf a kh.2 ha (hsup kh hkh) (h0 kh hkh),
      erodeSub_spec dt wf b kh.2 hb (hsup kh hkh) (h0 kh hkh)]
    have := hsup kh hkh
    unfold NoSat at hns
    simp only [hnb, Bool.false_eq_true, false_or] at hns
    unfold DT.InRange DT.clamp at *
    split <;> split <;> omega

theorem scalars_bool (sup : List (List Int × Int)) (hsup : ∀ kh ∈ sup, kh.2 ≠ 0) : Scalars dtBool sup := by
  have key : ∀ kh ∈ sup, ∀ a, dtBool.InRange a →
      erodeSub dtBool a kh.2 = a ∧ dilateAdd dtBool a kh.2 = a := by
    intro kh hkh a ha
    have hh := hsup kh hkh
    have : a = 0 ∨ a = 1 := by simp only [DT.InRange, dtBool] at ha; omega
    unfold erodeSub dilateAdd
    rcases this with rfl | rfl <;> simp [dtBool, hh]
  refine ⟨rfl, by decide, ?_, ?_, ?_, ?_, ?_⟩
  · intro kh hkh a ha; rw [(key kh hkh a ha).1]; exact ha
  · intro kh hkh a ha; rw [(key kh hkh a ha).2]; exact ha
  · intro kh hkh a a' ha ha' hle; rw [(key kh hkh a ha).1, (key kh hkh a' ha').1]; exact hle
  · intro kh hkh a a' ha ha' hle; rw [(key kh hkh a ha).2, (key kh hkh a' ha').2]; exact hle
  · intro kh hkh a b ha hb _ _; rw [(key kh hkh a ha).2, (key kh hkh b hb).1]

/-! ### flat-index forms of the universal properties -/

/-- flat index of the pixel reached from the `i`-th pixel through the offset `k` -/
def tgt (shape : List Nat) (i : Nat) (k : List Int) : Nat := target shape (unravelI shape i) k

theorem tgt_lt (shape : List Nat) (hs : ∀ d ∈ shape, 0 < d) (i : Nat) (hi : i < shapeSize shape)
    (k : List Int) (hk : k.length = shape.length) : tgt shape i k < shapeSize shape :=
  target_lt shape hs _ k (unravelI_mem_allPos shape i hi) hk

theorem erodeImg_getD (dt : DT) (G : Img Int) (sup : List (List Int × Int)) (i : Nat)
    (hi : i < shapeSize G.shape) :
    (erodeImg dt G sup).data.getD i 0 = erodeAt dt G sup (unravelI G.shape i) := by
  simp only [erodeImg, erodeModel]
  exact getD_map_allPos G.shape _ i 0 hi

/-- (E') universal property of the model erosion, flat form -/
theorem le_erode_iff (dt : DT) (G : Img Int) (sup : List (List Int × Int))
    (hs : ∀ d ∈ G.shape, 0 < d) (hlen : ∀ kh ∈ sup, kh.1.length = G.shape.length)
    (i : Nat) (hi : i < shapeSize G.shape) (v : Int) :
    v ≤ (erodeImg dt G sup).data.getD i 0 ↔
      v ≤ dt.hi ∧ ∀ kh ∈ sup, v ≤ erodeSub dt (G.data.getD (tgt G.shape i kh.1) 0) kh.2 := by
  rw [erodeImg_getD dt G sup i hi, le_erodeAt_iff]
  constructor
  · rintro ⟨h1, h2⟩
    refine ⟨h1, fun kh hkh => ?_⟩
    have := h2 kh hkh
    rwa [readNearest_target G hs _ kh.1 (unravelI_mem_allPos _ i hi) (hlen kh hkh)] at this
  · rintro ⟨h1, h2⟩
    refine ⟨h1, fun kh hkh => ?_⟩
    rw [readNearest_target G hs _ kh.1 (unravelI_mem_allPos _ i hi) (hlen kh hkh)]
    exact h2 kh hkh

/-- (D') universal property of the model dilation, flat form (for dtypes with `lo = 0`) -/
theorem dilate_le_iff (dt : DT) (hlo : dt.lo = 0) (F : Img Int) (sup : List (List Int × Int))
    (hs : ∀ d ∈ F.shape, 0 < d) (j : Nat) (hj : j < shapeSize F.shape) (w : Int) :
    (dilateImg dt F sup).data.getD j 0 ≤ w ↔
      0 ≤ w ∧ ∀ i, i < shapeSize F.shape → F.data.getD i 0 ≠ 0 → ∀ kh ∈ sup,
        tgt F.shape i kh.1 = j → dilateAdd dt (F.data.getD i 0) kh.2 ≤ w := by
  have := dilateModel_le_iff dt F hs sup j hj w
  rw [hlo] at this
  simp only [dilateImg]
  rw [this]
  constructor
  · rintro ⟨h1, h2⟩
    refine ⟨h1, fun i hi hne kh hkh ht => ?_⟩
    have := h2 (unravelI F.shape i) (unravelI_mem_allPos _ i hi)
    rw [Img.getD_unravelI F i 0 hi] at this
    exact this hne kh hkh ht
  · rintro ⟨h1, h2⟩
    refine ⟨h1, fun p hp hne kh hkh ht => ?_⟩
    obtain ⟨i, hi, rfl⟩ := mem_allPos _ p hp
    rw [Img.getD_unravelI F i 0 hi] at hne ⊢
    exact h2 i hi hne kh hkh ht

/-! ### ranges and monotonicity -/

section laws
variable (dt : DT) (sup : List (List Int × Int)) (sc : Scalars dt sup)
include sc

theorem range_erode (G : Img Int) (hs : ∀ d ∈ G.shape, 0 < d)
    (hlen : ∀ kh ∈ sup, kh.1.length = G.shape.length) (hG : RangeImg dt G) :
    RangeImg dt (erodeImg dt G sup) := by
  intro i hi
  have hi' : i < shapeSize G.shape := hi
  constructor
  · rw [le_erode_iff dt G sup hs hlen i hi', sc.lo0]
    refine ⟨by have := sc.hi_pos; omega, fun kh hkh => ?_⟩
    have := (sc.e_range kh hkh _ (hG _ (tgt_lt G.shape hs i hi' kh.1 (hlen kh hkh)))).1
    rw [sc.lo0] at this; exact this
  · exact ((le_erode_iff dt G sup hs hlen i hi' _).mp (Int.le_refl _)).1

theorem range_dilate (F : Img Int) (hs : ∀ d ∈ F.shape, 0 < d) (hF : RangeImg dt F) :
    RangeImg dt (dilateImg dt F sup) := by
  intro j hj
  have hj' : j < shapeSize F.shape := hj
  constructor
  · rw [sc.lo0]
    refine Int.not_lt.mp fun hneg => ?_
    have := ((dilate_le_iff dt sc.lo0 F sup hs j hj' (-1)).mp (by omega)).1
    omega
  · rw [dilate_le_iff dt sc.lo0 F sup hs j hj']
    refine ⟨by have := sc.hi_pos; omega, fun i hi _ kh hkh _ => ?_⟩
    exact (sc.d_range kh hkh _ (hF i hi)).2

theorem erode_mono (G G' : Img Int) (hshape : G'.shape = G.shape) (hs : ∀ d ∈ G.shape, 0 < d)
    (hlen : ∀ kh ∈ sup, kh.1.length = G.shape.length) (hG : RangeImg dt G) (hG' : RangeImg dt G')
    (hle : LeImg G G') : LeImg (erodeImg dt G sup) (erodeImg dt G' sup) := by
  intro i hi
  have hi1 : i < shapeSize G.shape := hi
  have hi2 : i < shapeSize G'.shape := by rw [hshape]; exact hi1
  have hE := (le_erode_iff dt G sup hs hlen i hi1 _).mp (Int.le_refl _)
  rw [le_erode_iff dt G' sup (by rw [hshape]; exact hs) (by rw [hshape]; exact hlen) i hi2]
  refine ⟨hE.1, fun kh hkh => ?_⟩
  rw [hshape]
  have ht := tgt_lt G.shape hs i hi1 kh.1 (hlen kh hkh)
  exact Int.le_trans (hE.2 kh hkh)
    (sc.e_mono kh hkh _ _ (hG _ ht) (hG' _ (by rw [hshape]; exact ht)) (hle _ ht))

theorem dilate_mono (F F' : Img Int) (hshape : F'.shape = F.shape) (hs : ∀ d ∈ F.shape, 0 < d)
    (hF : RangeImg dt F) (hF' : RangeImg dt F') (hle : LeImg F F') :
    LeImg (dilateImg dt F sup) (dilateImg dt F' sup) := by
  intro j hj
  have hj1 : j < shapeSize F.shape := hj
  have hj2 : j < shapeSize F'.shape := by rw [hshape]; exact hj1
  have hD := (dilate_le_iff dt sc.lo0 F' sup (by rw [hshape]; exact hs) j hj2 _).mp (Int.le_refl _)
  rw [dilate_le_iff dt sc.lo0 F sup hs j hj1]
  refine ⟨hD.1, fun i hi hne kh hkh ht => ?_⟩
  have h1 := hle i hi
  have hr := hF i hi
  have hr' := hF' i (by rw [hshape]; exact hi)
  have hne' : F'.data.getD i 0 ≠ 0 := by
    have := hr.1; rw [sc.lo0] at this; omega
  exact Int.le_trans (sc.d_mono kh hkh _ _ hr hr' h1)
    (hD.2 i (by rw [hshape]; exact hi) hne' kh hkh (by rw [hshape]; exact ht))

/-! ### the adjunction -/

/-- `δ F ≤ G ↔ F ≤ ε G` on the model, for the pairs of values that meet without saturating -/
theorem adjunction (F G : Img Int) (hshape : G.shape = F.shape) (hs : ∀ d ∈ F.shape, 0 < d)
    (hlen : ∀ kh ∈ sup, kh.1.length = F.shape.length) (hF : RangeImg dt F) (hG : RangeImg dt G)
    (hns : ∀ i, i < shapeSize F.shape → ∀ kh ∈ sup,
      NoSat dt (F.data.getD i 0) (G.data.getD (tgt F.shape i kh.1) 0) kh.2) :
    LeImg (dilateImg dt F sup) G ↔ LeImg F (erodeImg dt G sup) := by
  have hsG : ∀ d ∈ G.shape, 0 < d := by rw [hshape]; exact hs
  have hlenG : ∀ kh ∈ sup, kh.1.length = G.shape.length := by rw [hshape]; exact hlen
  constructor
  · intro h i hi
    have hiG : i < shapeSize G.shape := by rw [hshape]; exact hi
    rw [le_erode_iff dt G sup hsG hlenG i hiG, hshape]
    refine ⟨(hF i hi).2, fun kh hkh => ?_⟩
    have ht := tgt_lt F.shape hs i hi kh.1 (hlen kh hkh)
    have hGt := hG _ (by rw [hshape]; exact ht)
    by_cases hv : F.data.getD i 0 = 0
    · rw [hv]; have := (sc.e_range kh hkh _ hGt).1; rw [sc.lo0] at this; exact this
    · have hD := ((dilate_le_iff dt sc.lo0 F sup hs _ ht _).mp (h _ ht)).2 i hi hv kh hkh rfl
      exact (sc.adj kh hkh _ _ (hF i hi) hGt (by rw [sc.lo0]; exact hv) (hns i hi kh hkh)).mp hD
  · intro h j hj
    have hj' : j < shapeSize F.shape := hj
    rw [dilate_le_iff dt sc.lo0 F sup hs j hj']
    have hGj := hG j (by rw [hshape]; exact hj')
    refine ⟨by have := hGj.1; rw [sc.lo0] at this; exact this, fun i hi hv kh hkh ht => ?_⟩
    have hiG : i < shapeSize G.shape := by rw [hshape]; exact hi
    have hE := ((le_erode_iff dt G sup hsG hlenG i hiG _).mp (h i hi)).2 kh hkh
    rw [hshape, ht] at hE
    have hn := hns i hi kh hkh
    rw [ht] at hn
    exact (sc.adj kh hkh _ _ (hF i hi) hGj (by rw [sc.lo0]; exact hv) hn).mpr hE

end laws

end Mahotas.C02
