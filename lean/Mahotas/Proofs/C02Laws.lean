/-
C02: the lattice laws of the model operators, derived from the universal properties of
`Proofs/C02.lean` and a small interface of scalar facts (`Scalars`), instantiated for the unsigned
dtypes and for bool.
-/
import Mahotas.Proofs.C02
import Mahotas.Proofs.C14
import Mahotas.Proofs.C14Reg
namespace Mahotas.C02
open Mahotas Mahotas.C01

/-- every datum of the image is representable -/
def RangeImg (dt : DT) (A : Img Int) : Prop := ∀ j, j < shapeSize A.shape → dt.InRange (A.data.getD j 0)

/-- pointwise order of two images of the same shape -/
def LeImg (A B : Img Int) : Prop := ∀ j, j < shapeSize A.shape → A.data.getD j 0 ≤ B.data.getD j 0

/-- the pair `(a, b)` meets under height `h` without saturating: the image is boolean, or `b` is
    below the dtype maximum, or `a + h` does not exceed it. -/
def NoSat (dt : DT) (a b h : Int) : Prop := dt.isBool = true ∨ b < dt.hi ∨ a + h ≤ dt.hi

/-- the scalar facts about `erode_sub(·, h)` / `dilate_add(·, h)` for the heights of an element -/
structure Scalars (dt : DT) (sup : List (List Int × Int)) : Prop where
  lo0 : dt.lo = 0
  hi_pos : 0 < dt.hi
  e_range : ∀ kh ∈ sup, ∀ a, dt.InRange a → dt.InRange (erodeSub dt a kh.2)
  d_range : ∀ kh ∈ sup, ∀ a, dt.InRange a → dt.InRange (dilateAdd dt a kh.2)
  e_mono : ∀ kh ∈ sup, ∀ a a', dt.InRange a → dt.InRange a' → a ≤ a' → erodeSub dt a kh.2 ≤ erodeSub dt a' kh.2
  d_mono : ∀ kh ∈ sup, ∀ a a', dt.InRange a → dt.InRange a' → a ≤ a' → dilateAdd dt a kh.2 ≤ dilateAdd dt a' kh.2
  adj : ∀ kh ∈ sup, ∀ a b, dt.InRange a → dt.InRange b → a ≠ dt.lo → NoSat dt a b kh.2 →
    (dilateAdd dt a kh.2 ≤ b ↔ a ≤ erodeSub dt b kh.2)

/-! ### instances -/

theorem scalars_unsigned (dt : DT) (wf : dt.WF) (hlo : dt.lo = 0) (sup : List (List Int × Int))
    (hsup : ∀ kh ∈ sup, dt.InRange kh.2) : Scalars dt sup := by
  have hnb := wf.notBool
  have hp := wf.hi_pos
  have h0 : ∀ kh ∈ sup, 0 ≤ kh.2 := fun kh hkh => by have := (hsup kh hkh).1; omega
  refine ⟨hlo, hp, ?_, ?_, ?_, ?_, ?_⟩
  · intro kh hkh a ha
    rw [erodeSub_spec dt wf a kh.2 ha (hsup kh hkh) (h0 kh hkh)]
    unfold DT.InRange DT.clamp at *
    split <;> omega
  · intro kh hkh a ha
    rw [dilateAdd_spec dt wf a kh.2 ha (hsup kh hkh) (h0 kh hkh)]
    unfold DT.InRange DT.clamp at *
    split <;> omega
  · intro kh hkh a a' ha ha' hle
    rw [erodeSub_spec dt wf a kh.2 ha (hsup kh hkh) (h0 kh hkh),
      erodeSub_spec dt wf a' kh.2 ha' (hsup kh hkh) (h0 kh hkh)]
    unfold DT.clamp
    split <;> omega
  · intro kh hkh a a' ha ha' hle
    rw [dilateAdd_spec dt wf a kh.2 ha (hsup kh hkh) (h0 kh hkh),
      dilateAdd_spec dt wf a' kh.2 ha' (hsup kh hkh) (h0 kh hkh)]
    have := hsup kh hkh
    unfold DT.InRange DT.clamp at *
    split <;> split <;> omega
  · intro kh hkh a b ha hb hne hns
    rw [dilateAdd_spec dt wf a kh.2 ha (hsup kh hkh) (h0 kh hkh),
      erodeSub_spec dt wf b kh.2 hb (hsup kh hkh) (h0 kh hkh)]
    have := hsup kh hkh
    unfold NoSat at hns
    simp only [hnb, Bool.false_eq_true, false_or] at hns
    unfold DT.InRange DT.clamp at *
    split <;> split <;> omega

theorem scalars_bool (sup : List (List Int × Int)) (hsup : ∀ kh ∈ sup, kh.2 ≠ 0) : Scalars dtBool sup := by
  have key : ∀ kh ∈ sup, ∀ a, dtBool.InRange a →
      erodeSub dtBool a kh.2 = a ∧ dilateAdd dtBool a kh.2 = a := by
    intro kh hkh a ha
    have hh := hsup kh hkh
    have : a = 0 ∨ a = 1 := by simp only [DT.InRange, dtBool] at ha; omega
    unfold erodeSub dilateAdd
    rcases this with rfl | rfl <;> simp [dtBool, hh]
  refine ⟨rfl, by decide, ?_, ?_, ?_, ?_, ?_⟩
  · intro kh hkh a ha; rw [(key kh hkh a ha).1]; exact ha
  · intro kh hkh a ha; rw [(key kh hkh a ha).2]; exact ha
  · intro kh hkh a a' ha ha' hle; rw [(key kh hkh a ha).1, (key kh hkh a' ha').1]; exact hle
  · intro kh hkh a a' ha ha' hle; rw [(key kh hkh a ha).2, (key kh hkh a' ha').2]; exact hle
  · intro kh hkh a b ha hb _ _; rw [(key kh hkh a ha).2, (key kh hkh b hb).1]

/-! ### flat-index forms of the universal properties -/

/-- flat index of the pixel reached from the `i`-th pixel through the offset `k` -/
def tgt (shape : List Nat) (i : Nat) (k : List Int) : Nat := target shape (unravelI shape i) k

theorem tgt_lt (shape : List Nat) (hs : ∀ d ∈ shape, 0 < d) (i : Nat) (hi : i < shapeSize shape)
    (k : List Int) (hk : k.length = shape.length) : tgt shape i k < shapeSize shape :=
  target_lt shape hs _ k (unravelI_mem_allPos shape i hi) hk

theorem erodeImg_getD (dt : DT) (G : Img Int) (sup : List (List Int × Int)) (i : Nat)
    (hi : i < shapeSize G.shape) :
    (erodeImg dt G sup).data.getD i 0 = erodeAt dt G sup (unravelI G.shape i) := by
  simp only [erodeImg]
  exact getD_map_allPos G.shape _ i 0 hi

/-- (E') universal property of the model erosion, flat form -/
theorem le_erode_iff (dt : DT) (G : Img Int) (sup : List (List Int × Int))
    (hs : ∀ d ∈ G.shape, 0 < d) (hlen : ∀ kh ∈ sup, kh.1.length = G.shape.length)
    (i : Nat) (hi : i < shapeSize G.shape) (v : Int) :
    v ≤ (erodeImg dt G sup).data.getD i 0 ↔
      v ≤ dt.hi ∧ ∀ kh ∈ sup, v ≤ erodeSub dt (G.data.getD (tgt G.shape i kh.1) 0) kh.2 := by
  rw [erodeImg_getD dt G sup i hi, le_erodeAt_iff]
  constructor
  · rintro ⟨h1, h2⟩
    refine ⟨h1, fun kh hkh => ?_⟩
    have := h2 kh hkh
    rwa [readNearest_target G hs _ kh.1 (unravelI_mem_allPos _ i hi) (hlen kh hkh)] at this
  · rintro ⟨h1, h2⟩
    refine ⟨h1, fun kh hkh => ?_⟩
    rw [readNearest_target G hs _ kh.1 (unravelI_mem_allPos _ i hi) (hlen kh hkh)]
    exact h2 kh hkh

/-- (D') universal property of the model dilation, flat form (for dtypes with `lo = 0`) -/
theorem dilate_le_iff (dt : DT) (hlo : dt.lo = 0) (F : Img Int) (sup : List (List Int × Int))
    (hs : ∀ d ∈ F.shape, 0 < d) (j : Nat) (hj : j < shapeSize F.shape) (w : Int) :
    (dilateImg dt F sup).data.getD j 0 ≤ w ↔
      0 ≤ w ∧ ∀ i, i < shapeSize F.shape → F.data.getD i 0 ≠ 0 → ∀ kh ∈ sup,
        tgt F.shape i kh.1 = j → dilateAdd dt (F.data.getD i 0) kh.2 ≤ w := by
  have := dilateModel_le_iff dt F hs sup j hj w
  rw [hlo] at this
  simp only [dilateImg]
  rw [this]
  constructor
  · rintro ⟨h1, h2⟩
    refine ⟨h1, fun i hi hne kh hkh ht => ?_⟩
    have := h2 (unravelI F.shape i) (unravelI_mem_allPos _ i hi)
    rw [Img.getD_unravelI F i 0 hi] at this
    exact this hne kh hkh ht
  · rintro ⟨h1, h2⟩
    refine ⟨h1, fun p hp hne kh hkh ht => ?_⟩
    obtain ⟨i, hi, rfl⟩ := mem_allPos _ p hp
    rw [Img.getD_unravelI F i 0 hi] at hne ⊢
    exact h2 i hi hne kh hkh ht

/-! ### ranges and monotonicity -/

section laws
variable (dt : DT) (sup : List (List Int × Int)) (sc : Scalars dt sup)
include sc

theorem range_erode (G : Img Int) (hs : ∀ d ∈ G.shape, 0 < d)
    (hlen : ∀ kh ∈ sup, kh.1.length = G.shape.length) (hG : RangeImg dt G) :
    RangeImg dt (erodeImg dt G sup) := by
  intro i hi
  have hi' : i < shapeSize G.shape := hi
  constructor
  · rw [le_erode_iff dt G sup hs hlen i hi', sc.lo0]
    refine ⟨by have := sc.hi_pos; omega, fun kh hkh => ?_⟩
    have := (sc.e_range kh hkh _ (hG _ (tgt_lt G.shape hs i hi' kh.1 (hlen kh hkh)))).1
    rw [sc.lo0] at this; exact this
  · exact ((le_erode_iff dt G sup hs hlen i hi' _).mp (Int.le_refl _)).1

theorem range_dilate (F : Img Int) (hs : ∀ d ∈ F.shape, 0 < d) (hF : RangeImg dt F) :
    RangeImg dt (dilateImg dt F sup) := by
  intro j hj
  have hj' : j < shapeSize F.shape := hj
  constructor
  · rw [sc.lo0]
    refine Int.not_lt.mp fun hneg => ?_
    have := ((dilate_le_iff dt sc.lo0 F sup hs j hj' (-1)).mp (by omega)).1
    omega
  · rw [dilate_le_iff dt sc.lo0 F sup hs j hj']
    refine ⟨by have := sc.hi_pos; omega, fun i hi _ kh hkh _ => ?_⟩
    exact (sc.d_range kh hkh _ (hF i hi)).2

theorem erode_mono (G G' : Img Int) (hshape : G'.shape = G.shape) (hs : ∀ d ∈ G.shape, 0 < d)
    (hlen : ∀ kh ∈ sup, kh.1.length = G.shape.length) (hG : RangeImg dt G) (hG' : RangeImg dt G')
    (hle : LeImg G G') : LeImg (erodeImg dt G sup) (erodeImg dt G' sup) := by
  intro i hi
  have hi1 : i < shapeSize G.shape := hi
  have hi2 : i < shapeSize G'.shape := by rw [hshape]; exact hi1
  have hE := (le_erode_iff dt G sup hs hlen i hi1 _).mp (Int.le_refl _)
  rw [le_erode_iff dt G' sup (by rw [hshape]; exact hs) (by rw [hshape]; exact hlen) i hi2]
  refine ⟨hE.1, fun kh hkh => ?_⟩
  rw [hshape]
  have ht := tgt_lt G.shape hs i hi1 kh.1 (hlen kh hkh)
  exact Int.le_trans (hE.2 kh hkh)
    (sc.e_mono kh hkh _ _ (hG _ ht) (hG' _ (by rw [hshape]; exact ht)) (hle _ ht))

theorem dilate_mono (F F' : Img Int) (hshape : F'.shape = F.shape) (hs : ∀ d ∈ F.shape, 0 < d)
    (hF : RangeImg dt F) (hF' : RangeImg dt F') (hle : LeImg F F') :
    LeImg (dilateImg dt F sup) (dilateImg dt F' sup) := by
  intro j hj
  have hj1 : j < shapeSize F.shape := hj
  have hj2 : j < shapeSize F'.shape := by rw [hshape]; exact hj1
  have hD := (dilate_le_iff dt sc.lo0 F' sup (by rw [hshape]; exact hs) j hj2 _).mp (Int.le_refl _)
  rw [dilate_le_iff dt sc.lo0 F sup hs j hj1]
  refine ⟨hD.1, fun i hi hne kh hkh ht => ?_⟩
  have h1 := hle i hi
  have hr := hF i hi
  have hr' := hF' i (by rw [hshape]; exact hi)
  have hne' : F'.data.getD i 0 ≠ 0 := by
    have := hr.1; rw [sc.lo0] at this; omega
  exact Int.le_trans (sc.d_mono kh hkh _ _ hr hr' h1)
    (hD.2 i (by rw [hshape]; exact hi) hne' kh hkh (by rw [hshape]; exact ht))

/-! ### the adjunction -/

/-- `δ F ≤ G ↔ F ≤ ε G` on the model, for the pairs of values that meet without saturating -/
theorem adjunction (F G : Img Int) (hshape : G.shape = F.shape) (hs : ∀ d ∈ F.shape, 0 < d)
    (hlen : ∀ kh ∈ sup, kh.1.length = F.shape.length) (hF : RangeImg dt F) (hG : RangeImg dt G)
    (hns : ∀ i, i < shapeSize F.shape → ∀ kh ∈ sup,
      NoSat dt (F.data.getD i 0) (G.data.getD (tgt F.shape i kh.1) 0) kh.2) :
    LeImg (dilateImg dt F sup) G ↔ LeImg F (erodeImg dt G sup) := by
  have hsG : ∀ d ∈ G.shape, 0 < d := by rw [hshape]; exact hs
  have hlenG : ∀ kh ∈ sup, kh.1.length = G.shape.length := by rw [hshape]; exact hlen
  constructor
  · intro h i hi
    have hiG : i < shapeSize G.shape := by rw [hshape]; exact hi
    rw [le_erode_iff dt G sup hsG hlenG i hiG, hshape]
    refine ⟨(hF i hi).2, fun kh hkh => ?_⟩
    have ht := tgt_lt F.shape hs i hi kh.1 (hlen kh hkh)
    have hGt := hG _ (by rw [hshape]; exact ht)
    by_cases hv : F.data.getD i 0 = 0
    · rw [hv]; have := (sc.e_range kh hkh _ hGt).1; rw [sc.lo0] at this; exact this
    · have hD := ((dilate_le_iff dt sc.lo0 F sup hs _ ht _).mp (h _ ht)).2 i hi hv kh hkh rfl
      exact (sc.adj kh hkh _ _ (hF i hi) hGt (by rw [sc.lo0]; exact hv) (hns i hi kh hkh)).mp hD
  · intro h j hj
    have hj' : j < shapeSize F.shape := hj
    rw [dilate_le_iff dt sc.lo0 F sup hs j hj']
    have hGj := hG j (by rw [hshape]; exact hj')
    refine ⟨by have := hGj.1; rw [sc.lo0] at this; exact this, fun i hi hv kh hkh ht => ?_⟩
    have hiG : i < shapeSize G.shape := by rw [hshape]; exact hi
    have hE := ((le_erode_iff dt G sup hsG hlenG i hiG _).mp (h i hi)).2 kh hkh
    rw [hshape, ht] at hE
    have hn := hns i hi kh hkh
    rw [ht] at hn
    exact (sc.adj kh hkh _ _ (hF i hi) hGj (by rw [sc.lo0]; exact hv) hn).mpr hE

/-! ### opening and closing -/

/-- no datum of the image sits at the dtype maximum (bool images: no condition) -/
def HiClear (dt : DT) (G : Img Int) : Prop :=
  ∀ j, j < shapeSize G.shape → dt.isBool = true ∨ G.data.getD j 0 < dt.hi

theorem open_le (G : Img Int) (hs : ∀ d ∈ G.shape, 0 < d)
    (hlen : ∀ kh ∈ sup, kh.1.length = G.shape.length) (hG : RangeImg dt G) (hc : HiClear dt G) :
    LeImg (openModel dt G sup) G := by
  have hE := range_erode dt sup sc G hs hlen hG
  refine (adjunction dt sup sc (erodeImg dt G sup) G rfl hs hlen hE hG ?_).mpr (fun _ _ => Int.le_refl _)
  intro i hi kh hkh
  have ht : tgt G.shape i kh.1 < shapeSize G.shape := tgt_lt G.shape hs i hi kh.1 (hlen kh hkh)
  rcases hc _ ht with h | h
  · exact Or.inl h
  · exact Or.inr (Or.inl h)

theorem le_close (F : Img Int) (hs : ∀ d ∈ F.shape, 0 < d)
    (hlen : ∀ kh ∈ sup, kh.1.length = F.shape.length) (hF : RangeImg dt F)
    (hns : ∀ i, i < shapeSize F.shape → ∀ kh ∈ sup,
      NoSat dt (F.data.getD i 0) ((dilateImg dt F sup).data.getD (tgt F.shape i kh.1) 0) kh.2) :
    LeImg F (closeModel dt F sup) :=
  (adjunction dt sup sc F (dilateImg dt F sup) rfl hs hlen hF (range_dilate dt sup sc F hs hF) hns).mp
    (fun _ _ => Int.le_refl _)

theorem noSat_of_hiClear (F G : Img Int) (hshape : G.shape = F.shape) (hs : ∀ d ∈ F.shape, 0 < d)
    (hlen : ∀ kh ∈ sup, kh.1.length = F.shape.length) (hc : HiClear dt G) :
    ∀ i, i < shapeSize F.shape → ∀ kh ∈ sup,
      NoSat dt (F.data.getD i 0) (G.data.getD (tgt F.shape i kh.1) 0) kh.2 := by
  intro i hi kh hkh
  have ht := tgt_lt F.shape hs i hi kh.1 (hlen kh hkh)
  rcases hc _ (by rw [hshape]; exact ht) with h | h
  · exact Or.inl h
  · exact Or.inr (Or.inl h)

theorem hiClear_of_le (A B : Img Int) (hshape : A.shape = B.shape) (hle : LeImg A B) (hc : HiClear dt B) :
    HiClear dt A := by
  intro j hj
  rcases hc j (by rw [← hshape]; exact hj) with h | h
  · exact Or.inl h
  · exact Or.inr (Int.lt_of_le_of_lt (hle j hj) h)

theorem open_idem (G : Img Int) (hs : ∀ d ∈ G.shape, 0 < d)
    (hlen : ∀ kh ∈ sup, kh.1.length = G.shape.length) (hG : RangeImg dt G) (hc : HiClear dt G) :
    ∀ j, j < shapeSize G.shape →
      (openModel dt (openModel dt G sup) sup).data.getD j 0 = (openModel dt G sup).data.getD j 0 := by
  have hE := range_erode dt sup sc G hs hlen hG
  have hO : RangeImg dt (openModel dt G sup) := range_dilate dt sup sc _ hs hE
  have hle := open_le dt sup sc G hs hlen hG hc
  have hcO : HiClear dt (openModel dt G sup) := hiClear_of_le dt sup sc _ G rfl hle hc
  have h1 := open_le dt sup sc (openModel dt G sup) hs hlen hO hcO
  -- ε G ≤ ε δ ε G, then δ is monotone
  have h2 : LeImg (erodeImg dt G sup) (erodeImg dt (openModel dt G sup) sup) :=
    le_close dt sup sc (erodeImg dt G sup) hs hlen hE
      (noSat_of_hiClear dt sup sc (erodeImg dt G sup) (openModel dt G sup) rfl hs hlen hcO)
  have h3 := dilate_mono dt sup sc (erodeImg dt G sup) (erodeImg dt (openModel dt G sup) sup) rfl hs hE
    (range_erode dt sup sc _ hs hlen hO) h2
  intro j hj
  exact Int.le_antisymm (h1 j hj) (h3 j hj)

theorem close_idem (F : Img Int) (hs : ∀ d ∈ F.shape, 0 < d)
    (hlen : ∀ kh ∈ sup, kh.1.length = F.shape.length) (hF : RangeImg dt F)
    (hc : HiClear dt (dilateImg dt F sup)) :
    ∀ j, j < shapeSize F.shape →
      (closeModel dt (closeModel dt F sup) sup).data.getD j 0 = (closeModel dt F sup).data.getD j 0 := by
  have hD := range_dilate dt sup sc F hs hF
  have hC : RangeImg dt (closeModel dt F sup) := range_erode dt sup sc _ hs hlen hD
  -- δ ε δ F ≤ δ F, then ε is monotone
  have h1 : LeImg (dilateImg dt (closeModel dt F sup) sup) (dilateImg dt F sup) :=
    open_le dt sup sc (dilateImg dt F sup) hs hlen hD hc
  have h2 := erode_mono dt sup sc (dilateImg dt (closeModel dt F sup) sup) (dilateImg dt F sup) rfl hs hlen
    (range_dilate dt sup sc _ hs hC) hD h1
  have hcc : HiClear dt (dilateImg dt (closeModel dt F sup) sup) := hiClear_of_le dt sup sc _ (dilateImg dt F sup) rfl h1 hc
  have h3 : LeImg (closeModel dt F sup) (closeModel dt (closeModel dt F sup) sup) :=
    le_close dt sup sc (closeModel dt F sup) hs hlen hC
      (noSat_of_hiClear dt sup sc (closeModel dt F sup) _ rfl hs hlen hcc)
  intro j hj
  exact Int.le_antisymm (h2 j hj) (h3 j hj)

theorem open_mono (G G' : Img Int) (hshape : G'.shape = G.shape) (hs : ∀ d ∈ G.shape, 0 < d)
    (hlen : ∀ kh ∈ sup, kh.1.length = G.shape.length) (hG : RangeImg dt G) (hG' : RangeImg dt G')
    (hle : LeImg G G') : LeImg (openModel dt G sup) (openModel dt G' sup) :=
  dilate_mono dt sup sc _ _ hshape hs (range_erode dt sup sc G hs hlen hG)
    (range_erode dt sup sc G' (by rw [hshape]; exact hs) (by rw [hshape]; exact hlen) hG')
    (erode_mono dt sup sc G G' hshape hs hlen hG hG' hle)

theorem close_mono (F F' : Img Int) (hshape : F'.shape = F.shape) (hs : ∀ d ∈ F.shape, 0 < d)
    (hlen : ∀ kh ∈ sup, kh.1.length = F.shape.length) (hF : RangeImg dt F) (hF' : RangeImg dt F')
    (hle : LeImg F F') : LeImg (closeModel dt F sup) (closeModel dt F' sup) :=
  erode_mono dt sup sc _ _ hshape hs hlen (range_dilate dt sup sc F hs hF)
    (range_dilate dt sup sc F' (by rw [hshape]; exact hs) hF')
    (dilate_mono dt sup sc F F' hshape hs hF hF' hle)

end laws

/-! ### conditional operators, top-hats -/

theorem map2_getD (op : Int → Int → Int) (A B : Img Int) (i : Nat) (hi : i < shapeSize A.shape) :
    (map2 op A B).data.getD i 0 = op (A.data.getD i 0) (B.data.getD i 0) := by
  have hi' : i < A.size := hi
  simp [map2, Array.getD_eq_getD_getElem?, List.getElem?_map, List.getElem?_range hi']

/-- the centre of the element is a member whose height neither raises an eroded value nor lowers
    a dilated one (any height `≥ 0` other than the "absent" marker; for bool: a set entry) -/
def CentreMember (dt : DT) (sup : List (List Int × Int)) : Prop :=
  ∃ kh ∈ sup, C14.isZeroPos kh.1 = true ∧
    (∀ a, dt.InRange a → erodeSub dt a kh.2 ≤ a) ∧
    (∀ a, dt.InRange a → a ≠ dt.lo → a ≤ dilateAdd dt a kh.2)

theorem centreMember_unsigned (dt : DT) (wf : dt.WF) (hlo : dt.lo = 0) (sup : List (List Int × Int))
    (kh : List Int × Int) (hkh : kh ∈ sup) (hz : C14.isZeroPos kh.1 = true) (hr : dt.InRange kh.2)
    (hne : kh.2 ≠ 0) : CentreMember dt sup := by
  have h0 : 0 ≤ kh.2 := by have := hr.1; omega
  refine ⟨kh, hkh, hz, fun a ha => ?_, fun a ha hna => ?_⟩
  · rw [erodeSub_spec dt wf a kh.2 ha hr h0]
    unfold DT.InRange DT.clamp at *
    split <;> omega
  · rw [dilateAdd_spec dt wf a kh.2 ha hr h0]
    unfold DT.InRange DT.clamp at *
    split <;> omega

theorem centreMember_bool (sup : List (List Int × Int)) (kh : List Int × Int) (hkh : kh ∈ sup)
    (hz : C14.isZeroPos kh.1 = true) (hne : kh.2 ≠ 0) : CentreMember dtBool sup := by
  refine ⟨kh, hkh, hz, fun a ha => ?_, fun a ha _ => ?_⟩ <;>
  · have : a = 0 ∨ a = 1 := by simp only [DT.InRange, dtBool] at ha; omega
    first | unfold erodeSub | unfold dilateAdd
    rcases this with rfl | rfl <;> simp [dtBool, hne]

theorem tgt_zero (shape : List Nat) (i : Nat) (hi : i < shapeSize shape) (k : List Int)
    (hz : C14.isZeroPos k = true) (hk : k.length = shape.length) : tgt shape i k = i := by
  unfold tgt target
  rw [C14.addPos_zero _ k hz (by rw [hk, unravelI_length]),
    C14.clampPos_inside _ _ (inside_unravelI shape i hi), ravelI_unravelI shape i hi]

section cond
variable (dt : DT) (sup : List (List Int × Int)) (sc : Scalars dt sup) (cm : CentreMember dt sup)
include sc cm

omit sc in
theorem erode_le_self (G : Img Int) (hs : ∀ d ∈ G.shape, 0 < d)
    (hlen : ∀ kh ∈ sup, kh.1.length = G.shape.length) (hG : RangeImg dt G) :
    LeImg (erodeImg dt G sup) G := by
  obtain ⟨kh, hkh, hz, he, _⟩ := cm
  intro i hi
  have hi' : i < shapeSize G.shape := hi
  have := ((le_erode_iff dt G sup hs hlen i hi' _).mp (Int.le_refl _)).2 kh hkh
  rw [tgt_zero G.shape i hi' kh.1 hz (hlen kh hkh)] at this
  exact Int.le_trans this (he _ (hG i hi'))

theorem self_le_dilate (F : Img Int) (hs : ∀ d ∈ F.shape, 0 < d)
    (hlen : ∀ kh ∈ sup, kh.1.length = F.shape.length) (hF : RangeImg dt F) :
    LeImg F (dilateImg dt F sup) := by
  obtain ⟨kh, hkh, hz, _, hd⟩ := cm
  intro i hi
  by_cases hv : F.data.getD i 0 = 0
  · rw [hv]
    have := (range_dilate dt sup sc F hs hF i hi).1
    rw [sc.lo0] at this; exact this
  · have := ((dilate_le_iff dt sc.lo0 F sup hs i hi _).mp (Int.le_refl _)).2 i hi hv kh hkh
      (tgt_zero F.shape i hi kh.1 hz (hlen kh hkh))
    exact Int.le_trans (hd _ (hF i hi) (by rw [sc.lo0]; exact hv)) this

/-- `g ≤ cerode(f, g) ≤ max(f, g)` -/
theorem cerode_bounds (f g : Img Int) (hshape : g.shape = f.shape) (hs : ∀ d ∈ f.shape, 0 < d)
    (hlen : ∀ kh ∈ sup, kh.1.length = f.shape.length) (hf : RangeImg dt f) (hg : RangeImg dt g) :
    ∀ i, i < shapeSize f.shape →
      g.data.getD i 0 ≤ (cerodeModel dt f g sup).data.getD i 0 ∧
      (cerodeModel dt f g sup).data.getD i 0 ≤ max (f.data.getD i 0) (g.data.getD i 0) := by
  intro i hi
  have hm : RangeImg dt (map2 max f g) := by
    intro j hj
    have hj' : j < shapeSize f.shape := hj
    rw [map2_getD max f g j hj']
    have h1 := hf j hj'; have h2 := hg j (by rw [hshape]; exact hj')
    unfold DT.InRange at *; omega
  have hle := erode_le_self dt sup cm (map2 max f g) hs hlen hm i hi
  rw [map2_getD max f g i hi] at hle
  unfold cerodeModel
  rw [map2_getD max (erodeImg dt (map2 max f g) sup) g i hi]
  omega

/-- the loop of `cdilate` keeps its iterate between the starting image and `g` -/
theorem cdilateLoop_bounds (g : Img Int) (hs : ∀ d ∈ g.shape, 0 < d)
    (hlen : ∀ kh ∈ sup, kh.1.length = g.shape.length) (hg : RangeImg dt g) (n : Nat) (f : Img Int)
    (hshape : f.shape = g.shape) (hf : RangeImg dt f) (hfg : LeImg f g) :
    (cdilateLoop dt g sup n f).shape = g.shape ∧
    LeImg f (cdilateLoop dt g sup n f) ∧ LeImg (cdilateLoop dt g sup n f) g := by
  induction n generalizing f with
  | zero => exact ⟨hshape, fun _ _ => Int.le_refl _, hfg⟩
  | succ n ih =>
    unfold cdilateLoop
    simp only []
    have hsf : ∀ d ∈ f.shape, 0 < d := by rw [hshape]; exact hs
    have hlenf : ∀ kh ∈ sup, kh.1.length = f.shape.length := by rw [hshape]; exact hlen
    have hD := range_dilate dt sup sc f hsf hf
    have hext := self_le_dilate dt sup sc cm f hsf hlenf hf
    have hget : ∀ j, j < shapeSize f.shape →
        (map2 min (dilateImg dt f sup) g).data.getD j 0 =
          min ((dilateImg dt f sup).data.getD j 0) (g.data.getD j 0) :=
      fun j hj => map2_getD min (dilateImg dt f sup) g j hj
    have hshape' : (map2 min (dilateImg dt f sup) g).shape = g.shape := hshape
    have hf' : RangeImg dt (map2 min (dilateImg dt f sup) g) := by
      intro j hj
      have hj' : j < shapeSize f.shape := hj
      rw [hget j hj']
      have h1 := hD j hj'; have h2 := hg j (by rw [← hshape]; exact hj')
      unfold DT.InRange at *; omega
    have hle' : LeImg f (map2 min (dilateImg dt f sup) g) := by
      intro j hj
      rw [hget j hj]
      have h1 := hext j hj; have h2 := hfg j hj
      omega
    have hfg' : LeImg (map2 min (dilateImg dt f sup) g) g := by
      intro j hj
      have hj' : j < shapeSize f.shape := hj
      rw [hget j hj']
      omega
    split
    · exact ⟨hshape', hle', hfg'⟩
    · obtain ⟨h1, h2, h3⟩ := ih _ hshape' hf' hfg'
      exact ⟨h1, fun j hj => Int.le_trans (hle' j hj) (h2 j hj), h3⟩

/-- `min(f, g) ≤ cdilate(f, g, Bc, n) ≤ g` for every `n` -/
theorem cdilate_bounds (f g : Img Int) (hshape : g.shape = f.shape) (hs : ∀ d ∈ f.shape, 0 < d)
    (hlen : ∀ kh ∈ sup, kh.1.length = f.shape.length) (hf : RangeImg dt f) (hg : RangeImg dt g) (n : Nat) :
    ∀ i, i < shapeSize f.shape →
      min (f.data.getD i 0) (g.data.getD i 0) ≤ (cdilateModel dt f g sup n).data.getD i 0 ∧
      (cdilateModel dt f g sup n).data.getD i 0 ≤ g.data.getD i 0 := by
  have hm : RangeImg dt (map2 min f g) := by
    intro j hj
    have hj' : j < shapeSize f.shape := hj
    rw [map2_getD min f g j hj']
    have h1 := hf j hj'; have h2 := hg j (by rw [hshape]; exact hj')
    unfold DT.InRange at *; omega
  have hmg : LeImg (map2 min f g) g := by
    intro j hj
    have hj' : j < shapeSize f.shape := hj
    rw [map2_getD min f g j hj']; omega
  obtain ⟨h1, h2, h3⟩ := cdilateLoop_bounds dt sup sc cm g (by rw [hshape]; exact hs)
    (by rw [hshape]; exact hlen) hg n (map2 min f g) hshape.symm hm hmg
  intro i hi
  have := h2 i hi
  rw [map2_getD min f g i hi] at this
  exact ⟨this, h3 i (by rw [h1, hshape]; exact hi)⟩

end cond

/-! ### top-hats -/

theorem submElem_of_le (dt : DT) (hlo : dt.lo = 0) (a b : Int) (h : b ≤ a) : submElem dt a b = a - b := by
  unfold submElem DT.signed
  simp only [hlo, Int.lt_irrefl, decide_false, Bool.false_eq_true, if_false]
  have : ¬ b > a := by omega
  simp only [this, if_false]

theorem tophatOpen_exact (dt : DT) (hlo : dt.lo = 0) (f : Img Int) (sup : List (List Int × Int))
    (hle : LeImg (openModel dt f sup) f) :
    ∀ i, i < shapeSize f.shape →
      (tophatOpenModel dt f sup).data.getD i 0 = f.data.getD i 0 - (openModel dt f sup).data.getD i 0 := by
  intro i hi
  unfold tophatOpenModel submModel
  rw [map2_getD _ f _ i hi]
  exact submElem_of_le dt hlo _ _ (hle i hi)

theorem tophatClose_exact (dt : DT) (hlo : dt.lo = 0) (f : Img Int) (sup : List (List Int × Int))
    (hle : LeImg f (closeModel dt f sup)) :
    ∀ i, i < shapeSize f.shape →
      (tophatCloseModel dt f sup).data.getD i 0 = (closeModel dt f sup).data.getD i 0 - f.data.getD i 0 := by
  intro i hi
  unfold tophatCloseModel submModel
  rw [map2_getD _ (closeModel dt f sup) f i hi]
  exact submElem_of_le dt hlo _ _ (hle i hi)

/-- an unsigned image whose values stay `h` below the maximum for every height `h` of the element
    dilates without reaching the maximum -/
theorem hiClear_dilate_unsigned (dt : DT) (wf : dt.WF) (hlo : dt.lo = 0) (sup : List (List Int × Int))
    (hsup : ∀ kh ∈ sup, dt.InRange kh.2) (F : Img Int) (hs : ∀ d ∈ F.shape, 0 < d) (hF : RangeImg dt F)
    (hcl : ∀ i, i < shapeSize F.shape → ∀ kh ∈ sup, F.data.getD i 0 + kh.2 < dt.hi) :
    HiClear dt (dilateImg dt F sup) := by
  intro j hj
  have hj' : j < shapeSize F.shape := hj
  refine Or.inr ?_
  have : (dilateImg dt F sup).data.getD j 0 ≤ dt.hi - 1 := by
    rw [dilate_le_iff dt hlo F sup hs j hj']
    refine ⟨by have := wf.hi_pos; omega, fun i hi _ kh hkh _ => ?_⟩
    have hr := hsup kh hkh
    have h0 : 0 ≤ kh.2 := by have := hr.1; omega
    rw [dilateAdd_spec dt wf _ kh.2 (hF i hi) hr h0]
    have := hcl i hi kh hkh
    have := hF i hi
    have := wf.hi_pos
    unfold DT.InRange DT.clamp at *
    split <;> omega
  omega

/-! ### boolean duality -/

/-- scatter/gather symmetry of the element on an image shape: pixel `i` reaches `j` through some
    offset iff `j` reaches `i`. True of symmetric, coordinate-wise star-shaped elements (centred
    cross, box, disk) — F12 of the design, proved in `design-notes/spikes/StarScatterGatherSpike.lean`
    for coordinates `Fin d → ℤ`; here it is a hypothesis. -/
def ScatterGatherSym (shape : List Nat) (sup : List (List Int × Int)) : Prop :=
  ∀ i j, i < shapeSize shape → j < shapeSize shape →
    ((∃ kh ∈ sup, tgt shape i kh.1 = j) ↔ (∃ kh ∈ sup, tgt shape j kh.1 = i))

/-- the offsets of the element are closed under "between 0 and a member" (coordinate-wise star-shaped,
    centre included) and under negation -/
structure SymStar (sup : List (List Int × Int)) : Prop where
  star : ∀ kh ∈ sup, ∀ k', C01.between k' kh.1 = true → ∃ kh' ∈ sup, kh'.1 = k'
  neg : ∀ kh ∈ sup, ∃ kh' ∈ sup, kh'.1 = negPos kh.1

theorem sg_dir (shape : List Nat) (sup : List (List Int × Int)) (hs : ∀ d ∈ shape, 0 < d)
    (hlen : ∀ kh ∈ sup, kh.1.length = shape.length) (hss : SymStar sup) (i j : Nat)
    (hi : i < shapeSize shape) (hj : j < shapeSize shape) (h : ∃ kh ∈ sup, tgt shape i kh.1 = j) :
    ∃ kh ∈ sup, tgt shape j kh.1 = i := by
  obtain ⟨kh, hkh, ht⟩ := h
  have hp := inside_unravelI shape i hi
  have hq := inside_unravelI shape j hj
  have hkl : kh.1.length = (unravelI shape i).length := by rw [hlen kh hkh, unravelI_length]
  obtain ⟨k', hb, hc, hin⟩ := C14.clamp_between shape (unravelI shape i) kh.1 hp hkl
  -- the clamped target is the j-th position
  have hq' : addPos (unravelI shape i) k' = unravelI shape j := by
    apply C14.ravelI_inj shape _ _ hin hq
    rw [ravelI_unravelI shape j hj, ← hc]
    exact ht
  obtain ⟨kh1, hkh1, hk1⟩ := hss.star kh hkh k' hb
  obtain ⟨kh2, hkh2, hk2⟩ := hss.neg kh1 hkh1
  refine ⟨kh2, hkh2, ?_⟩
  unfold tgt target
  rw [hk2, hk1, ← hq', C14.addPos_negPos _ k' (by rw [C14.between_length k' kh.1 hb, hkl]),
    C14.clampPos_inside _ _ hp, ravelI_unravelI shape i hi]

/-- F12 in the model's coordinates: symmetric star-shaped elements are scatter/gather symmetric on
    every image shape -/
theorem scatterGatherSym_of_symStar (shape : List Nat) (sup : List (List Int × Int))
    (hs : ∀ d ∈ shape, 0 < d) (hlen : ∀ kh ∈ sup, kh.1.length = shape.length) (hss : SymStar sup) :
    ScatterGatherSym shape sup :=
  fun i j hi hj => ⟨sg_dir shape sup hs hlen hss i j hi hj, sg_dir shape sup hs hlen hss j i hj hi⟩

theorem bool_scalar (sup : List (List Int × Int)) (hsup : ∀ kh ∈ sup, kh.2 ≠ 0) (kh : List Int × Int)
    (hkh : kh ∈ sup) (a : Int) (ha : a = 0 ∨ a = 1) :
    erodeSub dtBool a kh.2 = a ∧ dilateAdd dtBool a kh.2 = a := by
  have hh := hsup kh hkh
  unfold erodeSub dilateAdd
  rcases ha with rfl | rfl <;> simp [dtBool, hh]

/-- the complement of a boolean image -/
def notImg (F : Img Int) : Img Int := map2 (fun a _ => 1 - a) F F

theorem bool_duality (F : Img Int) (sup : List (List Int × Int)) (hsup : ∀ kh ∈ sup, kh.2 ≠ 0)
    (hs : ∀ d ∈ F.shape, 0 < d) (hlen : ∀ kh ∈ sup, kh.1.length = F.shape.length)
    (hF : RangeImg dtBool F) (hsg : ScatterGatherSym F.shape sup) :
    ∀ j, j < shapeSize F.shape →
      (dilateImg dtBool F sup).data.getD j 0 = 1 - (erodeImg dtBool (notImg F) sup).data.getD j 0 := by
  have sc := scalars_bool sup hsup
  have h01 : ∀ i, i < shapeSize F.shape → F.data.getD i 0 = 0 ∨ F.data.getD i 0 = 1 := by
    intro i hi; have := hF i hi; simp only [DT.InRange, dtBool] at this; omega
  have hN : ∀ i, i < shapeSize F.shape → (notImg F).data.getD i 0 = 1 - F.data.getD i 0 :=
    fun i hi => map2_getD _ F F i hi
  have hNr : RangeImg dtBool (notImg F) := by
    intro i hi
    have hi' : i < shapeSize F.shape := hi
    rw [hN i hi']
    rcases h01 i hi' with h | h <;> simp [h, DT.InRange, dtBool]
  have hDr := range_dilate dtBool sup sc F hs hF
  have hEr := range_erode dtBool sup sc (notImg F) hs hlen hNr
  intro j hj
  have hDj : 0 ≤ (dilateImg dtBool F sup).data.getD j 0 ∧ (dilateImg dtBool F sup).data.getD j 0 ≤ 1 :=
    hDr j hj
  have hEj : 0 ≤ (erodeImg dtBool (notImg F) sup).data.getD j 0 ∧
      (erodeImg dtBool (notImg F) sup).data.getD j 0 ≤ 1 := hEr j hj
  apply Int.le_antisymm
  · rw [dilate_le_iff dtBool rfl F sup hs j hj]
    refine ⟨by omega, fun i hi hne kh hkh ht => ?_⟩
    have hFi : F.data.getD i 0 = 1 := by rcases h01 i hi with h | h; exact absurd h hne; exact h
    rw [hFi, (bool_scalar sup hsup kh hkh 1 (Or.inr rfl)).2]
    obtain ⟨kh', hkh', ht'⟩ := (hsg i j hi hj).mp ⟨kh, hkh, ht⟩
    have := ((le_erode_iff dtBool (notImg F) sup hs hlen j hj _).mp (Int.le_refl _)).2 kh' hkh'
    have hshape : (notImg F).shape = F.shape := rfl
    rw [hshape, ht', hN i hi, hFi, (bool_scalar sup hsup kh' hkh' _ (Or.inl (by omega))).1] at this
    omega
  · have : 1 - (dilateImg dtBool F sup).data.getD j 0 ≤ (erodeImg dtBool (notImg F) sup).data.getD j 0 := by
      rw [le_erode_iff dtBool (notImg F) sup hs hlen j hj]
      refine ⟨by show _ ≤ (1 : Int); omega, fun kh hkh => ?_⟩
      have hshape : (notImg F).shape = F.shape := rfl
      rw [hshape]
      have ht := tgt_lt F.shape hs j hj kh.1 (hlen kh hkh)
      rw [hN _ ht]
      rcases h01 _ ht with h | h
      · rw [h, (bool_scalar sup hsup kh hkh _ (Or.inr (by omega))).1]; omega
      · rw [h, (bool_scalar sup hsup kh hkh _ (Or.inl (by omega))).1]
        obtain ⟨kh', hkh', ht'⟩ := (hsg j _ hj ht).mp ⟨kh, hkh, rfl⟩
        have := ((dilate_le_iff dtBool rfl F sup hs j hj _).mp (Int.le_refl _)).2 _ ht (by omega) kh' hkh' ht'
        rw [h, (bool_scalar sup hsup kh' hkh' 1 (Or.inr rfl)).2] at this
        omega
    omega

end Mahotas.C02
