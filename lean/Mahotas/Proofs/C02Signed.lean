/-
C02, round 4: the lattice laws on the saturating model for **every integer dtype, signed included**.

`Proofs/C02Laws.lean` derives the laws from the interface `Scalars dt sup`, whose first field is
`dt.lo = 0`. For a signed dtype the smallest value is negative; it is still the absorbing "−∞" of
`dilate_add` and the "not in the element" marker of both scalar helpers, and a 0 entry of the
structuring element is a *member of height 0*. This file restates the interface without `lo = 0`
(`ScalarsG`), derives the same laws from the same two universal properties (E)/(D), and establishes
the interface for every well-formed integer dtype (signed **and** unsigned at once) and every element
whose entries are either the marker `dt.lo` or a height in `[0, hi]`.

Images are well formed (`WFImg`: as many data as the shape says) because a signed default value
differs from the `0` that `Array.getD` is read with.
-/
import Mahotas.Proofs.C02Laws
import Mahotas.Proofs.C02Families
namespace Mahotas.C02
open Mahotas Mahotas.C01

/-- a well-formed image: as many data as the shape says -/
def WFImg (A : Img Int) : Prop := A.data.size = shapeSize A.shape

/-- the scalar facts about `erode_sub(·, h)` / `dilate_add(·, h)` for the heights of an element,
    for a dtype whose smallest value need not be 0 (`Scalars` without `lo = 0`) -/
structure ScalarsG (dt : DT) (sup : List (List Int × Int)) : Prop where
  lo_lt_hi : dt.lo < dt.hi
  e_range : ∀ kh ∈ sup, ∀ a, dt.InRange a → dt.InRange (erodeSub dt a kh.2)
  d_range : ∀ kh ∈ sup, ∀ a, dt.InRange a → dt.InRange (dilateAdd dt a kh.2)
  e_mono : ∀ kh ∈ sup, ∀ a a', dt.InRange a → dt.InRange a' → a ≤ a' → erodeSub dt a kh.2 ≤ erodeSub dt a' kh.2
  d_mono : ∀ kh ∈ sup, ∀ a a', dt.InRange a → dt.InRange a' → a ≤ a' → dilateAdd dt a kh.2 ≤ dilateAdd dt a' kh.2
  adj : ∀ kh ∈ sup, ∀ a b, dt.InRange a → dt.InRange b → a ≠ dt.lo → NoSat dt a b kh.2 →
    (dilateAdd dt a kh.2 ≤ b ↔ a ≤ erodeSub dt b kh.2)

theorem Scalars.toG {dt : DT} {sup : List (List Int × Int)} (sc : Scalars dt sup) : ScalarsG dt sup :=
  ⟨by rw [sc.lo0]; exact sc.hi_pos, sc.e_range, sc.d_range, sc.e_mono, sc.d_mono, sc.adj⟩

/-! ### the instance: every integer dtype, every element with entries `lo` (absent) or a height in `[0, hi]` -/

/-- an admissible entry of a structuring element: the marker `dt.lo` ("not in the element") or a
    non-negative height that the dtype can represent -/
def AdmissibleEntry (dt : DT) (h : Int) : Prop := h = dt.lo ∨ (0 ≤ h ∧ h ≤ dt.hi)

theorem erodeSub_marker (dt : DT) (hnb : dt.isBool = false) (a : Int) : erodeSub dt a dt.lo = dt.hi := by
  unfold erodeSub; simp [hnb]

theorem dilateAdd_marker (dt : DT) (hnb : dt.isBool = false) (a : Int) : dilateAdd dt a dt.lo = dt.lo := by
  unfold dilateAdd
  simp only [hnb, Bool.false_eq_true, if_false, if_true]
  split
  · assumption
  · rfl

theorem scalars_int (dt : DT) (wf : dt.WF) (sup : List (List Int × Int))
    (hsup : ∀ kh ∈ sup, AdmissibleEntry dt kh.2) : ScalarsG dt sup := by
  have hnb := wf.notBool
  have hp := wf.hi_pos
  have hlc := wf.lo_cases
  have hl0 : dt.lo ≤ 0 := by omega
  -- every entry is the marker of a signed dtype, or a height `0 ≤ h ≤ hi`
  have hcase : ∀ kh ∈ sup, kh.2 = dt.lo ∨ (0 ≤ kh.2 ∧ dt.InRange kh.2) := by
    intro kh hkh
    rcases hsup kh hkh with h | ⟨h0, h1⟩
    · exact Or.inl h
    · exact Or.inr ⟨h0, by unfold DT.InRange; omega⟩
  refine ⟨by omega, ?_, ?_, ?_, ?_, ?_⟩
  · intro kh hkh a ha
    rcases hcase kh hkh with h | ⟨h0, hr⟩
    · rw [h, erodeSub_marker dt hnb]; unfold DT.InRange; omega
    · rw [erodeSub_spec dt wf a kh.2 ha hr h0]
      unfold DT.InRange DT.clamp at *
      split <;> omega
  · intro kh hkh a ha
    rcases hcase kh hkh with h | ⟨h0, hr⟩
    · rw [h, dilateAdd_marker dt hnb]; unfold DT.InRange; omega
    · rw [dilateAdd_spec dt wf a kh.2 ha hr h0]
      unfold DT.InRange DT.clamp at *
      split <;> omega
  · intro kh hkh a a' ha ha' hle
    rcases hcase kh hkh with h | ⟨h0, hr⟩
    · rw [h, erodeSub_marker dt hnb, erodeSub_marker dt hnb]; omega
    · rw [erodeSub_spec dt wf a kh.2 ha hr h0, erodeSub_spec dt wf a' kh.2 ha' hr h0]
      unfold DT.clamp
      split <;> omega
  · intro kh hkh a a' ha ha' hle
    rcases hcase kh hkh with h | ⟨h0, hr⟩
    · rw [h, dilateAdd_marker dt hnb, dilateAdd_marker dt hnb]; omega
    · rw [dilateAdd_spec dt wf a kh.2 ha hr h0, dilateAdd_spec dt wf a' kh.2 ha' hr h0]
      unfold DT.InRange DT.clamp at *
      split <;> split <;> omega
  · intro kh hkh a b ha hb hne hns
    rcases hcase kh hkh with h | ⟨h0, hr⟩
    · rw [h, dilateAdd_marker dt hnb, erodeSub_marker dt hnb]
      unfold DT.InRange at ha hb
      constructor <;> intro _ <;> omega
    · rw [dilateAdd_spec dt wf a kh.2 ha hr h0, erodeSub_spec dt wf b kh.2 hb hr h0]
      unfold NoSat at hns
      simp only [hnb, Bool.false_eq_true, false_or] at hns
      unfold DT.InRange DT.clamp at *
      split <;> split <;> omega

/-! ### flat-index form of (D) for a general smallest value -/

theorem getD_lo (dt : DT) (A : Img Int) (wf : WFImg A) (i : Nat) (hi : i < shapeSize A.shape) :
    A.data.getD i dt.lo = A.data.getD i 0 :=
  getD_default _ _ (by rw [wf]; exact hi)

theorem wf_erode (dt : DT) (G : Img Int) (sup : List (List Int × Int)) : WFImg (erodeImg dt G sup) :=
  size_map_allPos _ _

theorem wf_dilate (dt : DT) (F : Img Int) (sup : List (List Int × Int)) : WFImg (dilateImg dt F sup) :=
  dilateModel_size dt F sup

theorem wf_map2 (op : Int → Int → Int) (A B : Img Int) : WFImg (map2 op A B) := by
  simp [WFImg, map2, Img.size]

/-- (D') universal property of the model dilation, flat form, any smallest value -/
theorem dilate_le_iffG (dt : DT) (F : Img Int) (wfF : WFImg F) (sup : List (List Int × Int))
    (hs : ∀ d ∈ F.shape, 0 < d) (j : Nat) (hj : j < shapeSize F.shape) (w : Int) :
    (dilateImg dt F sup).data.getD j 0 ≤ w ↔
      dt.lo ≤ w ∧ ∀ i, i < shapeSize F.shape → F.data.getD i 0 ≠ dt.lo → ∀ kh ∈ sup,
        tgt F.shape i kh.1 = j → dilateAdd dt (F.data.getD i 0) kh.2 ≤ w := by
  have h := dilateModel_le_iff dt F hs sup j hj w
  have hsz : j < (dilateModel dt F sup).size := by rw [dilateModel_size]; exact hj
  simp only [dilateImg]
  rw [getD_default 0 dt.lo hsz, h]
  constructor
  · rintro ⟨h1, h2⟩
    refine ⟨h1, fun i hi hne kh hkh ht => ?_⟩
    have := h2 (unravelI F.shape i) (unravelI_mem_allPos _ i hi)
    rw [Img.getD_unravelI F i dt.lo hi, getD_lo dt F wfF i hi] at this
    exact this hne kh hkh ht
  · rintro ⟨h1, h2⟩
    refine ⟨h1, fun p hp hne kh hkh ht => ?_⟩
    obtain ⟨i, hi, rfl⟩ := mem_allPos _ p hp
    rw [Img.getD_unravelI F i dt.lo hi, getD_lo dt F wfF i hi] at hne ⊢
    exact h2 i hi hne kh hkh ht

/-! ### the laws -/

section lawsG
variable (dt : DT) (sup : List (List Int × Int)) (sc : ScalarsG dt sup)
include sc

theorem range_erodeG (G : Img Int) (hs : ∀ d ∈ G.shape, 0 < d)
    (hlen : ∀ kh ∈ sup, kh.1.length = G.shape.length) (hG : RangeImg dt G) :
    RangeImg dt (erodeImg dt G sup) := by
  intro i hi
  have hi' : i < shapeSize G.shape := hi
  constructor
  · rw [le_erode_iff dt G sup hs hlen i hi']
    refine ⟨by have := sc.lo_lt_hi; omega, fun kh hkh => ?_⟩
    exact (sc.e_range kh hkh _ (hG _ (tgt_lt G.shape hs i hi' kh.1 (hlen kh hkh)))).1
  · exact ((le_erode_iff dt G sup hs hlen i hi' _).mp (Int.le_refl _)).1

theorem range_dilateG (F : Img Int) (wfF : WFImg F) (hs : ∀ d ∈ F.shape, 0 < d) (hF : RangeImg dt F) :
    RangeImg dt (dilateImg dt F sup) := by
  intro j hj
  have hj' : j < shapeSize F.shape := hj
  constructor
  · refine Int.not_lt.mp fun hneg => ?_
    have := ((dilate_le_iffG dt F wfF sup hs j hj' (dt.lo - 1)).mp (by omega)).1
    omega
  · rw [dilate_le_iffG dt F wfF sup hs j hj']
    refine ⟨by have := sc.lo_lt_hi; omega, fun i hi _ kh hkh _ => ?_⟩
    exact (sc.d_range kh hkh _ (hF i hi)).2

theorem erode_monoG (G G' : Img Int) (hshape : G'.shape = G.shape) (hs : ∀ d ∈ G.shape, 0 < d)
    (hlen : ∀ kh ∈ sup, kh.1.length = G.shape.length) (hG : RangeImg dt G) (hG' : RangeImg dt G')
    (hle : LeImg G G') : LeImg (erodeImg dt G sup) (erodeImg dt G' sup) := by
  intro i hi
  have hi1 : i < shapeSize G.shape := hi
  have hi2 : i < shapeSize G'.shape := by rw [hshape]; exact hi1
  have hE := (le_erode_iff dt G sup hs hlen i hi1 _).mp (Int.le_refl _)
  rw [le_erode_iff dt G' sup (by rw [hshape]; exact hs) (by rw [hshape]; exact hlen) i hi2]
  refine ⟨hE.1, fun kh hkh => ?_⟩
  rw [hshape]
  have ht := tgt_lt G.shape hs i hi1 kh.1 (hlen kh hkh)
  exact Int.le_trans (hE.2 kh hkh)
    (sc.e_mono kh hkh _ _ (hG _ ht) (hG' _ (by rw [hshape]; exact ht)) (hle _ ht))

theorem dilate_monoG (F F' : Img Int) (wfF : WFImg F) (wfF' : WFImg F') (hshape : F'.shape = F.shape)
    (hs : ∀ d ∈ F.shape, 0 < d) (hF : RangeImg dt F) (hF' : RangeImg dt F') (hle : LeImg F F') :
    LeImg (dilateImg dt F sup) (dilateImg dt F' sup) := by
  intro j hj
  have hj1 : j < shapeSize F.shape := hj
  have hj2 : j < shapeSize F'.shape := by rw [hshape]; exact hj1
  have hD := (dilate_le_iffG dt F' wfF' sup (by rw [hshape]; exact hs) j hj2 _).mp (Int.le_refl _)
  rw [dilate_le_iffG dt F wfF sup hs j hj1]
  refine ⟨hD.1, fun i hi hne kh hkh ht => ?_⟩
  have h1 := hle i hi
  have hr := hF i hi
  have hr' := hF' i (by rw [hshape]; exact hi)
  have hne' : F'.data.getD i 0 ≠ dt.lo := by
    have := hr.1; omega
  exact Int.le_trans (sc.d_mono kh hkh _ _ hr hr' h1)
    (hD.2 i (by rw [hshape]; exact hi) hne' kh hkh (by rw [hshape]; exact ht))

/-- `δ F ≤ G ↔ F ≤ ε G` on the model, for the pairs of values that meet without saturating -/
theorem adjunctionG (F G : Img Int) (wfF : WFImg F) (hshape : G.shape = F.shape)
    (hs : ∀ d ∈ F.shape, 0 < d)
    (hlen : ∀ kh ∈ sup, kh.1.length = F.shape.length) (hF : RangeImg dt F) (hG : RangeImg dt G)
    (hns : ∀ i, i < shapeSize F.shape → ∀ kh ∈ sup,
      NoSat dt (F.data.getD i 0) (G.data.getD (tgt F.shape i kh.1) 0) kh.2) :
    LeImg (dilateImg dt F sup) G ↔ LeImg F (erodeImg dt G sup) := by
  have hsG : ∀ d ∈ G.shape, 0 < d := by rw [hshape]; exact hs
  have hlenG : ∀ kh ∈ sup, kh.1.length = G.shape.length := by rw [hshape]; exact hlen
  constructor
  · intro h i hi
    have hiG : i < shapeSize G.shape := by rw [hshape]; exact hi
    rw [le_erode_iff dt G sup hsG hlenG i hiG, hshape]
    refine ⟨(hF i hi).2, fun kh hkh => ?_⟩
    have ht := tgt_lt F.shape hs i hi kh.1 (hlen kh hkh)
    have hGt := hG _ (by rw [hshape]; exact ht)
    by_cases hv : F.data.getD i 0 = dt.lo
    · rw [hv]; exact (sc.e_range kh hkh _ hGt).1
    · have hD := ((dilate_le_iffG dt F wfF sup hs _ ht _).mp (h _ ht)).2 i hi hv kh hkh rfl
      exact (sc.adj kh hkh _ _ (hF i hi) hGt hv (hns i hi kh hkh)).mp hD
  · intro h j hj
    have hj' : j < shapeSize F.shape := hj
    rw [dilate_le_iffG dt F wfF sup hs j hj']
    have hGj := hG j (by rw [hshape]; exact hj')
    refine ⟨hGj.1, fun i hi hv kh hkh ht => ?_⟩
    have hiG : i < shapeSize G.shape := by rw [hshape]; exact hi
    have hE := ((le_erode_iff dt G sup hsG hlenG i hiG _).mp (h i hi)).2 kh hkh
    rw [hshape, ht] at hE
    have hn := hns i hi kh hkh
    rw [ht] at hn
    exact (sc.adj kh hkh _ _ (hF i hi) hGj hv hn).mpr hE

omit sc in
theorem noSat_of_hiClearG (F G : Img Int) (hshape : G.shape = F.shape) (hs : ∀ d ∈ F.shape, 0 < d)
    (hlen : ∀ kh ∈ sup, kh.1.length = F.shape.length) (hc : HiClear dt G) :
    ∀ i, i < shapeSize F.shape → ∀ kh ∈ sup,
      NoSat dt (F.data.getD i 0) (G.data.getD (tgt F.shape i kh.1) 0) kh.2 := by
  intro i hi kh hkh
  have ht := tgt_lt F.shape hs i hi kh.1 (hlen kh hkh)
  rcases hc _ (by rw [hshape]; exact ht) with h | h
  · exact Or.inl h
  · exact Or.inr (Or.inl h)

omit sc in
theorem hiClear_of_leG (A B : Img Int) (hshape : A.shape = B.shape) (hle : LeImg A B) (hc : HiClear dt B) :
    HiClear dt A := by
  intro j hj
  rcases hc j (by rw [← hshape]; exact hj) with h | h
  · exact Or.inl h
  · exact Or.inr (Int.lt_of_le_of_lt (hle j hj) h)

theorem open_leG (G : Img Int) (hs : ∀ d ∈ G.shape, 0 < d)
    (hlen : ∀ kh ∈ sup, kh.1.length = G.shape.length) (hG : RangeImg dt G) (hc : HiClear dt G) :
    LeImg (openModel dt G sup) G := by
  have hE := range_erodeG dt sup sc G hs hlen hG
  exact (adjunctionG dt sup sc (erodeImg dt G sup) G (wf_erode dt G sup) rfl hs hlen hE hG
    (noSat_of_hiClearG dt sup (erodeImg dt G sup) G rfl hs hlen hc)).mpr (fun _ _ => Int.le_refl _)

theorem le_closeG (F : Img Int) (wfF : WFImg F) (hs : ∀ d ∈ F.shape, 0 < d)
    (hlen : ∀ kh ∈ sup, kh.1.length = F.shape.length) (hF : RangeImg dt F)
    (hns : ∀ i, i < shapeSize F.shape → ∀ kh ∈ sup,
      NoSat dt (F.data.getD i 0) ((dilateImg dt F sup).data.getD (tgt F.shape i kh.1) 0) kh.2) :
    LeImg F (closeModel dt F sup) :=
  (adjunctionG dt sup sc F (dilateImg dt F sup) wfF rfl hs hlen hF (range_dilateG dt sup sc F wfF hs hF) hns).mp
    (fun _ _ => Int.le_refl _)

theorem open_idemG (G : Img Int) (hs : ∀ d ∈ G.shape, 0 < d)
    (hlen : ∀ kh ∈ sup, kh.1.length = G.shape.length) (hG : RangeImg dt G) (hc : HiClear dt G) :
    ∀ j, j < shapeSize G.shape →
      (openModel dt (openModel dt G sup) sup).data.getD j 0 = (openModel dt G sup).data.getD j 0 := by
  have hE := range_erodeG dt sup sc G hs hlen hG
  have wE := wf_erode dt G sup
  have hO : RangeImg dt (openModel dt G sup) := range_dilateG dt sup sc _ wE hs hE
  have wO : WFImg (openModel dt G sup) := wf_dilate dt _ sup
  have hle := open_leG dt sup sc G hs hlen hG hc
  have hcO : HiClear dt (openModel dt G sup) := hiClear_of_leG dt _ G rfl hle hc
  have h1 := open_leG dt sup sc (openModel dt G sup) hs hlen hO hcO
  have h2 : LeImg (erodeImg dt G sup) (erodeImg dt (openModel dt G sup) sup) :=
    le_closeG dt sup sc (erodeImg dt G sup) wE hs hlen hE
      (noSat_of_hiClearG dt sup (erodeImg dt G sup) (openModel dt G sup) rfl hs hlen hcO)
  have h3 := dilate_monoG dt sup sc (erodeImg dt G sup) (erodeImg dt (openModel dt G sup) sup) wE
    (wf_erode dt _ sup) rfl hs hE (range_erodeG dt sup sc _ hs hlen hO) h2
  intro j hj
  exact Int.le_antisymm (h1 j hj) (h3 j hj)

theorem close_idemG (F : Img Int) (wfF : WFImg F) (hs : ∀ d ∈ F.shape, 0 < d)
    (hlen : ∀ kh ∈ sup, kh.1.length = F.shape.length) (hF : RangeImg dt F)
    (hc : HiClear dt (dilateImg dt F sup)) :
    ∀ j, j < shapeSize F.shape →
      (closeModel dt (closeModel dt F sup) sup).data.getD j 0 = (closeModel dt F sup).data.getD j 0 := by
  have hD := range_dilateG dt sup sc F wfF hs hF
  have hC : RangeImg dt (closeModel dt F sup) := range_erodeG dt sup sc _ hs hlen hD
  have wC : WFImg (closeModel dt F sup) := wf_erode dt _ sup
  have h1 : LeImg (dilateImg dt (closeModel dt F sup) sup) (dilateImg dt F sup) :=
    open_leG dt sup sc (dilateImg dt F sup) hs hlen hD hc
  have h2 := erode_monoG dt sup sc (dilateImg dt (closeModel dt F sup) sup) (dilateImg dt F sup) rfl hs hlen
    (range_dilateG dt sup sc _ wC hs hC) hD h1
  have hcc : HiClear dt (dilateImg dt (closeModel dt F sup) sup) :=
    hiClear_of_leG dt _ (dilateImg dt F sup) rfl h1 hc
  have h3 : LeImg (closeModel dt F sup) (closeModel dt (closeModel dt F sup) sup) :=
    le_closeG dt sup sc (closeModel dt F sup) wC hs hlen hC
      (noSat_of_hiClearG dt sup (closeModel dt F sup) _ rfl hs hlen hcc)
  intro j hj
  exact Int.le_antisymm (h2 j hj) (h3 j hj)

theorem open_monoG (G G' : Img Int) (hshape : G'.shape = G.shape) (hs : ∀ d ∈ G.shape, 0 < d)
    (hlen : ∀ kh ∈ sup, kh.1.length = G.shape.length) (hG : RangeImg dt G) (hG' : RangeImg dt G')
    (hle : LeImg G G') : LeImg (openModel dt G sup) (openModel dt G' sup) :=
  dilate_monoG dt sup sc _ _ (wf_erode dt G sup) (wf_erode dt G' sup) hshape hs
    (range_erodeG dt sup sc G hs hlen hG)
    (range_erodeG dt sup sc G' (by rw [hshape]; exact hs) (by rw [hshape]; exact hlen) hG')
    (erode_monoG dt sup sc G G' hshape hs hlen hG hG' hle)

theorem close_monoG (F F' : Img Int) (wfF : WFImg F) (wfF' : WFImg F') (hshape : F'.shape = F.shape)
    (hs : ∀ d ∈ F.shape, 0 < d)
    (hlen : ∀ kh ∈ sup, kh.1.length = F.shape.length) (hF : RangeImg dt F) (hF' : RangeImg dt F')
    (hle : LeImg F F') : LeImg (closeModel dt F sup) (closeModel dt F' sup) :=
  erode_monoG dt sup sc _ _ hshape hs hlen (range_dilateG dt sup sc F wfF hs hF)
    (range_dilateG dt sup sc F' wfF' (by rw [hshape]; exact hs) hF')
    (dilate_monoG dt sup sc F F' wfF wfF' hshape hs hF hF' hle)

end lawsG

/-! ### conditional operators -/

/-- the centre of an element is a member for every integer dtype as soon as its entry is a height
    `0 ≤ h ≤ hi` other than the marker (for a signed dtype the height 0 qualifies) -/
theorem centreMember_int (dt : DT) (wf : dt.WF) (sup : List (List Int × Int))
    (kh : List Int × Int) (hkh : kh ∈ sup) (hz : C14.isZeroPos kh.1 = true) (h0 : 0 ≤ kh.2)
    (h1 : kh.2 ≤ dt.hi) (hne : kh.2 ≠ dt.lo) : CentreMember dt sup := by
  have hlc := wf.lo_cases
  have hp := wf.hi_pos
  have hr : dt.InRange kh.2 := by unfold DT.InRange; omega
  refine ⟨kh, hkh, hz, fun a ha => ?_, fun a ha hna => ?_⟩
  · rw [erodeSub_spec dt wf a kh.2 ha hr h0]
    unfold DT.InRange DT.clamp at *
    split <;> omega
  · rw [dilateAdd_spec dt wf a kh.2 ha hr h0]
    unfold DT.InRange DT.clamp at *
    split <;> omega

section condG
variable (dt : DT) (sup : List (List Int × Int)) (sc : ScalarsG dt sup) (cm : CentreMember dt sup)
include sc cm

theorem self_le_dilateG (F : Img Int) (wfF : WFImg F) (hs : ∀ d ∈ F.shape, 0 < d)
    (hlen : ∀ kh ∈ sup, kh.1.length = F.shape.length) (hF : RangeImg dt F) :
    LeImg F (dilateImg dt F sup) := by
  obtain ⟨kh, hkh, hz, _, hd⟩ := cm
  intro i hi
  by_cases hv : F.data.getD i 0 = dt.lo
  · rw [hv]
    exact (range_dilateG dt sup sc F wfF hs hF i hi).1
  · have := ((dilate_le_iffG dt F wfF sup hs i hi _).mp (Int.le_refl _)).2 i hi hv kh hkh
      (tgt_zero F.shape i hi kh.1 hz (hlen kh hkh))
    exact Int.le_trans (hd _ (hF i hi) hv) this

omit sc in
/-- `g ≤ cerode(f, g) ≤ max(f, g)` -/
theorem cerode_boundsG (f g : Img Int) (hshape : g.shape = f.shape) (hs : ∀ d ∈ f.shape, 0 < d)
    (hlen : ∀ kh ∈ sup, kh.1.length = f.shape.length) (hf : RangeImg dt f) (hg : RangeImg dt g) :
    ∀ i, i < shapeSize f.shape →
      g.data.getD i 0 ≤ (cerodeModel dt f g sup).data.getD i 0 ∧
      (cerodeModel dt f g sup).data.getD i 0 ≤ max (f.data.getD i 0) (g.data.getD i 0) := by
  intro i hi
  have hm : RangeImg dt (map2 max f g) := by
    intro j hj
    have hj' : j < shapeSize f.shape := hj
    rw [map2_getD max f g j hj']
    have h1 := hf j hj'; have h2 := hg j (by rw [hshape]; exact hj')
    unfold DT.InRange at *; omega
  have hle := erode_le_self dt sup cm (map2 max f g) hs hlen hm i hi
  rw [map2_getD max f g i hi] at hle
  unfold cerodeModel
  rw [map2_getD max (erodeImg dt (map2 max f g) sup) g i hi]
  omega

/-- the loop of `cdilate` keeps its iterate between the starting image and `g` -/
theorem cdilateLoop_boundsG (g : Img Int) (hs : ∀ d ∈ g.shape, 0 < d)
    (hlen : ∀ kh ∈ sup, kh.1.length = g.shape.length) (hg : RangeImg dt g) (n : Nat) (f : Img Int)
    (wff : WFImg f) (hshape : f.shape = g.shape) (hf : RangeImg dt f) (hfg : LeImg f g) :
    (cdilateLoop dt g sup n f).shape = g.shape ∧
    LeImg f (cdilateLoop dt g sup n f) ∧ LeImg (cdilateLoop dt g sup n f) g := by
  induction n generalizing f with
  | zero => exact ⟨hshape, fun _ _ => Int.le_refl _, hfg⟩
  | succ n ih =>
    unfold cdilateLoop
    simp only []
    have hsf : ∀ d ∈ f.shape, 0 < d := by rw [hshape]; exact hs
    have hlenf : ∀ kh ∈ sup, kh.1.length = f.shape.length := by rw [hshape]; exact hlen
    have hD := range_dilateG dt sup sc f wff hsf hf
    have hext := self_le_dilateG dt sup sc cm f wff hsf hlenf hf
    have hget : ∀ j, j < shapeSize f.shape →
        (map2 min (dilateImg dt f sup) g).data.getD j 0 =
          min ((dilateImg dt f sup).data.getD j 0) (g.data.getD j 0) :=
      fun j hj => map2_getD min (dilateImg dt f sup) g j hj
    have hshape' : (map2 min (dilateImg dt f sup) g).shape = g.shape := hshape
    have hf' : RangeImg dt (map2 min (dilateImg dt f sup) g) := by
      intro j hj
      have hj' : j < shapeSize f.shape := hj
      rw [hget j hj']
      have h1 := hD j hj'; have h2 := hg j (by rw [← hshape]; exact hj')
      unfold DT.InRange at *; omega
    have hle' : LeImg f (map2 min (dilateImg dt f sup) g) := by
      intro j hj
      rw [hget j hj]
      have h1 := hext j hj; have h2 := hfg j hj
      omega
    have hfg' : LeImg (map2 min (dilateImg dt f sup) g) g := by
      intro j hj
      have hj' : j < shapeSize f.shape := hj
      rw [hget j hj']
      omega
    split
    · exact ⟨hshape', hle', hfg'⟩
    · obtain ⟨h1, h2, h3⟩ := ih _ (wf_map2 _ _ _) hshape' hf' hfg'
      exact ⟨h1, fun j hj => Int.le_trans (hle' j hj) (h2 j hj), h3⟩

/-- `min(f, g) ≤ cdilate(f, g, Bc, n) ≤ g` for every `n` -/
theorem cdilate_boundsG (f g : Img Int) (hshape : g.shape = f.shape) (hs : ∀ d ∈ f.shape, 0 < d)
    (hlen : ∀ kh ∈ sup, kh.1.length = f.shape.length) (hf : RangeImg dt f) (hg : RangeImg dt g) (n : Nat) :
    ∀ i, i < shapeSize f.shape →
      min (f.data.getD i 0) (g.data.getD i 0) ≤ (cdilateModel dt f g sup n).data.getD i 0 ∧
      (cdilateModel dt f g sup n).data.getD i 0 ≤ g.data.getD i 0 := by
  have hm : RangeImg dt (map2 min f g) := by
    intro j hj
    have hj' : j < shapeSize f.shape := hj
    rw [map2_getD min f g j hj']
    have h1 := hf j hj'; have h2 := hg j (by rw [hshape]; exact hj')
    unfold DT.InRange at *; omega
  have hmg : LeImg (map2 min f g) g := by
    intro j hj
    have hj' : j < shapeSize f.shape := hj
    rw [map2_getD min f g j hj']; omega
  obtain ⟨h1, h2, h3⟩ := cdilateLoop_boundsG dt sup sc cm g (by rw [hshape]; exact hs)
    (by rw [hshape]; exact hlen) hg n (map2 min f g) (wf_map2 _ _ _) hshape.symm hm hmg
  intro i hi
  have := h2 i hi
  rw [map2_getD min f g i hi] at this
  exact ⟨this, h3 i (by rw [h1, hshape]; exact hi)⟩

end condG

/-! ### top-hats on a signed dtype: the clamped difference, exact when it fits -/

theorem tophatOpen_int (dt : DT) (wf : dt.WF) (f : Img Int) (sup : List (List Int × Int))
    (hf : RangeImg dt f) (hO : RangeImg dt (openModel dt f sup)) (hle : LeImg (openModel dt f sup) f) :
    ∀ i, i < shapeSize f.shape →
      (tophatOpenModel dt f sup).data.getD i 0 =
        min (f.data.getD i 0 - (openModel dt f sup).data.getD i 0) dt.hi := by
  intro i hi
  unfold tophatOpenModel submModel
  rw [map2_getD _ f _ i hi, submElem_spec dt wf _ _ (hf i hi) (hO i hi)]
  have := hle i hi
  have := wf.lo_cases; have := wf.hi_pos
  unfold DT.clamp; omega

theorem tophatClose_int (dt : DT) (wf : dt.WF) (f : Img Int) (sup : List (List Int × Int))
    (hf : RangeImg dt f) (hC : RangeImg dt (closeModel dt f sup)) (hle : LeImg f (closeModel dt f sup)) :
    ∀ i, i < shapeSize f.shape →
      (tophatCloseModel dt f sup).data.getD i 0 =
        min ((closeModel dt f sup).data.getD i 0 - f.data.getD i 0) dt.hi := by
  intro i hi
  unfold tophatCloseModel submModel
  rw [map2_getD _ (closeModel dt f sup) f i hi, submElem_spec dt wf _ _ (hC i hi) (hf i hi)]
  have := hle i hi
  have := wf.lo_cases; have := wf.hi_pos
  unfold DT.clamp; omega

/-- an image whose values stay `h` below the maximum for every height `h` of the element dilates
    without reaching the maximum — every integer dtype -/
theorem hiClear_dilate_int (dt : DT) (wf : dt.WF) (sup : List (List Int × Int))
    (hsup : ∀ kh ∈ sup, AdmissibleEntry dt kh.2) (F : Img Int) (wfF : WFImg F)
    (hs : ∀ d ∈ F.shape, 0 < d) (hF : RangeImg dt F)
    (hcl : ∀ i, i < shapeSize F.shape → ∀ kh ∈ sup, kh.2 ≠ dt.lo → F.data.getD i 0 + kh.2 < dt.hi) :
    HiClear dt (dilateImg dt F sup) := by
  intro j hj
  have hj' : j < shapeSize F.shape := hj
  refine Or.inr ?_
  have hlc := wf.lo_cases
  have hp := wf.hi_pos
  have : (dilateImg dt F sup).data.getD j 0 ≤ dt.hi - 1 := by
    rw [dilate_le_iffG dt F wfF sup hs j hj']
    refine ⟨by omega, fun i hi _ kh hkh _ => ?_⟩
    by_cases hm : kh.2 = dt.lo
    · rw [hm, dilateAdd_marker dt wf.notBool]; omega
    · have h01 : 0 ≤ kh.2 ∧ kh.2 ≤ dt.hi := by
        rcases hsup kh hkh with h | h
        · exact absurd h hm
        · exact h
      have hr : dt.InRange kh.2 := by unfold DT.InRange; omega
      rw [dilateAdd_spec dt wf _ kh.2 (hF i hi) hr h01.1]
      have := hcl i hi kh hkh hm
      have := hF i hi
      unfold DT.InRange DT.clamp at *
      split <;> omega
  omega

end Mahotas.C02
