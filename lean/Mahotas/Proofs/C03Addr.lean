/-
C03 (round 4) — the address-level model (`flatDelta`, `retrieveAddr`, `scanPixelAddr`, `labelAddr`) equals the
coordinate model (`neighbours .constant`, `scanPixel`, `labelModel .constant`).
-/
import Mahotas.Proofs.C03Label
import Mahotas.Proofs.C04Index

namespace Mahotas.C03
open Mahotas

theorem flatDelta_eq_posToFlat (s : List Nat) (k : List Int) : flatDelta s k = C04.posToFlat s k := by
  induction s generalizing k with
  | nil => cases k <;> rfl
  | cons d ds ih =>
    cases k with
    | nil => rfl
    | cons a as => simp only [flatDelta, C04.posToFlat, ih]

/-- the address read for footprint entry `k` at pixel `i` is the flat index of the neighbour's coordinates -/
theorem retrieveAddr_eq (shape : List Nat) (i : Nat) (hi : i < shapeSize shape) (k : List Int)
    (hk : k.length = shape.length) :
    retrieveAddr shape i k = (fixPos .constant shape (addPos (unravelI shape i) k)).map (ravelI shape) := by
  have hl : (addPos (unravelI shape i) k).length = shape.length := by
    rw [addPos_length _ _ (by rw [unravelI_length, hk]), unravelI_length]
  have hin := (C04.unravelI_inside shape i hi)
  unfold retrieveAddr
  by_cases h : inside shape (addPos (unravelI shape i) k) = true
  · rw [if_pos h, ((fixPos_constant_inside shape _ hl _).2 ⟨h, rfl⟩), Option.map_some]
    congr 1
    have e := C04.ravelI_addPos shape (unravelI shape i) k hin.1 h
    rw [hin.2, ← flatDelta_eq_posToFlat] at e
    rw [← e, Int.toNat_natCast]
  · rw [if_neg h]
    cases hq : fixPos .constant shape (addPos (unravelI shape i) k) with
    | none => rfl
    | some q => exact absurd ((fixPos_constant_inside shape _ hl q).1 hq).1 h

theorem foldl_filterMap_match {α β γ : Type} (g : α → Option β) (f : γ → β → γ) (l : List α) (a : γ) :
    (l.filterMap g).foldl f a = l.foldl (fun a x => match g x with | none => a | some y => f a y) a := by
  induction l generalizing a with
  | nil => rfl
  | cons x xs ih =>
    simp only [List.filterMap_cons, List.foldl_cons]
    cases hx : g x with
    | none => simp only [ih]
    | some y => simp only [List.foldl_cons, ih]

theorem foldl_congr_mem {α γ : Type} (f g : γ → α → γ) (l : List α) (a : γ)
    (h : ∀ a, ∀ x ∈ l, f a x = g a x) : l.foldl f a = l.foldl g a := by
  induction l generalizing a with
  | nil => rfl
  | cons x xs ih =>
    simp only [List.foldl_cons]
    rw [h a x (by simp), ih _ (fun a y hy => h a y (by simp [hy]))]

theorem scanPixelAddr_eq (shape : List Nat) (offs : List (List Int)) (hk : ∀ k ∈ offs, k.length = shape.length)
    (fuel : Nat) (par : Array Int) (i : Nat) (hi : i < shapeSize shape) :
    scanPixelAddr shape offs fuel par i = scanPixel .constant shape offs fuel par i := by
  unfold scanPixelAddr scanPixel neighbours
  split
  · rfl
  · rw [foldl_filterMap_match]
    apply foldl_congr_mem
    intro a k hko
    rw [retrieveAddr_eq shape i hi k (hk k hko)]
    cases Option.map (ravelI shape) (fixPos Mode.constant shape (addPos (unravelI shape i) k)) <;> rfl

theorem parentsAddr_eq (shape : List Nat) (data : List Int) (offs : List (List Int))
    (hk : ∀ k ∈ offs, k.length = shape.length) (hsz : data.length = shapeSize shape) :
    parentsAddr shape data offs = parents .constant shape data offs := by
  unfold parentsAddr parents
  simp only []
  congr 1
  apply foldl_congr_mem
  intro a i hi
  exact scanPixelAddr_eq shape offs hk _ a i (by rw [← hsz]; exact List.mem_range.1 hi)

theorem labelAddr_eq (shape : List Nat) (data : List Int) (bshape : List Nat) (bc : Array Int)
    (hb : bshape.length = shape.length) (hsz : data.length = shapeSize shape) :
    labelAddr shape data bshape bc = labelModel .constant shape data bshape bc := by
  unfold labelAddr labelModel
  rw [parentsAddr_eq shape data _ (fun k hk => by rw [offsets_length bshape bc k hk, hb]) hsz]

/-- every address the scan reads is inside the buffer -/
theorem addrReads_lt (shape : List Nat) (n : Nat) (hn : n ≤ shapeSize shape) (offs : List (List Int))
    (hk : ∀ k ∈ offs, k.length = shape.length) : ∀ a ∈ addrReads shape n offs, a < shapeSize shape := by
  intro a ha
  unfold addrReads at ha
  simp only [List.mem_flatMap, List.mem_range, List.mem_filterMap] at ha
  obtain ⟨i, hi, k, hko, hr⟩ := ha
  have hi' : i < shapeSize shape := by omega
  rw [retrieveAddr_eq shape i hi' k (hk k hko)] at hr
  simp only [Option.map_eq_some_iff] at hr
  obtain ⟨q, hq, rfl⟩ := hr
  have hl : (addPos (unravelI shape i) k).length = shape.length := by
    rw [addPos_length _ _ (by rw [unravelI_length, hk k hko]), unravelI_length]
  obtain ⟨h1, rfl⟩ := (fixPos_constant_inside shape _ hl q).1 hq
  exact C04.ravelI_lt shape _ h1

end Mahotas.C03
