/-
C03 — the neighbour list of the scan (`neighbours`, `offsets`) is what the `filter_iterator` mechanism
(F6: `init_filter_offsets` + `init_filter_iterator` + `iterate_both` + `retrieve`, `Model/FilterIter.lean`)
delivers at every pixel.
-/
import Mahotas.Proofs.C03Label
import Mahotas.Proofs.FilterIter
namespace Mahotas.C03
open Mahotas FilterIter

/-- the (compressed) footprint the `filter_iterator` constructor derives from the element: non-zero entries -/
def fpOf (bc : Array Int) : Array Bool := bc.map fun v => v != 0

theorem fpOf_getD (bc : Array Int) (k : Nat) : (fpOf bc).getD k false = (bc.getD k 0 != 0) := by
  unfold fpOf
  simp only [Array.getD_eq_getD_getElem?, Array.getElem?_map]
  cases bc[k]? <;> simp

theorem offsets_eq_footprint_aux (bshape : List Nat) (bc : Array Int) (l : List Nat) :
    (l.filterMap fun i => if bc.getD i 0 == 0 then none else some (subPos (unravelI bshape i) (centreOf bshape))) =
      ((l.filter fun kk => (fpOf bc).getD kk false).map (unravelI bshape)).map
        (fun k => subPos k (centreOf bshape)) := by
  have hp : (fun kk => (fpOf bc).getD kk false) = fun kk => bc.getD kk 0 != 0 := funext (fpOf_getD bc)
  rw [hp]
  induction l with
  | nil => rfl
  | cons a l ih =>
    rw [List.filterMap_cons, List.filter_cons]
    by_cases h : bc.getD a 0 = 0
    · have h1 : (bc.getD a 0 == 0) = true := by rw [h]; rfl
      have h2 : (bc.getD a 0 != 0) = false := by rw [h]; rfl
      rw [if_pos h1, h2]
      exact ih
    · have h1 : ¬ ((bc.getD a 0 == 0) = true) := by simpa using h
      have h2 : (bc.getD a 0 != 0) = true := by simpa using h
      rw [if_neg h1, h2]
      simp only [if_true, List.map_cons]
      rw [ih]

/-- the offsets of `label` are the footprint coordinates of the filter iterator minus the centre -/
theorem offsets_eq_footprint (bshape : List Nat) (bc : Array Int) :
    offsets bshape bc = (footprintCoords bshape (fpOf bc)).map (fun k => subPos k (centreOf bshape)) := by
  unfold offsets footprintCoords
  exact offsets_eq_footprint_aux bshape bc _

/-- what the scan does with the `j`-th retrieved table entry: flagged / past-the-end entries are skipped,
    otherwise the flat index of `position + offset` is read -/
def retrievedIndex (shape : List Nat) (p : List Int) (e : Option Entry) : Option Nat :=
  match e with
  | some (some off) => some (ravelI shape (addPos p off))
  | _ => none

/-- **F6 for `label`.** At the `i`-th pixel of the scan, the `j`-th entry the filter-iterator mechanism
    retrieves names exactly the pixel the model's `neighbours` computes from its `j`-th offset. -/
theorem retrieve_eq_neighbour (m : Mode) (shape bshape : List Nat) (bc : Array Int)
    (hlen : shape.length = bshape.length) (ha : ∀ a ∈ shape, 1 ≤ a) (hf : ∀ f ∈ bshape, 1 ≤ f)
    (i : Nat) (hi : i < shapeSize shape) (j : Nat) (hj : j < (offsets bshape bc).length) :
    retrievedIndex shape (unravelI shape i)
        (retrieve (mkFIter m shape bshape (fpOf bc)) (stateAfter (mkFIter m shape bshape (fpOf bc)) shape i) j) =
      (fixPos m shape (addPos (unravelI shape i) ((offsets bshape bc)[j]))).map (ravelI shape) := by
  have hj' : j < (footprintCoords bshape (fpOf bc)).length := by
    rw [offsets_eq_footprint] at hj; simpa using hj
  rw [filterIter_refines m shape bshape (fpOf bc) hlen ha hf i hi j hj']
  have ho : (offsets bshape bc)[j] = subPos ((footprintCoords bshape (fpOf bc))[j]) (centreOf bshape) := by
    simp only [offsets_eq_footprint, List.getElem_map]
  rw [ho]
  unfold closedForm retrievedIndex
  have hkl : ((footprintCoords bshape (fpOf bc))[j]).length = bshape.length := by
    have hall : ∀ k ∈ footprintCoords bshape (fpOf bc), k.length = bshape.length := by
      intro k hk
      unfold footprintCoords at hk
      obtain ⟨k', _, hk'⟩ := List.mem_map.mp hk
      rw [← hk', unravelI_length]
    exact hall _ (List.getElem_mem hj')
  cases hq : fixPos m shape (addPos (unravelI shape i)
      (subPos ((footprintCoords bshape (fpOf bc))[j]) (centreOf bshape))) with
  | none => rfl
  | some q =>
    simp only [Option.map_some]
    have h1 : (subPos ((footprintCoords bshape (fpOf bc))[j]) (centreOf bshape)).length =
        (unravelI shape i).length := by
      rw [C03.subPos_length _ _ (by simp [centreOf, hkl]), hkl, unravelI_length, hlen]
    have h2 := FilterIter.fixPos_length m shape _ q
      (by rw [C03.addPos_length _ _ h1.symm, unravelI_length]) hq
    rw [FilterIter.addPos_subPos _ q (by rw [h2, unravelI_length])]

theorem filterMap_eq_range' {α β : Type} (f : α → Option β) : ∀ (L : List α) (g : Nat → Option β) (s : Nat),
    (∀ j (h : j < L.length), g (s + j) = f L[j]) → L.filterMap f = (List.range' s L.length).filterMap g := by
  intro L
  induction L with
  | nil => intro g s _; rfl
  | cons a L ih =>
    intro g s hg
    rw [List.length_cons, List.range'_succ, List.filterMap_cons, List.filterMap_cons]
    have h0 := hg 0 (by simp)
    simp only [Nat.add_zero, List.getElem_cons_zero] at h0
    rw [h0]
    have ih' := ih g (s + 1) (by
      intro j h
      have := hg (j + 1) (by simp; omega)
      simp only [List.getElem_cons_succ] at this
      rw [← this]; congr 1; omega)
    rw [ih']

/-- the whole neighbour list, entry by entry through the mechanism -/
theorem neighbours_eq_retrieved (m : Mode) (shape bshape : List Nat) (bc : Array Int)
    (hlen : shape.length = bshape.length) (ha : ∀ a ∈ shape, 1 ≤ a) (hf : ∀ f ∈ bshape, 1 ≤ f)
    (i : Nat) (hi : i < shapeSize shape) :
    neighbours m shape (offsets bshape bc) (unravelI shape i) =
      (List.range (offsets bshape bc).length).filterMap fun j =>
        retrievedIndex shape (unravelI shape i)
          (retrieve (mkFIter m shape bshape (fpOf bc)) (stateAfter (mkFIter m shape bshape (fpOf bc)) shape i) j) := by
  unfold neighbours
  rw [List.range_eq_range']
  apply filterMap_eq_range'
  intro j hj
  rw [Nat.zero_add]
  exact retrieve_eq_neighbour m shape bshape bc hlen ha hf i hi j hj

end Mahotas.C03
