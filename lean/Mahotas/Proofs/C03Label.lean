/-
C03 — the loops of `label` (scan, final compression) and the end-to-end statements about `labelModel`.
-/
import Mahotas.Proofs.C03Scan
namespace Mahotas.C03
open Relation

theorem initParents_size (data : List Int) : (initParents data).size = data.length := by
  simp [initParents]

theorem initParents_getD (data : List Int) (i : Nat) :
    (initParents data).getD i (-1) = if i < data.length ∧ data.getD i 0 ≠ 0 then (i : Int) else -1 := by
  unfold initParents
  simp only [Array.getD_eq_getD_getElem?, List.getElem?_toArray, List.getElem?_map]
  by_cases h : i < data.length
  · simp [h]
  · simp [h]

/-- the buffer after binarisation: every foreground cell is its own class, no edge processed -/
theorem init_inv (data : List Int) : Inv data (initParents data) (fun _ _ => False) := by
  have hroot : ∀ i, Fg data i → RootN (initParents data) i i 0 := by
    intro i hi
    refine RootN.base (by rw [initParents_size]; exact hi.1) ?_
    rw [initParents_getD, if_pos ⟨hi.1, hi.2⟩]
  refine ⟨initParents_size data, ?_, ?_, ?_, ?_⟩
  · intro i hi
    rw [initParents_getD]
    have : ¬ (i < data.length ∧ data.getD i 0 ≠ 0) := hi
    simp only [this, if_false]
  · intro i hi; exact ⟨i, 0, hroot i hi⟩
  · intro x y h; exact absurd h id
  · intro x y
    constructor
    · intro h
      induction h with
      | rel a b hab => exact absurd hab id
      | refl a => exact Or.inl rfl
      | symm a b _ ih =>
        rcases ih with e | ⟨fa, fb, r, da, db, ha, hb⟩
        · exact Or.inl e.symm
        · exact Or.inr ⟨fb, fa, r, db, da, hb, ha⟩
      | trans a b c _ _ ih1 ih2 =>
        rcases ih1 with e | ⟨fa, fb, r, da, db, ha, hb⟩
        · subst e; exact ih2
        · rcases ih2 with e | ⟨_, fc, r', db', dc, hb', hc⟩
          · subst e; exact Or.inr ⟨fa, fb, r, da, db, ha, hb⟩
          · have := (hb.det hb').1
            subst this
            exact Or.inr ⟨fa, fc, r, da, dc, ha, hc⟩
    · rintro (e | ⟨fx, fy, r, dx, dy, hx, hy⟩)
      · subst e; exact EqvGen.refl _
      · have e1 := (hx.det (hroot x fx)).1
        have e2 := (hy.det (hroot y fy)).1
        rw [← e1, ← e2]
        exact EqvGen.refl _

/-- under the invariant a cell holds `-1` exactly when it is background -/
theorem Inv.fg_value {data : List Int} {par : Array Int} {E : Nat → Nat → Prop} (h : Inv data par E)
    {x : Nat} (hx : Fg data x) : ∃ p : Nat, par.getD x (-1) = (p : Int) := by
  obtain ⟨r, d, hr⟩ := h.fg x hx
  cases hr with
  | base _ hb => exact ⟨_, hb⟩
  | step _ hp _ _ => exact ⟨_, hp⟩

theorem Inv.neg_one_iff {data : List Int} {par : Array Int} {E : Nat → Nat → Prop} (h : Inv data par E)
    (x : Nat) : par.getD x (-1) = -1 ↔ ¬ Fg data x := by
  constructor
  · intro hv hx
    obtain ⟨p, hp⟩ := h.fg_value hx
    rw [hp] at hv; omega
  · exact h.bg x

/-- the inner loop over the neighbours of a foreground pixel `i` -/
theorem inner_inv (data : List Int) (i : Nat) (hfi : Fg data i) : ∀ (nbs : List Nat) (par : Array Int)
    (E : Nat → Nat → Prop), Inv data par E →
    Inv data (nbs.foldl (fun par nb =>
        let v := par.getD nb (-1)
        if v = -1 then par else join (data.length + 1) par i v.toNat) par)
      (fun x y => E x y ∨ (x = i ∧ y ∈ nbs ∧ Fg data y)) := by
  intro nbs
  induction nbs with
  | nil =>
    intro par E h
    exact h.congr (by intro x y; simp)
  | cons nb nbs ih =>
    intro par E h
    simp only [List.foldl_cons]
    by_cases hv : par.getD nb (-1) = -1
    · simp only [hv, if_true]
      have hnb : ¬ Fg data nb := (h.neg_one_iff nb).mp hv
      refine (ih par E h).congr ?_
      intro x y
      constructor
      · rintro (hE | ⟨e, hy, fy⟩)
        · exact Or.inl hE
        · exact Or.inr ⟨e, List.mem_cons_of_mem _ hy, fy⟩
      · rintro (hE | ⟨e, hy, fy⟩)
        · exact Or.inl hE
        · rcases List.mem_cons.mp hy with e2 | hy
          · subst e2; exact absurd fy hnb
          · exact Or.inr ⟨e, hy, fy⟩
    · simp only [hv, if_false]
      have hnb : Fg data nb := by
        by_contra hc
        exact hv (h.bg nb hc)
      obtain ⟨p, hp⟩ := h.fg_value hnb
      have hj := join_inv h hfi hnb hp
      rw [hp, Int.toNat_natCast]
      refine (ih _ _ hj).congr ?_
      intro x y
      constructor
      · rintro ((hE | ⟨e1, e2⟩) | ⟨e, hy, fy⟩)
        · exact Or.inl hE
        · exact Or.inr ⟨e1, by rw [e2]; exact List.mem_cons_self, by rw [e2]; exact hnb⟩
        · exact Or.inr ⟨e, List.mem_cons_of_mem _ hy, fy⟩
      · rintro (hE | ⟨e, hy, fy⟩)
        · exact Or.inl (Or.inl hE)
        · rcases List.mem_cons.mp hy with e2 | hy
          · exact Or.inl (Or.inr ⟨e, e2⟩)
          · exact Or.inr ⟨e, hy, fy⟩

/-- the scan loop over a list of pixels -/
theorem scan_inv (m : Mode) (shape : List Nat) (offs : List (List Int)) (data : List Int) :
    ∀ (l : List Nat) (par : Array Int) (E : Nat → Nat → Prop), Inv data par E →
    Inv data (l.foldl (scanPixel m shape offs (data.length + 1)) par)
      (fun x y => E x y ∨ (x ∈ l ∧ Fg data x ∧ y ∈ neighbours m shape offs (unravelI shape x) ∧ Fg data y)) := by
  intro l
  induction l with
  | nil => intro par E h; exact h.congr (by intro x y; simp)
  | cons i l ih =>
    intro par E h
    simp only [List.foldl_cons]
    by_cases hv : par.getD i (-1) = -1
    · have hni : ¬ Fg data i := (h.neg_one_iff i).mp hv
      have hs : scanPixel m shape offs (data.length + 1) par i = par := by
        unfold scanPixel
        rw [if_pos hv]
      rw [hs]
      refine (ih par E h).congr ?_
      intro x y
      constructor
      · rintro (hE | ⟨hx, r⟩)
        · exact Or.inl hE
        · exact Or.inr ⟨List.mem_cons_of_mem _ hx, r⟩
      · rintro (hE | ⟨hx, fx, r⟩)
        · exact Or.inl hE
        · rcases List.mem_cons.mp hx with e | hx
          · subst e; exact absurd fx hni
          · exact Or.inr ⟨hx, fx, r⟩
    · have hfi : Fg data i := by
        by_contra hc
        exact hv (h.bg i hc)
      have hs : scanPixel m shape offs (data.length + 1) par i =
          (neighbours m shape offs (unravelI shape i)).foldl (fun par nb =>
            let v := par.getD nb (-1)
            if v = -1 then par else join (data.length + 1) par i v.toNat) par := by
        unfold scanPixel
        rw [if_neg hv]
      rw [hs]
      have hin := inner_inv data i hfi (neighbours m shape offs (unravelI shape i)) par E h
      refine (ih _ _ hin).congr ?_
      intro x y
      constructor
      · rintro ((hE | ⟨e, hy, fy⟩) | ⟨hx, r⟩)
        · exact Or.inl hE
        · subst e; exact Or.inr ⟨List.mem_cons_self, hfi, hy, fy⟩
        · exact Or.inr ⟨List.mem_cons_of_mem _ hx, r⟩
      · rintro (hE | ⟨hx, fx, hy, fy⟩)
        · exact Or.inl (Or.inl hE)
        · rcases List.mem_cons.mp hx with e | hx
          · subst e; exact Or.inl (Or.inr ⟨rfl, hy, fy⟩)
          · exact Or.inr ⟨hx, fx, hy, fy⟩

/-- cell `x` points directly at its root -/
def FlatAt (par : Array Int) (x : Nat) : Prop := ∃ r d, RootN par x r d ∧ par.getD x (-1) = (r : Int)

/-- the final compression loop keeps the invariant and flattens every foreground cell it visits -/
theorem compress_inv (data : List Int) (E : Nat → Nat → Prop) : ∀ (l : List Nat) (par : Array Int)
    (S : Nat → Prop), Inv data par E → (∀ x, S x → Fg data x → FlatAt par x) →
    Inv data (l.foldl (fun par i => if par.getD i (-1) = -1 then par else compress (data.length + 1) par i) par) E ∧
    ∀ x, (S x ∨ x ∈ l) → Fg data x →
      FlatAt (l.foldl (fun par i => if par.getD i (-1) = -1 then par else compress (data.length + 1) par i) par) x := by
  intro l
  induction l with
  | nil =>
    intro par S h hS
    refine ⟨h, ?_⟩
    rintro x (hx | hx) fx
    · exact hS x hx fx
    · simp at hx
  | cons i l ih =>
    intro par S h hS
    simp only [List.foldl_cons]
    by_cases hv : par.getD i (-1) = -1
    · simp only [hv, if_true]
      have hni : ¬ Fg data i := (h.neg_one_iff i).mp hv
      obtain ⟨a, b⟩ := ih par S h hS
      refine ⟨a, ?_⟩
      rintro x (hx | hx) fx
      · exact b x (Or.inl hx) fx
      · rcases List.mem_cons.mp hx with e | hx
        · subst e; exact absurd fx hni
        · exact b x (Or.inr hx) fx
    · simp only [hv, if_false]
      have hfi : Fg data i := by
        by_contra hc
        exact hv (h.bg i hc)
      obtain ⟨r, d, hr⟩ := h.fg i hfi
      have hd : d ≤ data.length + 1 := by have := hr.depth_lt; rw [h.size] at this; omega
      have hinv := find_inv h hr
      obtain ⟨_, _, h3⟩ := find_spec _ par i r d hr hd
      have hS' : ∀ x, (S x ∨ x = i) → Fg data x → FlatAt (compress (data.length + 1) par i) x := by
        rintro x (hx | hx) fx
        · obtain ⟨rx, dx, hxr, hxv⟩ := hS x hx fx
          obtain ⟨dx', _, hx'⟩ := h3 x rx dx hxr
          exact ⟨rx, dx', hx', find_flat _ par i r d hr hd x rx dx hxr hxv⟩
        · subst hx
          obtain ⟨dx', _, hx'⟩ := h3 x r d hr
          exact ⟨r, dx', hx', find_self_flat _ par x r d hr hd⟩
      obtain ⟨a, b⟩ := ih (compress (data.length + 1) par i) (fun x => S x ∨ x = i) hinv hS'
      refine ⟨a, ?_⟩
      rintro x (hx | hx) fx
      · exact b x (Or.inl (Or.inl hx)) fx
      · rcases List.mem_cons.mp hx with e | hx
        · exact b x (Or.inl (Or.inr e)) fx
        · exact b x (Or.inr hx) fx

/-- the adjacency the scan processes: `y` is retrieved as a neighbour of the foreground pixel `x` -/
def Edge (m : Mode) (shape : List Nat) (offs : List (List Int)) (data : List Int) (x y : Nat) : Prop :=
  Fg data x ∧ Fg data y ∧ y ∈ neighbours m shape offs (unravelI shape x)

/-- **state of the buffer before renumbering.** -/
theorem parents_spec (m : Mode) (shape : List Nat) (data : List Int) (offs : List (List Int)) :
    Inv data (parents m shape data offs) (Edge m shape offs data) ∧
    ∀ x, Fg data x → FlatAt (parents m shape data offs) x := by
  have h0 := scan_inv m shape offs data (List.range data.length) _ _ (init_inv data)
  have h1 : Inv data ((List.range data.length).foldl (scanPixel m shape offs (data.length + 1)) (initParents data))
      (Edge m shape offs data) := by
    refine h0.congr ?_
    intro x y
    constructor
    · rintro (hF | ⟨_, fx, hy, fy⟩)
      · exact absurd hF id
      · exact ⟨fx, fy, hy⟩
    · rintro ⟨fx, fy, hy⟩
      exact Or.inr ⟨List.mem_range.mpr fx.1, fx, hy, fy⟩
  obtain ⟨a, b⟩ := compress_inv data _ (List.range data.length) _ (fun _ => False) h1 (by intro x hx; exact absurd hx id)
  refine ⟨a, ?_⟩
  intro x fx
  exact b x (Or.inr (List.mem_range.mpr fx.1)) fx

/-- in constant mode a position is retrieved exactly when it lies inside the image -/
theorem fixPos_constant_inside : ∀ (shape : List Nat) (p : List Int), p.length = shape.length →
    ∀ q, fixPos .constant shape p = some q ↔ (inside shape p = true ∧ q = p) := by
  intro shape
  induction shape with
  | nil =>
    intro p hp q
    cases p with
    | nil => simp [fixPos, inside]
    | cons a b => simp at hp
  | cons d ds ih =>
    intro p hp q
    cases p with
    | nil => simp at hp
    | cons a ps =>
      have hl : ps.length = ds.length := by simpa using hp
      simp only [fixPos, inside, fixOffset]
      by_cases h1 : a < 0 ∨ a ≥ (d : Int)
      · simp [h1]
        intro h2 h3
        omega
      · simp only [h1, if_false]
        cases hf : fixPos .constant ds ps with
        | none =>
          have := ih ps hl
          simp
          intro _ _ h4
          have := (this ps).mpr ⟨h4, rfl⟩
          rw [hf] at this; cases this
        | some qs =>
          have := (ih ps hl qs).mp hf
          obtain ⟨h4, h5⟩ := this
          subst h5
          simp [h4]
          constructor
          · intro e; subst e
            refine ⟨⟨by omega, by omega⟩, rfl⟩
          · rintro ⟨_, e⟩; exact e.symm

theorem unravel_length : ∀ (s : List Nat) (i : Nat), (unravel s i).length = s.length := by
  intro s
  induction s with
  | nil => intro i; simp [unravel]
  | cons d ds ih => intro i; simp [unravel, ih]

theorem unravelI_length (s : List Nat) (i : Nat) : (unravelI s i).length = s.length := by
  simp [unravelI, unravel_length]

theorem addPos_length : ∀ (a b : List Int), a.length = b.length → (addPos a b).length = a.length := by
  intro a
  induction a with
  | nil => intro b _; cases b <;> simp [addPos]
  | cons x xs ih =>
    intro b hb
    cases b with
    | nil => simp at hb
    | cons y ys => simp [addPos, ih ys (by simpa using hb)]

theorem subPos_length : ∀ (a b : List Int), a.length = b.length → (subPos a b).length = a.length := by
  intro a
  induction a with
  | nil => intro b _; cases b <;> simp [subPos]
  | cons x xs ih =>
    intro b hb
    cases b with
    | nil => simp at hb
    | cons y ys => simp [subPos, ih ys (by simpa using hb)]

theorem offsets_length (bshape : List Nat) (bc : Array Int) : ∀ k ∈ offsets bshape bc, k.length = bshape.length := by
  intro k hk
  unfold offsets at hk
  simp only [List.mem_filterMap] at hk
  obtain ⟨i, _, hi⟩ := hk
  simp at hi
  obtain ⟨_, hi⟩ := hi
  subst hi
  rw [subPos_length _ _ (by simp [unravelI_length, centreOf]), unravelI_length]

theorem mem_neighbours_constant (shape : List Nat) (offs : List (List Int)) (x y : Nat)
    (hk : ∀ k ∈ offs, k.length = shape.length) :
    y ∈ neighbours .constant shape offs (unravelI shape x) ↔
      ∃ k ∈ offs, inside shape (addPos (unravelI shape x) k) = true ∧ y = ravelI shape (addPos (unravelI shape x) k) := by
  unfold neighbours
  simp only [List.mem_filterMap, Option.map_eq_some_iff]
  constructor
  · rintro ⟨k, hko, q, hq, rfl⟩
    have hl : (addPos (unravelI shape x) k).length = shape.length := by
      rw [addPos_length _ _ (by rw [unravelI_length, hk k hko]), unravelI_length]
    obtain ⟨h1, h2⟩ := (fixPos_constant_inside shape _ hl q).mp hq
    exact ⟨k, hko, h1, by rw [h2]⟩
  · rintro ⟨k, hko, h1, rfl⟩
    have hl : (addPos (unravelI shape x) k).length = shape.length := by
      rw [addPos_length _ _ (by rw [unravelI_length, hk k hko]), unravelI_length]
    exact ⟨k, hko, _, (fixPos_constant_inside shape _ hl _).mpr ⟨h1, rfl⟩, rfl⟩

theorem getD_map_toList (P : Array Int) (f : Int → Int) (i : Nat) (h : i < P.size) :
    (P.toList.map f).getD i 0 = f (P.getD i (-1)) := by
  simp [List.getD_eq_getElem?_getD, Array.getD_eq_getD_getElem?, h]

theorem getD_mem_toList (P : Array Int) (i : Nat) (h : i < P.size) : P.getD i (-1) ∈ P.toList := by
  simp [Array.getD_eq_getD_getElem?, h]

/-- how the output of `labelModel` reads off the compressed buffer -/
theorem label_output (m : Mode) (shape : List Nat) (data : List Int) (bshape : List Nat) (bc : Array Int) :
    ∃ f : Int → Int, f (-1) = 0 ∧
      (∀ i, i < data.length → (labelModel m shape data bshape bc).1.getD i 0 =
          f ((parents m shape data (offsets bshape bc)).getD i (-1))) ∧
      (∀ i, Fg data i → 1 ≤ (labelModel m shape data bshape bc).1.getD i 0) ∧
      (∀ i j ri rj : Nat, Fg data i → Fg data j →
          (parents m shape data (offsets bshape bc)).getD i (-1) = (ri : Int) →
          (parents m shape data (offsets bshape bc)).getD j (-1) = (rj : Int) →
          (labelModel m shape data bshape bc).1.getD i 0 = (labelModel m shape data bshape bc).1.getD j 0 → ri = rj) := by
  obtain ⟨hinv, hflat⟩ := parents_spec m shape data (offsets bshape bc)
  obtain ⟨f, hf, hbg, hpos, hinj⟩ := renumber_map (-1) (parents m shape data (offsets bshape bc)).toList
  have hsz := hinv.size
  have hget : ∀ i, i < data.length → (labelModel m shape data bshape bc).1.getD i 0 =
      f ((parents m shape data (offsets bshape bc)).getD i (-1)) := by
    intro i hi
    unfold labelModel
    rw [hf]
    exact getD_map_toList _ f i (by rw [hsz]; exact hi)
  refine ⟨f, hbg, hget, ?_, ?_⟩
  · intro i fi
    rw [hget i fi.1]
    obtain ⟨p, hp⟩ := hinv.fg_value fi
    refine hpos _ (getD_mem_toList _ i (by rw [hsz]; exact fi.1)) ?_
    rw [hp]; omega
  · intro i j ri rj fi fj hi hj hl
    rw [hget i fi.1, hget j fj.1] at hl
    have mi := getD_mem_toList (parents m shape data (offsets bshape bc)) i (by rw [hsz]; exact fi.1)
    have mj := getD_mem_toList (parents m shape data (offsets bshape bc)) j (by rw [hsz]; exact fj.1)
    have := hinj _ _ (Or.inl mi) (Or.inl mj) hl
    rw [hi, hj] at this
    exact Int.ofNat.inj this

theorem labels_zero_iff (m : Mode) (shape : List Nat) (data : List Int) (bshape : List Nat) (bc : Array Int)
    (i : Nat) (hi : i < data.length) :
    (labelModel m shape data bshape bc).1.getD i 0 = 0 ↔ data.getD i 0 = 0 := by
  obtain ⟨f, hbg, hget, hpos, _⟩ := label_output m shape data bshape bc
  obtain ⟨hinv, _⟩ := parents_spec m shape data (offsets bshape bc)
  by_cases fi : Fg data i
  · have := hpos i fi
    constructor
    · intro h; omega
    · intro h; exact absurd h fi.2
  · have hz : data.getD i 0 = 0 := by
      by_contra hc
      exact fi ⟨hi, hc⟩
    rw [hget i hi, hinv.bg i fi, hbg]
    exact ⟨fun _ => hz, fun _ => rfl⟩

theorem labels_same_iff (m : Mode) (shape : List Nat) (data : List Int) (bshape : List Nat) (bc : Array Int)
    (i j : Nat) (fi : Fg data i) (fj : Fg data j) :
    (labelModel m shape data bshape bc).1.getD i 0 = (labelModel m shape data bshape bc).1.getD j 0 ↔
      EqvGen (Edge m shape (offsets bshape bc) data) i j := by
  obtain ⟨f, _, hget, _, hinj⟩ := label_output m shape data bshape bc
  obtain ⟨hinv, hflat⟩ := parents_spec m shape data (offsets bshape bc)
  obtain ⟨ri, di, hri, hvi⟩ := hflat i fi
  obtain ⟨rj, dj, hrj, hvj⟩ := hflat j fj
  constructor
  · intro hl
    have e := hinj i j ri rj fi fj hvi hvj hl
    subst e
    exact (hinv.cls i j).mpr (Or.inr ⟨fi, fj, ri, di, dj, hri, hrj⟩)
  · intro he
    rcases (hinv.cls i j).mp he with e | ⟨_, _, r, da, db, ha, hb⟩
    · subst e; rfl
    · have e1 := (ha.det hri).1
      have e2 := (hb.det hrj).1
      rw [hget i fi.1, hget j fj.1, hvi, hvj, ← e1, ← e2]

/-! ### flat indices and positions (F9) -/

/-- `unravel` of an in-range flat index is inside the box and ravels back -/
theorem unravel_inside_ravel : ∀ (shape : List Nat) (i : Nat), i < shapeSize shape →
    inside shape (unravelI shape i) = true ∧ ravelI shape (unravelI shape i) = i := by
  intro shape
  induction shape with
  | nil =>
    intro i hi
    simp only [shapeSize] at hi
    have : i = 0 := by omega
    subst this
    simp [unravelI, unravel, inside, ravelI]
  | cons n ds ih =>
    intro i hi
    simp only [shapeSize] at hi
    have hS : 0 < shapeSize ds := by
      by_contra hc
      have : shapeSize ds = 0 := by omega
      rw [this] at hi; simp at hi
    obtain ⟨a, b⟩ := ih (i % shapeSize ds) (Nat.mod_lt _ hS)
    have hdiv : i / shapeSize ds < n := (Nat.div_lt_iff_lt_mul hS).mpr hi
    unfold unravelI at a b ⊢
    simp only [unravel, List.map_cons, inside, ravelI, Int.ofNat_eq_coe]
    refine ⟨?_, ?_⟩
    · simp only [Bool.and_eq_true, decide_eq_true_eq]
      exact ⟨⟨Int.natCast_nonneg _, by exact_mod_cast hdiv⟩, a⟩
    · rw [b]
      have : ((i / shapeSize ds : Nat) : Int).toNat = i / shapeSize ds := Int.toNat_natCast _
      rw [this]
      exact Nat.div_add_mod' i (shapeSize ds)

/-- a position inside the box ravels to an in-range flat index and unravels back -/
theorem ravel_inside_unravel : ∀ (shape : List Nat) (p : List Int), p.length = shape.length →
    inside shape p = true → ravelI shape p < shapeSize shape ∧ unravelI shape (ravelI shape p) = p := by
  intro shape
  induction shape with
  | nil =>
    intro p hp _
    cases p with
    | nil => simp [ravelI, shapeSize, unravelI, unravel]
    | cons a b => simp at hp
  | cons n ds ih =>
    intro p hp hin
    cases p with
    | nil => simp at hp
    | cons a ps =>
      simp only [inside, Bool.and_eq_true, decide_eq_true_eq] at hin
      obtain ⟨⟨h0, h1⟩, hin'⟩ := hin
      obtain ⟨c, d⟩ := ih ps (by simpa using hp) hin'
      have hS : 0 < shapeSize ds := by omega
      have ha : a.toNat < n := by omega
      simp only [ravelI, shapeSize]
      constructor
      · have : (a.toNat + 1) * shapeSize ds ≤ n * shapeSize ds := Nat.mul_le_mul_right _ (by omega)
        have h2 : (a.toNat + 1) * shapeSize ds = a.toNat * shapeSize ds + shapeSize ds := by
          rw [Nat.add_mul]; simp
        omega
      · unfold unravelI at d ⊢
        simp only [unravel, List.map_cons, Int.ofNat_eq_coe]
        have e1 : (a.toNat * shapeSize ds + ravelI ds ps) / shapeSize ds = a.toNat := by
          rw [Nat.mul_comm, Nat.mul_add_div hS, Nat.div_eq_of_lt c]; simp
        have e2 : (a.toNat * shapeSize ds + ravelI ds ps) % shapeSize ds = ravelI ds ps := by
          rw [Nat.mul_comm, Nat.mul_add_mod, Nat.mod_eq_of_lt c]
        rw [e1, e2, d]
        have : ((a.toNat : Nat) : Int) = a := by omega
        rw [this]

end Mahotas.C03
