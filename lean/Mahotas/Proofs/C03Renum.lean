/-
C03 / C13 — the first-seen renumbering loop (`renumGo`, shared by `label` and `relabel`).
-/
import Mahotas.Model.C03
import Mathlib.Tactic.Linarith
namespace Mahotas.C03

/-- new labels are introduced consecutively: every entry is either an old label (`< next`) or exactly
    the next fresh one. -/
def Consec : Int → List Int → Prop
  | _, [] => True
  | next, l :: r => (l < next ∧ Consec next r) ∨ (l = next ∧ Consec (next + 1) r)

/-- invariant of the `seen` map: labels are in `[0, next)` and distinct keys carry distinct labels -/
structure SeenInv (seen : List (Int × Int)) (next : Int) : Prop where
  lt : ∀ v l, seen.lookup v = some l → 0 ≤ l ∧ l < next
  inj : ∀ v w l, seen.lookup v = some l → seen.lookup w = some l → v = w

theorem lookup_cons_self (seen : List (Int × Int)) (v l : Int) :
    ((v, l) :: seen).lookup v = some l := by
  simp

theorem lookup_cons_ne (seen : List (Int × Int)) (v w l : Int) (h : w ≠ v) :
    ((v, l) :: seen).lookup w = seen.lookup w := by
  have hb : (w == v) = false := by simp [h]
  simp [List.lookup_cons, hb]

theorem SeenInv.insert {seen : List (Int × Int)} {next : Int} (h : SeenInv seen next) (v : Int)
    (hv : seen.lookup v = none) (h0 : 0 ≤ next) : SeenInv ((v, next) :: seen) (next + 1) := by
  constructor
  · intro w l hw
    by_cases e : w = v
    · subst e
      rw [lookup_cons_self] at hw
      cases hw
      omega
    · rw [lookup_cons_ne _ _ _ _ e] at hw
      have := h.lt w l hw
      omega
  · intro a b l ha hb
    by_cases ea : a = v <;> by_cases eb : b = v
    · rw [ea, eb]
    · subst ea
      rw [lookup_cons_self] at ha
      rw [lookup_cons_ne _ _ _ _ eb] at hb
      cases ha
      have := (h.lt b _ hb).2
      omega
    · subst eb
      rw [lookup_cons_self] at hb
      rw [lookup_cons_ne _ _ _ _ ea] at ha
      cases hb
      have := (h.lt a _ ha).2
      omega
    · rw [lookup_cons_ne _ _ _ _ ea] at ha
      rw [lookup_cons_ne _ _ _ _ eb] at hb
      exact h.inj a b l ha hb

theorem renumGo_cons_some {seen : List (Int × Int)} {next v l : Int} {vs : List Int}
    (h : seen.lookup v = some l) :
    renumGo seen next (v :: vs) = (l :: (renumGo seen next vs).1, (renumGo seen next vs).2) := by
  simp [renumGo, h]

theorem renumGo_cons_none {seen : List (Int × Int)} {next v : Int} {vs : List Int}
    (h : seen.lookup v = none) :
    renumGo seen next (v :: vs) =
      (next :: (renumGo ((v, next) :: seen) (next + 1) vs).1, (renumGo ((v, next) :: seen) (next + 1) vs).2) := by
  simp [renumGo, h]

/-- the output is the image of the input under one function `f` that extends `seen`, sends unseen
    values to labels `≥ next`, and is injective on everything it was applied to -/
theorem renumGo_map (vals : List Int) : ∀ (seen : List (Int × Int)) (next : Int), SeenInv seen next → 0 ≤ next →
    ∃ f : Int → Int, (renumGo seen next vals).1 = vals.map f ∧
      (∀ v l, seen.lookup v = some l → f v = l) ∧
      (∀ v, v ∈ vals → seen.lookup v = none → next ≤ f v) ∧
      (∀ a b, (a ∈ vals ∨ (seen.lookup a).isSome) → (b ∈ vals ∨ (seen.lookup b).isSome) → f a = f b → a = b) := by
  induction vals with
  | nil =>
    intro seen next h _
    refine ⟨fun v => (seen.lookup v).getD next, by simp [renumGo], ?_, ?_, ?_⟩
    · intro v l hv; simp [hv]
    · intro v hv; simp at hv
    · intro a b ha hb hab
      rcases ha with ha | ha
      · simp at ha
      rcases hb with hb | hb
      · simp at hb
      obtain ⟨la, hla⟩ := Option.isSome_iff_exists.mp ha
      obtain ⟨lb, hlb⟩ := Option.isSome_iff_exists.mp hb
      simp only [hla, hlb, Option.getD_some] at hab
      subst hab
      exact h.inj a b la hla hlb
  | cons v vs ih =>
    intro seen next h h0
    cases hl : seen.lookup v with
    | some l =>
      obtain ⟨f, hf, hext, hnew, hinj⟩ := ih seen next h h0
      refine ⟨f, ?_, hext, ?_, ?_⟩
      · rw [renumGo_cons_some hl, List.map_cons, hf, hext v l hl]
      · intro w hw hnone
        rcases List.mem_cons.mp hw with e | hw
        · subst e; rw [hl] at hnone; cases hnone
        · exact hnew w hw hnone
      · intro a b ha hb hab
        have conv : ∀ x, (x ∈ v :: vs ∨ (seen.lookup x).isSome) → (x ∈ vs ∨ (seen.lookup x).isSome) := by
          intro x hx
          rcases hx with hx | hx
          · rcases List.mem_cons.mp hx with e | hx
            · right; subst e; simp [hl]
            · left; exact hx
          · right; exact hx
        exact hinj a b (conv a ha) (conv b hb) hab
    | none =>
      have h' := h.insert v hl h0
      obtain ⟨f, hf, hext, hnew, hinj⟩ := ih ((v, next) :: seen) (next + 1) h' (by omega)
      have hfv : f v = next := hext v next (lookup_cons_self seen v next)
      refine ⟨f, ?_, ?_, ?_, ?_⟩
      · rw [renumGo_cons_none hl, List.map_cons, hf, hfv]
      · intro w l hw
        have hne : w ≠ v := by
          intro e; subst e; rw [hl] at hw; cases hw
        exact hext w l (by rw [lookup_cons_ne _ _ _ _ hne]; exact hw)
      · intro w hw hnone
        by_cases e : w = v
        · subst e; omega
        · rcases List.mem_cons.mp hw with e' | hw
          · exact absurd e' e
          · have := hnew w hw (by rw [lookup_cons_ne _ _ _ _ e]; exact hnone)
            omega
      · intro a b ha hb hab
        have conv : ∀ x, (x ∈ v :: vs ∨ (seen.lookup x).isSome) →
            (x ∈ vs ∨ (((v, next) :: seen).lookup x).isSome) := by
          intro x hx
          by_cases e : x = v
          · right; subst e; simp
          · rcases hx with hx | hx
            · rcases List.mem_cons.mp hx with e' | hx
              · exact absurd e' e
              · left; exact hx
            · right; rw [lookup_cons_ne _ _ _ _ e]; exact hx
        exact hinj a b (conv a ha) (conv b hb) hab

/-- new labels appear consecutively, starting at `next` -/
theorem renumGo_consec (vals : List Int) : ∀ (seen : List (Int × Int)) (next : Int),
    (∀ v l, seen.lookup v = some l → l < next) → Consec next (renumGo seen next vals).1 := by
  induction vals with
  | nil => intro seen next _; simp [renumGo, Consec]
  | cons v vs ih =>
    intro seen next h
    cases hl : seen.lookup v with
    | some l =>
      rw [renumGo_cons_some hl]
      exact Or.inl ⟨h v l hl, ih seen next h⟩
    | none =>
      rw [renumGo_cons_none hl]
      refine Or.inr ⟨rfl, ih _ _ ?_⟩
      intro w l hw
      by_cases e : w = v
      · subst e; rw [lookup_cons_self] at hw; cases hw; omega
      · rw [lookup_cons_ne _ _ _ _ e] at hw
        have := h w l hw
        omega

/-- the returned count is the largest label, and every label from `next` up to it occurs -/
theorem renumGo_count (vals : List Int) : ∀ (seen : List (Int × Int)) (next : Int),
    (∀ v l, seen.lookup v = some l → l < next) →
    next - 1 ≤ (renumGo seen next vals).2 ∧
    (∀ l ∈ (renumGo seen next vals).1, l ≤ (renumGo seen next vals).2) ∧
    (∀ k, next ≤ k → k ≤ (renumGo seen next vals).2 → k ∈ (renumGo seen next vals).1) := by
  induction vals with
  | nil =>
    intro seen next _
    refine ⟨by simp [renumGo], by simp [renumGo], ?_⟩
    intro k h1 h2
    simp [renumGo] at h2
    omega
  | cons v vs ih =>
    intro seen next h
    cases hl : seen.lookup v with
    | some l =>
      rw [renumGo_cons_some hl]
      obtain ⟨a, b, c⟩ := ih seen next h
      refine ⟨a, ?_, ?_⟩
      · intro x hx
        rcases List.mem_cons.mp hx with e | hx
        · have := h v l hl; simp only at a ⊢; omega
        · exact b x hx
      · intro k h1 h2
        exact List.mem_cons_of_mem _ (c k h1 h2)
    | none =>
      rw [renumGo_cons_none hl]
      have h' : ∀ w l, ((v, next) :: seen).lookup w = some l → l < next + 1 := by
        intro w l hw
        by_cases e : w = v
        · subst e; rw [lookup_cons_self] at hw; cases hw; omega
        · rw [lookup_cons_ne _ _ _ _ e] at hw
          have := h w l hw
          omega
      obtain ⟨a, b, c⟩ := ih _ _ h'
      refine ⟨by simp only at a ⊢; omega, ?_, ?_⟩
      · intro x hx
        rcases List.mem_cons.mp hx with e | hx
        · simp only at a ⊢; omega
        · exact b x hx
      · intro k h1 h2
        by_cases e : k = next
        · subst e; exact List.mem_cons_self
        · exact List.mem_cons_of_mem _ (c k (by omega) h2)

/-- index form of `Consec`: before the first occurrence of a label `> k ≥ next`, label `k` has occurred -/
theorem Consec.earlier : ∀ (r : List Int) (next : Int), Consec next r →
    ∀ (i : Nat) (l : Int), r[i]? = some l → ∀ k, next ≤ k → k < l → ∃ j, j < i ∧ r[j]? = some k := by
  intro r
  induction r with
  | nil => intro next _ i l h; simp at h
  | cons x r ih =>
    intro next hc i l hi k hk hkl
    cases i with
    | zero =>
      simp at hi
      subst hi
      rcases hc with ⟨h1, _⟩ | ⟨h1, _⟩ <;> omega
    | succ i =>
      simp at hi
      rcases hc with ⟨_, h2⟩ | ⟨h1, h2⟩
      · obtain ⟨j, hj, hjk⟩ := ih next h2 i l hi k hk hkl
        exact ⟨j + 1, by omega, by simpa using hjk⟩
      · by_cases e : k = next
        · exact ⟨0, by omega, by simp [h1, e]⟩
        · obtain ⟨j, hj, hjk⟩ := ih (next + 1) h2 i l hi k (by omega) hkl
          exact ⟨j + 1, by omega, by simpa using hjk⟩

theorem seenInv_init (bg : Int) : SeenInv [(bg, 0)] 1 := by
  constructor
  · intro v l h
    by_cases e : v = bg
    · subst e; rw [lookup_cons_self] at h; cases h; omega
    · rw [lookup_cons_ne _ _ _ _ e] at h; simp at h
  · intro a b l ha hb
    by_cases ea : a = bg
    · by_cases eb : b = bg
      · rw [ea, eb]
      · rw [lookup_cons_ne _ _ _ _ eb] at hb; simp at hb
    · rw [lookup_cons_ne _ _ _ _ ea] at ha; simp at ha

/-- **renumbering, functional form.** `renumber bg vals` maps the input through a function that sends
    `bg` to 0, every other occurring value to a label `≥ 1`, and is injective on the occurring values. -/
theorem renumber_map (bg : Int) (vals : List Int) :
    ∃ f : Int → Int, (renumber bg vals).1 = vals.map f ∧ f bg = 0 ∧
      (∀ v ∈ vals, v ≠ bg → 1 ≤ f v) ∧
      (∀ a b, (a ∈ vals ∨ a = bg) → (b ∈ vals ∨ b = bg) → f a = f b → a = b) := by
  obtain ⟨f, hf, hext, hnew, hinj⟩ := renumGo_map vals [(bg, 0)] 1 (seenInv_init bg) (by omega)
  refine ⟨f, hf, hext bg 0 (lookup_cons_self _ _ _), ?_, ?_⟩
  · intro v hv hne
    exact hnew v hv (by rw [lookup_cons_ne _ _ _ _ hne]; simp)
  · intro a b ha hb hab
    have conv : ∀ x, (x ∈ vals ∨ x = bg) → (x ∈ vals ∨ (([(bg, (0 : Int))] : List (Int × Int)).lookup x).isSome) := by
      intro x hx
      rcases hx with hx | hx
      · left; exact hx
      · right; subst hx; simp
    exact hinj a b (conv a ha) (conv b hb) hab

end Mahotas.C03
