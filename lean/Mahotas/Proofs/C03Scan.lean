/-
C03 — the scan loop of `label`: invariant "classes of the parent forest = equivalence closure of the
edges processed so far", preserved by `join` and by path compression; final compression makes every
foreground cell point at its root.
-/
import Mahotas.Proofs.C03UF
import Mahotas.Proofs.C03Renum
import Mathlib.Logic.Relation
namespace Mahotas.C03
open Relation

/-- foreground pixel (flat index) -/
def Fg (data : List Int) (i : Nat) : Prop := i < data.length ∧ data.getD i 0 ≠ 0

/-- same class of the parent forest -/
def Same (par : Array Int) (x y : Nat) : Prop := ∃ r dx dy, RootN par x r dx ∧ RootN par y r dy

structure Inv (data : List Int) (par : Array Int) (E : Nat → Nat → Prop) : Prop where
  size : par.size = data.length
  bg : ∀ i, ¬ Fg data i → par.getD i (-1) = -1
  fg : ∀ i, Fg data i → ∃ r d, RootN par i r d
  efg : ∀ x y, E x y → Fg data x ∧ Fg data y
  cls : ∀ x y, EqvGen E x y ↔ (x = y ∨ (Fg data x ∧ Fg data y ∧ Same par x y))

theorem Inv.congr {data : List Int} {par : Array Int} {E E' : Nat → Nat → Prop}
    (h : Inv data par E) (he : ∀ x y, E x y ↔ E' x y) : Inv data par E' := by
  have : E = E' := by funext x y; exact propext (he x y)
  subst this; exact h

/-! ### frame and flatness lemmas for `find` -/

theorem find_frame : ∀ (fuel : Nat) (par : Array Int) (i r d : Nat), RootN par i r d → d ≤ fuel →
    ∀ x, par.getD x (-1) = -1 → (find fuel par i).1.getD x (-1) = -1 := by
  intro fuel
  induction fuel with
  | zero => intro par i r d _ _ x hx; simpa [find] using hx
  | succ fuel ih =>
    intro par i r d h hd x hx
    cases h with
    | base hi hb =>
      have hf : find (fuel + 1) par i = (par, i) := by simp [find, hb]
      rw [hf]; exact hx
    | @step _ p _ d' hi hp hne hrest =>
      have hne' : ¬ ((p : Int) = (i : Int)) := fun e => hne (Int.ofNat.inj e)
      simp only [find, hp, hne', if_false, Int.toNat_natCast]
      have hxi : i ≠ x := by
        intro e; subst e; rw [hp] at hx; omega
      rw [getD_set_ne _ _ _ _ hxi]
      exact ih par p r d' hrest (by omega) x hx

/-- a cell that already points at its root keeps doing so -/
theorem find_flat : ∀ (fuel : Nat) (par : Array Int) (i r d : Nat), RootN par i r d → d ≤ fuel →
    ∀ x rx dx, RootN par x rx dx → par.getD x (-1) = (rx : Int) →
      (find fuel par i).1.getD x (-1) = (rx : Int) := by
  intro fuel
  induction fuel with
  | zero => intro par i r d _ _ x rx dx _ hx; simpa [find] using hx
  | succ fuel ih =>
    intro par i r d h hd x rx dx hxr hx
    cases h with
    | base hi hb =>
      have hf : find (fuel + 1) par i = (par, i) := by simp [find, hb]
      rw [hf]; exact hx
    | @step _ p _ d' hi hp hne hrest =>
      have hne' : ¬ ((p : Int) = (i : Int)) := fun e => hne (Int.ofNat.inj e)
      obtain ⟨h1, h2, _⟩ := find_spec fuel par p r d' hrest (by omega)
      simp only [find, hp, hne', if_false, Int.toNat_natCast]
      by_cases e : i = x
      · subst e
        rw [getD_set_self _ _ _ (by rw [h2]; exact hi), h1]
        have := ((RootN.step hi hp hne hrest).det hxr).1
        rw [this]
      · rw [getD_set_ne _ _ _ _ e]
        exact ih par p r d' hrest (by omega) x rx dx hxr hx

/-- after `find i` the cell `i` points at its root -/
theorem find_self_flat (fuel : Nat) (par : Array Int) (i r d : Nat) (h : RootN par i r d) (hd : d ≤ fuel) :
    (find fuel par i).1.getD i (-1) = (r : Int) := by
  cases fuel with
  | zero =>
    have : d = 0 := by omega
    subst this
    cases h with
    | base _ hb => simpa [find] using hb
  | succ fuel =>
    cases h with
    | base hi hb =>
      have hf : find (fuel + 1) par i = (par, i) := by simp [find, hb]
      rw [hf]; exact hb
    | @step _ p _ d' hi hp hne hrest =>
      have hne' : ¬ ((p : Int) = (i : Int)) := fun e => hne (Int.ofNat.inj e)
      obtain ⟨h1, h2, _⟩ := find_spec fuel par p r d' hrest (by omega)
      simp only [find, hp, hne', if_false, Int.toNat_natCast]
      rw [getD_set_self _ _ _ (by rw [h2]; exact hi), h1]

/-! ### classes are transported along root-preserving updates -/

theorem same_transfer {par par' : Array Int}
    (hpres : ∀ x rx dx, RootN par x rx dx → ∃ dx', RootN par' x rx dx')
    {x y : Nat} (hx : ∃ r d, RootN par x r d) (hy : ∃ r d, RootN par y r d) :
    Same par' x y ↔ Same par x y := by
  obtain ⟨rx, dx, hx⟩ := hx
  obtain ⟨ry, dy, hy⟩ := hy
  obtain ⟨dx', hx'⟩ := hpres x rx dx hx
  obtain ⟨dy', hy'⟩ := hpres y ry dy hy
  constructor
  · rintro ⟨r, a, b, h1, h2⟩
    have e1 := (h1.det hx').1
    have e2 := (h2.det hy').1
    subst e1
    subst e2
    exact ⟨_, _, _, hx, hy⟩
  · rintro ⟨r, a, b, h1, h2⟩
    have e1 := (h1.det hx).1
    have e2 := (h2.det hy).1
    subst e1
    exact ⟨_, _, _, hx', e2 ▸ hy'⟩

/-- path compression keeps the invariant -/
theorem find_inv {data : List Int} {par : Array Int} {E : Nat → Nat → Prop} (h : Inv data par E)
    {i r d : Nat} (hi : RootN par i r d) : Inv data (find (data.length + 1) par i).1 E := by
  have hd : d ≤ data.length + 1 := by have := hi.depth_lt; rw [h.size] at this; omega
  obtain ⟨_, h2, h3⟩ := find_spec _ par i r d hi hd
  have hpres : ∀ x rx dx, RootN par x rx dx → ∃ dx', RootN (find (data.length + 1) par i).1 x rx dx' := by
    intro x rx dx hx
    obtain ⟨dx', _, hx'⟩ := h3 x rx dx hx
    exact ⟨dx', hx'⟩
  refine ⟨by rw [h2, h.size], ?_, ?_, h.efg, ?_⟩
  · intro x hx
    exact find_frame _ par i r d hi hd x (h.bg x hx)
  · intro x hx
    obtain ⟨rx, dx, hxr⟩ := h.fg x hx
    obtain ⟨dx', hx'⟩ := hpres x rx dx hxr
    exact ⟨rx, dx', hx'⟩
  · intro x y
    rw [h.cls x y]
    constructor
    · rintro (e | ⟨fx, fy, hs⟩)
      · exact Or.inl e
      · exact Or.inr ⟨fx, fy, (same_transfer hpres (h.fg x fx) (h.fg y fy)).mpr hs⟩
    · rintro (e | ⟨fx, fy, hs⟩)
      · exact Or.inl e
      · exact Or.inr ⟨fx, fy, (same_transfer hpres (h.fg x fx) (h.fg y fy)).mp hs⟩

/-! ### `join` adds one edge -/

theorem join_frame (fuel : Nat) (par : Array Int) (i j ri rj di dj : Nat)
    (hi : RootN par i ri di) (hj : RootN par j rj dj) (hdi : di ≤ fuel) (hdj : dj ≤ fuel)
    (x : Nat) (hx : par.getD x (-1) = -1) : (join fuel par i j).getD x (-1) = -1 := by
  obtain ⟨a1, a2, a3⟩ := find_spec fuel par i ri di hi hdi
  obtain ⟨dj1, hdj1, hj1⟩ := a3 j rj dj hj
  obtain ⟨b1, b2, b3⟩ := find_spec fuel (find fuel par i).1 j rj dj1 hj1 (by omega)
  have f1 := find_frame fuel par i ri di hi hdi x hx
  have f2 := find_frame fuel _ j rj dj1 hj1 (by omega) x f1
  obtain ⟨_, _, hri1⟩ := a3 ri ri 0 (RootN.base hi.isRoot.1 hi.isRoot.2)
  obtain ⟨_, _, hri2⟩ := b3 ri ri _ hri1
  unfold join
  simp only [a1, b1]
  have hne : ri ≠ x := by
    intro e; subst e
    have := hri2.isRoot.2
    rw [this] at f2
    omega
  rw [getD_set_ne _ _ _ _ hne]
  exact f2

theorem join_inv {data : List Int} {par : Array Int} {E : Nat → Nat → Prop} (h : Inv data par E)
    {i nb p : Nat} (hfi : Fg data i) (hfn : Fg data nb) (hp : par.getD nb (-1) = (p : Int)) :
    Inv data (join (data.length + 1) par i p) (fun x y => E x y ∨ (x = i ∧ y = nb)) := by
  obtain ⟨ri, di, hi⟩ := h.fg i hfi
  obtain ⟨rn, dn, hn⟩ := h.fg nb hfn
  -- the value read at the neighbour is a cell of the neighbour's class
  have hpr : ∃ dp, RootN par p rn dp := by
    cases hn with
    | base _ hb =>
      rw [hb] at hp
      have := Int.ofNat.inj hp
      subst this
      exact ⟨0, RootN.base (by assumption) hb⟩
    | step _ hp' _ hrest =>
      rw [hp'] at hp
      have := Int.ofNat.inj hp
      subst this
      exact ⟨_, hrest⟩
  obtain ⟨dp, hpn⟩ := hpr
  have hdi : di ≤ data.length + 1 := by have := hi.depth_lt; rw [h.size] at this; omega
  have hdp : dp ≤ data.length + 1 := by have := hpn.depth_lt; rw [h.size] at this; omega
  obtain ⟨hsz, hmap⟩ := join_spec (data.length + 1) par i p ri rn di dp hi hpn hdi hdp
  -- roots of arbitrary foreground cells after the join
  have hroot : ∀ x, Fg data x → ∀ rx dx, RootN par x rx dx →
      ∃ dx', RootN (join (data.length + 1) par i p) x (if rx = ri then rn else rx) dx' :=
    fun x _ rx dx hx => hmap x rx dx hx
  refine ⟨by rw [hsz, h.size], ?_, ?_, ?_, ?_⟩
  · intro x hx
    exact join_frame _ par i p ri rn di dp hi hpn hdi hdp x (h.bg x hx)
  · intro x hx
    obtain ⟨rx, dx, hxr⟩ := h.fg x hx
    obtain ⟨dx', hx'⟩ := hmap x rx dx hxr
    exact ⟨_, dx', hx'⟩
  · rintro x y (hE | ⟨rfl, rfl⟩)
    · exact h.efg x y hE
    · exact ⟨hfi, hfn⟩
  · intro x y
    constructor
    · intro hxy
      induction hxy with
      | rel a b hab =>
        rcases hab with hE | ⟨rfl, rfl⟩
        · obtain ⟨fa, fb⟩ := h.efg a b hE
          right
          refine ⟨fa, fb, ?_⟩
          rcases (h.cls a b).mp (EqvGen.rel _ _ hE) with e | ⟨_, _, r, da, db, ha, hb⟩
          · subst e
            obtain ⟨ra, da, ha⟩ := h.fg a fa
            obtain ⟨d', h'⟩ := hmap a ra da ha
            exact ⟨_, _, _, h', h'⟩
          · obtain ⟨d1, h1⟩ := hmap a r da ha
            obtain ⟨d2, h2⟩ := hmap b r db hb
            exact ⟨_, _, _, h1, h2⟩
        · right
          refine ⟨hfi, hfn, ?_⟩
          obtain ⟨d1, h1⟩ := hmap a ri di hi
          obtain ⟨d2, h2⟩ := hmap b rn dn hn
          simp only [if_true] at h1
          have : (if rn = ri then rn else rn) = rn := by
            by_cases e : rn = ri
            · simp [e]
            · simp [e]
          rw [this] at h2
          exact ⟨_, _, _, h1, h2⟩
      | refl a => exact Or.inl rfl
      | symm a b _ ih =>
        rcases ih with e | ⟨fa, fb, r, da, db, ha, hb⟩
        · exact Or.inl e.symm
        · exact Or.inr ⟨fb, fa, r, db, da, hb, ha⟩
      | trans a b c _ _ ih1 ih2 =>
        rcases ih1 with e | ⟨fa, fb, r, da, db, ha, hb⟩
        · subst e; exact ih2
        · rcases ih2 with e | ⟨_, fc, r', db', dc, hb', hc⟩
          · subst e; exact Or.inr ⟨fa, fb, r, da, db, ha, hb⟩
          · have := (hb.det hb').1
            subst this
            exact Or.inr ⟨fa, fc, r, da, dc, ha, hc⟩
    · rintro (e | ⟨fx, fy, r, dx, dy, hx, hy⟩)
      · subst e; exact EqvGen.refl _
      · have hmono : ∀ a b, EqvGen E a b → EqvGen (fun x y => E x y ∨ (x = i ∧ y = nb)) a b :=
          fun a b hab => EqvGen.mono (fun _ _ hE => Or.inl hE) _ _ hab
        obtain ⟨rx, dx0, hx0⟩ := h.fg x fx
        obtain ⟨ry, dy0, hy0⟩ := h.fg y fy
        obtain ⟨dx1, hx1⟩ := hmap x rx dx0 hx0
        obtain ⟨dy1, hy1⟩ := hmap y ry dy0 hy0
        have ex := (hx.det hx1).1
        have ey := (hy.det hy1).1
        have hedge : EqvGen (fun x y => E x y ∨ (x = i ∧ y = nb)) i nb := EqvGen.rel _ _ (Or.inr ⟨rfl, rfl⟩)
        -- x ~ i when root x = ri ; nb ~ y when root y = rn
        have toI : ∀ z rz dz, Fg data z → RootN par z rz dz → rz = ri →
            EqvGen (fun x y => E x y ∨ (x = i ∧ y = nb)) z i := by
          intro z rz dz fz hz e
          subst e
          exact hmono _ _ ((h.cls z i).mpr (Or.inr ⟨fz, hfi, _, _, _, hz, hi⟩))
        have toN : ∀ z rz dz, Fg data z → RootN par z rz dz → rz = rn →
            EqvGen (fun x y => E x y ∨ (x = i ∧ y = nb)) nb z := by
          intro z rz dz fz hz e
          subst e
          exact hmono _ _ ((h.cls nb z).mpr (Or.inr ⟨hfn, fz, _, _, _, hn, hz⟩))
        by_cases cx : rx = ri <;> by_cases cy : ry = ri
        · subst cx; subst cy
          exact hmono _ _ ((h.cls x y).mpr (Or.inr ⟨fx, fy, _, _, _, hx0, hy0⟩))
        · simp only [cx, if_true] at ex
          simp only [cy, if_false] at ey
          have : ry = rn := by rw [← ey, ex]
          exact EqvGen.trans _ _ _ (toI x rx dx0 fx hx0 cx)
            (EqvGen.trans _ _ _ hedge (toN y ry dy0 fy hy0 this))
        · simp only [cx, if_false] at ex
          simp only [cy, if_true] at ey
          have : rx = rn := by rw [← ex, ey]
          exact EqvGen.symm _ _ (EqvGen.trans _ _ _ (toI y ry dy0 fy hy0 cy)
            (EqvGen.trans _ _ _ hedge (toN x rx dx0 fx hx0 this)))
        · simp only [cx, if_false] at ex
          simp only [cy, if_false] at ey
          have : rx = ry := by rw [← ex, ← ey]
          subst this
          exact hmono _ _ ((h.cls x y).mpr (Or.inr ⟨fx, fy, _, _, _, hx0, hy0⟩))

end Mahotas.C03
