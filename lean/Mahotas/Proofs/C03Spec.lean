/-
C03 — the executable oracle `specLabels` is the labelling the Prop-level theorems characterise, hence equal
to `labelModel .constant` on every input.
-/
import Mahotas.Proofs.C03Sweep
namespace Mahotas.C03
open Relation

set_option linter.unusedSectionVars false
set_option linter.unusedSimpArgs false

/-! ### position arithmetic -/

theorem addPos_negPos_cancel : ∀ (p k : List Int), p.length = k.length → addPos (addPos p (negPos k)) k = p := by
  intro p
  induction p with
  | nil => intro k _; cases k <;> simp [addPos, negPos]
  | cons a p ih =>
    intro k hk
    cases k with
    | nil => simp at hk
    | cons b k =>
      have := ih k (by simpa using hk)
      simp only [negPos, List.map_cons, addPos] at this ⊢
      rw [this]
      congr 1
      omega

theorem addPos_cancel_negPos : ∀ (p k : List Int), p.length = k.length → addPos (addPos p k) (negPos k) = p := by
  intro p
  induction p with
  | nil => intro k _; cases k <;> simp [addPos, negPos]
  | cons a p ih =>
    intro k hk
    cases k with
    | nil => simp at hk
    | cons b k =>
      have := ih k (by simpa using hk)
      simp only [negPos, List.map_cons, addPos] at this ⊢
      rw [this]
      congr 1
      omega

theorem negPos_length (k : List Int) : (negPos k).length = k.length := by simp [negPos]

/-! ### the neighbour function of the oracle -/

/-- the boolean foreground array `specLabels` builds -/
def fgArr (data : List Int) : Array Bool := (data.map fun v => decide (v ≠ 0)).toArray

theorem fgArr_size (data : List Int) : (fgArr data).size = data.length := by simp [fgArr]

theorem FgA_fgArr (data : List Int) (i : Nat) : FgA (fgArr data) i ↔ Fg data i := by
  unfold FgA Fg fgArr
  simp only [Array.getD_eq_getD_getElem?, List.getElem?_toArray, List.getElem?_map, List.getD_eq_getElem?_getD]
  by_cases h : i < data.length
  · simp [h]
  · simp [h]

/-- the offset relation of the statement (one direction): `y` is the in-image pixel at `position(x) + k` -/
def Off (shape : List Nat) (offs : List (List Int)) (x y : Nat) : Prop :=
  ∃ k ∈ offs, inside shape (addPos (unravelI shape x) k) = true ∧ y = ravelI shape (addPos (unravelI shape x) k)

theorem mem_symNeighbours_raw (shape : List Nat) (fg : Array Bool) (offs : List (List Int)) (i j : Nat) :
    j ∈ symNeighbours shape fg offs i ↔
      ∃ k ∈ offs ++ offs.map negPos, inside shape (addPos (unravelI shape i) k) = true ∧
        fg.getD (ravelI shape (addPos (unravelI shape i) k)) false = true ∧
        j = ravelI shape (addPos (unravelI shape i) k) := by
  unfold symNeighbours
  simp only [List.mem_filterMap]
  constructor
  · rintro ⟨k, hk, h⟩
    by_cases h1 : inside shape (addPos (unravelI shape i) k) = true
    · by_cases h2 : fg.getD (ravelI shape (addPos (unravelI shape i) k)) false = true
      · simp only [h1, h2, if_true] at h
        exact ⟨k, hk, h1, h2, (Option.some.inj h).symm⟩
      · simp [h1, h2] at h
    · simp [h1] at h
  · rintro ⟨k, hk, h1, h2, rfl⟩
    exact ⟨k, hk, by simp [h1, h2]⟩

/-- neighbours of the oracle = foreground pixels one offset (or one reflected offset) away, inside the image -/
theorem mem_symNeighbours (shape : List Nat) (data : List Int) (offs : List (List Int))
    (hlen : data.length = shapeSize shape) (hk : ∀ k ∈ offs, k.length = shape.length) (i j : Nat)
    (hi : Fg data i) :
    j ∈ symNeighbours shape (fgArr data) offs i ↔ Fg data j ∧ (Off shape offs i j ∨ Off shape offs j i) := by
  have hiS : i < shapeSize shape := by rw [← hlen]; exact hi.1
  rw [mem_symNeighbours_raw]
  constructor
  · rintro ⟨k, hk', h1, h2, rfl⟩
    have hfj : Fg data (ravelI shape (addPos (unravelI shape i) k)) := (FgA_fgArr data _).mp h2
    refine ⟨hfj, ?_⟩
    rcases List.mem_append.mp hk' with hk' | hk'
    · exact Or.inl ⟨k, hk', h1, rfl⟩
    · obtain ⟨k', hk'', rfl⟩ := List.mem_map.mp hk'
      right
      have hl : (unravelI shape i).length = (negPos k').length := by
        rw [unravelI_length, negPos_length, hk k' hk'']
      have hl2 : (addPos (unravelI shape i) (negPos k')).length = shape.length := by
        rw [addPos_length _ _ hl, unravelI_length]
      obtain ⟨_, hu⟩ := ravel_inside_unravel shape _ hl2 h1
      obtain ⟨a, b⟩ := unravel_inside_ravel shape i hiS
      refine ⟨k', hk'', ?_, ?_⟩
      · rw [hu, addPos_negPos_cancel _ _ (by rw [unravelI_length, hk k' hk''])]; exact a
      · rw [hu, addPos_negPos_cancel _ _ (by rw [unravelI_length, hk k' hk'']), b]
  · rintro ⟨hfj, h | h⟩
    · obtain ⟨k, hk', h1, rfl⟩ := h
      exact ⟨k, List.mem_append_left _ hk', h1, (FgA_fgArr data _).mpr hfj, rfl⟩
    · obtain ⟨k, hk', h1, e⟩ := h
      have hjS : j < shapeSize shape := by rw [← hlen]; exact hfj.1
      have hl : (unravelI shape j).length = k.length := by rw [unravelI_length, hk k hk']
      have hl2 : (addPos (unravelI shape j) k).length = shape.length := by
        rw [addPos_length _ _ hl, unravelI_length]
      obtain ⟨_, hu⟩ := ravel_inside_unravel shape _ hl2 h1
      obtain ⟨a, b⟩ := unravel_inside_ravel shape j hjS
      have hpi : unravelI shape i = addPos (unravelI shape j) k := by rw [e, hu]
      have hback : addPos (unravelI shape i) (negPos k) = unravelI shape j := by
        rw [hpi, addPos_cancel_negPos _ _ hl]
      refine ⟨negPos k, List.mem_append_right _ (List.mem_map.mpr ⟨k, hk', rfl⟩), ?_, ?_, ?_⟩
      · rw [hback]; exact a
      · rw [hback, b]; exact (FgA_fgArr data _).mpr hfj
      · rw [hback, b]

section withData
variable (shape : List Nat) (data : List Int) (offs : List (List Int))
  (hlen : data.length = shapeSize shape) (hk : ∀ k ∈ offs, k.length = shape.length)
include hlen hk

theorem symNb_fg (i j : Nat) (h : j ∈ symNeighbours shape (fgArr data) offs i) : FgA (fgArr data) j := by
  rw [mem_symNeighbours_raw] at h
  obtain ⟨k, _, _, h2, rfl⟩ := h
  exact h2

theorem symNb_symm (i j : Nat) (hi : FgA (fgArr data) i) (h : j ∈ symNeighbours shape (fgArr data) offs i) :
    i ∈ symNeighbours shape (fgArr data) offs j := by
  have fi := (FgA_fgArr data i).mp hi
  obtain ⟨fj, hij⟩ := (mem_symNeighbours shape data offs hlen hk i j fi).mp h
  exact (mem_symNeighbours shape data offs hlen hk j i fj).mpr ⟨fi, hij.symm⟩

/-- connectivity of the oracle = the equivalence closure of the edges the (repaired) scan processes -/
theorem connA_iff_eqvGen (i j : Nat) :
    ConnA (fgArr data) (symNeighbours shape (fgArr data) offs) i j ↔
      EqvGen (Edge .constant shape offs data) i j := by
  have hN1 := symNb_fg shape data offs hlen hk
  have hsym := symNb_symm shape data offs hlen hk
  constructor
  · intro h
    induction h with
    | refl => exact EqvGen.refl _
    | tail _ hbc ih =>
      refine EqvGen.trans _ _ _ ih ?_
      have fb := (FgA_fgArr data _).mp hbc.1
      obtain ⟨fc, hbc'⟩ := (mem_symNeighbours shape data offs hlen hk _ _ fb).mp hbc.2
      rcases hbc' with h | h
      · exact EqvGen.rel _ _ ⟨fb, fc, (mem_neighbours_constant shape offs _ _ hk).mpr h⟩
      · exact EqvGen.symm _ _ (EqvGen.rel _ _ ⟨fc, fb, (mem_neighbours_constant shape offs _ _ hk).mpr h⟩)
  · intro h
    induction h with
    | rel a b hab =>
      obtain ⟨fa, fb, hnb⟩ := hab
      exact ReflTransGen.single ⟨(FgA_fgArr data a).mpr fa,
        (mem_symNeighbours shape data offs hlen hk a b fa).mpr
          ⟨fb, Or.inl ((mem_neighbours_constant shape offs _ _ hk).mp hnb)⟩⟩
    | refl a => exact ReflTransGen.refl
    | symm a b _ ih => exact ConnA.symm hN1 hsym ih
    | trans a b c _ _ ih1 ih2 => exact ih1.trans ih2

end withData

/-! ### the pieces of `specLabels` -/

/-- the representative array `specLabels` computes -/
def repStar (shape : List Nat) (data : List Int) (offs : List (List Int)) : Array Nat :=
  fixRep shape (fgArr data) offs data.length (2 * data.length + 2) ((List.range data.length).toArray)

def isRootS (shape : List Nat) (data : List Int) (offs : List (List Int)) (r : Nat) : Bool :=
  (fgArr data).getD r false && (repStar shape data offs).getD r r == r

def cntS (shape : List Nat) (data : List Int) (offs : List (List Int)) (m : Nat) : Nat :=
  ((List.range m).filter (isRootS shape data offs)).length

def gS (shape : List Nat) (data : List Int) (offs : List (List Int)) (i : Nat) : Int :=
  if (fgArr data).getD i false then ((cntS shape data offs ((repStar shape data offs).getD i i + 1) : Nat) : Int) else 0

theorem specLabels_eq (shape : List Nat) (data : List Int) (bshape : List Nat) (bc : Array Int) :
    specLabels shape data bshape bc =
      ((List.range data.length).map (gS shape data (offsets bshape bc)),
       ((cntS shape data (offsets bshape bc) data.length : Nat) : Int)) := rfl

theorem cntS_succ (shape : List Nat) (data : List Int) (offs : List (List Int)) (m : Nat) :
    cntS shape data offs (m + 1) = cntS shape data offs m + (if isRootS shape data offs m then 1 else 0) := by
  unfold cntS
  rw [List.range_succ, List.filter_append, List.length_append]
  by_cases h : isRootS shape data offs m = true
  · simp [h]
  · simp [h]

theorem cntS_mono (shape : List Nat) (data : List Int) (offs : List (List Int)) (a b : Nat) (h : a ≤ b) :
    cntS shape data offs a ≤ cntS shape data offs b := by
  induction h with
  | refl => exact Nat.le_refl _
  | step _ ih => rw [cntS_succ]; omega

section star
variable (shape : List Nat) (data : List Int) (offs : List (List Int))
  (hlen : data.length = shapeSize shape) (hk : ∀ k ∈ offs, k.length = shape.length)
include hlen hk

/-- the state `specLabels` reads the labels from: sound and everywhere correct -/
theorem repStar_spec :
    RInv (fgArr data) (symNeighbours shape (fgArr data) offs) (repStar shape data offs) ∧
    ∀ i, FgA (fgArr data) i →
      Correct (fgArr data) (symNeighbours shape (fgArr data) offs) (repStar shape data offs) i := by
  have hN1 := symNb_fg shape data offs hlen hk
  have hsym := symNb_symm shape data offs hlen hk
  unfold repStar
  rw [fixRep_eq_fixRepG]
  have hsz := fgArr_size data
  rw [← hsz]
  apply fixRepG_correct hN1 hsym
  · refine ⟨by simp, ?_⟩
    intro i hi
    have : ((List.range (fgArr data).size).toArray).getD i i = i := by
      simp only [Array.getD_eq_getD_getElem?, List.getElem?_toArray]
      rw [List.getElem?_range hi.lt]; rfl
    rw [this]
    exact ⟨Nat.le_refl _, hi, ReflTransGen.refl⟩
  · have h1 := Bad_card_le (fg := fgArr data) (nbs := symNeighbours shape (fgArr data) offs)
      ((List.range (fgArr data).size).toArray)
    omega

/-- representative of a pixel in the final state -/
theorem rho_facts (i : Nat) (fi : Fg data i) :
    (repStar shape data offs).getD i i ≤ i ∧ Fg data ((repStar shape data offs).getD i i) ∧
    EqvGen (Edge .constant shape offs data) i ((repStar shape data offs).getD i i) := by
  obtain ⟨hR, _⟩ := repStar_spec shape data offs hlen hk
  obtain ⟨a, b, c⟩ := hR.ok i ((FgA_fgArr data i).mpr fi)
  exact ⟨a, (FgA_fgArr data _).mp b, (connA_iff_eqvGen shape data offs hlen hk _ _).mp c⟩

theorem rho_eq_iff (i j : Nat) (fi : Fg data i) (fj : Fg data j) :
    (repStar shape data offs).getD i i = (repStar shape data offs).getD j j ↔
      EqvGen (Edge .constant shape offs data) i j := by
  obtain ⟨hR, hC⟩ := repStar_spec shape data offs hlen hk
  have hN1 := symNb_fg shape data offs hlen hk
  have hsym := symNb_symm shape data offs hlen hk
  have ai := (FgA_fgArr data i).mpr fi
  have aj := (FgA_fgArr data j).mpr fj
  obtain ⟨_, _, ci⟩ := hR.ok i ai
  obtain ⟨_, _, cj⟩ := hR.ok j aj
  rw [← connA_iff_eqvGen shape data offs hlen hk]
  constructor
  · intro e
    rw [← e] at cj
    exact ci.trans (ConnA.symm hN1 hsym cj)
  · intro h
    have h1 := hC i ai _ (ReflTransGen.trans h cj)
    have h2 := hC j aj _ (ReflTransGen.trans (ConnA.symm hN1 hsym h) ci)
    omega

theorem rho_root (i : Nat) (fi : Fg data i) :
    isRootS shape data offs ((repStar shape data offs).getD i i) = true := by
  obtain ⟨_, fr, hc⟩ := rho_facts shape data offs hlen hk i fi
  have := (rho_eq_iff shape data offs hlen hk i _ fi fr).mpr hc
  unfold isRootS
  rw [(FgA_fgArr data _).mpr fr, ← this]
  simp

theorem isRootS_iff (r : Nat) :
    isRootS shape data offs r = true ↔ Fg data r ∧ (repStar shape data offs).getD r r = r := by
  unfold isRootS
  rw [Bool.and_eq_true, beq_iff_eq]
  exact and_congr (FgA_fgArr data r) Iff.rfl

theorem gS_bg (i : Nat) (fi : ¬ Fg data i) : gS shape data offs i = 0 := by
  unfold gS
  have : ¬ ((fgArr data).getD i false = true) := fun h => fi ((FgA_fgArr data i).mp h)
  simp [this]

theorem gS_fg (i : Nat) (fi : Fg data i) :
    gS shape data offs i = ((cntS shape data offs ((repStar shape data offs).getD i i + 1) : Nat) : Int) := by
  unfold gS
  have : (fgArr data).getD i false = true := (FgA_fgArr data i).mpr fi
  simp [this]

theorem gS_pos (i : Nat) (fi : Fg data i) : 1 ≤ gS shape data offs i := by
  rw [gS_fg shape data offs hlen hk i fi, cntS_succ, rho_root shape data offs hlen hk i fi]
  simp only [if_true]
  omega

theorem gS_nonneg (i : Nat) : 0 ≤ gS shape data offs i := by
  by_cases fi : Fg data i
  · have := gS_pos shape data offs hlen hk i fi; omega
  · rw [gS_bg shape data offs hlen hk i fi]

theorem gS_eq_iff (i j : Nat) (fi : Fg data i) (fj : Fg data j) :
    gS shape data offs i = gS shape data offs j ↔ EqvGen (Edge .constant shape offs data) i j := by
  rw [← rho_eq_iff shape data offs hlen hk i j fi fj, gS_fg shape data offs hlen hk i fi,
    gS_fg shape data offs hlen hk j fj]
  constructor
  · intro h
    have h' : cntS shape data offs ((repStar shape data offs).getD i i + 1) =
        cntS shape data offs ((repStar shape data offs).getD j j + 1) := by exact_mod_cast h
    have ri := rho_root shape data offs hlen hk i fi
    have rj := rho_root shape data offs hlen hk j fj
    rw [cntS_succ, ri] at h'
    rw [cntS_succ, rj] at h'
    simp only [if_true] at h'
    by_contra hne
    rcases Nat.lt_or_gt_of_ne hne with hlt | hlt
    · have := cntS_mono shape data offs _ _ (Nat.succ_le_of_lt hlt)
      rw [cntS_succ, ri] at this
      simp only [if_true] at this
      omega
    · have := cntS_mono shape data offs _ _ (Nat.succ_le_of_lt hlt)
      rw [cntS_succ, rj] at this
      simp only [if_true] at this
      omega
  · intro h; rw [h]

/-- first-appearance numbering of the oracle's labels -/
theorem gS_consec : ∀ (m s : Nat), s + m = data.length →
    Consec (1 + (cntS shape data offs s : Int)) ((List.range' s m).map (gS shape data offs)) := by
  intro m
  induction m with
  | zero => intro s _; simp [Consec]
  | succ m ih =>
    intro s hs
    rw [List.range'_succ, List.map_cons]
    have hnext := ih (s + 1) (by omega)
    rw [cntS_succ] at hnext
    by_cases fs : Fg data s
    · obtain ⟨hle, _, _⟩ := rho_facts shape data offs hlen hk s fs
      by_cases hr : (repStar shape data offs).getD s s = s
      · -- a new root: exactly the next fresh label
        have hroot : isRootS shape data offs s = true := (isRootS_iff shape data offs hlen hk s).mpr ⟨fs, hr⟩
        rw [hroot] at hnext
        simp only [if_true] at hnext
        refine Or.inr ⟨?_, ?_⟩
        · rw [gS_fg shape data offs hlen hk s fs, hr, cntS_succ, hroot]
          simp only [if_true]; push_cast; omega
        · have e : (1 + (cntS shape data offs s : Int) + 1) = 1 + ((cntS shape data offs s + 1 : Nat) : Int) := by
            push_cast; omega
          rw [e]; exact hnext
      · -- an old label
        have hnroot : ¬ (isRootS shape data offs s = true) := by
          intro h; exact hr ((isRootS_iff shape data offs hlen hk s).mp h).2
        simp only [hnroot, if_false, Nat.add_zero] at hnext
        refine Or.inl ⟨?_, hnext⟩
        rw [gS_fg shape data offs hlen hk s fs]
        have := cntS_mono shape data offs ((repStar shape data offs).getD s s + 1) s (by omega)
        omega
    · have hnroot : ¬ (isRootS shape data offs s = true) := by
        intro h; exact fs ((isRootS_iff shape data offs hlen hk s).mp h).1
      simp only [hnroot, if_false, Nat.add_zero] at hnext
      refine Or.inl ⟨?_, hnext⟩
      rw [gS_bg shape data offs hlen hk s fs]
      omega

/-- the last root carries the count as its label -/
theorem cntS_attained : ∀ m, m ≤ data.length → 1 ≤ cntS shape data offs m →
    ∃ r, r < m ∧ Fg data r ∧ gS shape data offs r = (cntS shape data offs m : Int) := by
  intro m
  induction m with
  | zero => intro _ h; simp [cntS] at h
  | succ m ih =>
    intro hm h
    by_cases hroot : isRootS shape data offs m = true
    · obtain ⟨fm, hr⟩ := (isRootS_iff shape data offs hlen hk m).mp hroot
      exact ⟨m, by omega, fm, by rw [gS_fg shape data offs hlen hk m fm, hr]⟩
    · rw [cntS_succ] at h ⊢
      simp only [hroot, if_false, Nat.add_zero] at h ⊢
      obtain ⟨r, hr, fr, e⟩ := ih (by omega) h
      exact ⟨r, by omega, fr, e⟩

end star

/-! ### uniqueness of a first-appearance numbering -/

/-- two lists of the same length with the same equality pattern, both numbered consecutively from `next`,
    and agreeing wherever one of them carries an old label (`< next`), are equal -/
theorem consec_unique : ∀ (L1 L2 : List Int) (next : Int), L1.length = L2.length →
    Consec next L1 → Consec next L2 →
    (∀ i j, i < L1.length → j < L1.length → (L1.getD i 0 = L1.getD j 0 ↔ L2.getD i 0 = L2.getD j 0)) →
    (∀ i, i < L1.length → (L1.getD i 0 < next ∨ L2.getD i 0 < next) → L1.getD i 0 = L2.getD i 0) →
    L1 = L2 := by
  intro L1
  induction L1 with
  | nil =>
    intro L2 _ hl _ _ _ _
    cases L2 with
    | nil => rfl
    | cons b r => simp at hl
  | cons a r1 ih =>
    intro L2 next hl c1 c2 hpat hold
    cases L2 with
    | nil => simp at hl
    | cons b r2 =>
      have hl' : r1.length = r2.length := by simpa using hl
      have hpat' : ∀ i j, i < r1.length → j < r1.length →
          (r1.getD i 0 = r1.getD j 0 ↔ r2.getD i 0 = r2.getD j 0) := by
        intro i j hi hj
        have := hpat (i + 1) (j + 1) (by simp; omega) (by simp; omega)
        simpa [List.getD_cons_succ] using this
      have h0 := hold 0 (by simp)
      simp only [List.getD_cons_zero] at h0
      rcases c1 with ⟨ha, c1'⟩ | ⟨ha, c1'⟩
      · have hab : a = b := h0 (Or.inl ha)
        subst hab
        rcases c2 with ⟨_, c2'⟩ | ⟨hb, _⟩
        · congr 1
          apply ih r2 next hl' c1' c2' hpat'
          intro i hi h
          have := hold (i + 1) (by simp; omega)
          simp only [List.getD_cons_succ] at this
          exact this h
        · omega
      · rcases c2 with ⟨hb, _⟩ | ⟨hb, c2'⟩
        · have := h0 (Or.inr hb); omega
        · have hab : a = b := by rw [ha, hb]
          subst hab
          congr 1
          apply ih r2 (next + 1) hl' c1' c2' hpat'
          intro i hi h
          have hi1 := hold (i + 1) (by simp; omega)
          simp only [List.getD_cons_succ] at hi1
          have hp := hpat 0 (i + 1) (by simp) (by simp; omega)
          simp only [List.getD_cons_zero, List.getD_cons_succ] at hp
          rcases h with h | h
          · by_cases hlt : r1.getD i 0 < next
            · exact hi1 (Or.inl hlt)
            · have e : a = r1.getD i 0 := by omega
              rw [← e, ← hp.mp e]
          · by_cases hlt : r2.getD i 0 < next
            · exact hi1 (Or.inr hlt)
            · have e : a = r2.getD i 0 := by omega
              rw [← e, ← hp.mpr e]

theorem getD_map_range (g : Nat → Int) (n i : Nat) (hi : i < n) : ((List.range n).map g).getD i 0 = g i := by
  simp [List.getD_eq_getElem?_getD, List.getElem?_range hi]

theorem cntS_zero (shape : List Nat) (data : List Int) (offs : List (List Int)) : cntS shape data offs 0 = 0 := by
  simp [cntS]

/-- **the oracle, characterised** (in terms of the edges the repaired scan processes) -/
theorem specLabels_core (shape : List Nat) (data : List Int) (bshape : List Nat) (bc : Array Int)
    (hnd : bshape.length = shape.length) (hlen : data.length = shapeSize shape) :
    (specLabels shape data bshape bc).1.length = data.length ∧
    (∀ i, i < data.length → ((specLabels shape data bshape bc).1.getD i 0 = 0 ↔ data.getD i 0 = 0)) ∧
    (∀ i j, Fg data i → Fg data j →
      ((specLabels shape data bshape bc).1.getD i 0 = (specLabels shape data bshape bc).1.getD j 0 ↔
        EqvGen (Edge .constant shape (offsets bshape bc) data) i j)) ∧
    Consec 1 (specLabels shape data bshape bc).1 ∧
    (∀ l ∈ (specLabels shape data bshape bc).1, 0 ≤ l ∧ l ≤ (specLabels shape data bshape bc).2) ∧
    (1 ≤ (specLabels shape data bshape bc).2 → (specLabels shape data bshape bc).2 ∈ (specLabels shape data bshape bc).1) ∧
    0 ≤ (specLabels shape data bshape bc).2 := by
  have hk : ∀ k ∈ offsets bshape bc, k.length = shape.length := by
    intro k hk; rw [offsets_length bshape bc k hk, hnd]
  rw [specLabels_eq]
  refine ⟨by simp, ?_, ?_, ?_, ?_, ?_, ?_⟩
  · intro i hi
    rw [getD_map_range _ _ _ hi]
    by_cases fi : Fg data i
    · have := gS_pos shape data _ hlen hk i fi
      constructor
      · intro h; omega
      · intro h; exact absurd h fi.2
    · rw [gS_bg shape data _ hlen hk i fi]
      have hz : data.getD i 0 = 0 := by
        by_contra hc
        exact fi ⟨hi, hc⟩
      exact ⟨fun _ => hz, fun _ => rfl⟩
  · intro i j fi fj
    rw [getD_map_range _ _ _ fi.1, getD_map_range _ _ _ fj.1]
    exact gS_eq_iff shape data _ hlen hk i j fi fj
  · have := gS_consec shape data _ hlen hk data.length 0 (by omega)
    rw [cntS_zero, ← List.range_eq_range'] at this
    simpa using this
  · intro l hl
    obtain ⟨i, hi, rfl⟩ := List.mem_map.mp hl
    have hi' : i < data.length := List.mem_range.mp hi
    refine ⟨gS_nonneg shape data _ hlen hk i, ?_⟩
    by_cases fi : Fg data i
    · rw [gS_fg shape data _ hlen hk i fi]
      obtain ⟨hle, _, _⟩ := rho_facts shape data _ hlen hk i fi
      have := cntS_mono shape data (offsets bshape bc) ((repStar shape data (offsets bshape bc)).getD i i + 1)
        data.length (by omega)
      simp only
      exact_mod_cast this
    · rw [gS_bg shape data _ hlen hk i fi]
      simp
  · intro h
    have h' : 1 ≤ cntS shape data (offsets bshape bc) data.length := by
      simp only at h; exact_mod_cast h
    obtain ⟨r, hr, _, e⟩ := cntS_attained shape data _ hlen hk data.length (Nat.le_refl _) h'
    exact List.mem_map.mpr ⟨r, List.mem_range.mpr hr, e⟩
  · simp

/-- the count returned next to a first-appearance numbering is determined by the labels -/
theorem count_unique (L : List Int) (c1 c2 : Int) (h1 : ∀ l ∈ L, l ≤ c1) (h2 : ∀ l ∈ L, l ≤ c2)
    (a1 : 1 ≤ c1 → c1 ∈ L) (a2 : 1 ≤ c2 → c2 ∈ L) (n1 : 0 ≤ c1) (n2 : 0 ≤ c2) : c1 = c2 := by
  by_cases p1 : 1 ≤ c1
  · have := h2 _ (a1 p1)
    by_cases p2 : 1 ≤ c2
    · have := h1 _ (a2 p2); omega
    · omega
  · by_cases p2 : 1 ≤ c2
    · have := h1 _ (a2 p2); omega
    · omega

end Mahotas.C03
