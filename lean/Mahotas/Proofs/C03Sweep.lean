/-
C03 — the relaxation sweeps of the executable oracle `specLabels` (`sweep`, `fixRep`), analysed over an
abstract symmetric neighbour function: the fixpoint reached by `fixRep` (with the fuel `specLabels` passes)
maps every foreground pixel to the least index of its connected class.
-/
import Mahotas.Proofs.C03Label
import Mathlib.Data.Finset.Card
namespace Mahotas.C03
open Relation

/-! ### generic form of the sweep (any neighbour function) -/

/-- body of the fold in `sweep`, over an arbitrary neighbour function -/
def stepG (fg : Array Bool) (nbs : Nat → List Nat) (st : Array Nat × Bool) (i : Nat) : Array Nat × Bool :=
  if !fg.getD i false then st else
  let cur := st.1.getD i i
  let best := (nbs i).foldl (fun b j => min b (st.1.getD j j)) cur
  if best < cur then (st.1.setIfInBounds i best, true) else st

def sweepG (fg : Array Bool) (nbs : Nat → List Nat) (order : List Nat) (st : Array Nat × Bool) : Array Nat × Bool :=
  order.foldl (stepG fg nbs) st

def fixRepG (fg : Array Bool) (nbs : Nat → List Nat) (n : Nat) : Nat → Array Nat → Array Nat
  | 0, rep => rep
  | fuel + 1, rep =>
    let s1 := sweepG fg nbs (List.range n) (rep, false)
    let s2 := sweepG fg nbs (List.range n).reverse (s1.1, false)
    if s1.2 || s2.2 then fixRepG fg nbs n fuel s2.1 else s2.1

theorem sweep_eq_sweepG (shape : List Nat) (fg : Array Bool) (offs : List (List Int)) (order : List Nat)
    (rep : Array Nat) :
    sweep shape fg offs order rep = sweepG fg (symNeighbours shape fg offs) order (rep, false) := rfl

theorem fixRep_eq_fixRepG (shape : List Nat) (fg : Array Bool) (offs : List (List Int)) (n : Nat) :
    ∀ (fuel : Nat) (rep : Array Nat),
      fixRep shape fg offs n fuel rep = fixRepG fg (symNeighbours shape fg offs) n fuel rep := by
  intro fuel
  induction fuel with
  | zero => intro rep; rfl
  | succ f ih =>
    intro rep
    simp only [fixRep, fixRepG, sweep_eq_sweepG, ih]

theorem minFold_spec (f : Nat → Nat) : ∀ (l : List Nat) (c : Nat),
    l.foldl (fun b j => min b (f j)) c ≤ c ∧ (∀ j ∈ l, l.foldl (fun b j => min b (f j)) c ≤ f j) ∧
    (l.foldl (fun b j => min b (f j)) c = c ∨ ∃ j ∈ l, l.foldl (fun b j => min b (f j)) c = f j) := by
  intro l
  induction l with
  | nil => intro c; simp
  | cons a l ih =>
    intro c
    simp only [List.foldl_cons]
    obtain ⟨h1, h2, h3⟩ := ih (min c (f a))
    refine ⟨by omega, ?_, ?_⟩
    · intro j hj
      rcases List.mem_cons.mp hj with e | hj
      · subst e; omega
      · exact h2 j hj
    · rcases h3 with h3 | ⟨j, hj, h3⟩
      · by_cases hc : c ≤ f a
        · left; rw [h3]; omega
        · right; exact ⟨a, List.mem_cons_self, by rw [h3]; omega⟩
      · right; exact ⟨j, List.mem_cons_of_mem _ hj, h3⟩

theorem getD_setIfInBounds_nat (a : Array Nat) (i x v : Nat) :
    (a.setIfInBounds i v).getD x x = if i = x ∧ i < a.size then v else a.getD x x := by
  simp only [Array.getD_eq_getD_getElem?, Array.getElem?_setIfInBounds]
  by_cases h1 : i = x
  · by_cases h2 : i < a.size
    · subst h1; simp [h2]
    · subst h1
      simp [h2]
  · simp [h1]

section generic
variable (fg : Array Bool) (nbs : Nat → List Nat)

/-- foreground predicate of the boolean array -/
def FgA (i : Nat) : Prop := fg.getD i false = true

theorem FgA.lt {fg : Array Bool} {i : Nat} (h : FgA fg i) : i < fg.size := by
  unfold FgA at h
  by_contra hc
  simp [Array.getD_eq_getD_getElem?, Array.getElem?_eq_none (Nat.le_of_not_lt hc)] at h

/-- one step of the relation the sweeps relax over -/
def RelA (a b : Nat) : Prop := FgA fg a ∧ b ∈ nbs a

/-- connected (through foreground neighbours) -/
def ConnA : Nat → Nat → Prop := ReflTransGen (RelA fg nbs)

/-- the representative array is sound: every foreground pixel points to a foreground pixel of its own
    class that is not later in scan order -/
structure RInv (rep : Array Nat) : Prop where
  size : rep.size = fg.size
  ok : ∀ i, FgA fg i → rep.getD i i ≤ i ∧ FgA fg (rep.getD i i) ∧ ConnA fg nbs i (rep.getD i i)

/-- pixel `i` already carries the least index of its class -/
def Correct (rep : Array Nat) (i : Nat) : Prop := ∀ t, ConnA fg nbs i t → rep.getD i i ≤ t

variable {fg nbs}

theorem stepG_bg {st : Array Nat × Bool} {i : Nat} (h : ¬ FgA fg i) : stepG fg nbs st i = st := by
  unfold stepG
  have : fg.getD i false = false := by
    unfold FgA at h
    cases hb : fg.getD i false
    · rfl
    · exact absurd hb h
  simp [this]

/-- the candidate value of pixel `i`: minimum over itself and its neighbours -/
def bestG (nbs : Nat → List Nat) (rep : Array Nat) (i : Nat) : Nat :=
  (nbs i).foldl (fun b j => min b (rep.getD j j)) (rep.getD i i)

theorem bestG_spec (nbs : Nat → List Nat) (rep : Array Nat) (i : Nat) :
    bestG nbs rep i ≤ rep.getD i i ∧ (∀ j ∈ nbs i, bestG nbs rep i ≤ rep.getD j j) ∧
    (bestG nbs rep i = rep.getD i i ∨ ∃ j ∈ nbs i, bestG nbs rep i = rep.getD j j) :=
  minFold_spec (fun j => rep.getD j j) (nbs i) (rep.getD i i)

theorem stepG_fg {st : Array Nat × Bool} {i : Nat} (h : FgA fg i) :
    stepG fg nbs st i =
      if bestG nbs st.1 i < st.1.getD i i then (st.1.setIfInBounds i (bestG nbs st.1 i), true) else st := by
  unfold stepG bestG
  unfold FgA at h
  simp [h]

theorem stepG_size (st : Array Nat × Bool) (i : Nat) : (stepG fg nbs st i).1.size = st.1.size := by
  by_cases h : FgA fg i
  · rw [stepG_fg h]
    split <;> simp
  · rw [stepG_bg h]

theorem stepG_le (st : Array Nat × Bool) (i x : Nat) : (stepG fg nbs st i).1.getD x x ≤ st.1.getD x x := by
  by_cases h : FgA fg i
  · rw [stepG_fg h]
    by_cases hlt : bestG nbs st.1 i < st.1.getD i i
    · rw [if_pos hlt]
      simp only [getD_setIfInBounds_nat]
      by_cases he : i = x ∧ i < st.1.size
      · rw [if_pos he]
        obtain ⟨e, _⟩ := he
        subst e
        omega
      · rw [if_neg he]
    · rw [if_neg hlt]
  · rw [stepG_bg h]

/-- after its own step a foreground pixel is at most every neighbour's (old) representative -/
theorem stepG_target (st : Array Nat × Bool) (i j : Nat) (h : FgA fg i) (hi : i < st.1.size) (hj : j ∈ nbs i) :
    (stepG fg nbs st i).1.getD i i ≤ st.1.getD j j := by
  obtain ⟨h1, h2, _⟩ := bestG_spec nbs st.1 i
  have h2j := h2 j hj
  rw [stepG_fg h]
  by_cases hlt : bestG nbs st.1 i < st.1.getD i i
  · rw [if_pos hlt]
    rw [getD_setIfInBounds_nat, if_pos ⟨rfl, hi⟩]
    exact h2j
  · rw [if_neg hlt]
    omega

theorem stepG_flag (st : Array Nat × Bool) (i : Nat) (hf : (stepG fg nbs st i).2 = false) :
    st.2 = false ∧ stepG fg nbs st i = st ∧
      (FgA fg i → ∀ j ∈ nbs i, st.1.getD i i ≤ st.1.getD j j) := by
  by_cases h : FgA fg i
  · rw [stepG_fg h] at hf ⊢
    by_cases hlt : bestG nbs st.1 i < st.1.getD i i
    · rw [if_pos hlt] at hf
      simp at hf
    · rw [if_neg hlt] at hf ⊢
      refine ⟨hf, rfl, ?_⟩
      intro _ j hj
      obtain ⟨_, h2, _⟩ := bestG_spec nbs st.1 i
      have := h2 j hj
      omega
  · rw [stepG_bg h] at hf ⊢
    exact ⟨hf, rfl, fun hh => absurd hh h⟩

theorem ConnA.isFg {a b : Nat} (hN1 : ∀ i j, j ∈ nbs i → FgA fg j) (h : ConnA fg nbs a b) (ha : FgA fg a) :
    FgA fg b := by
  induction h with
  | refl => exact ha
  | tail _ hbc _ => exact hN1 _ _ hbc.2

theorem stepG_inv (hN1 : ∀ i j, j ∈ nbs i → FgA fg j) (st : Array Nat × Bool) (i : Nat)
    (h : RInv fg nbs st.1) : RInv fg nbs (stepG fg nbs st i).1 := by
  refine ⟨by rw [stepG_size, h.size], ?_⟩
  intro x hx
  by_cases hi : FgA fg i
  · rw [stepG_fg hi]
    by_cases hlt : bestG nbs st.1 i < st.1.getD i i
    · rw [if_pos hlt]
      simp only [getD_setIfInBounds_nat]
      by_cases he : i = x ∧ i < st.1.size
      · rw [if_pos he]
        obtain ⟨e, _⟩ := he
        subst e
        obtain ⟨h1, _, h3⟩ := bestG_spec nbs st.1 i
        rcases h3 with h3 | ⟨j, hj, h3⟩
        · omega
        · have hjf : FgA fg j := hN1 _ _ hj
          obtain ⟨_, b, c⟩ := h.ok j hjf
          obtain ⟨a', _, _⟩ := h.ok i hi
          refine ⟨by omega, ?_, ?_⟩
          · rw [h3]; exact b
          · rw [h3]; exact ReflTransGen.head ⟨hi, hj⟩ c
      · rw [if_neg he]; exact h.ok x hx
    · rw [if_neg hlt]; exact h.ok x hx
  · rw [stepG_bg hi]; exact h.ok x hx

/-! ### whole sweeps -/

theorem sweepG_size : ∀ (order : List Nat) (st : Array Nat × Bool),
    (sweepG fg nbs order st).1.size = st.1.size := by
  intro order
  induction order with
  | nil => intro st; rfl
  | cons a l ih => intro st; simp only [sweepG, List.foldl_cons] at ih ⊢; rw [ih, stepG_size]

theorem sweepG_le : ∀ (order : List Nat) (st : Array Nat × Bool) (x : Nat),
    (sweepG fg nbs order st).1.getD x x ≤ st.1.getD x x := by
  intro order
  induction order with
  | nil => intro st x; exact Nat.le_refl _
  | cons a l ih =>
    intro st x
    simp only [sweepG, List.foldl_cons] at ih ⊢
    exact Nat.le_trans (ih _ x) (stepG_le st a x)

theorem sweepG_inv (hN1 : ∀ i j, j ∈ nbs i → FgA fg j) : ∀ (order : List Nat) (st : Array Nat × Bool),
    RInv fg nbs st.1 → RInv fg nbs (sweepG fg nbs order st).1 := by
  intro order
  induction order with
  | nil => intro st h; exact h
  | cons a l ih =>
    intro st h
    simp only [sweepG, List.foldl_cons] at ih ⊢
    exact ih _ (stepG_inv hN1 st a h)

theorem sweepG_target : ∀ (order : List Nat) (st : Array Nat × Bool) (i j : Nat), i ∈ order → FgA fg i →
    i < st.1.size → j ∈ nbs i → (sweepG fg nbs order st).1.getD i i ≤ st.1.getD j j := by
  intro order
  induction order with
  | nil => intro st i j hi; simp at hi
  | cons a l ih =>
    intro st i j hi hf hsz hj
    simp only [sweepG, List.foldl_cons] at ih ⊢
    by_cases e : i = a
    · subst e
      exact Nat.le_trans (sweepG_le l _ i) (stepG_target st i j hf hsz hj)
    · rcases List.mem_cons.mp hi with e' | hi
      · exact absurd e' e
      · exact Nat.le_trans (ih _ i j hi hf (by rw [stepG_size]; exact hsz) hj) (stepG_le st a j)

theorem sweepG_flag : ∀ (order : List Nat) (st : Array Nat × Bool), (sweepG fg nbs order st).2 = false →
    st.2 = false ∧ sweepG fg nbs order st = st ∧
      (∀ i ∈ order, FgA fg i → ∀ j ∈ nbs i, st.1.getD i i ≤ st.1.getD j j) := by
  intro order
  induction order with
  | nil => intro st h; exact ⟨h, rfl, by simp⟩
  | cons a l ih =>
    intro st h
    simp only [sweepG, List.foldl_cons] at ih h ⊢
    obtain ⟨h1, h2, h3⟩ := ih _ h
    obtain ⟨g1, g2, g3⟩ := stepG_flag st a h1
    rw [g2] at h2 h3
    refine ⟨g1, by rw [g2]; exact h2, ?_⟩
    intro i hi
    rcases List.mem_cons.mp hi with e | hi
    · subst e; exact g3
    · exact h3 i hi

/-! ### correctness of the fixpoint -/

theorem Correct.mono {rep rep' : Array Nat} {i : Nat} (h : Correct fg nbs rep i)
    (hle : rep'.getD i i ≤ rep.getD i i) : Correct fg nbs rep' i :=
  fun t ht => Nat.le_trans hle (h t ht)

theorem RelA.symm (hN1 : ∀ i j, j ∈ nbs i → FgA fg j) (hsym : ∀ i j, FgA fg i → j ∈ nbs i → i ∈ nbs j)
    {a b : Nat} (h : RelA fg nbs a b) : RelA fg nbs b a :=
  ⟨hN1 _ _ h.2, hsym _ _ h.1 h.2⟩

theorem ConnA.symm (hN1 : ∀ i j, j ∈ nbs i → FgA fg j) (hsym : ∀ i j, FgA fg i → j ∈ nbs i → i ∈ nbs j)
    {a b : Nat} (h : ConnA fg nbs a b) : ConnA fg nbs b a := by
  induction h with
  | refl => exact ReflTransGen.refl
  | tail _ hbc ih => exact ReflTransGen.head (RelA.symm hN1 hsym hbc) ih

/-- a sweep over an order that contains `i` makes `i` correct if one of its neighbours already is -/
theorem sweepG_progress (hN1 : ∀ i j, j ∈ nbs i → FgA fg j) (hsym : ∀ i j, FgA fg i → j ∈ nbs i → i ∈ nbs j)
    (order : List Nat) (st : Array Nat × Bool) (i j : Nat) (hi : i ∈ order) (hf : FgA fg i)
    (hsz : i < st.1.size) (hj : j ∈ nbs i) (hc : Correct fg nbs st.1 j) :
    Correct fg nbs (sweepG fg nbs order st).1 i := by
  intro t ht
  have hji : ConnA fg nbs j i := ReflTransGen.single ⟨hN1 _ _ hj, hsym _ _ hf hj⟩
  exact Nat.le_trans (sweepG_target order st i j hi hf hsz hj) (hc t (hji.trans ht))

/-- in a stable state (every foreground pixel ≤ all its neighbours) all pixels are correct -/
theorem stable_correct (hN1 : ∀ i j, j ∈ nbs i → FgA fg j) (hsym : ∀ i j, FgA fg i → j ∈ nbs i → i ∈ nbs j)
    (rep : Array Nat) (hinv : RInv fg nbs rep)
    (hst : ∀ i, FgA fg i → ∀ j ∈ nbs i, rep.getD i i ≤ rep.getD j j) (i : Nat) (hi : FgA fg i) :
    Correct fg nbs rep i := by
  intro t ht
  have heq : ∀ a b, ConnA fg nbs a b → FgA fg a → rep.getD a a = rep.getD b b := by
    intro a b hab
    induction hab with
    | refl => intro _; rfl
    | tail hab' hbc ih =>
      intro ha
      rw [ih ha]
      have h1 := hst _ hbc.1 _ hbc.2
      have h2 := hst _ (hN1 _ _ hbc.2) _ (hsym _ _ hbc.1 hbc.2)
      omega
  rw [heq i t ht hi]
  exact (hinv.ok t (ConnA.isFg hN1 ht hi)).1

/-- somewhere on a chain from a correct to an incorrect pixel the status flips along one edge -/
theorem boundary_pair (rep : Array Nat) : ∀ a b, ConnA fg nbs a b → Correct fg nbs rep a → ¬ Correct fg nbs rep b →
    ∃ x y, RelA fg nbs x y ∧ Correct fg nbs rep x ∧ ¬ Correct fg nbs rep y := by
  intro a b h
  induction h with
  | refl => intro h1 h2; exact absurd h1 h2
  | tail _ hbc ih =>
    intro h1 h2
    rename_i b' c _
    by_cases hb : Correct fg nbs rep b'
    · exact ⟨b', c, hbc, hb, h2⟩
    · exact ih h1 hb

/-- the least member of the class of a foreground pixel is correct -/
theorem exists_correct (hN1 : ∀ i j, j ∈ nbs i → FgA fg j) (hsym : ∀ i j, FgA fg i → j ∈ nbs i → i ∈ nbs j)
    (rep : Array Nat) (hinv : RInv fg nbs rep) (i : Nat) (hi : FgA fg i) :
    ∃ m, ConnA fg nbs m i ∧ Correct fg nbs rep m := by
  classical
  have hex : ∃ t, ConnA fg nbs i t := ⟨i, ReflTransGen.refl⟩
  refine ⟨Nat.find hex, ConnA.symm hN1 hsym (Nat.find_spec hex), ?_⟩
  intro t ht
  have hm := Nat.find_spec hex
  have hmf : FgA fg (Nat.find hex) := ConnA.isFg hN1 hm hi
  obtain ⟨a, _, c⟩ := hinv.ok _ hmf
  have h1 : Nat.find hex ≤ rep.getD (Nat.find hex) (Nat.find hex) := Nat.find_min' hex (hm.trans c)
  have h2 : Nat.find hex ≤ t := Nat.find_min' hex (hm.trans ht)
  omega

open Classical in
/-- the foreground pixels that do not yet carry the least index of their class -/
noncomputable def Bad (fg : Array Bool) (nbs : Nat → List Nat) (rep : Array Nat) : Finset Nat :=
  (Finset.range fg.size).filter fun i => FgA fg i ∧ ¬ Correct fg nbs rep i

theorem mem_Bad {rep : Array Nat} {i : Nat} : i ∈ Bad fg nbs rep ↔ FgA fg i ∧ ¬ Correct fg nbs rep i := by
  unfold Bad
  simp only [Finset.mem_filter, Finset.mem_range]
  exact ⟨fun h => h.2, fun h => ⟨h.1.lt, h⟩⟩

open Classical in
theorem Bad_card_le (rep : Array Nat) : (Bad fg nbs rep).card ≤ fg.size := by
  have h1 : (Bad fg nbs rep).card ≤ (Finset.range fg.size).card := by
    unfold Bad
    exact Finset.card_filter_le _ _
  rwa [Finset.card_range] at h1

theorem Bad_subset (order : List Nat) (st : Array Nat × Bool) :
    Bad fg nbs (sweepG fg nbs order st).1 ⊆ Bad fg nbs st.1 := by
  intro i hi
  rw [mem_Bad] at hi ⊢
  exact ⟨hi.1, fun hc => hi.2 (hc.mono (sweepG_le order st i))⟩

/-- a full sweep strictly shrinks the set of incorrect pixels (when there is one) -/
theorem Bad_card_lt (hN1 : ∀ i j, j ∈ nbs i → FgA fg j) (hsym : ∀ i j, FgA fg i → j ∈ nbs i → i ∈ nbs j)
    (order : List Nat) (hall : ∀ i, i < fg.size → i ∈ order) (st : Array Nat × Bool) (hinv : RInv fg nbs st.1)
    (hne : (Bad fg nbs st.1).Nonempty) :
    (Bad fg nbs (sweepG fg nbs order st).1).card < (Bad fg nbs st.1).card := by
  obtain ⟨i, hi⟩ := hne
  rw [mem_Bad] at hi
  obtain ⟨m, hm, hmc⟩ := exists_correct hN1 hsym st.1 hinv i hi.1
  obtain ⟨x, y, hxy, hx, hy⟩ := boundary_pair st.1 m i hm hmc hi.2
  have hyf : FgA fg y := hN1 _ _ hxy.2
  apply Finset.card_lt_card
  refine ⟨Bad_subset order st, ?_⟩
  intro hsub
  have hyB : y ∈ Bad fg nbs st.1 := mem_Bad.mpr ⟨hyf, hy⟩
  have := mem_Bad.mp (hsub hyB)
  exact this.2 (sweepG_progress hN1 hsym order st y x (hall y hyf.lt) hyf (by rw [hinv.size]; exact hyf.lt)
    (hsym _ _ hxy.1 hxy.2) hx)

/-- **the fixpoint.** With enough fuel for one strict decrease of the incorrect set per round, `fixRepG`
    ends in a sound state in which every foreground pixel is correct. -/
theorem fixRepG_correct (hN1 : ∀ i j, j ∈ nbs i → FgA fg j) (hsym : ∀ i j, FgA fg i → j ∈ nbs i → i ∈ nbs j) :
    ∀ (fuel : Nat) (rep : Array Nat), RInv fg nbs rep → (Bad fg nbs rep).card ≤ fuel →
      RInv fg nbs (fixRepG fg nbs fg.size fuel rep) ∧
      ∀ i, FgA fg i → Correct fg nbs (fixRepG fg nbs fg.size fuel rep) i := by
  intro fuel
  induction fuel with
  | zero =>
    intro rep hinv hc
    refine ⟨hinv, ?_⟩
    intro i hi
    by_contra hcon
    have : i ∈ Bad fg nbs rep := mem_Bad.mpr ⟨hi, hcon⟩
    have h0 : Bad fg nbs rep = ∅ := Finset.card_eq_zero.mp (by omega)
    rw [h0] at this
    simp at this
  | succ f ih =>
    intro rep hinv hc
    have hall1 : ∀ i, i < fg.size → i ∈ List.range fg.size := fun i hi => List.mem_range.mpr hi
    have hall2 : ∀ i, i < fg.size → i ∈ (List.range fg.size).reverse :=
      fun i hi => List.mem_reverse.mpr (List.mem_range.mpr hi)
    have hinv1 := sweepG_inv hN1 (List.range fg.size) (rep, false) hinv
    have hinv2 := sweepG_inv hN1 (List.range fg.size).reverse
      ((sweepG fg nbs (List.range fg.size) (rep, false)).1, false) hinv1
    simp only [fixRepG]
    split
    · apply ih _ hinv2
      have hs2 := Finset.card_le_card (Bad_subset (fg := fg) (nbs := nbs) (List.range fg.size).reverse
        ((sweepG fg nbs (List.range fg.size) (rep, false)).1, false))
      by_cases hne : (Bad fg nbs rep).Nonempty
      · have := Bad_card_lt hN1 hsym (List.range fg.size) hall1 (rep, false) hinv hne
        simp only at this hs2 ⊢
        omega
      · have h0 : Bad fg nbs rep = ∅ := Finset.not_nonempty_iff_eq_empty.mp hne
        have hs1 := Finset.card_le_card (Bad_subset (fg := fg) (nbs := nbs) (List.range fg.size) (rep, false))
        simp only [h0, Finset.card_empty] at hs1
        simp only at hs1 hs2 ⊢
        omega
    · rename_i hflag
      simp only [Bool.or_eq_true, not_or, Bool.not_eq_true] at hflag
      obtain ⟨_, h2, h3⟩ := sweepG_flag (List.range fg.size).reverse _ hflag.2
      refine ⟨hinv2, ?_⟩
      intro i hi
      rw [h2]
      apply stable_correct hN1 hsym _ hinv1 _ i hi
      intro a ha j hj
      exact h3 a (hall2 a ha.lt) ha j hj

end generic

end Mahotas.C03
