/-
C03 — union–find on the label buffer: `find` (with path compression) and `join` of the model refine
"root of the class" and "merge two classes". Roots are described by the depth-indexed relation `RootN`.
-/
import Mahotas.Model.C03
import Mathlib.Tactic.Linarith
import Mathlib.Data.Fin.Pigeonhole
namespace Mahotas.C03

/-- `RootN par i r d`: following the parents stored in the buffer from `i` reaches, after exactly `d`
    steps, the self-parent `r`. All visited cells are inside the buffer. -/
inductive RootN (par : Array Int) : Nat → Nat → Nat → Prop
  | base {i : Nat} : i < par.size → par.getD i (-1) = (i : Int) → RootN par i i 0
  | step {i p r d : Nat} : i < par.size → par.getD i (-1) = (p : Int) → p ≠ i → RootN par p r d →
      RootN par i r (d + 1)

theorem getD_set (par : Array Int) (i j : Nat) (v : Int) :
    (par.setIfInBounds i v).getD j (-1) = if i = j ∧ i < par.size then v else par.getD j (-1) := by
  simp only [Array.getD_eq_getD_getElem?, Array.getElem?_setIfInBounds]
  by_cases h : i = j
  · subst h
    by_cases h2 : i < par.size
    · simp [h2]
    · simp [h2]
  · simp [h]

theorem getD_set_ne (par : Array Int) (i j : Nat) (v : Int) (h : i ≠ j) :
    (par.setIfInBounds i v).getD j (-1) = par.getD j (-1) := by
  rw [getD_set]; simp [h]

theorem getD_set_self (par : Array Int) (i : Nat) (v : Int) (h : i < par.size) :
    (par.setIfInBounds i v).getD i (-1) = v := by
  rw [getD_set]; simp [h]

theorem RootN.isRoot {par : Array Int} {i r d : Nat} (h : RootN par i r d) :
    r < par.size ∧ par.getD r (-1) = (r : Int) := by
  induction h with
  | base h1 h2 => exact ⟨h1, h2⟩
  | step _ _ _ _ ih => exact ih

theorem RootN.lt {par : Array Int} {i r d : Nat} (h : RootN par i r d) : i < par.size := by
  cases h with
  | base h1 _ => exact h1
  | step h1 _ _ _ => exact h1

/-- roots and depths are unique -/
theorem RootN.det {par : Array Int} {i r d r' d' : Nat} (h : RootN par i r d) (h' : RootN par i r' d') :
    r = r' ∧ d = d' := by
  induction h generalizing r' d' with
  | base _ hb =>
    cases h' with
    | base _ _ => exact ⟨rfl, rfl⟩
    | step _ hp hne _ =>
      rw [hb] at hp
      exact absurd (Int.ofNat.inj hp).symm hne
  | step _ hp hne _ ih =>
    cases h' with
    | base _ hb =>
      rw [hb] at hp
      exact absurd (Int.ofNat.inj hp).symm hne
    | step _ hp' _ h2 =>
      rw [hp] at hp'
      have e := Int.ofNat.inj hp'
      subst e
      obtain ⟨a, b⟩ := ih h2
      exact ⟨a, by omega⟩

/-- path compression of one cell, `data[i] = root i`: every root is kept and no path gets longer -/
theorem compress_root {par : Array Int} {i ri di : Nat} (hi : RootN par i ri di)
    {x r d : Nat} (h : RootN par x r d) :
    ∃ d', d' ≤ d ∧ RootN (par.setIfInBounds i (ri : Int)) x r d' := by
  obtain ⟨hrs, hroot⟩ := hi.isRoot
  have hsize : (par.setIfInBounds i (ri : Int)).size = par.size := by simp
  induction h with
  | @base x hx hb =>
    refine ⟨0, Nat.le_refl _, RootN.base (by rw [hsize]; exact hx) ?_⟩
    by_cases e : i = x
    · subst e
      have := (hi.det (RootN.base hx hb)).1
      subst this
      rw [getD_set_self _ _ _ hx]
    · rw [getD_set_ne _ _ _ _ e]; exact hb
  | @step x p r d hx hp hne hrest ih =>
    obtain ⟨d', hd', ih⟩ := ih
    by_cases e : i = x
    · subst e
      have hr : r = ri := ((RootN.step hx hp hne hrest).det hi).1
      subst hr
      have hri : r ≠ i := by
        intro e2
        subst e2
        rw [hroot] at hp
        exact hne (Int.ofNat.inj hp).symm
      refine ⟨1, by omega, RootN.step (by rw [hsize]; exact hx) (getD_set_self _ _ _ hx) hri ?_⟩
      exact RootN.base (by rw [hsize]; exact hrs) (by rw [getD_set_ne _ _ _ _ (Ne.symm hri)]; exact hroot)
    · exact ⟨d' + 1, by omega, RootN.step (by rw [hsize]; exact hx)
        (by rw [getD_set_ne _ _ _ _ e]; exact hp) hne ih⟩

/-- **`find` refines "root of".** With enough fuel for the path of `i`, the model's `find` returns the
    root of `i`, keeps the buffer size, keeps the root of *every* cell and lengthens no path. -/
theorem find_spec : ∀ (fuel : Nat) (par : Array Int) (i r d : Nat), RootN par i r d → d ≤ fuel →
    (find fuel par i).2 = r ∧ (find fuel par i).1.size = par.size ∧
    ∀ x rx dx, RootN par x rx dx → ∃ dx', dx' ≤ dx ∧ RootN (find fuel par i).1 x rx dx' := by
  intro fuel
  induction fuel with
  | zero =>
    intro par i r d h hd
    have : d = 0 := by omega
    subst this
    cases h with
    | base _ _ => exact ⟨rfl, rfl, fun x rx dx hx => ⟨dx, Nat.le_refl _, hx⟩⟩
  | succ fuel ih =>
    intro par i r d h hd
    cases h with
    | base hi hb =>
      have hf : find (fuel + 1) par i = (par, i) := by simp [find, hb]
      rw [hf]
      exact ⟨rfl, rfl, fun x rx dx hx => ⟨dx, Nat.le_refl _, hx⟩⟩
    | @step _ p _ d' hi hp hne hrest =>
      have hne' : ¬ ((p : Int) = (i : Int)) := fun e => hne (Int.ofNat.inj e)
      obtain ⟨h1, h2, h3⟩ := ih par p r d' hrest (by omega)
      simp only [find, hp, hne', if_false, Int.toNat_natCast]
      refine ⟨h1, by simp [h2], ?_⟩
      intro x rx dx hx
      obtain ⟨dx1, hdx1, hx1⟩ := h3 x rx dx hx
      obtain ⟨di1, _, hi1⟩ := h3 i r (d' + 1) (RootN.step hi hp hne hrest)
      rw [h1]
      obtain ⟨dx2, hdx2, hx2⟩ := compress_root hi1 hx1
      exact ⟨dx2, by omega, hx2⟩

/-- linking the root `ri` below the root `rj` (`data[ri] = rj`): cells of `ri`'s class now have root
    `rj`, every other cell keeps its root -/
theorem link_root {par : Array Int} {ri rj : Nat} (hri : ri < par.size ∧ par.getD ri (-1) = (ri : Int))
    (hrj : rj < par.size ∧ par.getD rj (-1) = (rj : Int)) {x r d : Nat} (h : RootN par x r d) :
    ∃ d', RootN (par.setIfInBounds ri (rj : Int)) x (if r = ri then rj else r) d' := by
  have hsize : (par.setIfInBounds ri (rj : Int)).size = par.size := by simp
  by_cases hne : ri = rj
  · -- linking a root to itself changes nothing
    subst hne
    have hsame : par.setIfInBounds ri (ri : Int) = par := by
      apply Array.ext_getElem?
      intro k
      rw [Array.getElem?_setIfInBounds]
      by_cases e : ri = k
      · subst e
        have h2 := hri.2
        simp only [Array.getD_eq_getD_getElem?, Array.getElem?_eq_getElem hri.1, Option.getD_some] at h2
        simp [hri.1, h2]
      · simp [e]
    rw [hsame]
    have hr : (if r = ri then ri else r) = r := by
      by_cases e : r = ri
      · simp [e]
      · simp [e]
    rw [hr]
    exact ⟨d, h⟩
  · have hrj' : RootN (par.setIfInBounds ri (rj : Int)) rj rj 0 :=
      RootN.base (by rw [hsize]; exact hrj.1) (by rw [getD_set_ne _ _ _ _ hne]; exact hrj.2)
    induction h with
    | @base i hi hb =>
      by_cases e : i = ri
      · subst e
        simp only [if_true]
        exact ⟨1, RootN.step (by rw [hsize]; exact hi) (getD_set_self _ _ _ hi) (Ne.symm hne) hrj'⟩
      · simp only [e, if_false]
        exact ⟨0, RootN.base (by rw [hsize]; exact hi) (by rw [getD_set_ne _ _ _ _ (Ne.symm e)]; exact hb)⟩
    | @step i p r d hi hp hn _ ih =>
      obtain ⟨d', ih⟩ := ih
      have e : ri ≠ i := by
        intro e; subst e
        rw [hri.2] at hp
        exact hn (Int.ofNat.inj hp).symm
      exact ⟨d' + 1, RootN.step (by rw [hsize]; exact hi) (by rw [getD_set_ne _ _ _ _ e]; exact hp) hn ih⟩

/-- **`join` refines "merge the classes of `i` and `j`".** -/
theorem join_spec (fuel : Nat) (par : Array Int) (i j ri rj di dj : Nat)
    (hi : RootN par i ri di) (hj : RootN par j rj dj) (hdi : di ≤ fuel) (hdj : dj ≤ fuel) :
    (join fuel par i j).size = par.size ∧
    ∀ x rx dx, RootN par x rx dx → ∃ dx', RootN (join fuel par i j) x (if rx = ri then rj else rx) dx' := by
  obtain ⟨a1, a2, a3⟩ := find_spec fuel par i ri di hi hdi
  obtain ⟨dj1, hdj1, hj1⟩ := a3 j rj dj hj
  obtain ⟨b1, b2, b3⟩ := find_spec fuel (find fuel par i).1 j rj dj1 hj1 (by omega)
  unfold join
  simp only [a1, b1]
  refine ⟨by simp [b2, a2], ?_⟩
  intro x rx dx hx
  obtain ⟨dx1, _, hx1⟩ := a3 x rx dx hx
  obtain ⟨dx2, _, hx2⟩ := b3 x rx dx1 hx1
  -- the two roots are still roots in the buffer after both finds
  obtain ⟨_, _, hri1⟩ := a3 ri ri 0 (RootN.base hi.isRoot.1 hi.isRoot.2)
  obtain ⟨_, _, hri2⟩ := b3 ri ri _ hri1
  obtain ⟨_, _, hrj2⟩ := b3 rj rj 0 (RootN.base hj1.isRoot.1 hj1.isRoot.2)
  exact link_root hri2.isRoot hrj2.isRoot hx2

/-! ### fuel adequacy: a path to a root never revisits a cell, so its length is below the buffer size -/

/-- the `k`-th cell on the path of `i` -/
theorem RootN.split {par : Array Int} {i r d : Nat} (h : RootN par i r d) :
    ∀ k, k ≤ d → ∃ x, x < par.size ∧ RootN par x r (d - k) := by
  induction h with
  | @base i h1 h2 =>
    intro k hk
    exact ⟨i, h1, by simpa using RootN.base h1 h2⟩
  | @step i p r d h1 h2 h3 h4 ih =>
    intro k hk
    cases k with
    | zero => exact ⟨i, h1, RootN.step h1 h2 h3 h4⟩
    | succ k =>
      obtain ⟨x, hx, hxr⟩ := ih k (by omega)
      exact ⟨x, hx, by simpa using hxr⟩

/-- **fuel adequacy.** A root path inside a buffer of `N` cells has fewer than `N` steps, so the fuel
    `N + 1` the model passes to `find` is always enough. -/
theorem RootN.depth_lt {par : Array Int} {i r d : Nat} (h : RootN par i r d) : d < par.size := by
  by_contra hge
  have hge : par.size ≤ d := by omega
  -- choose, for every k ≤ d, the k-th cell of the path
  have hsp := h.split
  choose! f hf using hsp
  -- d + 1 > size many indices map into `Fin size`: two of them collide
  let g : Fin (d + 1) → Fin par.size := fun k => ⟨f k.1, (hf k.1 (by omega)).1⟩
  have hinj : Function.Injective g := by
    intro a b hg
    have hfab : f a.1 = f b.1 := by
      have := congrArg Fin.val hg
      simpa [g] using this
    have ha := (hf a.1 (by omega)).2
    have hb := (hf b.1 (by omega)).2
    rw [hfab] at ha
    have := (ha.det hb).2
    apply Fin.ext
    have ha' := a.2
    have hb' := b.2
    omega
  have := Fin.le_of_injective g hinj
  omega

end Mahotas.C03
