/-
Helper lemmas for C04, part 3: invariants of the specification flooding (`specRun`):
labels are only ever copied from a neighbour onto an unlabelled pixel, hence markers keep their
labels, every labelled pixel is joined to a marker of its own label through equally labelled
neighbours, and a pixel no marker can reach stays 0.
-/
import Mahotas.Proofs.C04Sim

set_option linter.unusedSimpArgs false
set_option linter.unusedVariables false
namespace Mahotas.C04
open Mahotas

/-- `p` is joined to a marker carrying `p`'s own label by a path of neighbour steps inside the image
    along which the label never changes -/
inductive Joined (s : List Nat) (offs : List (List Int)) (markers : Img Int) (L : List Int → Int) :
    List Int → Prop
  | seed (p : List Int) : inside s p = true → markers.getD p 0 ≠ 0 → L p = markers.getD p 0 → Joined s offs markers L p
  | step (p o : List Int) : Joined s offs markers L p → o ∈ offs → inside s (addPos p o) = true →
      L (addPos p o) = L p → Joined s offs markers L (addPos p o)

/-- `p` can be reached from some marker by neighbour steps inside the image -/
inductive Reach (s : List Nat) (offs : List (List Int)) (markers : Img Int) : List Int → Prop
  | seed (p : List Int) : inside s p = true → markers.getD p 0 ≠ 0 → Reach s offs markers p
  | step (p o : List Int) : Reach s offs markers p → o ∈ offs → inside s (addPos p o) = true →
      Reach s offs markers (addPos p o)

variable {s : List Nat} {offs : List (List Int)} {markers : Img Int}

theorem Joined.ne_zero {L : List Int → Int} {p : List Int} (h : Joined s offs markers L p) : L p ≠ 0 := by
  induction h with
  | seed p _ hm hl => rw [hl]; exact hm
  | step p o _ _ _ hl ih => rw [hl]; exact ih

theorem Joined.reach {L : List Int → Int} {p : List Int} (h : Joined s offs markers L p) :
    Reach s offs markers p := by
  induction h with
  | seed p hi hm _ => exact Reach.seed p hi hm
  | step p o _ ho hi _ ih => exact Reach.step p o ih ho hi

theorem Joined.mono {L L' : List Int → Int} (hL : ∀ r, L r ≠ 0 → L' r = L r) {p : List Int}
    (h : Joined s offs markers L p) : Joined s offs markers L' p := by
  induction h with
  | seed p hi hm hl => exact Joined.seed p hi hm (by rw [hL p (by rw [hl]; exact hm), hl])
  | step p o hj ho hi hl ih =>
    have hp : L p ≠ 0 := hj.ne_zero
    have hq : L (addPos p o) ≠ 0 := by rw [hl]; exact hp
    exact Joined.step p o ih ho hi (by rw [hL _ hq, hL _ hp, hl])

theorem imgSet_getD (im : Img Int) (hsz : im.data.size = shapeSize im.shape) (q : List Int) (v : Int)
    (hq : inside im.shape q = true) (r : List Int) :
    (imgSet im q v).getD r 0 = if r = q then v else im.getD r 0 := by
  unfold Img.getD
  rw [imgSet_shape, imgSet_data _ _ _ hq]
  cases hr : inside im.shape r
  · have : r ≠ q := by intro h; rw [h, hq] at hr; cases hr
    simp [this]
  · simp only [if_true]
    by_cases h : r = q
    · subst h
      simp only [if_true]
      exact getD_set_eq _ _ _ _ (by rw [hsz]; exact ravelI_lt _ _ hr)
    · simp only [h, if_false]
      apply getD_set_ne
      intro he
      exact h (ravelI_inj _ _ _ hr hq he.symm)

/-- invariant of the specification flooding -/
structure SInv (s : List Nat) (offs : List (List Int)) (markers : Img Int) (ss : SSt) : Prop where
  lshape : ss.label.shape = s
  lsize : ss.label.data.size = shapeSize s
  joined : ∀ p, inside s p = true → ss.label.getD p 0 ≠ 0 →
    Joined s offs markers (fun r => ss.label.getD r 0) p
  queued : ∀ e ∈ ss.queue, inside s e.pos = true ∧ ss.label.getD e.pos 0 ≠ 0
  keep : ∀ p, inside s p = true → markers.getD p 0 ≠ 0 → ss.label.getD p 0 = markers.getD p 0

theorem visit_inv (surf : Img Int) (offs : List (List Int)) (markers : Img Int) (p : List Int)
    (ss : SSt) (o : List Int) (ho : o ∈ offs) (hp : inside surf.shape p = true)
    (hinv : SInv surf.shape offs markers ss) (hlp : ss.label.getD p 0 ≠ 0) :
    SInv surf.shape offs markers (specVisit surf p ss o) ∧ (specVisit surf p ss o).label.getD p 0 ≠ 0 := by
  unfold specVisit
  simp only
  cases hin : inside surf.shape (addPos p o)
  · simp only [Bool.not_false, if_true]; exact ⟨hinv, hlp⟩
  · simp only [Bool.not_true, Bool.false_eq_true, if_false]
    by_cases h0 : ss.label.getD (addPos p o) 0 = 0
    · simp only [h0, beq_self_eq_true, if_true]
      have hin' : inside ss.label.shape (addPos p o) = true := by rw [hinv.lshape]; exact hin
      have hget := imgSet_getD ss.label (by rw [hinv.lsize, hinv.lshape]) (addPos p o)
        (ss.label.getD p 0) hin'
      have hne : p ≠ addPos p o := by intro h; rw [← h] at h0; exact hlp h0
      have hagree : ∀ r, ss.label.getD r 0 ≠ 0 →
          (imgSet ss.label (addPos p o) (ss.label.getD p 0)).getD r 0 = ss.label.getD r 0 := by
        intro r hr
        rw [hget r]
        have : r ≠ addPos p o := by intro h; rw [h] at hr; exact hr h0
        simp [this]
      refine ⟨?_, by rw [hagree p hlp]; exact hlp⟩
      constructor
      · simp only [imgSet_shape]; exact hinv.lshape
      · simp only; rw [imgSet_data _ _ _ hin', Array.size_setIfInBounds]; exact hinv.lsize
      · intro r hr hlr
        simp only at hlr ⊢
        by_cases hrq : r = addPos p o
        · subst hrq
          have hjp : Joined surf.shape offs markers
              (fun r => (imgSet ss.label (addPos p o) (ss.label.getD p 0)).getD r 0) p :=
            (hinv.joined p hp hlp).mono hagree
          refine Joined.step p o hjp ho hin ?_
          show (imgSet ss.label (addPos p o) (ss.label.getD p 0)).getD (addPos p o) 0
            = (imgSet ss.label (addPos p o) (ss.label.getD p 0)).getD p 0
          rw [hget (addPos p o), hagree p hlp]; simp
        · have hlr' : ss.label.getD r 0 ≠ 0 := by
            rw [hget r] at hlr; simpa [hrq] using hlr
          exact (hinv.joined r hr hlr').mono hagree
      · intro e he
        simp only [List.mem_append, List.mem_singleton] at he
        simp only
        rcases he with he | rfl
        · obtain ⟨h1, h2⟩ := hinv.queued e he
          exact ⟨h1, by rw [hagree _ h2]; exact h2⟩
        · refine ⟨hin, ?_⟩
          simp only
          rw [hget (addPos p o)]; simpa using hlp
      · intro r hr hm
        simp only
        have := hinv.keep r hr hm
        rw [hagree r (by rw [this]; exact hm), this]
    · have hb : (ss.label.getD (addPos p o) 0 == 0) = false := by simpa using h0
      simp only [hb, Bool.false_eq_true, if_false]
      have hline : ∀ l', SInv surf.shape offs markers { ss with lines := l' } := fun l' =>
        { lshape := hinv.lshape, lsize := hinv.lsize, joined := hinv.joined, queued := hinv.queued,
          keep := hinv.keep }
      split_ifs
      · exact ⟨hline _, hlp⟩
      · exact ⟨hinv, hlp⟩
      · exact ⟨hinv, hlp⟩

theorem fold_inv (surf : Img Int) (offs : List (List Int)) (markers : Img Int) (p : List Int)
    (hp : inside surf.shape p = true) (os : List (List Int)) (hos : ∀ o ∈ os, o ∈ offs) :
    ∀ ss, SInv surf.shape offs markers ss → ss.label.getD p 0 ≠ 0 →
      SInv surf.shape offs markers (os.foldl (specVisit surf p) ss) := by
  induction os with
  | nil => intro ss h _; exact h
  | cons o os ih =>
    intro ss h hl
    simp only [List.foldl_cons]
    obtain ⟨h1, h2⟩ := visit_inv surf offs markers p ss o (hos o List.mem_cons_self) hp h hl
    exact ih (fun o' ho' => hos o' (List.mem_cons_of_mem _ ho')) _ h1 h2

theorem step_inv (surf : Img Int) (offs : List (List Int)) (markers : Img Int) (ss ss' : SSt)
    (hinv : SInv surf.shape offs markers ss) (hstep : specStep surf offs ss = some ss') :
    SInv surf.shape offs markers ss' := by
  unfold specStep at hstep
  cases hx : extractMin SQE.key ss.queue with
  | none => rw [hx] at hstep; cases hstep
  | some er =>
    obtain ⟨e, rest⟩ := er
    rw [hx] at hstep
    simp only [Option.some.injEq] at hstep
    obtain ⟨hmem, hrest⟩ := extractMin_some SQE.key ss.queue e rest hx
    obtain ⟨hein, hel⟩ := hinv.queued e hmem
    rw [← hstep]
    apply fold_inv surf offs markers e.pos hein offs (fun o ho => ho)
    · exact { lshape := hinv.lshape, lsize := hinv.lsize, joined := hinv.joined, keep := hinv.keep,
              queued := by
                intro e' he'
                rw [hrest] at he'
                exact hinv.queued e' (List.mem_of_mem_filter he') }
    · exact hel

theorem run_inv (surf : Img Int) (offs : List (List Int)) (markers : Img Int) (n : Nat) :
    ∀ ss, SInv surf.shape offs markers ss → SInv surf.shape offs markers (specRun surf offs n ss) := by
  induction n with
  | zero => intro ss h; exact h
  | succ n ih =>
    intro ss h
    simp only [specRun]
    cases hs : specStep surf offs ss with
    | none => exact h
    | some ss' => exact ih ss' (step_inv surf offs markers ss ss' h hs)

/-! ### the marker scan establishes the invariant -/

structure ScanInv (surf markers : Img Int) (k : Nat) (ss : SSt) : Prop where
  lshape : ss.label.shape = surf.shape
  lsize : ss.label.data.size = shapeSize surf.shape
  only : ∀ p, inside surf.shape p = true → ss.label.getD p 0 = 0 ∨ ss.label.getD p 0 = markers.getD p 0
  queued : ∀ e ∈ ss.queue, inside surf.shape e.pos = true ∧ ss.label.getD e.pos 0 ≠ 0
  done : ∀ i < k, markers.getD (unravelI surf.shape i) 0 ≠ 0 →
    ss.label.getD (unravelI surf.shape i) 0 = markers.getD (unravelI surf.shape i) 0

theorem scan_inv (surf markers : Img Int) (k : Nat) (hk : k ≤ shapeSize surf.shape) :
    ScanInv surf markers k
      ((List.range k).foldl (fun st i => stepS surf markers st (unravelI surf.shape i)) (initS surf)) := by
  induction k with
  | zero =>
    simp only [List.range_zero, List.foldl_nil]
    have hz : ∀ p, (initS surf).label.getD p 0 = 0 := by
      intro p
      unfold Img.getD initS
      simp only
      split_ifs
      · exact replicate_getD _ _ _
      · rfl
    exact { lshape := rfl, lsize := by simp [initS], only := fun p _ => Or.inl (hz p),
            queued := by intro e he; simp [initS] at he, done := by intro i hi; omega }
  | succ k ih =>
    have h := ih (Nat.le_of_succ_le hk)
    have hkN : k < shapeSize surf.shape := hk
    obtain ⟨hin, hrav⟩ := unravelI_inside surf.shape k hkN
    rw [List.range_succ, List.foldl_append]
    simp only [List.foldl_cons, List.foldl_nil]
    generalize (List.range k).foldl (fun st i => stepS surf markers st (unravelI surf.shape i)) (initS surf) = ss at h ⊢
    unfold stepS
    simp only
    by_cases h0 : markers.getD (unravelI surf.shape k) 0 = 0
    · simp only [h0, beq_self_eq_true, if_true]
      exact { lshape := h.lshape, lsize := h.lsize, only := h.only, queued := h.queued,
              done := by
                intro i hi hm
                rcases Nat.lt_succ_iff_lt_or_eq.1 hi with hi' | rfl
                · exact h.done i hi' hm
                · exact absurd h0 hm }
    · have hb : (markers.getD (unravelI surf.shape k) 0 == 0) = false := by simpa using h0
      simp only [hb, Bool.false_eq_true, if_false]
      have hin' : inside ss.label.shape (unravelI surf.shape k) = true := by rw [h.lshape]; exact hin
      have hget := imgSet_getD ss.label (by rw [h.lsize, h.lshape]) (unravelI surf.shape k)
        (markers.getD (unravelI surf.shape k) 0) hin'
      have hagree : ∀ r, ss.label.getD r 0 ≠ 0 → inside surf.shape r = true →
          (imgSet ss.label (unravelI surf.shape k) (markers.getD (unravelI surf.shape k) 0)).getD r 0
            = ss.label.getD r 0 := by
        intro r hr hri
        rw [hget r]
        by_cases hrk : r = unravelI surf.shape k
        · subst hrk
          simp only [if_true]
          rcases h.only _ hri with h1 | h1
          · exact absurd h1 hr
          · exact h1.symm
        · simp [hrk]
      constructor
      · simp only [imgSet_shape]; exact h.lshape
      · simp only; rw [imgSet_data _ _ _ hin', Array.size_setIfInBounds]; exact h.lsize
      · intro p hp
        simp only
        rw [hget p]
        by_cases hpk : p = unravelI surf.shape k
        · subst hpk; right; simp
        · simp only [hpk, if_false]; exact h.only p hp
      · intro e he
        simp only [List.mem_append, List.mem_singleton] at he
        simp only
        rcases he with he | rfl
        · obtain ⟨h1, h2⟩ := h.queued e he
          exact ⟨h1, by rw [hagree _ h2 h1]; exact h2⟩
        · refine ⟨hin, ?_⟩
          simp only
          rw [hget]; simpa using h0
      · intro i hi hm
        simp only
        rcases Nat.lt_succ_iff_lt_or_eq.1 hi with hi' | rfl
        · have := h.done i hi' hm
          have hii := (unravelI_inside surf.shape i (by omega)).1
          rw [hagree _ (by rw [this]; exact hm) hii, this]
        · rw [hget]; simp

theorem init_inv (surf markers : Img Int) (offs : List (List Int)) :
    SInv surf.shape offs markers (specInit surf markers) := by
  rw [specInit_eq]
  have h := scan_inv surf markers _ (le_refl (shapeSize surf.shape))
  generalize (List.range (shapeSize surf.shape)).foldl
    (fun st i => stepS surf markers st (unravelI surf.shape i)) (initS surf) = ss at h ⊢
  have hkeep : ∀ p, inside surf.shape p = true → markers.getD p 0 ≠ 0 →
      ss.label.getD p 0 = markers.getD p 0 := by
    intro p hp hm
    have := h.done (ravelI surf.shape p) (ravelI_lt _ _ hp)
    rw [unravelI_ravelI _ _ hp] at this
    exact this hm
  exact { lshape := h.lshape, lsize := h.lsize, queued := h.queued, keep := hkeep,
          joined := by
            intro p hp hl
            rcases h.only p hp with h1 | h1
            · exact absurd h1 hl
            · exact Joined.seed p hp (by rw [← h1]; exact hl) h1 }

/-- T4/T5: the invariant holds for the result of the specification flooding -/
theorem cwatershedSpec_inv (surf markers : Img Int) (bshape : List Nat) (bc : Array Int) :
    SInv surf.shape (offsets bshape bc) markers (cwatershedSpec surf markers bshape bc) := by
  unfold cwatershedSpec
  exact run_inv surf _ markers _ _ (init_inv surf markers _)

/-- the label image returned by the kernel model, as an image of the surface's shape -/
def modelLabels (surf markers : Img Int) (bshape : List Nat) (bc : Array Int) : Img Int :=
  ⟨surf.shape, (cwatershedModel surf markers bshape bc).res⟩

theorem modelLabels_eq (surf markers : Img Int) (bshape : List Nat) (bc : Array Int)
    (hm : markers.shape = surf.shape) (hb : bshape.length = surf.shape.length) :
    modelLabels surf markers bshape bc = (cwatershedSpec surf markers bshape bc).label := by
  have h := cwatershed_rel surf markers bshape bc hm hb
  unfold modelLabels
  rw [← h.ldata, ← h.lshape]

end Mahotas.C04
