/-
Helper lemmas for C04, part 1: flat-index arithmetic (`pos_to_flat`, `flat_to_pos`, flat deltas)
and the border margins (`margin_of`) of `Model/C04.lean`.
-/
import Mahotas.Model.C04
import Mathlib.Tactic.Ring
import Mathlib.Tactic.Linarith
import Mathlib.Tactic.SplitIfs

set_option linter.unusedSimpArgs false
set_option linter.unusedVariables false
namespace Mahotas.C04
open Mahotas

/-! ### inside / ravel / unravel -/

theorem inside_cons (d : Nat) (ds : List Nat) (p : Int) (ps : List Int) :
    inside (d :: ds) (p :: ps) = true ↔ (0 ≤ p ∧ p < (d : Int)) ∧ inside ds ps = true := by
  simp [inside, and_assoc]

theorem inside_length (s : List Nat) (p : List Int) (h : inside s p = true) : p.length = s.length := by
  induction s generalizing p with
  | nil => cases p <;> simp_all [inside]
  | cons d ds ih =>
    cases p with
    | nil => simp [inside] at h
    | cons a ps =>
      rw [inside_cons] at h
      simp [ih ps h.2]

theorem ravelI_lt (s : List Nat) (p : List Int) (h : inside s p = true) : ravelI s p < shapeSize s := by
  induction s generalizing p with
  | nil => cases p <;> simp_all [inside, ravelI, shapeSize]
  | cons d ds ih =>
    cases p with
    | nil => simp [inside] at h
    | cons a ps =>
      rw [inside_cons] at h
      obtain ⟨⟨h0, h1⟩, h2⟩ := h
      have hr := ih ps h2
      simp only [ravelI, shapeSize]
      have ha : a.toNat < d := by omega
      calc a.toNat * shapeSize ds + ravelI ds ps
          < a.toNat * shapeSize ds + shapeSize ds := by omega
        _ = (a.toNat + 1) * shapeSize ds := by ring
        _ ≤ d * shapeSize ds := Nat.mul_le_mul_right _ ha

theorem unravelI_ravelI (s : List Nat) (p : List Int) (h : inside s p = true) :
    unravelI s (ravelI s p) = p := by
  induction s generalizing p with
  | nil => cases p <;> simp_all [inside, unravelI, unravel]
  | cons d ds ih =>
    cases p with
    | nil => simp [inside] at h
    | cons a ps =>
      rw [inside_cons] at h
      obtain ⟨⟨h0, h1⟩, h2⟩ := h
      have hr := ravelI_lt ds ps h2
      have hS : 0 < shapeSize ds := by omega
      have ih' := ih ps h2
      simp only [unravelI] at ih' ⊢
      simp only [ravelI, unravel, List.map_cons]
      have e1 : (a.toNat * shapeSize ds + ravelI ds ps) / shapeSize ds = a.toNat := by
        rw [Nat.add_comm, Nat.add_mul_div_right _ _ hS, Nat.div_eq_of_lt hr, Nat.zero_add]
      have e2 : (a.toNat * shapeSize ds + ravelI ds ps) % shapeSize ds = ravelI ds ps := by
        rw [Nat.add_comm, Nat.add_mul_mod_self_right, Nat.mod_eq_of_lt hr]
      rw [e1, e2, ih']
      congr 1
      exact Int.toNat_of_nonneg h0

theorem ravelI_inj (s : List Nat) (p q : List Int) (hp : inside s p = true) (hq : inside s q = true)
    (h : ravelI s p = ravelI s q) : p = q := by
  rw [← unravelI_ravelI s p hp, ← unravelI_ravelI s q hq, h]

theorem shapeSize_pos_of_lt (s : List Nat) (i : Nat) (h : i < shapeSize s) : 0 < shapeSize s := by omega

theorem unravelI_inside (s : List Nat) (i : Nat) (h : i < shapeSize s) :
    inside s (unravelI s i) = true ∧ ravelI s (unravelI s i) = i := by
  induction s generalizing i with
  | nil => simp [unravelI, unravel, inside, ravelI, shapeSize] at h ⊢; omega
  | cons d ds ih =>
    simp only [shapeSize] at h
    have hS : 0 < shapeSize ds := by
      rcases Nat.eq_zero_or_pos (shapeSize ds) with h0 | h0
      · rw [h0] at h; simp at h
      · exact h0
    have hm := Nat.mod_lt i hS
    obtain ⟨i1, i2⟩ := ih (i % shapeSize ds) hm
    simp only [unravelI] at i1 i2 ⊢
    simp only [unravel, List.map_cons]
    have hd : i / shapeSize ds < d := by
      rw [Nat.div_lt_iff_lt_mul hS]; exact h
    refine ⟨?_, ?_⟩
    · rw [inside_cons]
      refine ⟨⟨?_, ?_⟩, i1⟩
      · exact Int.natCast_nonneg _
      · show ((i / shapeSize ds : Nat) : Int) < (d : Int)
        exact_mod_cast hd
    · simp only [ravelI, Int.toNat_natCast]
      rw [i2]
      exact Nat.div_add_mod' i (shapeSize ds)

/-! ### flat deltas (`NeighbourElem::delta`) -/

/-- T2: `next.position + delta` is the flat index of `pos + offset` whenever both are inside -/
theorem ravelI_addPos (s : List Nat) (p o : List Int) (hp : inside s p = true)
    (hq : inside s (addPos p o) = true) :
    ((ravelI s (addPos p o) : Nat) : Int) = (ravelI s p : Int) + posToFlat s o := by
  induction s generalizing p o with
  | nil =>
    cases p <;> cases o <;> simp_all [inside, ravelI, posToFlat, addPos]
  | cons d ds ih =>
    cases p with
    | nil => simp [inside] at hp
    | cons a ps =>
      cases o with
      | nil => simp [addPos, inside] at hq
      | cons b os =>
        simp only [addPos] at hq ⊢
        rw [inside_cons] at hp hq
        obtain ⟨⟨h0, h1⟩, h2⟩ := hp
        obtain ⟨⟨g0, g1⟩, g2⟩ := hq
        have := ih ps os h2 g2
        simp only [ravelI, posToFlat]
        push_cast
        rw [this, Int.toNat_of_nonneg h0, Int.toNat_of_nonneg g0]
        ring

/-- T2: a zero flat delta between two pixels of the image means the same pixel, so the entries
    skipped by `if (!delta) continue` are the centre or lead outside the image from every pixel -/
theorem zero_delta_same (s : List Nat) (p o : List Int) (hp : inside s p = true)
    (hq : inside s (addPos p o) = true) (hd : posToFlat s o = 0) : addPos p o = p := by
  have h := ravelI_addPos s p o hp hq
  rw [hd, Int.add_zero] at h
  exact ravelI_inj s _ _ hq hp (by exact_mod_cast h)

/-! ### margins -/

theorem chebStep_nonneg (o : List Int) : 0 ≤ chebStep o := by
  induction o with
  | nil => simp [chebStep]
  | cons x xs ih => simp only [chebStep]; omega

theorem idxMax_pos : (0 : Int) ≤ idxMax := by decide

/-- T1: inside the image exactly when the margin is non-negative -/
theorem inside_iff_margin (s : List Nat) (p : List Int) (hl : p.length = s.length) :
    inside s p = true ↔ 0 ≤ marginOf s p := by
  induction s generalizing p with
  | nil =>
    cases p with
    | nil => simp [inside, marginOf, idxMax_pos]
    | cons a ps => simp at hl
  | cons d ds ih =>
    cases p with
    | nil => simp at hl
    | cons a ps =>
      have hl' : ps.length = ds.length := by simpa using hl
      rw [inside_cons, ih ps hl']
      simp only [marginOf, axisMargin]
      omega

/-- T1: `margin_of` is 1-Lipschitz for the Chebyshev distance -/
theorem margin_lipschitz (s : List Nat) (p o : List Int) :
    marginOf s p - chebStep o ≤ marginOf s (addPos p o) ∨ (p.length ≠ s.length ∨ o.length ≠ s.length) := by
  induction s generalizing p o with
  | nil =>
    cases p with
    | nil =>
      cases o with
      | nil => left; simp [marginOf, addPos, chebStep]
      | cons b os => right; right; simp
    | cons a ps => right; left; simp
  | cons d ds ih =>
    cases p with
    | nil => right; left; simp
    | cons a ps =>
      cases o with
      | nil => right; right; simp
      | cons b os =>
        rcases ih ps os with h | h | h
        · left
          simp only [marginOf, axisMargin, addPos, chebStep] at h ⊢
          have := chebStep_nonneg os
          omega
        · right; left; simpa using h
        · right; right; simpa using h

theorem addPos_length (p o : List Int) (h : p.length = o.length) : (addPos p o).length = p.length := by
  induction p generalizing o with
  | nil => cases o <;> simp [addPos]
  | cons a ps ih =>
    cases o with
    | nil => simp at h
    | cons b os => simp only [addPos, List.length_cons]; rw [ih os (by simpa using h)]

theorem margin_lipschitz' (s : List Nat) (p o : List Int) (hp : p.length = s.length)
    (ho : o.length = s.length) : marginOf s p - chebStep o ≤ marginOf s (addPos p o) := by
  rcases margin_lipschitz s p o with h | h | h
  · exact h
  · exact absurd hp h
  · exact absurd ho h

theorem negPos_length (o : List Int) : (negPos o).length = o.length := by simp [negPos]

theorem chebStep_negPos (o : List Int) : chebStep (negPos o) = chebStep o := by
  induction o with
  | nil => rfl
  | cons x xs ih =>
    simp only [negPos, List.map_cons, chebStep] at ih ⊢
    rw [ih]; omega

theorem addPos_negPos (p o : List Int) (h : p.length = o.length) : addPos (addPos p o) (negPos o) = p := by
  induction p generalizing o with
  | nil => cases o <;> simp [addPos, negPos]
  | cons a ps ih =>
    cases o with
    | nil => simp at h
    | cons b os =>
      simp only [addPos, negPos, List.map_cons] at ih ⊢
      rw [ih os (by simpa using h)]
      congr 1; omega

/-- the other direction: the margin of the centre is at least the neighbour's margin minus the step -/
theorem margin_lipschitz_back (s : List Nat) (p o : List Int) (hp : p.length = s.length)
    (ho : o.length = s.length) : marginOf s (addPos p o) - chebStep o ≤ marginOf s p := by
  have hl : (addPos p o).length = s.length := by rw [addPos_length p o (by rw [hp, ho]), hp]
  have := margin_lipschitz' s (addPos p o) (negPos o) hl (by rw [negPos_length, ho])
  rw [addPos_negPos p o (by rw [hp, ho]), chebStep_negPos] at this
  exact this

/-- T1 (the bounds decision of the inner loop). If the stored margin is a lower bound of the true
    margin of the (inside) pixel `p`, then `nbCheck` says "skip" exactly when `p + off` is outside the
    image; otherwise the margin handed to the neighbour is a lower bound of the neighbour's true
    margin, and the updated margin is still a lower bound for `p` and did not decrease. -/
theorem nbCheck_sound (s : List Nat) (i : Nat) (m : Int) (o : List Int) (delta : Int)
    (hi : i < shapeSize s) (ho : o.length = s.length) (hm : m ≤ marginOf s (unravelI s i)) :
    match nbCheck s i m ⟨delta, chebStep o, o⟩ with
    | none => inside s (addPos (unravelI s i) o) = false
    | some (nm, m') => inside s (addPos (unravelI s i) o) = true ∧
        nm ≤ marginOf s (addPos (unravelI s i) o) ∧ m ≤ m' ∧ m' ≤ marginOf s (unravelI s i) := by
  have hin := (unravelI_inside s i hi).1
  have hpl := inside_length s _ hin
  have hql : (addPos (unravelI s i) o).length = s.length := by
    rw [addPos_length _ o (by rw [hpl, ho]), hpl]
  have hL := margin_lipschitz' s (unravelI s i) o hpl ho
  have hB := margin_lipschitz_back s (unravelI s i) o hpl ho
  have hiff := inside_iff_margin s (addPos (unravelI s i) o) hql
  unfold nbCheck
  simp only
  split_ifs with h1 h2 h3
  · -- recomputed, outside
    cases hc : inside s (addPos (unravelI s i) o)
    · rfl
    · have := hiff.1 hc; omega
  · exact ⟨hiff.2 (by omega), le_refl _, by omega, by omega⟩
  · exact ⟨hiff.2 (by omega), le_refl _, le_refl _, hm⟩
  · exact ⟨hiff.2 (by omega), by omega, le_refl _, hm⟩

end Mahotas.C04
