/-
Helper lemmas for C04, part 5: every line pixel lies on a boundary between two regions —
it was reached, through the neighbourhood, from a labelled pixel whose (final) label differs from its own.
-/
import Mahotas.Proofs.C04Flood

set_option linter.unusedSimpArgs false
set_option linter.unusedVariables false
namespace Mahotas.C04
open Mahotas

theorem imgSet_getD_bool (im : Img Bool) (hsz : im.data.size = shapeSize im.shape) (q : List Int) (v : Bool)
    (hq : inside im.shape q = true) (r : List Int) :
    (imgSet im q v).getD r false = if r = q then v else im.getD r false := by
  unfold Img.getD
  rw [imgSet_shape, imgSet_data _ _ _ hq]
  cases hr : inside im.shape r
  · have : r ≠ q := by intro h; rw [h, hq] at hr; cases hr
    simp [this]
  · simp only [if_true]
    by_cases h : r = q
    · subst h
      simp only [if_true]
      exact getD_set_eq _ _ _ _ (by rw [hsz]; exact ravelI_lt _ _ hr)
    · simp only [h, if_false]
      apply getD_set_ne
      intro he
      exact h (ravelI_inj _ _ _ hr hq he.symm)

/-- `r` was visited from the labelled pixel `a = r − o` carrying another label -/
def Boundary (s : List Nat) (offs : List (List Int)) (L : List Int → Int) (r : List Int) : Prop :=
  ∃ a o, o ∈ offs ∧ inside s a = true ∧ r = addPos a o ∧ L a ≠ 0 ∧ L r ≠ 0 ∧ L a ≠ L r

structure LInv (s : List Nat) (offs : List (List Int)) (ss : SSt) : Prop where
  nshape : ss.lines.shape = s
  nsize : ss.lines.data.size = shapeSize s
  line : ∀ r, inside s r = true → ss.lines.getD r false = true →
    Boundary s offs (fun x => ss.label.getD x 0) r

theorem Boundary.mono {s : List Nat} {offs : List (List Int)} {L L' : List Int → Int}
    (hL : ∀ r, L r ≠ 0 → L' r = L r) {r : List Int} (h : Boundary s offs L r) : Boundary s offs L' r := by
  obtain ⟨a, o, ho, ha, hr, h1, h2, h3⟩ := h
  exact ⟨a, o, ho, ha, hr, by rw [hL a h1]; exact h1, by rw [hL r h2]; exact h2, by rw [hL a h1, hL r h2]; exact h3⟩

theorem visit_linv (surf : Img Int) (offs : List (List Int)) (markers : Img Int) (p : List Int)
    (ss : SSt) (o : List Int) (ho : o ∈ offs) (hp : inside surf.shape p = true)
    (hinv : SInv surf.shape offs markers ss) (hl : LInv surf.shape offs ss)
    (hlp : ss.label.getD p 0 ≠ 0) : LInv surf.shape offs (specVisit surf p ss o) := by
  unfold specVisit
  simp only
  cases hin : inside surf.shape (addPos p o)
  · simp only [Bool.not_false, if_true]; exact hl
  · simp only [Bool.not_true, Bool.false_eq_true, if_false]
    by_cases h0 : ss.label.getD (addPos p o) 0 = 0
    · simp only [h0, beq_self_eq_true, if_true]
      have hin' : inside ss.label.shape (addPos p o) = true := by rw [hinv.lshape]; exact hin
      have hget := imgSet_getD ss.label (by rw [hinv.lsize, hinv.lshape]) (addPos p o)
        (ss.label.getD p 0) hin'
      have hagree : ∀ r, ss.label.getD r 0 ≠ 0 →
          (imgSet ss.label (addPos p o) (ss.label.getD p 0)).getD r 0 = ss.label.getD r 0 := by
        intro r hr
        rw [hget r]
        have : r ≠ addPos p o := by intro h; rw [h] at hr; exact hr h0
        simp [this]
      exact { nshape := hl.nshape, nsize := hl.nsize,
              line := fun r hr hrl => (hl.line r hr hrl).mono hagree }
    · have hb : (ss.label.getD (addPos p o) 0 == 0) = false := by simpa using h0
      simp only [hb, Bool.false_eq_true, if_false]
      split_ifs with hq hd
      · -- queued and visited from another label: the new line pixel
        have hin' : inside ss.lines.shape (addPos p o) = true := by rw [hl.nshape]; exact hin
        have hget := imgSet_getD_bool ss.lines (by rw [hl.nsize, hl.nshape]) (addPos p o) true hin'
        refine { nshape := by simp only [imgSet_shape]; exact hl.nshape,
                 nsize := by simp only; rw [imgSet_data _ _ _ hin', Array.size_setIfInBounds]; exact hl.nsize,
                 line := ?_ }
        intro r hr hrl
        simp only at hrl ⊢
        by_cases hrq : r = addPos p o
        · subst hrq
          exact ⟨p, o, ho, hp, rfl, hlp, h0, by simpa using hd⟩
        · rw [hget r] at hrl
          simp only [hrq, if_false] at hrl
          exact hl.line r hr hrl
      · exact hl
      · exact hl

theorem fold_linv (surf : Img Int) (offs : List (List Int)) (markers : Img Int) (p : List Int)
    (hp : inside surf.shape p = true) (os : List (List Int)) (hos : ∀ o ∈ os, o ∈ offs) :
    ∀ ss, SInv surf.shape offs markers ss → LInv surf.shape offs ss → ss.label.getD p 0 ≠ 0 →
      LInv surf.shape offs (os.foldl (specVisit surf p) ss) := by
  induction os with
  | nil => intro ss _ h _; exact h
  | cons o os ih =>
    intro ss h hl hlp
    simp only [List.foldl_cons]
    obtain ⟨h1, h2⟩ := visit_inv surf offs markers p ss o (hos o List.mem_cons_self) hp h hlp
    have h3 := visit_linv surf offs markers p ss o (hos o List.mem_cons_self) hp h hl hlp
    exact ih (fun o' ho' => hos o' (List.mem_cons_of_mem _ ho')) _ h1 h3 h2

theorem step_linv (surf : Img Int) (offs : List (List Int)) (markers : Img Int) (ss ss' : SSt)
    (hinv : SInv surf.shape offs markers ss) (hl : LInv surf.shape offs ss)
    (hstep : specStep surf offs ss = some ss') : LInv surf.shape offs ss' := by
  unfold specStep at hstep
  cases hx : extractMin SQE.key ss.queue with
  | none => rw [hx] at hstep; cases hstep
  | some er =>
    obtain ⟨e, rest⟩ := er
    rw [hx] at hstep
    simp only [Option.some.injEq] at hstep
    obtain ⟨hmem, hrest⟩ := extractMin_some SQE.key ss.queue e rest hx
    obtain ⟨hein, hel⟩ := hinv.queued e hmem
    rw [← hstep]
    apply fold_linv surf offs markers e.pos hein offs (fun o ho => ho)
    · exact { lshape := hinv.lshape, lsize := hinv.lsize, joined := hinv.joined, keep := hinv.keep,
              queued := by
                intro e' he'
                rw [hrest] at he'
                exact hinv.queued e' (List.mem_of_mem_filter he') }
    · exact { nshape := hl.nshape, nsize := hl.nsize, line := hl.line }
    · exact hel

theorem run_linv (surf : Img Int) (offs : List (List Int)) (markers : Img Int) (n : Nat) :
    ∀ ss, SInv surf.shape offs markers ss → LInv surf.shape offs ss →
      LInv surf.shape offs (specRun surf offs n ss) := by
  induction n with
  | zero => intro ss _ h; exact h
  | succ n ih =>
    intro ss h hl
    simp only [specRun]
    cases hs : specStep surf offs ss with
    | none => exact hl
    | some ss' => exact ih ss' (step_inv surf offs markers ss ss' h hs) (step_linv surf offs markers ss ss' h hl hs)

theorem stepS_lines (surf markers : Img Int) (st : SSt) (p : List Int) :
    (stepS surf markers st p).lines = st.lines := by
  unfold stepS; simp only; split_ifs <;> rfl

theorem init_lines (surf markers : Img Int) (k : Nat) :
    ((List.range k).foldl (fun st i => stepS surf markers st (unravelI surf.shape i)) (initS surf)).lines
      = (initS surf).lines := by
  induction k with
  | zero => rfl
  | succ k ih =>
    rw [List.range_succ, List.foldl_append]
    simp only [List.foldl_cons, List.foldl_nil]
    rw [stepS_lines, ih]

theorem init_linv (surf markers : Img Int) (offs : List (List Int)) :
    LInv surf.shape offs (specInit surf markers) := by
  rw [specInit_eq]
  refine { nshape := by rw [init_lines]; rfl, nsize := by rw [init_lines]; simp [initS], line := ?_ }
  intro r _ hrl
  rw [init_lines] at hrl
  exfalso
  unfold Img.getD initS at hrl
  simp only at hrl
  split_ifs at hrl
  · rw [replicate_getD] at hrl; cases hrl

theorem cwatershedSpec_linv (surf markers : Img Int) (bshape : List Nat) (bc : Array Int) :
    LInv surf.shape (offsets bshape bc) (cwatershedSpec surf markers bshape bc) := by
  unfold cwatershedSpec
  exact run_linv surf _ markers _ _ (init_inv surf markers _) (init_linv surf markers _)

end Mahotas.C04
