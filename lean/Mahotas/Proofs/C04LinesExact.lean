/-
Helper lemmas for C04, part 7: the exact characterisation of the `lines` output.

The *trace* of the kernel model is the list of neighbour visits it performs, in order: for every popped
queue entry and every neighbour that passes the bounds decision, the popped pixel, the neighbour, the
status and the two labels the kernel reads at that moment.  `lines[i]` is True in the end exactly when
some visit of the trace looked at `i` while `i` was grey (queued, not yet popped) from a popped pixel
carrying a different label — the condition of the C++ `case grey:`.  Labels of non-white pixels never
change, so the two labels read at such a visit are the final labels.
-/
import Mahotas.Proofs.C04Sim
import Mahotas.Proofs.C04Lines

set_option linter.unusedSimpArgs false
set_option linter.unusedVariables false
namespace Mahotas.C04
open Mahotas

/-- one neighbour visit of the kernel (`switch (status[npos])` reached): what the kernel reads -/
structure Ev where
  /-- the popped pixel `next.position` -/
  pos : Nat
  /-- the neighbour `npos = next.position + delta` -/
  npos : Nat
  /-- `status[npos]` at the visit (0 white, 1 grey, 2 black) -/
  status : Nat
  /-- is `npos` in the queue at the visit -/
  queued : Bool
  /-- `rdata[next.position]` at the visit -/
  lab : Int
  /-- `rdata[npos]` at the visit -/
  nlab : Int
deriving Repr, DecidableEq

/-- the visit performed by `modelVisit` (none when the bounds decision says `continue`) -/
def modelVisitEv (surf : Img Int) (next : QE) (acc : MSt × Int) (nb : Nb) : Option Ev :=
  match nbCheck surf.shape next.pos acc.2 nb with
  | none => none
  | some _ =>
    let npos := ((next.pos : Int) + nb.delta).toNat
    some ⟨next.pos, npos, acc.1.status.getD npos 0, acc.1.queue.any (fun e => e.pos == npos),
          acc.1.res.getD next.pos 0, acc.1.res.getD npos 0⟩

/-- the visits of the inner loop over the neighbour table, in order (in step with `List.foldl modelVisit`) -/
def visitsEv (surf : Img Int) (next : QE) : List Nb → MSt × Int → List Ev
  | [], _ => []
  | nb :: nbs, acc =>
    (modelVisitEv surf next acc nb).toList ++ visitsEv surf next nbs (modelVisit surf next acc nb)

/-- the visits of `modelRun`, in order (in step with `modelRun`/`modelStep`) -/
def modelTrace (surf : Img Int) (nbs : List Nb) : Nat → MSt → List Ev
  | 0, _ => []
  | n + 1, st =>
    match extractMin QE.key st.queue with
    | none => []
    | some (e, rest) =>
      let st1 : MSt := { st with queue := rest, status := st.status.setIfInBounds e.pos 2 }
      visitsEv surf e nbs (st1, e.margin) ++
        modelTrace surf nbs n (nbs.foldl (modelVisit surf e) (st1, e.margin)).1

/-- the trace of the whole call -/
def cwatershedTrace (surf markers : Img Int) (bshape : List Nat) (bc : Array Int) : List Ev :=
  modelTrace surf (neighbours surf.shape (offsets bshape bc)) (fuelOf surf.shape) (modelInit surf markers)

/-- the C++ condition under which the visit writes `lines[i] = true`:
    `status[npos] == grey && rdata[next.position] != rdata[npos]` with `npos == i` -/
def Ev.marks (ev : Ev) (i : Nat) : Prop := ev.npos = i ∧ ev.status = 1 ∧ ev.lab ≠ ev.nlab

theorem lt_size_of_getD_ne {α : Type} (a : Array α) (i : Nat) (d : α) (h : a.getD i d ≠ d) : i < a.size := by
  by_contra hn
  apply h
  simp [Array.getD_eq_getD_getElem?, hn]

/-! ### lines: one visit, the inner loop, one iteration, the run -/

/-- the buffers keep their common size -/
structure Sized (st : MSt) : Prop where
  lines : st.lines.size = st.status.size
  res : st.res.size = st.status.size

theorem visit_sized (surf : Img Int) (e : QE) (acc : MSt × Int) (nb : Nb) (hs : Sized acc.1) :
    Sized (modelVisit surf e acc nb).1 := by
  obtain ⟨st, margin⟩ := acc
  unfold modelVisit
  simp only
  cases hc : nbCheck surf.shape e.pos margin nb with
  | none => exact hs
  | some r =>
    obtain ⟨nm, m'⟩ := r
    simp only
    split_ifs
    · exact ⟨by simp only [Array.size_setIfInBounds]; exact hs.lines,
             by simp only [Array.size_setIfInBounds]; exact hs.res⟩
    · exact ⟨by simp only [Array.size_setIfInBounds]; exact hs.lines, hs.res⟩
    · exact hs
    · exact hs

theorem visit_lines (surf : Img Int) (e : QE) (acc : MSt × Int) (nb : Nb) (hs : Sized acc.1) (i : Nat) :
    (modelVisit surf e acc nb).1.lines.getD i false = true ↔
      acc.1.lines.getD i false = true ∨ ∃ ev ∈ (modelVisitEv surf e acc nb).toList, ev.marks i := by
  obtain ⟨st, margin⟩ := acc
  unfold modelVisit modelVisitEv Ev.marks
  simp only
  cases hc : nbCheck surf.shape e.pos margin nb with
  | none => simp
  | some r =>
    obtain ⟨nm, m'⟩ := r
    simp only [Option.toList_some, List.mem_singleton, exists_eq_left]
    generalize ((e.pos : Int) + nb.delta).toNat = npos
    by_cases h0 : st.status.getD npos 0 = 0
    · simp only [h0, beq_self_eq_true, if_true]
      constructor
      · intro h; exact Or.inl h
      · rintro (h | ⟨_, h, _⟩)
        · exact h
        · omega
    · have hb0 : (st.status.getD npos 0 == 0) = false := by simpa using h0
      simp only [hb0, Bool.false_eq_true, if_false]
      by_cases h1 : st.status.getD npos 0 = 1
      · have hlt : npos < st.lines.size := by
          rw [hs.lines]; exact lt_size_of_getD_ne _ _ 0 h0
        simp only [h1, beq_self_eq_true, if_true]
        by_cases hd : st.res.getD e.pos 0 = st.res.getD npos 0
        · simp only [hd, bne_self_eq_false, Bool.false_eq_true, if_false]
          constructor
          · intro h; exact Or.inl h
          · rintro (h | ⟨_, _, h⟩)
            · exact h
            · exact absurd rfl h
        · have hbd : (st.res.getD e.pos 0 != st.res.getD npos 0) = true := by simpa using hd
          simp only [hbd, if_true]
          by_cases hi : npos = i
          · subst hi
            rw [getD_set_eq _ _ _ _ hlt]
            simp only [true_iff]
            refine Or.inr ⟨?_, ?_, hd⟩ <;> trivial
          · rw [getD_set_ne _ _ _ _ _ hi]
            constructor
            · intro h; exact Or.inl h
            · rintro (h | ⟨h, _, _⟩)
              · exact h
              · exact absurd h hi
      · have hb1 : (st.status.getD npos 0 == 1) = false := by simpa using h1
        simp only [hb1, Bool.false_eq_true, if_false]
        constructor
        · intro h; exact Or.inl h
        · rintro (h | ⟨_, h, _⟩)
          · exact h
          · exact absurd h h1

theorem fold_sized (surf : Img Int) (e : QE) (nbs : List Nb) :
    ∀ acc : MSt × Int, Sized acc.1 → Sized (nbs.foldl (modelVisit surf e) acc).1 := by
  induction nbs with
  | nil => intro acc h; exact h
  | cons nb nbs ih =>
    intro acc h
    simp only [List.foldl_cons]
    exact ih _ (visit_sized surf e acc nb h)

theorem fold_lines (surf : Img Int) (e : QE) (nbs : List Nb) (i : Nat) :
    ∀ acc : MSt × Int, Sized acc.1 →
      ((nbs.foldl (modelVisit surf e) acc).1.lines.getD i false = true ↔
        acc.1.lines.getD i false = true ∨ ∃ ev ∈ visitsEv surf e nbs acc, ev.marks i) := by
  induction nbs with
  | nil => intro acc _; simp [visitsEv]
  | cons nb nbs ih =>
    intro acc h
    simp only [List.foldl_cons, visitsEv, List.mem_append]
    rw [ih _ (visit_sized surf e acc nb h), visit_lines surf e acc nb h i]
    constructor
    · rintro ((h1 | ⟨ev, h1, h2⟩) | ⟨ev, h1, h2⟩)
      · exact Or.inl h1
      · exact Or.inr ⟨ev, Or.inl h1, h2⟩
      · exact Or.inr ⟨ev, Or.inr h1, h2⟩
    · rintro (h1 | ⟨ev, h1 | h1, h2⟩)
      · exact Or.inl (Or.inl h1)
      · exact Or.inl (Or.inr ⟨ev, h1, h2⟩)
      · exact Or.inr ⟨ev, h1, h2⟩

theorem run_sized (surf : Img Int) (nbs : List Nb) (n : Nat) :
    ∀ st, Sized st → Sized (modelRun surf nbs n st) := by
  induction n with
  | zero => intro st h; exact h
  | succ n ih =>
    intro st h
    simp only [modelRun, modelStep]
    cases hx : extractMin QE.key st.queue with
    | none => exact h
    | some er =>
      obtain ⟨e, rest⟩ := er
      simp only
      apply ih
      apply fold_sized
      exact ⟨by simp only [Array.size_setIfInBounds]; exact h.lines,
             by simp only [Array.size_setIfInBounds]; exact h.res⟩

/-- the lines of the run are the lines it started with plus the pixels marked along its trace -/
theorem run_lines (surf : Img Int) (nbs : List Nb) (i : Nat) (n : Nat) :
    ∀ st, Sized st →
      ((modelRun surf nbs n st).lines.getD i false = true ↔
        st.lines.getD i false = true ∨ ∃ ev ∈ modelTrace surf nbs n st, ev.marks i) := by
  induction n with
  | zero => intro st _; simp [modelRun, modelTrace]
  | succ n ih =>
    intro st h
    simp only [modelRun, modelStep, modelTrace]
    cases hx : extractMin QE.key st.queue with
    | none => simp
    | some er =>
      obtain ⟨e, rest⟩ := er
      simp only [List.mem_append]
      have h1 : Sized { st with queue := rest, status := st.status.setIfInBounds e.pos 2 } :=
        ⟨by simp only [Array.size_setIfInBounds]; exact h.lines,
         by simp only [Array.size_setIfInBounds]; exact h.res⟩
      rw [ih _ (fold_sized surf e nbs _ h1), fold_lines surf e nbs i _ h1]
      constructor
      · rintro ((h1 | ⟨ev, h1, h2⟩) | ⟨ev, h1, h2⟩)
        · exact Or.inl h1
        · exact Or.inr ⟨ev, Or.inl h1, h2⟩
        · exact Or.inr ⟨ev, Or.inr h1, h2⟩
      · rintro (h1 | ⟨ev, h1 | h1, h2⟩)
        · exact Or.inl (Or.inl h1)
        · exact Or.inl (Or.inr ⟨ev, h1, h2⟩)
        · exact Or.inr ⟨ev, h1, h2⟩

/-! ### the marker scan leaves `lines` all False -/

theorem stepM_lines (surf markers : Img Int) (st : MSt) (i : Nat) :
    (stepM surf markers st i).lines = st.lines := by
  unfold stepM; simp only; split_ifs <;> rfl

theorem stepM_sized (surf markers : Img Int) (st : MSt) (i : Nat) (h : Sized st) :
    Sized (stepM surf markers st i) := by
  unfold stepM; simp only
  split_ifs
  · exact h
  · exact ⟨by simp only [Array.size_setIfInBounds]; exact h.lines,
           by simp only [Array.size_setIfInBounds]; exact h.res⟩

theorem initM_fold (surf markers : Img Int) (k : Nat) :
    ((List.range k).foldl (stepM surf markers) (initM surf)).lines = (initM surf).lines ∧
    Sized ((List.range k).foldl (stepM surf markers) (initM surf)) := by
  induction k with
  | zero => exact ⟨rfl, by simp [initM], by simp [initM]⟩
  | succ k ih =>
    rw [List.range_succ, List.foldl_append]
    simp only [List.foldl_cons, List.foldl_nil]
    exact ⟨by rw [stepM_lines, ih.1], stepM_sized _ _ _ _ ih.2⟩

theorem modelInit_lines (surf markers : Img Int) (i : Nat) :
    (modelInit surf markers).lines.getD i false = false := by
  rw [modelInit_eq, (initM_fold surf markers _).1]
  exact replicate_getD _ _ _

theorem modelInit_sized (surf markers : Img Int) : Sized (modelInit surf markers) := by
  rw [modelInit_eq]; exact (initM_fold surf markers _).2

/-- **lines, exactly**: a pixel is True in the kernel's lines output iff some visit of the trace
    satisfies the C++ condition at that pixel -/
theorem cwatershed_lines_exact (surf markers : Img Int) (bshape : List Nat) (bc : Array Int) (i : Nat) :
    (cwatershedModel surf markers bshape bc).lines.getD i false = true ↔
      ∃ ev ∈ cwatershedTrace surf markers bshape bc, ev.marks i := by
  unfold cwatershedModel cwatershedTrace
  rw [run_lines surf _ i _ _ (modelInit_sized surf markers), modelInit_lines]
  simp

/-! ### labels of non-white pixels never change: the labels read at a visit are the final labels -/

/-- the label of `i` can no longer be written: `i` is not white (or lies beyond the buffers) -/
def Settled (st : MSt) (i : Nat) : Prop := st.status.getD i 0 ≠ 0 ∨ st.res.size ≤ i

theorem getD_set_oob {α : Type} (a : Array α) (i j : Nat) (v d : α) (h : a.size ≤ i) :
    (a.setIfInBounds j v).getD i d = a.getD i d := by
  by_cases hij : j = i
  · subst hij
    simp [Array.getD_eq_getD_getElem?, Array.setIfInBounds, Nat.not_lt.2 h]
  · exact getD_set_ne _ _ _ _ _ hij

theorem pop_settled (st : MSt) (e : QE) (rest : List QE) (hs : Sized st) :
    Settled { st with queue := rest, status := st.status.setIfInBounds e.pos 2 } e.pos ∧
    ∀ i, Settled st i → Settled { st with queue := rest, status := st.status.setIfInBounds e.pos 2 } i := by
  constructor
  · by_cases h : e.pos < st.status.size
    · left; simp only; rw [getD_set_eq _ _ _ _ h]; omega
    · right; simp only; rw [hs.res]; omega
  · intro i hi
    rcases hi with hi | hi
    · by_cases hie : e.pos = i
      · subst hie
        left; simp only
        rw [getD_set_eq _ _ _ _ (lt_size_of_getD_ne _ _ 0 hi)]; omega
      · left; simp only; rw [getD_set_ne _ _ _ _ _ hie]; exact hi
    · right; exact hi

theorem visit_settled (surf : Img Int) (e : QE) (acc : MSt × Int) (nb : Nb) (i : Nat)
    (h : Settled acc.1 i) :
    Settled (modelVisit surf e acc nb).1 i ∧
    (modelVisit surf e acc nb).1.res.getD i 0 = acc.1.res.getD i 0 := by
  obtain ⟨st, margin⟩ := acc
  unfold modelVisit
  simp only
  cases hc : nbCheck surf.shape e.pos margin nb with
  | none => exact ⟨h, rfl⟩
  | some r =>
    obtain ⟨nm, m'⟩ := r
    simp only
    generalize ((e.pos : Int) + nb.delta).toNat = npos
    split_ifs with h0 h1 hd
    · have h0' : st.status.getD npos 0 = 0 := by simpa using h0
      rcases h with h | h
      · have hne : npos ≠ i := by intro hh; rw [hh] at h0'; exact h h0'
        refine ⟨Or.inl ?_, ?_⟩
        · simp only; rw [getD_set_ne _ _ _ _ _ hne]; exact h
        · simp only; rw [getD_set_ne _ _ _ _ _ hne]
      · refine ⟨Or.inr ?_, ?_⟩
        · simp only [Array.size_setIfInBounds]; exact h
        · simp only; exact getD_set_oob _ _ _ _ _ h
    · exact ⟨h, rfl⟩
    · exact ⟨h, rfl⟩
    · exact ⟨h, rfl⟩

theorem fold_settled (surf : Img Int) (e : QE) (nbs : List Nb) (i : Nat) :
    ∀ acc : MSt × Int, Settled acc.1 i →
      Settled (nbs.foldl (modelVisit surf e) acc).1 i ∧
      (nbs.foldl (modelVisit surf e) acc).1.res.getD i 0 = acc.1.res.getD i 0 := by
  induction nbs with
  | nil => intro acc h; exact ⟨h, rfl⟩
  | cons nb nbs ih =>
    intro acc h
    simp only [List.foldl_cons]
    obtain ⟨h1, h2⟩ := visit_settled surf e acc nb i h
    obtain ⟨h3, h4⟩ := ih _ h1
    exact ⟨h3, by rw [h4, h2]⟩

theorem run_settled (surf : Img Int) (nbs : List Nb) (i : Nat) (n : Nat) :
    ∀ st, Sized st → Settled st i →
      (modelRun surf nbs n st).res.getD i 0 = st.res.getD i 0 := by
  induction n with
  | zero => intro st _ _; rfl
  | succ n ih =>
    intro st hs h
    simp only [modelRun, modelStep]
    cases hx : extractMin QE.key st.queue with
    | none => rfl
    | some er =>
      obtain ⟨e, rest⟩ := er
      simp only
      have hs1 : Sized { st with queue := rest, status := st.status.setIfInBounds e.pos 2 } :=
        ⟨by simp only [Array.size_setIfInBounds]; exact hs.lines,
         by simp only [Array.size_setIfInBounds]; exact hs.res⟩
      obtain ⟨h3, h4⟩ := fold_settled surf e nbs i
        (({ st with queue := rest, status := st.status.setIfInBounds e.pos 2 } : MSt), e.margin)
        ((pop_settled st e rest hs).2 i h)
      rw [ih _ (fold_sized surf e nbs
        (({ st with queue := rest, status := st.status.setIfInBounds e.pos 2 } : MSt), e.margin) hs1) h3, h4]

/-- what a visit of the inner loop read is what the buffers hold when the loop is over -/
theorem visitsEv_final (surf : Img Int) (e : QE) (nbs : List Nb) :
    ∀ acc : MSt × Int, Settled acc.1 e.pos → ∀ ev ∈ visitsEv surf e nbs acc,
      ev.pos = e.pos ∧
      ev.lab = (nbs.foldl (modelVisit surf e) acc).1.res.getD ev.pos 0 ∧
      (ev.status ≠ 0 → Settled (nbs.foldl (modelVisit surf e) acc).1 ev.npos ∧
        ev.nlab = (nbs.foldl (modelVisit surf e) acc).1.res.getD ev.npos 0) := by
  induction nbs with
  | nil => intro acc _ ev hev; simp [visitsEv] at hev
  | cons nb nbs ih =>
    intro acc h ev hev
    simp only [visitsEv, List.mem_append] at hev
    simp only [List.foldl_cons]
    obtain ⟨h1, h2⟩ := visit_settled surf e acc nb e.pos h
    rcases hev with hev | hev
    · -- the visit of `nb` itself
      unfold modelVisitEv at hev
      cases hc : nbCheck surf.shape e.pos acc.2 nb with
      | none => rw [hc] at hev; simp at hev
      | some r =>
        rw [hc] at hev
        simp only [Option.toList_some, List.mem_singleton] at hev
        subst hev
        simp only
        obtain ⟨h3, h4⟩ := fold_settled surf e nbs e.pos _ h1
        refine ⟨trivial, by rw [h4, h2], ?_⟩
        intro hst
        obtain ⟨h5, h6⟩ := visit_settled surf e acc nb _ (Or.inl hst)
        obtain ⟨h7, h8⟩ := fold_settled surf e nbs _ _ h5
        exact ⟨h7, by rw [h8, h6]⟩
    · exact ih _ h1 ev hev

/-- what a visit of the run read is what the output holds -/
theorem modelTrace_final (surf : Img Int) (nbs : List Nb) (n : Nat) :
    ∀ st, Sized st → ∀ ev ∈ modelTrace surf nbs n st,
      ev.lab = (modelRun surf nbs n st).res.getD ev.pos 0 ∧
      (ev.status ≠ 0 → ev.nlab = (modelRun surf nbs n st).res.getD ev.npos 0) := by
  induction n with
  | zero => intro st _ ev hev; simp [modelTrace] at hev
  | succ n ih =>
    intro st hs ev hev
    simp only [modelTrace] at hev
    simp only [modelRun, modelStep]
    cases hx : extractMin QE.key st.queue with
    | none => rw [hx] at hev; simp at hev
    | some er =>
      obtain ⟨e, rest⟩ := er
      rw [hx] at hev
      simp only [List.mem_append] at hev
      simp only
      have hs1 : Sized { st with queue := rest, status := st.status.setIfInBounds e.pos 2 } :=
        ⟨by simp only [Array.size_setIfInBounds]; exact hs.lines,
         by simp only [Array.size_setIfInBounds]; exact hs.res⟩
      have hsF := fold_sized surf e nbs
        (({ st with queue := rest, status := st.status.setIfInBounds e.pos 2 } : MSt), e.margin) hs1
      rcases hev with hev | hev
      · obtain ⟨hp, hl, hn⟩ := visitsEv_final surf e nbs
          (({ st with queue := rest, status := st.status.setIfInBounds e.pos 2 } : MSt), e.margin)
          (pop_settled st e rest hs).1 ev hev
        have hsetP := (fold_settled surf e nbs e.pos
          (({ st with queue := rest, status := st.status.setIfInBounds e.pos 2 } : MSt), e.margin)
          (pop_settled st e rest hs).1).1
        refine ⟨?_, ?_⟩
        · rw [run_settled surf nbs ev.pos n _ hsF (by rw [hp]; exact hsetP)]; exact hl
        · intro hst
          obtain ⟨h1, h2⟩ := hn hst
          rw [run_settled surf nbs ev.npos n _ hsF h1]; exact h2
      · exact ih _ hsF ev hev

/-- **lines, exactly, in final labels**: a pixel is True in the lines output iff some visit of the trace
    looked at it while it was grey from a popped pixel whose *final* label differs from its *final* label -/
theorem cwatershed_lines_exact_final (surf markers : Img Int) (bshape : List Nat) (bc : Array Int) (i : Nat) :
    (cwatershedModel surf markers bshape bc).lines.getD i false = true ↔
      ∃ ev ∈ cwatershedTrace surf markers bshape bc, ev.npos = i ∧ ev.status = 1 ∧
        (cwatershedModel surf markers bshape bc).res.getD ev.pos 0
          ≠ (cwatershedModel surf markers bshape bc).res.getD i 0 := by
  rw [cwatershed_lines_exact]
  have hfin := modelTrace_final surf (neighbours surf.shape (offsets bshape bc)) (fuelOf surf.shape)
    (modelInit surf markers) (modelInit_sized surf markers)
  constructor
  · rintro ⟨ev, hev, h1, h2, h3⟩
    obtain ⟨ha, hb⟩ := hfin ev hev
    refine ⟨ev, hev, h1, h2, ?_⟩
    have hb' := hb (by omega)
    unfold cwatershedModel
    rw [← ha, ← h1, ← hb']; exact h3
  · rintro ⟨ev, hev, h1, h2, h3⟩
    obtain ⟨ha, hb⟩ := hfin ev hev
    refine ⟨ev, hev, h1, h2, ?_⟩
    have hb' := hb (by omega)
    unfold cwatershedModel at h3
    rw [ha, hb', h1]; exact h3

/-! ### grey = queued, and every visit goes through the neighbourhood (from the simulation relation) -/

/-- what the simulation relation says about a visit of the trace -/
structure Ev.Good (s : List Nat) (offs : List (List Int)) (ev : Ev) : Prop where
  /-- the popped pixel is a pixel of the image -/
  pos_lt : ev.pos < shapeSize s
  /-- the visited neighbour is a pixel of the image -/
  npos_lt : ev.npos < shapeSize s
  /-- … namely the popped pixel plus an offset of the neighbourhood -/
  nb : ∃ o ∈ offs, unravelI s ev.npos = addPos (unravelI s ev.pos) o
  /-- grey means: in the queue at this moment -/
  grey : ev.status = 1 ↔ ev.queued = true
  /-- white means: unlabelled at this moment -/
  white : ev.status = 0 ↔ ev.nlab = 0
  /-- the popped pixel is labelled -/
  lab : ev.lab ≠ 0

theorem visitsEv_good (surf : Img Int) (e : QE) (offs : List (List Int))
    (he : e.pos < shapeSize surf.shape) (hoffs : ∀ o ∈ offs, o.length = surf.shape.length)
    (os : List (List Int)) (hos : ∀ o ∈ os, o ∈ offs) :
    ∀ (ms : MSt) (ss : SSt) (margin : Int), Rel surf.shape ms ss →
      margin ≤ marginOf surf.shape (unravelI surf.shape e.pos) → ms.res.getD e.pos 0 ≠ 0 →
      ∀ ev ∈ visitsEv surf e (neighbours surf.shape os) (ms, margin), ev.Good surf.shape offs := by
  induction os with
  | nil => intro ms ss margin _ _ _ ev hev; simp [neighbours, visitsEv] at hev
  | cons o os ih =>
    intro ms ss margin hrel hmar hres ev hev
    have ih' := ih (fun o' ho' => hos o' (List.mem_cons_of_mem _ ho'))
    have hoin : o ∈ offs := hos o List.mem_cons_self
    simp only [neighbours, List.filterMap_cons] at hev
    by_cases hd : posToFlat surf.shape o = 0
    · have hn : nbOf surf.shape o = none := by simp [nbOf, hd]
      rw [hn] at hev
      exact ih' ms ss margin hrel hmar hres ev hev
    · have hn : nbOf surf.shape o = some ⟨posToFlat surf.shape o, chebStep o, o⟩ := by
        simp [nbOf, hd]
      rw [hn] at hev
      simp only [visitsEv, List.mem_append] at hev
      rcases hev with hev | hev
      · have hsound := nbCheck_sound surf.shape e.pos margin o (posToFlat surf.shape o) he
          (hoffs o hoin) hmar
        unfold modelVisitEv at hev
        simp only at hev
        cases hc : nbCheck surf.shape e.pos margin ⟨posToFlat surf.shape o, chebStep o, o⟩ with
        | none => rw [hc] at hev; simp at hev
        | some r =>
          obtain ⟨nm, m'⟩ := r
          rw [hc] at hev hsound
          obtain ⟨hin, _, _, _⟩ := hsound
          have hnp := npos_eq surf.shape e.pos o he hin
          have hnpN : ravelI surf.shape (addPos (unravelI surf.shape e.pos) o) < shapeSize surf.shape :=
            ravelI_lt _ _ hin
          simp only [Option.toList_some, List.mem_singleton, hnp] at hev
          subst hev
          refine ⟨he, hnpN, ⟨o, hoin, unravelI_ravelI _ _ hin⟩, ?_, hrel.white _ hnpN, hres⟩
          simp only
          rw [hrel.grey _ hnpN, List.any_eq_true]
          constructor
          · rintro ⟨m, hm, hmp⟩; exact ⟨m, hm, by simpa using hmp⟩
          · rintro ⟨m, hm, hmp⟩; exact ⟨m, hm, by simpa using hmp⟩
      · obtain ⟨h1, h2, h3⟩ := visit_rel surf e ms ss margin o he hrel hmar hres (hoffs o hoin)
        exact ih' _ _ _ h1 h2 h3 ev (by simpa only [neighbours, Prod.mk.eta] using hev)

theorem modelTrace_good (surf : Img Int) (offs : List (List Int))
    (hoffs : ∀ o ∈ offs, o.length = surf.shape.length) (n : Nat) :
    ∀ (ms : MSt) (ss : SSt), Rel surf.shape ms ss →
      ∀ ev ∈ modelTrace surf (neighbours surf.shape offs) n ms, ev.Good surf.shape offs := by
  induction n with
  | zero => intro ms ss _ ev hev; simp [modelTrace] at hev
  | succ n ih =>
    intro ms ss hrel ev hev
    simp only [modelTrace] at hev
    cases hx : extractMin QE.key ms.queue with
    | none => rw [hx] at hev; simp at hev
    | some er =>
      obtain ⟨e, rest⟩ := er
      rw [hx] at hev
      simp only [List.mem_append] at hev
      obtain ⟨hmem, hrest⟩ := extractMin_some QE.key ms.queue e rest hx
      subst hrest
      obtain ⟨hpop, hres⟩ := rel_pop surf.shape ms ss hrel e hmem
      obtain ⟨heN, hmar, _⟩ := hrel.qpos e hmem
      rcases hev with hev | hev
      · exact visitsEv_good surf e offs heN hoffs offs (fun o ho => ho) _ _ e.margin hpop hmar hres ev hev
      · exact ih _ _ (fold_rel surf e offs heN hoffs _ _ e.margin hpop hmar hres) ev hev

theorem cwatershedTrace_good (surf markers : Img Int) (bshape : List Nat) (bc : Array Int)
    (hm : markers.shape = surf.shape) (hb : bshape.length = surf.shape.length) :
    ∀ ev ∈ cwatershedTrace surf markers bshape bc, ev.Good surf.shape (offsets bshape bc) := by
  unfold cwatershedTrace
  apply modelTrace_good surf _ _ _ _ _ (init_rel surf markers hm)
  intro o ho; rw [offsets_length bshape bc o ho, hb]

/-! ### the same for the specification flooding: its own trace, over coordinates -/

/-- one neighbour visit of the specification (`p + off` inside the image): what `specVisit` reads -/
structure SEv where
  /-- the popped pixel -/
  p : List Int
  /-- the neighbour `p + off` -/
  q : List Int
  /-- is `q` in the queue at the visit -/
  queued : Bool
  /-- label of `p` at the visit -/
  lp : Int
  /-- label of `q` at the visit -/
  lq : Int
deriving Repr, DecidableEq

def specVisitEv (surf : Img Int) (p : List Int) (st : SSt) (off : List Int) : Option SEv :=
  let q := addPos p off
  if !inside surf.shape q then none else
    some ⟨p, q, st.queue.any (fun e => e.pos == q), st.label.getD p 0, st.label.getD q 0⟩

def svisitsEv (surf : Img Int) (p : List Int) : List (List Int) → SSt → List SEv
  | [], _ => []
  | o :: os, st => (specVisitEv surf p st o).toList ++ svisitsEv surf p os (specVisit surf p st o)

def specTrace (surf : Img Int) (offs : List (List Int)) : Nat → SSt → List SEv
  | 0, _ => []
  | n + 1, st =>
    match extractMin SQE.key st.queue with
    | none => []
    | some (e, rest) =>
      svisitsEv surf e.pos offs { st with queue := rest } ++
        specTrace surf offs n (offs.foldl (specVisit surf e.pos) { st with queue := rest })

def cwatershedSpecTrace (surf markers : Img Int) (bshape : List Nat) (bc : Array Int) : List SEv :=
  specTrace surf (offsets bshape bc) (fuelOf surf.shape) (specInit surf markers)

/-- the visit makes `r` a line pixel: `r` is the neighbour, labelled, queued, and carries another label -/
def SEv.marks (ev : SEv) (r : List Int) : Prop := ev.q = r ∧ ev.lq ≠ 0 ∧ ev.queued = true ∧ ev.lp ≠ ev.lq

structure LSized (s : List Nat) (st : SSt) : Prop where
  nshape : st.lines.shape = s
  nsize : st.lines.data.size = shapeSize s

theorem imgSet_size {α : Type} (im : Img α) (p : List Int) (v : α) :
    (imgSet im p v).data.size = im.data.size := by
  unfold imgSet; split_ifs
  · simp only [Array.size_setIfInBounds]
  · rfl

theorem svisit_lsized (surf : Img Int) (p : List Int) (st : SSt) (o : List Int) (h : LSized surf.shape st) :
    LSized surf.shape (specVisit surf p st o) := by
  unfold specVisit
  simp only
  split_ifs
  · exact h
  · exact ⟨h.nshape, h.nsize⟩
  · exact ⟨by simp only [imgSet_shape]; exact h.nshape, by simp only [imgSet_size]; exact h.nsize⟩
  · exact h
  · exact h

theorem svisit_lines (surf : Img Int) (p : List Int) (st : SSt) (o : List Int) (h : LSized surf.shape st)
    (r : List Int) :
    (specVisit surf p st o).lines.getD r false = true ↔
      st.lines.getD r false = true ∨ ∃ ev ∈ (specVisitEv surf p st o).toList, ev.marks r := by
  unfold specVisit specVisitEv SEv.marks
  simp only
  cases hin : inside surf.shape (addPos p o)
  · simp
  · simp only [Bool.not_true, Bool.false_eq_true, if_false, Option.toList_some, List.mem_singleton,
      exists_eq_left]
    by_cases h0 : st.label.getD (addPos p o) 0 = 0
    · simp only [h0, beq_self_eq_true, if_true]
      constructor
      · intro h; exact Or.inl h
      · rintro (h | ⟨_, h, _⟩)
        · exact h
        · exact absurd rfl h
    · have hb : (st.label.getD (addPos p o) 0 == 0) = false := by simpa using h0
      simp only [hb, Bool.false_eq_true, if_false]
      by_cases hq : (st.queue.any fun e => e.pos == addPos p o) = true
      · simp only [hq, if_true]
        by_cases hd : st.label.getD p 0 = st.label.getD (addPos p o) 0
        · simp only [hd, bne_self_eq_false, Bool.false_eq_true, if_false]
          constructor
          · intro h; exact Or.inl h
          · rintro (h | ⟨_, _, _, h⟩)
            · exact h
            · exact absurd rfl h
        · have hbd : (st.label.getD p 0 != st.label.getD (addPos p o) 0) = true := by simpa using hd
          simp only [hbd, if_true]
          have hin' : inside st.lines.shape (addPos p o) = true := by rw [h.nshape]; exact hin
          rw [imgSet_getD_bool st.lines (by rw [h.nsize, h.nshape]) (addPos p o) true hin' r]
          by_cases hr : r = addPos p o
          · simp only [hr, if_true, true_iff]
            exact Or.inr ⟨trivial, h0, trivial, hd⟩
          · simp only [hr, if_false]
            constructor
            · intro h; exact Or.inl h
            · rintro (h | ⟨h, _⟩)
              · exact h
              · exact absurd h.symm hr
      · simp only [hq, Bool.false_eq_true, if_false]
        constructor
        · intro h; exact Or.inl h
        · rintro (h | ⟨_, _, h, _⟩)
          · exact h
          · exact h.elim

theorem sfold_lsized (surf : Img Int) (p : List Int) (os : List (List Int)) :
    ∀ st, LSized surf.shape st → LSized surf.shape (os.foldl (specVisit surf p) st) := by
  induction os with
  | nil => intro st h; exact h
  | cons o os ih => intro st h; simp only [List.foldl_cons]; exact ih _ (svisit_lsized surf p st o h)

theorem sfold_lines (surf : Img Int) (p : List Int) (os : List (List Int)) (r : List Int) :
    ∀ st, LSized surf.shape st →
      ((os.foldl (specVisit surf p) st).lines.getD r false = true ↔
        st.lines.getD r false = true ∨ ∃ ev ∈ svisitsEv surf p os st, ev.marks r) := by
  induction os with
  | nil => intro st _; simp [svisitsEv]
  | cons o os ih =>
    intro st h
    simp only [List.foldl_cons, svisitsEv, List.mem_append]
    rw [ih _ (svisit_lsized surf p st o h), svisit_lines surf p st o h r]
    constructor
    · rintro ((h1 | ⟨ev, h1, h2⟩) | ⟨ev, h1, h2⟩)
      · exact Or.inl h1
      · exact Or.inr ⟨ev, Or.inl h1, h2⟩
      · exact Or.inr ⟨ev, Or.inr h1, h2⟩
    · rintro (h1 | ⟨ev, h1 | h1, h2⟩)
      · exact Or.inl (Or.inl h1)
      · exact Or.inl (Or.inr ⟨ev, h1, h2⟩)
      · exact Or.inr ⟨ev, h1, h2⟩

theorem srun_lines (surf : Img Int) (offs : List (List Int)) (r : List Int) (n : Nat) :
    ∀ st, LSized surf.shape st →
      ((specRun surf offs n st).lines.getD r false = true ↔
        st.lines.getD r false = true ∨ ∃ ev ∈ specTrace surf offs n st, ev.marks r) := by
  induction n with
  | zero => intro st _; simp [specRun, specTrace]
  | succ n ih =>
    intro st h
    simp only [specRun, specStep, specTrace]
    cases hx : extractMin SQE.key st.queue with
    | none => simp
    | some er =>
      obtain ⟨e, rest⟩ := er
      simp only [List.mem_append]
      have h1 : LSized surf.shape { st with queue := rest } := ⟨h.nshape, h.nsize⟩
      rw [ih _ (sfold_lsized surf e.pos offs _ h1), sfold_lines surf e.pos offs r _ h1]
      constructor
      · rintro ((h1 | ⟨ev, h1, h2⟩) | ⟨ev, h1, h2⟩)
        · exact Or.inl h1
        · exact Or.inr ⟨ev, Or.inl h1, h2⟩
        · exact Or.inr ⟨ev, Or.inr h1, h2⟩
      · rintro (h1 | ⟨ev, h1 | h1, h2⟩)
        · exact Or.inl (Or.inl h1)
        · exact Or.inl (Or.inr ⟨ev, h1, h2⟩)
        · exact Or.inr ⟨ev, h1, h2⟩

/-- **lines of the specification, exactly** -/
theorem cwatershedSpec_lines_exact (surf markers : Img Int) (bshape : List Nat) (bc : Array Int)
    (r : List Int) :
    (cwatershedSpec surf markers bshape bc).lines.getD r false = true ↔
      ∃ ev ∈ cwatershedSpecTrace surf markers bshape bc, ev.marks r := by
  unfold cwatershedSpec cwatershedSpecTrace
  have hl := init_linv surf markers (offsets bshape bc)
  rw [srun_lines surf _ r _ _ ⟨hl.nshape, hl.nsize⟩]
  have h0 : (specInit surf markers).lines.getD r false = false := by
    rw [specInit_eq, init_lines]
    unfold Img.getD initS
    simp only
    split_ifs
    · exact replicate_getD _ _ _
    · rfl
  rw [h0]
  simp

end Mahotas.C04
