/-
Helper lemmas for C04, part 6: the flooding depends on the surface only through the *order* of its
values.  Two surfaces of one shape whose values compare alike at every pair of pixels drive the
specification flooding (`specRun`) through states that differ only in the costs stored in the queue:
every extract-min picks the entry with the same insertion index, every visit takes the same branch.
Hence the reduction of a surface to its dense ranks (what the harness does for floating surfaces)
changes neither the labels nor the lines.
-/
import Mahotas.Proofs.C04Flood
import Mathlib.Data.Finset.Card
import Mathlib.Data.List.Basic
import Mathlib.Data.Finset.Filter
import Mathlib.Data.Finset.Dedup

set_option linter.unusedSimpArgs false
set_option linter.unusedVariables false
namespace Mahotas.C04
open Mahotas

/-! ### extract-min commutes with a map that preserves the comparison used -/

theorem minBy_map_on {α β : Type} (f : α → β) (key : α → Int × Nat) (key' : β → Int × Nat)
    (m : α) (l : List α)
    (hk : ∀ x ∈ m :: l, ∀ y ∈ m :: l, keyLt (key' (f x)) (key' (f y)) = keyLt (key x) (key y)) :
    minBy key' (f m) (l.map f) = f (minBy key m l) := by
  induction l generalizing m with
  | nil => rfl
  | cons x xs ih =>
    simp only [List.map_cons, minBy]
    rw [hk x (by simp) m (by simp)]
    split_ifs
    · exact ih x (fun a ha b hb => hk a (List.mem_cons_of_mem _ ha) b (List.mem_cons_of_mem _ hb))
    · refine ih m (fun a ha b hb => hk a ?_ b ?_)
      · rcases List.mem_cons.1 ha with h | h
        · rw [h]; simp
        · exact List.mem_cons_of_mem _ (List.mem_cons_of_mem _ h)
      · rcases List.mem_cons.1 hb with h | h
        · rw [h]; simp
        · exact List.mem_cons_of_mem _ (List.mem_cons_of_mem _ h)

/-- `extractMin` only ever *compares* keys (`keyLt`) and reads insertion indices: a map `f` under
    which every comparison between two queued entries comes out the same, and which keeps the
    insertion indices, commutes with it. -/
theorem extractMin_map_on {α β : Type} (f : α → β) (key : α → Int × Nat) (key' : β → Int × Nat)
    (l : List α)
    (hk : ∀ x ∈ l, ∀ y ∈ l, keyLt (key' (f x)) (key' (f y)) = keyLt (key x) (key y))
    (hi : ∀ x, (key' (f x)).2 = (key x).2) :
    extractMin key' (l.map f) = (extractMin key l).map (fun mr => (f mr.1, mr.2.map f)) := by
  cases l with
  | nil => rfl
  | cons x xs =>
    simp only [List.map_cons, extractMin, Option.map_some]
    rw [minBy_map_on f key key' x xs hk]
    congr 2
    rw [← List.map_cons, List.filter_map]
    congr 1
    apply List.filter_congr
    intro y _
    simp only [Function.comp, hi]

/-! ### order-equivalent surfaces -/

/-- the two surfaces have one shape and their values compare alike at every pair of pixels
    (equalities are then preserved as well, by trichotomy) -/
structure OrdEquiv (surf surf' : Img Int) : Prop where
  shape : surf'.shape = surf.shape
  lt : ∀ i j, i < shapeSize surf.shape → j < shapeSize surf.shape →
    (surf.data.getD i 0 < surf.data.getD j 0 ↔ surf'.data.getD i 0 < surf'.data.getD j 0)

theorem OrdEquiv.lt_pos {surf surf' : Img Int} (h : OrdEquiv surf surf') (p q : List Int)
    (hp : inside surf.shape p = true) (hq : inside surf.shape q = true) :
    (surf.getD p 0 < surf.getD q 0 ↔ surf'.getD p 0 < surf'.getD q 0) := by
  rw [surf_get surf p hp, surf_get surf q hq, surf_get surf' p (by rw [h.shape]; exact hp),
    surf_get surf' q (by rw [h.shape]; exact hq), h.shape]
  exact h.lt _ _ (ravelI_lt _ _ hp) (ravelI_lt _ _ hq)

/-- the queue entry for the same pixel, same insertion index, with its cost read from `surf'` -/
def recost (surf' : Img Int) (e : SQE) : SQE := ⟨surf'.getD e.pos 0, e.idx, e.pos⟩

theorem keyLt_iff (a b : Int × Nat) :
    keyLt a b = true ↔ (a.1 < b.1 ∨ a.1 = b.1 ∧ a.2 < b.2) := by
  unfold keyLt
  simp only [Bool.or_eq_true, Bool.and_eq_true, decide_eq_true_eq, beq_iff_eq]

theorem keyLt_recost {surf surf' : Img Int} (h : OrdEquiv surf surf') (a b : SQE)
    (ha : a.cost = surf.getD a.pos 0 ∧ inside surf.shape a.pos = true)
    (hb : b.cost = surf.getD b.pos 0 ∧ inside surf.shape b.pos = true) :
    keyLt (SQE.key (recost surf' a)) (SQE.key (recost surf' b)) = keyLt (SQE.key a) (SQE.key b) := by
  have h1 := h.lt_pos a.pos b.pos ha.2 hb.2
  have h2 := h.lt_pos b.pos a.pos hb.2 ha.2
  rw [Bool.eq_iff_iff, keyLt_iff, keyLt_iff]
  show (surf'.getD a.pos 0 < surf'.getD b.pos 0 ∨ surf'.getD a.pos 0 = surf'.getD b.pos 0 ∧ a.idx < b.idx)
    ↔ (a.cost < b.cost ∨ a.cost = b.cost ∧ a.idx < b.idx)
  rw [ha.1, hb.1]
  constructor <;> rintro (hlt | ⟨heq, hij⟩) <;> omega

/-- the states of the two floodings differ only in the costs stored in the queue -/
structure ORel (surf surf' : Img Int) (st st' : SSt) : Prop where
  idx : st'.idx = st.idx
  label : st'.label = st.label
  lines : st'.lines = st.lines
  queue : st'.queue = st.queue.map (recost surf')
  cost : ∀ e ∈ st.queue, e.cost = surf.getD e.pos 0 ∧ inside surf.shape e.pos = true

theorem visit_orel {surf surf' : Img Int} (hE : OrdEquiv surf surf') (p off : List Int) (st st' : SSt)
    (h : ORel surf surf' st st') :
    ORel surf surf' (specVisit surf p st off) (specVisit surf' p st' off) := by
  obtain ⟨hidx, hlab, hlin, hq, hc⟩ := h
  have hany : st'.queue.any (fun e => e.pos == addPos p off)
      = st.queue.any (fun e => e.pos == addPos p off) := by
    rw [hq, List.any_map]; rfl
  unfold specVisit
  simp only [hE.shape, hidx, hlab, hlin, hany]
  cases hin : inside surf.shape (addPos p off)
  · simp only [Bool.not_false, if_true]
    exact ⟨hidx, hlab, hlin, hq, hc⟩
  · simp only [Bool.not_true, Bool.false_eq_true, if_false]
    split_ifs
    · refine ⟨rfl, rfl, rfl, ?_, ?_⟩
      · simp only [hq, List.map_append, List.map_cons, List.map_nil, recost]
      · intro e he
        simp only [List.mem_append, List.mem_singleton] at he
        rcases he with he | rfl
        · exact hc e he
        · exact ⟨rfl, hin⟩
    · exact ⟨rfl, rfl, rfl, hq, hc⟩
    · exact ⟨hidx, hlab, hlin, hq, hc⟩
    · exact ⟨hidx, hlab, hlin, hq, hc⟩

theorem fold_orel {surf surf' : Img Int} (hE : OrdEquiv surf surf') (p : List Int) (os : List (List Int)) :
    ∀ st st', ORel surf surf' st st' →
      ORel surf surf' (os.foldl (specVisit surf p) st) (os.foldl (specVisit surf' p) st') := by
  induction os with
  | nil => intro st st' h; exact h
  | cons o os ih =>
    intro st st' h
    simp only [List.foldl_cons]
    exact ih _ _ (visit_orel hE p o st st' h)

/-- one iteration: the same entry (same insertion index, same pixel) is popped on both sides -/
theorem step_orel {surf surf' : Img Int} (hE : OrdEquiv surf surf') (offs : List (List Int)) (st st' : SSt)
    (h : ORel surf surf' st st') :
    (specStep surf offs st = none ∧ specStep surf' offs st' = none) ∨
    ∃ s1 s1', specStep surf offs st = some s1 ∧ specStep surf' offs st' = some s1' ∧
      ORel surf surf' s1 s1' := by
  unfold specStep
  rw [h.queue, extractMin_map_on (recost surf') SQE.key SQE.key st.queue
    (fun x hx y hy => keyLt_recost hE x y (h.cost x hx) (h.cost y hy)) (fun x => rfl)]
  cases hx : extractMin SQE.key st.queue with
  | none => left; exact ⟨rfl, rfl⟩
  | some er =>
    obtain ⟨e, rest⟩ := er
    right
    obtain ⟨hmem, hrest⟩ := extractMin_some SQE.key st.queue e rest hx
    refine ⟨_, _, rfl, rfl, ?_⟩
    simp only [Option.map_some]
    show ORel surf surf' _ (offs.foldl (specVisit surf' e.pos) _)
    apply fold_orel hE
    exact { idx := h.idx, label := h.label, lines := h.lines, queue := rfl,
            cost := by
              intro e' he'
              rw [hrest] at he'
              exact h.cost e' (List.mem_of_mem_filter he') }

theorem run_orel {surf surf' : Img Int} (hE : OrdEquiv surf surf') (offs : List (List Int)) (n : Nat) :
    ∀ st st', ORel surf surf' st st' →
      ORel surf surf' (specRun surf offs n st) (specRun surf' offs n st') := by
  induction n with
  | zero => intro st st' h; exact h
  | succ n ih =>
    intro st st' h
    simp only [specRun]
    rcases step_orel hE offs st st' h with ⟨h1, h2⟩ | ⟨s1, s1', h1, h2, h3⟩
    · rw [h1, h2]; exact h
    · rw [h1, h2]; exact ih s1 s1' h3

/-! ### the marker scan -/

theorem stepS_orel {surf surf' : Img Int} (markers : Img Int) (p : List Int)
    (hp : inside surf.shape p = true) (st st' : SSt) (h : ORel surf surf' st st') :
    ORel surf surf' (stepS surf markers st p) (stepS surf' markers st' p) := by
  obtain ⟨hidx, hlab, hlin, hq, hc⟩ := h
  unfold stepS
  simp only [hidx, hlab]
  split_ifs
  · exact ⟨hidx, hlab, hlin, hq, hc⟩
  · refine ⟨rfl, rfl, hlin, ?_, ?_⟩
    · simp only [hq, List.map_append, List.map_cons, List.map_nil, recost]
    · intro e he
      simp only [List.mem_append, List.mem_singleton] at he
      rcases he with he | rfl
      · exact hc e he
      · exact ⟨rfl, hp⟩

theorem init_orel {surf surf' : Img Int} (hE : OrdEquiv surf surf') (markers : Img Int) :
    ORel surf surf' (specInit surf markers) (specInit surf' markers) := by
  rw [specInit_eq, specInit_eq, hE.shape]
  have hbase : ORel surf surf' (initS surf) (initS surf') := by
    refine ⟨rfl, ?_, ?_, rfl, ?_⟩
    · simp only [initS, hE.shape]
    · simp only [initS, hE.shape]
    · intro e he; simp [initS] at he
  have : ∀ k, k ≤ shapeSize surf.shape →
      ORel surf surf'
        ((List.range k).foldl (fun st i => stepS surf markers st (unravelI surf.shape i)) (initS surf))
        ((List.range k).foldl (fun st i => stepS surf' markers st (unravelI surf.shape i)) (initS surf')) := by
    intro k
    induction k with
    | zero => intro _; exact hbase
    | succ k ih =>
      intro hk
      rw [List.range_succ, List.foldl_append, List.foldl_append]
      simp only [List.foldl_cons, List.foldl_nil]
      exact stepS_orel markers _ (unravelI_inside surf.shape k hk).1 _ _ (ih (Nat.le_of_succ_le hk))
  exact this _ (le_refl _)

/-- the two specification floodings end in states that differ only in the queued costs -/
theorem cwatershedSpec_orel {surf surf' : Img Int} (hE : OrdEquiv surf surf') (markers : Img Int)
    (bshape : List Nat) (bc : Array Int) :
    ORel surf surf' (cwatershedSpec surf markers bshape bc) (cwatershedSpec surf' markers bshape bc) := by
  unfold cwatershedSpec fuelOf
  rw [hE.shape]
  exact run_orel hE _ _ _ _ (init_orel hE markers)

/-! ### a cost map that is strictly increasing on the values that occur; dense ranks -/

/-- the surface with `phi` applied to every cost -/
def mapSurf (phi : Int → Int) (surf : Img Int) : Img Int := ⟨surf.shape, surf.data.map phi⟩

theorem mapSurf_ordEquiv (phi : Int → Int) (surf : Img Int)
    (hsz : shapeSize surf.shape ≤ surf.data.size)
    (hphi : ∀ a ∈ surf.data.toList, ∀ b ∈ surf.data.toList, a < b → phi a < phi b) :
    OrdEquiv surf (mapSurf phi surf) := by
  refine ⟨rfl, ?_⟩
  intro i j hi hj
  have hi' : i < surf.data.size := by omega
  have hj' : j < surf.data.size := by omega
  have gi : surf.data.getD i 0 = surf.data[i] := by simp [Array.getD_eq_getD_getElem?, hi']
  have gj : surf.data.getD j 0 = surf.data[j] := by simp [Array.getD_eq_getD_getElem?, hj']
  have gi' : (mapSurf phi surf).data.getD i 0 = phi surf.data[i] := by
    simp [mapSurf, Array.getD_eq_getD_getElem?, hi']
  have gj' : (mapSurf phi surf).data.getD j 0 = phi surf.data[j] := by
    simp [mapSurf, Array.getD_eq_getD_getElem?, hj']
  rw [gi, gj, gi', gj']
  have mi : surf.data[i] ∈ surf.data.toList := by simp
  have mj : surf.data[j] ∈ surf.data.toList := by simp
  constructor
  · exact hphi _ mi _ mj
  · intro hlt
    rcases lt_trichotomy surf.data[i] surf.data[j] with h | h | h
    · exact h
    · rw [h] at hlt; exact absurd hlt (lt_irrefl _)
    · have := hphi _ mj _ mi h; omega

/-- dense rank of `v` among the values of `data`: the number of distinct values below `v`
    (`numpy.unique(data, return_inverse=True)[1]` at an occurrence of `v`) -/
def denseRank (data : Array Int) (v : Int) : Int :=
  (((data.toList.toFinset).filter (fun x => x < v)).card : Int)

theorem denseRank_strictMonoOn (data : Array Int) :
    ∀ a ∈ data.toList, ∀ b ∈ data.toList, a < b → denseRank data a < denseRank data b := by
  intro a ha b _ hab
  unfold denseRank
  have : ((data.toList.toFinset).filter (fun x => x < a)).card
      < ((data.toList.toFinset).filter (fun x => x < b)).card := by
    apply Finset.card_lt_card
    rw [Finset.ssubset_iff_of_subset]
    · refine ⟨a, ?_, ?_⟩
      · simp only [Finset.mem_filter, List.mem_toFinset]; exact ⟨ha, hab⟩
      · simp only [Finset.mem_filter, List.mem_toFinset, lt_irrefl, and_false, not_false_eq_true]
    · intro x hx
      simp only [Finset.mem_filter, List.mem_toFinset] at hx ⊢
      exact ⟨hx.1, lt_trans hx.2 hab⟩
  exact_mod_cast this

end Mahotas.C04
