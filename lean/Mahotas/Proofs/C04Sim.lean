/-
Helper lemmas for C04, part 2: the transliterated kernel (`modelRun`: flat deltas, margins,
statuses) simulates the specification flooding over coordinates (`specRun`) step for step.
-/
import Mahotas.Proofs.C04Index
import Mathlib.Data.List.Nodup

set_option linter.unusedSimpArgs false
set_option linter.unusedVariables false
namespace Mahotas.C04
open Mahotas

/-! ### arrays -/

theorem getD_set_eq {α : Type} (a : Array α) (i : Nat) (v d : α) (h : i < a.size) :
    (a.setIfInBounds i v).getD i d = v := by
  simp [Array.getD_eq_getD_getElem?, h]

theorem getD_set_ne {α : Type} (a : Array α) (i j : Nat) (v d : α) (h : i ≠ j) :
    (a.setIfInBounds i v).getD j d = a.getD j d := by
  simp [Array.getD_eq_getD_getElem?, h]

/-! ### extract-min commutes with a key-preserving map -/

theorem minBy_map {α β : Type} (f : α → β) (key : α → Int × Nat) (key' : β → Int × Nat)
    (hk : ∀ x, key' (f x) = key x) (m : α) (l : List α) :
    minBy key' (f m) (l.map f) = f (minBy key m l) := by
  induction l generalizing m with
  | nil => rfl
  | cons x xs ih =>
    simp only [List.map_cons, minBy, hk]
    split_ifs
    · exact ih x
    · exact ih m

theorem minBy_mem {α : Type} (key : α → Int × Nat) (m : α) (l : List α) : minBy key m l ∈ m :: l := by
  induction l generalizing m with
  | nil => simp [minBy]
  | cons x xs ih =>
    simp only [minBy]
    split_ifs
    · have := ih x
      rcases List.mem_cons.1 this with h | h
      · rw [h]; simp
      · exact List.mem_cons_of_mem _ (List.mem_cons_of_mem _ h)
    · have := ih m
      rcases List.mem_cons.1 this with h | h
      · rw [h]; simp
      · exact List.mem_cons_of_mem _ (List.mem_cons_of_mem _ h)

theorem extractMin_map {α β : Type} (f : α → β) (key : α → Int × Nat) (key' : β → Int × Nat)
    (hk : ∀ x, key' (f x) = key x) (l : List α) :
    extractMin key' (l.map f) = (extractMin key l).map (fun mr => (f mr.1, mr.2.map f)) := by
  cases l with
  | nil => rfl
  | cons x xs =>
    simp only [List.map_cons, extractMin, Option.map_some]
    rw [minBy_map f key key' hk]
    congr 2
    rw [← List.map_cons, List.filter_map]
    congr 1
    apply List.filter_congr
    intro y _
    simp only [Function.comp, hk]

theorem extractMin_some {α : Type} (key : α → Int × Nat) (l : List α) (m : α) (r : List α)
    (h : extractMin key l = some (m, r)) :
    m ∈ l ∧ r = l.filter (fun e => (key e).2 != (key m).2) := by
  cases l with
  | nil => simp [extractMin] at h
  | cons x xs =>
    simp only [extractMin, Option.some.injEq, Prod.mk.injEq] at h
    obtain ⟨h1, h2⟩ := h
    subst h1
    exact ⟨minBy_mem key x xs, h2.symm⟩

/-! ### the simulation relation -/

def toS (s : List Nat) (m : QE) : SQE := ⟨m.cost, m.idx, unravelI s m.pos⟩

theorem toS_key (s : List Nat) (m : QE) : SQE.key (toS s m) = QE.key m := rfl

structure Rel (s : List Nat) (ms : MSt) (ss : SSt) : Prop where
  lshape : ss.label.shape = s
  ldata : ss.label.data = ms.res
  rsize : ms.res.size = shapeSize s
  nshape : ss.lines.shape = s
  ndata : ss.lines.data = ms.lines
  idx : ss.idx = ms.idx
  queue : ss.queue = ms.queue.map (toS s)
  qpos : ∀ m ∈ ms.queue, m.pos < shapeSize s ∧ m.margin ≤ marginOf s (unravelI s m.pos) ∧ m.idx < ms.idx
  qidx : (ms.queue.map QE.idx).Nodup
  qposu : (ms.queue.map QE.pos).Nodup
  ssize : ms.status.size = shapeSize s
  white : ∀ i < shapeSize s, (ms.status.getD i 0 = 0 ↔ ms.res.getD i 0 = 0)
  grey : ∀ i < shapeSize s, (ms.status.getD i 0 = 1 ↔ ∃ m ∈ ms.queue, m.pos = i)

theorem Rel.label_get {s : List Nat} {ms : MSt} {ss : SSt} (h : Rel s ms ss) (q : List Int)
    (hq : inside s q = true) : ss.label.getD q 0 = ms.res.getD (ravelI s q) 0 := by
  unfold Img.getD
  rw [h.lshape, hq, h.ldata]; rfl

theorem Rel.queued_iff {s : List Nat} {ms : MSt} {ss : SSt} (h : Rel s ms ss) (q : List Int)
    (hq : inside s q = true) :
    ss.queue.any (fun e => e.pos == q) = true ↔ ∃ m ∈ ms.queue, m.pos = ravelI s q := by
  rw [h.queue, List.any_map, List.any_eq_true]
  constructor
  · rintro ⟨m, hm, hmq⟩
    refine ⟨m, hm, ?_⟩
    have : unravelI s m.pos = q := by simpa [toS] using hmq
    rw [← this, (unravelI_inside s m.pos (h.qpos m hm).1).2]
  · rintro ⟨m, hm, hmq⟩
    refine ⟨m, hm, ?_⟩
    simp only [Function.comp, toS, beq_iff_eq]
    rw [hmq, unravelI_ravelI s q hq]

theorem imgSet_shape {α : Type} (im : Img α) (p : List Int) (v : α) : (imgSet im p v).shape = im.shape := by
  unfold imgSet; split_ifs <;> rfl

theorem imgSet_data {α : Type} (im : Img α) (p : List Int) (v : α) (h : inside im.shape p = true) :
    (imgSet im p v).data = im.data.setIfInBounds (ravelI im.shape p) v := by
  unfold imgSet; simp [h]

theorem npos_eq (s : List Nat) (i : Nat) (o : List Int) (hi : i < shapeSize s)
    (hq : inside s (addPos (unravelI s i) o) = true) :
    ((i : Int) + posToFlat s o).toNat = ravelI s (addPos (unravelI s i) o) := by
  have h := ravelI_addPos s (unravelI s i) o (unravelI_inside s i hi).1 hq
  rw [(unravelI_inside s i hi).2] at h
  rw [← h]; exact Int.toNat_natCast _

theorem surf_get (surf : Img Int) (q : List Int) (hq : inside surf.shape q = true) :
    surf.getD q 0 = surf.data.getD (ravelI surf.shape q) 0 := by
  unfold Img.getD; rw [hq]; rfl

/-- the white case: the neighbour receives the label and is queued -/
theorem rel_push (s : List Nat) (ms : MSt) (ss : SSt) (hrel : Rel s ms ss) (q : List Int)
    (hin : inside s q = true) (h0 : ms.status.getD (ravelI s q) 0 = 0) (c v nm : Int) (hv : v ≠ 0)
    (hnm : nm ≤ marginOf s q) :
    Rel s { ms with queue := ms.queue ++ [⟨c, ms.idx, ravelI s q, nm⟩], idx := ms.idx + 1,
                    res := ms.res.setIfInBounds (ravelI s q) v,
                    status := ms.status.setIfInBounds (ravelI s q) 1 }
          { ss with queue := ss.queue ++ [⟨c, ss.idx, q⟩], idx := ss.idx + 1,
                    label := imgSet ss.label q v } := by
  have hnpN : ravelI s q < shapeSize s := ravelI_lt s q hin
  have hin' : inside ss.label.shape q = true := by rw [hrel.lshape]; exact hin
  have hnq : ¬ ∃ m ∈ ms.queue, m.pos = ravelI s q := by
    intro h
    have := (hrel.grey _ hnpN).2 h
    omega
  constructor
  · simp only [imgSet_shape]; exact hrel.lshape
  · simp only; rw [imgSet_data _ _ _ hin', hrel.lshape, hrel.ldata]
  · simp only [Array.size_setIfInBounds]; exact hrel.rsize
  · exact hrel.nshape
  · exact hrel.ndata
  · simp only; rw [hrel.idx]
  · simp only [List.map_append, List.map_cons, List.map_nil]
    rw [hrel.queue, hrel.idx]
    simp only [toS, unravelI_ravelI s q hin]
  · intro m hm
    simp only [List.mem_append, List.mem_singleton] at hm
    rcases hm with hm | rfl
    · obtain ⟨a, b, c⟩ := hrel.qpos m hm
      exact ⟨a, b, Nat.lt_succ_of_lt c⟩
    · exact ⟨hnpN, by simp only [unravelI_ravelI s q hin]; exact hnm, Nat.lt_succ_self _⟩
  · simp only [List.map_append, List.map_cons, List.map_nil]
    rw [List.nodup_append]
    refine ⟨hrel.qidx, List.nodup_singleton _, ?_⟩
    intro a ha b hb
    simp only [List.mem_singleton] at hb
    rw [List.mem_map] at ha
    obtain ⟨m, hm, rfl⟩ := ha
    have := (hrel.qpos m hm).2.2
    omega
  · simp only [List.map_append, List.map_cons, List.map_nil]
    rw [List.nodup_append]
    refine ⟨hrel.qposu, List.nodup_singleton _, ?_⟩
    intro a ha b hb
    simp only [List.mem_singleton] at hb
    rw [List.mem_map] at ha
    obtain ⟨m, hm, rfl⟩ := ha
    intro heq
    exact hnq ⟨m, hm, by rw [heq, hb]⟩
  · simp only [Array.size_setIfInBounds]; exact hrel.ssize
  · intro i hi
    simp only
    by_cases hii : ravelI s q = i
    · subst hii
      rw [getD_set_eq _ _ _ _ (by rw [hrel.ssize]; exact hnpN),
        getD_set_eq _ _ _ _ (by rw [hrel.rsize]; exact hnpN)]
      constructor
      · intro h; omega
      · intro h; exact absurd h hv
    · rw [getD_set_ne _ _ _ _ _ hii, getD_set_ne _ _ _ _ _ hii]
      exact hrel.white i hi
  · intro i hi
    simp only
    by_cases hii : ravelI s q = i
    · subst hii
      rw [getD_set_eq _ _ _ _ (by rw [hrel.ssize]; exact hnpN)]
      constructor
      · intro _
        exact ⟨_, List.mem_append_right _ (List.mem_singleton.2 rfl), rfl⟩
      · intro _; rfl
    · rw [getD_set_ne _ _ _ _ _ hii, hrel.grey i hi]
      constructor
      · rintro ⟨m, hm, hmi⟩
        exact ⟨m, List.mem_append_left _ hm, hmi⟩
      · rintro ⟨m, hm, hmi⟩
        simp only [List.mem_append, List.mem_singleton] at hm
        rcases hm with hm | rfl
        · exact ⟨m, hm, hmi⟩
        · exact absurd hmi hii

/-- the grey case: only `lines` changes -/
theorem rel_line (s : List Nat) (ms : MSt) (ss : SSt) (hrel : Rel s ms ss) (q : List Int)
    (hin : inside s q = true) :
    Rel s { ms with lines := ms.lines.setIfInBounds (ravelI s q) true }
          { ss with lines := imgSet ss.lines q true } := by
  have hin' : inside ss.lines.shape q = true := by rw [hrel.nshape]; exact hin
  exact { hrel with
    nshape := by simp only [imgSet_shape]; exact hrel.nshape
    ndata := by simp only; rw [imgSet_data _ _ _ hin', hrel.nshape, hrel.ndata] }

/-- one neighbour visit of the kernel = one neighbour visit of the specification -/
theorem visit_rel (surf : Img Int) (e : QE) (ms : MSt) (ss : SSt) (margin : Int) (o : List Int)
    (he : e.pos < shapeSize surf.shape) (hrel : Rel surf.shape ms ss)
    (hmar : margin ≤ marginOf surf.shape (unravelI surf.shape e.pos))
    (hres : ms.res.getD e.pos 0 ≠ 0) (ho : o.length = surf.shape.length) :
    Rel surf.shape (modelVisit surf e (ms, margin) ⟨posToFlat surf.shape o, chebStep o, o⟩).1
        (specVisit surf (unravelI surf.shape e.pos) ss o) ∧
    (modelVisit surf e (ms, margin) ⟨posToFlat surf.shape o, chebStep o, o⟩).2
        ≤ marginOf surf.shape (unravelI surf.shape e.pos) ∧
    (modelVisit surf e (ms, margin) ⟨posToFlat surf.shape o, chebStep o, o⟩).1.res.getD e.pos 0 ≠ 0 := by
  have hsound := nbCheck_sound surf.shape e.pos margin o (posToFlat surf.shape o) he ho hmar
  unfold modelVisit
  simp only
  cases hc : nbCheck surf.shape e.pos margin ⟨posToFlat surf.shape o, chebStep o, o⟩ with
  | none =>
    rw [hc] at hsound
    simp only at hsound
    refine ⟨?_, hmar, hres⟩
    unfold specVisit
    simp only [hsound, Bool.not_false, if_true]
    exact hrel
  | some r =>
    obtain ⟨nm, m'⟩ := r
    rw [hc] at hsound
    obtain ⟨hin, hnm, hmm', hm'⟩ := hsound
    have hnp := npos_eq surf.shape e.pos o he hin
    simp only [hnp]
    have hnpN : ravelI surf.shape (addPos (unravelI surf.shape e.pos) o) < shapeSize surf.shape :=
      ravelI_lt _ _ hin
    have hp_in := (unravelI_inside surf.shape e.pos he).1
    have hlp : ss.label.getD (unravelI surf.shape e.pos) 0 = ms.res.getD e.pos 0 := by
      rw [hrel.label_get _ hp_in, (unravelI_inside surf.shape e.pos he).2]
    have hlq := hrel.label_get _ hin
    unfold specVisit
    simp only [hin, Bool.not_true, Bool.false_eq_true, if_false, hlp, hlq]
    by_cases h0 : ms.status.getD (ravelI surf.shape (addPos (unravelI surf.shape e.pos) o)) 0 = 0
    · have hr0 := (hrel.white _ hnpN).1 h0
      simp only [h0, hr0, beq_self_eq_true, if_true]
      refine ⟨?_, hm', ?_⟩
      · rw [surf_get surf _ hin]
        exact rel_push surf.shape ms ss hrel _ hin h0 _ _ nm hres hnm
      · have hne : ravelI surf.shape (addPos (unravelI surf.shape e.pos) o) ≠ e.pos := by
          intro h; rw [h] at hr0; exact hres hr0
        rw [getD_set_ne _ _ _ _ _ hne]; exact hres
    · have hr0 : ms.res.getD (ravelI surf.shape (addPos (unravelI surf.shape e.pos) o)) 0 ≠ 0 :=
        fun h => h0 ((hrel.white _ hnpN).2 h)
      have hb0 : (ms.status.getD (ravelI surf.shape (addPos (unravelI surf.shape e.pos) o)) 0 == 0) = false := by
        simpa using h0
      have hbr : (ms.res.getD (ravelI surf.shape (addPos (unravelI surf.shape e.pos) o)) 0 == 0) = false := by
        simpa using hr0
      simp only [hb0, hbr, Bool.false_eq_true, if_false]
      by_cases h1 : ms.status.getD (ravelI surf.shape (addPos (unravelI surf.shape e.pos) o)) 0 = 1
      · have hq := (hrel.queued_iff _ hin).2 ((hrel.grey _ hnpN).1 h1)
        simp only [h1, beq_self_eq_true, if_true, hq]
        by_cases hd : (ms.res.getD e.pos 0 != ms.res.getD (ravelI surf.shape (addPos (unravelI surf.shape e.pos) o)) 0) = true
        · simp only [hd, if_true]
          exact ⟨rel_line surf.shape ms ss hrel _ hin, hm', hres⟩
        · simp only [hd, if_false]
          exact ⟨hrel, hm', hres⟩
      · have hb1 : (ms.status.getD (ravelI surf.shape (addPos (unravelI surf.shape e.pos) o)) 0 == 1) = false := by
          simpa using h1
        have hq : (ss.queue.any fun e' => e'.pos == addPos (unravelI surf.shape e.pos) o) = false := by
          cases hh : (ss.queue.any fun e' => e'.pos == addPos (unravelI surf.shape e.pos) o)
          · rfl
          · exact absurd ((hrel.grey _ hnpN).2 ((hrel.queued_iff _ hin).1 hh)) h1
        simp only [hb1, hq, Bool.false_eq_true, if_false]
        exact ⟨hrel, hm', hres⟩

/-- an offset whose flat delta is zero (skipped by the kernel) changes nothing in the specification:
    it is the centre or leads outside the image -/
theorem spec_skip (surf : Img Int) (i : Nat) (ms : MSt) (ss : SSt) (o : List Int)
    (hi : i < shapeSize surf.shape) (hrel : Rel surf.shape ms ss) (hres : ms.res.getD i 0 ≠ 0)
    (hd : posToFlat surf.shape o = 0) :
    specVisit surf (unravelI surf.shape i) ss o = ss := by
  unfold specVisit
  cases hin : inside surf.shape (addPos (unravelI surf.shape i) o)
  · simp only [hin, Bool.not_false, if_true]
  · have hp_in := (unravelI_inside surf.shape i hi).1
    have hsame := zero_delta_same surf.shape _ o hp_in hin hd
    have hlp : ss.label.getD (unravelI surf.shape i) 0 = ms.res.getD i 0 := by
      rw [hrel.label_get _ hp_in, (unravelI_inside surf.shape i hi).2]
    have hb : (ms.res.getD i 0 == 0) = false := by simpa using hres
    simp only [hin, hsame, Bool.not_true, Bool.false_eq_true, if_false, hlp, hb, bne_self_eq_false]
    split_ifs <;> rfl

theorem fold_rel (surf : Img Int) (e : QE) (offs : List (List Int))
    (he : e.pos < shapeSize surf.shape) (hoffs : ∀ o ∈ offs, o.length = surf.shape.length) :
    ∀ (ms : MSt) (ss : SSt) (margin : Int), Rel surf.shape ms ss →
      margin ≤ marginOf surf.shape (unravelI surf.shape e.pos) → ms.res.getD e.pos 0 ≠ 0 →
      Rel surf.shape ((neighbours surf.shape offs).foldl (modelVisit surf e) (ms, margin)).1
        (offs.foldl (specVisit surf (unravelI surf.shape e.pos)) ss) := by
  induction offs with
  | nil => intro ms ss margin hrel _ _; exact hrel
  | cons o os ih =>
    intro ms ss margin hrel hmar hres
    have ih' := ih (fun o' ho' => hoffs o' (List.mem_cons_of_mem _ ho'))
    simp only [neighbours, List.filterMap_cons, List.foldl_cons]
    by_cases hd : posToFlat surf.shape o = 0
    · have hn : nbOf surf.shape o = none := by simp [nbOf, hd]
      rw [hn, spec_skip surf e.pos ms ss o he hrel hres hd]
      exact ih' ms ss margin hrel hmar hres
    · have hn : nbOf surf.shape o = some ⟨posToFlat surf.shape o, chebStep o, o⟩ := by
        simp [nbOf, hd]
      rw [hn]
      simp only [List.foldl_cons]
      obtain ⟨h1, h2, h3⟩ := visit_rel surf e ms ss margin o he hrel hmar hres (hoffs o List.mem_cons_self)
      have := ih' _ _ _ h1 h2 h3
      simpa only [neighbours, Prod.mk.eta] using this

/-- popping the minimum keeps the relation -/
theorem rel_pop (s : List Nat) (ms : MSt) (ss : SSt) (hrel : Rel s ms ss) (e : QE) (he : e ∈ ms.queue) :
    Rel s { ms with queue := ms.queue.filter (fun m => (QE.key m).2 != (QE.key e).2),
                    status := ms.status.setIfInBounds e.pos 2 }
          { ss with queue := (ms.queue.filter (fun m => (QE.key m).2 != (QE.key e).2)).map (toS s) } ∧
    ms.res.getD e.pos 0 ≠ 0 := by
  obtain ⟨heN, _, _⟩ := hrel.qpos e he
  have hgrey : ms.status.getD e.pos 0 = 1 := (hrel.grey _ heN).2 ⟨e, he, rfl⟩
  have hres : ms.res.getD e.pos 0 ≠ 0 := by
    intro h
    have := (hrel.white _ heN).2 h
    omega
  have hsub : (ms.queue.filter (fun m => (QE.key m).2 != (QE.key e).2)).Sublist ms.queue :=
    List.filter_sublist
  have hmem : ∀ m, m ∈ ms.queue.filter (fun m => (QE.key m).2 != (QE.key e).2) ↔ m ∈ ms.queue ∧ m.idx ≠ e.idx := by
    intro m; simp [List.mem_filter, QE.key]
  refine ⟨?_, hres⟩
  constructor
  · exact hrel.lshape
  · exact hrel.ldata
  · exact hrel.rsize
  · exact hrel.nshape
  · exact hrel.ndata
  · exact hrel.idx
  · rfl
  · intro m hm; exact hrel.qpos m ((hmem m).1 hm).1
  · exact hrel.qidx.sublist (hsub.map _)
  · exact hrel.qposu.sublist (hsub.map _)
  · simp only [Array.size_setIfInBounds]; exact hrel.ssize
  · intro i hi
    simp only
    by_cases hii : e.pos = i
    · subst hii
      rw [getD_set_eq _ _ _ _ (by rw [hrel.ssize]; exact heN)]
      constructor
      · intro h; omega
      · intro h; exact absurd h hres
    · rw [getD_set_ne _ _ _ _ _ hii]; exact hrel.white i hi
  · intro i hi
    simp only
    by_cases hii : e.pos = i
    · subst hii
      rw [getD_set_eq _ _ _ _ (by rw [hrel.ssize]; exact heN)]
      constructor
      · intro h; omega
      · rintro ⟨m, hm, hmp⟩
        obtain ⟨hmq, hne⟩ := (hmem m).1 hm
        have := List.inj_on_of_nodup_map hrel.qposu hmq he hmp
        rw [this] at hne; exact absurd rfl hne
    · rw [getD_set_ne _ _ _ _ _ hii, hrel.grey i hi]
      constructor
      · rintro ⟨m, hm, hmp⟩
        refine ⟨m, (hmem m).2 ⟨hm, ?_⟩, hmp⟩
        intro hidx
        have := List.inj_on_of_nodup_map hrel.qidx hm he hidx
        rw [this] at hmp; exact hii hmp
      · rintro ⟨m, hm, hmp⟩
        exact ⟨m, ((hmem m).1 hm).1, hmp⟩

/-- one iteration of the `while (!hqueue.empty())` loop -/
theorem step_rel (surf : Img Int) (offs : List (List Int)) (ms : MSt) (ss : SSt)
    (hoffs : ∀ o ∈ offs, o.length = surf.shape.length) (hrel : Rel surf.shape ms ss) :
    (modelStep surf (neighbours surf.shape offs) ms = none ∧ specStep surf offs ss = none) ∨
    ∃ ms' ss', modelStep surf (neighbours surf.shape offs) ms = some ms' ∧ specStep surf offs ss = some ss' ∧
      Rel surf.shape ms' ss' := by
  unfold modelStep specStep
  rw [hrel.queue, extractMin_map (toS surf.shape) QE.key SQE.key (toS_key surf.shape)]
  cases hx : extractMin QE.key ms.queue with
  | none => left; exact ⟨rfl, rfl⟩
  | some er =>
    obtain ⟨e, rest⟩ := er
    right
    obtain ⟨hmem, hrest⟩ := extractMin_some QE.key ms.queue e rest hx
    subst hrest
    obtain ⟨hpop, hres⟩ := rel_pop surf.shape ms ss hrel e hmem
    obtain ⟨heN, hmar, _⟩ := hrel.qpos e hmem
    refine ⟨_, _, rfl, rfl, ?_⟩
    simp only [Option.map_some]
    exact fold_rel surf e offs heN hoffs _ _ e.margin hpop hmar hres

theorem run_rel (surf : Img Int) (offs : List (List Int))
    (hoffs : ∀ o ∈ offs, o.length = surf.shape.length) (n : Nat) :
    ∀ (ms : MSt) (ss : SSt), Rel surf.shape ms ss →
      Rel surf.shape (modelRun surf (neighbours surf.shape offs) n ms) (specRun surf offs n ss) := by
  induction n with
  | zero => intro ms ss h; exact h
  | succ n ih =>
    intro ms ss h
    simp only [modelRun, specRun]
    rcases step_rel surf offs ms ss hoffs h with ⟨h1, h2⟩ | ⟨ms', ss', h1, h2, h3⟩
    · rw [h1, h2]; exact h
    · rw [h1, h2]; exact ih ms' ss' h3

/-! ### the marker scan -/

def initM (surf : Img Int) : MSt :=
  { queue := [], idx := 0, status := Array.replicate (shapeSize surf.shape) 0,
    res := Array.replicate (shapeSize surf.shape) 0, lines := Array.replicate (shapeSize surf.shape) false }

def initS (surf : Img Int) : SSt :=
  { queue := [], idx := 0,
    label := ⟨surf.shape, Array.replicate (shapeSize surf.shape) 0⟩,
    lines := ⟨surf.shape, Array.replicate (shapeSize surf.shape) false⟩ }

def stepM (surf markers : Img Int) (st : MSt) (i : Nat) : MSt :=
  let m := markers.data.getD i 0
  if m == 0 then st else
    let mpos := unravelI surf.shape i
    { st with queue := st.queue ++ [⟨surf.data.getD i 0, st.idx, i, marginOf surf.shape mpos⟩],
              idx := st.idx + 1,
              res := st.res.setIfInBounds i m,
              status := st.status.setIfInBounds i 1 }

def stepS (surf markers : Img Int) (st : SSt) (p : List Int) : SSt :=
  let m := markers.getD p 0
  if m == 0 then st else
    { st with queue := st.queue ++ [⟨surf.getD p 0, st.idx, p⟩], idx := st.idx + 1,
              label := imgSet st.label p m }

theorem modelInit_eq (surf markers : Img Int) :
    modelInit surf markers = (List.range (shapeSize surf.shape)).foldl (stepM surf markers) (initM surf) := rfl

theorem specInit_eq (surf markers : Img Int) :
    specInit surf markers = (List.range (shapeSize surf.shape)).foldl
      (fun st i => stepS surf markers st (unravelI surf.shape i)) (initS surf) := by
  unfold specInit allPos
  rw [List.foldl_map]
  rfl

theorem replicate_getD {α : Type} (n i : Nat) (v : α) : (Array.replicate n v).getD i v = v := by
  simp only [Array.getD_eq_getD_getElem?, Array.getElem?_replicate]
  split_ifs <;> rfl

theorem init_base (surf : Img Int) : Rel surf.shape (initM surf) (initS surf) := by
  constructor
  · rfl
  · rfl
  · simp [initM]
  · rfl
  · rfl
  · rfl
  · rfl
  · intro m hm; simp [initM] at hm
  · simp [initM]
  · simp [initM]
  · simp [initM]
  · intro i _; simp only [initM, replicate_getD]
  · intro i _
    simp only [initM, replicate_getD]
    constructor
    · intro h; omega
    · rintro ⟨m, hm, _⟩; simp at hm

theorem init_fold (surf markers : Img Int) (hm : markers.shape = surf.shape) (k : Nat)
    (hk : k ≤ shapeSize surf.shape) :
    Rel surf.shape ((List.range k).foldl (stepM surf markers) (initM surf))
      ((List.range k).foldl (fun st i => stepS surf markers st (unravelI surf.shape i)) (initS surf)) ∧
    ∀ i, k ≤ i → i < shapeSize surf.shape →
      ((List.range k).foldl (stepM surf markers) (initM surf)).status.getD i 0 = 0 := by
  induction k with
  | zero =>
    refine ⟨init_base surf, ?_⟩
    intro i _ _
    simp only [List.range_zero, List.foldl_nil, initM, replicate_getD]
  | succ k ih =>
    obtain ⟨hrel, hwhite⟩ := ih (Nat.le_of_succ_le hk)
    have hkN : k < shapeSize surf.shape := hk
    obtain ⟨hin, hrav⟩ := unravelI_inside surf.shape k hkN
    rw [List.range_succ, List.foldl_append, List.foldl_append]
    simp only [List.foldl_cons, List.foldl_nil]
    have hmk : markers.getD (unravelI surf.shape k) 0 = markers.data.getD k 0 := by
      unfold Img.getD; rw [hm, hin, hrav]; rfl
    unfold stepM stepS
    simp only [hmk]
    by_cases h0 : markers.data.getD k 0 = 0
    · simp only [h0, beq_self_eq_true, if_true]
      exact ⟨hrel, fun i hi hiN => hwhite i (Nat.le_of_succ_le hi) hiN⟩
    · have hb : (markers.data.getD k 0 == 0) = false := by simpa using h0
      simp only [hb, Bool.false_eq_true, if_false]
      have hpush := rel_push surf.shape _ _ hrel (unravelI surf.shape k) hin
        (by rw [hrav]; exact hwhite k (le_refl _) hkN) (surf.data.getD k 0) (markers.data.getD k 0)
        (marginOf surf.shape (unravelI surf.shape k)) h0 (le_refl _)
      rw [hrav] at hpush
      rw [surf_get surf _ hin, hrav]
      refine ⟨hpush, ?_⟩
      intro i hi hiN
      rw [getD_set_ne _ _ _ _ _ (by omega)]
      exact hwhite i (Nat.le_of_succ_le hi) hiN

theorem init_rel (surf markers : Img Int) (hm : markers.shape = surf.shape) :
    Rel surf.shape (modelInit surf markers) (specInit surf markers) := by
  rw [modelInit_eq, specInit_eq]
  exact (init_fold surf markers hm _ (le_refl _)).1

/-! ### offsets have the rank of the element -/

theorem unravel_length (s : List Nat) (i : Nat) : (unravel s i).length = s.length := by
  induction s generalizing i with
  | nil => rfl
  | cons d ds ih => simp [unravel, ih]

theorem subPos_length (a b : List Int) (h : a.length = b.length) : (subPos a b).length = a.length := by
  induction a generalizing b with
  | nil => cases b <;> simp [subPos]
  | cons x xs ih =>
    cases b with
    | nil => simp at h
    | cons y ys => simp only [subPos, List.length_cons]; rw [ih ys (by simpa using h)]

theorem offsets_length (bshape : List Nat) (bc : Array Int) :
    ∀ o ∈ offsets bshape bc, o.length = bshape.length := by
  intro o ho
  unfold offsets at ho
  rw [List.mem_filterMap] at ho
  obtain ⟨j, _, hj⟩ := ho
  split_ifs at hj
  simp only [Option.some.injEq] at hj
  rw [← hj, subPos_length]
  · simp [unravelI, unravel_length]
  · simp [unravelI, unravel_length, centreOf]

/-- T3: the transliterated kernel and the specification flooding stay in the simulation relation
    from the marker scan to the end -/
theorem cwatershed_rel (surf markers : Img Int) (bshape : List Nat) (bc : Array Int)
    (hm : markers.shape = surf.shape) (hb : bshape.length = surf.shape.length) :
    Rel surf.shape (cwatershedModel surf markers bshape bc) (cwatershedSpec surf markers bshape bc) := by
  unfold cwatershedModel cwatershedSpec
  apply run_rel
  · intro o ho; rw [offsets_length bshape bc o ho, hb]
  · exact init_rel surf markers hm

end Mahotas.C04
