/-
Helper lemmas for C04, part 4: the flooding is drained within `size + 1` iterations.
Potential: number of white pixels + queue length. The marker scan keeps it at `size`; every
iteration of the main loop lowers it by exactly one (a push turns one white pixel grey).
-/
import Mahotas.Proofs.C04Sim

set_option linter.unusedSimpArgs false
set_option linter.unusedVariables false
namespace Mahotas.C04
open Mahotas

def cntWhite (N : Nat) (a : Array Nat) : Nat := (List.range N).countP (fun i => a.getD i 0 == 0)

def phi (N : Nat) (ms : MSt) : Nat := cntWhite N ms.status + ms.queue.length

theorem countP_range_update (N j : Nat) (p p' : Nat → Bool) (hj : j < N) (hp : p j = true)
    (hp' : p' j = false) (hother : ∀ i, i ≠ j → p' i = p i) :
    (List.range N).countP p' + 1 = (List.range N).countP p := by
  induction N with
  | zero => omega
  | succ N ih =>
    rw [List.range_succ, List.countP_append, List.countP_append]
    by_cases hjN : j = N
    · subst hjN
      have : (List.range j).countP p' = (List.range j).countP p := by
        apply List.countP_congr
        intro i hi
        rw [List.mem_range] at hi
        rw [hother i (by omega)]
      simp [this, hp, hp']
    · have := ih (by omega)
      have hN : p' N = p N := hother N (fun h => hjN h.symm)
      simp only [List.countP_cons, List.countP_nil, hN]
      omega

theorem cntWhite_set_white (N : Nat) (a : Array Nat) (j v : Nat) (hj : j < N) (hsz : a.size = N)
    (h0 : a.getD j 0 = 0) (hv : v ≠ 0) : cntWhite N (a.setIfInBounds j v) + 1 = cntWhite N a := by
  unfold cntWhite
  apply countP_range_update N j _ _ hj
  · simp [h0]
  · rw [getD_set_eq _ _ _ _ (by rw [hsz]; exact hj)]; simpa using hv
  · intro i hi
    rw [getD_set_ne _ _ _ _ _ (fun h => hi h.symm)]

theorem cntWhite_set_other (N : Nat) (a : Array Nat) (j v : Nat)
    (h0 : a.getD j 0 ≠ 0) (hv : v ≠ 0) : cntWhite N (a.setIfInBounds j v) = cntWhite N a := by
  unfold cntWhite
  apply List.countP_congr
  intro i _
  by_cases hij : j = i
  · subst hij
    by_cases hlt : j < a.size
    · rw [getD_set_eq _ _ _ _ hlt]
      have : (a.getD j 0 == 0) = false := by simpa using h0
      rw [this]; simpa using hv
    · simp [Array.getD_eq_getD_getElem?, Array.setIfInBounds, hlt]
  · rw [getD_set_ne _ _ _ _ _ hij]

theorem filter_idx_length (l : List QE) (e : QE) (he : e ∈ l) (hn : (l.map QE.idx).Nodup) :
    (l.filter (fun m => (QE.key m).2 != (QE.key e).2)).length + 1 = l.length := by
  induction l with
  | nil => simp at he
  | cons x xs ih =>
    simp only [List.map_cons, List.nodup_cons] at hn
    obtain ⟨hx, hxs⟩ := hn
    by_cases hxe : x.idx = e.idx
    · have hall : ∀ m ∈ xs, ((QE.key m).2 != (QE.key e).2) = true := by
        intro m hm
        simp only [QE.key, bne_iff_ne, ne_eq]
        intro h
        exact hx (by rw [hxe, ← h]; exact List.mem_map_of_mem hm)
      have : ((QE.key x).2 != (QE.key e).2) = false := by simp [QE.key, hxe]
      rw [List.filter_cons, this]
      simp only [Bool.false_eq_true, if_false, List.length_cons]
      rw [List.filter_eq_self.2 hall]
    · have hne : ((QE.key x).2 != (QE.key e).2) = true := by simp [QE.key, hxe]
      rw [List.filter_cons, hne]
      simp only [if_true, List.length_cons]
      rcases List.mem_cons.1 he with h | h
      · rw [h] at hxe; exact absurd rfl hxe
      · rw [ih h hxs]

/-- a neighbour visit keeps the potential -/
theorem visit_phi (surf : Img Int) (e : QE) (ms : MSt) (ss : SSt) (margin : Int) (o : List Int)
    (he : e.pos < shapeSize surf.shape) (hrel : Rel surf.shape ms ss)
    (hmar : margin ≤ marginOf surf.shape (unravelI surf.shape e.pos))
    (ho : o.length = surf.shape.length) :
    phi (shapeSize surf.shape) (modelVisit surf e (ms, margin) ⟨posToFlat surf.shape o, chebStep o, o⟩).1
      = phi (shapeSize surf.shape) ms := by
  have hsound := nbCheck_sound surf.shape e.pos margin o (posToFlat surf.shape o) he ho hmar
  unfold modelVisit
  simp only
  cases hc : nbCheck surf.shape e.pos margin ⟨posToFlat surf.shape o, chebStep o, o⟩ with
  | none => rfl
  | some r =>
    obtain ⟨nm, m'⟩ := r
    rw [hc] at hsound
    obtain ⟨hin, _, _, _⟩ := hsound
    have hnp := npos_eq surf.shape e.pos o he hin
    simp only [hnp]
    have hnpN : ravelI surf.shape (addPos (unravelI surf.shape e.pos) o) < shapeSize surf.shape :=
      ravelI_lt _ _ hin
    by_cases h0 : ms.status.getD (ravelI surf.shape (addPos (unravelI surf.shape e.pos) o)) 0 = 0
    · simp only [h0, beq_self_eq_true, if_true]
      unfold phi
      simp only [List.length_append, List.length_singleton]
      have := cntWhite_set_white (shapeSize surf.shape) ms.status _ 1 hnpN hrel.ssize h0 (by omega)
      omega
    · have hb0 : (ms.status.getD (ravelI surf.shape (addPos (unravelI surf.shape e.pos) o)) 0 == 0) = false := by
        simpa using h0
      simp only [hb0, Bool.false_eq_true, if_false]
      split_ifs <;> rfl

theorem fold_phi (surf : Img Int) (e : QE) (offs : List (List Int))
    (he : e.pos < shapeSize surf.shape) (hoffs : ∀ o ∈ offs, o.length = surf.shape.length) :
    ∀ (ms : MSt) (ss : SSt) (margin : Int), Rel surf.shape ms ss →
      margin ≤ marginOf surf.shape (unravelI surf.shape e.pos) → ms.res.getD e.pos 0 ≠ 0 →
      phi (shapeSize surf.shape) ((neighbours surf.shape offs).foldl (modelVisit surf e) (ms, margin)).1
        = phi (shapeSize surf.shape) ms := by
  induction offs with
  | nil => intro ms ss margin _ _ _; rfl
  | cons o os ih =>
    intro ms ss margin hrel hmar hres
    have ih' := ih (fun o' ho' => hoffs o' (List.mem_cons_of_mem _ ho'))
    simp only [neighbours, List.filterMap_cons]
    by_cases hd : posToFlat surf.shape o = 0
    · have hn : nbOf surf.shape o = none := by simp [nbOf, hd]
      rw [hn]
      exact ih' ms ss margin hrel hmar hres
    · have hn : nbOf surf.shape o = some ⟨posToFlat surf.shape o, chebStep o, o⟩ := by
        simp [nbOf, hd]
      rw [hn]
      simp only [List.foldl_cons]
      obtain ⟨h1, h2, h3⟩ := visit_rel surf e ms ss margin o he hrel hmar hres (hoffs o List.mem_cons_self)
      have hphi := visit_phi surf e ms ss margin o he hrel hmar (hoffs o List.mem_cons_self)
      have := ih' _ _ _ h1 h2 h3
      rw [← hphi]
      simpa only [neighbours, Prod.mk.eta] using this

/-- one iteration lowers the potential by exactly one -/
theorem step_phi (surf : Img Int) (offs : List (List Int)) (ms ms' : MSt) (ss : SSt)
    (hoffs : ∀ o ∈ offs, o.length = surf.shape.length) (hrel : Rel surf.shape ms ss)
    (hstep : modelStep surf (neighbours surf.shape offs) ms = some ms') :
    phi (shapeSize surf.shape) ms' + 1 = phi (shapeSize surf.shape) ms := by
  unfold modelStep at hstep
  cases hx : extractMin QE.key ms.queue with
  | none => rw [hx] at hstep; cases hstep
  | some er =>
    obtain ⟨e, rest⟩ := er
    rw [hx] at hstep
    simp only [Option.some.injEq] at hstep
    obtain ⟨hmem, hrest⟩ := extractMin_some QE.key ms.queue e rest hx
    subst hrest
    obtain ⟨hpop, hres⟩ := rel_pop surf.shape ms ss hrel e hmem
    obtain ⟨heN, hmar, _⟩ := hrel.qpos e hmem
    rw [← hstep, fold_phi surf e offs heN hoffs _ _ e.margin hpop hmar hres]
    unfold phi
    simp only
    have hgrey : ms.status.getD e.pos 0 = 1 := (hrel.grey _ heN).2 ⟨e, hmem, rfl⟩
    rw [cntWhite_set_other _ _ _ _ (by omega) (by omega)]
    have := filter_idx_length ms.queue e hmem hrel.qidx
    omega

theorem modelStep_none (surf : Img Int) (nbs : List Nb) (ms : MSt) (h : modelStep surf nbs ms = none) :
    ms.queue = [] := by
  unfold modelStep at h
  cases hq : ms.queue with
  | nil => rfl
  | cons x xs => rw [hq] at h; simp [extractMin] at h

theorem run_drained (surf : Img Int) (offs : List (List Int))
    (hoffs : ∀ o ∈ offs, o.length = surf.shape.length) (n : Nat) :
    ∀ (ms : MSt) (ss : SSt), Rel surf.shape ms ss → phi (shapeSize surf.shape) ms < n →
      (modelRun surf (neighbours surf.shape offs) n ms).queue = [] := by
  induction n with
  | zero => intro ms ss _ h; omega
  | succ n ih =>
    intro ms ss hrel hphi
    simp only [modelRun]
    cases hs : modelStep surf (neighbours surf.shape offs) ms with
    | none => exact modelStep_none surf _ ms hs
    | some ms' =>
      simp only
      rcases step_rel surf offs ms ss hoffs hrel with ⟨h1, _⟩ | ⟨ms2, ss2, h1, _, h3⟩
      · rw [h1] at hs; cases hs
      · rw [hs] at h1
        simp only [Option.some.injEq] at h1
        subst h1
        have := step_phi surf offs ms ms' ss hoffs hrel hs
        exact ih ms' ss2 h3 (by omega)

/-- the marker scan keeps the potential at `size` -/
theorem init_phi (surf markers : Img Int) (hm : markers.shape = surf.shape) (k : Nat)
    (hk : k ≤ shapeSize surf.shape) :
    phi (shapeSize surf.shape) ((List.range k).foldl (stepM surf markers) (initM surf)) = shapeSize surf.shape := by
  induction k with
  | zero =>
    simp only [List.range_zero, List.foldl_nil, phi, initM, List.length_nil, Nat.add_zero, cntWhite]
    rw [List.countP_eq_length.2]
    · simp
    · intro i _; simp only [replicate_getD, beq_self_eq_true]
  | succ k ih =>
    have hkN : k < shapeSize surf.shape := hk
    obtain ⟨hrel, hwhite⟩ := init_fold surf markers hm k (Nat.le_of_succ_le hk)
    have ihk := ih (Nat.le_of_succ_le hk)
    rw [List.range_succ, List.foldl_append]
    simp only [List.foldl_cons, List.foldl_nil]
    have hsz := hrel.ssize
    generalize (List.range k).foldl (stepM surf markers) (initM surf) = st at hsz hwhite ihk ⊢
    unfold stepM
    simp only
    by_cases h0 : markers.data.getD k 0 = 0
    · simp only [h0, beq_self_eq_true, if_true]; exact ihk
    · have hb : (markers.data.getD k 0 == 0) = false := by simpa using h0
      simp only [hb, Bool.false_eq_true, if_false]
      unfold phi at ihk ⊢
      simp only [List.length_append, List.length_singleton]
      have := cntWhite_set_white (shapeSize surf.shape) st.status k 1 hkN hsz (hwhite k (le_refl _) hkN) (by omega)
      omega

/-- the kernel's queue (hence, by the simulation, the specification's) is empty after `size + 1` iterations -/
theorem cwatershed_drained (surf markers : Img Int) (bshape : List Nat) (bc : Array Int)
    (hm : markers.shape = surf.shape) (hb : bshape.length = surf.shape.length) :
    (cwatershedModel surf markers bshape bc).queue = [] := by
  unfold cwatershedModel
  apply run_drained surf _ (fun o ho => by rw [offsets_length bshape bc o ho, hb]) _ _ _
    (init_rel surf markers hm)
  rw [modelInit_eq, init_phi surf markers hm _ (le_refl _)]
  unfold fuelOf
  omega

end Mahotas.C04
