/-
C04 (round 4) — the two facts about views that T6 needs, hosted here so that `Properties/C04.lean` (imported by C08 and C10)
does not pull in `Proofs/C08Kernels.lean` and its index-lemma namespaces: a kernel that reads an array only through
`at_flat(i)`, `i < N`, or through the array's own iterator, sees the logical array. Same statements as `C08.flatImg_eq` /
`C08.filtVals_eq` (`logicalImg` is `C08.toImg`, by `rfl`).
-/
import Mahotas.Proofs.C08

namespace Mahotas.C04
open Mahotas Mahotas.C08

/-- the logical content of a view as an image: element `k` is the memory cell at the address of the `k`-th position in C order -/
def logicalImg {α : Type} (mem : Int → α) (v : View) : Img α := { shape := v.shape, data := (logical mem v).toArray }

theorem flatImg_eq_logicalImg {α : Type} (mem : Int → α) (v : View) (wf : v.WF) : flatImg mem v = logicalImg mem v := by
  unfold flatImg logicalImg logical
  congr 2
  apply List.map_congr_left
  intro k hk
  unfold readAtFlat
  rw [atFlat_eq_addr v wf k (List.mem_range.1 hk)]

theorem filtVals_eq_logical {α : Type} (mF : Int → α) (vF : View) (wf : vF.WF) : filtVals mF vF = logical mF vF := by
  unfold filtVals logical
  apply List.map_congr_left
  intro k hk
  have hk' : k < shapeSize vF.shape := List.mem_range.1 hk
  simp only [readIter]
  rw [incrN_eq vF wf.len k hk', le_address vF wf.len k hk']

end Mahotas.C04
