/-
Helper lemmas for C05: the Felzenszwalb–Huttenlocher stack of `Model/C05.lean` computes the lower
envelope of the parabolas `x ↦ (x - v)² + g v`.

Invariant (`Env`): for every rational abscissa `x` the root `owner st x` of the first stack entry
from the top whose breakpoint `z` lies below `x` minimises all parabolas pushed so far.
`Chain`: roots strictly increase towards the top, `z` of an entry is its intersection with the
entry below, `z` strictly increases, the bottom entry has `z = -inf`.
-/
import Mahotas.Model.C05
import Mathlib.Tactic.Linarith
import Mathlib.Tactic.FieldSimp
import Mathlib.Tactic.Ring
import Mathlib.Tactic.SplitIfs
import Mathlib.Data.Rat.Defs
import Mathlib.Algebra.Order.Field.Basic
import Mathlib.Algebra.Order.Ring.Cast
import Mathlib.Data.Rat.Cast.Order
import Mathlib.Data.List.Chain

set_option linter.unusedSimpArgs false
set_option linter.unusedVariables false
namespace Mahotas.C05
open Mahotas

variable (g : ℕ → ℚ)

/-- parabola rooted at `v` -/
def P (v : ℕ) (x : ℚ) : ℚ := (x - v) ^ 2 + g v

/-- `z < x` for a breakpoint (`none` = `-inf`) -/
def zlt : Option ℚ → ℚ → Prop
  | none, _ => True
  | some z, x => z < x

theorem ltOpt_iff (z : Option ℚ) (x : ℚ) : ltOpt z x = true ↔ zlt z x := by
  cases z <;> simp [ltOpt, zlt]

theorem leOpt_none (s : ℚ) : leOpt s none = false := rfl

theorem leOpt_some (s z : ℚ) : leOpt s (some z) = true ↔ s ≤ z := by simp [leOpt]

theorem leOpt_false_iff (s : ℚ) (z : Option ℚ) : leOpt s z = false ↔ zlt z s := by
  cases z <;> simp [leOpt, zlt]

/-! ### algebra of the intersection abscissa -/

theorem P_le_iff (u v : ℕ) (x : ℚ) (h : u < v) : P g u x ≤ P g v x ↔ x ≤ sInt g u v := by
  have hp : (0:ℚ) < (v:ℚ) - u := by
    have : (u:ℚ) < v := by exact_mod_cast h
    linarith
  unfold P sInt
  rw [le_div_iff₀ hp, le_div_iff₀ (by norm_num : (0:ℚ) < 2)]
  constructor <;> intro h1 <;> nlinarith

theorem P_ge_iff (u v : ℕ) (x : ℚ) (h : u < v) : P g v x ≤ P g u x ↔ sInt g u v ≤ x := by
  have hp : (0:ℚ) < (v:ℚ) - u := by
    have : (u:ℚ) < v := by exact_mod_cast h
    linarith
  unfold P sInt
  rw [div_le_iff₀ hp, div_le_iff₀ (by norm_num : (0:ℚ) < 2)]
  constructor <;> intro h1 <;> nlinarith

theorem pop_bound (a b c : ℕ) (hab : a < b) (hbc : b < c) (hpop : sInt g b c ≤ sInt g a b) :
    sInt g a c ≤ sInt g a b := by
  have hab' : (a:ℚ) < b := by exact_mod_cast hab
  have hbc' : (b:ℚ) < c := by exact_mod_cast hbc
  have h1 : (c:ℚ) - a ≠ 0 := by linarith
  have h2 : (b:ℚ) - a ≠ 0 := by linarith
  have h3 : (c:ℚ) - b ≠ 0 := by linarith
  have h : sInt g a c * ((c:ℚ) - a) = sInt g a b * ((b:ℚ) - a) + sInt g b c * ((c:ℚ) - b) := by
    unfold sInt; field_simp; ring
  have hp : (0:ℚ) < (c:ℚ) - a := by linarith
  have : sInt g a c * ((c:ℚ) - a) ≤ sInt g a b * ((c:ℚ) - a) := by nlinarith
  exact le_of_mul_le_mul_right this hp

/-! ### well-formed stacks -/

inductive Chain : Stack → Prop
  | bot (v : ℕ) : Chain [(v, none)]
  | cons (v2 v1 : ℕ) (z1 : Option ℚ) (rest : Stack) :
      v1 < v2 → zlt z1 (sInt g v1 v2) → Chain ((v1, z1) :: rest) →
      Chain ((v2, some (sInt g v1 v2)) :: (v1, z1) :: rest)

def AllLt (q : ℕ) (st : Stack) : Prop := ∀ e ∈ st, e.1 < q

theorem popTo_cons_pop (q v : ℕ) (z : Option ℚ) (rest : Stack) (h : leOpt (sInt g v q) z = true) :
    popTo g q ((v, z) :: rest) = popTo g q rest := by
  rw [popTo]; simp [h]

theorem popTo_cons_keep (q v : ℕ) (z : Option ℚ) (rest : Stack) (h : leOpt (sInt g v q) z = false) :
    popTo g q ((v, z) :: rest) = (v, z) :: rest := by
  rw [popTo]; simp [h]

theorem popTo_chain (q : ℕ) (st : Stack) (h : Chain g st) : Chain g (popTo g q st) := by
  induction h with
  | bot v => rw [popTo_cons_keep g q v none [] rfl]; exact Chain.bot v
  | cons v2 v1 z1 rest h1 h2 h3 ih =>
    cases hp : leOpt (sInt g v2 q) (some (sInt g v1 v2))
    · rw [popTo_cons_keep g _ _ _ _ hp]; exact Chain.cons v2 v1 z1 rest h1 h2 h3
    · rw [popTo_cons_pop g _ _ _ _ hp]; exact ih

/-- the loop exits on an entry whose breakpoint is below the new intersection -/
theorem popTo_head (q : ℕ) (st : Stack) (h : Chain g st) :
    ∃ v z rest, popTo g q st = (v, z) :: rest ∧ zlt z (sInt g v q) := by
  induction h with
  | bot v => exact ⟨v, none, [], popTo_cons_keep g q v none [] rfl, trivial⟩
  | cons v2 v1 z1 rest h1 h2 h3 ih =>
    cases hp : leOpt (sInt g v2 q) (some (sInt g v1 v2))
    · exact ⟨v2, _, _, popTo_cons_keep g _ _ _ _ hp, (leOpt_false_iff _ _).1 hp⟩
    · rw [popTo_cons_pop g _ _ _ _ hp]; exact ih

theorem popTo_allLt (q : ℕ) (st : Stack) (h : AllLt q st) : AllLt q (popTo g q st) := by
  induction st with
  | nil => simpa [popTo] using h
  | cons e rest ih =>
    obtain ⟨v, z⟩ := e
    cases hp : leOpt (sInt g v q) z
    · rw [popTo_cons_keep g _ _ _ _ hp]; exact h
    · rw [popTo_cons_pop g _ _ _ _ hp]
      exact ih (fun e he => h e (List.mem_cons_of_mem _ he))

theorem push_chain (q : ℕ) (st : Stack) (hc : Chain g st) (hq : AllLt q st) :
    Chain g (push g q st) := by
  obtain ⟨v, z, rest, hp, hz⟩ := popTo_head g q st hc
  have hc' := popTo_chain g q st hc
  have hv : v < q := by
    have := popTo_allLt g q st hq (v, z) (by rw [hp]; exact List.mem_cons_self)
    exact this
  unfold push
  rw [hp] at hc' ⊢
  exact Chain.cons q v z rest hv hz hc'

theorem push_allLt (q : ℕ) (st : Stack) (hq : AllLt q st) : AllLt (q + 1) (push g q st) := by
  intro e he
  unfold push at he
  rcases List.mem_cons.1 he with rfl | he
  · exact Nat.lt_succ_self _
  · exact Nat.lt_succ_of_lt (popTo_allLt g q st hq e he)

/-! ### the envelope invariant -/

theorem owner_bot (v : ℕ) (x : ℚ) : owner [(v, none)] x = v := by simp [owner, ltOpt]

theorem owner_cons_pos (v : ℕ) (z : Option ℚ) (rest : Stack) (x : ℚ) (h : zlt z x) :
    owner ((v, z) :: rest) x = v := by
  rw [owner]; simp [(ltOpt_iff z x).2 h]

theorem owner_cons_neg (v : ℕ) (z : Option ℚ) (rest : Stack) (x : ℚ) (h : ¬ zlt z x) :
    owner ((v, z) :: rest) x = owner rest x := by
  rw [owner]
  have : ltOpt z x = false := by
    cases hh : ltOpt z x
    · rfl
    · exact absurd ((ltOpt_iff z x).1 hh) h
  simp [this]

/-- Lemma A: above the new breakpoint the new parabola beats the old owner. -/
theorem lemmaA (q : ℕ) (st : Stack) (hc : Chain g st) (x : ℚ)
    (hx : sInt g (topV (popTo g q st)) q < x) : sInt g (owner st x) q ≤ x := by
  induction hc with
  | bot v =>
    rw [popTo_cons_keep g q v none [] rfl] at hx
    rw [owner_bot]; exact le_of_lt hx
  | cons v2 v1 z1 rest h1 h2 h3 ih =>
    cases hp : leOpt (sInt g v2 q) (some (sInt g v1 v2))
    · rw [popTo_cons_keep g _ _ _ _ hp] at hx
      simp only [topV] at hx
      have hlt : sInt g v1 v2 < sInt g v2 q := (leOpt_false_iff _ _).1 hp
      rw [owner_cons_pos _ _ _ _ (show zlt (some (sInt g v1 v2)) x from lt_trans hlt hx)]
      exact le_of_lt hx
    · rw [popTo_cons_pop g _ _ _ _ hp] at hx
      have hpop : sInt g v2 q ≤ sInt g v1 v2 := (leOpt_some _ _).1 hp
      by_cases hz : zlt (some (sInt g v1 v2)) x
      · rw [owner_cons_pos _ _ _ _ hz]
        have : sInt g v1 v2 < x := hz
        linarith
      · rw [owner_cons_neg _ _ _ _ hz]; exact ih hx

theorem owner_mem (st : Stack) (hc : Chain g st) (x : ℚ) : ∃ z, (owner st x, z) ∈ st := by
  induction hc with
  | bot v => exact ⟨none, by rw [owner_bot]; exact List.mem_cons_self⟩
  | cons v2 v1 z1 rest _ _ _ ih =>
    by_cases hz : zlt (some (sInt g v1 v2)) x
    · rw [owner_cons_pos _ _ _ _ hz]; exact ⟨_, List.mem_cons_self⟩
    · rw [owner_cons_neg _ _ _ _ hz]
      obtain ⟨z, hz⟩ := ih; exact ⟨z, List.mem_cons_of_mem _ hz⟩

/-- Lemma C: the final breakpoint is below any bound that dominates the current top's
    breakpoint with `q` and the current top's `z`. -/
theorem lemmaC (q : ℕ) (st : Stack) (hc : Chain g st) (hq : AllLt q st) (B : ℚ)
    (h1 : sInt g (topV st) q ≤ B) (h2 : ∀ v z rest, st = (v, z) :: rest → zlt z B) :
    sInt g (topV (popTo g q st)) q ≤ B := by
  induction hc with
  | bot v => rw [popTo_cons_keep g q v none [] rfl]; exact h1
  | cons v1 v0 z0 rest hv hz hrest ih =>
    have hz1 : sInt g v0 v1 < B := h2 v1 _ _ rfl
    cases hp : leOpt (sInt g v1 q) (some (sInt g v0 v1))
    · rw [popTo_cons_keep g _ _ _ _ hp]; exact h1
    · rw [popTo_cons_pop g _ _ _ _ hp]
      have hv1q : v1 < q := hq (v1, _) List.mem_cons_self
      have hpop : sInt g v1 q ≤ sInt g v0 v1 := (leOpt_some _ _).1 hp
      apply ih (fun e he => hq e (List.mem_cons_of_mem _ he))
      · simp only [topV]
        exact le_trans (pop_bound g v0 v1 q hv hv1q hpop) (le_of_lt hz1)
      · intro v z r hr
        simp only [List.cons.injEq, Prod.mk.injEq] at hr
        obtain ⟨⟨_, rfl⟩, _⟩ := hr
        cases z0 with
        | none => trivial
        | some z0 => exact lt_trans hz hz1

/-- Lemma B: below the new breakpoint the popped entries never owned `x`. -/
theorem lemmaB (q : ℕ) (st : Stack) (hc : Chain g st) (hq : AllLt q st) (x : ℚ)
    (hx : x ≤ sInt g (topV (popTo g q st)) q) : owner (popTo g q st) x = owner st x := by
  induction hc with
  | bot v => rw [popTo_cons_keep g q v none [] rfl]
  | cons v2 v1 z1 rest hv hz hrest ih =>
    cases hp : leOpt (sInt g v2 q) (some (sInt g v1 v2))
    · rw [popTo_cons_keep g _ _ _ _ hp]
    · rw [popTo_cons_pop g _ _ _ _ hp] at hx ⊢
      have hq' : AllLt q ((v1, z1) :: rest) := fun e he => hq e (List.mem_cons_of_mem _ he)
      have hv2q : v2 < q := hq (v2, _) List.mem_cons_self
      have hpop : sInt g v2 q ≤ sInt g v1 v2 := (leOpt_some _ _).1 hp
      have hC := lemmaC g q ((v1, z1) :: rest) hrest hq' (sInt g v1 v2)
        (by simpa [topV] using pop_bound g v1 v2 q hv hv2q hpop)
        (by intro v z r hr
            simp only [List.cons.injEq, Prod.mk.injEq] at hr
            obtain ⟨⟨_, rfl⟩, _⟩ := hr
            exact hz)
      rw [ih hq' hx]
      have : ¬ zlt (some (sInt g v1 v2)) x := by
        have : x ≤ sInt g v1 v2 := le_trans hx hC
        exact not_lt.mpr this
      rw [owner_cons_neg _ _ _ _ this]

/-- `owner st x` minimises, at every rational `x`, all parabolas with root below `q` -/
def Env (q : ℕ) (st : Stack) : Prop := ∀ x : ℚ, ∀ u < q, P g (owner st x) x ≤ P g u x

/-- one push keeps the invariant -/
theorem push_env (q : ℕ) (st : Stack) (hc : Chain g st) (hq : AllLt q st) (henv : Env g q st) :
    Env g (q + 1) (push g q st) := by
  intro x u hu
  obtain ⟨vt, zt, rt, hpt, _⟩ := popTo_head g q st hc
  have htq : topV (popTo g q st) < q := by
    have := popTo_allLt g q st hq (vt, zt) (by rw [hpt]; exact List.mem_cons_self)
    rw [hpt]; exact this
  unfold push
  by_cases hx : zlt (some (sInt g (topV (popTo g q st)) q)) x
  · rw [owner_cons_pos _ _ _ _ hx]
    have hx' : sInt g (topV (popTo g q st)) q < x := hx
    rcases Nat.lt_succ_iff_lt_or_eq.mp hu with hlt | heq
    · obtain ⟨z, hmem⟩ := owner_mem g st hc x
      have hwq : owner st x < q := hq _ hmem
      have h1 := (P_ge_iff g (owner st x) q x hwq).2 (lemmaA g q st hc x hx')
      exact le_trans h1 (henv x u hlt)
    · rw [heq]
  · rw [owner_cons_neg _ _ _ _ hx]
    have hx' : x ≤ sInt g (topV (popTo g q st)) q := not_lt.mp hx
    rw [lemmaB g q st hc hq x hx']
    rcases Nat.lt_succ_iff_lt_or_eq.mp hu with hlt | heq
    · exact henv x u hlt
    · have h1 := henv x (topV (popTo g q st)) htq
      have h2 := (P_le_iff g (topV (popTo g q st)) q x htq).2 hx'
      rw [heq]; exact le_trans h1 h2

/-! ### the first loop -/

theorem build_inv (m : ℕ) :
    Chain g (build g m) ∧ AllLt (m + 1) (build g m) ∧ Env g (m + 1) (build g m) := by
  induction m with
  | zero =>
    refine ⟨Chain.bot 0, ?_, ?_⟩
    · intro e he
      simp only [build, List.mem_singleton] at he
      rw [he]; exact Nat.zero_lt_one
    · intro x u hu
      have : u = 0 := by omega
      rw [this]; simp only [build]; rw [owner_bot]
  | succ m ih =>
    obtain ⟨hc, hq, he⟩ := ih
    exact ⟨push_chain g (m + 1) _ hc hq, push_allLt g (m + 1) _ hq, push_env g (m + 1) _ hc hq he⟩

theorem owner_build_le (m : ℕ) (x : ℚ) : owner (build g m) x ≤ m := by
  obtain ⟨hc, hq, _⟩ := build_inv g m
  obtain ⟨z, hz⟩ := owner_mem g _ hc x
  have := hq _ hz
  exact Nat.lt_succ_iff.mp this

theorem owner_build_min (m : ℕ) (x : ℚ) (u : ℕ) (hu : u ≤ m) :
    P g (owner (build g m) x) x ≤ P g u x :=
  (build_inv g m).2.2 x u (Nat.lt_succ_of_le hu)

/-! ### read-out: the value at an integer abscissa is the minimum over all roots -/

/-- the sampled function of an integer line, as rationals -/
def gOf (f : Array Int) : ℕ → ℚ := fun i => ((f.getD i 0 : Int) : ℚ)

theorem P_gOf (f : Array Int) (v q : ℕ) : P (gOf f) v (q : ℚ) = ((valueAt f q v : Int) : ℚ) := by
  unfold P gOf valueAt; push_cast; ring

theorem foldl_min_eq (h : ℕ → Int) (a : Int) (l : List ℕ) (i : Int)
    (hi : a ≤ i) (hl : ∀ v ∈ l, a ≤ h v) (hex : a = i ∨ ∃ v ∈ l, a = h v) :
    l.foldl (fun m v => min m (h v)) i = a := by
  induction l generalizing i with
  | nil =>
    rcases hex with rfl | ⟨v, hv, _⟩
    · rfl
    · simp at hv
  | cons w ws ih =>
    simp only [List.foldl_cons]
    apply ih
    · have := hl w List.mem_cons_self; omega
    · intro v hv; exact hl v (List.mem_cons_of_mem _ hv)
    · rcases hex with rfl | ⟨v, hv, hva⟩
      · left
        have := hl w List.mem_cons_self; omega
      · rcases List.mem_cons.1 hv with rfl | hv'
        · left
          omega
        · exact Or.inr ⟨v, hv', hva⟩

/-- the owner found in the stack gives the minimum of `(q - v)² + f v` over all `v` -/
theorem valueAt_owner_eq_min (f : Array Int) (m : ℕ) (hm : f.size = m + 1) (q : ℕ) :
    valueAt f q (owner (build (gOf f) m) (q : ℚ)) = minPlus1d f q := by
  symm
  unfold minPlus1d
  have hle : ∀ u ≤ m, valueAt f q (owner (build (gOf f) m) (q : ℚ)) ≤ valueAt f q u := by
    intro u hu
    have := owner_build_min (gOf f) m (q : ℚ) u hu
    rw [P_gOf, P_gOf] at this
    exact_mod_cast this
  apply foldl_min_eq (fun v => valueAt f q v)
  · exact hle 0 (Nat.zero_le _)
  · intro v hv
    rw [hm, List.mem_range] at hv
    exact hle v (Nat.lt_succ_iff.mp hv)
  · right
    refine ⟨owner (build (gOf f) m) (q : ℚ), ?_, rfl⟩
    rw [hm, List.mem_range]
    exact Nat.lt_succ_of_le (owner_build_le _ m _)

/-! ### the read-out walk `while (z[k+1] < q) ++k` finds the owner -/

/-- consecutive entries of the stack read bottom first: breakpoints strictly increase -/
def Rinc (a b : ℕ × Option ℚ) : Prop := ∃ zb, b.2 = some zb ∧ zlt a.2 zb

theorem chain_isChain (st : Stack) (h : Chain g st) : st.IsChain (fun a b => Rinc b a) := by
  induction h with
  | bot v => exact List.isChain_singleton _
  | cons v2 v1 z1 rest h1 h2 h3 ih =>
    exact List.isChain_cons_cons.2 ⟨⟨_, rfl, h2⟩, ih⟩

theorem owner_append_left (L M : Stack) (x : ℚ) (h : ∃ a ∈ L, ltOpt a.2 x = true) :
    owner (L ++ M) x = owner L x := by
  induction L with
  | nil => obtain ⟨a, ha, _⟩ := h; simp at ha
  | cons e L ih =>
    obtain ⟨v, z⟩ := e
    simp only [List.cons_append, owner]
    cases hz : ltOpt z x
    · simp only [Bool.false_eq_true, if_false]
      apply ih
      obtain ⟨a, ha, hax⟩ := h
      rcases List.mem_cons.1 ha with rfl | ha'
      · simp only [hz, Bool.false_eq_true] at hax
      · exact ⟨a, ha', hax⟩
    · simp

theorem owner_append_right (L M : Stack) (x : ℚ) (h : ∀ a ∈ L, ltOpt a.2 x = false) :
    owner (L ++ M) x = owner M x := by
  induction L with
  | nil => rfl
  | cons e L ih =>
    obtain ⟨v, z⟩ := e
    simp only [List.cons_append, owner]
    have hz : ltOpt z x = false := h (v, z) List.mem_cons_self
    simp only [hz, Bool.false_eq_true, if_false]
    exact ih (fun a ha => h a (List.mem_cons_of_mem _ ha))

theorem inc_all_ge (x : ℚ) (a : ℕ × Option ℚ) (l : List (ℕ × Option ℚ))
    (hc : (a :: l).IsChain Rinc) (ha : ltOpt a.2 x = false) : ∀ b ∈ l, ltOpt b.2 x = false := by
  induction l generalizing a with
  | nil => intro b hb; simp at hb
  | cons c l ih =>
    rw [List.isChain_cons_cons] at hc
    obtain ⟨⟨zc, hzc, hac⟩, hcl⟩ := hc
    have hcx : ltOpt c.2 x = false := by
      obtain ⟨va, za⟩ := a
      cases za with
      | none => simp [ltOpt] at ha
      | some za =>
        have h1 : x ≤ za := by simpa [ltOpt] using ha
        have h2 : za < zc := hac
        rw [hzc]; simp only [ltOpt, decide_eq_false_iff_not, not_lt]; linarith
    intro b hb
    rcases List.mem_cons.1 hb with rfl | hb'
    · exact hcx
    · exact ih c hcl hcx b hb'

/-- one walk step: from a suffix whose head has `z < x`, `advance` stops on the owner of `x` -/
theorem advance_owner (x : ℚ) (e : ℕ × Option ℚ) (rest : List (ℕ × Option ℚ))
    (hc : (e :: rest).IsChain Rinc) (he : ltOpt e.2 x = true) :
    owner ((e :: rest).reverse) x = headV (advance x (e :: rest)) ∧
    ∃ pre e2 r2, e :: rest = pre ++ e2 :: r2 ∧ advance x (e :: rest) = e2 :: r2 ∧ ltOpt e2.2 x = true := by
  induction rest generalizing e with
  | nil =>
    obtain ⟨v, z⟩ := e
    refine ⟨?_, [], (v, z), [], rfl, rfl, he⟩
    simp only [List.reverse_cons, List.reverse_nil, List.nil_append, advance, headV, owner]
    simp only at he
    simp [he]
  | cons e' r ih =>
    have hc' : (e' :: r).IsChain Rinc := (List.isChain_cons_cons.1 hc).2
    cases hz : ltOpt e'.2 x
    · -- the walk stops here
      have hadv : advance x (e :: e' :: r) = e :: e' :: r := by rw [advance]; simp [hz]
      refine ⟨?_, [], e, e' :: r, rfl, hadv, he⟩
      rw [hadv]
      have hall : ∀ b ∈ (e' :: r).reverse, ltOpt b.2 x = false := by
        intro b hb
        rw [List.mem_reverse] at hb
        rcases List.mem_cons.1 hb with rfl | hb'
        · exact hz
        · exact inc_all_ge x e' r hc' hz b hb'
      rw [List.reverse_cons, owner_append_right _ _ x hall]
      obtain ⟨v, z⟩ := e
      simp only [headV, owner]
      simp only at he
      simp [he]
    · have hadv : advance x (e :: e' :: r) = advance x (e' :: r) := by rw [advance]; simp [hz]
      obtain ⟨h1, pre, e2, r2, hsplit, hres, hlt⟩ := ih e' hc' hz
      refine ⟨?_, e :: pre, e2, r2, by rw [hsplit]; rfl, by rw [hadv, hres], hlt⟩
      rw [hadv, ← h1, List.reverse_cons (a := e)]
      apply owner_append_left
      exact ⟨e', by rw [List.mem_reverse]; exact List.mem_cons_self, hz⟩

/-- the fold of `readOwners`, generalised over the current suffix -/
theorem readOwners_fold (arr : List (ℕ × Option ℚ)) (hc : arr.IsChain Rinc) (n : ℕ)
    (e0 : ℕ × Option ℚ) (r0 : List (ℕ × Option ℚ)) (harr : arr = e0 :: r0) (h0 : e0.2 = none) :
    ∃ pre e r, arr = pre ++ e :: r ∧ (n = 0 ∨ ltOpt e.2 ((n : ℚ) - 1) = true) ∧ (n = 0 → pre = []) ∧
      (List.range n).foldl (fun (acc : List (ℕ × Option ℚ) × List ℕ) (q : ℕ) =>
        let cur := advance (q : ℚ) acc.1
        (cur, acc.2 ++ [headV cur])) (arr, [])
      = (e :: r, (List.range n).map fun (q : ℕ) => owner arr.reverse (q : ℚ)) := by
  induction n with
  | zero => exact ⟨[], e0, r0, harr, Or.inl rfl, fun _ => rfl, by simp [harr]⟩
  | succ n ih =>
    obtain ⟨pre, e, r, hsplit, hlt, hpre, hfold⟩ := ih
    rw [List.range_succ, List.foldl_append, hfold]
    simp only [List.foldl_cons, List.foldl_nil, List.map_append, List.map_cons, List.map_nil]
    have hsuf : (e :: r).IsChain Rinc := hc.suffix ⟨pre, hsplit.symm⟩
    have he : ltOpt e.2 (n : ℚ) = true := by
      rcases hlt with h | h
      · have : pre = [] := hpre h
        rw [this, harr] at hsplit
        simp only [List.nil_append, List.cons.injEq] at hsplit
        rw [← hsplit.1, h0]; rfl
      · rw [ltOpt_iff] at h ⊢
        cases hz : e.2 with
        | none => trivial
        | some z =>
          rw [hz] at h
          have : z < (n : ℚ) - 1 := h
          show z < (n : ℚ)
          linarith
    obtain ⟨h1, pre2, e2, r2, hsplit2, hres, hlt2⟩ := advance_owner (n : ℚ) e r hsuf he
    refine ⟨pre ++ pre2, e2, r2, by rw [hsplit, hsplit2, List.append_assoc], Or.inr ?_, by intro h; omega, ?_⟩
    · push_cast; simpa using hlt2
    · rw [hres]
      congr 2
      rw [← hres, ← h1, hsplit, List.reverse_append]
      rw [owner_append_left _ _ _ ⟨e, by rw [List.mem_reverse]; exact List.mem_cons_self, he⟩]

/-- the bottom entry is never popped -/
theorem popTo_bottom (q : ℕ) (b : ℕ × Option ℚ) (st : Stack) (hc : Chain g st) :
    ∀ init, st = init ++ [b] → ∃ init', popTo g q st = init' ++ [b] := by
  induction hc with
  | bot v =>
    intro init h
    exact ⟨init, by rw [popTo_cons_keep g q v none [] rfl]; exact h⟩
  | cons v2 v1 z1 rest h1 h2 h3 ih =>
    intro init h
    cases hp : leOpt (sInt g v2 q) (some (sInt g v1 v2))
    · exact ⟨init, by rw [popTo_cons_keep g _ _ _ _ hp]; exact h⟩
    · rw [popTo_cons_pop g _ _ _ _ hp]
      cases init with
      | nil => simp at h
      | cons a init1 =>
        simp only [List.cons_append, List.cons.injEq] at h
        exact ih init1 h.2

theorem build_bottom (m : ℕ) : ∃ init, build g m = init ++ [(0, none)] := by
  induction m with
  | zero => exact ⟨[], rfl⟩
  | succ m ih =>
    obtain ⟨init, h⟩ := ih
    obtain ⟨init', h'⟩ := popTo_bottom g (m + 1) (0, none) _ (build_inv g m).1 init h
    exact ⟨(m + 1, some (sInt g (topV (popTo g (m + 1) (build g m))) (m + 1))) :: init', by
      simp only [build, push]; rw [h']; rfl⟩

/-- the incremental walk of the second loop finds, for every `q`, the owner searched from the top -/
theorem owners1d_eq_top (f : Array Int) : owners1d f = owners1dTop f := by
  unfold owners1d owners1dTop
  cases hsz : f.size with
  | zero => rfl
  | succ m =>
    simp only
    obtain ⟨init, hb⟩ := build_bottom (gOf f) m
    have hrev : (build (gOf f) m).reverse = (0, none) :: init.reverse := by
      rw [hb, List.reverse_append]; rfl
    have hc : ((build (gOf f) m).reverse).IsChain Rinc :=
      List.isChain_reverse.2 (chain_isChain (gOf f) _ (build_inv (gOf f) m).1)
    obtain ⟨pre, e, r, _, _, _, hfold⟩ :=
      readOwners_fold _ hc (m + 1) (0, none) init.reverse hrev rfl
    unfold readOwners
    show (List.foldl _ ((build (gOf f) m).reverse, []) (List.range (m + 1))).2 = _
    rw [hfold, List.reverse_reverse]
    rfl

/-! ### the whole 1-D transform -/

theorem zip_map_self {α β γ : Type} (l : List α) (h : α → β) (k : α × β → γ) :
    (List.zip l (l.map h)).map k = l.map (fun q => k (q, h q)) := by
  induction l with
  | nil => rfl
  | cons a l ih => simp only [List.map_cons, List.zip_cons_cons, ih]

theorem dt1d_eq_min (f : Array Int) : dt1d f = (List.range f.size).map (minPlus1d f) := by
  unfold dt1d
  rw [owners1d_eq_top]
  unfold owners1dTop
  cases hsz : f.size with
  | zero => rfl
  | succ m =>
    simp only
    rw [zip_map_self]
    apply List.map_congr_left
    intro q _
    exact valueAt_owner_eq_min f m hsz q

/-- `minPlus1d` (a left fold of `min`) is a lower bound of every candidate -/
theorem foldl_min_le (h : ℕ → Int) (l : List ℕ) (i : Int) :
    l.foldl (fun m v => min m (h v)) i ≤ i ∧ ∀ v ∈ l, l.foldl (fun m v => min m (h v)) i ≤ h v := by
  induction l generalizing i with
  | nil => exact ⟨le_refl _, fun v hv => by simp at hv⟩
  | cons w ws ih =>
    simp only [List.foldl_cons]
    obtain ⟨h1, h2⟩ := ih (min i (h w))
    refine ⟨by omega, ?_⟩
    intro v hv
    rcases List.mem_cons.1 hv with rfl | hv'
    · omega
    · exact h2 v hv'

/-- … and is attained -/
theorem foldl_min_mem (h : ℕ → Int) (l : List ℕ) (i : Int) :
    l.foldl (fun m v => min m (h v)) i = i ∨ ∃ v ∈ l, l.foldl (fun m v => min m (h v)) i = h v := by
  induction l generalizing i with
  | nil => exact Or.inl rfl
  | cons w ws ih =>
    simp only [List.foldl_cons]
    rcases ih (min i (h w)) with h1 | ⟨v, hv, h1⟩
    · rcases min_choice i (h w) with h2 | h2
      · left; rw [h1, h2]
      · right; exact ⟨w, List.mem_cons_self, by rw [h1, h2]⟩
    · right; exact ⟨v, List.mem_cons_of_mem _ hv, h1⟩

end Mahotas.C05
