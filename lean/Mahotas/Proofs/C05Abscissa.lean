/-
C05 — the intersection abscissae in doubles versus exact rationals.

`_distance.cpp: dist_transform` computes `s = ((f[q] + q*q) - (f[v[k]] + v[k]*v[k])) / 2. / (q - v[k])` in
IEEE-754 binary64. Every operand is an integer-valued double, the numerator is an exact integer below 2^53,
`/ 2.` is exact, so `s` is ONE correctly rounded division. `s` is only ever compared: `s > z[k]` with an
earlier stored such quotient (or `-inf`) and `z[k+1] < q` with an integer `q` (or `+inf`).

This file
* proves the separation of distinct fractions with bounded denominators (`frac_separation`),
* states what is used of the rounding as an abstract interface (`Rounding`),
* states "every comparison has the same outcome in doubles as in exact rationals" (`AbscissaExact`),
* proves it from numeric bounds (`abscissaExact_of_bounds`, `abscissaExact_small`: indices below 2^12 and
  sampled values in `[0, 2^26]`),
* defines the model with rounded abscissae (`popToR`, `pushR`, `buildR`, `owners1dR`) and proves that under
  `AbscissaExact` it keeps the same roots, stores the roundings of the exact breakpoints and selects the same
  owners as the exact model of `Model/C05.lean` (`rounded_model_same_owners`).
-/
import Mahotas.Proofs.C05
import Mathlib.Tactic.Linarith
import Mathlib.Tactic.FieldSimp
import Mathlib.Tactic.Ring
import Mathlib.Tactic.Positivity
import Mathlib.Tactic.NormNum
import Mathlib.Data.Rat.Defs
import Mathlib.Algebra.Order.Field.Basic
import Mathlib.Algebra.Order.Ring.Abs
import Mathlib.Algebra.Order.Ring.Cast
import Mathlib.Data.Rat.Cast.Order

set_option linter.unusedSimpArgs false
set_option linter.unusedVariables false
namespace Mahotas.C05
open Mahotas

/-! ### 1. separation of fractions -/

/-- Two different fractions `a/b` and `c/d` (integers over positive integers) are at least `1/(b*d)`
    apart. -/
theorem frac_separation (a c : ℤ) (b d : ℕ) (hb : 0 < b) (hd : 0 < d)
    (h : (a : ℚ) / b ≠ (c : ℚ) / d) :
    1 / ((b : ℚ) * d) ≤ |(a : ℚ) / b - (c : ℚ) / d| := by
  have hb' : (0 : ℚ) < b := by exact_mod_cast hb
  have hd' : (0 : ℚ) < d := by exact_mod_cast hd
  have key : (a : ℚ) / b - (c : ℚ) / d = ((a * d - c * b : ℤ) : ℚ) / ((b : ℚ) * d) := by
    push_cast
    field_simp
  have hk : (a * d - c * b : ℤ) ≠ 0 := by
    intro h0
    apply h
    rw [div_eq_div_iff hb'.ne' hd'.ne']
    have : ((a * d - c * b : ℤ) : ℚ) = 0 := by rw [h0]; simp
    push_cast at this
    linarith
  have hk1 : (1 : ℚ) ≤ |((a * d - c * b : ℤ) : ℚ)| := by
    rw [← Int.cast_abs]
    exact_mod_cast Int.one_le_abs hk
  rw [key, abs_div, abs_of_pos (mul_pos hb' hd')]
  exact div_le_div_of_nonneg_right hk1 (mul_pos hb' hd').le

/-- Two different fractions whose (positive) denominators are at most `D` are at least `1/D²` apart. -/
theorem frac_separation_bound (a c : ℤ) (b d D : ℕ) (hb : 0 < b) (hd : 0 < d) (hbD : b ≤ D)
    (hdD : d ≤ D) (h : (a : ℚ) / b ≠ (c : ℚ) / d) :
    1 / (D : ℚ) ^ 2 ≤ |(a : ℚ) / b - (c : ℚ) / d| := by
  have hb' : (0 : ℚ) < b := by exact_mod_cast hb
  have hd' : (0 : ℚ) < d := by exact_mod_cast hd
  have hbD' : (b : ℚ) ≤ D := by exact_mod_cast hbD
  have hdD' : (d : ℚ) ≤ D := by exact_mod_cast hdD
  refine le_trans ?_ (frac_separation a c b d hb hd h)
  apply one_div_le_one_div_of_le (mul_pos hb' hd')
  nlinarith

/-- A fraction `a/b` that is not the integer `q` is at least `1/b` away from it. -/
theorem frac_separation_int (a q : ℤ) (b : ℕ) (hb : 0 < b) (h : (a : ℚ) / b ≠ (q : ℚ)) :
    1 / (b : ℚ) ≤ |(a : ℚ) / b - (q : ℚ)| := by
  have := frac_separation a q b 1 hb Nat.one_pos (by simpa using h)
  simpa using this

/-! ### 2. what is used of the floating-point division -/

/-- What the proofs use of "round to nearest double": the rounding is monotone, its relative error is at
    most `2^-53` (half an ulp), and integers of magnitude up to `2^53` are representable.
    IEEE-754 binary64 round-to-nearest (the correctly rounded division of `dist_transform`) satisfies all
    three in the normal range (no overflow, no underflow — the abscissae here are `0` or of magnitude between
    `2^-14` and `2^28`); bit patterns are not modelled. -/
structure Rounding (rnd : ℚ → ℚ) : Prop where
  mono : ∀ x y : ℚ, x ≤ y → rnd x ≤ rnd y
  rel : ∀ x : ℚ, |rnd x - x| ≤ |x| / 2 ^ 53
  exact_int : ∀ k : ℤ, |(k : ℚ)| ≤ 2 ^ 53 → rnd (k : ℚ) = (k : ℚ)

/-- non-vacuity: exact arithmetic is a rounding -/
example : Rounding id :=
  ⟨fun _ _ h => h, fun x => by simp only [id, sub_self, abs_zero]; positivity, fun _ _ => rfl⟩

/-! ### 3. every comparison made by the C code has the exact outcome -/

/-- Every comparison that `dist_transform` makes on a line with indices `0 … n` has the same outcome on
    the rounded abscissae as on the exact ones: `s ≤ z[k]` between two abscissae (the pop condition
    `!(s > z[k])`), and `z[k+1] < q` between an abscissa and an integer index. -/
def AbscissaExact (rnd : ℚ → ℚ) (g : ℕ → ℚ) (n : ℕ) : Prop :=
  (∀ u v u' v' : ℕ, u < v → v ≤ n → u' < v' → v' ≤ n →
      (rnd (sInt g u v) ≤ rnd (sInt g u' v') ↔ sInt g u v ≤ sInt g u' v')) ∧
  (∀ u v q : ℕ, u < v → v ≤ n → q ≤ n →
      (rnd (sInt g u v) < (q : ℚ) ↔ sInt g u v < (q : ℚ)))

/-- the statement for indices up to `n` contains the statement for indices up to `m ≤ n` -/
theorem AbscissaExact.mono {rnd : ℚ → ℚ} {g : ℕ → ℚ} {n m : ℕ} (h : AbscissaExact rnd g n)
    (hm : m ≤ n) : AbscissaExact rnd g m :=
  ⟨fun u v u' v' h1 h2 h3 h4 => h.1 u v u' v' h1 (le_trans h2 hm) h3 (le_trans h4 hm),
   fun u v q h1 h2 h3 => h.2 u v q h1 (le_trans h2 hm) (le_trans h3 hm)⟩

/-- non-vacuity: exact arithmetic compares exactly -/
example (g : ℕ → ℚ) (n : ℕ) : AbscissaExact id g n :=
  ⟨fun _ _ _ _ _ _ _ _ => Iff.rfl, fun _ _ _ _ _ _ => Iff.rfl⟩

/-! ### 4. the comparisons are exact under numeric bounds -/

/-- for integer samples the abscissa is an integer over `v - u`, halved -/
theorem sInt_int_form (g : ℕ → ℚ) (mi : ℕ → ℤ) (u v : ℕ) (huv : u < v)
    (hu : g u = (mi u : ℚ)) (hv : g v = (mi v : ℚ)) :
    sInt g u v = ((((mi v + (v : ℤ) ^ 2) - (mi u + (u : ℤ) ^ 2) : ℤ) : ℚ) / ((v - u : ℕ) : ℚ)) / 2 := by
  have hlt : (u : ℚ) < v := by exact_mod_cast huv
  have hne : (v : ℚ) - u ≠ 0 := by linarith
  unfold sInt
  rw [hu, hv, Nat.cast_sub huv.le]
  push_cast
  field_simp

/-- magnitude of an abscissa -/
theorem sInt_abs_le (g : ℕ → ℚ) (B : ℚ) (u v : ℕ) (huv : u < v)
    (hu : |g u| + (u : ℚ) ^ 2 ≤ B) (hv : |g v| + (v : ℚ) ^ 2 ≤ B) : |sInt g u v| ≤ B := by
  have hlt : (u : ℚ) + 1 ≤ v := by exact_mod_cast huv
  have hd : (0 : ℚ) < (v : ℚ) - u := by linarith
  have hB : 0 ≤ B := le_trans (add_nonneg (abs_nonneg _) (sq_nonneg _)) hu
  have hu1 := abs_le.1 (le_refl |g u|)
  have hv1 := abs_le.1 (le_refl |g v|)
  have hu2 : (0 : ℚ) ≤ (u : ℚ) ^ 2 := sq_nonneg _
  have hv2 : (0 : ℚ) ≤ (v : ℚ) ^ 2 := sq_nonneg _
  have hN : |(g v + (v : ℚ) ^ 2) - (g u + (u : ℚ) ^ 2)| ≤ 2 * B := by
    rw [abs_le]; constructor <;> linarith [hu1.1, hu1.2, hv1.1, hv1.2]
  unfold sInt
  rw [abs_div, abs_div, abs_of_pos hd, abs_of_pos (by norm_num : (0 : ℚ) < 2),
    div_le_iff₀ hd, div_le_iff₀ (by norm_num : (0 : ℚ) < 2)]
  nlinarith

/-- two different abscissae of an integer line with indices up to `n` are at least `1/(2n²)` apart -/
theorem sInt_separation (g : ℕ → ℚ) (mi : ℕ → ℤ) (n : ℕ) (hg : ∀ i ≤ n, g i = (mi i : ℚ))
    (u v u' v' : ℕ) (huv : u < v) (hv : v ≤ n) (huv' : u' < v') (hv' : v' ≤ n)
    (hne : sInt g u v ≠ sInt g u' v') :
    1 / (2 * (n : ℚ) ^ 2) ≤ |sInt g u v - sInt g u' v'| := by
  rw [sInt_int_form g mi u v huv (hg u (by omega)) (hg v hv),
    sInt_int_form g mi u' v' huv' (hg u' (by omega)) (hg v' hv')] at hne ⊢
  have hne' : ∀ x y : ℚ, x / 2 ≠ y / 2 → x ≠ y := fun x y h hxy => h (by rw [hxy])
  have hsep := frac_separation_bound _ _ (v - u) (v' - u') n (by omega) (by omega) (by omega) (by omega)
    (hne' _ _ hne)
  have hn : (1 : ℚ) ≤ n := by
    have : 1 ≤ n := by omega
    exact_mod_cast this
  have hn2 : (0 : ℚ) < (n : ℚ) ^ 2 := by positivity
  rw [← sub_div, abs_div, abs_of_pos (by norm_num : (0 : ℚ) < 2), le_div_iff₀ (by norm_num : (0 : ℚ) < 2)]
  refine le_trans (le_of_eq ?_) hsep
  field_simp

/-- an abscissa of an integer line with indices up to `n` that is not the integer `q` is at least
    `1/(2n)` away from it -/
theorem sInt_separation_int (g : ℕ → ℚ) (mi : ℕ → ℤ) (n : ℕ) (hg : ∀ i ≤ n, g i = (mi i : ℚ))
    (u v : ℕ) (q : ℤ) (huv : u < v) (hv : v ≤ n) (hne : sInt g u v ≠ (q : ℚ)) :
    1 / (2 * (n : ℚ)) ≤ |sInt g u v - (q : ℚ)| := by
  rw [sInt_int_form g mi u v huv (hg u (by omega)) (hg v hv)] at hne ⊢
  have hne2 : ∀ x : ℚ, x / 2 ≠ (q : ℚ) → x ≠ ((2 * q : ℤ) : ℚ) := by
    intro x h hx
    apply h
    rw [hx]; push_cast; ring
  have hsep := frac_separation_int _ (2 * q) (v - u) (by omega) (hne2 _ hne)
  have hd : (0 : ℚ) < ((v - u : ℕ) : ℚ) := by
    have : 0 < v - u := by omega
    exact_mod_cast this
  have hdn : ((v - u : ℕ) : ℚ) ≤ n := by
    have : v - u ≤ n := by omega
    exact_mod_cast this
  have hn : (0 : ℚ) < n := lt_of_lt_of_le hd hdn
  have h1 : 1 / (n : ℚ) ≤ 1 / ((v - u : ℕ) : ℚ) := one_div_le_one_div_of_le hd hdn
  have h2 := le_trans h1 hsep
  have heq : ∀ x : ℚ, x / 2 - (q : ℚ) = (x - ((2 * q : ℤ) : ℚ)) / 2 := by
    intro x; push_cast; ring
  rw [heq, abs_div, abs_of_pos (by norm_num : (0 : ℚ) < 2), le_div_iff₀ (by norm_num : (0 : ℚ) < 2)]
  refine le_trans (le_of_eq ?_) h2
  field_simp

/-- **Comparisons in doubles are exact under numeric bounds.** If the samples `g 0 … g n` are integers with
    `|g i| + i² ≤ B` and `4 n² B < 2^53`, then for every rounding that is monotone, has relative error at
    most `2^-53` and is exact on integers up to `2^53`, every comparison between two rounded abscissae and
    between a rounded abscissa and an integer index has the same outcome as in exact arithmetic.
    (Two distinct abscissae differ by at least `1/(2n²)`, each is at most `B` in magnitude, so the two
    rounding errors together are at most `2B·2^-53 < 1/(2n²)`: equal roundings force equal abscissae.) -/
theorem abscissaExact_of_bounds (rnd : ℚ → ℚ) (hr : Rounding rnd) (g : ℕ → ℚ) (mi : ℕ → ℤ) (n : ℕ)
    (B : ℚ) (hg : ∀ i ≤ n, g i = (mi i : ℚ)) (hgB : ∀ i ≤ n, |g i| + (i : ℚ) ^ 2 ≤ B)
    (hB : 4 * (n : ℚ) ^ 2 * B < 2 ^ 53) : AbscissaExact rnd g n := by
  have hB0 : 0 ≤ B := le_trans (add_nonneg (abs_nonneg _) (sq_nonneg _)) (hgB 0 (Nat.zero_le _))
  constructor
  · intro u v u' v' huv hv huv' hv'
    constructor
    · intro hle
      by_contra hnot
      have hlt : sInt g u' v' < sInt g u v := not_le.1 hnot
      have hre : rnd (sInt g u v) = rnd (sInt g u' v') :=
        le_antisymm hle (hr.mono _ _ hlt.le)
      have hn : (1 : ℚ) ≤ n := by
        have : 1 ≤ n := by omega
        exact_mod_cast this
      have hn2 : (0 : ℚ) < 2 * (n : ℚ) ^ 2 := by positivity
      have hsep := sInt_separation g mi n hg u v u' v' huv hv huv' hv' (ne_of_gt hlt)
      rw [abs_of_pos (by linarith)] at hsep
      have hx := sInt_abs_le g B u v huv (hgB u (by omega)) (hgB v hv)
      have hy := sInt_abs_le g B u' v' huv' (hgB u' (by omega)) (hgB v' hv')
      have e1 := (abs_le.1 (hr.rel (sInt g u v))).1
      have e2 := (abs_le.1 (hr.rel (sInt g u' v'))).2
      rw [hre] at e1
      have hp : (0 : ℚ) < 2 ^ 53 := by positivity
      have hxe : |sInt g u v| / 2 ^ 53 ≤ B / 2 ^ 53 := div_le_div_of_nonneg_right hx hp.le
      have hye : |sInt g u' v'| / 2 ^ 53 ≤ B / 2 ^ 53 := div_le_div_of_nonneg_right hy hp.le
      have hdiff : sInt g u v - sInt g u' v' ≤ 2 * B / 2 ^ 53 := by
        have : 2 * B / 2 ^ 53 = B / 2 ^ 53 + B / 2 ^ 53 := by ring
        linarith
      have h1 : 1 / (2 * (n : ℚ) ^ 2) ≤ 2 * B / 2 ^ 53 := le_trans hsep hdiff
      rw [div_le_div_iff₀ hn2 hp] at h1
      linarith
    · exact hr.mono _ _
  · intro u v q huv hv hq
    have hn : (1 : ℚ) ≤ n := by
      have : 1 ≤ n := by omega
      exact_mod_cast this
    have hnB : (n : ℚ) ^ 2 ≤ B := by
      have h0 := hgB n (le_refl _)
      have := abs_nonneg (g n)
      linarith
    have hqn : (q : ℚ) ≤ n := by exact_mod_cast hq
    have hq0 : (0 : ℚ) ≤ q := by positivity
    have hq53 : (q : ℚ) ≤ 2 ^ 53 := by
      have h1 : (n : ℚ) ≤ (n : ℚ) ^ 2 := by nlinarith
      have h2 : 0 ≤ (4 * (n : ℚ) ^ 2 - 1) * B := mul_nonneg (by nlinarith) hB0
      linarith
    have hrq : rnd (q : ℚ) = (q : ℚ) := by
      have := hr.exact_int (q : ℤ) (by
        rw [abs_of_nonneg (by positivity)]; exact_mod_cast hq53)
      simpa using this
    constructor
    · intro hlt
      by_contra hnot
      have hge : (q : ℚ) ≤ sInt g u v := not_lt.1 hnot
      have := hr.mono _ _ hge
      rw [hrq] at this
      linarith
    · intro hlt
      by_contra hnot
      have hge : (q : ℚ) ≤ rnd (sInt g u v) := not_lt.1 hnot
      have hle : rnd (sInt g u v) ≤ (q : ℚ) := by
        have := hr.mono _ _ hlt.le
        rwa [hrq] at this
      have hre : rnd (sInt g u v) = (q : ℚ) := le_antisymm hle hge
      have hsep := sInt_separation_int g mi n hg u v (q : ℤ) huv hv (by
        simpa using ne_of_lt hlt)
      simp only [Int.cast_natCast] at hsep
      rw [abs_sub_comm, abs_of_pos (by linarith)] at hsep
      have hx := sInt_abs_le g B u v huv (hgB u (by omega)) (hgB v hv)
      have e1 := (abs_le.1 (hr.rel (sInt g u v))).2
      rw [hre] at e1
      have hp : (0 : ℚ) < 2 ^ 53 := by positivity
      have hxe : |sInt g u v| / 2 ^ 53 ≤ B / 2 ^ 53 := div_le_div_of_nonneg_right hx hp.le
      have h1 : 1 / (2 * (n : ℚ)) ≤ B / 2 ^ 53 := by linarith
      rw [div_le_div_iff₀ (by positivity) hp] at h1
      nlinarith

/-- **The sizes that occur.** For indices below `2^12` (axis length at most `2^12`) and integer samples in
    `[0, 2^26]` — this covers both fill values `2·max(shape)²+1` and `Σ shape²+1` of arrays of rank at most 4
    with sides below `2^12`, and every intermediate value of a pass, which never exceeds the fill value —
    all comparisons in doubles have the exact outcome. -/
theorem abscissaExact_small (rnd : ℚ → ℚ) (hr : Rounding rnd) (g : ℕ → ℚ) (mi : ℕ → ℤ) (n : ℕ)
    (hn : n < 2 ^ 12) (hg : ∀ i ≤ n, g i = (mi i : ℚ))
    (hlo : ∀ i ≤ n, 0 ≤ g i) (hhi : ∀ i ≤ n, g i ≤ 2 ^ 26) : AbscissaExact rnd g n := by
  have hnq : (n : ℚ) ≤ 2 ^ 12 - 1 := by
    have : n ≤ 2 ^ 12 - 1 := by omega
    have h2 : (n : ℚ) ≤ ((2 ^ 12 - 1 : ℕ) : ℚ) := by exact_mod_cast this
    norm_num at h2 ⊢
    exact h2
  have hn0 : (0 : ℚ) ≤ n := by positivity
  have hsq : (n : ℚ) ^ 2 ≤ (2 ^ 12 - 1) ^ 2 := by nlinarith
  apply abscissaExact_of_bounds rnd hr g mi n (2 ^ 26 + (2 ^ 12 - 1) ^ 2) hg
  · intro i hi
    rw [abs_of_nonneg (hlo i hi)]
    have hiq : (i : ℚ) ≤ n := by exact_mod_cast hi
    have hi0 : (0 : ℚ) ≤ i := by positivity
    have : (i : ℚ) ^ 2 ≤ (2 ^ 12 - 1) ^ 2 := by nlinarith
    linarith [hhi i hi]
  · have h0 : (0 : ℚ) ≤ (n : ℚ) ^ 2 := sq_nonneg _
    calc 4 * (n : ℚ) ^ 2 * (2 ^ 26 + (2 ^ 12 - 1) ^ 2)
        ≤ 4 * (2 ^ 12 - 1) ^ 2 * (2 ^ 26 + (2 ^ 12 - 1) ^ 2) := by nlinarith
      _ < 2 ^ 53 := by norm_num

/-! ### 5. the model with rounded abscissae -/

/-- the pop loop, the abscissa being the rounded quotient -/
def popToR (rnd : ℚ → ℚ) (g : ℕ → ℚ) (q : ℕ) : Stack → Stack
  | [] => []
  | (v, z) :: rest => if leOpt (rnd (sInt g v q)) z then popToR rnd g q rest else (v, z) :: rest

/-- `++k; v[k] = q; z[k] = s` with the rounded `s` -/
def pushR (rnd : ℚ → ℚ) (g : ℕ → ℚ) (q : ℕ) (st : Stack) : Stack :=
  (q, some (rnd (sInt g (topV (popToR rnd g q st)) q))) :: popToR rnd g q st

/-- the stack after the first loop has handled `q = 1 … m`, all stored `z` being rounded quotients -/
def buildR (rnd : ℚ → ℚ) (g : ℕ → ℚ) : ℕ → Stack
  | 0 => [(0, none)]
  | m + 1 => pushR rnd g (m + 1) (buildR rnd g m)

/-- the owners as the C code finds them, abscissae rounded (`owners1d` with `buildR` for `build`) -/
def owners1dR (rnd : ℚ → ℚ) (f : Array Int) : List ℕ :=
  let g : ℕ → ℚ := fun i => ((f.getD i 0 : Int) : ℚ)
  match f.size with
  | 0 => []
  | m + 1 => readOwners (m + 1) (buildR rnd g m).reverse

/-- round every stored breakpoint of a stack -/
def rmap (rnd : ℚ → ℚ) (st : Stack) : Stack := st.map fun e => (e.1, e.2.map rnd)

/-- a stored breakpoint is `-inf` or an abscissa of two roots `u < v ≤ n` -/
def GoodZ (g : ℕ → ℚ) (n : ℕ) (z : Option ℚ) : Prop :=
  z = none ∨ ∃ u v : ℕ, u < v ∧ v ≤ n ∧ z = some (sInt g u v)

/-- every root is at most `n` and every breakpoint is an abscissa of roots up to `n` -/
def Good (g : ℕ → ℚ) (n : ℕ) (st : Stack) : Prop := ∀ e ∈ st, e.1 ≤ n ∧ GoodZ g n e.2

/-- a well-formed stack (`Chain`) with all roots at most `n` stores only `-inf` and abscissae of roots `u < v ≤ n` -/
theorem chain_good (g : ℕ → ℚ) (n : ℕ) (st : Stack) (hc : Chain g st) (hl : AllLt (n + 1) st) :
    Good g n st := by
  induction hc with
  | bot v =>
    intro e he
    rw [List.mem_singleton] at he
    subst he
    exact ⟨Nat.lt_succ_iff.mp (hl _ List.mem_cons_self), Or.inl rfl⟩
  | cons v2 v1 z1 rest h1 h2 h3 ih =>
    intro e he
    have hv2 : v2 ≤ n := Nat.lt_succ_iff.mp (hl (v2, _) List.mem_cons_self)
    rcases List.mem_cons.1 he with rfl | he'
    · exact ⟨hv2, Or.inr ⟨v1, v2, h1, hv2, rfl⟩⟩
    · exact ih (fun e he => hl e (List.mem_cons_of_mem _ he)) e he'

/-- rounding the breakpoints does not change the top root -/
theorem topV_rmap (rnd : ℚ → ℚ) (st : Stack) : topV (rmap rnd st) = topV st := by
  cases st with
  | nil => rfl
  | cons e r => obtain ⟨v, z⟩ := e; rfl

/-- rounding the breakpoints does not change the head root -/
theorem headV_rmap (rnd : ℚ → ℚ) (st : Stack) : headV (rmap rnd st) = headV st := by
  cases st with
  | nil => rfl
  | cons e r => obtain ⟨v, z⟩ := e; rfl

/-- the pop condition `s ≤ z[k]` has the same outcome on rounded values as on exact ones -/
theorem leOpt_rmap (rnd : ℚ → ℚ) (g : ℕ → ℚ) (n : ℕ) (hA : AbscissaExact rnd g n) (v q : ℕ)
    (hvq : v < q) (hq : q ≤ n) (z : Option ℚ) (hz : GoodZ g n z) :
    leOpt (rnd (sInt g v q)) (z.map rnd) = leOpt (sInt g v q) z := by
  rcases hz with rfl | ⟨u', v', h1, h2, rfl⟩
  · rfl
  · simp only [Option.map_some, leOpt]
    exact decide_eq_decide.2 (hA.1 v q u' v' hvq hq h1 h2)

/-- the walk condition `z[k] < q` has the same outcome on the rounded breakpoint as on the exact one -/
theorem ltOpt_rmap (rnd : ℚ → ℚ) (g : ℕ → ℚ) (n : ℕ) (hA : AbscissaExact rnd g n) (q : ℕ)
    (hq : q ≤ n) (z : Option ℚ) (hz : GoodZ g n z) :
    ltOpt (z.map rnd) (q : ℚ) = ltOpt z (q : ℚ) := by
  rcases hz with rfl | ⟨u', v', h1, h2, rfl⟩
  · rfl
  · simp only [Option.map_some, ltOpt]
    exact decide_eq_decide.2 (hA.2 u' v' q h1 h2 hq)

/-- the pop loop on rounded breakpoints pops exactly the same entries -/
theorem popToR_rmap (rnd : ℚ → ℚ) (g : ℕ → ℚ) (n : ℕ) (hA : AbscissaExact rnd g n) (q : ℕ)
    (hq : q ≤ n) (st : Stack) (hg : Good g n st) (hl : AllLt q st) :
    popToR rnd g q (rmap rnd st) = rmap rnd (popTo g q st) := by
  induction st with
  | nil => rfl
  | cons e rest ih =>
    obtain ⟨v, z⟩ := e
    have hvq : v < q := hl (v, z) List.mem_cons_self
    have hz : GoodZ g n z := (hg (v, z) List.mem_cons_self).2
    have hle := leOpt_rmap rnd g n hA v q hvq hq z hz
    have hrest := ih (fun e he => hg e (List.mem_cons_of_mem _ he))
      (fun e he => hl e (List.mem_cons_of_mem _ he))
    show popToR rnd g q ((v, z.map rnd) :: rmap rnd rest) = _
    rw [popToR, popTo, hle]
    cases hp : leOpt (sInt g v q) z
    · simp only [Bool.false_eq_true, if_false]; rfl
    · simp only [if_true]; exact hrest

/-- one step of the first loop on rounded breakpoints: same stack as the exact step, breakpoints rounded -/
theorem pushR_rmap (rnd : ℚ → ℚ) (g : ℕ → ℚ) (n : ℕ) (hA : AbscissaExact rnd g n) (q : ℕ)
    (hq : q ≤ n) (st : Stack) (hg : Good g n st) (hl : AllLt q st) :
    pushR rnd g q (rmap rnd st) = rmap rnd (push g q st) := by
  unfold pushR push
  rw [popToR_rmap rnd g n hA q hq st hg hl, topV_rmap]
  rfl

/-- **The rounded first loop.** Under `AbscissaExact` the stack built with rounded abscissae has the same
    roots as the exact stack and its breakpoints are the roundings of the exact breakpoints. -/
theorem buildR_eq (rnd : ℚ → ℚ) (g : ℕ → ℚ) (n : ℕ) (hA : AbscissaExact rnd g n) (m : ℕ)
    (hm : m ≤ n) : buildR rnd g m = (build g m).map (fun e => (e.1, e.2.map rnd)) := by
  show buildR rnd g m = rmap rnd (build g m)
  induction m with
  | zero => rfl
  | succ m ih =>
    obtain ⟨hc, hl, _⟩ := build_inv g m
    have hgood : Good g n (build g m) := by
      intro e he
      have := chain_good g m _ hc hl e he
      refine ⟨by omega, ?_⟩
      rcases this.2 with h | ⟨u, v, h1, h2, h3⟩
      · exact Or.inl h
      · exact Or.inr ⟨u, v, h1, by omega, h3⟩
    show pushR rnd g (m + 1) (buildR rnd g m) = rmap rnd (push g (m + 1) (build g m))
    rw [ih (by omega)]
    exact pushR_rmap rnd g n hA (m + 1) hm _ hgood hl

/-- searching the owner of an integer `q` from the top gives the same root on rounded breakpoints -/
theorem owner_rmap (rnd : ℚ → ℚ) (g : ℕ → ℚ) (n : ℕ) (hA : AbscissaExact rnd g n) (q : ℕ)
    (hq : q ≤ n) (st : Stack) (hg : Good g n st) :
    owner (rmap rnd st) (q : ℚ) = owner st (q : ℚ) := by
  induction st with
  | nil => rfl
  | cons e rest ih =>
    obtain ⟨v, z⟩ := e
    have hz : GoodZ g n z := (hg (v, z) List.mem_cons_self).2
    show owner ((v, z.map rnd) :: rmap rnd rest) (q : ℚ) = _
    rw [owner, owner, ltOpt_rmap rnd g n hA q hq z hz,
      ih (fun e he => hg e (List.mem_cons_of_mem _ he))]

/-- one walk `while (z[k+1] < q) ++k` on rounded breakpoints stops at the same entry as the exact walk -/
theorem advance_rmap (rnd : ℚ → ℚ) (g : ℕ → ℚ) (n : ℕ) (hA : AbscissaExact rnd g n) (q : ℕ)
    (hq : q ≤ n) (l : Stack) (hg : Good g n l) :
    advance (q : ℚ) (rmap rnd l) = rmap rnd (advance (q : ℚ) l) ∧ Good g n (advance (q : ℚ) l) := by
  induction l with
  | nil => exact ⟨rfl, hg⟩
  | cons e rest ih =>
    cases rest with
    | nil => exact ⟨rfl, hg⟩
    | cons e' r =>
      have hg' : Good g n (e' :: r) := fun a ha => hg a (List.mem_cons_of_mem _ ha)
      have hz : GoodZ g n e'.2 := (hg' e' List.mem_cons_self).2
      have hlt := ltOpt_rmap rnd g n hA q hq e'.2 hz
      obtain ⟨ih1, ih2⟩ := ih hg'
      show advance (q : ℚ) ((e.1, e.2.map rnd) :: (e'.1, e'.2.map rnd) :: rmap rnd r) = _ ∧ _
      rw [advance, advance]
      simp only [hlt]
      cases hp : ltOpt e'.2 (q : ℚ)
      · simp only [Bool.false_eq_true, if_false]
        exact ⟨rfl, hg⟩
      · simp only [if_true]
        exact ⟨ih1, ih2⟩

/-- the read-out fold on rounded breakpoints follows the exact one -/
theorem readFold_rmap (rnd : ℚ → ℚ) (g : ℕ → ℚ) (n : ℕ) (hA : AbscissaExact rnd g n)
    (qs : List ℕ) (hqs : ∀ q ∈ qs, q ≤ n) (l : Stack) (hg : Good g n l) (out : List ℕ) :
    qs.foldl (fun (acc : List (ℕ × Option ℚ) × List ℕ) (q : ℕ) =>
        let cur := advance (q : ℚ) acc.1
        (cur, acc.2 ++ [headV cur])) (rmap rnd l, out)
      = (rmap rnd (qs.foldl (fun (acc : List (ℕ × Option ℚ) × List ℕ) (q : ℕ) =>
            let cur := advance (q : ℚ) acc.1
            (cur, acc.2 ++ [headV cur])) (l, out)).1,
         (qs.foldl (fun (acc : List (ℕ × Option ℚ) × List ℕ) (q : ℕ) =>
            let cur := advance (q : ℚ) acc.1
            (cur, acc.2 ++ [headV cur])) (l, out)).2) := by
  induction qs generalizing l out with
  | nil => rfl
  | cons q qs ih =>
    simp only [List.foldl_cons]
    obtain ⟨h1, h2⟩ := advance_rmap rnd g n hA q (hqs q List.mem_cons_self) l hg
    rw [h1, headV_rmap]
    exact ih (fun q hq => hqs q (List.mem_cons_of_mem _ hq)) _ h2 _

/-- the second loop over `q = 0 … k-1` (`k ≤ n+1`) reports the same owners on rounded breakpoints -/
theorem readOwners_rmap (rnd : ℚ → ℚ) (g : ℕ → ℚ) (n : ℕ) (hA : AbscissaExact rnd g n)
    (k : ℕ) (hk : k ≤ n + 1) (l : Stack) (hg : Good g n l) :
    readOwners k (rmap rnd l) = readOwners k l := by
  unfold readOwners
  rw [readFold_rmap rnd g n hA (List.range k)
    (fun q hq => by rw [List.mem_range] at hq; omega) l hg []]

/-- **Doubles select the same owners.** Let the comparisons between rounded abscissae, and between rounded
    abscissae and integer indices, have the exact outcome for the line `g` with indices `0 … m`
    (`AbscissaExact`, proved from numeric bounds in `abscissaExact_of_bounds`/`abscissaExact_small`).
    Then the first loop run with rounded abscissae builds the stack of the exact model with every breakpoint
    rounded, the owner found from the top for every integer `q ≤ m` is the owner of the exact model, and the
    read-out walk `while (z[k+1] < q) ++k` over `q = 0 … m` reports the same owners as in the exact model. -/
theorem rounded_model_same_owners (rnd : ℚ → ℚ) (g : ℕ → ℚ) (m : ℕ) (hA : AbscissaExact rnd g m) :
    buildR rnd g m = (build g m).map (fun e => (e.1, e.2.map rnd)) ∧
    (∀ q : ℕ, q ≤ m → owner (buildR rnd g m) (q : ℚ) = owner (build g m) (q : ℚ)) ∧
    readOwners (m + 1) (buildR rnd g m).reverse = readOwners (m + 1) (build g m).reverse := by
  obtain ⟨hc, hl, _⟩ := build_inv g m
  have hgood : Good g m (build g m) := chain_good g m _ hc hl
  have hb := buildR_eq rnd g m hA m (le_refl _)
  refine ⟨hb, ?_, ?_⟩
  · intro q hq
    rw [hb]
    exact owner_rmap rnd g m hA q hq _ hgood
  · rw [hb]
    have hrev : ((build g m).map (fun e => (e.1, e.2.map rnd))).reverse = rmap rnd (build g m).reverse := by
      unfold rmap; rw [List.map_reverse]
    rw [hrev]
    apply readOwners_rmap rnd g m hA (m + 1) (le_refl _)
    intro e he
    exact hgood e (List.mem_reverse.1 he)

/-- **The 1-D owners in doubles.** For an integer line `f` on which the comparisons are exact, the owners
    found by `dist_transform` with rounded abscissae are those of the exact model `owners1d`. -/
theorem owners1dR_eq (rnd : ℚ → ℚ) (f : Array Int)
    (hA : AbscissaExact rnd (gOf f) (f.size - 1)) : owners1dR rnd f = owners1d f := by
  unfold owners1dR owners1d
  cases hsz : f.size with
  | zero => rfl
  | succ m =>
    simp only
    rw [hsz] at hA
    exact (rounded_model_same_owners rnd (gOf f) m (by simpa using hA)).2.2

/-- **The 1-D owners in doubles, sizes that occur.** For a line of at most `2^12` integer samples in
    `[0, 2^26]` and every rounding with the properties of IEEE-754 binary64 round-to-nearest (`Rounding`),
    the owners found with rounded abscissae are those of the exact model. -/
theorem owners1dR_eq_small (rnd : ℚ → ℚ) (hr : Rounding rnd) (f : Array Int)
    (hsize : f.size ≤ 2 ^ 12) (hlo : ∀ i, 0 ≤ f.getD i 0) (hhi : ∀ i, f.getD i 0 ≤ 2 ^ 26) :
    owners1dR rnd f = owners1d f := by
  apply owners1dR_eq
  cases hsz : f.size with
  | zero =>
    exact abscissaExact_small rnd hr (gOf f) (fun i => f.getD i 0) 0 (by norm_num)
      (fun i _ => rfl) (fun i _ => by unfold gOf; exact_mod_cast hlo i)
      (fun i _ => by unfold gOf; exact_mod_cast hhi i)
  | succ m =>
    exact abscissaExact_small rnd hr (gOf f) (fun i => f.getD i 0) (m + 1 - 1) (by omega)
      (fun i _ => rfl) (fun i _ => by unfold gOf; exact_mod_cast hlo i)
      (fun i _ => by unfold gOf; exact_mod_cast hhi i)

end Mahotas.C05
