/-
Helper lemmas for C05, part 7: a CONCRETE rounding function with the properties of the abstract interface
`Rounding` of `Proofs/C05Abscissa.lean` — round to nearest with a 53-bit significand.

`rndBin n x` rounds the rational `x` to the nearest multiple of `ulp(x) = 2^(⌊log₂|x|⌋ − 52)` — the spacing
of the binary64 numbers in the binade `[2^e, 2^(e+1))` of `|x|` — the integer `n (x / ulp)` being chosen by
a nearest-integer function `n` (any tie rule). `roundEven` is nearest with ties to even, and
`rne53 = rndBin roundEven` is IEEE-754 binary64 `roundTiesToEven` with an UNBOUNDED exponent range: it agrees
with the hardware rounding of a real number whose magnitude lies in the normal range `[2^-1022, 2^1024)`
(no overflow to infinity, no subnormal spacing) and maps 0 to 0. Bit patterns are not modelled.

* `rndBin_rounding`: for every nearest-integer function `n`, `rndBin n` is a `Rounding` (monotone, relative
  error at most `2^-53`, exact on integers up to `2^53`);
* `rne53_rounding`: in particular `rne53`;
* `rndBin_significand`: the result is `m · 2^(e−52)` with an integer significand `2^52 ≤ |m| ≤ 2^53`, nearest
  to `x`; `roundEven_tie_even`: ties go to the even significand;
* `sInt_zero_or_normal`, `lines_abscissa_normal`: under the numeric bounds every abscissa is `0` or has
  magnitude in `[1/(2n), B]`; on every line of every pass of `distance()` (sides `≤ 2^12`, sentinel `≤ 2^26`)
  in `[2^-13, 2^27]` — far inside the normal range of binary64;
* `distanceRounded_rne53_eq`: the whole-image model with `rne53` abscissae equals `distanceCoord`.
-/
import Mahotas.Proofs.C05Abscissa
import Mahotas.Proofs.C05Rounded
import Mathlib.Data.Int.Log
import Mathlib.Data.Rat.Floor
import Mathlib.Algebra.Order.Floor.Ring
import Mathlib.Tactic.SplitIfs
import Mathlib.Tactic.Push

set_option linter.unusedSimpArgs false
set_option linter.unusedVariables false
namespace Mahotas.C05
open Mahotas Mahotas.C04

/-! ### 1. nearest-integer functions -/

/-- nearest integer, ties to even -/
def roundEven (y : ℚ) : ℤ :=
  if y - (⌊y⌋ : ℚ) < 1 / 2 then ⌊y⌋
  else if 1 / 2 < y - (⌊y⌋ : ℚ) then ⌊y⌋ + 1
  else if ⌊y⌋ % 2 = 0 then ⌊y⌋ else ⌊y⌋ + 1

/-- `roundEven y` is an integer nearest to `y` -/
theorem roundEven_near (y : ℚ) : |(roundEven y : ℚ) - y| ≤ 1 / 2 := by
  have h1 := Int.floor_le y
  have h2 := Int.lt_floor_add_one y
  unfold roundEven
  split_ifs <;> push_cast <;> rw [abs_le] <;> constructor <;> linarith

/-- on a tie the even neighbour is chosen -/
theorem roundEven_tie_even (y : ℚ) (h : y - (⌊y⌋ : ℚ) = 1 / 2) : roundEven y % 2 = 0 := by
  unfold roundEven
  rw [h]
  simp only [lt_irrefl, if_false]
  split_ifs with h2
  · exact h2
  · omega

/-- a nearest-integer function fixes the integers -/
theorem nearest_int (n : ℚ → ℤ) (hn : ∀ y, |(n y : ℚ) - y| ≤ 1 / 2) (k : ℤ) : n (k : ℚ) = k := by
  have h := hn (k : ℚ)
  by_contra hne
  have h1 : (1 : ℤ) ≤ |n (k : ℚ) - k| := Int.one_le_abs (sub_ne_zero.2 hne)
  have h2 : (1 : ℚ) ≤ |((n (k : ℚ) - k : ℤ) : ℚ)| := by
    rw [← Int.cast_abs]; exact_mod_cast h1
  push_cast at h2
  linarith

/-- a nearest-integer function is monotone (whatever its tie rule) -/
theorem nearest_mono (n : ℚ → ℤ) (hn : ∀ y, |(n y : ℚ) - y| ≤ 1 / 2) (y y' : ℚ) (h : y ≤ y') :
    n y ≤ n y' := by
  by_contra hlt
  have h1 : n y' + 1 ≤ n y := by omega
  have h2 : (n y' : ℚ) + 1 ≤ (n y : ℚ) := by exact_mod_cast h1
  have a := (abs_le.1 (hn y)).2
  have b := (abs_le.1 (hn y')).1
  rcases eq_or_lt_of_le h with rfl | hlt'
  · omega
  · linarith

/-! ### 2. rounding to a 53-bit significand -/

/-- round `x` to the nearest multiple of `2^(⌊log₂|x|⌋ − 52)`, the integer quotient chosen by `n` -/
def rndBin (n : ℚ → ℤ) (x : ℚ) : ℚ :=
  (n (x / (2 : ℚ) ^ (Int.log 2 |x| - 52)) : ℚ) * (2 : ℚ) ^ (Int.log 2 |x| - 52)

/-- IEEE-754 binary64 `roundTiesToEven` of a rational, exponent range unbounded -/
def rne53 (x : ℚ) : ℚ := rndBin roundEven x

theorem binade (x : ℚ) (hx : x ≠ 0) :
    (2 : ℚ) ^ Int.log 2 |x| ≤ |x| ∧ |x| < (2 : ℚ) ^ (Int.log 2 |x| + 1) := by
  have hpos : 0 < |x| := abs_pos.2 hx
  have h1 := Int.zpow_log_le_self (b := 2) (r := |x|) (by norm_num) hpos
  have h2 := Int.lt_zpow_succ_log_self (b := 2) (by norm_num) |x|
  rw [Nat.cast_ofNat] at h1 h2
  exact ⟨h1, h2⟩

theorem ulp_pos (e : ℤ) : (0 : ℚ) < (2 : ℚ) ^ (e - 52) := zpow_pos (by norm_num) _

theorem two_zpow_eq (e : ℤ) : (2 : ℚ) ^ e = 2 ^ 52 * (2 : ℚ) ^ (e - 52) := by
  have : (2 : ℚ) ^ e = (2 : ℚ) ^ (e - 52) * (2 : ℚ) ^ (52 : ℤ) := by
    rw [← zpow_add₀ (two_ne_zero)]; congr 1; ring
  rw [this]
  have h52 : (2 : ℚ) ^ (52 : ℤ) = 2 ^ 52 := by norm_num
  rw [h52]; ring

theorem two_zpow_succ_eq (e : ℤ) : (2 : ℚ) ^ (e + 1) = 2 ^ 53 * (2 : ℚ) ^ (e - 52) := by
  rw [zpow_add₀ (two_ne_zero), two_zpow_eq e]
  norm_num
  ring

/-- if `x` is at least an integer multiple of its ulp, so is its rounding -/
theorem rndBin_ge (n : ℚ → ℤ) (hn : ∀ y, |(n y : ℚ) - y| ≤ 1 / 2) (x : ℚ) (a : ℤ)
    (ha : (a : ℚ) * (2 : ℚ) ^ (Int.log 2 |x| - 52) ≤ x) :
    (a : ℚ) * (2 : ℚ) ^ (Int.log 2 |x| - 52) ≤ rndBin n x := by
  have hU := ulp_pos (Int.log 2 |x|)
  have h1 : (a : ℚ) ≤ x / (2 : ℚ) ^ (Int.log 2 |x| - 52) := (le_div_iff₀ hU).2 ha
  have m1 := nearest_mono n hn _ _ h1
  rw [nearest_int n hn] at m1
  have c1 : (a : ℚ) ≤ (n (x / (2 : ℚ) ^ (Int.log 2 |x| - 52)) : ℚ) := by exact_mod_cast m1
  unfold rndBin
  exact mul_le_mul_of_nonneg_right c1 hU.le

/-- if `x` is at most an integer multiple of its ulp, so is its rounding -/
theorem rndBin_le (n : ℚ → ℤ) (hn : ∀ y, |(n y : ℚ) - y| ≤ 1 / 2) (x : ℚ) (b : ℤ)
    (hb : x ≤ (b : ℚ) * (2 : ℚ) ^ (Int.log 2 |x| - 52)) :
    rndBin n x ≤ (b : ℚ) * (2 : ℚ) ^ (Int.log 2 |x| - 52) := by
  have hU := ulp_pos (Int.log 2 |x|)
  have h2 : x / (2 : ℚ) ^ (Int.log 2 |x| - 52) ≤ (b : ℚ) := (div_le_iff₀ hU).2 hb
  have m2 := nearest_mono n hn _ _ h2
  rw [nearest_int n hn] at m2
  have c2 : (n (x / (2 : ℚ) ^ (Int.log 2 |x| - 52)) : ℚ) ≤ (b : ℚ) := by exact_mod_cast m2
  unfold rndBin
  exact mul_le_mul_of_nonneg_right c2 hU.le

theorem rndBin_nonneg (n : ℚ → ℤ) (hn : ∀ y, |(n y : ℚ) - y| ≤ 1 / 2) (x : ℚ) (hx : 0 ≤ x) :
    0 ≤ rndBin n x := by
  have := rndBin_ge n hn x 0 (by simpa using hx)
  simpa using this

theorem rndBin_nonpos (n : ℚ → ℤ) (hn : ∀ y, |(n y : ℚ) - y| ≤ 1 / 2) (x : ℚ) (hx : x ≤ 0) :
    rndBin n x ≤ 0 := by
  have := rndBin_le n hn x 0 (by simpa using hx)
  simpa using this

/-- a positive `x` in the binade `[2^e, 2^(e+1))` is rounded into `[2^e, 2^(e+1)]` -/
theorem rndBin_pos_range (n : ℚ → ℤ) (hn : ∀ y, |(n y : ℚ) - y| ≤ 1 / 2) (x : ℚ) (hx : 0 < x) :
    (2 : ℚ) ^ Int.log 2 |x| ≤ rndBin n x ∧ rndBin n x ≤ (2 : ℚ) ^ (Int.log 2 |x| + 1) := by
  obtain ⟨h1, h2⟩ := binade x hx.ne'
  rw [abs_of_pos hx] at h1 h2
  rw [abs_of_pos hx]
  rw [two_zpow_eq] at h1 ⊢
  rw [two_zpow_succ_eq] at h2 ⊢
  have a := rndBin_ge n hn x (2 ^ 52) (by rw [abs_of_pos hx]; push_cast; exact h1)
  have b := rndBin_le n hn x (2 ^ 53) (by rw [abs_of_pos hx]; push_cast; exact h2.le)
  rw [abs_of_pos hx] at a b
  push_cast at a b
  exact ⟨a, b⟩

/-- a negative `x` with `|x|` in the binade `[2^e, 2^(e+1))` is rounded into `[-2^(e+1), -2^e]` -/
theorem rndBin_neg_range (n : ℚ → ℤ) (hn : ∀ y, |(n y : ℚ) - y| ≤ 1 / 2) (x : ℚ) (hx : x < 0) :
    -(2 : ℚ) ^ (Int.log 2 |x| + 1) ≤ rndBin n x ∧ rndBin n x ≤ -(2 : ℚ) ^ Int.log 2 |x| := by
  obtain ⟨h1, h2⟩ := binade x hx.ne
  rw [two_zpow_succ_eq (Int.log 2 |x|)] at h2 ⊢
  rw [two_zpow_eq (Int.log 2 |x|)] at h1 ⊢
  have habs : |x| = -x := abs_of_neg hx
  have a := rndBin_ge n hn x (-(2 ^ 53)) (by push_cast; linarith)
  have b := rndBin_le n hn x (-(2 ^ 52)) (by push_cast; linarith)
  push_cast at a b
  constructor <;> linarith

/-- **The result is a binary64 value nearest to `x`.** For `x ≠ 0` with `2^e ≤ |x| < 2^(e+1)` the rounding
    is `m · 2^(e−52)` for an integer significand `m` with `2^52 ≤ |m| ≤ 2^53` (53 bits; `2^53` is the carry
    into the next binade) at distance at most half a unit from `x / 2^(e−52)`. -/
theorem rndBin_significand (n : ℚ → ℤ) (hn : ∀ y, |(n y : ℚ) - y| ≤ 1 / 2) (x : ℚ) (hx : x ≠ 0) :
    ∃ m : ℤ, rndBin n x = (m : ℚ) * (2 : ℚ) ^ (Int.log 2 |x| - 52) ∧ 2 ^ 52 ≤ |m| ∧ |m| ≤ 2 ^ 53 ∧
      |(m : ℚ) - x / (2 : ℚ) ^ (Int.log 2 |x| - 52)| ≤ 1 / 2 := by
  have hU := ulp_pos (Int.log 2 |x|)
  refine ⟨n (x / (2 : ℚ) ^ (Int.log 2 |x| - 52)), rfl, ?_⟩
  rcases lt_or_gt_of_ne hx with hneg | hpos
  · obtain ⟨a, b⟩ := rndBin_neg_range n hn x hneg
    rw [two_zpow_succ_eq (Int.log 2 |x|)] at a
    rw [two_zpow_eq (Int.log 2 |x|)] at b
    unfold rndBin at a b
    have a1 : (-(2 : ℚ) ^ 53) ≤ (n (x / (2 : ℚ) ^ (Int.log 2 |x| - 52)) : ℚ) :=
      le_of_mul_le_mul_right (by linarith) hU
    have b1 : (n (x / (2 : ℚ) ^ (Int.log 2 |x| - 52)) : ℚ) ≤ -(2 : ℚ) ^ 52 :=
      le_of_mul_le_mul_right (by linarith) hU
    have a2 : -(2 : ℤ) ^ 53 ≤ n (x / (2 : ℚ) ^ (Int.log 2 |x| - 52)) := by exact_mod_cast a1
    have b2 : n (x / (2 : ℚ) ^ (Int.log 2 |x| - 52)) ≤ -(2 : ℤ) ^ 52 := by exact_mod_cast b1
    exact ⟨le_abs.2 (Or.inr (by omega)), abs_le.2 ⟨a2, by omega⟩, hn _⟩
  · obtain ⟨a, b⟩ := rndBin_pos_range n hn x hpos
    rw [two_zpow_eq (Int.log 2 |x|)] at a
    rw [two_zpow_succ_eq (Int.log 2 |x|)] at b
    unfold rndBin at a b
    have a1 : ((2 : ℚ) ^ 52) ≤ (n (x / (2 : ℚ) ^ (Int.log 2 |x| - 52)) : ℚ) :=
      le_of_mul_le_mul_right (by linarith) hU
    have b1 : (n (x / (2 : ℚ) ^ (Int.log 2 |x| - 52)) : ℚ) ≤ (2 : ℚ) ^ 53 :=
      le_of_mul_le_mul_right (by linarith) hU
    have a2 : (2 : ℤ) ^ 52 ≤ n (x / (2 : ℚ) ^ (Int.log 2 |x| - 52)) := by exact_mod_cast a1
    have b2 : n (x / (2 : ℚ) ^ (Int.log 2 |x| - 52)) ≤ (2 : ℤ) ^ 53 := by exact_mod_cast b1
    exact ⟨le_abs.2 (Or.inl a2), abs_le.2 ⟨by omega, b2⟩, hn _⟩

/-- same binade: the rounding is monotone because the nearest-integer function is -/
theorem rndBin_mono_same (n : ℚ → ℤ) (hn : ∀ y, |(n y : ℚ) - y| ≤ 1 / 2) (x y : ℚ) (h : x ≤ y)
    (he : Int.log 2 |x| = Int.log 2 |y|) : rndBin n x ≤ rndBin n y := by
  unfold rndBin
  rw [he]
  have hU := ulp_pos (Int.log 2 |y|)
  have := nearest_mono n hn _ _ (div_le_div_of_nonneg_right h hU.le)
  exact mul_le_mul_of_nonneg_right (by exact_mod_cast this) hU.le

theorem two_zpow_mono (a b : ℤ) (h : a ≤ b) : (2 : ℚ) ^ a ≤ (2 : ℚ) ^ b :=
  zpow_le_zpow_right₀ (by norm_num) h

/-- **monotone** -/
theorem rndBin_mono (n : ℚ → ℤ) (hn : ∀ y, |(n y : ℚ) - y| ≤ 1 / 2) (x y : ℚ) (h : x ≤ y) :
    rndBin n x ≤ rndBin n y := by
  rcases le_or_gt x 0 with hx0 | hx0
  · rcases le_or_gt 0 y with hy0 | hy0
    · exact le_trans (rndBin_nonpos n hn x hx0) (rndBin_nonneg n hn y hy0)
    · -- x ≤ y < 0
      have hxneg : x < 0 := lt_of_le_of_lt h hy0
      have habs : |y| ≤ |x| := by rw [abs_of_neg hy0, abs_of_neg hxneg]; linarith
      have hlog : Int.log 2 |y| ≤ Int.log 2 |x| := Int.log_mono_right (abs_pos.2 hy0.ne) habs
      rcases eq_or_lt_of_le hlog with he | hlt
      · exact rndBin_mono_same n hn x y h he.symm
      · have a := (rndBin_neg_range n hn x hxneg).2
        have b := (rndBin_neg_range n hn y hy0).1
        have c := two_zpow_mono (Int.log 2 |y| + 1) (Int.log 2 |x|) (by omega)
        linarith
  · -- 0 < x ≤ y
    have hy0 : 0 < y := lt_of_lt_of_le hx0 h
    have habs : |x| ≤ |y| := by rw [abs_of_pos hx0, abs_of_pos hy0]; exact h
    have hlog : Int.log 2 |x| ≤ Int.log 2 |y| := Int.log_mono_right (abs_pos.2 hx0.ne') habs
    rcases eq_or_lt_of_le hlog with he | hlt
    · exact rndBin_mono_same n hn x y h he
    · have a := (rndBin_pos_range n hn x hx0).2
      have b := (rndBin_pos_range n hn y hy0).1
      have c := two_zpow_mono (Int.log 2 |x| + 1) (Int.log 2 |y|) (by omega)
      linarith

/-- **relative error at most `2^-53`** (half an ulp, the ulp being at most `|x|·2^-52`) -/
theorem rndBin_rel (n : ℚ → ℤ) (hn : ∀ y, |(n y : ℚ) - y| ≤ 1 / 2) (x : ℚ) :
    |rndBin n x - x| ≤ |x| / 2 ^ 53 := by
  have hU := ulp_pos (Int.log 2 |x|)
  have hnear := hn (x / (2 : ℚ) ^ (Int.log 2 |x| - 52))
  have hx : x = x / (2 : ℚ) ^ (Int.log 2 |x| - 52) * (2 : ℚ) ^ (Int.log 2 |x| - 52) := by
    field_simp
  have hdiff : rndBin n x - x =
      ((n (x / (2 : ℚ) ^ (Int.log 2 |x| - 52)) : ℚ) - x / (2 : ℚ) ^ (Int.log 2 |x| - 52)) *
        (2 : ℚ) ^ (Int.log 2 |x| - 52) := by
    unfold rndBin
    rw [sub_mul, ← hx]
  have hhalf : |rndBin n x - x| ≤ 1 / 2 * (2 : ℚ) ^ (Int.log 2 |x| - 52) := by
    rw [hdiff, abs_mul, abs_of_pos hU]
    exact mul_le_mul_of_nonneg_right hnear hU.le
  by_cases hx0 : x = 0
  · have hn0 : n 0 = 0 := by simpa using nearest_int n hn 0
    have : rndBin n x = 0 := by
      unfold rndBin; rw [hx0]; simp [hn0]
    rw [this, hx0]; simp
  · obtain ⟨h1, _⟩ := binade x hx0
    rw [two_zpow_eq] at h1
    rw [le_div_iff₀ (by positivity)]
    have : 1 / 2 * (2 : ℚ) ^ (Int.log 2 |x| - 52) * 2 ^ 53 = 2 ^ 52 * (2 : ℚ) ^ (Int.log 2 |x| - 52) := by
      ring
    calc |rndBin n x - x| * 2 ^ 53 ≤ 1 / 2 * (2 : ℚ) ^ (Int.log 2 |x| - 52) * 2 ^ 53 :=
          mul_le_mul_of_nonneg_right hhalf (by positivity)
      _ = 2 ^ 52 * (2 : ℚ) ^ (Int.log 2 |x| - 52) := this
      _ ≤ |x| := h1

/-- a rational that is an integer multiple of its ulp is not changed -/
theorem rndBin_of_multiple (n : ℚ → ℤ) (hn : ∀ y, |(n y : ℚ) - y| ≤ 1 / 2) (x : ℚ) (m : ℤ)
    (hm : x = (m : ℚ) * (2 : ℚ) ^ (Int.log 2 |x| - 52)) : rndBin n x = x := by
  have hU := ulp_pos (Int.log 2 |x|)
  have hq : x / (2 : ℚ) ^ (Int.log 2 |x| - 52) = (m : ℚ) := by
    rw [div_eq_iff hU.ne']; exact hm
  unfold rndBin
  rw [hq, nearest_int n hn, ← hm]

/-- **integers up to `2^53` are representable** -/
theorem rndBin_exact_int (n : ℚ → ℤ) (hn : ∀ y, |(n y : ℚ) - y| ≤ 1 / 2) (k : ℤ)
    (hk : |(k : ℚ)| ≤ 2 ^ 53) : rndBin n (k : ℚ) = (k : ℚ) := by
  by_cases hk0 : (k : ℚ) = 0
  · have hn0 : n 0 = 0 := by simpa using nearest_int n hn 0
    rw [hk0]; unfold rndBin; simp [hn0]
  obtain ⟨h1, h2⟩ := binade (k : ℚ) hk0
  rcases eq_or_lt_of_le hk with heq | hlt
  · -- |k| = 2^53: the exponent is 53, the ulp is 2, k/2 = ±2^52
    have hlog : Int.log 2 |(k : ℚ)| = 53 := by
      rw [heq]
      have : ((2 : ℚ) ^ 53) = ((2 : ℕ) : ℚ) ^ (53 : ℤ) := by norm_num
      rw [this, Int.log_zpow (by norm_num)]
    rcases abs_eq (by positivity : (0 : ℚ) ≤ 2 ^ 53) |>.1 heq with hp | hm
    · apply rndBin_of_multiple n hn _ (2 ^ 52)
      rw [hlog, hp]; norm_num
    · apply rndBin_of_multiple n hn _ (-(2 ^ 52))
      rw [hlog, hm]; norm_num
  · -- |k| < 2^53: the exponent is at most 52, the ulp is 2^-j, k·2^j is an integer
    have he : Int.log 2 |(k : ℚ)| < 53 := by
      have h3 : (2 : ℚ) ^ Int.log 2 |(k : ℚ)| < (2 : ℚ) ^ (53 : ℤ) := by
        refine lt_of_le_of_lt h1 (lt_of_lt_of_eq hlt ?_)
        norm_num
      exact (zpow_lt_zpow_iff_right₀ (by norm_num : (1 : ℚ) < 2)).1 h3
    obtain ⟨j, hj⟩ : ∃ j : ℕ, Int.log 2 |(k : ℚ)| - 52 = -(j : ℤ) :=
      ⟨(52 - Int.log 2 |(k : ℚ)|).toNat, by omega⟩
    apply rndBin_of_multiple n hn _ (k * 2 ^ j)
    rw [hj, zpow_neg, zpow_natCast]
    push_cast
    field_simp

/-- **Every round-to-nearest with a 53-bit significand is a `Rounding`**, whatever its tie rule. -/
theorem rndBin_rounding (n : ℚ → ℤ) (hn : ∀ y, |(n y : ℚ) - y| ≤ 1 / 2) : Rounding (rndBin n) :=
  ⟨rndBin_mono n hn, rndBin_rel n hn, rndBin_exact_int n hn⟩

/-- **binary64 `roundTiesToEven` (unbounded exponent) is a `Rounding`.** -/
theorem rne53_rounding : Rounding rne53 := rndBin_rounding roundEven roundEven_near

/-! ### 3. evaluating the rounding -/

/-- the exponent of `x`, given its binade -/
theorem log_of_binade (x : ℚ) (e : ℤ) (h1 : (2 : ℚ) ^ e ≤ |x|) (h2 : |x| < (2 : ℚ) ^ (e + 1)) :
    Int.log 2 |x| = e := by
  have hpos : 0 < |x| := lt_of_lt_of_le (zpow_pos (by norm_num) _) h1
  apply le_antisymm
  · have := (Int.lt_zpow_iff_log_lt (b := 2) (by norm_num) hpos (x := e + 1)).1 (by
      rw [Nat.cast_ofNat]; exact h2)
    omega
  · exact (Int.zpow_le_iff_le_log (b := 2) (by norm_num) hpos).1 (by rw [Nat.cast_ofNat]; exact h1)

/-- `roundEven y = k` as soon as `k` is strictly nearer than half a unit -/
theorem roundEven_eq_of_near (y : ℚ) (k : ℤ) (h : |(k : ℚ) - y| < 1 / 2) : roundEven y = k := by
  have hn := roundEven_near y
  by_contra hne
  have h1 : (1 : ℤ) ≤ |roundEven y - k| := Int.one_le_abs (sub_ne_zero.2 hne)
  have h2 : (1 : ℚ) ≤ |((roundEven y - k : ℤ) : ℚ)| := by
    rw [← Int.cast_abs]; exact_mod_cast h1
  push_cast at h2
  have h3 : |(roundEven y : ℚ) - k| ≤ |(roundEven y : ℚ) - y| + |(k : ℚ) - y| := by
    have := abs_sub_le (roundEven y : ℚ) y k
    rw [abs_sub_comm y (k : ℚ)] at this
    exact this
  linarith

/-- non-vacuity / sanity: `1/3` is rounded to the binary64 number `6004799503160661 · 2^-54` -/
theorem rne53_one_third : rne53 (1 / 3) = 6004799503160661 / 18014398509481984 := by
  have hlog : Int.log 2 |(1 / 3 : ℚ)| = -2 := by
    apply log_of_binade <;> norm_num [abs_of_pos]
  unfold rne53 rndBin
  rw [hlog]
  have hr : roundEven ((1 / 3 : ℚ) / (2 : ℚ) ^ ((-2 : ℤ) - 52)) = 6004799503160661 := by
    apply roundEven_eq_of_near
    norm_num [abs_lt]
  rw [hr]
  norm_num

/-! ### 4. the abscissae are 0 or far inside the normal range -/

/-- under the numeric bounds, an abscissa is `0` or has magnitude between `1/(2n)` and `B` -/
theorem sInt_zero_or_normal (g : ℕ → ℚ) (mi : ℕ → ℤ) (n : ℕ) (B : ℚ) (hg : ∀ i ≤ n, g i = (mi i : ℚ))
    (hgB : ∀ i ≤ n, |g i| + (i : ℚ) ^ 2 ≤ B) (u v : ℕ) (huv : u < v) (hv : v ≤ n) :
    sInt g u v = 0 ∨ (1 / (2 * (n : ℚ)) ≤ |sInt g u v| ∧ |sInt g u v| ≤ B) := by
  by_cases h0 : sInt g u v = 0
  · exact Or.inl h0
  · right
    refine ⟨?_, sInt_abs_le g B u v huv (hgB u (by omega)) (hgB v hv)⟩
    have := sInt_separation_int g mi n hg u v 0 huv hv (by simpa using h0)
    simpa using this

/-- **Every abscissa of every kernel call of `distance()` is 0 or far inside the normal range.** For sides
    `≤ 2^12` and sentinel `≤ 2^26`: on the line of any pass `k` through any pixel, the abscissa of any two
    roots `u < v` of the line is `0` or has magnitude in `[2^-13, 2^27]` (binary64 is normal on
    `[2^-1022, 2^1024)`). The kernel only ever rounds abscissae of this form (`v[k] < q ≤ n − 1`). -/
theorem lines_abscissa_normal (shape : List Nat) (bw : Array Int)
    (hside : ∀ d ∈ shape, d ≤ 2 ^ 12) (hsent : sentinel shape ≤ 2 ^ 26)
    (k : Nat) (hk : k < shape.length) (p : List Int) (u v : ℕ) (huv : u < v)
    (hv : v < shape.getD k 0) :
    sInt (gOf (lineOf ((List.range k).foldl passCoord (initCoord shape bw)).1 p k)) u v = 0 ∨
    (1 / 2 ^ 13 ≤ |sInt (gOf (lineOf ((List.range k).foldl passCoord (initCoord shape bw)).1 p k)) u v| ∧
     |sInt (gOf (lineOf ((List.range k).foldl passCoord (initCoord shape bw)).1 p k)) u v| ≤ 2 ^ 27) := by
  obtain ⟨hb, hs⟩ := passes_bounded shape bw k (by omega)
  have hmem : shape.getD k 0 ∈ shape := by
    rw [List.getD_eq_getElem?_getD, List.getElem?_eq_getElem hk]
    simp
  have hd := hside _ hmem
  set line := lineOf ((List.range k).foldl passCoord (initCoord shape bw)).1 p k with hline
  have hlo : ∀ i, (0 : ℚ) ≤ gOf line i := fun i => by
    unfold gOf; exact_mod_cast (line_bounds _ (sentinel_nonneg shape) _ hb p k i).1
  have hhi : ∀ i, gOf line i ≤ 2 ^ 26 := fun i => by
    have h1 := (line_bounds _ (sentinel_nonneg shape) _ hb p k i).2
    have h2 : line.getD i 0 ≤ 2 ^ 26 := le_trans h1 hsent
    unfold gOf; exact_mod_cast h2
  rcases sInt_zero_or_normal (gOf line) (fun i => line.getD i 0) 4095 (2 ^ 26 + 4095 ^ 2)
      (fun i _ => rfl) (fun i hi => by
        rw [abs_of_nonneg (hlo i)]
        have hiq : (i : ℚ) ≤ 4095 := by exact_mod_cast hi
        have hi0 : (0 : ℚ) ≤ i := by positivity
        have : (i : ℚ) ^ 2 ≤ 4095 ^ 2 := by nlinarith
        linarith [hhi i]) u v huv (by omega) with h0 | ⟨h1, h2⟩
  · exact Or.inl h0
  · right
    constructor
    · refine le_trans ?_ h1
      norm_num
    · refine le_trans h2 ?_
      norm_num

/-- **The whole function with binary64 `roundTiesToEven` abscissae.** -/
theorem distanceRounded_rne53_eq (shape : List Nat) (bw : Array Int)
    (hside : ∀ d ∈ shape, d ≤ 2 ^ 12) (hsent : sentinel shape ≤ 2 ^ 26) :
    distanceRounded rne53 shape bw = distanceCoord shape bw :=
  distanceRounded_eq_small rne53 rne53_rounding shape bw hside hsent

end Mahotas.C05
