/-
Helper lemmas for C05, part 5: every intermediate image of the passes has its values between 0 and the
sentinel, so every line handed to the 1-D kernel satisfies the numeric bounds under which the kernel with
rounded (double) abscissae selects the same owners as the exact one.
-/
import Mahotas.Proofs.C05Strided
import Mahotas.Proofs.C05Abscissa

set_option linter.unusedSimpArgs false
set_option linter.unusedVariables false
namespace Mahotas.C05
open Mahotas Mahotas.C04

/-- all values (and the out-of-image default) lie in `[0, S]` -/
def Bounded (S : Int) (F : Img Int) : Prop := ∀ p, 0 ≤ F.getD p 0 ∧ F.getD p 0 ≤ S

theorem sumSq_nonneg (s : List Nat) : 0 ≤ sumSq s := by
  induction s with
  | nil => simp [sumSq]
  | cons a as ih => simp only [sumSq]; nlinarith [mul_self_nonneg (a : Int)]

theorem sentinel_nonneg (s : List Nat) : 0 ≤ sentinel s := by
  unfold sentinel
  split
  · positivity
  · have := sumSq_nonneg s; omega

theorem line_bounds (S : Int) (hS : 0 ≤ S) (F : Img Int) (hF : Bounded S F) (p : List Int) (ax v : Nat) :
    0 ≤ (lineOf F p ax).getD v 0 ∧ (lineOf F p ax).getD v 0 ≤ S := by
  by_cases hv : v < F.shape.getD ax 0
  · rw [lineOf_getD F p ax v hv]; exact hF _
  · have : (lineOf F p ax).getD v 0 = 0 := by
      have hs := lineOf_size F p ax
      simp [Array.getD_eq_getD_getElem?, Array.getElem?_eq_none (by omega : (lineOf F p ax).size ≤ v)]
    rw [this]; exact ⟨le_refl _, hS⟩

theorem passCoord_bounded (S : Int) (hS : 0 ≤ S) (fo : Img Int × Img Int) (ax : Nat)
    (hax : ax < fo.1.shape.length) (hF : Bounded S fo.1) : Bounded S (passCoord fo ax).1 := by
  intro p
  by_cases hp : inside fo.1.shape p = true
  · have hv : (passCoord fo ax).1.getD p 0 =
        valueAt (lineOf fo.1 p ax) (p.getD ax 0).toNat (ownerAt (lineOf fo.1 p ax) (p.getD ax 0).toNat) := by
      simp only [passCoord]; rw [tabulate_getD _ _ p 0 hp]
    rw [hv]
    obtain ⟨h0, h1⟩ := inside_getD fo.1.shape p ax hp hax
    have hq : (p.getD ax 0).toNat < (lineOf fo.1 p ax).size := by rw [lineOf_size]; omega
    constructor
    · unfold valueAt
      have := (line_bounds S hS fo.1 hF p ax (ownerAt (lineOf fo.1 p ax) (p.getD ax 0).toNat)).1
      positivity
    · have h := valueAt_ownerAt_le (lineOf fo.1 p ax) _ _ hq hq
      have h2 := (line_bounds S hS fo.1 hF p ax (p.getD ax 0).toNat).2
      unfold valueAt at h ⊢
      simp only [sub_self, ne_eq, OfNat.ofNat_ne_zero, not_false_eq_true, zero_pow, zero_add] at h
      omega
  · have : (passCoord fo ax).1.getD p 0 = 0 := by
      unfold Img.getD
      have hs : (passCoord fo ax).1.shape = fo.1.shape := rfl
      rw [hs]; simp [hp]
    rw [this]; exact ⟨le_refl _, hS⟩

theorem initCoord_bounded (shape : List Nat) (bw : Array Int) : Bounded (sentinel shape) (initCoord shape bw).1 := by
  intro p
  have hS := sentinel_nonneg shape
  by_cases hp : inside shape p = true
  · have : (initCoord shape bw).1.getD p 0 = if bw.getD (ravelI shape p) 0 == 0 then 0 else sentinel shape := by
      simp only [initCoord]; rw [tabulate_getD _ _ p 0 hp]
    rw [this]
    split <;> omega
  · have : (initCoord shape bw).1.getD p 0 = 0 := by
      unfold Img.getD
      have hs : (initCoord shape bw).1.shape = shape := rfl
      rw [hs]; simp [hp]
    rw [this]; exact ⟨le_refl _, hS⟩

theorem passes_bounded (shape : List Nat) (bw : Array Int) (k : Nat) (hk : k ≤ shape.length) :
    Bounded (sentinel shape) ((List.range k).foldl passCoord (initCoord shape bw)).1 ∧
    ((List.range k).foldl passCoord (initCoord shape bw)).1.shape = shape := by
  induction k with
  | zero => exact ⟨initCoord_bounded shape bw, rfl⟩
  | succ k ih =>
    obtain ⟨hb, hs⟩ := ih (by omega)
    rw [List.range_succ, List.foldl_append]
    simp only [List.foldl_cons, List.foldl_nil]
    refine ⟨passCoord_bounded _ (sentinel_nonneg shape) _ k (by rw [hs]; omega) hb, ?_⟩
    show (Img.tabulate _ _).shape = shape
    exact hs

/-- every line the kernel is run on during `distance()` — any pass `k`, any pixel, the axis of that pass —
    is handled identically with rounded abscissae, for arrays with sides `≤ 2^12` and sentinel `≤ 2^26` -/
theorem lines_rounded_same (rnd : ℚ → ℚ) (hr : Rounding rnd) (shape : List Nat) (bw : Array Int)
    (hside : ∀ d ∈ shape, d ≤ 2 ^ 12) (hsent : sentinel shape ≤ 2 ^ 26)
    (k : Nat) (hk : k < shape.length) (p : List Int) :
    owners1dR rnd (lineOf ((List.range k).foldl passCoord (initCoord shape bw)).1 p k) =
      owners1d (lineOf ((List.range k).foldl passCoord (initCoord shape bw)).1 p k) := by
  obtain ⟨hb, hs⟩ := passes_bounded shape bw k (by omega)
  apply owners1dR_eq_small rnd hr
  · rw [lineOf_size, hs]
    have hmem : shape.getD k 0 ∈ shape := by
      rw [List.getD_eq_getElem?_getD, List.getElem?_eq_getElem hk]
      simp
    exact hside _ hmem
  · intro i
    exact (line_bounds _ (sentinel_nonneg shape) _ hb p k i).1
  · intro i
    have := (line_bounds _ (sentinel_nonneg shape) _ hb p k i).2
    omega

end Mahotas.C05
