/-
Helper lemmas for C05, part 2: the passes along every axis (`distanceCoord`) compute, at every
pixel, the minimum over *all* pixels `q` of `|p − q|² + f0 q`, and the tracked origin attains it.
-/
import Mahotas.Proofs.C05
import Mahotas.Proofs.C04Index

set_option linter.unusedSimpArgs false
set_option linter.unusedVariables false
namespace Mahotas.C05
open Mahotas Mahotas.C04

/-! ### tabulated images -/

theorem tabulate_getD {α : Type} (shape : List Nat) (f : List Int → α) (p : List Int) (d : α)
    (hp : inside shape p = true) : (Img.tabulate shape f).getD p d = f p := by
  unfold Img.getD Img.tabulate allPos
  simp only [hp, if_true, List.map_map]
  have hlt := ravelI_lt shape p hp
  simp only [Array.getD_eq_getD_getElem?, List.getElem?_toArray, List.getElem?_map,
    List.getElem?_range hlt, Option.map_some, Option.getD_some, Function.comp]
  rw [unravelI_ravelI shape p hp]

theorem tabulate_shape {α : Type} (shape : List Nat) (f : List Int → α) :
    (Img.tabulate shape f).shape = shape := rfl

/-! ### positions -/

theorem inside_getD (s : List Nat) (p : List Int) (k : Nat) (hp : inside s p = true) (hk : k < s.length) :
    0 ≤ p.getD k 0 ∧ p.getD k 0 < (s.getD k 0 : Nat) := by
  induction s generalizing p k with
  | nil => simp at hk
  | cons d ds ih =>
    cases p with
    | nil => simp [inside] at hp
    | cons a ps =>
      rw [inside_cons] at hp
      cases k with
      | zero => simpa using hp.1
      | succ k => simpa using ih ps k hp.2 (by simpa using hk)

theorem inside_set (s : List Nat) (p : List Int) (k : Nat) (t : Int) (hp : inside s p = true)
    (h0 : 0 ≤ t) (h1 : t < (s.getD k 0 : Nat)) : inside s (p.set k t) = true := by
  induction s generalizing p k with
  | nil => cases p <;> simp_all [inside]
  | cons d ds ih =>
    cases p with
    | nil => simp [inside] at hp
    | cons a ps =>
      rw [inside_cons] at hp
      cases k with
      | zero =>
        simp only [List.set_cons_zero]
        rw [inside_cons]
        exact ⟨⟨h0, by simpa using h1⟩, hp.2⟩
      | succ k =>
        simp only [List.set_cons_succ]
        rw [inside_cons]
        exact ⟨hp.1, ih ps k hp.2 (by simpa using h1)⟩

theorem sqDist_self (p : List Int) : sqDist p p = 0 := by
  induction p with
  | nil => rfl
  | cons a ps ih => simp [sqDist, ih]

theorem sqDist_nonneg (p q : List Int) : 0 ≤ sqDist p q := by
  induction p generalizing q with
  | nil => cases q <;> simp [sqDist]
  | cons a ps ih =>
    cases q with
    | nil => simp [sqDist]
    | cons b qs =>
      simp only [sqDist]
      have := ih qs
      nlinarith [mul_self_nonneg (a - b)]

theorem sqDist_set (p q : List Int) (k : Nat) (hp : k < p.length) (hq : k < q.length) :
    sqDist p q = (p.getD k 0 - q.getD k 0) * (p.getD k 0 - q.getD k 0)
      + sqDist (p.set k (q.getD k 0)) q := by
  induction p generalizing q k with
  | nil => simp at hp
  | cons a ps ih =>
    cases q with
    | nil => simp at hq
    | cons b qs =>
      cases k with
      | zero => simp [sqDist]
      | succ k =>
        simp only [List.set_cons_succ, sqDist, List.getD_cons_succ]
        rw [ih qs k (by simpa using hp) (by simpa using hq)]
        ring

theorem sqDist_le_max (s : List Nat) (p q : List Int) (hp : inside s p = true) (hq : inside s q = true) :
    sqDist p q ≤ maxDist2 s := by
  induction s generalizing p q with
  | nil => cases p <;> cases q <;> simp_all [inside, sqDist, maxDist2]
  | cons d ds ih =>
    cases p with
    | nil => simp [inside] at hp
    | cons a ps =>
      cases q with
      | nil => simp [inside] at hq
      | cons b qs =>
        rw [inside_cons] at hp hq
        simp only [sqDist, maxDist2]
        have := ih ps qs hp.2 hq.2
        have h1 : a - b ≤ (d : Int) - 1 := by omega
        have h2 : -((d : Int) - 1) ≤ a - b := by omega
        nlinarith

theorem drop_set_succ (p : List Int) (k : Nat) (t : Int) : (p.set k t).drop (k + 1) = p.drop (k + 1) := by
  induction p generalizing k with
  | nil => simp
  | cons a ps ih =>
    cases k with
    | zero => simp
    | succ k => simp only [List.set_cons_succ, List.drop_succ_cons]; exact ih k

theorem drop_set_self (p : List Int) (k : Nat) (t : Int) (hk : k < p.length) :
    (p.set k t).drop k = t :: p.drop (k + 1) := by
  induction p generalizing k with
  | nil => simp at hk
  | cons a ps ih =>
    cases k with
    | zero => simp
    | succ k => simp only [List.set_cons_succ, List.drop_succ_cons]; exact ih k (by simpa using hk)

theorem drop_getD (q : List Int) (k : Nat) (hk : k < q.length) :
    q.drop k = q.getD k 0 :: q.drop (k + 1) := by
  induction q generalizing k with
  | nil => simp at hk
  | cons a qs ih =>
    cases k with
    | zero => simp
    | succ k => simp only [List.drop_succ_cons, List.getD_cons_succ]; exact ih k (by simpa using hk)

theorem getD_set_self (p : List Int) (k : Nat) (t : Int) (hk : k < p.length) : (p.set k t).getD k 0 = t := by
  induction p generalizing k with
  | nil => simp at hk
  | cons a ps ih =>
    cases k with
    | zero => simp
    | succ k => simp only [List.set_cons_succ, List.getD_cons_succ]; exact ih k (by simpa using hk)

/-! ### the 1-D facts in the form used below -/

theorem ownerAt_eq (f : Array Int) (m : ℕ) (hm : f.size = m + 1) (q : ℕ) (hq : q ≤ m) :
    ownerAt f q = owner (build (gOf f) m) (q : ℚ) := by
  unfold ownerAt
  rw [owners1d_eq_top]
  unfold owners1dTop
  rw [hm]
  simp only
  have : q < m + 1 := Nat.lt_succ_of_le hq
  simp only [List.getD_eq_getElem?_getD, List.getElem?_map, List.getElem?_range this, Option.map_some,
    Option.getD_some]
  rfl

theorem ownerAt_lt (f : Array Int) (q : ℕ) (hq : q < f.size) : ownerAt f q < f.size := by
  obtain ⟨m, hm⟩ : ∃ m, f.size = m + 1 := ⟨f.size - 1, by omega⟩
  rw [ownerAt_eq f m hm q (by omega), hm]
  exact Nat.lt_succ_of_le (owner_build_le _ m _)

theorem valueAt_ownerAt_le (f : Array Int) (q t : ℕ) (hq : q < f.size) (ht : t < f.size) :
    valueAt f q (ownerAt f q) ≤ valueAt f q t := by
  obtain ⟨m, hm⟩ : ∃ m, f.size = m + 1 := ⟨f.size - 1, by omega⟩
  rw [ownerAt_eq f m hm q (by omega), valueAt_owner_eq_min f m hm q]
  unfold minPlus1d
  exact (foldl_min_le (fun v => valueAt f q v) (List.range f.size) (valueAt f q 0)).2 t
    (List.mem_range.2 ht)

theorem lineOf_size (im : Img Int) (p : List Int) (ax : Nat) : (lineOf im p ax).size = im.shape.getD ax 0 := by
  simp [lineOf]

theorem lineOf_getD (im : Img Int) (p : List Int) (ax : Nat) (t : Nat) (ht : t < im.shape.getD ax 0) :
    (lineOf im p ax).getD t 0 = im.getD (p.set ax (t : Int)) 0 := by
  unfold lineOf
  simp only [Array.getD_eq_getD_getElem?, List.getElem?_toArray, List.getElem?_map,
    List.getElem?_range ht, Option.map_some, Option.getD_some]

/-! ### the invariant over the passes -/

/-- after the passes along axes `0 … k-1`: at every pixel the tracked origin agrees with the pixel on
    the axes not yet handled, realises the value, and the value is a lower bound over all such pixels -/
structure NdInv (shape : List Nat) (f0 : List Int → Int) (k : Nat) (fo : Img Int × Img Int) : Prop where
  shape1 : fo.1.shape = shape
  shape2 : fo.2.shape = shape
  at_ : ∀ p, inside shape p = true →
    ∃ n : Nat, n < shapeSize shape ∧ fo.2.getD p 0 = (n : Int) ∧
      (unravelI shape n).drop k = p.drop k ∧
      fo.1.getD p 0 = sqDist p (unravelI shape n) + f0 (unravelI shape n) ∧
      ∀ q, inside shape q = true → q.drop k = p.drop k → fo.1.getD p 0 ≤ sqDist p q + f0 q

theorem pass_inv (shape : List Nat) (f0 : List Int → Int) (k : Nat) (hk : k < shape.length)
    (fo : Img Int × Img Int) (h : NdInv shape f0 k fo) : NdInv shape f0 (k + 1) (passCoord fo k) := by
  refine ⟨by simp only [passCoord, tabulate_shape]; exact h.shape1,
          by simp only [passCoord, tabulate_shape]; exact h.shape1, ?_⟩
  intro p hp
  have hpl : p.length = shape.length := inside_length shape p hp
  obtain ⟨hp0, hp1⟩ := inside_getD shape p k hp hk
  have hsz : (lineOf fo.1 p k).size = shape.getD k 0 := by rw [lineOf_size, h.shape1]
  have hq : (p.getD k 0).toNat < (lineOf fo.1 p k).size := by rw [hsz]; omega
  have hv := ownerAt_lt (lineOf fo.1 p k) _ hq
  rw [hsz] at hv
  have hqc : (((p.getD k 0).toNat : Nat) : Int) = p.getD k 0 := Int.toNat_of_nonneg hp0
  -- the pixel on the line whose value is taken
  have hp' : inside shape (p.set k ((ownerAt (lineOf fo.1 p k) (p.getD k 0).toNat : Nat) : Int)) = true :=
    inside_set shape p k _ hp (Int.natCast_nonneg _) (by exact_mod_cast hv)
  obtain ⟨n, hn, ho, hdrop, hval, _⟩ := h.at_ _ hp'
  have hol : (unravelI shape n).length = shape.length := inside_length _ _ (unravelI_inside shape n hn).1
  have hd1 : (unravelI shape n).drop (k + 1) = p.drop (k + 1) := by
    have e1 := drop_getD (unravelI shape n) k (by rw [hol]; exact hk)
    rw [hdrop, drop_set_self p k _ (by rw [hpl]; exact hk)] at e1
    simp only [List.cons.injEq] at e1
    exact e1.2.symm
  have hok : (unravelI shape n).getD k 0 = ((ownerAt (lineOf fo.1 p k) (p.getD k 0).toNat : Nat) : Int) := by
    have e1 := drop_getD (unravelI shape n) k (by rw [hol]; exact hk)
    rw [hdrop, drop_set_self p k _ (by rw [hpl]; exact hk)] at e1
    simp only [List.cons.injEq] at e1
    exact e1.1.symm
  have hv1 : (passCoord fo k).1.getD p 0 =
      valueAt (lineOf fo.1 p k) (p.getD k 0).toNat (ownerAt (lineOf fo.1 p k) (p.getD k 0).toNat) := by
    simp only [passCoord]; rw [h.shape1, tabulate_getD shape _ p 0 hp]
  have hv2 : (passCoord fo k).2.getD p 0 =
      fo.2.getD (p.set k ((ownerAt (lineOf fo.1 p k) (p.getD k 0).toNat : Nat) : Int)) 0 := by
    simp only [passCoord]; rw [h.shape1, tabulate_getD shape _ p 0 hp]
  refine ⟨n, hn, by rw [hv2]; exact ho, hd1, ?_, ?_⟩
  · rw [hv1]
    unfold valueAt
    rw [lineOf_getD _ _ _ _ (by rw [h.shape1]; exact hv), hval, hqc,
      sqDist_set p (unravelI shape n) k (by rw [hpl]; exact hk) (by rw [hol]; exact hk), hok]
    ring
  · intro q hqi hqd
    have hql : q.length = shape.length := inside_length shape q hqi
    obtain ⟨hq0, hq1⟩ := inside_getD shape q k hqi hk
    have ht : (q.getD k 0).toNat < (lineOf fo.1 p k).size := by rw [hsz]; omega
    have hle := valueAt_ownerAt_le (lineOf fo.1 p k) (p.getD k 0).toNat (q.getD k 0).toNat hq ht
    have htc : (((q.getD k 0).toNat : Nat) : Int) = q.getD k 0 := Int.toNat_of_nonneg hq0
    have hp'' : inside shape (p.set k (q.getD k 0)) = true := inside_set shape p k _ hp hq0 hq1
    obtain ⟨n2, _, _, _, _, hlow⟩ := h.at_ _ hp''
    have hqd' : q.drop k = (p.set k (q.getD k 0)).drop k := by
      rw [drop_getD q k (by rw [hql]; exact hk), drop_set_self p k _ (by rw [hpl]; exact hk), hqd]
    have hl2 := hlow q hqi hqd'
    rw [hv1]
    refine le_trans hle ?_
    unfold valueAt
    rw [lineOf_getD _ _ _ _ (by rw [h.shape1, ← hsz]; exact ht), htc, hqc,
      sqDist_set p q k (by rw [hpl]; exact hk) (by rw [hql]; exact hk)]
    have e : (p.getD k 0 - q.getD k 0) ^ 2 = (p.getD k 0 - q.getD k 0) * (p.getD k 0 - q.getD k 0) := by ring
    rw [e]
    linarith

theorem init_inv_nd (shape : List Nat) (bw : Array Int) :
    NdInv shape (fun q => (initCoord shape bw).1.getD q 0) 0 (initCoord shape bw) := by
  refine ⟨rfl, rfl, ?_⟩
  intro p hp
  refine ⟨ravelI shape p, ravelI_lt shape p hp, ?_, ?_, ?_, ?_⟩
  · simp only [initCoord]; rw [tabulate_getD shape _ p 0 hp]
  · rw [unravelI_ravelI shape p hp]
  · rw [unravelI_ravelI shape p hp, sqDist_self]; simp
  · intro q _ hqd
    simp only [List.drop_zero] at hqd
    rw [hqd, sqDist_self]; simp

theorem passes_inv (shape : List Nat) (bw : Array Int) (k : Nat) (hk : k ≤ shape.length) :
    NdInv shape (fun q => (initCoord shape bw).1.getD q 0) k
      ((List.range k).foldl passCoord (initCoord shape bw)) := by
  induction k with
  | zero => exact init_inv_nd shape bw
  | succ k ih =>
    rw [List.range_succ, List.foldl_append]
    simp only [List.foldl_cons, List.foldl_nil]
    exact pass_inv shape _ k hk _ (ih (Nat.le_of_succ_le hk))

/-! ### the fill value exceeds every attainable distance -/

theorem inside_dims_pos (s : List Nat) (p : List Int) (hp : inside s p = true) : ∀ d ∈ s, 1 ≤ d := by
  induction s generalizing p with
  | nil => intro d hd; simp at hd
  | cons d ds ih =>
    cases p with
    | nil => simp [inside] at hp
    | cons a ps =>
      rw [inside_cons] at hp
      intro d' hd'
      rcases List.mem_cons.1 hd' with rfl | h
      · omega
      · exact ih ps hp.2 d' h

theorem maxDist2_lt_sumSq (s : List Nat) (hs : ∀ d ∈ s, 1 ≤ d) : maxDist2 s < sumSq s + 1 := by
  induction s with
  | nil => simp [maxDist2, sumSq]
  | cons d ds ih =>
    simp only [maxDist2, sumSq]
    have h1 : (1 : Int) ≤ (d : Int) := by exact_mod_cast hs d List.mem_cons_self
    have := ih (fun d' hd' => hs d' (List.mem_cons_of_mem _ hd'))
    nlinarith

theorem maxDist2_lt_sentinel (s : List Nat) (hs : ∀ d ∈ s, 1 ≤ d) : maxDist2 s < sentinel s := by
  unfold sentinel
  by_cases h2 : s.length = 2
  · match s, h2 with
    | [a, b], _ =>
      simp only [List.length_cons, List.length_nil, beq_self_eq_true, if_true, List.foldl_cons,
        List.foldl_nil, maxDist2]
      have ha : 1 ≤ a := hs a (by simp)
      have hb : 1 ≤ b := hs b (by simp)
      have h1 : a ≤ max (max 0 a) b := by omega
      have h2 : b ≤ max (max 0 a) b := by omega
      generalize max (max 0 a) b = M at h1 h2
      have ha' : (1 : Int) ≤ a := by exact_mod_cast ha
      have hb' : (1 : Int) ≤ b := by exact_mod_cast hb
      have h1' : (a : Int) ≤ M := by exact_mod_cast h1
      have h2' : (b : Int) ≤ M := by exact_mod_cast h2
      nlinarith
  · have : (s.length == 2) = false := by simpa using h2
    simp only [this, Bool.false_eq_true, if_false]
    exact maxDist2_lt_sumSq s hs

/-! ### the final statements -/

theorem f0_getD (shape : List Nat) (bw : Array Int) (q : List Int) (hq : inside shape q = true) :
    (initCoord shape bw).1.getD q 0 = if bw.getD (ravelI shape q) 0 = 0 then 0 else sentinel shape := by
  simp only [initCoord]
  rw [tabulate_getD shape _ q 0 hq]
  by_cases h : bw.getD (ravelI shape q) 0 = 0 <;> simp [h]

/-- after all passes: the tracked origin realises the value, which is the minimum over all pixels -/
theorem nd_final (shape : List Nat) (bw : Array Int) (p : List Int) (hp : inside shape p = true) :
    ∃ n : Nat, n < shapeSize shape ∧ (distanceCoord shape bw).2.getD p 0 = (n : Int) ∧
      (distanceCoord shape bw).1.getD p 0
        = sqDist p (unravelI shape n) + (initCoord shape bw).1.getD (unravelI shape n) 0 ∧
      ∀ q, inside shape q = true →
        (distanceCoord shape bw).1.getD p 0 ≤ sqDist p q + (initCoord shape bw).1.getD q 0 := by
  have h := passes_inv shape bw shape.length (le_refl _)
  obtain ⟨n, hn, ho, _, hval, hlow⟩ := h.at_ p hp
  refine ⟨n, hn, ho, hval, ?_⟩
  intro q hq
  apply hlow q hq
  rw [List.drop_of_length_le (by rw [inside_length shape q hq]),
    List.drop_of_length_le (by rw [inside_length shape p hp])]

/-- with some background: the origin is a background pixel at minimum distance and the value is
    that squared distance -/
theorem nd_core (shape : List Nat) (bw : Array Int) (p : List Int) (hp : inside shape p = true)
    (hbg : ∃ q0, inside shape q0 = true ∧ bw.getD (ravelI shape q0) 0 = 0) :
    ∃ n : Nat, n < shapeSize shape ∧ (distanceCoord shape bw).2.getD p 0 = (n : Int) ∧
      bw.getD n 0 = 0 ∧
      (distanceCoord shape bw).1.getD p 0 = sqDist p (unravelI shape n) ∧
      ∀ q, inside shape q = true → bw.getD (ravelI shape q) 0 = 0 →
        sqDist p (unravelI shape n) ≤ sqDist p q := by
  obtain ⟨n, hn, ho, hval, hlow⟩ := nd_final shape bw p hp
  obtain ⟨hoin, horav⟩ := unravelI_inside shape n hn
  obtain ⟨q0, hq0, hb0⟩ := hbg
  have hsent := maxDist2_lt_sentinel shape (inside_dims_pos shape p hp)
  have hle0 := hlow q0 hq0
  rw [f0_getD shape bw q0 hq0, if_pos hb0, add_zero] at hle0
  have hmax := sqDist_le_max shape p q0 hp hq0
  rw [f0_getD shape bw _ hoin, horav] at hval
  have hbn : bw.getD n 0 = 0 := by
    by_contra hne
    rw [if_neg hne] at hval
    have := sqDist_nonneg p (unravelI shape n)
    omega
  rw [if_pos hbn, add_zero] at hval
  refine ⟨n, hn, ho, hbn, hval, ?_⟩
  intro q hq hbq
  have := hlow q hq
  rw [f0_getD shape bw q hq, if_pos hbq, add_zero, hval] at this
  exact this

theorem sqDist_eq_zero (p q : List Int) (hl : p.length = q.length) (h : sqDist p q = 0) : p = q := by
  induction p generalizing q with
  | nil => cases q with
    | nil => rfl
    | cons b qs => simp at hl
  | cons a ps ih =>
    cases q with
    | nil => simp at hl
    | cons b qs =>
      simp only [sqDist] at h
      have h1 := sqDist_nonneg ps qs
      have h2 := mul_self_nonneg (a - b)
      have h3 : (a - b) * (a - b) = 0 := by omega
      have h4 : sqDist ps qs = 0 := by omega
      have h5 : a - b = 0 := by simpa using h3
      rw [ih qs (by simpa using hl) h4]
      congr 1
      omega

theorem owners1d_length (f : Array Int) : (owners1d f).length = f.size := by
  rw [owners1d_eq_top]
  unfold owners1dTop
  cases h : f.size with
  | zero => rfl
  | succ m => simp

/-- the pass along an axis applies, on every line, exactly the 1-D transform `dt1d` that the
    harness also compares directly with `_distance.dt` -/
theorem dt1d_getD (f : Array Int) (q : Nat) (hq : q < f.size) :
    (dt1d f).getD q 0 = valueAt f q (ownerAt f q) := by
  unfold dt1d ownerAt
  have hl := owners1d_length f
  have h1 : q < (owners1d f).length := by rw [hl]; exact hq
  simp only [List.getD_eq_getElem?_getD, List.getElem?_map]
  rw [List.getElem?_eq_getElem (by simp [hl, hq])]
  simp [List.getElem?_eq_getElem h1]

theorem map_range_getD (h : Nat → Int) (n q : Nat) (hq : q < n) : ((List.range n).map h).getD q 0 = h q := by
  simp only [List.getD_eq_getElem?_getD, List.getElem?_map, List.getElem?_range hq, Option.map_some,
    Option.getD_some]

end Mahotas.C05
