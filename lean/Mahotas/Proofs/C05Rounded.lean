/-
Helper lemmas for C05, part 6: the WHOLE-IMAGE model with rounded abscissae.

`Proofs/C05Abscissa.lean` defines the 1-D kernel in which every intersection abscissa goes through a
rounding function (`owners1dR rnd`: `buildR`/`popToR`/`pushR`, stored breakpoints rounded, compared with
stored breakpoints and with integers) and `Proofs/C05Bounds.lean` proves that on every line of every pass of
`distanceCoord` it selects the same owners as the exact kernel. Here the rounded kernel is put into the
passes themselves:

* `ownerAtR`, `dt1dR` — the owner at `q` / the 1-D transform, read from the rounded kernel exactly as
  `ownerAt` / `dt1d` read them from the exact kernel;
* `passCoordR rnd` — `passCoord` with `ownerAtR rnd` for `ownerAt` (value `(q - v)² + f v` and origin both
  read from the owner the rounded kernel selects);
* `distanceRounded rnd` — the same initial images (`initCoord`: 0 / sentinel, own flat index) and the same
  fold over the axes as `distanceCoord`, every pass being `passCoordR rnd`.

These are proof-side definitions (they use the `ℚ → ℚ` rounding of `C05Abscissa.lean`; the driver runs
`distanceCoord`/`distanceModel`), built from the very definitions the driver runs (`initCoord`, `lineOf`,
`valueAt`, `readOwners`, `sInt`, `leOpt`, `topV`) — only `build` is replaced by `buildR`.

Main results: `passCoordR_eq_of_owners` (one pass), `passesR_eq_of_lines` (induction over the passes,
any per-line agreement hypothesis), `distanceRounded_eq_small` (sides `≤ 2^12`, sentinel `≤ 2^26`),
`distanceRounded_eq_of_bound` (general numeric bound `4·N²·(S + N²) < 2^53`).
-/
import Mahotas.Proofs.C05Bounds

set_option linter.unusedSimpArgs false
set_option linter.unusedVariables false
namespace Mahotas.C05
open Mahotas Mahotas.C04

/-! ### 1. the definitions -/

/-- the root chosen by the read-out walk of the kernel with rounded abscissae for abscissa `q`
    (`ownerAt` with `owners1dR rnd` for `owners1d`) -/
def ownerAtR (rnd : ℚ → ℚ) (f : Array Int) (q : Nat) : Nat := (owners1dR rnd f).getD q 0

/-- `dist_transform` with rounded abscissae: `Df[q] = square(q - v[k]) + f[v[k]]`, the owners `v[k]` being
    those of `owners1dR rnd` (`dt1d` with `owners1dR rnd` for `owners1d`) -/
def dt1dR (rnd : ℚ → ℚ) (f : Array Int) : List Int :=
  (List.zip (List.range f.size) (owners1dR rnd f)).map fun qv => valueAt f qv.1 qv.2

/-- one pass along axis `ax`, every line transformed by the kernel with rounded abscissae: values and
    tracked origins (`passCoord` with `ownerAtR rnd` for `ownerAt`) -/
def passCoordR (rnd : ℚ → ℚ) (fo : Img Int × Img Int) (ax : Nat) : Img Int × Img Int :=
  (Img.tabulate fo.1.shape fun p =>
      let line := lineOf fo.1 p ax
      let q := (p.getD ax 0).toNat
      valueAt line q (ownerAtR rnd line q),
   Img.tabulate fo.1.shape fun p =>
      let line := lineOf fo.1 p ax
      let q := (p.getD ax 0).toNat
      fo.2.getD (p.set ax ((ownerAtR rnd line q : Nat) : Int)) 0)

/-- `distance(bw)` with the tracked origins, every abscissa of every kernel call rounded: the initial
    images of `distanceCoord` and the same fold over the axes, with `passCoordR rnd` for `passCoord` -/
def distanceRounded (rnd : ℚ → ℚ) (shape : List Nat) (bw : Array Int) : Img Int × Img Int :=
  (List.range shape.length).foldl (passCoordR rnd) (initCoord shape bw)

/-! ### 2. with the identity rounding the definitions are the exact ones (sanity of the definitions) -/

theorem popToR_id (g : ℕ → ℚ) (q : ℕ) (st : Stack) : popToR id g q st = popTo g q st := by
  induction st with
  | nil => rfl
  | cons e rest ih =>
    obtain ⟨v, z⟩ := e
    simp only [popToR, popTo, id, ih]

theorem pushR_id (g : ℕ → ℚ) (q : ℕ) (st : Stack) : pushR id g q st = push g q st := by
  unfold pushR push
  rw [popToR_id]; rfl

theorem buildR_id (g : ℕ → ℚ) (m : ℕ) : buildR id g m = build g m := by
  induction m with
  | zero => rfl
  | succ m ih => simp only [buildR, build, ih, pushR_id]

theorem owners1dR_id (f : Array Int) : owners1dR id f = owners1d f := by
  unfold owners1dR owners1d
  cases f.size with
  | zero => rfl
  | succ m => simp only [buildR_id]

/-! ### 3. one line, one pass -/

/-- where the two kernels select the same owners, the owner at `q` is the same -/
theorem ownerAtR_eq (rnd : ℚ → ℚ) (f : Array Int) (h : owners1dR rnd f = owners1d f) (q : Nat) :
    ownerAtR rnd f q = ownerAt f q := by
  unfold ownerAtR ownerAt
  rw [h]

/-- where the two kernels select the same owners, the 1-D transforms are the same list -/
theorem dt1dR_eq (rnd : ℚ → ℚ) (f : Array Int) (h : owners1dR rnd f = owners1d f) :
    dt1dR rnd f = dt1d f := by
  unfold dt1dR dt1d
  rw [h]

/-- **One pass.** If on the line through every pixel along `ax` the kernel with rounded abscissae selects
    the owners of the exact kernel, the pass with the rounded kernel produces exactly the images (values
    and origins) of the exact pass. -/
theorem passCoordR_eq_of_owners (rnd : ℚ → ℚ) (fo : Img Int × Img Int) (ax : Nat)
    (h : ∀ p : List Int, owners1dR rnd (lineOf fo.1 p ax) = owners1d (lineOf fo.1 p ax)) :
    passCoordR rnd fo ax = passCoord fo ax := by
  have ho : ∀ (p : List Int) (q : Nat),
      ownerAtR rnd (lineOf fo.1 p ax) q = ownerAt (lineOf fo.1 p ax) q :=
    fun p q => ownerAtR_eq rnd _ (h p) q
  unfold passCoordR passCoord
  simp only [ho]

/-- the rounded kernel reports one owner per sample -/
theorem owners1dR_length (rnd : ℚ → ℚ) (f : Array Int) : (owners1dR rnd f).length = f.size := by
  unfold owners1dR readOwners
  cases hsz : f.size with
  | zero => rfl
  | succ m =>
    simp only
    have key : ∀ (qs : List ℕ) (l : List (ℕ × Option ℚ)) (out : List ℕ),
        (qs.foldl (fun (acc : List (ℕ × Option ℚ) × List ℕ) (q : ℕ) =>
            let cur := advance (q : ℚ) acc.1
            (cur, acc.2 ++ [headV cur])) (l, out)).2.length = out.length + qs.length := by
      intro qs
      induction qs with
      | nil => intro l out; simp
      | cons q qs ih =>
        intro l out
        simp only [List.foldl_cons]
        rw [ih]
        simp only [List.length_append, List.length_cons, List.length_nil]
        omega
    rw [key]
    simp

theorem dt1dR_getD (rnd : ℚ → ℚ) (f : Array Int) (q : Nat) (hq : q < f.size) :
    (dt1dR rnd f).getD q 0 = valueAt f q (ownerAtR rnd f q) := by
  unfold dt1dR ownerAtR
  have hl := owners1dR_length rnd f
  have h1 : q < (owners1dR rnd f).length := by rw [hl]; exact hq
  simp only [List.getD_eq_getElem?_getD, List.getElem?_map]
  rw [List.getElem?_eq_getElem (by simp [hl, hq])]
  simp [List.getElem?_eq_getElem h1]

/-- the value a rounded pass writes at a pixel is the entry of `dt1dR rnd` for the line through it
    (the analogue of `C05_pass_is_dt1d`), the origin is read at the owner `ownerAtR rnd` selects:
    `passCoordR` is the 1-D rounded kernel applied line by line -/
theorem passCoordR_is_dt1dR (rnd : ℚ → ℚ) (fo : Img Int × Img Int) (ax : Nat) (p : List Int)
    (hp : inside fo.1.shape p = true) (hax : ax < fo.1.shape.length) :
    (passCoordR rnd fo ax).1.getD p 0 = (dt1dR rnd (lineOf fo.1 p ax)).getD (p.getD ax 0).toNat 0 ∧
    (passCoordR rnd fo ax).2.getD p 0 =
      fo.2.getD (p.set ax ((ownerAtR rnd (lineOf fo.1 p ax) (p.getD ax 0).toNat : Nat) : Int)) 0 := by
  obtain ⟨h0, h1⟩ := inside_getD fo.1.shape p ax hp hax
  have hq : (p.getD ax 0).toNat < (lineOf fo.1 p ax).size := by rw [lineOf_size]; omega
  constructor
  · rw [dt1dR_getD _ _ _ hq]
    simp only [passCoordR]; rw [tabulate_getD _ _ p 0 hp]
  · simp only [passCoordR]; rw [tabulate_getD _ _ p 0 hp]

/-! ### 4. induction over the passes -/

/-- **All passes, any per-line hypothesis.** If on every line of every exact intermediate image (pass
    `k < K`, any pixel, the axis of that pass) the rounded kernel selects the owners of the exact kernel, then
    the first `K` rounded passes produce exactly the images of the first `K` exact passes. -/
theorem passesR_eq_of_lines (rnd : ℚ → ℚ) (init : Img Int × Img Int) (K : Nat)
    (h : ∀ k < K, ∀ p : List Int,
      owners1dR rnd (lineOf ((List.range k).foldl passCoord init).1 p k) =
        owners1d (lineOf ((List.range k).foldl passCoord init).1 p k)) :
    (List.range K).foldl (passCoordR rnd) init = (List.range K).foldl passCoord init := by
  induction K with
  | zero => rfl
  | succ K ih =>
    rw [List.range_succ, List.foldl_append, List.foldl_append]
    simp only [List.foldl_cons, List.foldl_nil]
    rw [ih (fun k hk p => h k (Nat.lt_succ_of_lt hk) p)]
    exact passCoordR_eq_of_owners rnd _ K (h K (Nat.lt_succ_self K))

/-- **The whole function, sizes that occur.** Sides `≤ 2^12`, sentinel `≤ 2^26`, any `Rounding`. -/
theorem distanceRounded_eq_small (rnd : ℚ → ℚ) (hr : Rounding rnd) (shape : List Nat) (bw : Array Int)
    (hside : ∀ d ∈ shape, d ≤ 2 ^ 12) (hsent : sentinel shape ≤ 2 ^ 26) :
    distanceRounded rnd shape bw = distanceCoord shape bw := by
  unfold distanceRounded distanceCoord
  exact passesR_eq_of_lines rnd _ _
    (fun k hk p => lines_rounded_same rnd hr shape bw hside hsent k hk p)

/-! ### 5. the general numeric bound -/

/-- the 1-D owners with rounded abscissae under the general bound: at most `N + 1` integer samples in
    `[0, S]` with `4·N²·(S + N²) < 2^53` -/
theorem owners1dR_eq_of_bound (rnd : ℚ → ℚ) (hr : Rounding rnd) (f : Array Int) (N : ℕ) (S : Int)
    (hsize : f.size ≤ N + 1) (hlo : ∀ i, 0 ≤ f.getD i 0) (hhi : ∀ i, f.getD i 0 ≤ S)
    (hB : 4 * (N : ℚ) ^ 2 * ((S : ℚ) + (N : ℚ) ^ 2) < 2 ^ 53) :
    owners1dR rnd f = owners1d f := by
  apply owners1dR_eq
  have hn : f.size - 1 ≤ N := by omega
  have hnq : ((f.size - 1 : ℕ) : ℚ) ≤ N := by exact_mod_cast hn
  have hn0 : (0 : ℚ) ≤ ((f.size - 1 : ℕ) : ℚ) := by positivity
  have hS0 : (0 : ℚ) ≤ S := by
    have := le_trans (hlo 0) (hhi 0)
    exact_mod_cast this
  have hN0 : (0 : ℚ) ≤ N := by positivity
  apply abscissaExact_of_bounds rnd hr (gOf f) (fun i => f.getD i 0) (f.size - 1)
    ((S : ℚ) + (N : ℚ) ^ 2) (fun i _ => rfl)
  · intro i hi
    have hgi0 : (0 : ℚ) ≤ gOf f i := by unfold gOf; exact_mod_cast hlo i
    have hgiS : gOf f i ≤ (S : ℚ) := by unfold gOf; exact_mod_cast hhi i
    rw [abs_of_nonneg hgi0]
    have hiq : (i : ℚ) ≤ N := by
      have : i ≤ N := by omega
      exact_mod_cast this
    have hi0 : (0 : ℚ) ≤ i := by positivity
    have : (i : ℚ) ^ 2 ≤ (N : ℚ) ^ 2 := by nlinarith
    linarith
  · have hsq : ((f.size - 1 : ℕ) : ℚ) ^ 2 ≤ (N : ℚ) ^ 2 := by nlinarith
    have hpos : (0 : ℚ) ≤ (S : ℚ) + (N : ℚ) ^ 2 := by positivity
    calc 4 * ((f.size - 1 : ℕ) : ℚ) ^ 2 * ((S : ℚ) + (N : ℚ) ^ 2)
        ≤ 4 * (N : ℚ) ^ 2 * ((S : ℚ) + (N : ℚ) ^ 2) := by
          apply mul_le_mul_of_nonneg_right _ hpos
          linarith
      _ < 2 ^ 53 := hB

/-- **The whole function, general bound.** All sides at most `N + 1` and `4·N²·(sentinel + N²) < 2^53`. -/
theorem distanceRounded_eq_of_bound (rnd : ℚ → ℚ) (hr : Rounding rnd) (shape : List Nat) (bw : Array Int)
    (N : ℕ) (hside : ∀ d ∈ shape, d ≤ N + 1)
    (hB : 4 * (N : ℚ) ^ 2 * ((sentinel shape : ℚ) + (N : ℚ) ^ 2) < 2 ^ 53) :
    distanceRounded rnd shape bw = distanceCoord shape bw := by
  unfold distanceRounded distanceCoord
  apply passesR_eq_of_lines
  intro k hk p
  obtain ⟨hb, hs⟩ := passes_bounded shape bw k (by omega)
  apply owners1dR_eq_of_bound rnd hr _ N (sentinel shape)
  · rw [lineOf_size, hs]
    have hmem : shape.getD k 0 ∈ shape := by
      rw [List.getD_eq_getElem?_getD, List.getElem?_eq_getElem hk]
      simp
    exact hside _ hmem
  · intro i
    exact (line_bounds _ (sentinel_nonneg shape) _ hb p k i).1
  · intro i
    exact (line_bounds _ (sentinel_nonneg shape) _ hb p k i).2
  · exact hB

end Mahotas.C05
