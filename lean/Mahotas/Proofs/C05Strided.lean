/-
Helper lemmas for C05, part 3: the flat/strided transliteration of `py_dt` (`dtLine`, `dtPass`,
`pyDt`, `passAxis`, `distanceModel`) computes the coordinate-level passes (`passCoord`,
`distanceCoord`) about which the exactness theorems speak.
-/
import Mahotas.Proofs.C05Nd
import Mathlib.Tactic.Ring

set_option linter.unusedSimpArgs false
set_option linter.unusedVariables false
namespace Mahotas.C05
open Mahotas Mahotas.C04

/-! ### the copy-back loop -/

theorem getD_setIfInBounds (a : Array Int) (i j : Nat) (v : Int) :
    (a.setIfInBounds i v).getD j 0 = if i = j ∧ i < a.size then v else a.getD j 0 := by
  simp only [Array.getD_eq_getD_getElem?, Array.getElem?_setIfInBounds]
  by_cases h : i = j
  · subst h
    by_cases h2 : i < a.size
    · simp [h2]
    · simp [h2]
  · simp [h]

theorem writeLine_succ (a : Array Int) (addr : Nat → Nat) (vals : Nat → Int) (n : Nat) :
    writeLine a addr vals (n + 1) = (writeLine a addr vals n).setIfInBounds (addr n) (vals n) := by
  unfold writeLine
  rw [List.range_succ, List.foldl_append]
  rfl

theorem writeLine_size (a : Array Int) (addr : Nat → Nat) (vals : Nat → Int) (n : Nat) :
    (writeLine a addr vals n).size = a.size := by
  induction n with
  | zero => rfl
  | succ n ih => rw [writeLine_succ, Array.size_setIfInBounds, ih]

theorem writeLine_other (a : Array Int) (addr : Nat → Nat) (vals : Nat → Int) (n x : Nat)
    (hx : ∀ q < n, addr q ≠ x) : (writeLine a addr vals n).getD x 0 = a.getD x 0 := by
  induction n with
  | zero => rfl
  | succ n ih =>
    rw [writeLine_succ, getD_setIfInBounds, if_neg (fun h => hx n (Nat.lt_succ_self n) h.1)]
    exact ih (fun q hq => hx q (Nat.lt_succ_of_lt hq))

theorem writeLine_at (a : Array Int) (addr : Nat → Nat) (vals : Nat → Int) (n : Nat)
    (hinj : ∀ q < n, ∀ q' < n, addr q = addr q' → q = q') (hb : ∀ q < n, addr q < a.size)
    (q : Nat) (hq : q < n) : (writeLine a addr vals n).getD (addr q) 0 = vals q := by
  induction n with
  | zero => omega
  | succ n ih =>
    rw [writeLine_succ, getD_setIfInBounds, writeLine_size]
    by_cases h : q = n
    · subst h
      rw [if_pos ⟨rfl, hb q hq⟩]
    · have hqn : q < n := by omega
      rw [if_neg (fun hh => h (hinj n (Nat.lt_succ_self n) q hq hh.1).symm)]
      exact ih (fun q1 h1 q2 h2 => hinj q1 (Nat.lt_succ_of_lt h1) q2 (Nat.lt_succ_of_lt h2))
        (fun q1 h1 => hb q1 (Nat.lt_succ_of_lt h1)) hqn

/-! ### one line -/

/-- the line read through an address function -/
def lineA (a : Array Int) (addr : Nat → Nat) (n : Nat) : Array Int :=
  ((List.range n).map fun (t : Nat) => a.getD (addr t) 0).toArray

theorem lineA_size (a : Array Int) (addr : Nat → Nat) (n : Nat) : (lineA a addr n).size = n := by
  simp [lineA]

theorem lineA_congr (a a' : Array Int) (addr : Nat → Nat) (n : Nat)
    (h : ∀ t < n, a.getD (addr t) 0 = a'.getD (addr t) 0) : lineA a addr n = lineA a' addr n := by
  unfold lineA
  congr 1
  apply List.map_congr_left
  intro t ht
  exact h t (List.mem_range.1 ht)

/-- the addresses of a line are distinct and inside a buffer of `size` elements -/
structure LineOK (size : Nat) (addr : Nat → Nat) (n : Nat) : Prop where
  inj : ∀ q < n, ∀ q' < n, addr q = addr q' → q = q'
  inb : ∀ q < n, addr q < size

theorem dtLineA_spec (fo : Array Int × Array Int) (addr oaddr : Nat → Nat) (n : Nat)
    (h1 : LineOK fo.1.size addr n) (h2 : LineOK fo.2.size oaddr n) :
    (dtLineA fo addr oaddr n).1.size = fo.1.size ∧ (dtLineA fo addr oaddr n).2.size = fo.2.size ∧
    (∀ q < n, (dtLineA fo addr oaddr n).1.getD (addr q) 0 =
        valueAt (lineA fo.1 addr n) q (ownerAt (lineA fo.1 addr n) q)) ∧
    (∀ q < n, (dtLineA fo addr oaddr n).2.getD (oaddr q) 0 =
        fo.2.getD (oaddr (ownerAt (lineA fo.1 addr n) q)) 0) ∧
    (∀ x, (∀ q < n, addr q ≠ x) → (dtLineA fo addr oaddr n).1.getD x 0 = fo.1.getD x 0) ∧
    (∀ x, (∀ q < n, oaddr q ≠ x) → (dtLineA fo addr oaddr n).2.getD x 0 = fo.2.getD x 0) := by
  have hown : ∀ q, (owners1d (lineA fo.1 addr n)).toArray.getD q 0 = ownerAt (lineA fo.1 addr n) q := by
    intro q
    simp [ownerAt, Array.getD_eq_getD_getElem?, List.getD_eq_getElem?_getD]
  refine ⟨writeLine_size _ _ _ _, writeLine_size _ _ _ _, ?_, ?_, ?_, ?_⟩
  · intro q hq
    show (writeLine fo.1 addr _ n).getD (addr q) 0 = _
    rw [writeLine_at _ _ _ _ h1.inj h1.inb q hq]
    show valueAt (lineA fo.1 addr n) q ((owners1d (lineA fo.1 addr n)).toArray.getD q 0) = _
    rw [hown]
  · intro q hq
    show (writeLine fo.2 oaddr _ n).getD (oaddr q) 0 = _
    rw [writeLine_at _ _ _ _ h2.inj h2.inb q hq]
    show fo.2.getD (oaddr ((owners1d (lineA fo.1 addr n)).toArray.getD q 0)) 0 = _
    rw [hown]
  · intro x hx
    exact writeLine_other _ _ _ _ _ hx
  · intro x hx
    exact writeLine_other _ _ _ _ _ hx

/-! ### a pass: a fold over pairwise disjoint lines -/

theorem lines_fold_spec (n : Nat) (lines : List ((Nat → Nat) × (Nat → Nat))) (fo : Array Int × Array Int)
    (hok : ∀ l ∈ lines, LineOK fo.1.size l.1 n ∧ LineOK fo.2.size l.2 n)
    (hdis : lines.Pairwise (fun l l' => ∀ t < n, ∀ t' < n, l.1 t ≠ l'.1 t' ∧ l.2 t ≠ l'.2 t')) :
    (lines.foldl (fun acc l => dtLineA acc l.1 l.2 n) fo).1.size = fo.1.size ∧
    (lines.foldl (fun acc l => dtLineA acc l.1 l.2 n) fo).2.size = fo.2.size ∧
    (∀ l ∈ lines, ∀ q < n,
      (lines.foldl (fun acc l => dtLineA acc l.1 l.2 n) fo).1.getD (l.1 q) 0 =
        valueAt (lineA fo.1 l.1 n) q (ownerAt (lineA fo.1 l.1 n) q) ∧
      (lines.foldl (fun acc l => dtLineA acc l.1 l.2 n) fo).2.getD (l.2 q) 0 =
        fo.2.getD (l.2 (ownerAt (lineA fo.1 l.1 n) q)) 0) ∧
    (∀ x, (∀ l ∈ lines, ∀ q < n, l.1 q ≠ x) →
      (lines.foldl (fun acc l => dtLineA acc l.1 l.2 n) fo).1.getD x 0 = fo.1.getD x 0) ∧
    (∀ x, (∀ l ∈ lines, ∀ q < n, l.2 q ≠ x) →
      (lines.foldl (fun acc l => dtLineA acc l.1 l.2 n) fo).2.getD x 0 = fo.2.getD x 0) := by
  induction lines generalizing fo with
  | nil =>
    refine ⟨rfl, rfl, ?_, fun _ _ => rfl, fun _ _ => rfl⟩
    intro l hl; cases hl
  | cons l0 rest ih =>
    obtain ⟨hok0a, hok0b⟩ := hok l0 (List.mem_cons_self)
    obtain ⟨s1, s2, hv, ho, hu1, hu2⟩ := dtLineA_spec fo l0.1 l0.2 n hok0a hok0b
    rw [List.pairwise_cons] at hdis
    obtain ⟨hd0, hdr⟩ := hdis
    have hok' : ∀ l ∈ rest, LineOK (dtLineA fo l0.1 l0.2 n).1.size l.1 n ∧
        LineOK (dtLineA fo l0.1 l0.2 n).2.size l.2 n := by
      intro l hl
      rw [s1, s2]
      exact hok l (List.mem_cons_of_mem _ hl)
    obtain ⟨r1, r2, rv, ru1, ru2⟩ := ih (dtLineA fo l0.1 l0.2 n) hok' hdr
    simp only [List.foldl_cons]
    refine ⟨by rw [r1, s1], by rw [r2, s2], ?_, ?_, ?_⟩
    · intro l hl q hq
      rcases List.mem_cons.1 hl with rfl | hl
      · constructor
        · rw [ru1 (l.1 q) (fun l' hl' q' hq' h => (hd0 l' hl' q hq q' hq').1 h.symm)]
          exact hv q hq
        · rw [ru2 (l.2 q) (fun l' hl' q' hq' h => (hd0 l' hl' q hq q' hq').2 h.symm)]
          exact ho q hq
      · have hline : lineA (dtLineA fo l0.1 l0.2 n).1 l.1 n = lineA fo.1 l.1 n := by
          apply lineA_congr
          intro t ht
          exact hu1 _ (fun q' hq' h => (hd0 l hl q' hq' t ht).1 h)
        obtain ⟨ha, hb⟩ := rv l hl q hq
        rw [hline] at ha hb
        refine ⟨ha, ?_⟩
        rw [hb]
        have hown : ownerAt (lineA fo.1 l.1 n) q < n := by
          have := ownerAt_lt (lineA fo.1 l.1 n) q (by rw [lineA_size]; exact hq)
          rwa [lineA_size] at this
        exact hu2 _ (fun q' hq' h => (hd0 l hl q' hq' _ hown).2 h)
    · intro x hx
      rw [ru1 x (fun l hl => hx l (List.mem_cons_of_mem _ hl))]
      exact hu1 x (hx l0 List.mem_cons_self)
    · intro x hx
      rw [ru2 x (fun l hl => hx l (List.mem_cons_of_mem _ hl))]
      exact hu2 x (hx l0 List.mem_cons_self)

/-- a family of `outer` lines of `n` elements each: all addresses inside the buffer and distinct -/
structure GridOK (size outer n : Nat) (A : Nat → Nat → Nat) : Prop where
  inb : ∀ l < outer, ∀ t < n, A l t < size
  inj : ∀ l < outer, ∀ t < n, ∀ l' < outer, ∀ t' < n, A l t = A l' t' → l = l' ∧ t = t'

theorem pass_fold_spec (n outer : Nat) (A AO : Nat → Nat → Nat) (fo : Array Int × Array Int)
    (hA : GridOK fo.1.size outer n A) (hAO : GridOK fo.2.size outer n AO) :
    ((List.range outer).foldl (fun acc l => dtLineA acc (A l) (AO l) n) fo).1.size = fo.1.size ∧
    ((List.range outer).foldl (fun acc l => dtLineA acc (A l) (AO l) n) fo).2.size = fo.2.size ∧
    (∀ l < outer, ∀ q < n,
      ((List.range outer).foldl (fun acc l => dtLineA acc (A l) (AO l) n) fo).1.getD (A l q) 0 =
        valueAt (lineA fo.1 (A l) n) q (ownerAt (lineA fo.1 (A l) n) q) ∧
      ((List.range outer).foldl (fun acc l => dtLineA acc (A l) (AO l) n) fo).2.getD (AO l q) 0 =
        fo.2.getD (AO l (ownerAt (lineA fo.1 (A l) n) q)) 0) ∧
    (∀ x, (∀ l < outer, ∀ q < n, A l q ≠ x) →
      ((List.range outer).foldl (fun acc l => dtLineA acc (A l) (AO l) n) fo).1.getD x 0 = fo.1.getD x 0) ∧
    (∀ x, (∀ l < outer, ∀ q < n, AO l q ≠ x) →
      ((List.range outer).foldl (fun acc l => dtLineA acc (A l) (AO l) n) fo).2.getD x 0 = fo.2.getD x 0) := by
  have key := lines_fold_spec n ((List.range outer).map fun l => (A l, AO l)) fo ?_ ?_
  · rw [List.foldl_map] at key
    obtain ⟨k1, k2, k3, k4, k5⟩ := key
    refine ⟨k1, k2, ?_, ?_, ?_⟩
    · intro l hl q hq
      exact k3 (A l, AO l) (List.mem_map.2 ⟨l, List.mem_range.2 hl, rfl⟩) q hq
    · intro x hx
      apply k4
      intro l hl q hq
      obtain ⟨l', hl', rfl⟩ := List.mem_map.1 hl
      exact hx l' (List.mem_range.1 hl') q hq
    · intro x hx
      apply k5
      intro l hl q hq
      obtain ⟨l', hl', rfl⟩ := List.mem_map.1 hl
      exact hx l' (List.mem_range.1 hl') q hq
  · intro l hl
    obtain ⟨l', hl', rfl⟩ := List.mem_map.1 hl
    have hl' := List.mem_range.1 hl'
    exact ⟨⟨fun q hq q' hq' h => (hA.inj l' hl' q hq l' hl' q' hq' h).2, fun q hq => hA.inb l' hl' q hq⟩,
           ⟨fun q hq q' hq' h => (hAO.inj l' hl' q hq l' hl' q' hq' h).2, fun q hq => hAO.inb l' hl' q hq⟩⟩
  · rw [List.pairwise_map]
    apply List.Pairwise.imp_of_mem _ (List.pairwise_lt_range (n := outer))
    intro a b ha hb hab t ht t' ht'
    have ha := List.mem_range.1 ha
    have hb := List.mem_range.1 hb
    constructor
    · intro h
      have := (hA.inj a ha t ht b hb t' ht' h).1
      omega
    · intro h
      have := (hAO.inj a ha t ht b hb t' ht' h).1
      omega

/-! ### a 2-D strided view -/

/-- address of the logical element `(i, j)` of a 2-D view: data pointer `b`, element strides `s0`, `s1` -/
def addr2 (b s0 s1 : Int) (i j : Nat) : Nat := (b + (i : Int) * s0 + (j : Int) * s1).toNat

/-- what numpy guarantees about a (non-overlapping) view of shape `(d0, d1)` into a buffer of `size`
elements: every element address is inside the buffer and distinct elements have distinct addresses.
Strides may be negative, zero is impossible unless the axis has length 1, any order. -/
structure ViewOK (size d0 d1 : Nat) (b s0 s1 : Int) : Prop where
  inb : ∀ i < d0, ∀ j < d1, 0 ≤ b + (i : Int) * s0 + (j : Int) * s1 ∧
      b + (i : Int) * s0 + (j : Int) * s1 < (size : Int)
  inj : ∀ i < d0, ∀ j < d1, ∀ i' < d0, ∀ j' < d1,
      b + (i : Int) * s0 + (j : Int) * s1 = b + (i' : Int) * s0 + (j' : Int) * s1 → i = i' ∧ j = j'

/-- the logical image seen through the view -/
def logical2 (a : Array Int) (d0 d1 : Nat) (b s0 s1 : Int) : Img Int :=
  Img.tabulate [d0, d1] fun p => a.getD (addr2 b s0 s1 (p.getD 0 0).toNat (p.getD 1 0).toNat) 0

theorem ViewOK.grid1 {size d0 d1 : Nat} {b s0 s1 : Int} (h : ViewOK size d0 d1 b s0 s1) :
    GridOK size d0 d1 (fun i t => addr2 b s0 s1 i t) := by
  constructor
  · intro i hi j hj
    have := h.inb i hi j hj
    unfold addr2; omega
  · intro i hi j hj i' hi' j' hj' he
    have h1 := h.inb i hi j hj
    have h2 := h.inb i' hi' j' hj'
    apply h.inj i hi j hj i' hi' j' hj'
    unfold addr2 at he; omega

theorem ViewOK.grid0 {size d0 d1 : Nat} {b s0 s1 : Int} (h : ViewOK size d0 d1 b s0 s1) :
    GridOK size d1 d0 (fun j t => addr2 b s0 s1 t j) := by
  constructor
  · intro j hj i hi
    exact h.grid1.inb i hi j hj
  · intro j hj i hi j' hj' i' hi' he
    have := h.grid1.inj i hi j hj i' hi' j' hj' he
    exact ⟨this.2, this.1⟩

theorem inside2 (d0 d1 : Nat) (p : List Int) (hp : inside [d0, d1] p = true) :
    ∃ i j : Nat, i < d0 ∧ j < d1 ∧ p = [(i : Int), (j : Int)] := by
  match p, hp with
  | [a, c], hp =>
    simp only [inside, Bool.and_eq_true, decide_eq_true_eq, Bool.and_true] at hp
    refine ⟨a.toNat, c.toNat, by omega, by omega, ?_⟩
    have h1 : ((a.toNat : Nat) : Int) = a := by omega
    have h2 : ((c.toNat : Nat) : Int) = c := by omega
    rw [h1, h2]
  | [], hp => simp [inside] at hp
  | [_], hp => simp [inside] at hp
  | _ :: _ :: _ :: _, hp => simp [inside] at hp

theorem inside2_mk (d0 d1 i j : Nat) (hi : i < d0) (hj : j < d1) : inside [d0, d1] [(i : Int), (j : Int)] = true := by
  simp only [inside, Bool.and_eq_true, decide_eq_true_eq, Bool.and_true]
  omega

theorem logical2_getD (a : Array Int) (d0 d1 : Nat) (b s0 s1 : Int) (i j : Nat) (hi : i < d0) (hj : j < d1) :
    (logical2 a d0 d1 b s0 s1).getD [(i : Int), (j : Int)] 0 = a.getD (addr2 b s0 s1 i j) 0 := by
  unfold logical2
  rw [tabulate_getD _ _ _ _ (inside2_mk d0 d1 i j hi hj)]
  simp

theorem tabulate_congr {α : Type} (s : List Nat) (f g : List Int → α)
    (h : ∀ p, inside s p = true → f p = g p) : Img.tabulate s f = Img.tabulate s g := by
  unfold Img.tabulate
  congr 2
  apply List.map_congr_left
  intro p hp
  unfold allPos at hp
  obtain ⟨i, hi, rfl⟩ := List.mem_map.1 hp
  exact h _ (unravelI_inside s i (List.mem_range.1 hi)).1

theorem lineOf_logical0 (a : Array Int) (d0 d1 : Nat) (b s0 s1 : Int) (i j : Nat) (hj : j < d1) :
    lineOf (logical2 a d0 d1 b s0 s1) [(i : Int), (j : Int)] 0 = lineA a (fun t => addr2 b s0 s1 t j) d0 := by
  unfold lineOf lineA
  have hs : (logical2 a d0 d1 b s0 s1).shape.getD 0 0 = d0 := rfl
  rw [hs]
  congr 1
  apply List.map_congr_left
  intro t ht
  have ht := List.mem_range.1 ht
  simp only [List.set_cons_zero]
  exact logical2_getD a d0 d1 b s0 s1 t j ht hj

theorem lineOf_logical1 (a : Array Int) (d0 d1 : Nat) (b s0 s1 : Int) (i j : Nat) (hi : i < d0) :
    lineOf (logical2 a d0 d1 b s0 s1) [(i : Int), (j : Int)] 1 = lineA a (fun t => addr2 b s0 s1 i t) d1 := by
  unfold lineOf lineA
  have hs : (logical2 a d0 d1 b s0 s1).shape.getD 1 0 = d1 := rfl
  rw [hs]
  congr 1
  apply List.map_congr_left
  intro t ht
  have ht := List.mem_range.1 ht
  simp only [List.set_cons_succ, List.set_cons_zero]
  exact logical2_getD a d0 d1 b s0 s1 i t hi ht

/-- the pass of `py_dt` along axis 0 of a strided view is `passCoord · 0` of the logical image -/
theorem dtPass0_logical (fo : Array Int × Array Int) (d0 d1 : Nat) (b s0 s1 ob os0 os1 : Int)
    (hv : ViewOK fo.1.size d0 d1 b s0 s1) (ho : ViewOK fo.2.size d0 d1 ob os0 os1) :
    (dtPass fo d0 d1 b s0 s1 ob os0 os1).1.size = fo.1.size ∧
    (dtPass fo d0 d1 b s0 s1 ob os0 os1).2.size = fo.2.size ∧
    (logical2 (dtPass fo d0 d1 b s0 s1 ob os0 os1).1 d0 d1 b s0 s1,
     logical2 (dtPass fo d0 d1 b s0 s1 ob os0 os1).2 d0 d1 ob os0 os1) =
      passCoord (logical2 fo.1 d0 d1 b s0 s1, logical2 fo.2 d0 d1 ob os0 os1) 0 ∧
    (∀ x, (∀ i < d0, ∀ j < d1, addr2 b s0 s1 i j ≠ x) →
      (dtPass fo d0 d1 b s0 s1 ob os0 os1).1.getD x 0 = fo.1.getD x 0) ∧
    (∀ x, (∀ i < d0, ∀ j < d1, addr2 ob os0 os1 i j ≠ x) →
      (dtPass fo d0 d1 b s0 s1 ob os0 os1).2.getD x 0 = fo.2.getD x 0) := by
  have hfun : dtPass fo d0 d1 b s0 s1 ob os0 os1 =
      (List.range d1).foldl (fun acc l => dtLineA acc (fun t => addr2 b s0 s1 t l)
        (fun t => addr2 ob os0 os1 t l) d0) fo := by
    unfold dtPass
    congr 1
    funext acc start
    unfold dtLine
    congr 1
    · funext t; unfold lineAddr addr2; congr 1; ring
    · funext t; unfold lineAddr addr2; congr 1; ring
  rw [hfun]
  obtain ⟨k1, k2, k3, k4, k5⟩ := pass_fold_spec d0 d1 (fun j t => addr2 b s0 s1 t j)
    (fun j t => addr2 ob os0 os1 t j) fo hv.grid0 ho.grid0
  refine ⟨k1, k2, ?_, ?_, ?_⟩
  · unfold passCoord
    apply Prod.ext
    · show logical2 _ d0 d1 b s0 s1 = Img.tabulate [d0, d1] _
      unfold logical2
      apply tabulate_congr
      intro p hp
      obtain ⟨i, j, hi, hj, rfl⟩ := inside2 d0 d1 p hp
      simp only [List.getD_cons_zero, List.getD_cons_succ, Int.toNat_natCast]
      rw [← logical2, (k3 j hj i hi).1, ← lineOf_logical0 fo.1 d0 d1 b s0 s1 i j hj]
    · show logical2 _ d0 d1 ob os0 os1 = Img.tabulate [d0, d1] _
      unfold logical2
      apply tabulate_congr
      intro p hp
      obtain ⟨i, j, hi, hj, rfl⟩ := inside2 d0 d1 p hp
      simp only [List.getD_cons_zero, List.getD_cons_succ, Int.toNat_natCast, List.set_cons_zero]
      rw [← logical2, ← logical2, (k3 j hj i hi).2, ← lineOf_logical0 fo.1 d0 d1 b s0 s1 i j hj]
      have hown : ownerAt (lineOf (logical2 fo.1 d0 d1 b s0 s1) [(i : Int), (j : Int)] 0) i < d0 := by
        have := ownerAt_lt (lineOf (logical2 fo.1 d0 d1 b s0 s1) [(i : Int), (j : Int)] 0) i
          (by rw [lineOf_size]; exact hi)
        rw [lineOf_size] at this
        exact this
      rw [logical2_getD fo.2 d0 d1 ob os0 os1 _ j hown hj]
  · intro x hx
    exact k4 x (fun l hl q hq => hx q hq l hl)
  · intro x hx
    exact k5 x (fun l hl q hq => hx q hq l hl)

/-- the pass of `py_dt` along axis 1 of a strided view is `passCoord · 1` of the logical image -/
theorem dtPass1_logical (fo : Array Int × Array Int) (d0 d1 : Nat) (b s0 s1 ob os0 os1 : Int)
    (hv : ViewOK fo.1.size d0 d1 b s0 s1) (ho : ViewOK fo.2.size d0 d1 ob os0 os1) :
    (dtPass fo d1 d0 b s1 s0 ob os1 os0).1.size = fo.1.size ∧
    (dtPass fo d1 d0 b s1 s0 ob os1 os0).2.size = fo.2.size ∧
    (logical2 (dtPass fo d1 d0 b s1 s0 ob os1 os0).1 d0 d1 b s0 s1,
     logical2 (dtPass fo d1 d0 b s1 s0 ob os1 os0).2 d0 d1 ob os0 os1) =
      passCoord (logical2 fo.1 d0 d1 b s0 s1, logical2 fo.2 d0 d1 ob os0 os1) 1 ∧
    (∀ x, (∀ i < d0, ∀ j < d1, addr2 b s0 s1 i j ≠ x) →
      (dtPass fo d1 d0 b s1 s0 ob os1 os0).1.getD x 0 = fo.1.getD x 0) ∧
    (∀ x, (∀ i < d0, ∀ j < d1, addr2 ob os0 os1 i j ≠ x) →
      (dtPass fo d1 d0 b s1 s0 ob os1 os0).2.getD x 0 = fo.2.getD x 0) := by
  have hfun : dtPass fo d1 d0 b s1 s0 ob os1 os0 =
      (List.range d0).foldl (fun acc l => dtLineA acc (fun t => addr2 b s0 s1 l t)
        (fun t => addr2 ob os0 os1 l t) d1) fo := rfl
  rw [hfun]
  obtain ⟨k1, k2, k3, k4, k5⟩ := pass_fold_spec d1 d0 (fun i t => addr2 b s0 s1 i t)
    (fun i t => addr2 ob os0 os1 i t) fo hv.grid1 ho.grid1
  refine ⟨k1, k2, ?_, k4, k5⟩
  unfold passCoord
  apply Prod.ext
  · show logical2 _ d0 d1 b s0 s1 = Img.tabulate [d0, d1] _
    unfold logical2
    apply tabulate_congr
    intro p hp
    obtain ⟨i, j, hi, hj, rfl⟩ := inside2 d0 d1 p hp
    simp only [List.getD_cons_zero, List.getD_cons_succ, Int.toNat_natCast]
    rw [← logical2, (k3 i hi j hj).1, ← lineOf_logical1 fo.1 d0 d1 b s0 s1 i j hi]
  · show logical2 _ d0 d1 ob os0 os1 = Img.tabulate [d0, d1] _
    unfold logical2
    apply tabulate_congr
    intro p hp
    obtain ⟨i, j, hi, hj, rfl⟩ := inside2 d0 d1 p hp
    simp only [List.getD_cons_zero, List.getD_cons_succ, Int.toNat_natCast, List.set_cons_zero,
      List.set_cons_succ]
    rw [← logical2, ← logical2, (k3 i hi j hj).2, ← lineOf_logical1 fo.1 d0 d1 b s0 s1 i j hi]
    have hown : ownerAt (lineOf (logical2 fo.1 d0 d1 b s0 s1) [(i : Int), (j : Int)] 1) j < d1 := by
      have := ownerAt_lt (lineOf (logical2 fo.1 d0 d1 b s0 s1) [(i : Int), (j : Int)] 1) j
        (by rw [lineOf_size]; exact hj)
      rw [lineOf_size] at this
      exact this
    rw [logical2_getD fo.2 d0 d1 ob os0 os1 i _ hi hown]

/-- **`py_dt` on an arbitrary strided 2-D view** computes the two coordinate-level passes on the
logical image and leaves everything outside the view untouched. -/
theorem pyDt_logical (fo : Array Int × Array Int) (d0 d1 : Nat) (b s0 s1 ob os0 os1 : Int)
    (hd0 : 0 < d0) (hd1 : 0 < d1)
    (hv : ViewOK fo.1.size d0 d1 b s0 s1) (ho : ViewOK fo.2.size d0 d1 ob os0 os1) :
    (pyDt fo d0 d1 b s0 s1 ob os0 os1).1.size = fo.1.size ∧
    (pyDt fo d0 d1 b s0 s1 ob os0 os1).2.size = fo.2.size ∧
    (logical2 (pyDt fo d0 d1 b s0 s1 ob os0 os1).1 d0 d1 b s0 s1,
     logical2 (pyDt fo d0 d1 b s0 s1 ob os0 os1).2 d0 d1 ob os0 os1) =
      passCoord (passCoord (logical2 fo.1 d0 d1 b s0 s1, logical2 fo.2 d0 d1 ob os0 os1) 0) 1 ∧
    (∀ x, (∀ i < d0, ∀ j < d1, addr2 b s0 s1 i j ≠ x) →
      (pyDt fo d0 d1 b s0 s1 ob os0 os1).1.getD x 0 = fo.1.getD x 0) ∧
    (∀ x, (∀ i < d0, ∀ j < d1, addr2 ob os0 os1 i j ≠ x) →
      (pyDt fo d0 d1 b s0 s1 ob os0 os1).2.getD x 0 = fo.2.getD x 0) := by
  have hsz : (d0 * d1 == 0) = false := by
    have : 0 < d0 * d1 := Nat.mul_pos hd0 hd1
    simp; omega
  have hpy : pyDt fo d0 d1 b s0 s1 ob os0 os1 =
      dtPass (dtPass fo d0 d1 b s0 s1 ob os0 os1) d1 d0 b s1 s0 ob os1 os0 := by
    unfold pyDt
    simp only [hsz, Bool.false_eq_true, if_false]
    rw [Nat.mul_div_cancel_left d1 hd0, Nat.mul_div_cancel d0 hd1]
  rw [hpy]
  obtain ⟨a1, a2, a3, a4, a5⟩ := dtPass0_logical fo d0 d1 b s0 s1 ob os0 os1 hv ho
  obtain ⟨b1, b2, b3, b4, b5⟩ := dtPass1_logical (dtPass fo d0 d1 b s0 s1 ob os0 os1) d0 d1 b s0 s1 ob os0 os1
    (by rw [a1]; exact hv) (by rw [a2]; exact ho)
  refine ⟨by rw [b1, a1], by rw [b2, a2], ?_, ?_, ?_⟩
  · rw [b3, a3]
  · intro x hx; rw [b4 x hx, a4 x hx]
  · intro x hx; rw [b5 x hx, a5 x hx]

/-! ### the `(1, n)` views of the n-D loop -/

theorem ravelI_set (shape : List Nat) (p : List Int) (ax : Nat) (t : Int) (hp : ax < p.length)
    (hs : ax < shape.length) :
    ravelI shape (p.set ax t) = ravelI shape (p.set ax 0) + t.toNat * strideOf shape ax := by
  induction shape generalizing p ax with
  | nil => simp at hs
  | cons d ds ih =>
    cases p with
    | nil => simp at hp
    | cons a ps =>
      cases ax with
      | zero =>
        simp only [List.set_cons_zero, ravelI, strideOf, List.drop_succ_cons, List.drop_zero]
        simp
        omega
      | succ k =>
        simp only [List.set_cons_succ, ravelI]
        rw [ih ps k (by simpa using hp) (by simpa using hs)]
        have : strideOf (d :: ds) (k + 1) = strideOf ds k := by simp [strideOf]
        rw [this]
        omega

theorem setIfInBounds_getD_self (a : Array Int) (i : Nat) : a.setIfInBounds i (a.getD i 0) = a := by
  apply Array.ext
  · simp
  · intro j h1 h2
    simp only [Array.size_setIfInBounds] at h1
    rw [Array.getElem_setIfInBounds]
    · by_cases h : i = j
      · subst h; simp [h2]
      · simp [h]
    · exact h2

theorem owners1d_single (x : Int) : owners1d #[x] = [0] := by
  simp [owners1d, readOwners, build, advance, headV, List.range_succ]

/-- a line of one element is left as it is (the pass along the length-1 axis of a `(1, n)` view) -/
theorem dtLineA_one (fo : Array Int × Array Int) (addr oaddr : Nat → Nat) : dtLineA fo addr oaddr 1 = fo := by
  unfold dtLineA
  simp only [List.range_succ, List.range_zero, List.nil_append, List.map_cons, List.map_nil, owners1d_single]
  unfold writeLine
  simp only [List.range_succ, List.range_zero, List.nil_append, List.foldl_cons, List.foldl_nil]
  apply Prod.ext
  · show fo.1.setIfInBounds (addr 0) (valueAt #[fo.1.getD (addr 0) 0] 0 (#[0].getD 0 0)) = fo.1
    have : valueAt #[fo.1.getD (addr 0) 0] 0 (#[0].getD 0 0) = fo.1.getD (addr 0) 0 := by
      simp [valueAt]
    rw [this, setIfInBounds_getD_self]
  · show fo.2.setIfInBounds (oaddr 0) (fo.2.getD (oaddr (#[0].getD 0 0)) 0) = fo.2
    have : (#[0] : Array Nat).getD 0 0 = 0 := rfl
    rw [this, setIfInBounds_getD_self]

theorem pyDt_row (fo : Array Int × Array Int) (n i st : Nat) (hn : 0 < n) :
    pyDt fo 1 n (i : Int) 0 (st : Int) (i : Int) 0 (st : Int) =
      dtLineA fo (fun t => i + t * st) (fun t => i + t * st) n := by
  have hsz : (n == 0) = false := by simp; omega
  unfold pyDt
  simp only [Nat.one_mul, hsz, Bool.false_eq_true, if_false, Nat.div_one, Nat.div_self hn]
  have h1 : dtPass fo 1 n (i : Int) 0 (st : Int) (i : Int) 0 (st : Int) = fo := by
    unfold dtPass
    have : ∀ (l : List Nat) (acc : Array Int × Array Int),
        l.foldl (fun acc (start : Nat) =>
          dtLine acc ((i : Int) + (start : Int) * (st : Int)) 0 ((i : Int) + (start : Int) * (st : Int)) 0 1) acc = acc := by
      intro l
      induction l with
      | nil => intro acc; rfl
      | cons a l ih => intro acc; simp only [List.foldl_cons]; unfold dtLine; rw [dtLineA_one]; exact ih acc
    exact this _ _
  rw [h1]
  unfold dtPass
  simp only [List.range_succ, List.range_zero, List.nil_append, List.foldl_cons, List.foldl_nil]
  unfold dtLine
  have ha : lineAddr ((i : Int) + ((0 : Nat) : Int) * 0) (st : Int) = fun t => i + t * st := by
    funext t
    unfold lineAddr
    have : ((i : Int) + ((0 : Nat) : Int) * 0 + (t : Int) * (st : Int)) = ((i + t * st : Nat) : Int) := by
      push_cast; ring
    rw [this, Int.toNat_natCast]
  rw [ha]

/-! ### one axis of the n-D loop is `passCoord` -/

theorem array_ext_getD (a b : Array Int) (hs : a.size = b.size)
    (h : ∀ x < a.size, a.getD x 0 = b.getD x 0) : a = b := by
  apply Array.ext hs
  intro i h1 h2
  have := h i h1
  simpa [Array.getD_eq_getD_getElem?, h1, h2] using this

theorem getD_unravelI (s : List Nat) (i ax : Nat) :
    (unravelI s i).getD ax 0 = (((unravel s i).getD ax 0 : Nat) : Int) := by
  unfold unravelI
  simp only [List.getD_eq_getElem?_getD, List.getElem?_map]
  cases (unravel s i)[ax]? <;> rfl

theorem set_getD_self (p : List Int) (ax : Nat) : p.set ax (p.getD ax 0) = p := by
  by_cases h : ax < p.length
  · simp [List.getD_eq_getElem?_getD, List.getElem?_eq_getElem h]
  · exact List.set_eq_of_length_le (by omega)

theorem getD_one_eq (l : List Nat) (ax : Nat) (h : ax < l.length) : l.getD ax 1 = l.getD ax 0 := by
  simp [List.getD_eq_getElem?_getD, List.getElem?_eq_getElem h]

theorem tab_data_size {α : Type} (s : List Nat) (f : List Int → α) : (Img.tabulate s f).data.size = shapeSize s := by
  simp [Img.tabulate, allPos]

theorem tab_data_getD (s : List Nat) (f : List Int → Int) (x : Nat) (hx : x < shapeSize s) :
    (Img.tabulate s f).data.getD x 0 = f (unravelI s x) := by
  simp [Img.tabulate, Array.getD_eq_getD_getElem?, allPos, List.getElem?_map, List.getElem?_range hx]

/-- element `t` of the line that starts at flat index `i` (coordinate `ax` of `i` is 0) -/
theorem lineStart_addr (shape : List Nat) (ax : Nat) (hax : ax < shape.length) (i : Nat)
    (hi : i < shapeSize shape) (hz : (unravel shape i).getD ax 0 = 0) (t : Nat) :
    i + t * strideOf shape ax = ravelI shape ((unravelI shape i).set ax (t : Int)) := by
  obtain ⟨hin, hrav⟩ := unravelI_inside shape i hi
  have hl := inside_length shape _ hin
  rw [ravelI_set shape _ ax t (by omega) hax]
  have h0 : (unravelI shape i).set ax 0 = unravelI shape i := by
    have := set_getD_self (unravelI shape i) ax
    rw [getD_unravelI, hz] at this
    exact this
  rw [h0, hrav]
  simp

theorem passAxis_coord (shape : List Nat) (ax : Nat) (hax : ax < shape.length) (A O : Img Int)
    (hA : A.shape = shape) (hO : O.shape = shape)
    (hAs : A.data.size = shapeSize shape) (hOs : O.data.size = shapeSize shape) :
    passAxis shape ax (A.data, O.data) = ((passCoord (A, O) ax).1.data, (passCoord (A, O) ax).2.data) := by
  by_cases hsz : shapeSize shape = 0
  · unfold passAxis
    rw [hsz]
    simp only [List.range_zero, List.foldl_nil]
    apply Prod.ext
    · apply array_ext_getD
      · show A.data.size = (Img.tabulate A.shape _).data.size
        rw [tab_data_size, hA, hAs]
      · intro x hx; rw [hAs, hsz] at hx; omega
    · apply array_ext_getD
      · show O.data.size = (Img.tabulate A.shape _).data.size
        rw [tab_data_size, hA, hOs]
      · intro x hx; rw [hOs, hsz] at hx; omega
  have hpos : 0 < shapeSize shape := Nat.pos_of_ne_zero hsz
  -- notation
  obtain ⟨n, hn_def⟩ : ∃ n, n = shape.getD ax 1 := ⟨_, rfl⟩
  obtain ⟨st, hst_def⟩ : ∃ st, st = strideOf shape ax := ⟨_, rfl⟩
  have hn0 : shape.getD ax 0 = n := by rw [hn_def, getD_one_eq shape ax hax]
  have hn : 0 < n := by
    obtain ⟨hin, _⟩ := unravelI_inside shape 0 hpos
    have := inside_getD shape _ ax hin hax
    rw [hn0] at this; omega
  -- facts about a line start
  have hstart : ∀ i, i < shapeSize shape → (unravel shape i).getD ax 0 = 0 → ∀ t : Nat, t < n →
      inside shape ((unravelI shape i).set ax (t : Int)) = true := by
    intro i hi hz t ht
    obtain ⟨hin, _⟩ := unravelI_inside shape i hi
    exact inside_set shape _ ax t hin (by omega) (by rw [hn0]; omega)
  have hlen : ∀ i, i < shapeSize shape → ax < (unravelI shape i).length := by
    intro i hi
    rw [inside_length shape _ (unravelI_inside shape i hi).1]; exact hax
  have haddr : ∀ i, i < shapeSize shape → (unravel shape i).getD ax 0 = 0 → ∀ t : Nat,
      i + t * st = ravelI shape ((unravelI shape i).set ax (t : Int)) := by
    intro i hi hz t
    rw [hst_def]; exact lineStart_addr shape ax hax i hi hz t
  have hinj : ∀ i, i < shapeSize shape → (unravel shape i).getD ax 0 = 0 →
      ∀ i', i' < shapeSize shape → (unravel shape i').getD ax 0 = 0 →
      ∀ t < n, ∀ t' < n, i + t * st = i' + t' * st → i = i' ∧ t = t' := by
    intro i hi hz i' hi' hz' t ht t' ht' he
    rw [haddr i hi hz t, haddr i' hi' hz' t'] at he
    have hpe := ravelI_inj shape _ _ (hstart i hi hz t ht) (hstart i' hi' hz' t' ht') he
    constructor
    · have h1 := congrArg (fun l => ravelI shape (l.set ax 0)) hpe
      simp only [List.set_set] at h1
      have := haddr i hi hz 0
      have := haddr i' hi' hz' 0
      simp only [Nat.zero_mul, Nat.add_zero, Nat.cast_zero] at *
      omega
    · have h1 := congrArg (fun l => l.getD ax 0) hpe
      simp only [getD_set_self _ _ _ (hlen i hi), getD_set_self _ _ _ (hlen i' hi')] at h1
      omega
  -- the fold over the lines
  have hfold : passAxis shape ax (A.data, O.data) =
      (((List.range (shapeSize shape)).filter (fun i => (unravel shape i).getD ax 0 == 0)).map
        (fun i => ((fun t => i + t * st), (fun t => i + t * st)))).foldl
        (fun acc (l : (Nat → Nat) × (Nat → Nat)) => dtLineA acc l.1 l.2 n) (A.data, O.data) := by
    rw [List.foldl_map, List.foldl_filter]
    unfold passAxis
    rw [← hn_def, ← hst_def]
    show List.foldl _ _ _ = List.foldl _ _ _
    congr 1
    funext acc i
    by_cases hc : (unravel shape i).getD ax 0 = 0
    · rw [if_neg (by rw [hc]; decide), if_pos (by rw [hc]; rfl), pyDt_row _ _ _ _ hn]
    · rw [if_pos (bne_iff_ne.2 hc), if_neg (by rw [beq_iff_eq]; exact hc)]
  have key := lines_fold_spec n
    (((List.range (shapeSize shape)).filter (fun i => (unravel shape i).getD ax 0 == 0)).map
        (fun i => ((fun t => i + t * st), (fun t => i + t * st)))) (A.data, O.data) ?_ ?_
  · rw [← hfold] at key
    obtain ⟨k1, k2, k3, _, _⟩ := key
    -- per pixel
    have hpix : ∀ x, x < shapeSize shape →
        (passAxis shape ax (A.data, O.data)).1.getD x 0 = (passCoord (A, O) ax).1.data.getD x 0 ∧
        (passAxis shape ax (A.data, O.data)).2.getD x 0 = (passCoord (A, O) ax).2.data.getD x 0 := by
      intro x hx
      obtain ⟨hin, hrav⟩ := unravelI_inside shape x hx
      obtain ⟨p, hp_def⟩ : ∃ p, p = unravelI shape x := ⟨_, rfl⟩
      rw [← hp_def] at hin hrav
      have hpl : ax < p.length := by rw [inside_length shape p hin]; exact hax
      obtain ⟨hq0, hq1⟩ := inside_getD shape p ax hin hax
      rw [hn0] at hq1
      obtain ⟨q, hq_def⟩ : ∃ q, q = (p.getD ax 0).toNat := ⟨_, rfl⟩
      have hqn : q < n := by omega
      have hqc : ((q : Nat) : Int) = p.getD ax 0 := by omega
      have hp0in : inside shape (p.set ax 0) = true := inside_set shape p ax 0 hin (by omega) (by rw [hn0]; omega)
      obtain ⟨i0, hi0_def⟩ : ∃ i0, i0 = ravelI shape (p.set ax 0) := ⟨_, rfl⟩
      have hi0 : i0 < shapeSize shape := by rw [hi0_def]; exact ravelI_lt shape _ hp0in
      have hu0 : unravelI shape i0 = p.set ax 0 := by rw [hi0_def]; exact unravelI_ravelI shape _ hp0in
      have hz0 : (unravel shape i0).getD ax 0 = 0 := by
        have := getD_unravelI shape i0 ax
        rw [hu0, getD_set_self p ax 0 hpl] at this
        omega
      have hline_addr : ∀ t : Nat, i0 + t * st = ravelI shape (p.set ax (t : Int)) := by
        intro t
        rw [haddr i0 hi0 hz0 t, hu0, List.set_set]
      have hx_addr : i0 + q * st = x := by
        rw [hline_addr q, hqc, set_getD_self, hrav]
      have hmem : ((fun t => i0 + t * st), (fun t => i0 + t * st)) ∈
          ((List.range (shapeSize shape)).filter (fun i => (unravel shape i).getD ax 0 == 0)).map
            (fun i => (((fun t => i + t * st), (fun t => i + t * st)) : (Nat → Nat) × (Nat → Nat))) := by
        apply List.mem_map.2
        exact ⟨i0, List.mem_filter.2 ⟨List.mem_range.2 hi0, by show ((unravel shape i0).getD ax 0 == 0) = true; rw [hz0]; rfl⟩, rfl⟩
      obtain ⟨kv, ko⟩ := k3 _ hmem q hqn
      simp only [hx_addr] at kv ko
      -- the line
      have hline : lineOf A p ax = lineA A.data (fun t => i0 + t * st) n := by
        unfold lineOf lineA
        rw [hA, hn0]
        congr 1
        apply List.map_congr_left
        intro t ht
        have ht := List.mem_range.1 ht
        have hti : inside A.shape (p.set ax (t : Int)) = true := by
          rw [hA]; exact inside_set shape p ax t hin (by omega) (by rw [hn0]; omega)
        show A.getD (p.set ax (t : Int)) 0 = A.data.getD (i0 + t * st) 0
        unfold Img.getD
        rw [if_pos hti, hA, hline_addr t]
      have hpin : inside A.shape p = true := by rw [hA]; exact hin
      constructor
      · rw [kv]
        show _ = (Img.tabulate A.shape _).data.getD x 0
        rw [hA, tab_data_getD _ _ x hx, ← hp_def, ← hq_def, hline]
      · rw [ko]
        show _ = (Img.tabulate A.shape _).data.getD x 0
        rw [hA, tab_data_getD _ _ x hx, ← hp_def, ← hq_def, hline]
        have hown : ownerAt (lineA A.data (fun t => i0 + t * st) n) q < n := by
          have := ownerAt_lt (lineA A.data (fun t => i0 + t * st) n) q (by rw [lineA_size]; exact hqn)
          rwa [lineA_size] at this
        have hoi : inside O.shape (p.set ax ((ownerAt (lineA A.data (fun t => i0 + t * st) n) q : Nat) : Int)) = true := by
          rw [hO]; exact inside_set shape p ax _ hin (by omega) (by rw [hn0]; omega)
        show O.data.getD (i0 + _ * st) 0 = O.getD _ 0
        unfold Img.getD
        rw [if_pos hoi, hO, hline_addr]
    apply Prod.ext
    · apply array_ext_getD
      · rw [k1]
        show A.data.size = (Img.tabulate A.shape _).data.size
        rw [tab_data_size, hA, hAs]
      · intro x hx
        rw [k1] at hx
        exact (hpix x (by rw [← hAs]; exact hx)).1
    · apply array_ext_getD
      · rw [k2]
        show O.data.size = (Img.tabulate A.shape _).data.size
        rw [tab_data_size, hA, hOs]
      · intro x hx
        rw [k2] at hx
        exact (hpix x (by rw [← hOs]; exact hx)).2
  · intro l hl
    obtain ⟨i, hi, rfl⟩ := List.mem_map.1 hl
    obtain ⟨hi1, hi2⟩ := List.mem_filter.1 hi
    have hi1 := List.mem_range.1 hi1
    have hz : (unravel shape i).getD ax 0 = 0 := by have := hi2; simp only [beq_iff_eq] at this; exact this
    have hok : LineOK (shapeSize shape) (fun t => i + t * st) n :=
      ⟨fun q hq q' hq' h => (hinj i hi1 hz i hi1 hz q hq q' hq' h).2,
       fun q hq => by
        show i + q * st < shapeSize shape
        rw [haddr i hi1 hz q]; exact ravelI_lt shape _ (hstart i hi1 hz q hq)⟩
    exact ⟨by rw [hAs]; exact hok, by rw [hOs]; exact hok⟩
  · rw [List.pairwise_map]
    apply List.Pairwise.imp_of_mem _ (List.Pairwise.filter _ (List.pairwise_lt_range (n := shapeSize shape)))
    intro a b ha hb hab t ht t' ht'
    obtain ⟨ha1, ha2⟩ := List.mem_filter.1 ha
    obtain ⟨hb1, hb2⟩ := List.mem_filter.1 hb
    have ha1 := List.mem_range.1 ha1
    have hb1 := List.mem_range.1 hb1
    have hza : (unravel shape a).getD ax 0 = 0 := by have := ha2; simp only [beq_iff_eq] at this; exact this
    have hzb : (unravel shape b).getD ax 0 = 0 := by have := hb2; simp only [beq_iff_eq] at this; exact this
    have : ¬ (a + t * st = b + t' * st) := by
      intro h
      have := (hinj a ha1 hza b hb1 hzb t ht t' ht' h).1
      omega
    exact ⟨this, this⟩

/-! ### the whole transform -/

/-- images of the given shape with full data arrays -/
def GoodPair (shape : List Nat) (FO : Img Int × Img Int) : Prop :=
  FO.1.shape = shape ∧ FO.2.shape = shape ∧ FO.1.data.size = shapeSize shape ∧ FO.2.data.size = shapeSize shape

theorem passCoord_good (shape : List Nat) (FO : Img Int × Img Int) (ax : Nat) (h : GoodPair shape FO) :
    GoodPair shape (passCoord FO ax) := by
  obtain ⟨h1, _, _, _⟩ := h
  refine ⟨?_, ?_, ?_, ?_⟩
  · show (Img.tabulate FO.1.shape _).shape = shape; exact h1
  · show (Img.tabulate FO.1.shape _).shape = shape; exact h1
  · show (Img.tabulate FO.1.shape _).data.size = _; rw [tab_data_size, h1]
  · show (Img.tabulate FO.1.shape _).data.size = _; rw [tab_data_size, h1]

theorem initCoord_good (shape : List Nat) (bw : Array Int) : GoodPair shape (initCoord shape bw) :=
  ⟨rfl, rfl, tab_data_size _ _, tab_data_size _ _⟩

theorem passes_flat (shape : List Nat) (k : Nat) (hk : k ≤ shape.length) (FO : Img Int × Img Int)
    (h : GoodPair shape FO) :
    (List.range k).foldl (fun fo ax => passAxis shape ax fo) (FO.1.data, FO.2.data) =
      (((List.range k).foldl passCoord FO).1.data, ((List.range k).foldl passCoord FO).2.data) ∧
    GoodPair shape ((List.range k).foldl passCoord FO) := by
  induction k with
  | zero => exact ⟨rfl, h⟩
  | succ k ih =>
    obtain ⟨e, g⟩ := ih (by omega)
    rw [List.range_succ, List.foldl_append, List.foldl_append, e]
    simp only [List.foldl_cons, List.foldl_nil]
    obtain ⟨g1, g2, g3, g4⟩ := g
    exact ⟨passAxis_coord shape k (by omega) _ _ g1 g2 g3 g4, passCoord_good shape _ k ⟨g1, g2, g3, g4⟩⟩

theorem init_flat (shape : List Nat) (bw : Array Int) (hsz : bw.size = shapeSize shape) :
    (bw.map fun b => if b == 0 then 0 else sentinel shape) = (initCoord shape bw).1.data ∧
    ((List.range (shapeSize shape)).map fun (i : Nat) => (i : Int)).toArray = (initCoord shape bw).2.data := by
  constructor
  · apply array_ext_getD
    · rw [Array.size_map, hsz]; exact (tab_data_size _ _).symm
    · intro x hx
      rw [Array.size_map] at hx
      have hx' : x < shapeSize shape := by omega
      show _ = (Img.tabulate shape _).data.getD x 0
      rw [tab_data_getD _ _ x hx', (unravelI_inside shape x hx').2]
      simp [Array.getD_eq_getD_getElem?, hx]
  · apply array_ext_getD
    · rw [(initCoord_good shape bw).2.2.2]; simp
    · intro x hx
      have hx' : x < shapeSize shape := by simpa using hx
      show _ = (Img.tabulate shape _).data.getD x 0
      rw [tab_data_getD _ _ x hx', (unravelI_inside shape x hx').2]
      simp [Array.getD_eq_getD_getElem?, List.getElem?_range hx']

theorem viewOK_C (d0 d1 : Nat) : ViewOK (d0 * d1) d0 d1 0 (d1 : Int) 1 := by
  constructor
  · intro i hi j hj
    have h1 : (i + 1) * d1 ≤ d0 * d1 := Nat.mul_le_mul_right d1 hi
    rw [Nat.add_mul] at h1
    push_cast
    constructor
    · have : (0 : Int) ≤ (i : Int) * (d1 : Int) := by positivity
      omega
    · have : ((i * d1 : Nat) : Int) = (i : Int) * (d1 : Int) := by push_cast; rfl
      have : ((d0 * d1 : Nat) : Int) = (d0 : Int) * (d1 : Int) := by push_cast; rfl
      omega
  · intro i hi j hj i' hi' j' hj' he
    have he' : i * d1 + j = i' * d1 + j' := by
      have : ((i * d1 + j : Nat) : Int) = ((i' * d1 + j' : Nat) : Int) := by push_cast; omega
      exact_mod_cast this
    rcases Nat.lt_trichotomy i i' with h | h | h
    · have h1 : (i + 1) * d1 ≤ i' * d1 := Nat.mul_le_mul_right d1 h
      rw [Nat.add_mul] at h1
      omega
    · subst h; omega
    · have h1 : (i' + 1) * d1 ≤ i * d1 := Nat.mul_le_mul_right d1 h
      rw [Nat.add_mul] at h1
      omega

theorem addr2_C (d0 d1 : Nat) (p : List Int) (hp : inside [d0, d1] p = true) :
    addr2 0 (d1 : Int) 1 (p.getD 0 0).toNat (p.getD 1 0).toNat = ravelI [d0, d1] p := by
  obtain ⟨i, j, hi, hj, rfl⟩ := inside2 d0 d1 p hp
  simp only [List.getD_cons_zero, List.getD_cons_succ, Int.toNat_natCast, ravelI, shapeSize, addr2]
  have : (0 + (i : Int) * (d1 : Int) + (j : Int) * 1) = ((i * (d1 * 1) + (j * 1 + 0) : Nat) : Int) := by
    push_cast; ring
  rw [this, Int.toNat_natCast]

theorem logical2_C (a : Array Int) (d0 d1 : Nat) :
    logical2 a d0 d1 0 (d1 : Int) 1 = Img.tabulate [d0, d1] fun p => a.getD (ravelI [d0, d1] p) 0 := by
  unfold logical2
  apply tabulate_congr
  intro p hp
  rw [addr2_C d0 d1 p hp]

theorem tab_ravel_data (a : Array Int) (s : List Nat) (h : a.size = shapeSize s) :
    (Img.tabulate s fun p => a.getD (ravelI s p) 0).data = a := by
  apply array_ext_getD
  · rw [tab_data_size, h]
  · intro x hx
    rw [tab_data_size] at hx
    rw [tab_data_getD _ _ x hx, (unravelI_inside s x hx).2]

/-- **the flat/strided model of `distance()` / `gvoronoi` equals the coordinate-level passes**, for
every rank and shape (empty arrays included) -/
theorem distanceModel_eq_coord (shape : List Nat) (bw : Array Int) (hsz : bw.size = shapeSize shape) :
    distanceModel shape bw = ((distanceCoord shape bw).1.data, (distanceCoord shape bw).2.data) := by
  obtain ⟨hf0, ho0⟩ := init_flat shape bw hsz
  have hgen : (List.range shape.length).foldl (fun fo ax => passAxis shape ax fo)
      ((bw.map fun b => if b == 0 then 0 else sentinel shape),
       ((List.range (shapeSize shape)).map fun (i : Nat) => (i : Int)).toArray) =
      ((distanceCoord shape bw).1.data, (distanceCoord shape bw).2.data) := by
    rw [hf0, ho0]
    exact (passes_flat shape shape.length (Nat.le_refl _) (initCoord shape bw) (initCoord_good shape bw)).1
  unfold distanceModel
  split
  · next d0 d1 =>
    simp only []
    have hcoord : distanceCoord [d0, d1] bw = passCoord (passCoord (initCoord [d0, d1] bw) 0) 1 := rfl
    have hS : shapeSize [d0, d1] = d0 * d1 := by simp [shapeSize]
    by_cases hz : d0 * d1 = 0
    · have : pyDt ((bw.map fun b => if b == 0 then 0 else sentinel [d0, d1]),
          ((List.range (shapeSize [d0, d1])).map fun (i : Nat) => (i : Int)).toArray) d0 d1 0 (d1 : Int) 1 0 (d1 : Int) 1 =
          ((bw.map fun b => if b == 0 then 0 else sentinel [d0, d1]),
          ((List.range (shapeSize [d0, d1])).map fun (i : Nat) => (i : Int)).toArray) := by
        unfold pyDt
        simp [hz]
      rw [this]
      have g := (passes_flat [d0, d1] 2 (Nat.le_refl _) (initCoord [d0, d1] bw) (initCoord_good _ bw)).2
      obtain ⟨_, _, g3, g4⟩ := g
      apply Prod.ext
      · apply array_ext_getD
        · rw [Array.size_map, hsz]; exact g3.symm
        · intro x hx; rw [Array.size_map, hsz, hS, hz] at hx; omega
      · apply array_ext_getD
        · show _ = ((List.range 2).foldl passCoord (initCoord [d0, d1] bw)).2.data.size
          rw [g4]; simp
        · intro x hx
          have : x < shapeSize [d0, d1] := by simpa using hx
          rw [hS, hz] at this; omega
    · have hd0 : 0 < d0 := Nat.pos_of_ne_zero (fun h => hz (by rw [h, Nat.zero_mul]))
      have hd1 : 0 < d1 := Nat.pos_of_ne_zero (fun h => hz (by rw [h, Nat.mul_zero]))
      obtain ⟨f0, hf0d⟩ : ∃ f0, f0 = (bw.map fun b => if b == 0 then 0 else sentinel [d0, d1]) := ⟨_, rfl⟩
      obtain ⟨o0, ho0d⟩ : ∃ o0, o0 = ((List.range (shapeSize [d0, d1])).map fun (i : Nat) => (i : Int)).toArray := ⟨_, rfl⟩
      rw [← hf0d] at hf0
      rw [← ho0d] at ho0
      rw [← hf0d, ← ho0d]
      have hfs : f0.size = d0 * d1 := by rw [hf0d, Array.size_map, hsz, hS]
      have hos : o0.size = d0 * d1 := by rw [ho0d]; simp [hS]
      obtain ⟨r1, r2, r3, _, _⟩ := pyDt_logical (f0, o0) d0 d1 0 (d1 : Int) 1 0 (d1 : Int) 1 hd0 hd1
        (by rw [hfs]; exact viewOK_C d0 d1) (by rw [hos]; exact viewOK_C d0 d1)
      have hinit : (logical2 f0 d0 d1 0 (d1 : Int) 1, logical2 o0 d0 d1 0 (d1 : Int) 1) = initCoord [d0, d1] bw := by
        rw [logical2_C, logical2_C]
        have e1 : (Img.tabulate [d0, d1] fun p => f0.getD (ravelI [d0, d1] p) 0).data = (initCoord [d0, d1] bw).1.data := by
          rw [tab_ravel_data f0 _ (by rw [hfs, hS]), hf0]
        have e2 : (Img.tabulate [d0, d1] fun p => o0.getD (ravelI [d0, d1] p) 0).data = (initCoord [d0, d1] bw).2.data := by
          rw [tab_ravel_data o0 _ (by rw [hos, hS]), ho0]
        apply Prod.ext
        · show Img.tabulate [d0, d1] _ = (initCoord [d0, d1] bw).1
          cases hI : (initCoord [d0, d1] bw).1 with
          | mk sh da =>
            have hsh : sh = [d0, d1] := by have := (initCoord_good [d0, d1] bw).1; rw [hI] at this; exact this
            rw [hI] at e1
            subst hsh
            show Img.mk [d0, d1] _ = Img.mk [d0, d1] da
            congr 1
        · show Img.tabulate [d0, d1] _ = (initCoord [d0, d1] bw).2
          cases hI : (initCoord [d0, d1] bw).2 with
          | mk sh da =>
            have hsh : sh = [d0, d1] := by have := (initCoord_good [d0, d1] bw).2.1; rw [hI] at this; exact this
            rw [hI] at e2
            subst hsh
            show Img.mk [d0, d1] _ = Img.mk [d0, d1] da
            congr 1
      rw [hinit, ← hcoord] at r3
      simp only [] at r1 r2
      have q1 := congrArg (fun P : Img Int × Img Int => P.1.data) r3
      have q2 := congrArg (fun P : Img Int × Img Int => P.2.data) r3
      simp only [] at q1 q2
      rw [logical2_C, tab_ravel_data _ _ (by rw [r1, hfs, hS])] at q1
      rw [logical2_C, tab_ravel_data _ _ (by rw [r2, hos, hS])] at q2
      exact Prod.ext q1 q2
  · exact hgen

end Mahotas.C05
