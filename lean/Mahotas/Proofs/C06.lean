/-
Helper lemmas for C06: the generic kernel equals the defining sum; the border rule on n-D positions.
-/
import Mahotas.Model.C06
import Mahotas.Proofs.Border
import Mathlib.Algebra.Ring.Defs
import Mathlib.Algebra.BigOperators.Group.List.Basic
namespace Mahotas

/-- n-D version of F1–F4: the offset-table entry equals the border rule on every axis. -/
theorem fixPos_eq_specPos (m : Mode) (shape : List Nat) (p : List Int) (hs : ∀ d ∈ shape, 0 < d) :
    fixPos m shape p = specPos m shape p := by
  induction shape generalizing p with
  | nil => cases p <;> simp [fixPos, specPos]
  | cons d ds ih =>
    cases p with
    | nil => simp [fixPos, specPos]
    | cons c cs =>
      have hd : (0 : Int) < d := by
        have := hs d (by simp); omega
      simp only [fixPos, specPos]
      rw [fixOffset_eq_spec m c d hd, ih cs (fun d hd => hs d (by simp [hd]))]

namespace C06
variable {R : Type} [CommSemiring R]

theorem step_eq (m : Mode) (f : Img R) (hs : ∀ d ∈ f.shape, 0 < d) (cur w : R) (q : List Int) :
    (match sample m f q with
      | some v => cur + v * w
      | none => cur) = cur + w * specSample m f q := by
  unfold sample specSample
  rw [fixPos_eq_specPos m f.shape q hs]
  cases specPos m f.shape q with
  | none => simp
  | some r => simp [mul_comm]

theorem conv_fold (isZero : R → Bool) (hz : ∀ x, isZero x = true → x = 0)
    (m : Mode) (f : Img R) (hs : ∀ d ∈ f.shape, 0 < d) (wshape : List Nat) (w : Array R) (p : List Int)
    (is : List Nat) (acc : R) :
    (is.filterMap fun i =>
        let x := w.getD i 0
        if isZero x then none else some (offsetOf wshape i, x)).foldl
      (fun cur kw =>
        match sample m f (addPos p kw.1) with
        | some v => cur + v * kw.2
        | none => cur) acc =
    acc + (is.map fun i => w.getD i 0 * specSample m f (addPos p (offsetOf wshape i))).sum := by
  induction is generalizing acc with
  | nil => simp
  | cons i t ih =>
    by_cases h : isZero (w.getD i 0) = true
    · have h0 := hz _ h
      simp only [List.filterMap_cons, h, if_true, List.map_cons, List.sum_cons]
      rw [ih, h0, zero_mul, zero_add]
    · have h' : isZero (w.getD i 0) = false := by simpa using h
      simp only [List.filterMap_cons, h', Bool.false_eq_true, if_false, List.map_cons, List.sum_cons,
        List.foldl_cons]
      rw [step_eq m f hs, ih, add_assoc]

end C06
end Mahotas
