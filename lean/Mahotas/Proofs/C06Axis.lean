/-
C06, round 2 — the n-D glue of `convolve1d`: the kernel embedded on `axis` (`embedShape`) has its
offsets on that axis only, the border rule applied to a position that differs from an inside position
on one axis acts on that axis only, and the row `lineThrough f axis p` holds exactly the pixels
`setAxis p axis x`. Hence the fast path read through `lineThrough` computes the defining sum with the
embedded kernel. Also: ravel/unravel round trip for `Img.tabulate`.
-/
import Mahotas.Proofs.C06Fast
import Mathlib.Tactic.Ring
namespace Mahotas.C06
open Mahotas

/-! ### general index arithmetic (C order) -/

theorem inside_length (s : List Nat) (p : List Int) (h : inside s p = true) : p.length = s.length := by
  induction s generalizing p with
  | nil => cases p <;> simp_all [inside]
  | cons d ds ih =>
    cases p with
    | nil => simp [inside] at h
    | cons x xs =>
      simp only [inside, Bool.and_eq_true] at h
      simp [ih xs h.2]

theorem ravelI_lt (s : List Nat) (p : List Int) (h : inside s p = true) : ravelI s p < shapeSize s := by
  induction s generalizing p with
  | nil => cases p <;> simp_all [inside, ravelI, shapeSize]
  | cons d ds ih =>
    cases p with
    | nil => simp [inside] at h
    | cons x xs =>
      simp only [inside, Bool.and_eq_true, decide_eq_true_eq] at h
      obtain ⟨⟨h0, h1⟩, h2⟩ := h
      have h3 := ih xs h2
      simp only [ravelI, shapeSize]
      have hx : x.toNat + 1 ≤ d := by omega
      have h4 := Nat.mul_le_mul_right (shapeSize ds) hx
      rw [Nat.add_mul] at h4
      omega

theorem unravelI_cons (d : Nat) (ds : List Nat) (i : Nat) :
    unravelI (d :: ds) i = Int.ofNat (i / shapeSize ds) :: unravelI ds (i % shapeSize ds) := by
  simp [unravelI, unravel]

theorem unravelI_inside (s : List Nat) (i : Nat) (h : i < shapeSize s) : inside s (unravelI s i) = true := by
  induction s generalizing i with
  | nil => simp [unravelI, unravel, inside]
  | cons d ds ih =>
    rw [unravelI_cons]
    simp only [shapeSize] at h
    have hS : 0 < shapeSize ds := by
      rcases Nat.eq_zero_or_pos (shapeSize ds) with h0 | h0
      · rw [h0] at h; simp at h
      · exact h0
    have h1 : i / shapeSize ds < d := Nat.div_lt_of_lt_mul (by rw [Nat.mul_comm]; exact h)
    have h2 := ih (i % shapeSize ds) (Nat.mod_lt _ hS)
    simp only [inside, Bool.and_eq_true, decide_eq_true_eq]
    refine ⟨⟨?_, ?_⟩, h2⟩
    · exact Int.natCast_nonneg _
    · exact Int.ofNat_lt.mpr h1

theorem mem_allPos (s : List Nat) (p : List Int) (h : p ∈ allPos s) : inside s p = true := by
  simp only [allPos, List.mem_map, List.mem_range] at h
  obtain ⟨i, hi, rfl⟩ := h
  exact unravelI_inside s i hi

theorem unravelI_ravelI (s : List Nat) (q : List Int) (h : inside s q = true) :
    unravelI s (ravelI s q) = q := by
  induction s generalizing q with
  | nil => cases q <;> simp_all [inside, unravelI, unravel]
  | cons d ds ih =>
    cases q with
    | nil => simp [inside] at h
    | cons x xs =>
      simp only [inside, Bool.and_eq_true, decide_eq_true_eq] at h
      have hr := ravelI_lt ds xs h.2
      have hS : 0 < shapeSize ds := by omega
      have ih' := ih xs h.2
      simp only [unravelI] at ih'
      simp only [unravelI, unravel, ravelI, List.map_cons]
      rw [Nat.add_comm, Nat.add_mul_div_right _ _ hS, Nat.add_mul_mod_self_right,
        Nat.div_eq_of_lt hr, Nat.mod_eq_of_lt hr, ih', Nat.zero_add]
      congr 1
      exact Int.toNat_of_nonneg h.1.1

theorem inside_dims_pos (s : List Nat) (p : List Int) (h : inside s p = true) : ∀ d ∈ s, 0 < d := by
  induction s generalizing p with
  | nil => simp
  | cons d ds ih =>
    cases p with
    | nil => simp [inside] at h
    | cons x xs =>
      simp only [inside, Bool.and_eq_true, decide_eq_true_eq] at h
      intro e he
      rcases List.mem_cons.1 he with rfl | he
      · omega
      · exact ih xs h.2 e he

/-- an image tabulated from a function returns that function inside the box -/
theorem tabulate_getD {α : Type} (shape : List Nat) (g : List Int → α) (q : List Int) (d : α)
    (hq : inside shape q = true) : (Img.tabulate shape g).getD q d = g q := by
  unfold Img.getD Img.tabulate
  simp only [hq, if_true]
  have hlt := ravelI_lt shape q hq
  rw [Array.getD_eq_getD_getElem?]
  simp [allPos, hlt, unravelI_ravelI shape q hq]

/-! ### the embedded kernel shape -/

theorem embedShape_zero (n Nf : Nat) : embedShape (n + 1) 0 Nf = Nf :: List.replicate n 1 := by
  unfold embedShape
  rw [List.range_succ_eq_map]
  simp [Function.comp_def, List.map_const']

theorem embedShape_succ (n a Nf : Nat) : embedShape (n + 1) (a + 1) Nf = 1 :: embedShape n a Nf := by
  unfold embedShape
  rw [List.range_succ_eq_map]
  simp [Function.comp_def]

theorem shapeSize_ones (n : Nat) : shapeSize (List.replicate n 1) = 1 := by
  induction n with
  | zero => simp [shapeSize]
  | succ n ih => simp [List.replicate_succ, shapeSize, ih]

theorem shapeSize_embedShape (n a Nf : Nat) (ha : a < n) : shapeSize (embedShape n a Nf) = Nf := by
  induction n generalizing a with
  | zero => omega
  | succ n ih =>
    cases a with
    | zero => rw [embedShape_zero]; simp [shapeSize, shapeSize_ones]
    | succ a => rw [embedShape_succ]; simp [shapeSize, ih a (by omega)]

theorem offsetOf_cons (d : Nat) (ds : List Nat) (i : Nat) :
    offsetOf (d :: ds) i =
      (Int.ofNat (i / shapeSize ds) - ((d / 2 : Nat) : Int)) :: offsetOf ds (i % shapeSize ds) := by
  simp [offsetOf, unravelI_cons, centreOf, subPos]

/-- axes of length 1 contribute the offset 0 -/
theorem addPos_offsetOf_ones (ps : List Int) (n : Nat) (h : ps.length = n) :
    addPos ps (offsetOf (List.replicate n 1) 0) = ps := by
  induction ps generalizing n with
  | nil => subst h; simp [addPos]
  | cons x xs ih =>
    subst h
    rw [List.length_cons, List.replicate_succ, offsetOf_cons]
    simp only [addPos, Nat.zero_mod, Nat.zero_div]
    rw [ih _ rfl]
    simp

/-- the neighbour of `p` at position `i` of the kernel embedded on `axis` differs from `p` on that axis
    only, by `i − Nf/2` -/
theorem addPos_offsetOf_embed (n a Nf i : Nat) (p : List Int) (ha : a < n) (hi : i < Nf) (hp : p.length = n) :
    addPos p (offsetOf (embedShape n a Nf) i) =
      setAxis p a (p.getD a 0 + (i : Int) - ((Nf / 2 : Nat) : Int)) := by
  induction n generalizing a p with
  | zero => omega
  | succ n ih =>
    cases p with
    | nil => simp at hp
    | cons x xs =>
      have hxs : xs.length = n := by simpa using hp
      cases a with
      | zero =>
        rw [embedShape_zero, offsetOf_cons, shapeSize_ones]
        simp only [addPos, Nat.mod_one, Nat.div_one, setAxis, List.getD_cons_zero]
        rw [addPos_offsetOf_ones xs n hxs]
        congr 1
        simp only [Int.ofNat_eq_natCast]
        omega
      | succ a =>
        rw [embedShape_succ, offsetOf_cons, shapeSize_embedShape n a Nf (by omega),
          Nat.div_eq_of_lt hi, Nat.mod_eq_of_lt hi]
        simp only [addPos, setAxis, List.getD_cons_succ]
        rw [ih a xs (by omega) hxs]
        simp

/-! ### the border rule on one axis of an inside position -/

theorem specPos_inside (m : Mode) (shape : List Nat) (p : List Int) (hp : inside shape p = true) :
    specPos m shape p = some p := by
  induction shape generalizing p with
  | nil => cases p <;> simp_all [inside, specPos]
  | cons d ds ih =>
    cases p with
    | nil => simp [inside] at hp
    | cons x xs =>
      simp only [inside, Bool.and_eq_true, decide_eq_true_eq] at hp
      simp only [specPos]
      rw [borderSpec_inside m x d hp.1.1 hp.1.2, ih xs hp.2]

theorem specPos_setAxis (m : Mode) (shape : List Nat) (p : List Int) (a : Nat) (cc : Int)
    (hp : inside shape p = true) (ha : a < shape.length) :
    specPos m shape (setAxis p a cc) =
      (match borderSpec m cc ((shape.getD a 1 : Nat) : Int) with
       | some o => some (setAxis p a o)
       | none => none) := by
  induction shape generalizing p a with
  | nil => simp at ha
  | cons d ds ih =>
    cases p with
    | nil => simp [inside] at hp
    | cons x xs =>
      simp only [inside, Bool.and_eq_true, decide_eq_true_eq] at hp
      cases a with
      | zero =>
        simp only [setAxis, specPos, List.getD_cons_zero]
        rw [specPos_inside m ds xs hp.2]
        cases borderSpec m cc d <;> rfl
      | succ a =>
        simp only [setAxis, specPos, List.getD_cons_succ]
        rw [borderSpec_inside m x d hp.1.1 hp.1.2, ih xs a hp.2 (by simpa using ha)]
        cases borderSpec m cc ((ds.getD a 1 : Nat) : Int) <;> rfl

theorem getD_lt_of_inside (shape : List Nat) (p : List Int) (a : Nat) (hp : inside shape p = true)
    (ha : a < shape.length) : 0 ≤ p.getD a 0 ∧ p.getD a 0 < ((shape.getD a 1 : Nat) : Int) := by
  induction shape generalizing p a with
  | nil => simp at ha
  | cons d ds ih =>
    cases p with
    | nil => simp [inside] at hp
    | cons x xs =>
      simp only [inside, Bool.and_eq_true, decide_eq_true_eq] at hp
      cases a with
      | zero => simpa using hp.1
      | succ a => simpa using ih xs a hp.2 (by simpa using ha)

/-! ### the row through a pixel -/

variable {R : Type} [CommSemiring R]

theorem lineThrough_getD (f : Img R) (axis : Nat) (p : List Int) (o : Int) (h0 : 0 ≤ o)
    (h1 : o < ((f.shape.getD axis 1 : Nat) : Int)) :
    (lineThrough f axis p).getD [((0 : Nat) : Int), o] 0 = f.getD (setAxis p axis o) 0 := by
  unfold lineThrough Img.getD
  have hin : inside [1, f.shape.getD axis 1] [((0 : Nat) : Int), o] = true := by
    simp only [inside, Bool.and_eq_true, decide_eq_true_eq, and_true]
    exact ⟨by omega, h0, h1⟩
  simp only [hin, if_true]
  have hr : ravelI [1, f.shape.getD axis 1] [((0 : Nat) : Int), o] = o.toNat := by
    simp [ravelI, shapeSize]
  have hlt : o.toNat < f.shape.getD axis 1 := by omega
  rw [hr, Array.getD_eq_getD_getElem?]
  simp only [List.getElem?_toArray, List.getElem?_map, List.getElem?_range hlt, Option.map_some,
    Option.getD_some, Int.toNat_of_nonneg h0]

/-- one term of the defining sum with the kernel embedded on `axis` = the border-loop read of the
    row through `p` -/
theorem specSample_axis (m : Mode) (f : Img R) (axis : Nat) (p : List Int) (cc : Int)
    (hp : inside f.shape p = true) (hax : axis < f.shape.length) :
    specSample m f (setAxis p axis cc) =
      (match fixOffset m cc ((f.shape.getD axis 1 : Nat) : Int) with
       | some o => (lineThrough f axis p).getD [((0 : Nat) : Int), o] 0
       | none => 0) := by
  have hN : (0 : Int) < ((f.shape.getD axis 1 : Nat) : Int) := by
    have := getD_lt_of_inside f.shape p axis hp hax; omega
  unfold specSample
  rw [specPos_setAxis m f.shape p axis cc hp hax, fixOffset_eq_spec m cc _ hN]
  cases hb : borderSpec m cc ((f.shape.getD axis 1 : Nat) : Int) with
  | none => rfl
  | some o =>
    have hr := borderSpec_range m cc _ hN o hb
    simp only
    rw [lineThrough_getD f axis p o hr.1 hr.2]

/-- the border loop on the row through `p` = the defining sum with the embedded kernel -/
theorem fastBorder_line_eq_spec (m : Mode) (f : Img R) (axis : Nat) (w : Array R) (p : List Int)
    (hp : inside f.shape p = true) (hax : axis < f.shape.length) :
    fastBorder m (lineThrough f axis p) w (f.shape.getD axis 1) 0 (p.getD axis 0).toNat =
      convSpec m f (embedShape f.shape.length axis w.size) w p := by
  unfold fastBorder convSpec
  rw [foldl_add_eq_sum, zero_add, shapeSize_embedShape _ _ _ hax]
  apply congrArg
  apply List.map_congr_left
  intro j hj
  have hj' : j < w.size := List.mem_range.1 hj
  have hx := getD_lt_of_inside f.shape p axis hp hax
  rw [addPos_offsetOf_embed _ _ _ _ p hax hj' (inside_length _ _ hp),
    specSample_axis m f axis p _ hp hax, mul_comm, Int.toNat_of_nonneg hx.1]
  rfl

/-- **the value the fast path leaves at `p`** (row read through `lineThrough`, interior or border
    loop according to the column) is the defining sum with the kernel embedded on `axis` -/
theorem fastAt_eq_spec (m : Mode) (f : Img R) (axis : Nat) (w : Array R) (p : List Int)
    (hp : inside f.shape p = true) (hax : axis < f.shape.length) (hw : w.size < f.shape.getD axis 1) :
    fastAt m f axis w p = convSpec m f (embedShape f.shape.length axis w.size) w p := by
  unfold fastAt
  simp only
  split
  · rename_i hc
    have hmem : (p.getD axis 0).toNat ∈ interiorXs w.size (f.shape.getD axis 1) := by
      simpa using hc
    rw [fastInterior_eq_border m _ w _ 0 _ hmem hw]
    exact fastBorder_line_eq_spec m f axis w p hp hax
  · exact fastBorder_line_eq_spec m f axis w p hp hax

end Mahotas.C06
