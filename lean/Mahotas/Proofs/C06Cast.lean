/-
C06 (round 4) — the C cast `static_cast<T>(double)` of the accumulator: truncation toward zero on its domain.
Instantiates the polymorphic `truncG` / `castIntG` of `Model/C06.lean` (run by the driver at `Float` with
`Float.floor` / `Float.ceil`) over an ordered field with `⌊·⌋` / `⌈·⌉`.
-/
import Mahotas.Model.C06
import Mathlib.Algebra.Order.Floor.Ring
import Mathlib.Tactic.Linarith

namespace Mahotas.C06
open Mahotas

section
variable {α : Type} [Field α] [LinearOrder α] [IsStrictOrderedRing α] [FloorRing α]

/-- `floor` / `ceil` as maps `α → α` -/
def floorA (x : α) : α := ((⌊x⌋ : ℤ) : α)
def ceilA (x : α) : α := ((⌈x⌉ : ℤ) : α)

/-- the integer `trunc(x)` -/
def truncZ (x : α) : ℤ := if x < 0 then ⌈x⌉ else ⌊x⌋

theorem truncG_eq (x : α) : truncG (floorA (α := α)) ceilA 0 x = ((truncZ x : ℤ) : α) := by
  unfold truncG truncZ floorA ceilA
  split <;> rfl

theorem truncZ_of_int (n : ℤ) : truncZ ((n : ℤ) : α) = n := by
  unfold truncZ
  split <;> simp

theorem truncZ_nonneg (x : α) (h : 0 ≤ x) : 0 ≤ truncZ x ∧ ((truncZ x : ℤ) : α) ≤ x ∧ x < (truncZ x : α) + 1 := by
  unfold truncZ
  rw [if_neg (not_lt.2 h)]
  exact ⟨Int.floor_nonneg.2 h, Int.floor_le x, Int.lt_floor_add_one x⟩

theorem truncZ_neg (x : α) (h : x < 0) : truncZ x ≤ 0 ∧ x ≤ ((truncZ x : ℤ) : α) ∧ (truncZ x : α) - 1 < x := by
  unfold truncZ
  rw [if_pos h]
  refine ⟨Int.ceil_le.2 (by simpa using h.le), Int.le_ceil x, ?_⟩
  have := Int.ceil_lt_add_one x
  linarith

theorem castIntG_eq (lo hi1 : ℤ) (x : α) :
    castIntG (floorA (α := α)) ceilA 0 (lo : α) (hi1 : α) x =
      if lo ≤ truncZ x ∧ truncZ x < hi1 then some ((truncZ x : ℤ) : α) else none := by
  unfold castIntG
  simp only [truncG_eq]
  by_cases h : lo ≤ truncZ x ∧ truncZ x < hi1
  · rw [if_pos h, if_pos]
    exact ⟨by exact_mod_cast h.1, by exact_mod_cast h.2⟩
  · rw [if_neg h, if_neg]
    intro h'
    exact h ⟨by exact_mod_cast h'.1, by exact_mod_cast h'.2⟩

end
end Mahotas.C06

namespace Mahotas.C06

/-- at `Float`: for the eight integer dtype names `castTo` IS the truncation `truncG Float.floor Float.ceil 0` -/
theorem castTo_int (dt : String) (x : Float) (h : (dtBounds dt).isSome = true) :
    castTo dt x = truncG Float.floor Float.ceil 0 x := by
  unfold dtBounds at h
  split at h <;> first | rfl | (simp at h)

/-- at `Float`: where the cast is defined, the value the driver prints is the value of `castIntG` -/
theorem castDefined_some (dt : String) (x lo hi1 : Float) (hb : dtBounds dt = some (lo, hi1))
    (hd : castDefined dt x = true) :
    castIntG Float.floor Float.ceil 0 lo hi1 x = some (castTo dt x) := by
  have hc := castTo_int dt x (by rw [hb]; rfl)
  unfold castDefined at hd
  rw [hb] at hd
  simp only [] at hd
  unfold castIntG at hd ⊢
  simp only [] at hd ⊢
  split
  · rw [hc]
  · rename_i hn; rw [if_neg hn] at hd; simp at hd

end Mahotas.C06
