/-
C06, round 2 — both paths of `convolve1d` as one tabulated defining sum; `gaussian_filter` as a fold of
such passes; constant images under the extending border modes (every sample equals the constant, so
a pass multiplies it by the sum of the weights).
-/
import Mahotas.Proofs.C06Axis
import Mahotas.Proofs.C06Gauss
namespace Mahotas.C06
open Mahotas

/-! ### `convolve1d`: both paths are the defining sum with the embedded kernel -/

section semiring
variable {R : Type} [CommSemiring R]

theorem convolve1dG_eq_spec (cast : R → R) (isZero : R → Bool) (hz : ∀ x, isZero x = true → x = 0)
    (m : Mode) (f : Img R) (contig : Bool) (axis : Nat) (w : Array R) (hax : axis < f.shape.length) :
    (convolve1dG cast isZero m f contig axis w).1 =
      (allPos f.shape).map fun p => cast (convSpec m f (embedShape f.shape.length axis w.size) w p) := by
  unfold convolve1dG
  simp only
  split
  · rename_i hc
    simp only [Bool.and_eq_true, decide_eq_true_eq] at hc
    apply List.map_congr_left
    intro p hp
    rw [fastAt_eq_spec m f axis w p (mem_allPos _ _ hp) hax hc.2]
  · apply List.map_congr_left
    intro p hp
    have hs := inside_dims_pos _ _ (mem_allPos _ _ hp)
    exact congrArg cast ((conv_fold isZero hz m f hs _ w p _ 0).trans (zero_add _))

/-- one pass of `gaussian_filter` = the tabulated defining sum along that axis -/
theorem gaussianPass_eq_tabulate (cast : R → R) (isZero : R → Bool) (hz : ∀ x, isZero x = true → x = 0)
    (m : Mode) (cur : Img R) (ax : Nat) (w : Array R) (hax : ax < cur.shape.length) :
    gaussianPass cast isZero m cur ax w =
      Img.tabulate cur.shape fun p => cast (convSpec m cur (embedShape cur.shape.length ax w.size) w p) := by
  unfold gaussianPass Img.tabulate
  rw [convolve1dG_eq_spec cast isZero hz m cur true ax w hax]

theorem gaussianPass_shape (cast : R → R) (isZero : R → Bool) (m : Mode) (cur : Img R) (ax : Nat)
    (w : Array R) : (gaussianPass cast isZero m cur ax w).shape = cur.shape := rfl

end semiring

/-- two folds whose steps agree wherever an invariant holds -/
theorem foldl_congr_inv {β : Type} (P : β → Prop) (g h : β → Nat → β) (l : List Nat) (b : β) (hb : P b)
    (hstep : ∀ b a, a ∈ l → P b → g b a = h b a ∧ P (g b a)) :
    l.foldl g b = l.foldl h b ∧ P (l.foldl g b) := by
  induction l generalizing b with
  | nil => exact ⟨rfl, hb⟩
  | cons a t ih =>
    obtain ⟨h1, h2⟩ := hstep b a (by simp) hb
    simp only [List.foldl_cons]
    rw [← h1]
    exact ih (g b a) h2 (fun b' a' ha' hb' => hstep b' a' (by simp [ha']) hb')

/-! ### constant images -/

/-- the four border modes that extend the image (every sample exists) -/
def Extending (m : Mode) : Prop := m ≠ .constant ∧ m ≠ .ignore

theorem borderSpec_extending (m : Mode) (hm : Extending m) (cc len : Int) :
    ∃ o, borderSpec m cc len = some o := by
  cases m
  · exact ⟨_, rfl⟩
  · exact ⟨_, rfl⟩
  · exact ⟨_, rfl⟩
  · exact ⟨_, rfl⟩
  · exact absurd rfl hm.1
  · exact absurd rfl hm.2

theorem specPos_extending (m : Mode) (hm : Extending m) (shape : List Nat) (p : List Int)
    (hs : ∀ d ∈ shape, 0 < d) (hp : p.length = shape.length) :
    ∃ q, specPos m shape p = some q ∧ inside shape q = true := by
  induction shape generalizing p with
  | nil =>
    cases p with
    | nil => exact ⟨[], rfl, rfl⟩
    | cons x xs => simp at hp
  | cons d ds ih =>
    cases p with
    | nil => simp at hp
    | cons x xs =>
      obtain ⟨o, ho⟩ := borderSpec_extending m hm x d
      have hd : (0 : Int) < d := by have := hs d (by simp); omega
      have hr := borderSpec_range m x d hd o ho
      obtain ⟨q, hq, hin⟩ := ih xs (fun e he => hs e (by simp [he])) (by simpa using hp)
      refine ⟨o :: q, ?_, ?_⟩
      · simp only [specPos, ho, hq]
      · simp only [inside, Bool.and_eq_true, decide_eq_true_eq]
        exact ⟨hr, hin⟩

theorem offsetOf_length (wshape : List Nat) (i : Nat) : (offsetOf wshape i).length = wshape.length := by
  induction wshape generalizing i with
  | nil => simp [offsetOf, unravelI, unravel, centreOf, subPos]
  | cons d ds ih => rw [offsetOf_cons]; simp [ih]

theorem addPos_length (a b : List Int) (h : a.length = b.length) : (addPos a b).length = a.length := by
  induction a generalizing b with
  | nil => simp [addPos]
  | cons x xs ih =>
    cases b with
    | nil => simp at h
    | cons y ys => simp [addPos, ih ys (by simpa using h)]

section semiring
variable {R : Type} [CommSemiring R]

/-- a constant image read through an extending border rule gives the constant -/
theorem specSample_const (m : Mode) (hm : Extending m) (f : Img R) (c : R)
    (hc : ∀ q, inside f.shape q = true → f.getD q 0 = c) (hs : ∀ d ∈ f.shape, 0 < d)
    (p : List Int) (hp : p.length = f.shape.length) : specSample m f p = c := by
  obtain ⟨q, hq, hin⟩ := specPos_extending m hm f.shape p hs hp
  unfold specSample
  rw [hq]
  exact hc q hin

theorem prod_eq_zero_of_mem (l : List R) (h : (0 : R) ∈ l) : l.prod = 0 := by
  induction l with
  | nil => simp at h
  | cons a t ih =>
    rcases List.mem_cons.1 h with h | h
    · rw [List.prod_cons, ← h, zero_mul]
    · rw [List.prod_cons, ih h, mul_zero]

theorem sum_map_mul_const (g : Nat → R) (c : R) (l : List Nat) :
    (l.map fun i => g i * c).sum = (l.map g).sum * c := by
  induction l with
  | nil => simp
  | cons a t ih => simp only [List.map_cons, List.sum_cons, ih, add_mul]

/-- the defining sum on a constant image = (sum of the weights) · constant -/
theorem convSpec_const (m : Mode) (hm : Extending m) (f : Img R) (c : R)
    (hc : ∀ q, inside f.shape q = true → f.getD q 0 = c) (hs : ∀ d ∈ f.shape, 0 < d)
    (wshape : List Nat) (w : Array R) (p : List Int) (hp : p.length = f.shape.length)
    (hw : wshape.length = f.shape.length) :
    convSpec m f wshape w p = ((List.range (shapeSize wshape)).map fun i => w.getD i 0).sum * c := by
  unfold convSpec
  rw [← sum_map_mul_const]
  apply congrArg
  apply List.map_congr_left
  intro i _
  rw [specSample_const m hm f c hc hs]
  rw [addPos_length _ _ (by rw [offsetOf_length, hp, hw]), hp]

theorem range_map_getD (w : Array R) : (List.range w.size).map (fun i => w.getD i 0) = w.toList := by
  apply List.ext_getElem
  · simp
  · intro i h1 h2
    simp only [List.length_map, List.length_range] at h1
    simp [Array.getD, h1]

/-- the defining sum with a 1-D kernel embedded on `axis`, on a constant image -/
theorem convSpec_embed_const (m : Mode) (hm : Extending m) (f : Img R) (c : R)
    (hc : ∀ q, inside f.shape q = true → f.getD q 0 = c) (hs : ∀ d ∈ f.shape, 0 < d)
    (axis : Nat) (hax : axis < f.shape.length) (w : Array R) (p : List Int)
    (hp : p.length = f.shape.length) :
    convSpec m f (embedShape f.shape.length axis w.size) w p = w.toList.sum * c := by
  rw [convSpec_const m hm f c hc hs _ w p hp (by simp [embedShape]), shapeSize_embedShape _ _ _ hax,
    range_map_getD]

/-- a pass over a constant image gives the constant image `(Σ w) · c` -/
theorem gaussianPass_const (isZero : R → Bool) (hz : ∀ x, isZero x = true → x = 0) (m : Mode)
    (hm : Extending m) (cur : Img R) (c : R) (hc : ∀ q, inside cur.shape q = true → cur.getD q 0 = c)
    (ax : Nat) (hax : ax < cur.shape.length) (w : Array R) :
    ∀ q, inside cur.shape q = true → (gaussianPass id isZero m cur ax w).getD q 0 = w.toList.sum * c := by
  intro q hq
  rw [gaussianPass_eq_tabulate id isZero hz m cur ax w hax, tabulate_getD _ _ q 0 hq]
  exact convSpec_embed_const m hm cur c hc (inside_dims_pos _ _ hq) ax hax w q (inside_length _ _ hq)

/-- successive passes over a constant image multiply the constant by the sums of the weights -/
theorem gaussianFold_const (isZero : R → Bool) (hz : ∀ x, isZero x = true → x = 0) (m : Mode)
    (hm : Extending m) (ws : Nat → Array R) (shape : List Nat) (l : List Nat) (hl : ∀ a ∈ l, a < shape.length)
    (cur : Img R) (c : R) (hsh : cur.shape = shape) (hc : ∀ q, inside shape q = true → cur.getD q 0 = c) :
    (l.foldl (fun cur ax => gaussianPass id isZero m cur ax (ws ax)) cur).shape = shape ∧
    ∀ q, inside shape q = true →
      (l.foldl (fun cur ax => gaussianPass id isZero m cur ax (ws ax)) cur).getD q 0 =
        (l.map fun ax => (ws ax).toList.sum).prod * c := by
  induction l generalizing cur c with
  | nil => simp [hsh]; exact hc
  | cons a t ih =>
    simp only [List.foldl_cons, List.map_cons, List.prod_cons]
    have hstep := gaussianPass_const isZero hz m hm cur c (by rw [hsh]; exact hc) a
      (by rw [hsh]; exact hl a (by simp)) (ws a)
    obtain ⟨h1, h2⟩ := ih (fun a' ha' => hl a' (by simp [ha'])) (gaussianPass id isZero m cur a (ws a))
      ((ws a).toList.sum * c) (by rw [gaussianPass_shape, hsh]) (by rw [← hsh]; exact hstep)
    refine ⟨h1, fun q hq => ?_⟩
    rw [h2 q hq]
    ring

end semiring
end Mahotas.C06
