/-
C06 (round 4) — `edge.sobel`: the 3×3 defining sum at an interior pixel, written out.
-/
import Mahotas.Proofs.C06Const
import Mathlib.Tactic.Ring

namespace Mahotas.C06
open Mahotas

section
variable {R : Type} [CommRing R]

theorem clampSpec_inside (c len : Int) (h0 : 0 ≤ c) (h1 : c < len) : clampSpec c len = c := by
  unfold clampSpec
  omega

/-- in `nearest` mode a sample at a position inside a 2-D image is the pixel itself -/
theorem specSample_nearest_inside2 (f : Img R) (N0 N1 : Nat) (hf : f.shape = [N0, N1]) (a b : Int)
    (ha : 0 ≤ a ∧ a < N0) (hb : 0 ≤ b ∧ b < N1) :
    specSample .nearest f [a, b] = f.getD [a, b] 0 := by
  unfold specSample
  rw [hf]
  simp only [specPos, borderSpec, clampSpec_inside a N0 ha.1 ha.2, clampSpec_inside b N1 hb.1 hb.2]

/-- the defining sum of a 3×3 kernel at an interior pixel of a 2-D image, `nearest` mode: nine explicit terms -/
theorem convSpec33_interior (f : Img R) (N0 N1 : Nat) (hf : f.shape = [N0, N1]) (w : Array R) (y x : Int)
    (hy : 1 ≤ y ∧ y + 1 < N0) (hx : 1 ≤ x ∧ x + 1 < N1) :
    convSpec .nearest f [3, 3] w [y, x] =
      w.getD 0 0 * f.getD [y - 1, x - 1] 0 + w.getD 1 0 * f.getD [y - 1, x] 0 + w.getD 2 0 * f.getD [y - 1, x + 1] 0 +
      w.getD 3 0 * f.getD [y, x - 1] 0 + w.getD 4 0 * f.getD [y, x] 0 + w.getD 5 0 * f.getD [y, x + 1] 0 +
      w.getD 6 0 * f.getD [y + 1, x - 1] 0 + w.getD 7 0 * f.getD [y + 1, x] 0 + w.getD 8 0 * f.getD [y + 1, x + 1] 0 := by
  unfold convSpec
  have h9 : List.range (shapeSize [3, 3]) = [0, 1, 2, 3, 4, 5, 6, 7, 8] := by decide
  have o0 : offsetOf [3, 3] 0 = [-1, -1] := by decide
  have o1 : offsetOf [3, 3] 1 = [-1, 0] := by decide
  have o2 : offsetOf [3, 3] 2 = [-1, 1] := by decide
  have o3 : offsetOf [3, 3] 3 = [0, -1] := by decide
  have o4 : offsetOf [3, 3] 4 = [0, 0] := by decide
  have o5 : offsetOf [3, 3] 5 = [0, 1] := by decide
  have o6 : offsetOf [3, 3] 6 = [1, -1] := by decide
  have o7 : offsetOf [3, 3] 7 = [1, 0] := by decide
  have o8 : offsetOf [3, 3] 8 = [1, 1] := by decide
  have hm : ∀ z : Int, z + -1 = z - 1 := fun z => rfl
  rw [h9]
  simp only [List.map_cons, List.map_nil, List.sum_cons, List.sum_nil, o0, o1, o2, o3, o4, o5, o6, o7, o8, addPos,
    hm, Int.add_zero]
  rw [specSample_nearest_inside2 f N0 N1 hf _ _ (by omega) (by omega),
    specSample_nearest_inside2 f N0 N1 hf _ _ (by omega) (by omega),
    specSample_nearest_inside2 f N0 N1 hf _ _ (by omega) (by omega),
    specSample_nearest_inside2 f N0 N1 hf _ _ (by omega) (by omega),
    specSample_nearest_inside2 f N0 N1 hf _ _ (by omega) (by omega),
    specSample_nearest_inside2 f N0 N1 hf _ _ (by omega) (by omega),
    specSample_nearest_inside2 f N0 N1 hf _ _ (by omega) (by omega),
    specSample_nearest_inside2 f N0 N1 hf _ _ (by omega) (by omega),
    specSample_nearest_inside2 f N0 N1 hf _ _ (by omega) (by omega)]
  ring

end
end Mahotas.C06
