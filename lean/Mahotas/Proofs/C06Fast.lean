/-
C06, fast row path: the columns written (interior loop, then border loop) cover `[0, N1)` exactly
once; interior reads stay inside the row.
-/
import Mahotas.Proofs.C06
import Mathlib.Data.List.Basic
import Mathlib.Data.List.Nodup
import Mathlib.Data.List.Range
namespace Mahotas.C06

theorem mem_interiorXs (Nf N1 x : Nat) (h : Nf < N1) :
    x ∈ interiorXs Nf N1 ↔ Nf / 2 ≤ x ∧ x + Nf / 2 < N1 := by
  unfold interiorXs
  have : ¬ Nf / 2 ≥ N1 := by omega
  rw [if_neg this]
  simp only [List.mem_range'_1]
  omega

theorem mem_borderXs (Nf N1 x : Nat) (h : Nf < N1) :
    x ∈ borderXs Nf N1 ↔ x < Nf / 2 ∨ (N1 ≤ x + Nf / 2 ∧ x < N1) := by
  unfold borderXs borderX
  have hmin : min (2 * (Nf / 2)) N1 = 2 * (Nf / 2) := by omega
  rw [hmin]
  simp only [List.mem_map, List.mem_range]
  constructor
  · rintro ⟨a, ha, rfl⟩
    split <;> omega
  · rintro (hx | hx)
    · exact ⟨x, by omega, by rw [if_pos hx]⟩
    · refine ⟨N1 - 1 - x + Nf / 2, by omega, ?_⟩
      rw [if_neg (by omega)]
      omega

theorem nodup_borderXs (Nf N1 : Nat) (h : Nf < N1) : (borderXs Nf N1).Nodup := by
  unfold borderXs
  have hmin : min (2 * (Nf / 2)) N1 = 2 * (Nf / 2) := by omega
  rw [hmin]
  apply List.Nodup.map_on _ List.nodup_range
  intro a ha b hb hab
  simp only [List.mem_range] at ha hb
  unfold borderX at hab
  split at hab <;> split at hab <;> omega

theorem nodup_interiorXs (Nf N1 : Nat) : (interiorXs Nf N1).Nodup := by
  unfold interiorXs
  split
  · exact List.nodup_nil
  · exact List.nodup_range'

theorem fastXs_perm (Nf N1 : Nat) (h : Nf < N1) : (fastXs Nf N1).Perm (List.range N1) := by
  rw [List.perm_ext_iff_of_nodup _ List.nodup_range]
  · intro x
    unfold fastXs
    rw [List.mem_append, mem_interiorXs Nf N1 x h, mem_borderXs Nf N1 x h, List.mem_range]
    omega
  · unfold fastXs
    rw [List.nodup_append]
    refine ⟨nodup_interiorXs Nf N1, nodup_borderXs Nf N1 h, ?_⟩
    intro a ha b hb
    rw [mem_interiorXs Nf N1 a h] at ha
    rw [mem_borderXs Nf N1 b h] at hb
    omega

end Mahotas.C06

namespace Mahotas

theorem fixOffset_inside (m : Mode) (cc len : Int) (h0 : 0 ≤ cc) (h1 : cc < len) :
    fixOffset m cc len = some cc := by
  have h2 : ¬ cc < 0 := by omega
  have h3 : ¬ cc ≥ len := by omega
  cases m <;> simp [fixOffset, h2, h3]

theorem borderSpec_inside (m : Mode) (cc len : Int) (h0 : 0 ≤ cc) (h1 : cc < len) :
    borderSpec m cc len = some cc := by
  rw [← fixOffset_eq_spec m cc len (by omega)]
  exact fixOffset_inside m cc len h0 h1

end Mahotas

namespace Mahotas.C06
variable {R : Type} [CommSemiring R]

theorem foldl_add_eq_sum (g : Nat → R) (l : List Nat) (acc : R) :
    l.foldl (fun cur j => cur + g j) acc = acc + (l.map g).sum := by
  induction l generalizing acc with
  | nil => simp
  | cons a t ih => simp only [List.foldl_cons, List.map_cons, List.sum_cons]; rw [ih, add_assoc]

theorem offsetOf_row (Nf i : Nat) (hi : i < Nf) :
    offsetOf [1, Nf] i = [0, (i : Int) - ((Nf / 2 : Nat) : Int)] := by
  simp [offsetOf, unravelI, unravel, shapeSize, centreOf, subPos, Nat.div_eq_of_lt hi, Nat.mod_eq_of_lt hi]

/-- one term of the defining sum along a row = the border-loop read -/
theorem specSample_row (m : Mode) (f : Img R) (N0 N1 : Nat) (hf : f.shape = [N0, N1]) (hN1 : 0 < N1)
    (y : Nat) (hy : y < N0) (cc : Int) :
    specSample m f [(y : Int) + 0, cc] =
      (match fixOffset m cc N1 with
       | some o => f.getD [(y : Int), o] 0
       | none => 0) := by
  unfold specSample
  rw [hf]
  simp only [specPos]
  rw [borderSpec_inside m ((y : Int) + 0) N0 (by omega) (by omega), fixOffset_eq_spec m cc N1 (by omega)]
  cases borderSpec m cc N1 <;> simp

theorem fastBorder_eq_spec (m : Mode) (f : Img R) (N0 N1 : Nat) (hf : f.shape = [N0, N1]) (hN1 : 0 < N1)
    (w : Array R) (y x : Nat) (hy : y < N0) :
    fastBorder m f w N1 y x = convSpec m f [1, w.size] w [(y : Int), (x : Int)] := by
  unfold fastBorder convSpec
  rw [foldl_add_eq_sum, zero_add]
  have hsz : shapeSize [1, w.size] = w.size := by simp [shapeSize]
  rw [hsz]
  apply congrArg
  apply List.map_congr_left
  intro j hj
  have hj' : j < w.size := List.mem_range.1 hj
  rw [offsetOf_row w.size j hj']
  simp only [addPos]
  rw [specSample_row m f N0 N1 hf hN1 y hy, mul_comm, Int.add_sub_assoc]
  rfl

/-- inside the interior range the direct reads of the interior loop are the border-rule reads -/
theorem fastInterior_eq_border (m : Mode) (f : Img R) (w : Array R) (N1 y x : Nat)
    (hx : x ∈ interiorXs w.size N1) (h : w.size < N1) :
    fastInterior f w y x = fastBorder m f w N1 y x := by
  rw [mem_interiorXs w.size N1 x h] at hx
  unfold fastInterior fastBorder
  apply List.foldl_ext
  intro cur j hj
  have hj' : j < w.size := List.mem_range.1 hj
  rw [fixOffset_inside m _ N1 (by omega) (by omega)]

end Mahotas.C06
