/-
C06, round 2 — the weights of `gaussian_filter1d` (`gaussWeightsG`) over an ordered field, with an
abstract positive even function `e` standing for `exp(−x²/2σ²)`: closed form of every weight,
symmetry / antisymmetry, sums.
-/
import Mahotas.Model.C06
import Mathlib.Algebra.Order.Field.Basic
import Mathlib.Algebra.BigOperators.Group.List.Basic
import Mathlib.Algebra.Order.BigOperators.Group.List
import Mathlib.Tactic.Ring
import Mathlib.Tactic.FieldSimp
import Mathlib.Tactic.Linarith
namespace Mahotas.C06

section
variable {K : Type} [Field K] [LinearOrder K] [IsStrictOrderedRing K]

/-- the abscissa of kernel position `i`: `x = i − lw` -/
def gx (lw i : Nat) : K := (i : K) - (lw : K)

/-- the derivative polynomials of `gaussian_filter1d` (factor applied to the normalised Gaussian) -/
def gpoly (s2 : K) (order : Nat) (x : K) : K :=
  match order with
  | 0 => 1
  | 1 => -x / s2
  | 2 => (x * x / s2 - 1) / s2
  | _ => (3 - x * x / s2) * x / (s2 * s2)

/-- the normalising sum `np.sum(weights)` -/
def gtot (e : K → K) (lw : Nat) : K := ((List.range (2 * lw + 1)).map fun i => e (gx lw i)).sum

/-- closed form of the weight the code leaves at kernel position `i` (the flip of the odd orders is
    the sign change of the abscissa) -/
def gweight (e : K → K) (s2 : K) (lw order i : Nat) : K :=
  e (gx lw i) / gtot e lw * gpoly s2 order (if order % 2 = 1 then -gx lw i else gx lw i)

theorem gx_reflect (lw i : Nat) (hi : i ≤ 2 * lw) : (gx lw (2 * lw - i) : K) = -gx lw i := by
  unfold gx
  rw [Nat.cast_sub hi]
  push_cast
  ring

theorem gpoly_even (s2 : K) (order : Nat) (ho : order = 0 ∨ order = 2) (x : K) :
    gpoly s2 order (-x) = gpoly s2 order x := by
  rcases ho with rfl | rfl <;> simp [gpoly]

theorem gpoly_odd (s2 : K) (order : Nat) (ho : order = 1 ∨ order = 3) (x : K) :
    gpoly s2 order (-x) = -gpoly s2 order x := by
  rcases ho with rfl | rfl
  · simp only [gpoly]; ring
  · simp only [gpoly]; ring

theorem reverse_map_range {β : Type} (g : Nat → β) (n : Nat) :
    ((List.range n).map g).reverse = (List.range n).map (fun i => g (n - 1 - i)) := by
  apply List.ext_getElem
  · simp
  · intro i h1 h2
    simp [List.getElem_reverse]

/-- what the code computes before the flip, position by position -/
theorem gaussWeightsG_unflipped (e : K → K) (s2 : K) (lw order : Nat) :
    gaussWeightsG (Nat.cast : Nat → K) e s2 lw order =
      (if order % 2 == 1 then
        ((List.range (2 * lw + 1)).map fun i => e (gx lw i) / gtot e lw * gpoly s2 order (gx lw i)).reverse
       else
        ((List.range (2 * lw + 1)).map fun i => e (gx lw i) / gtot e lw * gpoly s2 order (gx lw i))).toArray := by
  have htot : (((List.range (2 * lw + 1)).map fun i => ((i : Nat) : K) - ((lw : Nat) : K)).map e).foldl (· + ·) 0 =
      gtot e lw := by
    rw [← List.sum_eq_foldl, List.map_map]
    rfl
  have hraw : ((List.zip ((List.range (2 * lw + 1)).map fun i => ((i : Nat) : K) - ((lw : Nat) : K))
        ((((List.range (2 * lw + 1)).map fun i => ((i : Nat) : K) - ((lw : Nat) : K)).map e).map
          (· / (((List.range (2 * lw + 1)).map fun i => ((i : Nat) : K) - ((lw : Nat) : K)).map e).foldl (· + ·) 0))).map
        fun xv => gaussTerm (Nat.cast : Nat → K) s2 order xv.1 xv.2) =
      ((List.range (2 * lw + 1)).map fun i => e (gx lw i) / gtot e lw * gpoly s2 order (gx lw i)) := by
    rw [htot, List.map_map, List.map_map, List.zip_map', List.map_map]
    apply List.map_congr_left
    intro i _
    simp only [Function.comp_def, gx]
    rcases order with _ | _ | _ | o <;> simp [gpoly, gaussTerm]
  unfold gaussWeightsG
  simp only [hraw]

/-- closed form of the final weights (flip included), for an even `e` -/
theorem gaussWeightsG_toList (e : K → K) (he : ∀ x, e (-x) = e x) (s2 : K) (lw order : Nat) :
    (gaussWeightsG (Nat.cast : Nat → K) e s2 lw order).toList =
      (List.range (2 * lw + 1)).map (gweight e s2 lw order) := by
  rw [gaussWeightsG_unflipped]
  by_cases ho : order % 2 = 1
  · have hb : (order % 2 == 1) = true := by simp [ho]
    rw [hb, if_pos rfl, reverse_map_range]
    apply List.map_congr_left
    intro i hi
    have hi' : i ≤ 2 * lw := by have := List.mem_range.1 hi; omega
    have h1 : 2 * lw + 1 - 1 - i = 2 * lw - i := by omega
    unfold gweight
    rw [h1, gx_reflect lw i hi', he, if_pos ho]
  · have hb : (order % 2 == 1) = false := by simp [ho]
    rw [hb]
    simp only [Bool.false_eq_true, if_false]
    apply List.map_congr_left
    intro i _
    unfold gweight
    rw [if_neg ho]

theorem gaussWeightsG_size (e : K → K) (s2 : K) (lw order : Nat) :
    (gaussWeightsG (Nat.cast : Nat → K) e s2 lw order).size = 2 * lw + 1 := by
  rw [gaussWeightsG_unflipped]
  split <;> simp

theorem gaussWeightsG_getD (e : K → K) (he : ∀ x, e (-x) = e x) (s2 : K) (lw order i : Nat)
    (hi : i ≤ 2 * lw) :
    (gaussWeightsG (Nat.cast : Nat → K) e s2 lw order).getD i 0 = gweight e s2 lw order i := by
  rw [Array.getD_eq_getD_getElem?, ← Array.getElem?_toList, gaussWeightsG_toList e he]
  have hlt : i < 2 * lw + 1 := by omega
  simp [hlt]

theorem gtot_pos (e : K → K) (hpos : ∀ x, 0 < e x) (lw : Nat) : 0 < gtot e lw := by
  unfold gtot
  apply List.sum_pos
  · intro x hx
    obtain ⟨i, _, rfl⟩ := List.mem_map.1 hx
    exact hpos _
  · simp

theorem gweight_symm (e : K → K) (he : ∀ x, e (-x) = e x) (s2 : K) (lw order i : Nat)
    (ho : order = 0 ∨ order = 2) (hi : i ≤ 2 * lw) :
    gweight e s2 lw order (2 * lw - i) = gweight e s2 lw order i := by
  unfold gweight
  have hne : ¬ order % 2 = 1 := by rcases ho with rfl | rfl <;> decide
  rw [if_neg hne, if_neg hne, gx_reflect lw i hi, he, gpoly_even s2 order ho]

theorem gweight_antisymm (e : K → K) (he : ∀ x, e (-x) = e x) (s2 : K) (lw order i : Nat)
    (ho : order = 1 ∨ order = 3) (hi : i ≤ 2 * lw) :
    gweight e s2 lw order (2 * lw - i) = -gweight e s2 lw order i := by
  unfold gweight
  have hodd : order % 2 = 1 := by rcases ho with rfl | rfl <;> decide
  rw [if_pos hodd, if_pos hodd, gx_reflect lw i hi, he, gpoly_odd s2 order ho]
  ring

theorem sum_map_div (l : List K) (c : K) : (l.map (· / c)).sum = l.sum / c := by
  induction l with
  | nil => simp
  | cons a t ih => simp only [List.map_cons, List.sum_cons, ih, add_div]

/-- order 0: the weights sum to 1 -/
theorem gweight_sum_order0 (e : K → K) (hpos : ∀ x, 0 < e x) (s2 : K) (lw : Nat) :
    ((List.range (2 * lw + 1)).map (gweight e s2 lw 0)).sum = 1 := by
  have h : (List.range (2 * lw + 1)).map (gweight e s2 lw 0) =
      ((List.range (2 * lw + 1)).map fun i => e (gx lw i)).map (· / gtot e lw) := by
    rw [List.map_map]
    apply List.map_congr_left
    intro i _
    simp [gweight, gpoly]
  rw [h, sum_map_div]
  exact div_self (ne_of_gt (gtot_pos e hpos lw))

/-- a list that is the negative of its own reverse sums to 0 -/
theorem sum_eq_zero_of_antisymm (g : Nat → K) (n : Nat) (h : ∀ i < n, g (n - 1 - i) = -g i) :
    ((List.range n).map g).sum = 0 := by
  have h1 : ((List.range n).map g).reverse = ((List.range n).map g).map (fun x => -x) := by
    rw [reverse_map_range, List.map_map]
    apply List.map_congr_left
    intro i hi
    exact h i (List.mem_range.1 hi)
  have h2 : ((List.range n).map g).reverse.sum = ((List.range n).map g).sum := List.sum_reverse _
  have h3 : (((List.range n).map g).map (fun x => -x)).sum = -((List.range n).map g).sum := by
    generalize (List.range n).map g = l
    induction l with
    | nil => simp
    | cons a t ih => simp only [List.map_cons, List.sum_cons, ih]; ring
  rw [h1, h3] at h2
  linarith

/-- orders 1 and 3: the weights sum to 0 -/
theorem gweight_sum_odd (e : K → K) (he : ∀ x, e (-x) = e x) (s2 : K) (lw order : Nat)
    (ho : order = 1 ∨ order = 3) :
    ((List.range (2 * lw + 1)).map (gweight e s2 lw order)).sum = 0 := by
  apply sum_eq_zero_of_antisymm
  intro i hi
  have h1 : 2 * lw + 1 - 1 - i = 2 * lw - i := by omega
  rw [h1]
  exact gweight_antisymm e he s2 lw order i ho (by omega)

end
end Mahotas.C06
