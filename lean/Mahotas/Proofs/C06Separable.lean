/-
C06, round 3 — separability: `gaussian_filter` (one `convolve1d` pass per axis, exact arithmetic, no
rounding between the passes) is ONE n-D convolution with the outer-product kernel.

The border rule acts coordinate-wise (`specPos`), so the composition of the per-axis passes reads `f`
at `(border(p₀ + j₀ − c₀), …, border(p_{d−1} + j_{d−1} − c_{d−1}))` — exactly what the n-D defining sum
with the kernel `W[j] = Π_a w_a[j_a]` reads; a sample that falls outside on some axis in the
`constant` (cval = 0) / `ignore` modes contributes nothing in either form. The proof is a Fubini
exchange of finite sums, by structural induction over the axes.
-/
import Mahotas.Proofs.C06Transpose
namespace Mahotas.C06
open Mahotas

/-! ### the outer-product kernel -/

section defs
variable {α : Type} [Mul α] [One α] [Zero α]

/-- kernel shape `(len w_0, …, len w_{n−1})` -/
def outerShape (n : Nat) (ws : Nat → Array α) : List Nat := (List.range n).map fun a => (ws a).size

/-- weight of the outer-product kernel at the flat (C-order) index `i`: `Π_a w_a[j_a]`, `j = unravel i` -/
def outerWeight (n : Nat) (ws : Nat → Array α) (i : Nat) : α :=
  ((List.range n).map fun a => (ws a).getD ((unravel (outerShape n ws) i).getD a 0) 0).prod

/-- the outer-product kernel `w_0 ⊗ … ⊗ w_{n−1}` as a C-order array -/
def outerKernel (n : Nat) (ws : Nat → Array α) : Array α :=
  ((List.range (shapeSize (outerShape n ws))).map (outerWeight n ws)).toArray

end defs

section semiring
variable {R : Type} [CommSemiring R]

/-! ### finite sums over lists -/

theorem sum_map_mul_left' (g : Nat → R) (c : R) (l : List Nat) :
    (l.map fun i => c * g i).sum = c * (l.map g).sum := by
  induction l with
  | nil => simp
  | cons a t ih => simp only [List.map_cons, List.sum_cons, ih, mul_add]

theorem sum_sum_comm (l1 l2 : List Nat) (g : Nat → Nat → R) :
    (l1.map fun a => (l2.map fun b => g a b).sum).sum = (l2.map fun b => (l1.map fun a => g a b).sum).sum := by
  induction l1 with
  | nil => simp
  | cons a t ih => simp only [List.map_cons, List.sum_cons, ih, List.sum_map_add]

/-- a sum over `i < a·b` as a double sum over `(i / b, i % b)` -/
theorem sum_range_mul (a b : Nat) (g : Nat → Nat → R) :
    ((List.range (a * b)).map fun i => g (i / b) (i % b)).sum =
      ((List.range a).map fun j => ((List.range b).map fun i => g j i).sum).sum := by
  induction a with
  | zero => simp
  | succ a ih =>
    rw [Nat.succ_mul, List.range_add, List.map_append, List.sum_append, ih, List.range_succ,
      List.map_append, List.sum_append]
    congr 1
    simp only [List.map_map, List.map_cons, List.map_nil, List.sum_cons, List.sum_nil, add_zero]
    apply congrArg
    apply List.map_congr_left
    intro i hi
    have hi' : i < b := List.mem_range.1 hi
    have hb : 0 < b := by omega
    simp only [Function.comp]
    rw [Nat.mul_comm a b, Nat.mul_add_div hb, Nat.div_eq_of_lt hi', Nat.mul_add_mod, Nat.mod_eq_of_lt hi']
    simp

/-! ### function-level operators -/

/-- value of `G` at an optional position (a dropped sample contributes 0) -/
def pick (G : List Int → R) : Option (List Int) → R
  | some q => G q
  | none => 0

/-- the same with the first coordinate supplied by the border rule of axis 0 -/
def headPick (G : List Int → R) (ob : Option Int) (q : List Int) : R :=
  match ob with
  | some o => G (o :: q)
  | none => 0

/-- one pass along axis `a` on functions of positions:
    `p ↦ Σ_j w[j] · G(p[a := border(p[a] + j − c)])` -/
def axisOp (m : Mode) (s : List Nat) (a : Nat) (w : Array R) (G : List Int → R) (p : List Int) : R :=
  ((List.range w.size).map fun (j : Nat) => w.getD j 0 *
    pick G ((borderSpec m (p.getD a 0 + (j : Int) - ((w.size / 2 : Nat) : Int))
      ((s.getD a 1 : Nat) : Int)).map (setAxis p a))).sum

/-- the passes along the axes `l`, first element first -/
def passes (m : Mode) (s : List Nat) (ws : Nat → Array R) (l : List Nat) (G : List Int → R) :
    List Int → R :=
  l.foldl (fun G a => axisOp m s a (ws a) G) G

/-- the n-D defining sum on functions of positions -/
def convG (m : Mode) (s K : List Nat) (Wf : Nat → R) (G : List Int → R) (p : List Int) : R :=
  ((List.range (shapeSize K)).map fun i => Wf i * pick G (specPos m s (addPos p (offsetOf K i)))).sum

theorem specSample_eq_pick (m : Mode) (f : Img R) (p : List Int) :
    specSample m f p = pick (fun q => f.getD q 0) (specPos m f.shape p) := by
  unfold specSample
  cases specPos m f.shape p <;> rfl

theorem convSpec_eq_convG (m : Mode) (f : Img R) (K : List Nat) (w : Array R) (p : List Int) :
    convSpec m f K w p = convG m f.shape K (fun i => w.getD i 0) (fun q => f.getD q 0) p := by
  unfold convSpec convG
  simp only [specSample_eq_pick]

theorem pick_specPos_cons (m : Mode) (G : List Int → R) (d : Nat) (ds : List Nat) (y : Int) (ys : List Int) :
    pick G (specPos m (d :: ds) (y :: ys)) = pick (headPick G (borderSpec m y d)) (specPos m ds ys) := by
  simp only [specPos]
  cases borderSpec m y d <;> cases specPos m ds ys <;> rfl

theorem pick_sum (c : Nat → R) (H : Nat → List Int → R) (l : List Nat) (o : Option (List Int)) :
    pick (fun q => (l.map fun j => c j * H j q).sum) o = (l.map fun j => c j * pick (H j) o).sum := by
  cases o with
  | some q => rfl
  | none => simp [pick]

/-- a pass along axis 0 at `x :: q` -/
theorem axisOp_zero (m : Mode) (d : Nat) (ds : List Nat) (w : Array R) (G : List Int → R) (x : Int)
    (q : List Int) :
    axisOp m (d :: ds) 0 w G (x :: q) =
      ((List.range w.size).map fun (j : Nat) => w.getD j 0 *
        headPick G (borderSpec m (x + (j : Int) - ((w.size / 2 : Nat) : Int)) d) q).sum := by
  unfold axisOp
  apply congrArg
  apply List.map_congr_left
  intro j _
  simp only [List.getD_cons_zero]
  cases borderSpec m (x + (j : Int) - ((w.size / 2 : Nat) : Int)) (d : Int) <;> rfl

/-- a pass along axis `a + 1` does not touch coordinate 0 -/
theorem axisOp_succ (m : Mode) (d : Nat) (ds : List Nat) (a : Nat) (w : Array R) (G : List Int → R) (x : Int)
    (q : List Int) :
    axisOp m (d :: ds) (a + 1) w G (x :: q) = axisOp m ds a w (fun q' => G (x :: q')) q := by
  unfold axisOp
  apply congrArg
  apply List.map_congr_left
  intro j _
  simp only [List.getD_cons_succ]
  cases borderSpec m (q.getD a 0 + (j : Int) - ((w.size / 2 : Nat) : Int)) ((ds.getD a 1 : Nat) : Int) <;> rfl

theorem passes_succ (m : Mode) (d : Nat) (ds : List Nat) (ws : Nat → Array R) (l : List Nat)
    (G : List Int → R) (x : Int) (q : List Int) :
    passes m (d :: ds) ws (l.map Nat.succ) G (x :: q) =
      passes m ds (fun a => ws (a + 1)) l (fun q' => G (x :: q')) q := by
  induction l generalizing G with
  | nil => rfl
  | cons a t ih =>
    simp only [passes, List.map_cons, List.foldl_cons] at ih ⊢
    rw [ih]
    have h : (fun q' => axisOp m (d :: ds) a.succ (ws a.succ) G (x :: q')) =
        axisOp m ds a (ws (a + 1)) fun q' => G (x :: q') :=
      funext fun q' => axisOp_succ m d ds a (ws (a + 1)) G x q'
    rw [h]

/-! ### the outer-product kernel, recursively -/

omit [CommSemiring R] in
theorem outerShape_succ (n : Nat) (ws : Nat → Array R) :
    outerShape (n + 1) ws = (ws 0).size :: outerShape n (fun a => ws (a + 1)) := by
  unfold outerShape
  rw [List.range_succ_eq_map]
  simp [Function.comp_def]

theorem outerWeight_succ (n : Nat) (ws : Nat → Array R) (i : Nat) :
    outerWeight (n + 1) ws i =
      (ws 0).getD (i / shapeSize (outerShape n fun a => ws (a + 1))) 0 *
        outerWeight n (fun a => ws (a + 1)) (i % shapeSize (outerShape n fun a => ws (a + 1))) := by
  unfold outerWeight
  rw [outerShape_succ, List.range_succ_eq_map]
  simp [Function.comp_def, unravel]

/-! ### Fubini: the passes along all axes = the n-D defining sum with the outer-product kernel -/

theorem passes_eq_convG (m : Mode) (s : List Nat) (ws : Nat → Array R) (G : List Int → R) (p : List Int)
    (hp : p.length = s.length) :
    passes m s ws (List.range s.length) G p =
      convG m s (outerShape s.length ws) (outerWeight s.length ws) G p := by
  induction s generalizing ws G p with
  | nil =>
    cases p with
    | nil => simp [passes, convG, outerShape, outerWeight, shapeSize, unravel, specPos, pick]
    | cons x xs => simp at hp
  | cons d ds ih =>
    cases p with
    | nil => simp at hp
    | cons x xs =>
      have hxs : xs.length = ds.length := by simpa using hp
      rw [List.length_cons, List.range_succ_eq_map]
      have h1 : passes m (d :: ds) ws (0 :: (List.range ds.length).map Nat.succ) G (x :: xs) =
          passes m (d :: ds) ws ((List.range ds.length).map Nat.succ) (axisOp m (d :: ds) 0 (ws 0) G) (x :: xs) := rfl
      rw [h1, passes_succ, ih _ _ xs hxs]
      simp only [axisOp_zero]
      unfold convG
      rw [outerShape_succ]
      simp only [shapeSize, outerWeight_succ, offsetOf_cons, addPos, pick_specPos_cons, pick_sum]
      rw [sum_range_mul (ws 0).size (shapeSize (outerShape ds.length fun a => ws (a + 1)))
        (fun j i => (ws 0).getD j 0 * outerWeight ds.length (fun a => ws (a + 1)) i *
          pick (headPick G (borderSpec m (x + (Int.ofNat j - (((ws 0).size / 2 : Nat) : Int))) d))
            (specPos m ds (addPos xs (offsetOf (outerShape ds.length fun a => ws (a + 1)) i))))]
      rw [sum_sum_comm]
      apply congrArg
      apply List.map_congr_left
      intro i _
      rw [← sum_map_mul_left']
      apply congrArg
      apply List.map_congr_left
      intro j _
      rw [Int.add_sub_assoc]
      simp only [Int.ofNat_eq_natCast]
      ring

/-! ### from images to functions of positions -/

/-- the defining sum with the kernel embedded on `axis`, at an inside pixel, is the pass operator -/
theorem convSpec_embed_eq_axisOp (m : Mode) (cur : Img R) (a : Nat) (w : Array R) (q : List Int)
    (hq : inside cur.shape q = true) (ha : a < cur.shape.length) :
    convSpec m cur (embedShape cur.shape.length a w.size) w q =
      axisOp m cur.shape a w (fun q' => cur.getD q' 0) q := by
  unfold convSpec axisOp
  rw [shapeSize_embedShape _ _ _ ha]
  apply congrArg
  apply List.map_congr_left
  intro j hj
  rw [addPos_offsetOf_embed _ _ _ _ q ha (List.mem_range.1 hj) (inside_length _ _ hq),
    specSample_eq_pick, specPos_setAxis m cur.shape q a _ hq ha]
  cases borderSpec m (q.getD a 0 + (j : Int) - ((w.size / 2 : Nat) : Int)) ((cur.shape.getD a 1 : Nat) : Int) <;> rfl

/-- a pass only reads its argument at inside positions -/
theorem axisOp_congr (m : Mode) (s : List Nat) (a : Nat) (w : Array R) (G G' : List Int → R)
    (ha : a < s.length) (h : ∀ q, inside s q = true → G q = G' q) (p : List Int) (hp : inside s p = true) :
    axisOp m s a w G p = axisOp m s a w G' p := by
  have hN : (0 : Int) < ((s.getD a 1 : Nat) : Int) := by
    have := getD_lt_of_inside s p a hp ha; omega
  unfold axisOp
  apply congrArg
  apply List.map_congr_left
  intro j _
  cases hb : borderSpec m (p.getD a 0 + (j : Int) - ((w.size / 2 : Nat) : Int)) ((s.getD a 1 : Nat) : Int) with
  | none => rfl
  | some o =>
    have ho := borderSpec_range m _ _ hN o hb
    simp only [Option.map_some, pick]
    rw [h _ (inside_setAxis s p a o hp ho.1 ho.2)]

theorem passes_congr (m : Mode) (s : List Nat) (ws : Nat → Array R) (l : List Nat)
    (hl : ∀ a ∈ l, a < s.length) (G G' : List Int → R) (h : ∀ q, inside s q = true → G q = G' q) :
    ∀ p, inside s p = true → passes m s ws l G p = passes m s ws l G' p := by
  induction l generalizing G G' with
  | nil => exact h
  | cons a t ih =>
    intro p hp
    simp only [passes, List.foldl_cons] at ih ⊢
    exact ih (fun b hb => hl b (by simp [hb])) _ _
      (fun q hq => axisOp_congr m s a (ws a) G G' (hl a (by simp)) h q hq) p hp

/-- the fold of `gaussian_filter` read pointwise: the passes on functions of positions -/
theorem gaussianFold_eq_passes (isZero : R → Bool) (hz : ∀ x, isZero x = true → x = 0) (m : Mode)
    (ws : Nat → Array R) (s : List Nat) (l : List Nat) (hl : ∀ a ∈ l, a < s.length) (cur : Img R)
    (hs : cur.shape = s) :
    (l.foldl (fun cur ax => gaussianPass id isZero m cur ax (ws ax)) cur).shape = s ∧
    ∀ p, inside s p = true →
      (l.foldl (fun cur ax => gaussianPass id isZero m cur ax (ws ax)) cur).getD p 0 =
        passes m s ws l (fun q => cur.getD q 0) p := by
  induction l generalizing cur with
  | nil => exact ⟨hs, fun p _ => rfl⟩
  | cons a t ih =>
    have ha : a < cur.shape.length := by rw [hs]; exact hl a (by simp)
    obtain ⟨h1, h2⟩ := ih (fun b hb => hl b (by simp [hb])) (gaussianPass id isZero m cur a (ws a))
      (by rw [gaussianPass_shape, hs])
    simp only [List.foldl_cons]
    refine ⟨h1, fun p hp => ?_⟩
    rw [h2 p hp]
    show passes m s ws t _ p = passes m s ws t (axisOp m s a (ws a) fun q => cur.getD q 0) p
    apply passes_congr m s ws t (fun b hb => hl b (by simp [hb])) _ _ _ p hp
    intro q hq
    have hq' : inside cur.shape q = true := by rw [hs]; exact hq
    rw [gaussianPass_eq_tabulate id isZero hz m cur a (ws a) ha, tabulate_getD _ _ q 0 hq',
      convSpec_embed_eq_axisOp m cur a (ws a) q hq' ha, hs]
    rfl

theorem outerKernel_getD (n : Nat) (ws : Nat → Array R) (i : Nat) (hi : i < shapeSize (outerShape n ws)) :
    (outerKernel n ws).getD i 0 = outerWeight n ws i := by
  unfold outerKernel
  rw [Array.getD_eq_getD_getElem?]
  simp [hi]

/-- **separability, pointwise**: `gaussian_filter` with exact arithmetic and no rounding between the
    passes = the n-D defining sum with the outer-product kernel, at every pixel, in every mode -/
theorem gaussianFilterG_separable (isZero : R → Bool) (hz : ∀ x, isZero x = true → x = 0) (m : Mode)
    (f : Img R) (ws : Nat → Array R) :
    (gaussianFilterG id isZero m f ws).shape = f.shape ∧
    ∀ p, inside f.shape p = true →
      (gaussianFilterG id isZero m f ws).getD p 0 =
        convSpec m f (outerShape f.shape.length ws) (outerKernel f.shape.length ws) p := by
  obtain ⟨h1, h2⟩ := gaussianFold_eq_passes isZero hz m ws f.shape (List.range f.shape.length)
    (fun a ha => List.mem_range.1 ha) f rfl
  refine ⟨h1, fun p hp => ?_⟩
  unfold gaussianFilterG
  rw [h2 p hp, passes_eq_convG m f.shape ws _ p (inside_length _ _ hp), convSpec_eq_convG]
  unfold convG
  apply congrArg
  apply List.map_congr_left
  intro i hi
  beta_reduce
  rw [outerKernel_getD _ _ i (List.mem_range.1 hi)]

/-- **separability, as a list**: for rank ≥ 1 the buffer `gaussian_filter` returns is the tabulated n-D
    defining sum with the outer-product kernel (for rank 0 there is no pass and the input is returned) -/
theorem gaussianFilterG_separable_list (isZero : R → Bool) (hz : ∀ x, isZero x = true → x = 0) (m : Mode)
    (f : Img R) (ws : Nat → Array R) (hn : 0 < f.shape.length) :
    (gaussianFilterG id isZero m f ws).data.toList =
      (allPos f.shape).map (convSpec m f (outerShape f.shape.length ws) (outerKernel f.shape.length ws)) := by
  obtain ⟨hsh, hpt⟩ := gaussianFilterG_separable isZero hz m f ws
  obtain ⟨k, hk⟩ : ∃ k, f.shape.length = k + 1 := ⟨f.shape.length - 1, by omega⟩
  have htab : ∃ S g, gaussianFilterG id isZero m f ws = Img.tabulate S g := by
    unfold gaussianFilterG
    rw [hk, List.range_succ, List.foldl_append]
    simp only [List.foldl_cons, List.foldl_nil]
    have hcur := (gaussianFold_eq_passes isZero hz m ws f.shape (List.range k)
      (fun a ha => by have := List.mem_range.1 ha; omega) f rfl).1
    exact ⟨_, _, gaussianPass_eq_tabulate id isZero hz m _ k (ws k) (by rw [hcur]; omega)⟩
  obtain ⟨S, g, hSg⟩ := htab
  rw [toList_of_tabulate _ S g 0 hSg f.shape hsh]
  exact List.map_congr_left fun p hp => hpt p (mem_allPos _ _ hp)

end semiring
end Mahotas.C06
