/-
C06, round 3 — the transposition / reshape glue of the fast path of `convolve1d` at the level of
LOGICAL index arithmetic.

numpy semantics assumed (and only these):
* `a.transpose(perm)` permutes the axes logically: the result has shape `[a.shape[perm[i]]]_i` and its
  element at position `q` is the element of `a` at the position `p` with `p[perm[i]] = q[i]`, i.e.
  `p[b] = q[perm.index(b)]` (`transposeImg`);
* `a.reshape(newshape)` of a (possibly non-contiguous) array is the C-order ravel of its logical
  content read with the new shape (`reshapeImg`); `-1` stands for the quotient of the sizes.

With `indices = [a for a in range(ndim) if a != axis] + [axis]` (`moveLast`) and
`rindices = [indices.index(a) for a in range(ndim)]` (`invPerm`) this file proves that the row of
`f.transpose(indices).reshape((-1, N))` that the C kernel sees is `lineThrough f axis p`, that
`tmp.reshape(tshape).transpose(rindices)` puts cell `(row of p, x)` at the logical position
`p[axis := x]`, and that the whole pipeline (transpose, reshape, the 2-D row kernel `fastWrites`,
reshape back, transpose back) is the tabulated defining sum.
-/
import Mahotas.Proofs.C06Const
import Mathlib.Data.List.Perm.Subperm
namespace Mahotas.C06
open Mahotas

/-! ### definitions (proof side) -/

section defs
variable {α : Type} [Zero α]

/-- the axes other than `axis`, in increasing order -/
def otherAxes (ndim axis : Nat) : List Nat := (List.range ndim).filter fun a => a ≠ axis

/-- `indices = [a for a in range(f.ndim) if a != axis] + [axis]` -/
def moveLast (ndim axis : Nat) : List Nat := otherAxes ndim axis ++ [axis]

/-- `rindices = [indices.index(a) for a in range(f.ndim)]` -/
def invPerm (perm : List Nat) : List Nat := (List.range perm.length).map fun a => perm.idxOf a

/-- numpy `f.transpose(perm)` at the logical level: shape `[f.shape[perm[i]]]_i`, the element at `q` is
    the element of `f` at the position `p` with `p[b] = q[perm.index(b)]` (that is `p[perm[i]] = q[i]`) -/
def transposeImg (perm : List Nat) (f : Img α) : Img α :=
  Img.tabulate (perm.map fun a => f.shape.getD a 1) fun q =>
    f.getD ((List.range perm.length).map fun a => q.getD (perm.idxOf a) 0) 0

/-- numpy `f.reshape(newshape)` at the logical level: the C-order ravel of the logical content of `f`
    (whatever its strides) read with the new shape -/
def reshapeImg (newshape : List Nat) (f : Img α) : Img α :=
  { shape := newshape, data := ((allPos f.shape).map fun q => f.getD q 0).toArray }

/-- the lengths of the other axes (the transposed shape without its last axis) -/
def otherShape (shape : List Nat) (axis : Nat) : List Nat :=
  (otherAxes shape.length axis).map fun a => shape.getD a 1

/-- `f.transpose(indices).reshape((-1, f.shape[axis]))`: the 2-D view handed to the C kernel; the
    transposed shape is `otherShape ++ [N]`, so `-1` resolves to the product of the other lengths -/
def rowsView (f : Img α) (axis : Nat) : Img α :=
  reshapeImg [shapeSize (otherShape f.shape axis), f.shape.getD axis 1]
    (transposeImg (moveLast f.shape.length axis) f)

/-- the number of the row that holds pixel `p`: the C-order rank of `p` without its `axis` coordinate
    in the transposed shape without its last axis -/
def rowIndex (shape : List Nat) (axis : Nat) (p : List Int) : Nat :=
  ravelI (otherShape shape axis) ((otherAxes shape.length axis).map fun a => p.getD a 0)

/-- row `r` of a 2-D image as a `[1, N1]` image (what the row kernel reads through `base0`) -/
def rowOf (g : Img α) (r : Nat) : Img α :=
  { shape := [1, g.shape.getD 1 1],
    data := ((List.range (g.shape.getD 1 1)).map fun (x : Nat) => g.getD [(r : Int), (x : Int)] 0).toArray }

/-- `tmp.reshape(tshape).transpose(rindices)`: the way back from the 2-D buffer -/
def unrowsView (shape : List Nat) (axis : Nat) (tmp : Img α) : Img α :=
  transposeImg (invPerm (moveLast shape.length axis))
    (reshapeImg ((moveLast shape.length axis).map fun a => shape.getD a 1) tmp)

end defs

/-! ### lists, permutations of `range n` -/

theorem range_map_getD_self {β : Type} (l : List β) (n : Nat) (d : β) (h : l.length = n) :
    (List.range n).map (fun a => l.getD a d) = l := by
  subst h
  apply List.ext_getElem
  · simp
  · intro i h1 h2
    simp [List.getD_eq_getElem?_getD, h2]

theorem perm_range_facts (perm : List Nat) (n : Nat) (h : perm.Perm (List.range n)) :
    perm.length = n ∧ perm.Nodup ∧ (∀ a, a ∈ perm ↔ a < n) := by
  refine ⟨by simpa using h.length_eq, h.nodup_iff.2 List.nodup_range, fun a => ?_⟩
  rw [h.mem_iff, List.mem_range]

/-- reading the permuted list at `perm.index a` gives the entry `a` -/
theorem map_getD_idxOf {β : Type} (perm : List Nat) (g : Nat → β) (d : β) (a : Nat) (ha : a ∈ perm) :
    (perm.map g).getD (perm.idxOf a) d = g a := by
  have hlt : perm.idxOf a < perm.length := List.idxOf_lt_length_of_mem ha
  rw [List.getD_eq_getElem?_getD, List.getElem?_map, List.getElem?_idxOf ha]
  rfl

theorem invPerm_roundtrip {β : Type} (perm : List Nat) (n : Nat) (h : perm.Perm (List.range n))
    (g : Nat → β) (d : β) :
    (List.range n).map (fun a => (perm.map g).getD (perm.idxOf a) d) = (List.range n).map g := by
  apply List.map_congr_left
  intro a ha
  exact map_getD_idxOf perm g d a (((perm_range_facts perm n h).2.2 a).2 (List.mem_range.1 ha))

/-- the inverse of a permutation of `range n` is a permutation of `range n` -/
theorem invPerm_perm (perm : List Nat) (n : Nat) (h : perm.Perm (List.range n)) :
    (invPerm perm).Perm (List.range n) := by
  obtain ⟨hlen, hnd, hmem⟩ := perm_range_facts perm n h
  unfold invPerm
  rw [hlen]
  apply (List.subperm_of_subset _ _).perm_of_length_le (by simp)
  · apply List.Nodup.map_on _ List.nodup_range
    intro a ha b _ hab
    exact (List.idxOf_inj ((hmem a).2 (List.mem_range.1 ha))).1 hab
  · intro x hx
    obtain ⟨a, ha, rfl⟩ := List.mem_map.1 hx
    rw [List.mem_range, ← hlen]
    exact List.idxOf_lt_length_of_mem ((hmem a).2 (List.mem_range.1 ha))

theorem mem_otherAxes (n axis a : Nat) : a ∈ otherAxes n axis ↔ a < n ∧ a ≠ axis := by
  simp [otherAxes]

theorem moveLast_perm (n axis : Nat) (hax : axis < n) : (moveLast n axis).Perm (List.range n) := by
  rw [List.perm_ext_iff_of_nodup _ List.nodup_range]
  · intro a
    simp only [moveLast, List.mem_append, mem_otherAxes, List.mem_singleton, List.mem_range]
    omega
  · unfold moveLast
    rw [List.nodup_append]
    refine ⟨List.Nodup.filter _ List.nodup_range, List.nodup_singleton _, ?_⟩
    intro a ha b hb
    rw [mem_otherAxes] at ha
    rw [List.mem_singleton] at hb
    omega

/-! ### positions -/

theorem inside_map_getD (s : List Nat) (p : List Int) (hp : inside s p = true) (l : List Nat)
    (hl : ∀ a ∈ l, a < s.length) :
    inside (l.map fun a => s.getD a 1) (l.map fun a => p.getD a 0) = true := by
  induction l with
  | nil => rfl
  | cons a t ih =>
    have h := getD_lt_of_inside s p a hp (hl a (by simp))
    simp only [List.map_cons, inside, Bool.and_eq_true, decide_eq_true_eq]
    exact ⟨h, ih (fun b hb => hl b (by simp [hb]))⟩

theorem getD_setAxis_ne (p : List Int) (axis b : Nat) (v : Int) (h : b ≠ axis) :
    (setAxis p axis v).getD b 0 = p.getD b 0 := by
  induction p generalizing axis b with
  | nil => simp [setAxis]
  | cons x xs ih =>
    cases axis with
    | zero =>
      cases b with
      | zero => exact absurd rfl h
      | succ b => simp [setAxis]
    | succ a =>
      cases b with
      | zero => simp [setAxis]
      | succ b => simpa [setAxis] using ih a b (by omega)

theorem getD_setAxis_eq (p : List Int) (axis : Nat) (v : Int) (h : axis < p.length) :
    (setAxis p axis v).getD axis 0 = v := by
  induction p generalizing axis with
  | nil => simp at h
  | cons x xs ih =>
    cases axis with
    | zero => simp [setAxis]
    | succ a => simpa [setAxis] using ih a (by simpa using h)

theorem setAxis_self (p : List Int) (axis : Nat) (hl : axis < p.length) :
    setAxis p axis (p.getD axis 0) = p := by
  induction p generalizing axis with
  | nil => simp at hl
  | cons y ys ih =>
    cases axis with
    | zero => simp [setAxis]
    | succ a =>
      simp only [setAxis, List.getD_cons_succ]
      rw [ih a (by simpa using hl)]

theorem inside_setAxis (s : List Nat) (p : List Int) (axis : Nat) (v : Int) (hp : inside s p = true)
    (h0 : 0 ≤ v) (h1 : v < ((s.getD axis 1 : Nat) : Int)) : inside s (setAxis p axis v) = true := by
  induction s generalizing p axis with
  | nil => cases p <;> simp_all [inside, setAxis]
  | cons d ds ih =>
    cases p with
    | nil => simp [inside] at hp
    | cons x xs =>
      simp only [inside, Bool.and_eq_true, decide_eq_true_eq] at hp
      cases axis with
      | zero =>
        simp only [setAxis, inside, Bool.and_eq_true, decide_eq_true_eq]
        exact ⟨⟨h0, by simpa using h1⟩, hp.2⟩
      | succ a =>
        simp only [setAxis, inside, Bool.and_eq_true, decide_eq_true_eq]
        exact ⟨hp.1, ih xs a hp.2 (by simpa using h1)⟩

theorem shapeSize_concat (s : List Nat) (n : Nat) : shapeSize (s ++ [n]) = shapeSize s * n := by
  induction s with
  | nil => simp [shapeSize]
  | cons d ds ih => simp only [List.cons_append, shapeSize, ih, Nat.mul_assoc]

theorem inside_concat (s : List Nat) (a : List Int) (n : Nat) (x : Int) (ha : inside s a = true)
    (h0 : 0 ≤ x) (h1 : x < (n : Int)) : inside (s ++ [n]) (a ++ [x]) = true := by
  induction s generalizing a with
  | nil =>
    cases a with
    | nil => simp [inside, h0, h1]
    | cons y ys => simp [inside] at ha
  | cons d ds ih =>
    cases a with
    | nil => simp [inside] at ha
    | cons y ys =>
      simp only [inside, Bool.and_eq_true, decide_eq_true_eq] at ha
      simp only [List.cons_append, inside, Bool.and_eq_true, decide_eq_true_eq]
      exact ⟨ha.1, ih ys ha.2⟩

/-- C-order rank in `s ++ [n]` = (rank in `s`) · n + last coordinate -/
theorem ravelI_concat (s : List Nat) (a : List Int) (n : Nat) (x : Int) (ha : inside s a = true) :
    ravelI (s ++ [n]) (a ++ [x]) = ravelI s a * n + x.toNat := by
  induction s generalizing a with
  | nil =>
    cases a with
    | nil => simp [ravelI, shapeSize]
    | cons y ys => simp [inside] at ha
  | cons d ds ih =>
    cases a with
    | nil => simp [inside] at ha
    | cons y ys =>
      simp only [inside, Bool.and_eq_true, decide_eq_true_eq] at ha
      simp only [List.cons_append, ravelI, ih ys ha.2, shapeSize_concat, Nat.add_mul, Nat.mul_assoc,
        Nat.add_assoc]

theorem ravelI_pair (N0 N1 : Nat) (r : Nat) (x : Int) :
    ravelI [N0, N1] [(r : Int), x] = r * N1 + x.toNat := by
  simp [ravelI, shapeSize]

/-! ### transposition and reshape, pointwise -/

section semiring
variable {R : Type} [CommSemiring R]

theorem transposeImg_shape (perm : List Nat) (f : Img R) :
    (transposeImg perm f).shape = perm.map fun a => f.shape.getD a 1 := rfl

/-- **transposition**: the element of `f.transpose(perm)` at `[p[perm[i]]]_i` is `f[p]` -/
theorem transposeImg_getD (perm : List Nat) (f : Img R) (h : perm.Perm (List.range f.shape.length))
    (p : List Int) (hp : inside f.shape p = true) :
    inside (transposeImg perm f).shape (perm.map fun a => p.getD a 0) = true ∧
    (transposeImg perm f).getD (perm.map fun a => p.getD a 0) 0 = f.getD p 0 := by
  obtain ⟨hlen, _, hmem⟩ := perm_range_facts perm _ h
  have hin : inside (perm.map fun a => f.shape.getD a 1) (perm.map fun a => p.getD a 0) = true :=
    inside_map_getD f.shape p hp perm (fun a ha => (hmem a).1 ha)
  refine ⟨hin, ?_⟩
  unfold transposeImg
  rw [tabulate_getD _ _ _ 0 hin, hlen, invPerm_roundtrip perm _ h,
    range_map_getD_self p _ 0 (inside_length _ _ hp)]

/-- **reshape**: between two shapes of the same size the element at `t` is the element whose C-order
    rank in the old shape is the C-order rank of `t` in the new shape -/
theorem reshapeImg_getD (s2 : List Nat) (g : Img R) (hsz : shapeSize s2 = shapeSize g.shape)
    (t : List Int) (ht : inside s2 t = true) :
    (reshapeImg s2 g).getD t 0 = g.getD (unravelI g.shape (ravelI s2 t)) 0 := by
  unfold reshapeImg Img.getD
  simp only [ht, if_true]
  have hlt : ravelI s2 t < shapeSize g.shape := hsz ▸ ravelI_lt s2 t ht
  rw [Array.getD_eq_getD_getElem?]
  simp [allPos, hlt]

/-- the transposed image back under the inverse permutation -/
theorem transposeImg_invPerm (perm : List Nat) (s : List Nat) (h : perm.Perm (List.range s.length))
    (T : Img R) (hT : T.shape = perm.map fun a => s.getD a 1) :
    (transposeImg (invPerm perm) T).shape = s ∧
    ∀ p, inside s p = true →
      (transposeImg (invPerm perm) T).getD p 0 = T.getD (perm.map fun a => p.getD a 0) 0 := by
  obtain ⟨hlen, _, hmem⟩ := perm_range_facts perm _ h
  have hsh : (transposeImg (invPerm perm) T).shape = s := by
    rw [transposeImg_shape, hT]
    unfold invPerm
    rw [List.map_map, hlen]
    exact (invPerm_roundtrip perm _ h _ 1).trans (range_map_getD_self s _ 1 rfl)
  refine ⟨hsh, fun p hp => ?_⟩
  have hTlen : T.shape.length = s.length := by rw [hT, List.length_map, hlen]
  have hq : inside T.shape (perm.map fun a => p.getD a 0) = true := by
    rw [hT]; exact inside_map_getD s p hp perm (fun a ha => (hmem a).1 ha)
  have hinv : (invPerm perm).Perm (List.range T.shape.length) := by
    rw [hTlen]; exact invPerm_perm perm _ h
  have h2 := (transposeImg_getD (invPerm perm) T hinv _ hq).2
  have hback : ((invPerm perm).map fun a => (perm.map fun a => p.getD a 0).getD a 0) = p := by
    unfold invPerm
    rw [List.map_map, hlen]
    exact (invPerm_roundtrip perm _ h _ 0).trans (range_map_getD_self p _ 0 (inside_length _ _ hp))
  rw [hback] at h2
  exact h2

end semiring
end Mahotas.C06

namespace Mahotas.C06
open Mahotas

/-! ### the `(-1, N)` view of `convolve1d` and the way back -/

section semiring
variable {R : Type} [CommSemiring R]

theorem moveLast_map {β : Type} (n axis : Nat) (g : Nat → β) :
    (moveLast n axis).map g = (otherAxes n axis).map g ++ [g axis] := by
  simp [moveLast]

/-- the transposed coordinates of `p[axis := x]` are the other coordinates of `p` followed by `x` -/
theorem moveLast_map_setAxis (s : List Nat) (axis : Nat) (p : List Int) (x : Int)
    (hax : axis < s.length) (hp : inside s p = true) :
    ((moveLast s.length axis).map fun a => (setAxis p axis x).getD a 0) =
      ((otherAxes s.length axis).map fun a => p.getD a 0) ++ [x] := by
  rw [moveLast_map, getD_setAxis_eq p axis x (by rw [inside_length _ _ hp]; exact hax)]
  congr 1
  apply List.map_congr_left
  intro a ha
  exact getD_setAxis_ne p axis a x ((mem_otherAxes _ _ _).1 ha).2

theorem inside_otherAxes (s : List Nat) (axis : Nat) (p : List Int) (hp : inside s p = true) :
    inside (otherShape s axis) ((otherAxes s.length axis).map fun a => p.getD a 0) = true :=
  inside_map_getD s p hp _ (fun _ ha => ((mem_otherAxes _ _ _).1 ha).1)

theorem rowIndex_lt (s : List Nat) (axis : Nat) (p : List Int) (hp : inside s p = true) :
    rowIndex s axis p < shapeSize (otherShape s axis) :=
  ravelI_lt _ _ (inside_otherAxes s axis p hp)

theorem transposed_shape (s : List Nat) (axis : Nat) :
    ((moveLast s.length axis).map fun a => s.getD a 1) = otherShape s axis ++ [s.getD axis 1] :=
  moveLast_map _ _ _

/-- the C-order rank of the transposed coordinates of `p[axis := x]` in the transposed shape is the
    rank of `(row of p, x)` in the `(-1, N)` shape -/
theorem ravelI_transposed (s : List Nat) (axis : Nat) (p : List Int) (x : Int)
    (hp : inside s p = true) :
    ravelI (otherShape s axis ++ [s.getD axis 1])
        (((otherAxes s.length axis).map fun a => p.getD a 0) ++ [x]) =
      ravelI [shapeSize (otherShape s axis), s.getD axis 1] [(rowIndex s axis p : Int), x] := by
  rw [ravelI_concat _ _ _ _ (inside_otherAxes s axis p hp), ravelI_pair]
  rfl

theorem inside_pair (N0 N1 r : Nat) (x : Int) (hr : r < N0) (h0 : 0 ≤ x) (h1 : x < (N1 : Int)) :
    inside [N0, N1] [(r : Int), x] = true := by
  simp only [inside, Bool.and_eq_true, decide_eq_true_eq, and_true]
  exact ⟨⟨by omega, by omega⟩, h0, h1⟩

/-- **cell `(row of p, x)` of `f.transpose(indices).reshape((-1, N))` is `f[p[axis := x]]`** -/
theorem rowsView_getD (f : Img R) (axis : Nat) (p : List Int) (x : Int)
    (hax : axis < f.shape.length) (hp : inside f.shape p = true)
    (h0 : 0 ≤ x) (h1 : x < ((f.shape.getD axis 1 : Nat) : Int)) :
    (rowsView f axis).getD [(rowIndex f.shape axis p : Int), x] 0 = f.getD (setAxis p axis x) 0 := by
  have hperm := moveLast_perm f.shape.length axis hax
  have hp' := inside_setAxis f.shape p axis x hp h0 h1
  have hT := transposeImg_getD (moveLast f.shape.length axis) f hperm (setAxis p axis x) hp'
  rw [moveLast_map_setAxis f.shape axis p x hax hp, transposeImg_shape, transposed_shape] at hT
  unfold rowsView
  rw [reshapeImg_getD _ _ (by
      rw [transposeImg_shape, transposed_shape, shapeSize_concat]; simp [shapeSize]) _
      (inside_pair _ _ _ x (rowIndex_lt f.shape axis p hp) h0 h1),
    ← ravelI_transposed f.shape axis p x hp, transposeImg_shape, transposed_shape,
    unravelI_ravelI _ _ hT.1]
  exact hT.2

theorem rowsView_shape (f : Img R) (axis : Nat) :
    (rowsView f axis).shape = [shapeSize (otherShape f.shape axis), f.shape.getD axis 1] := rfl

/-- **the rows of the 2-D view are the lines through the pixels**: the row of
    `f.transpose(indices).reshape((-1, N))` whose number is the C-order rank of `p` without its `axis`
    coordinate is `lineThrough f axis p`, for every inside position `p` -/
theorem rowOf_rowsView (f : Img R) (axis : Nat) (p : List Int) (hax : axis < f.shape.length)
    (hp : inside f.shape p = true) :
    rowOf (rowsView f axis) (rowIndex f.shape axis p) = lineThrough f axis p := by
  unfold rowOf lineThrough
  simp only [rowsView_shape, List.getD_cons_succ, List.getD_cons_zero]
  congr 2
  apply List.map_congr_left
  intro x hx
  exact rowsView_getD f axis p (x : Int) hax hp (by omega) (by exact_mod_cast List.mem_range.1 hx)

/-- **the way back**: in `tmp.reshape(tshape).transpose(rindices)` the cell `(row of p, x)` of the 2-D
    buffer `tmp` lands at the logical position `p[axis := x]`; the result has the shape of `f` -/
theorem unrowsView_getD (s : List Nat) (axis : Nat) (hax : axis < s.length) (tmp : Img R)
    (htmp : tmp.shape = [shapeSize (otherShape s axis), s.getD axis 1]) :
    (unrowsView s axis tmp).shape = s ∧
    ∀ p, inside s p = true → ∀ x : Int, 0 ≤ x → x < ((s.getD axis 1 : Nat) : Int) →
      (unrowsView s axis tmp).getD (setAxis p axis x) 0 = tmp.getD [(rowIndex s axis p : Int), x] 0 := by
  have hperm := moveLast_perm s.length axis hax
  have hback := transposeImg_invPerm (moveLast s.length axis) s hperm
    (reshapeImg ((moveLast s.length axis).map fun a => s.getD a 1) tmp) rfl
  refine ⟨hback.1, fun p hp x h0 h1 => ?_⟩
  have hp' := inside_setAxis s p axis x hp h0 h1
  have hin : inside (otherShape s axis ++ [s.getD axis 1])
      (((otherAxes s.length axis).map fun a => p.getD a 0) ++ [x]) = true :=
    inside_concat _ _ _ _ (inside_otherAxes s axis p hp) h0 h1
  unfold unrowsView
  rw [hback.2 _ hp', moveLast_map_setAxis s axis p x hax hp, transposed_shape,
    reshapeImg_getD _ _ (by rw [htmp, shapeSize_concat]; simp [shapeSize]) _ hin,
    ravelI_transposed s axis p x hp, htmp,
    unravelI_ravelI _ _ (inside_pair _ _ _ x (rowIndex_lt s axis p hp) h0 h1)]

/-- the same, read at `p` itself: `out[p] = tmp[row of p, p[axis]]` -/
theorem unrowsView_getD_self (s : List Nat) (axis : Nat) (hax : axis < s.length) (tmp : Img R)
    (htmp : tmp.shape = [shapeSize (otherShape s axis), s.getD axis 1]) (p : List Int)
    (hp : inside s p = true) :
    (unrowsView s axis tmp).getD p 0 = tmp.getD [(rowIndex s axis p : Int), p.getD axis 0] 0 := by
  have hx := getD_lt_of_inside s p axis hp hax
  have h := (unrowsView_getD s axis hax tmp htmp).2 p hp (p.getD axis 0) hx.1 hx.2
  have hset : setAxis p axis (p.getD axis 0) = p :=
    setAxis_self p axis (by rw [inside_length _ _ hp]; exact hax)
  rw [hset] at h
  exact h

end semiring
end Mahotas.C06

/-! ### the whole fast path of `convolve1d`: transpose, reshape, row kernel, reshape back, transpose back -/

namespace Mahotas.C06
open Mahotas

section pipeline
variable {α : Type} [Add α] [Mul α] [Zero α]

/-- the 2-D buffer `tmp` after the C kernel ran: every write stores `T(cur)` (`cast`); a cell that was
    never written would be uninitialised memory (`np.empty`) — it reads 0 here, and the theorem shows
    that no such cell exists -/
def tmpOfWrites (cast : α → α) (N0 N1 : Nat) (ws : List (Nat × Nat × α)) : Img α :=
  { shape := [N0, N1], data := (applyWrites N0 N1 ws).map fun | some v => cast v | none => 0 }

/-- the fast path of `convolve1d` (Python) as written: `f.transpose(indices).reshape((-1, N))`, the C
    kernel `_convolve.convolve1d` on that 2-D array into `tmp` (the model's write sequence
    `fastWrites`), then `tmp.reshape(tshape).transpose(rindices)` -/
def convolve1dViaTranspose (cast : α → α) (m : Mode) (f : Img α) (axis : Nat) (w : Array α) : Img α :=
  let N0 := shapeSize (otherShape f.shape axis)
  let N1 := f.shape.getD axis 1
  unrowsView f.shape axis (tmpOfWrites cast N0 N1 (fastWrites m (rowsView f axis) w N0 N1))

end pipeline

theorem cell_inj (N1 a b c d : Nat) (hb : b < N1) (hd : d < N1) (h : a * N1 + b = c * N1 + d) :
    a = c ∧ b = d := by
  have hN : 0 < N1 := by omega
  have h1 : (a * N1 + b) / N1 = (c * N1 + d) / N1 := by rw [h]
  have h2 : (a * N1 + b) % N1 = (c * N1 + d) % N1 := by rw [h]
  rw [Nat.add_comm (a * N1) b, Nat.add_mul_div_right _ _ hN, Nat.div_eq_of_lt hb,
    Nat.add_comm (c * N1) d, Nat.add_mul_div_right _ _ hN, Nat.div_eq_of_lt hd] at h1
  rw [Nat.add_comm (a * N1) b, Nat.add_mul_mod_self_right, Nat.mod_eq_of_lt hb,
    Nat.add_comm (c * N1) d, Nat.add_mul_mod_self_right, Nat.mod_eq_of_lt hd] at h2
  omega

theorem cell_lt (N0 N1 r x : Nat) (hr : r < N0) (hx : x < N1) : r * N1 + x < N0 * N1 := by
  have h := Nat.mul_le_mul_right N1 (show r + 1 ≤ N0 by omega)
  rw [Nat.add_mul] at h
  omega

/-- a cell hit by some write, all of whose writes store `G`, holds `G` at the end -/
theorem applyWrites_fold_get {β : Type} (N1 : Nat) (ws : List (Nat × Nat × β)) (out : Array (Option β))
    (i : Nat) (G : β) (hi : i < out.size)
    (hall : ∀ t ∈ ws, t.1 * N1 + t.2.1 = i → t.2.2 = G)
    (hex : (∃ t ∈ ws, t.1 * N1 + t.2.1 = i) ∨ out[i]? = some (some G)) :
    (ws.foldl (fun out (t : Nat × Nat × β) => out.setIfInBounds (t.1 * N1 + t.2.1) (some t.2.2)) out)[i]? =
      some (some G) := by
  induction ws generalizing out with
  | nil => simpa using hex
  | cons t ts ih =>
    simp only [List.foldl_cons]
    apply ih
    · simpa using hi
    · intro t' ht'; exact hall t' (by simp [ht'])
    · by_cases h : ∃ t' ∈ ts, t'.1 * N1 + t'.2.1 = i
      · exact Or.inl h
      · right
        rw [Array.getElem?_setIfInBounds]
        by_cases hti : t.1 * N1 + t.2.1 = i
        · rw [if_pos hti, if_pos (by omega), hall t (by simp) hti]
        · rw [if_neg hti]
          rcases hex with ⟨t', ht', e⟩ | hex
          · rcases List.mem_cons.1 ht' with rfl | ht'
            · exact absurd e hti
            · exact absurd ⟨t', ht', e⟩ h
          · exact hex

section semiring
variable {R : Type} [CommSemiring R]

theorem tmpOfWrites_getD (cast : R → R) (N0 N1 : Nat) (ws : List (Nat × Nat × R)) (r x : Nat) (G : R)
    (hr : r < N0) (hx : x < N1)
    (hall : ∀ t ∈ ws, t.1 * N1 + t.2.1 = r * N1 + x → t.2.2 = G)
    (hex : ∃ t ∈ ws, t.1 * N1 + t.2.1 = r * N1 + x) :
    (tmpOfWrites cast N0 N1 ws).getD [(r : Int), (x : Int)] 0 = cast G := by
  have hlt := cell_lt N0 N1 r x hr hx
  have h := applyWrites_fold_get N1 ws (Array.replicate (N0 * N1) none) (r * N1 + x) G
    (by simpa using hlt) hall (Or.inl hex)
  unfold tmpOfWrites Img.getD
  simp only [inside_pair N0 N1 r (x : Int) hr (by omega) (by omega), if_true, ravelI_pair, Int.toNat_natCast]
  rw [Array.getD_eq_getD_getElem?, Array.getElem?_map]
  unfold applyWrites
  rw [h]
  rfl

/-- every write of the row kernel targets a cell of the view and stores the border-loop value -/
theorem fastWrites_border (m : Mode) (g : Img R) (w : Array R) (N0 N1 : Nat) (h : w.size < N1) :
    ∀ t ∈ fastWrites m g w N0 N1, t.1 < N0 ∧ t.2.1 < N1 ∧ t.2.2 = fastBorder m g w N1 t.1 t.2.1 := by
  intro t ht
  unfold fastWrites at ht
  rcases List.mem_append.1 ht with ht | ht
  · obtain ⟨y, hy, ht⟩ := List.mem_flatMap.1 ht
    obtain ⟨x, hx, rfl⟩ := List.mem_map.1 ht
    have hx' : x < N1 := by have := (mem_interiorXs w.size N1 x h).1 hx; omega
    exact ⟨List.mem_range.1 hy, hx', fastInterior_eq_border m g w N1 y x hx h⟩
  · obtain ⟨x, hx, ht⟩ := List.mem_flatMap.1 ht
    obtain ⟨y, hy, rfl⟩ := List.mem_map.1 ht
    have hx' : x < N1 := by have := (mem_borderXs w.size N1 x h).1 hx; omega
    exact ⟨List.mem_range.1 hy, hx', rfl⟩

/-- every cell of the view is written -/
theorem fastWrites_cover (m : Mode) (g : Img R) (w : Array R) (N0 N1 r x : Nat) (h : w.size < N1)
    (hr : r < N0) (hx : x < N1) : ∃ t ∈ fastWrites m g w N0 N1, t.1 * N1 + t.2.1 = r * N1 + x := by
  have hmem : x ∈ fastXs w.size N1 := ((fastXs_perm w.size N1 h).mem_iff).2 (List.mem_range.2 hx)
  unfold fastXs at hmem
  unfold fastWrites
  rcases List.mem_append.1 hmem with hi | hb
  · exact ⟨(r, x, fastInterior g w r x), List.mem_append_left _
      (List.mem_flatMap.2 ⟨r, List.mem_range.2 hr, List.mem_map.2 ⟨x, hi, rfl⟩⟩), rfl⟩
  · exact ⟨(r, x, fastBorder m g w N1 r x), List.mem_append_right _
      (List.mem_flatMap.2 ⟨x, hb, List.mem_map.2 ⟨r, List.mem_range.2 hr, rfl⟩⟩), rfl⟩

/-- the border loop on row `row of p` of the view = the border loop on `lineThrough f axis p` -/
theorem fastBorder_rowsView (m : Mode) (f : Img R) (axis : Nat) (w : Array R) (p : List Int) (x : Nat)
    (hax : axis < f.shape.length) (hp : inside f.shape p = true) :
    fastBorder m (rowsView f axis) w (f.shape.getD axis 1) (rowIndex f.shape axis p) x =
      fastBorder m (lineThrough f axis p) w (f.shape.getD axis 1) 0 x := by
  have hN : (0 : Int) < ((f.shape.getD axis 1 : Nat) : Int) := by
    have := getD_lt_of_inside f.shape p axis hp hax; omega
  unfold fastBorder
  apply List.foldl_ext
  intro cur j _
  rw [fixOffset_eq_spec m _ _ hN]
  cases hb : borderSpec m ((x : Int) + (j : Int) - ((w.size / 2 : Nat) : Int))
      ((f.shape.getD axis 1 : Nat) : Int) with
  | none => rfl
  | some o =>
    have ho := borderSpec_range m _ _ hN o hb
    simp only
    rw [rowsView_getD f axis p o hax hp ho.1 ho.2, lineThrough_getD f axis p o ho.1 ho.2]

/-- **the pipeline at a pixel**: the value `tmp.reshape(tshape).transpose(rindices)` holds at the
    logical position `p` is the cast of the defining sum with the kernel embedded on `axis` -/
theorem viaTranspose_getD (cast : R → R) (m : Mode) (f : Img R) (axis : Nat) (w : Array R)
    (hax : axis < f.shape.length) (hw : w.size < f.shape.getD axis 1) (p : List Int)
    (hp : inside f.shape p = true) :
    (convolve1dViaTranspose cast m f axis w).getD p 0 =
      cast (convSpec m f (embedShape f.shape.length axis w.size) w p) := by
  have hx := getD_lt_of_inside f.shape p axis hp hax
  have hr := rowIndex_lt f.shape axis p hp
  have hxn : (p.getD axis 0).toNat < f.shape.getD axis 1 := by omega
  unfold convolve1dViaTranspose
  simp only
  rw [unrowsView_getD_self f.shape axis hax _ rfl p hp, ← Int.toNat_of_nonneg hx.1,
    tmpOfWrites_getD cast _ _ _ _ _
      (fastBorder m (rowsView f axis) w (f.shape.getD axis 1) (rowIndex f.shape axis p) (p.getD axis 0).toNat)
      hr hxn ?_ (fastWrites_cover m _ w _ _ _ _ hw hr hxn),
    fastBorder_rowsView m f axis w p _ hax hp, fastBorder_line_eq_spec m f axis w p hp hax]
  intro t ht hcell
  obtain ⟨_, h2, h3⟩ := fastWrites_border m _ w _ _ hw t ht
  obtain ⟨e1, e2⟩ := cell_inj _ _ _ _ _ h2 hxn hcell
  rw [h3, e1, e2]

theorem tabulate_toList {β : Type} (S : List Nat) (g : List Int → β) (d : β) :
    (Img.tabulate S g).data.toList = (allPos S).map fun p => (Img.tabulate S g).getD p d := by
  have : (Img.tabulate S g).data.toList = (allPos S).map g := by simp [Img.tabulate]
  rw [this]
  apply List.map_congr_left
  intro p hp
  rw [tabulate_getD S g p d (mem_allPos S p hp)]

theorem toList_of_tabulate {β : Type} (im : Img β) (S : List Nat) (g : List Int → β) (d : β)
    (h : im = Img.tabulate S g) (s : List Nat) (hs : im.shape = s) :
    im.data.toList = (allPos s).map fun p => im.getD p d := by
  subst h
  have : S = s := hs
  subst this
  exact tabulate_toList S g d

/-- **the pipeline as a whole** is the tabulated, cast defining sum with the kernel embedded on `axis` -/
theorem viaTranspose_eq_spec (cast : R → R) (m : Mode) (f : Img R) (axis : Nat) (w : Array R)
    (hax : axis < f.shape.length) (hw : w.size < f.shape.getD axis 1) :
    (convolve1dViaTranspose cast m f axis w).shape = f.shape ∧
    (convolve1dViaTranspose cast m f axis w).data.toList =
      (allPos f.shape).map fun p => cast (convSpec m f (embedShape f.shape.length axis w.size) w p) := by
  have hsh : (convolve1dViaTranspose cast m f axis w).shape = f.shape :=
    (unrowsView_getD f.shape axis hax _ rfl).1
  refine ⟨hsh, ?_⟩
  rw [toList_of_tabulate (convolve1dViaTranspose cast m f axis w) _ _ 0 rfl f.shape hsh]
  apply List.map_congr_left
  intro p hp
  exact viaTranspose_getD cast m f axis w hax hw p (mem_allPos _ _ hp)

end semiring
end Mahotas.C06

/-! ### the branch `axis == ndim − 1`: no transposition, the kernel writes into `out.reshape(f.shape)` -/

namespace Mahotas.C06
open Mahotas

section lastaxis
variable {α : Type} [Add α] [Mul α] [Zero α]

/-- the branch `if axis == len(tshape) - 1` of the Python fast path: `indices` is the identity, the C
    kernel writes straight into `out.reshape((-1, N))` — a 2-D view of the C-contiguous `out` —, so `out`
    is the 2-D buffer read with the shape of `f` -/
def convolve1dLastAxis (cast : α → α) (m : Mode) (f : Img α) (w : Array α) : Img α :=
  let axis := f.shape.length - 1
  let N0 := shapeSize (otherShape f.shape axis)
  let N1 := f.shape.getD axis 1
  reshapeImg f.shape (tmpOfWrites cast N0 N1 (fastWrites m (rowsView f axis) w N0 N1))

end lastaxis

theorem ravelI_unravelI (s : List Nat) (i : Nat) (h : i < shapeSize s) : ravelI s (unravelI s i) = i := by
  induction s generalizing i with
  | nil => simp [shapeSize] at h; simp [ravelI, h]
  | cons d ds ih =>
    simp only [shapeSize] at h
    have hS : 0 < shapeSize ds := by
      rcases Nat.eq_zero_or_pos (shapeSize ds) with h0 | h0
      · rw [h0] at h; simp at h
      · exact h0
    rw [unravelI_cons]
    simp only [ravelI, Int.ofNat_eq_natCast, Int.toNat_natCast]
    rw [ih _ (Nat.mod_lt _ hS)]
    exact Nat.div_add_mod' i (shapeSize ds)

/-- a well-formed image is the list of its values in C scan order -/
theorem toList_eq_map_getD {β : Type} (im : Img β) (d : β) (h : im.data.size = shapeSize im.shape) :
    im.data.toList = (allPos im.shape).map fun p => im.getD p d := by
  apply List.ext_getElem
  · simp [allPos, h]
  · intro i h1 h2
    have hi : i < shapeSize im.shape := by simpa [allPos] using h2
    simp only [allPos, List.getElem_map, List.getElem_range, Img.getD, unravelI_inside _ _ hi, if_true,
      ravelI_unravelI _ _ hi]
    rw [Array.getD_eq_getD_getElem?]
    simp [h, hi]

theorem moveLast_last (k : Nat) : moveLast (k + 1) k = List.range (k + 1) := by
  unfold moveLast otherAxes
  rw [List.range_succ, List.filter_append]
  have h1 : (List.range k).filter (fun a => decide (a ≠ k)) = List.range k := by
    apply List.filter_eq_self.2
    intro a ha
    have := List.mem_range.1 ha
    simp; omega
  rw [h1]
  simp

section semiring
variable {R : Type} [CommSemiring R]

/-- for the last axis the way back is a plain reshape -/
theorem unrowsView_last (s : List Nat) (axis : Nat) (h : axis + 1 = s.length) (tmp : Img R) :
    ∀ p, inside s p = true → (unrowsView s axis tmp).getD p 0 = (reshapeImg s tmp).getD p 0 := by
  intro p hp
  have hperm := moveLast_perm s.length axis (by omega)
  have hid : moveLast s.length axis = List.range s.length := by rw [← h]; exact moveLast_last axis
  have hback := transposeImg_invPerm (moveLast s.length axis) s hperm
    (reshapeImg ((moveLast s.length axis).map fun a => s.getD a 1) tmp) rfl
  unfold unrowsView
  rw [hback.2 p hp, hid, range_map_getD_self s _ 1 rfl, range_map_getD_self p _ 0 (inside_length _ _ hp)]

theorem lastAxis_eq_spec (cast : R → R) (m : Mode) (f : Img R) (w : Array R) (hn : 0 < f.shape.length)
    (hw : w.size < f.shape.getD (f.shape.length - 1) 1) :
    (convolve1dLastAxis cast m f w).shape = f.shape ∧
    (convolve1dLastAxis cast m f w).data.toList =
      (allPos f.shape).map fun p =>
        cast (convSpec m f (embedShape f.shape.length (f.shape.length - 1) w.size) w p) := by
  refine ⟨rfl, ?_⟩
  have hax : f.shape.length - 1 < f.shape.length := by omega
  have hsz : (convolve1dLastAxis cast m f w).data.size = shapeSize (convolve1dLastAxis cast m f w).shape := by
    show (reshapeImg f.shape _).data.size = shapeSize f.shape
    have h1 : shapeSize f.shape = shapeSize (otherShape f.shape (f.shape.length - 1) ++
        [f.shape.getD (f.shape.length - 1) 1]) := by
      rw [← transposed_shape]
      have hid : moveLast f.shape.length (f.shape.length - 1) = List.range f.shape.length := by
        have := moveLast_last (f.shape.length - 1)
        rwa [Nat.sub_add_cancel hn] at this
      rw [hid, range_map_getD_self f.shape _ 1 rfl]
    rw [h1, shapeSize_concat]
    simp [reshapeImg, tmpOfWrites, allPos, shapeSize]
  rw [toList_eq_map_getD _ 0 hsz]
  show (allPos f.shape).map _ = _
  apply List.map_congr_left
  intro p hp
  have hp' := mem_allPos _ _ hp
  have h := unrowsView_last f.shape (f.shape.length - 1) (by omega)
    (tmpOfWrites cast (shapeSize (otherShape f.shape (f.shape.length - 1))) (f.shape.getD (f.shape.length - 1) 1)
      (fastWrites m (rowsView f (f.shape.length - 1)) w (shapeSize (otherShape f.shape (f.shape.length - 1)))
        (f.shape.getD (f.shape.length - 1) 1))) p hp'
  exact h.symm.trans (viaTranspose_getD cast m f (f.shape.length - 1) w hax hw p hp')

end semiring
end Mahotas.C06
