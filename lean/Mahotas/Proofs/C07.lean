/-
Helper lemmas for C07: samples through `fix_offset` = samples of the border rule; the element at
index `k` of the sorted samples is the k-th smallest by counting (and is the only such value);
`takeWhile` loop bounds of `find2d`.
-/
import Mahotas.Model.C07
import Mahotas.Proofs.C06
import Mathlib.Data.List.Basic
import Mathlib.Tactic.Ring
namespace Mahotas.C07
open Mahotas

theorem gather_eq_specSamples (m : Mode) (f : Img Int) (hs : ∀ d ∈ f.shape, 0 < d)
    (fp : List (List Int)) (p : List Int) : gather m f fp p = specSamples m f fp p := by
  unfold gather specSamples
  congr 1
  funext k
  rw [fixPos_eq_specPos m f.shape _ hs]

/-! ### order statistics -/

theorem leB_trans (a b c : Int) : leB a b = true → leB b c = true → leB a c = true := by
  simp only [leB, decide_eq_true_eq]; omega

theorem leB_total (a b : Int) : (leB a b || leB b a) = true := by
  simp only [leB, Bool.or_eq_true, decide_eq_true_eq]; omega

/-- in a sorted list the element at index `k` has at most `k` strictly smaller elements and more
    than `k` smaller-or-equal ones -/
theorem sorted_getElem_counts (s : List Int) (hs : s.Pairwise (fun a b => a ≤ b)) (k : Nat) (hk : k < s.length) :
    s.countP (fun x => decide (x < s[k])) ≤ k ∧ k < s.countP (fun x => decide (x ≤ s[k])) := by
  have hp := List.pairwise_iff_getElem.1 hs
  constructor
  · have h1 : s.countP (fun x => decide (x < s[k])) =
        (s.take k).countP (fun x => decide (x < s[k])) + (s.drop k).countP (fun x => decide (x < s[k])) := by
      rw [← List.countP_append, List.take_append_drop]
    have h2 : (s.drop k).countP (fun x => decide (x < s[k])) = 0 := by
      rw [List.countP_eq_zero]
      intro a ha
      obtain ⟨j, hj, rfl⟩ := List.mem_drop_iff_getElem.1 ha
      simp only [decide_eq_true_eq, not_lt]
      rcases Nat.eq_zero_or_pos j with rfl | hpos
      · simp
      · exact hp k (k + j) hk (by omega) (by omega)
    have h3 := List.countP_le_length (p := fun x => decide (x < s[k])) (l := s.take k)
    rw [List.length_take] at h3
    omega
  · have h1 : s.countP (fun x => decide (x ≤ s[k])) =
        (s.take (k + 1)).countP (fun x => decide (x ≤ s[k])) + (s.drop (k + 1)).countP (fun x => decide (x ≤ s[k])) := by
      rw [← List.countP_append, List.take_append_drop]
    have h2 : (s.take (k + 1)).countP (fun x => decide (x ≤ s[k])) = (s.take (k + 1)).length := by
      rw [List.countP_eq_length]
      intro a ha
      obtain ⟨j, hj, rfl⟩ := List.mem_take_iff_getElem.1 ha
      simp only [decide_eq_true_eq]
      have hjk : j ≤ k := by
        have := hj; simp only [Nat.lt_min] at this; omega
      rcases Nat.lt_or_ge j k with hlt | hge
      · exact hp j k (by omega) hk hlt
      · have : j = k := by omega
        subst this; exact Int.le_refl _
    rw [List.length_take] at h2
    have : min (k + 1) s.length = k + 1 := by omega
    omega

/-- the value with "at most `k` smaller, more than `k` smaller-or-equal" is unique -/
theorem isKth_unique (xs : List Int) (k : Nat) (v v' : Int)
    (h : IsKthSmallest xs k v) (h' : IsKthSmallest xs k v') : v = v' := by
  obtain ⟨_, h1, h2⟩ := h
  obtain ⟨_, h1', h2'⟩ := h'
  rcases Int.lt_trichotomy v v' with hlt | heq | hgt
  · have : xs.countP (fun x => decide (x ≤ v)) ≤ xs.countP (fun x => decide (x < v')) :=
      List.countP_mono_left (by intro x _ hx; simp only [decide_eq_true_eq] at hx ⊢; omega)
    omega
  · exact heq
  · have : xs.countP (fun x => decide (x ≤ v')) ≤ xs.countP (fun x => decide (x < v)) :=
      List.countP_mono_left (by intro x _ hx; simp only [decide_eq_true_eq] at hx ⊢; omega)
    omega

theorem sorted_pairwise (xs : List Int) : (xs.mergeSort leB).Pairwise (fun a b => a ≤ b) := by
  have := List.pairwise_mergeSort (le := leB) leB_trans leB_total xs
  simpa [leB] using this

/-- the contract of `nth_element` meets the counting definition of "k-th smallest" -/
theorem nthElement_isKth (xs : List Int) (k : Nat) (hk : k < xs.length) :
    ∃ v, nthElement xs k = some v ∧ IsKthSmallest xs k v := by
  have hperm := List.mergeSort_perm xs leB
  have hlen : k < (xs.mergeSort leB).length := by rw [hperm.length_eq]; exact hk
  refine ⟨(xs.mergeSort leB)[k], ?_, ?_, ?_⟩
  · unfold nthElement; exact List.getElem?_eq_getElem hlen
  · exact hperm.mem_iff.1 (List.getElem_mem hlen)
  · have := sorted_getElem_counts _ (sorted_pairwise xs) k hlen
    rw [hperm.countP_eq, hperm.countP_eq] at this
    exact this

theorem nthElement_none (xs : List Int) (k : Nat) (hk : xs.length ≤ k) : nthElement xs k = none := by
  unfold nthElement
  have hperm := List.mergeSort_perm xs leB
  rw [List.getElem?_eq_none_iff]
  rw [hperm.length_eq]; exact hk

/-- the executable specification (first sample satisfying the counting condition) and the
    sort-and-index contract agree for every list and every index -/
theorem kthSmallest_eq_nthElement (xs : List Int) (k : Nat) : kthSmallest xs k = nthElement xs k := by
  rcases Nat.lt_or_ge k xs.length with hk | hk
  · obtain ⟨v, hv, hkth⟩ := nthElement_isKth xs k hk
    rw [hv]
    unfold kthSmallest
    cases hf : xs.find? (fun v => decide (xs.countP (fun x => decide (x < v)) ≤ k) &&
        decide (k < xs.countP (fun x => decide (x ≤ v)))) with
    | none =>
      rw [List.find?_eq_none] at hf
      have := hf v hkth.1
      simp only [Bool.and_eq_true, decide_eq_true_eq, not_and] at this
      exact absurd hkth.2.2 (this hkth.2.1)
    | some v' =>
      have hm := List.mem_of_find?_eq_some hf
      have hp := List.find?_some hf
      simp only [Bool.and_eq_true, decide_eq_true_eq] at hp
      rw [isKth_unique xs k v' v ⟨hm, hp.1, hp.2⟩ hkth]
  · rw [nthElement_none xs k hk]
    unfold kthSmallest
    rw [List.find?_eq_none]
    intro v _
    have := List.countP_le_length (p := fun x => decide (x ≤ v)) (l := xs)
    simp only [Bool.and_eq_true, decide_eq_true_eq, not_and, not_lt]
    intro _; omega

/-! ### template matching -/

theorem tm_fold (m : Mode) (f : Img Int) (hs : ∀ d ∈ f.shape, 0 < d) (tshape : List Nat) (t : Array Int)
    (p : List Int) (js : List Nat) (acc : Int) :
    js.foldl (fun diff2 j =>
      match fixPos m f.shape (addPos p (offsetOf tshape j)) with
      | some q =>
        let val := f.getD q 0
        let tj := t.getD j 0
        let delta := if val > tj then val - tj else tj - val
        diff2 + delta * delta
      | none => diff2) acc =
    acc + (js.map fun j =>
      match specPos m f.shape (addPos p (offsetOf tshape j)) with
      | some q => (f.getD q 0 - t.getD j 0) ^ 2
      | none => 0).sum := by
  induction js generalizing acc with
  | nil => simp
  | cons j r ih =>
    simp only [List.foldl_cons, List.map_cons, List.sum_cons]
    rw [ih, fixPos_eq_specPos m f.shape _ hs]
    cases specPos m f.shape (addPos p (offsetOf tshape j)) with
    | none => simp
    | some q =>
      simp only
      split <;> ring

/-! ### loop bounds of `find2d` -/

theorem mem_takeWhile_range' (p : Nat → Bool) (hp : ∀ a b, a ≤ b → p b = true → p a = true)
    (s n y : Nat) : y ∈ (List.range' s n).takeWhile p ↔ y ∈ List.range' s n ∧ p y = true := by
  induction n generalizing s with
  | zero => simp
  | succ n ih =>
    rw [List.range'_succ]
    by_cases h : p s = true
    · rw [List.takeWhile_cons_of_pos h, List.mem_cons, List.mem_cons, ih]
      constructor
      · rintro (rfl | ⟨h1, h2⟩)
        · exact ⟨Or.inl rfl, h⟩
        · exact ⟨Or.inr h1, h2⟩
      · rintro ⟨rfl | h1, h2⟩
        · exact Or.inl rfl
        · exact Or.inr ⟨h1, h2⟩
    · rw [List.takeWhile_cons_of_neg h]
      constructor
      · intro hm; simp at hm
      · rintro ⟨hm, hy⟩
        exfalso
        apply h
        rcases List.mem_cons.1 hm with rfl | hm
        · exact hy
        · have := (List.mem_range'_1.1 hm).1
          exact hp s y (by omega) hy

theorem mem_takeWhile_range (n k y : Nat) :
    y ∈ (List.range n).takeWhile (fun y => decide (y + k ≤ n)) ↔ y < n ∧ y + k ≤ n := by
  rw [List.range_eq_range', mem_takeWhile_range' _ (by
    intro a b hab hb; simp only [decide_eq_true_eq] at hb ⊢; omega)]
  simp [List.mem_range'_1]

end Mahotas.C07
