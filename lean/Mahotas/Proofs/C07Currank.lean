/-
Helper lemmas for C07 (round 4): the rescaled rank `npy_intp(n * rank / double(N2))` of `rank_filter`
evaluated in a round-to-nearest arithmetic with a 53-bit significand (the `Rounding` interface of
`Proofs/C05Abscissa.lean`; `rne53` of `Proofs/C05Binary64.lean` is IEEE binary64 `roundTiesToEven`)
equals the exact integer floor `⌊n·rank / N2⌋` that `curRank` computes with `Nat` division.

* `floor_rounded_div`: for naturals `a < 2^53`, `0 < b ≤ 2^53`: `⌊rnd (rnd a / rnd b)⌋ = a / b`
  (conversion of both integers is exact; the quotient `x = a/b` lies in `[q, q + 1 − 1/b]`; rounding is monotone and
  fixes `q`, so `q ≤ rnd x`; the relative error `2^-53` moves `x` by less than `1/b`, so `rnd x < q + 1`);
* `curRankG_rat_eq`: `curRankG (ratRankOps rnd) n N2 rank = curRank n N2 rank` when `n·rank < 2^53`, `N2 ≤ 2^53`;
* `curRankG_small`: in particular for `n ≤ N2`, `rank < N2`, `N2 < 2^26`.
-/
import Mahotas.Model.C07
import Mahotas.Proofs.C05Binary64
import Mathlib.Algebra.Order.Floor.Ring
import Mathlib.Data.Rat.Floor
import Mathlib.Tactic.Linarith
import Mathlib.Tactic.Positivity
import Mathlib.Tactic.FieldSimp

set_option linter.unusedVariables false
namespace Mahotas.C07
open Mahotas Mahotas.C05

/-- the operations of `npy_intp(n * rank / double(N2))` over ℚ with every result rounded by `rnd`:
    the two integer-to-double conversions, the division, the truncation (floor of a non-negative number) -/
def ratRankOps (rnd : ℚ → ℚ) : RankOps ℚ :=
  ⟨fun k => rnd (k : ℚ), fun a b => rnd (a / b), fun x => ⌊x⌋.toNat⟩

theorem floor_rounded_div (rnd : ℚ → ℚ) (hr : Rounding rnd) (a b : ℕ) (hb : 0 < b)
    (ha : a < 2 ^ 53) (hb2 : b ≤ 2 ^ 53) :
    ⌊rnd (rnd (a : ℚ) / rnd (b : ℚ))⌋ = ((a / b : ℕ) : ℤ) := by
  have ea : rnd (a : ℚ) = (a : ℚ) := by
    have := hr.exact_int (a : ℤ) (by
      rw [abs_of_nonneg (by positivity)]
      have : (a : ℚ) < 2 ^ 53 := by exact_mod_cast ha
      push_cast; linarith)
    simpa using this
  have eb : rnd (b : ℚ) = (b : ℚ) := by
    have := hr.exact_int (b : ℤ) (by
      rw [abs_of_nonneg (by positivity)]
      have : (b : ℚ) ≤ 2 ^ 53 := by exact_mod_cast hb2
      push_cast; linarith)
    simpa using this
  rw [ea, eb]
  set q : ℕ := a / b with hq
  have hbq : (0 : ℚ) < (b : ℚ) := by exact_mod_cast hb
  -- q * b ≤ a ≤ q * b + b - 1
  have h1 : q * b ≤ a := Nat.div_mul_le_self a b
  have h2 : a + 1 ≤ q * b + b := by
    have hm := Nat.div_add_mod a b
    have hlt := Nat.mod_lt a hb
    have hc : q * b = b * (a / b) := by rw [hq, Nat.mul_comm]
    omega
  have h1q : (q : ℚ) * b ≤ a := by exact_mod_cast h1
  have h2q : (a : ℚ) + 1 ≤ q * b + b := by exact_mod_cast h2
  have hx_lo : (q : ℚ) ≤ (a : ℚ) / b := by rw [le_div_iff₀ hbq]; exact h1q
  have hx_hi : (a : ℚ) / b ≤ q + 1 - 1 / b := by
    rw [div_le_iff₀ hbq]
    have : ((q : ℚ) + 1 - 1 / b) * b = q * b + b - 1 := by field_simp
    rw [this]; linarith
  have hx0 : (0 : ℚ) ≤ (a : ℚ) / b := by positivity
  -- lower bound: monotone + exact on the integer q
  have hqa : q ≤ a := Nat.div_le_self a b
  have eq' : rnd (q : ℚ) = (q : ℚ) := by
    have := hr.exact_int (q : ℤ) (by
      rw [abs_of_nonneg (by positivity)]
      have : (q : ℚ) < 2 ^ 53 := by exact_mod_cast lt_of_le_of_lt hqa ha
      push_cast; linarith)
    simpa using this
  have lo : (q : ℚ) ≤ rnd ((a : ℚ) / b) := by
    have := hr.mono _ _ hx_lo
    rwa [eq'] at this
  -- upper bound: relative error
  have hrel := hr.rel ((a : ℚ) / b)
  rw [abs_of_nonneg hx0] at hrel
  have hup : rnd ((a : ℚ) / b) ≤ (a : ℚ) / b + (a : ℚ) / b / 2 ^ 53 := by
    have := (abs_le.1 hrel).2
    linarith
  have hsmall : (a : ℚ) / b / 2 ^ 53 < 1 / b := by
    rw [div_div, div_lt_div_iff₀ (by positivity) hbq]
    have : (a : ℚ) < 2 ^ 53 := by exact_mod_cast ha
    nlinarith
  have hi : rnd ((a : ℚ) / b) < (q : ℚ) + 1 := by linarith
  rw [Int.floor_eq_iff]
  constructor
  · push_cast; exact lo
  · push_cast; exact hi

/-- the C++ expression in rounded arithmetic is the exact integer floor -/
theorem curRankG_rat_eq (rnd : ℚ → ℚ) (hr : Rounding rnd) (n N2 rank : ℕ) (hN : 0 < N2)
    (hprod : n * rank < 2 ^ 53) (hN2 : N2 ≤ 2 ^ 53) :
    curRankG (ratRankOps rnd) n N2 rank = curRank n N2 rank := by
  unfold curRankG curRank
  by_cases h : n ≠ N2
  · rw [if_pos h, if_pos h]
    show (⌊rnd (rnd ((n * rank : ℕ) : ℚ) / rnd ((N2 : ℕ) : ℚ))⌋).toNat = n * rank / N2
    rw [floor_rounded_div rnd hr (n * rank) N2 hN hprod hN2]
    exact Int.toNat_natCast _
  · rw [if_neg h, if_neg h]

/-- every size that occurs: at most `N2` samples, rank below `N2`, fewer than `2^26` members -/
theorem curRankG_small (rnd : ℚ → ℚ) (hr : Rounding rnd) (n N2 rank : ℕ)
    (hn : n ≤ N2) (hrank : rank < N2) (hsz : N2 < 2 ^ 26) :
    curRankG (ratRankOps rnd) n N2 rank = curRank n N2 rank := by
  apply curRankG_rat_eq rnd hr n N2 rank (by omega)
  · have h1 : n * rank ≤ N2 * N2 := Nat.mul_le_mul hn hrank.le
    have h2 : N2 * N2 ≤ 2 ^ 26 * 2 ^ 26 := Nat.mul_le_mul hsz.le hsz.le
    have : (2 : ℕ) ^ 26 * 2 ^ 26 < 2 ^ 53 := by norm_num
    omega
  · have : (2 : ℕ) ^ 26 ≤ 2 ^ 53 := by norm_num
    omega

end Mahotas.C07
