/-
Helper lemmas for C07 (round 4): when does `rank_filter` / `mean_filter` have NO sample at a pixel?

* the four extending modes (nearest, wrap, reflect, mirror) never flag a sample (`fixPos_isSome_extending`);
* `constant` / `ignore` flag exactly the positions outside the image (`fixPos_flag_iff`);
* `gather_eq_nil_iff`: the gathered list is empty iff the neighbourhood is empty, or the mode is `ignore` and every
  member falls outside the image;
* `rankAt_none_iff`: for a rank inside `[0, N2)` the model is undefined (`none`: `nth_element` on an empty range, the
  C++ stores whatever `neighbours[0]` holds from the previous pixel) exactly in that case.
-/
import Mahotas.Proofs.C07Order
import Mathlib.Tactic.SplitIfs

set_option linter.unusedVariables false
set_option linter.unusedSimpArgs false
namespace Mahotas.C07
open Mahotas

theorem fixOffset_isSome_extending (m : Mode) (hc : m ≠ .constant) (hi : m ≠ .ignore) (cc len : Int) :
    (fixOffset m cc len).isSome = true := by
  cases m <;> first | exact absurd rfl hc | exact absurd rfl hi | (unfold fixOffset; simp only; split_ifs <;> rfl)

theorem fixPos_isSome_extending (m : Mode) (hc : m ≠ .constant) (hi : m ≠ .ignore) :
    ∀ (shape : List Nat) (p : List Int), (fixPos m shape p).isSome = true := by
  intro shape
  induction shape with
  | nil => intro p; cases p <;> simp [fixPos]
  | cons d ds ih =>
    intro p
    cases p with
    | nil => simp [fixPos]
    | cons a ps =>
      have h1 := fixOffset_isSome_extending m hc hi a d
      have h2 := ih ps
      obtain ⟨c, hc'⟩ := Option.isSome_iff_exists.1 h1
      obtain ⟨cs, hcs⟩ := Option.isSome_iff_exists.1 h2
      simp [fixPos, hc', hcs]

theorem fixOffset_flag (m : Mode) (hm : m = .constant ∨ m = .ignore) (cc len : Int) :
    fixOffset m cc len = if cc < 0 ∨ cc ≥ len then none else some cc := by
  rcases hm with rfl | rfl <;> rfl

/-- `constant` / `ignore`: a position is retrieved exactly when it lies inside the image -/
theorem fixPos_flag_iff (m : Mode) (hm : m = .constant ∨ m = .ignore) :
    ∀ (shape : List Nat) (p : List Int), p.length = shape.length →
      ((fixPos m shape p).isSome = true ↔ inside shape p = true) := by
  intro shape
  induction shape with
  | nil =>
    intro p hp
    cases p with
    | nil => simp [fixPos, inside]
    | cons a b => simp at hp
  | cons d ds ih =>
    intro p hp
    cases p with
    | nil => simp at hp
    | cons a ps =>
      have hl : ps.length = ds.length := by simpa using hp
      have ih' := ih ps hl
      simp only [fixPos, inside, fixOffset_flag m hm]
      by_cases h1 : a < 0 ∨ a ≥ (d : Int)
      · rw [if_pos h1]
        simp only [Option.isSome_none, Bool.false_eq_true, false_iff]
        simp only [Bool.and_eq_true, decide_eq_true_eq, not_and]
        intro h2; omega
      · rw [if_neg h1]
        cases hf : fixPos m ds ps with
        | none =>
          rw [hf] at ih'
          simp only [Option.isSome_none, Bool.false_eq_true, false_iff] at ih' ⊢
          simp [ih']
        | some cs =>
          rw [hf] at ih'
          have : inside ds ps = true := ih'.1 rfl
          simp only [Option.isSome_some, true_iff, Bool.and_eq_true, decide_eq_true_eq, this, and_true]
          omega

/-- no sample at all: empty neighbourhood, or `ignore` mode with every member outside the image -/
theorem gather_eq_nil_iff (m : Mode) (f : Img Int) (fp : List (List Int)) (p : List Int)
    (hlen : ∀ k ∈ fp, (addPos p k).length = f.shape.length) :
    gather m f fp p = [] ↔ (fp = [] ∨ (m = .ignore ∧ ∀ k ∈ fp, inside f.shape (addPos p k) = false)) := by
  unfold gather
  rw [List.filterMap_eq_nil_iff]
  constructor
  · intro h
    by_cases hfp : fp = []
    · exact Or.inl hfp
    · right
      obtain ⟨k0, hk0⟩ := List.exists_mem_of_ne_nil fp hfp
      have hm : m = .ignore := by
        by_contra hne
        have := h k0 hk0
        by_cases hc : m = .constant
        · subst hc
          cases hfix : fixPos Mode.constant f.shape (addPos p k0) <;> rw [hfix] at this <;> simp at this
        · obtain ⟨q, hq⟩ := Option.isSome_iff_exists.1 (fixPos_isSome_extending m hc hne f.shape (addPos p k0))
          simp [hq] at this
      refine ⟨hm, fun k hk => ?_⟩
      have := h k hk
      by_contra hin
      have hin' : inside f.shape (addPos p k) = true := by simpa using hin
      obtain ⟨q, hq⟩ := Option.isSome_iff_exists.1
        ((fixPos_flag_iff m (Or.inr hm) f.shape (addPos p k) (hlen k hk)).2 hin')
      simp [hq] at this
  · rintro (rfl | ⟨hm, hall⟩)
    · intro k hk; simp at hk
    · intro k hk
      have hno : ¬ (fixPos m f.shape (addPos p k)).isSome = true := by
        rw [fixPos_flag_iff m (Or.inr hm) f.shape (addPos p k) (hlen k hk), hall k hk]; simp
      cases hfix : fixPos m f.shape (addPos p k) with
      | none => simp [hm]
      | some q => rw [hfix] at hno; simp at hno

/-- for a rank in range the model is undefined exactly when no sample was gathered -/
theorem rankAt_none_iff_gather (m : Mode) (f : Img Int) (fp : List (List Int)) (rank : Int) (p : List Int)
    (h0 : 0 ≤ rank) (h1 : rank < fp.length) :
    rankAt m f fp rank p = none ↔ gather m f fp p = [] := by
  unfold rankAt
  rw [if_neg (by omega)]
  simp only
  constructor
  · intro h
    by_contra hne
    have hn : 0 < (gather m f fp p).length := List.length_pos_iff.2 hne
    have hk := curRank_lt (gather m f fp p).length fp.length rank.toNat hn (by omega)
    obtain ⟨v, hv, _⟩ := nthElement_isKth _ _ hk
    rw [hv] at h; cases h
  · intro h
    rw [h]
    exact nthElement_none [] _ (Nat.zero_le _)

end Mahotas.C07
