/-
C07, round 3 — link of the last rank to C01's grey dilation: the gather specification
`C01.dilateSpecAt` over the *reflected* flat element (offsets negated, height 0) reads exactly the
samples `rank_filter` reads in `nearest` mode and takes their maximum.
-/
import Mahotas.Proofs.C07Erode
import Mahotas.Proofs.C01Scatter
namespace Mahotas.C07
open Mahotas

/-- subtracting the reflected offset is adding the offset (any lengths: both truncate alike) -/
theorem subPos_negPos (p k : List Int) : subPos p (negPos k) = addPos p k := by
  induction p generalizing k with
  | nil => cases k <;> simp [subPos, addPos]
  | cons a as ih =>
    cases k with
    | nil => simp [subPos, addPos, negPos]
    | cons b bs =>
      have := ih bs
      unfold negPos at this
      simp only [negPos, List.map_cons, subPos, addPos, this]
      congr 1
      omega

/-- a read inside the box of a completely stored image does not depend on the default value -/
theorem getD_default (f : Img Int) (q : List Int) (hq : inside f.shape q = true)
    (hsz : shapeSize f.shape ≤ f.data.size) (a b : Int) : f.getD q a = f.getD q b := by
  unfold Img.getD
  rw [if_pos hq, if_pos hq]
  have h1 := C01.ravelI_lt f.shape q hq
  have h2 : ravelI f.shape q < f.data.size := by omega
  simp [Array.getD, h2]

/-- C01's gather specification of the dilation by the reflected flat element (offsets `−k`, height 0)
    is the running maximum, from the dtype minimum, of the samples at `clamp(p + k)` -/
theorem dilateSpecAt_flat_reflected (dt : DT) (hb : dt.isBool = false) (hlo : dt.lo ≠ 0) (f : Img Int)
    (hs : ∀ d ∈ f.shape, 0 < d) (hsz : shapeSize f.shape ≤ f.data.size) (fp : List (List Int))
    (hlen : ∀ k ∈ fp, k.length = f.shape.length) (p : List Int) (hp : inside f.shape p = true)
    (hrange : ∀ k ∈ fp, dt.lo ≤ f.getD (clampPos f.shape (addPos p k)) 0 ∧
      f.getD (clampPos f.shape (addPos p k)) 0 ≤ dt.hi) :
    C01.dilateSpecAt dt f (fp.map fun k => (negPos k, 0)) p =
      C01.listMax dt.lo (fp.map fun k => f.getD (clampPos f.shape (addPos p k)) 0) := by
  rw [C01.dilateSpecAt_eq]
  have hfilt : (fp.map fun k => ((negPos k, 0) : List Int × Int)).filter (C01.isMember dt) =
      fp.map fun k => ((negPos k, 0) : List Int × Int) := by
    rw [List.filter_eq_self]
    intro a ha
    obtain ⟨k, _, rfl⟩ := List.mem_map.1 ha
    simp [C01.isMember, hb, Ne.symm hlo]
  rw [hfilt, List.map_map]
  congr 1
  apply List.map_congr_left
  intro k hk
  have hin : inside f.shape (clampPos f.shape (addPos p k)) = true := by
    apply C01.clampPos_inside f.shape _ hs
    rw [C01.addPos_length, C01.inside_length hp, hlen k hk]
    omega
  have hr := hrange k hk
  simp only [Function.comp, C01.gatherVal, subPos_negPos, hb, Bool.false_eq_true, if_false,
    Int.add_zero]
  rw [getD_default f _ hin hsz dt.lo 0]
  by_cases h : f.getD (clampPos f.shape (addPos p k)) 0 = dt.lo
  · rw [if_pos h, h]
  · rw [if_neg h]
    unfold DT.clamp
    omega

end Mahotas.C07
