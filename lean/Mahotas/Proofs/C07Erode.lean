/-
C07, round 2 — link to C01: in `nearest` mode every sample exists and is read at the clamped position;
a running minimum started at an upper bound is the minimum.
-/
import Mahotas.Proofs.C07Order
import Mahotas.Model.C01
namespace Mahotas.C07
open Mahotas

theorem specPos_nearest (s : List Nat) (p : List Int) : specPos .nearest s p = some (clampPos s p) := by
  induction s generalizing p with
  | nil => cases p <;> simp [specPos, clampPos]
  | cons d ds ih =>
    cases p with
    | nil => simp [specPos, clampPos]
    | cons x xs => simp [specPos, clampPos, borderSpec, ih xs]

theorem specSamples_nearest (f : Img Int) (fp : List (List Int)) (p : List Int) :
    specSamples .nearest f fp p = fp.map fun k => f.getD (clampPos f.shape (addPos p k)) 0 := by
  unfold specSamples
  induction fp with
  | nil => rfl
  | cons k t ih => simp [specPos_nearest]

/-- running minimum from `hi` over values bounded by `hi`: a lower bound that is attained -/
theorem foldl_min_spec (g : List Int → Int) (l : List (List Int)) (v0 : Int) :
    (∀ k ∈ l, l.foldl (fun v k => min v (g k)) v0 ≤ g k) ∧ l.foldl (fun v k => min v (g k)) v0 ≤ v0 ∧
    (l.foldl (fun v k => min v (g k)) v0 = v0 ∨ ∃ k ∈ l, l.foldl (fun v k => min v (g k)) v0 = g k) := by
  induction l generalizing v0 with
  | nil => simp
  | cons a t ih =>
    simp only [List.foldl_cons]
    obtain ⟨h1, h2, h3⟩ := ih (min v0 (g a))
    refine ⟨?_, ?_, ?_⟩
    · intro k hk
      rcases List.mem_cons.1 hk with rfl | hk
      · omega
      · exact h1 k hk
    · omega
    · rcases h3 with h | ⟨k, hk, h⟩
      · rcases Int.le_total v0 (g a) with hle | hle
        · left; rw [h]; omega
        · right; exact ⟨a, by simp, by rw [h]; omega⟩
      · right; exact ⟨k, by simp [hk], h⟩
end Mahotas.C07
