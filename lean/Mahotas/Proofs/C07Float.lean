/-
Helper lemmas for C07 (round 4): `template_match<T>` for floating `T`.

`tmAtG` (Model/C07.lean) is the kernel written once, generic in the arithmetic of `T`; the driver runs it with binary64 /
binary32 operations. Here it is instantiated
* with the integer operations: `tmAtG intTmOps = tmAt` (the exact model of rounds 1–3 is an instance);
* with rounded rational operations `rnd (a ∘ b)` for any `rnd` satisfying the `Rounding` interface of
  `Proofs/C05Abscissa.lean` (binary64 `roundTiesToEven` is one, `rne53_rounding`): on integer-valued data whose exact
  sum of squared differences is at most `2^53` no operation rounds — `tmAtG (ratTmOps rnd) = tmAt` (`tmAtG_rat_exact`).
-/
import Mahotas.Model.C07
import Mahotas.Proofs.C05Abscissa
import Mathlib.Tactic.Linarith
import Mathlib.Tactic.Positivity
import Mathlib.Tactic.Push

set_option linter.unusedVariables false
set_option linter.unusedSimpArgs false
namespace Mahotas.C07
open Mahotas Mahotas.C05

/-- `T`'s operations over ℚ, every result rounded by `rnd`; comparisons are exact -/
def ratTmOps (rnd : ℚ → ℚ) : TmOps ℚ :=
  ⟨0, fun a b => rnd (a - b), fun a b => rnd (a * b), fun a b => rnd (a + b), fun a b => decide (a > b)⟩

/-- an integer image read as a rational one -/
def castImg (f : Img Int) : Img ℚ := { shape := f.shape, data := f.data.map fun (x : Int) => (x : ℚ) }

def castArr (t : Array Int) : Array ℚ := t.map fun (x : Int) => (x : ℚ)

theorem getD_castArr (a : Array Int) (i : Nat) : (castArr a).getD i 0 = ((a.getD i 0 : ℤ) : ℚ) := by
  unfold castArr
  by_cases h : i < a.size
  · simp [Array.getD, h]
  · simp [Array.getD, h]

theorem getD_castImg (f : Img Int) (q : List Int) : (castImg f).getD q 0 = ((f.getD q 0 : ℤ) : ℚ) := by
  unfold Img.getD castImg
  by_cases h : inside f.shape q = true
  · simp only [h, if_true]
    exact getD_castArr f.data _
  · simp only [h]
    simp

/-- the integer operations give back the exact model -/
theorem tmAtG_int (m : Mode) (f : Img Int) (tshape : List Nat) (t : Array Int) (p : List Int) :
    tmAtG intTmOps m f tshape t p = tmAt m f tshape t p := by
  unfold tmAtG tmAt intTmOps
  simp only [decide_eq_true_eq]

/-- one accumulation step of the integer kernel -/
def tmStepZ (m : Mode) (f : Img Int) (tshape : List Nat) (t : Array Int) (p : List Int) (diff2 : Int) (j : Nat) : Int :=
  match fixPos m f.shape (addPos p (offsetOf tshape j)) with
  | some q =>
    let val := f.getD q 0
    let tj := t.getD j 0
    let delta := if val > tj then val - tj else tj - val
    diff2 + delta * delta
  | none => diff2

theorem tmAt_eq_fold (m : Mode) (f : Img Int) (tshape : List Nat) (t : Array Int) (p : List Int) :
    tmAt m f tshape t p = (List.range (shapeSize tshape)).foldl (tmStepZ m f tshape t p) 0 := rfl

theorem tmStepZ_ge (m : Mode) (f : Img Int) (tshape : List Nat) (t : Array Int) (p : List Int) (acc : Int) (j : Nat) :
    acc ≤ tmStepZ m f tshape t p acc j := by
  unfold tmStepZ
  cases fixPos m f.shape (addPos p (offsetOf tshape j)) with
  | none => exact le_refl _
  | some q =>
    simp only
    have := mul_self_nonneg (if f.getD q 0 > t.getD j 0 then f.getD q 0 - t.getD j 0 else t.getD j 0 - f.getD q 0)
    linarith

theorem tmFoldZ_ge (m : Mode) (f : Img Int) (tshape : List Nat) (t : Array Int) (p : List Int) (l : List Nat) (acc : Int) :
    acc ≤ l.foldl (tmStepZ m f tshape t p) acc := by
  induction l generalizing acc with
  | nil => exact le_refl _
  | cons j l ih => exact le_trans (tmStepZ_ge m f tshape t p acc j) (ih _)

theorem abs_le_sq (d : ℤ) : |d| ≤ d * d := by
  rcases abs_cases d with ⟨h, h0⟩ | ⟨h, h0⟩ <;> rw [h] <;> nlinarith

theorem rnd_int (rnd : ℚ → ℚ) (hr : Rounding rnd) (k : ℤ) (hk : |k| ≤ 2 ^ 53) : rnd (k : ℚ) = (k : ℚ) := by
  apply hr.exact_int
  have : ((|k| : ℤ) : ℚ) ≤ 2 ^ 53 := by exact_mod_cast hk
  rwa [Int.cast_abs] at this

/-- one step in rounded arithmetic on integer data is exact as long as the new partial sum is at most `2^53` -/
theorem tm_step_exact (rnd : ℚ → ℚ) (hr : Rounding rnd) (acc val tj : ℤ) (h0 : 0 ≤ acc)
    (hb : acc + (if val > tj then val - tj else tj - val) * (if val > tj then val - tj else tj - val) ≤ 2 ^ 53) :
    rnd ((acc : ℚ) + rnd ((if decide ((val : ℚ) > tj) = true then rnd ((val : ℚ) - tj) else rnd ((tj : ℚ) - val)) *
        (if decide ((val : ℚ) > tj) = true then rnd ((val : ℚ) - tj) else rnd ((tj : ℚ) - val)))) =
      ((acc + (if val > tj then val - tj else tj - val) * (if val > tj then val - tj else tj - val) : ℤ) : ℚ) := by
  set d : ℤ := if val > tj then val - tj else tj - val with hd
  have hsq : 0 ≤ d * d := mul_self_nonneg d
  have hdd : d * d ≤ 2 ^ 53 := by linarith
  have habs : |d| ≤ 2 ^ 53 := le_trans (abs_le_sq d) hdd
  have e1 : (if decide ((val : ℚ) > tj) = true then rnd ((val : ℚ) - tj) else rnd ((tj : ℚ) - val)) = (d : ℚ) := by
    by_cases h : val > tj
    · have hq : (val : ℚ) > tj := by exact_mod_cast h
      rw [if_pos (by simpa using hq)]
      have : d = val - tj := by rw [hd, if_pos h]
      rw [this] at habs ⊢
      have := rnd_int rnd hr (val - tj) habs
      push_cast at this ⊢; exact this
    · have hq : ¬ (val : ℚ) > tj := by exact_mod_cast h
      rw [if_neg (by simpa using hq)]
      have : d = tj - val := by rw [hd, if_neg h]
      rw [this] at habs ⊢
      have := rnd_int rnd hr (tj - val) habs
      push_cast at this ⊢; exact this
  rw [e1]
  have e2 : rnd ((d : ℚ) * d) = ((d * d : ℤ) : ℚ) := by
    have := rnd_int rnd hr (d * d) (by rw [abs_of_nonneg hsq]; exact hdd)
    push_cast at this ⊢; exact this
  rw [e2]
  have e3 := rnd_int rnd hr (acc + d * d) (by rw [abs_of_nonneg (by linarith)]; exact hb)
  push_cast at e3 ⊢; exact e3

/-- one accumulation step of the rounded kernel on the cast data -/
def tmStepQ (rnd : ℚ → ℚ) (m : Mode) (f : Img Int) (tshape : List Nat) (t : Array Int) (p : List Int) (diff2 : ℚ)
    (j : Nat) : ℚ :=
  match fixPos m (castImg f).shape (addPos p (offsetOf tshape j)) with
  | some q =>
    let val := (castImg f).getD q (ratTmOps rnd).zero
    let tj := (castArr t).getD j (ratTmOps rnd).zero
    let delta := if (ratTmOps rnd).gt val tj then (ratTmOps rnd).sub val tj else (ratTmOps rnd).sub tj val
    (ratTmOps rnd).add diff2 ((ratTmOps rnd).mul delta delta)
  | none => diff2

theorem tmFold_exact (rnd : ℚ → ℚ) (hr : Rounding rnd) (m : Mode) (f : Img Int) (tshape : List Nat) (t : Array Int)
    (p : List Int) (l : List Nat) (acc : Int) (h0 : 0 ≤ acc)
    (hb : l.foldl (tmStepZ m f tshape t p) acc ≤ 2 ^ 53) :
    l.foldl (tmStepQ rnd m f tshape t p) (acc : ℚ) = ((l.foldl (tmStepZ m f tshape t p) acc : ℤ) : ℚ) := by
  induction l generalizing acc with
  | nil => rfl
  | cons j l ih =>
    simp only [List.foldl_cons] at hb ⊢
    have hstep_le : tmStepZ m f tshape t p acc j ≤ 2 ^ 53 :=
      le_trans (tmFoldZ_ge m f tshape t p l _) hb
    have hstep_ge : 0 ≤ tmStepZ m f tshape t p acc j := le_trans h0 (tmStepZ_ge m f tshape t p acc j)
    have hstep : tmStepQ rnd m f tshape t p (acc : ℚ) j = ((tmStepZ m f tshape t p acc j : ℤ) : ℚ) := by
      unfold tmStepQ tmStepZ at *
      have hshape : (castImg f).shape = f.shape := rfl
      rw [hshape]
      cases hfix : fixPos m f.shape (addPos p (offsetOf tshape j)) with
      | none => rfl
      | some q =>
        rw [hfix] at hstep_le
        simp only at hstep_le ⊢
        show rnd ((acc : ℚ) + rnd ((if decide ((castImg f).getD q 0 > (castArr t).getD j 0) = true then
            rnd ((castImg f).getD q 0 - (castArr t).getD j 0) else rnd ((castArr t).getD j 0 - (castImg f).getD q 0)) *
          (if decide ((castImg f).getD q 0 > (castArr t).getD j 0) = true then
            rnd ((castImg f).getD q 0 - (castArr t).getD j 0) else rnd ((castArr t).getD j 0 - (castImg f).getD q 0)))) = _
        rw [getD_castImg, getD_castArr]
        exact tm_step_exact rnd hr acc (f.getD q 0) (t.getD j 0) h0 hstep_le
    rw [hstep]
    exact ih _ hstep_ge hb

/-- **`template_match<double>` on integer-valued data is exact** while the sum of squared differences is at most
    `2^53`: the kernel run in rounded arithmetic returns the exact integer of `tmAt`. -/
theorem tmAtG_rat_exact (rnd : ℚ → ℚ) (hr : Rounding rnd) (m : Mode) (f : Img Int) (tshape : List Nat) (t : Array Int)
    (p : List Int) (hb : tmAt m f tshape t p ≤ 2 ^ 53) :
    tmAtG (ratTmOps rnd) m (castImg f) tshape (castArr t) p = ((tmAt m f tshape t p : ℤ) : ℚ) := by
  rw [tmAt_eq_fold] at hb ⊢
  have := tmFold_exact rnd hr m f tshape t p (List.range (shapeSize tshape)) 0 (le_refl _) hb
  rw [← this]
  rfl

end Mahotas.C07
