/-
Helper lemmas for C07 (round 4): forward error bound of `template_match<T>` in a rounded arithmetic.

With `u = 2^-53` and `N` template entries: `(1−u)^(N+3) · S ≤ computed ≤ (1+u)^(N+3) · S`, `S` the exact sum of
squared differences of the same (rational) data. Every term is non-negative, so the bound is relative to `S` itself:
the difference is rounded once (factor `1±u`), squared (two factors), the product rounded (third factor), and each of
the at most `N` additions rounds once more.
-/
import Mahotas.Proofs.C07Float
import Mathlib.Tactic.Linarith
import Mathlib.Tactic.Positivity
import Mathlib.Tactic.Ring
import Mathlib.Tactic.NormNum

set_option linter.unusedVariables false
set_option linter.unusedSimpArgs false
namespace Mahotas.C07
open Mahotas Mahotas.C05

/-- exact rational operations -/
def exactTmOps : TmOps ℚ := ⟨0, (· - ·), (· * ·), (· + ·), fun a b => decide (a > b)⟩

/-- the unit roundoff of binary64 -/
def uRnd : ℚ := 1 / 2 ^ 53

theorem uRnd_pos : 0 < uRnd := by unfold uRnd; positivity
theorem uRnd_lt_one : uRnd < 1 := by unfold uRnd; norm_num

theorem rnd_bounds (rnd : ℚ → ℚ) (u : ℚ) (hu0 : 0 < u) (hu1' : u < 1) (hrel : ∀ x : ℚ, |rnd x - x| ≤ |x| * u)
    (x : ℚ) (hx : 0 ≤ x) : x * (1 - u) ≤ rnd x ∧ rnd x ≤ x * (1 + u) := by
  have h := hrel x
  rw [abs_of_nonneg hx] at h
  have h2 := abs_le.1 h
  constructor <;> [linarith [h2.1]; linarith [h2.2]]

/-- one step of the kernel, as a function of the accumulator (the body of the fold in `tmAtG`) -/
def tmStepG {α : Type} (o : TmOps α) (m : Mode) (f : Img α) (tshape : List Nat) (t : Array α) (p : List Int)
    (diff2 : α) (j : Nat) : α :=
  match fixPos m f.shape (addPos p (offsetOf tshape j)) with
  | some q =>
    let val := f.getD q o.zero
    let tj := t.getD j o.zero
    let delta := if o.gt val tj then o.sub val tj else o.sub tj val
    o.add diff2 (o.mul delta delta)
  | none => diff2

theorem tmAtG_eq_fold {α : Type} (o : TmOps α) (m : Mode) (f : Img α) (tshape : List Nat) (t : Array α) (p : List Int) :
    tmAtG o m f tshape t p = (List.range (shapeSize tshape)).foldl (tmStepG o m f tshape t p) o.zero := rfl

/-- the invariant: exact partial sum `S ≥ 0`, computed partial sum between `a·S` and `b·S` -/
def TmInv (a b S s : ℚ) : Prop := 0 ≤ S ∧ a * S ≤ s ∧ s ≤ b * S

theorem tm_step_bound (rnd : ℚ → ℚ) (u : ℚ) (hu0 : 0 < u) (hu1' : u < 1) (hrel : ∀ x : ℚ, |rnd x - x| ≤ |x| * u) (a b S s d : ℚ)
    (ha0 : 0 ≤ a) (ha : a ≤ (1 - u) ^ 3) (hb : (1 + u) ^ 3 ≤ b) (hd : 0 ≤ d) (hI : TmInv a b S s) :
    TmInv (a * (1 - u)) (b * (1 + u)) (S + d * d) (rnd (s + rnd (rnd d * rnd d))) := by
  obtain ⟨hS, hlo, hhi⟩ := hI
  have hu := hu0
  have hu1 := hu1'
  set lo := 1 - u with hlo_def
  set hi := 1 + u with hhi_def
  have hlo0 : 0 < lo := by rw [hlo_def]; linarith
  have hlo1 : lo ≤ 1 := by rw [hlo_def]; linarith
  have hhi1 : 1 ≤ hi := by rw [hhi_def]; linarith
  have hhi0 : 0 < hi := by linarith
  -- the rounded difference
  obtain ⟨d1, d2⟩ := rnd_bounds rnd u hu0 hu1' hrel d hd
  have hdh0 : 0 ≤ rnd d := le_trans (mul_nonneg hd hlo0.le) d1
  -- its square
  have p1 : (d * lo) * (d * lo) ≤ rnd d * rnd d := mul_le_mul d1 d1 (mul_nonneg hd hlo0.le) hdh0
  have p2 : rnd d * rnd d ≤ (d * hi) * (d * hi) := mul_le_mul d2 d2 hdh0 (mul_nonneg hd hhi0.le)
  have hp0 : 0 ≤ rnd d * rnd d := mul_nonneg hdh0 hdh0
  obtain ⟨q1, q2⟩ := rnd_bounds rnd u hu0 hu1' hrel (rnd d * rnd d) hp0
  have hq1 : d * d * lo ^ 3 ≤ rnd (rnd d * rnd d) := by
    have : d * d * lo ^ 3 = (d * lo) * (d * lo) * lo := by ring
    rw [this]
    exact le_trans (mul_le_mul_of_nonneg_right p1 hlo0.le) q1
  have hq2 : rnd (rnd d * rnd d) ≤ d * d * hi ^ 3 := by
    have : d * d * hi ^ 3 = (d * hi) * (d * hi) * hi := by ring
    rw [this]
    exact le_trans q2 (mul_le_mul_of_nonneg_right p2 hhi0.le)
  have hdd : 0 ≤ d * d := mul_nonneg hd hd
  -- the sum before rounding
  have hs_lo : a * (S + d * d) ≤ s + rnd (rnd d * rnd d) := by
    have : a * (d * d) ≤ d * d * lo ^ 3 := by
      rw [mul_comm a]; exact mul_le_mul_of_nonneg_left ha hdd
    nlinarith
  have hs_hi : s + rnd (rnd d * rnd d) ≤ b * (S + d * d) := by
    have : d * d * hi ^ 3 ≤ b * (d * d) := by
      rw [mul_comm b]; exact mul_le_mul_of_nonneg_left hb hdd
    nlinarith
  have hsum0 : 0 ≤ s + rnd (rnd d * rnd d) := le_trans (mul_nonneg ha0 (by linarith)) hs_lo
  obtain ⟨r1, r2⟩ := rnd_bounds rnd u hu0 hu1' hrel _ hsum0
  refine ⟨by linarith, ?_, ?_⟩
  · calc a * lo * (S + d * d) = a * (S + d * d) * lo := by ring
      _ ≤ (s + rnd (rnd d * rnd d)) * lo := mul_le_mul_of_nonneg_right hs_lo hlo0.le
      _ ≤ _ := r1
  · calc rnd (s + rnd (rnd d * rnd d)) ≤ (s + rnd (rnd d * rnd d)) * hi := r2
      _ ≤ b * (S + d * d) * hi := mul_le_mul_of_nonneg_right hs_hi hhi0.le
      _ = b * hi * (S + d * d) := by ring

theorem tm_skip_bound (u : ℚ) (hu0 : 0 < u) (a b S s : ℚ) (ha0 : 0 ≤ a) (hb0 : 0 ≤ b) (hI : TmInv a b S s) :
    TmInv (a * (1 - u)) (b * (1 + u)) S s := by
  obtain ⟨hS, hlo, hhi⟩ := hI
  have hu := hu0
  refine ⟨hS, ?_, ?_⟩
  · have : a * (1 - u) * S ≤ a * S := by
      have : a * (1 - u) ≤ a := by nlinarith
      exact mul_le_mul_of_nonneg_right this hS
    linarith
  · have : b * S ≤ b * (1 + u) * S := by
      have : b ≤ b * (1 + u) := by nlinarith
      exact mul_le_mul_of_nonneg_right this hS
    linarith

/-- one step of both kernels keeps the invariant, with one more factor -/
theorem tm_stepG_bound (rnd : ℚ → ℚ) (u : ℚ) (hu0 : 0 < u) (hu1' : u < 1) (hrel : ∀ x : ℚ, |rnd x - x| ≤ |x| * u) (m : Mode) (f : Img ℚ) (tshape : List Nat) (t : Array ℚ)
    (p : List Int) (j : Nat) (a b S s : ℚ)
    (ha0 : 0 ≤ a) (ha : a ≤ (1 - u) ^ 3) (hb : (1 + u) ^ 3 ≤ b) (hI : TmInv a b S s) :
    TmInv (a * (1 - u)) (b * (1 + u)) (tmStepG exactTmOps m f tshape t p S j)
      (tmStepG (ratTmOps rnd) m f tshape t p s j) := by
  have hu := hu0
  have hb0 : 0 ≤ b := le_trans (by positivity) hb
  unfold tmStepG
  cases fixPos m f.shape (addPos p (offsetOf tshape j)) with
  | none => exact tm_skip_bound u hu0 a b S s ha0 hb0 hI
  | some q =>
    simp only [exactTmOps, ratTmOps]
    by_cases hgt : f.getD q 0 > t.getD j 0
    · simp only [hgt, decide_true, if_true]
      exact tm_step_bound rnd u hu0 hu1' hrel a b S s _ ha0 ha hb (by linarith) hI
    · simp only [hgt, decide_false, Bool.false_eq_true, if_false]
      exact tm_step_bound rnd u hu0 hu1' hrel a b S s _ ha0 ha hb (by linarith [not_lt.1 hgt]) hI

theorem tm_foldG_bound (rnd : ℚ → ℚ) (u : ℚ) (hu0 : 0 < u) (hu1' : u < 1) (hrel : ∀ x : ℚ, |rnd x - x| ≤ |x| * u) (m : Mode) (f : Img ℚ) (tshape : List Nat) (t : Array ℚ)
    (p : List Int) (l : List Nat) (a b S s : ℚ)
    (ha0 : 0 ≤ a) (ha : a ≤ (1 - u) ^ 3) (hb : (1 + u) ^ 3 ≤ b) (hI : TmInv a b S s) :
    TmInv (a * (1 - u) ^ l.length) (b * (1 + u) ^ l.length)
      (l.foldl (tmStepG exactTmOps m f tshape t p) S) (l.foldl (tmStepG (ratTmOps rnd) m f tshape t p) s) := by
  have hu := hu0
  have hu1 := hu1'
  induction l generalizing a b S s with
  | nil => simpa using hI
  | cons j l ih =>
    simp only [List.foldl_cons, List.length_cons]
    have hstep := tm_stepG_bound rnd u hu0 hu1' hrel m f tshape t p j a b S s ha0 ha hb hI
    have ha0' : 0 ≤ a * (1 - u) := mul_nonneg ha0 (by linarith)
    have ha' : a * (1 - u) ≤ (1 - u) ^ 3 := by
      have : a * (1 - u) ≤ a := by nlinarith
      linarith
    have hb' : (1 + u) ^ 3 ≤ b * (1 + u) := by
      have hb0 : 0 ≤ b := le_trans (by positivity) hb
      have : b ≤ b * (1 + u) := by nlinarith
      linarith
    have := ih (a * (1 - u)) (b * (1 + u)) _ _ ha0' ha' hb' hstep
    rw [pow_succ, pow_succ]
    have e1 : a * ((1 - u) ^ l.length * (1 - u)) = a * (1 - u) * (1 - u) ^ l.length := by ring
    have e2 : b * ((1 + u) ^ l.length * (1 + u)) = b * (1 + u) * (1 + u) ^ l.length := by ring
    rw [e1, e2]
    exact this

/-- **Forward error bound of `template_match<T>`** for a rounding with relative error at most `u`
    (`u = 2^-53` for binary64, `2^-24` for binary32). -/
theorem tmAtG_rat_bound_u (rnd : ℚ → ℚ) (u : ℚ) (hu0 : 0 < u) (hu1' : u < 1) (hrel : ∀ x : ℚ, |rnd x - x| ≤ |x| * u) (m : Mode) (f : Img ℚ) (tshape : List Nat) (t : Array ℚ)
    (p : List Int) :
    0 ≤ tmAtG exactTmOps m f tshape t p ∧
    (1 - u) ^ (shapeSize tshape + 3) * tmAtG exactTmOps m f tshape t p ≤ tmAtG (ratTmOps rnd) m f tshape t p ∧
    tmAtG (ratTmOps rnd) m f tshape t p ≤ (1 + u) ^ (shapeSize tshape + 3) * tmAtG exactTmOps m f tshape t p := by
  have hu := hu0
  have hu1 := hu1'
  rw [tmAtG_eq_fold, tmAtG_eq_fold]
  have h0 : TmInv ((1 - u) ^ 3) ((1 + u) ^ 3) (0 : ℚ) (0 : ℚ) := ⟨le_refl _, by simp, by simp⟩
  have := tm_foldG_bound rnd u hu0 hu1' hrel m f tshape t p (List.range (shapeSize tshape)) _ _ 0 0
    (by have : (0 : ℚ) ≤ 1 - u := by linarith
        positivity) (le_refl _) (le_refl _) h0
  rw [List.length_range, ← pow_add, ← pow_add, Nat.add_comm 3] at this
  exact this

theorem rel_of_rounding (rnd : ℚ → ℚ) (hr : Rounding rnd) : ∀ x : ℚ, |rnd x - x| ≤ |x| * uRnd := by
  intro x
  have := hr.rel x
  unfold uRnd
  rw [mul_one_div]; exact this

/-- **Forward error bound of `template_match<double>`** (`u = 2^-53`). -/
theorem tmAtG_rat_bound (rnd : ℚ → ℚ) (hr : Rounding rnd) (m : Mode) (f : Img ℚ) (tshape : List Nat) (t : Array ℚ)
    (p : List Int) :
    0 ≤ tmAtG exactTmOps m f tshape t p ∧
    (1 - uRnd) ^ (shapeSize tshape + 3) * tmAtG exactTmOps m f tshape t p ≤ tmAtG (ratTmOps rnd) m f tshape t p ∧
    tmAtG (ratTmOps rnd) m f tshape t p ≤ (1 + uRnd) ^ (shapeSize tshape + 3) * tmAtG exactTmOps m f tshape t p :=
  tmAtG_rat_bound_u rnd uRnd uRnd_pos uRnd_lt_one (rel_of_rounding rnd hr) m f tshape t p

end Mahotas.C07
