/-
Helper lemmas for C07 (round 4): the rank filter only compares — it commutes with every strictly increasing
re-encoding of the values that fixes 0 (`0` is the `cval` of `constant` mode and the default of a read).
This is what lets the harness feed float images to the integer model through an order embedding
(`x ↦ 4x` for quarter-integers, `x ↦ sign(x)·bits(|x|)` for arbitrary finite floats and ±inf).
-/
import Mahotas.Proofs.C07Order
import Mathlib.Order.Monotone.Basic

set_option linter.unusedVariables false
set_option linter.unusedSimpArgs false
namespace Mahotas.C07
open Mahotas

/-- re-encode the stored values -/
def mapImg (g : Int → Int) (f : Img Int) : Img Int := { shape := f.shape, data := f.data.map g }

theorem getD_mapImg (g : Int → Int) (h0 : g 0 = 0) (f : Img Int) (q : List Int) :
    (mapImg g f).getD q 0 = g (f.getD q 0) := by
  unfold Img.getD mapImg
  by_cases h : inside f.shape q = true
  · simp only [h, if_true]
    by_cases hi : ravelI f.shape q < f.data.size
    · simp [Array.getD, hi]
    · simp [Array.getD, hi, h0]
  · simp only [h]
    simp [h0]

theorem gather_mapImg (g : Int → Int) (h0 : g 0 = 0) (m : Mode) (f : Img Int) (fp : List (List Int)) (p : List Int) :
    gather m (mapImg g f) fp p = (gather m f fp p).map g := by
  unfold gather
  rw [List.map_filterMap]
  congr 1
  funext k
  have hshape : (mapImg g f).shape = f.shape := rfl
  rw [hshape]
  cases fixPos m f.shape (addPos p k) with
  | some q => simp [getD_mapImg g h0]
  | none => by_cases hm : m = .constant <;> simp [hm, h0]

theorem countP_map_lt (g : Int → Int) (hg : StrictMono g) (xs : List Int) (v : Int) :
    (xs.map g).countP (fun x => decide (x < g v)) = xs.countP (fun x => decide (x < v)) := by
  rw [List.countP_map]
  congr 1
  funext x
  simp [hg.lt_iff_lt]

theorem countP_map_le (g : Int → Int) (hg : StrictMono g) (xs : List Int) (v : Int) :
    (xs.map g).countP (fun x => decide (x ≤ g v)) = xs.countP (fun x => decide (x ≤ v)) := by
  rw [List.countP_map]
  congr 1
  funext x
  simp [hg.le_iff_le]

theorem isKth_map (g : Int → Int) (hg : StrictMono g) (xs : List Int) (k : Nat) (v : Int)
    (h : IsKthSmallest xs k v) : IsKthSmallest (xs.map g) k (g v) := by
  obtain ⟨hm, h1, h2⟩ := h
  refine ⟨List.mem_map_of_mem hm, ?_, ?_⟩
  · rw [countP_map_lt g hg]; exact h1
  · rw [countP_map_le g hg]; exact h2

/-- `nth_element` commutes with a strictly increasing re-encoding -/
theorem nthElement_map (g : Int → Int) (hg : StrictMono g) (xs : List Int) (k : Nat) :
    nthElement (xs.map g) k = (nthElement xs k).map g := by
  by_cases hk : k < xs.length
  · obtain ⟨v, hv, hkth⟩ := nthElement_isKth xs k hk
    obtain ⟨v', hv', hkth'⟩ := nthElement_isKth (xs.map g) k (by simpa using hk)
    have := isKth_unique _ _ _ _ hkth' (isKth_map g hg xs k v hkth)
    rw [hv, hv', this]; rfl
  · rw [nthElement_none xs k (by omega), nthElement_none (xs.map g) k (by simpa using Nat.le_of_not_lt hk)]
    rfl

/-- **the rank filter commutes with every strictly increasing re-encoding of the values that fixes 0** -/
theorem rankAt_mapImg (g : Int → Int) (hg : StrictMono g) (h0 : g 0 = 0) (m : Mode) (f : Img Int)
    (fp : List (List Int)) (rank : Int) (p : List Int) :
    rankAt m (mapImg g f) fp rank p = (rankAt m f fp rank p).map g := by
  unfold rankAt
  by_cases h : rank < 0 ∨ rank ≥ (fp.length : Int)
  · rw [if_pos h, if_pos h]; rfl
  · rw [if_neg h, if_neg h]
    simp only
    rw [gather_mapImg g h0, List.length_map, nthElement_map g hg]

end Mahotas.C07
