/-
Helper lemmas for C07 (round 4): `majority_filter` (`_morph.cpp: py_majority_filter`).
`majorityMarks` (the loops as written) marks exactly the pixels of the closed form `majoritySpecB`.
-/
import Mahotas.Model.C07
import Mathlib.Data.List.Basic

set_option linter.unusedVariables false
namespace Mahotas.C07
open Mahotas

theorem mem_majorityMarks (f : Img Int) (rows cols N Y X : Nat) (hf : f.shape = [rows, cols]) :
    (Y, X) ∈ majorityMarks f N ↔
      (N / 2 ≤ Y ∧ Y - N / 2 + N < rows ∧ N / 2 ≤ X ∧ X - N / 2 + N < cols ∧
        N * N / 2 ≤ windowCount f N (Y - N / 2) (X - N / 2)) := by
  unfold majorityMarks
  rw [hf]
  simp only
  by_cases hsmall : rows < N ∨ cols < N
  · rw [if_pos hsmall]
    constructor
    · intro h; simp at h
    · rintro ⟨_, h2, _, h4, _⟩; omega
  · rw [if_neg hsmall]
    simp only [List.mem_flatMap, List.mem_map, List.mem_filter, List.mem_range, decide_eq_true_eq, Prod.mk.injEq]
    constructor
    · rintro ⟨y, hy, x, ⟨hx, hc⟩, rfl, rfl⟩
      refine ⟨by omega, by omega, by omega, by omega, ?_⟩
      simpa using hc
    · rintro ⟨h1, h2, h3, h4, h5⟩
      exact ⟨Y - N / 2, by omega, X - N / 2, ⟨by omega, h5⟩, by omega, by omega⟩

theorem majoritySpecB_iff (f : Img Int) (rows cols N Y X : Nat) (hf : f.shape = [rows, cols]) :
    majoritySpecB f N Y X = true ↔
      (N / 2 ≤ Y ∧ Y - N / 2 + N < rows ∧ N / 2 ≤ X ∧ X - N / 2 + N < cols ∧
        N * N / 2 ≤ windowCount f N (Y - N / 2) (X - N / 2)) := by
  unfold majoritySpecB
  rw [hf]
  simp only [Bool.and_eq_true, decide_eq_true_eq]
  tauto

/-- a window inside the image counts at most `N·N` pixels -/
theorem windowCount_le (f : Img Int) (N y x : Nat) : windowCount f N y x ≤ N * N := by
  unfold windowCount
  have h : ∀ (l : List Nat) (g : Nat → Nat), (∀ a ∈ l, g a ≤ N) → (l.map g).sum ≤ l.length * N := by
    intro l g hg
    induction l with
    | nil => simp
    | cons a l ih =>
      simp only [List.map_cons, List.sum_cons, List.length_cons]
      have := hg a (by simp)
      have := ih (fun b hb => hg b (by simp [hb]))
      rw [Nat.succ_mul]; omega
  have := h (List.range N) (fun dy => ((List.range N).filter fun dx =>
    f.getD [((y + dy : Nat) : Int), ((x + dx : Nat) : Int)] 0 != 0).length) (fun a _ => by
      have := List.length_filter_le (fun dx => f.getD [((y + a : Nat) : Int), ((x + dx : Nat) : Int)] 0 != 0) (List.range N)
      simpa using this)
  simpa using this

end Mahotas.C07
