/-
Helper lemmas for C07 (round 4): `mean_filter<T>` in a rounded arithmetic.

`meanAtG` (Model/C07.lean) is the kernel generic in the arithmetic (`double sum = 0; sum += val; … sum / n`).
* at `Int` the gathered samples are those of `gather` (`gatherG_int`), so `meanParts` are its sum and count;
* with rounded rational operations on integer-valued data whose magnitudes sum to at most `2^53`, every addition is
  exact and the result is the single rounding of the exact quotient: `rnd (sum / n)` (`meanAtG_rat_exact`) — the
  "correctly rounded exact mean" the harness compares with.
-/
import Mahotas.Proofs.C07Float
import Mathlib.Tactic.Linarith
import Mathlib.Tactic.Positivity
import Mathlib.Tactic.Push
import Mathlib.Tactic.Ring
import Mathlib.Tactic.FieldSimp

set_option linter.unusedVariables false
set_option linter.unusedSimpArgs false
namespace Mahotas.C07
open Mahotas Mahotas.C05

/-- the double operations over ℚ, every result rounded -/
def ratMeanOps (rnd : ℚ → ℚ) : MeanOps ℚ :=
  ⟨0, fun a b => rnd (a + b), fun a b => rnd (a / b), fun n => rnd (n : ℚ)⟩

theorem gatherG_int (m : Mode) (f : Img Int) (fp : List (List Int)) (p : List Int) :
    gatherG 0 m f fp p = gather m f fp p := rfl

theorem gatherG_cast (m : Mode) (f : Img Int) (fp : List (List Int)) (p : List Int) :
    gatherG (0 : ℚ) m (castImg f) fp p = (gather m f fp p).map fun (x : Int) => (x : ℚ) := by
  unfold gatherG gather
  rw [List.map_filterMap]
  congr 1
  funext k
  have hshape : (castImg f).shape = f.shape := rfl
  rw [hshape]
  cases fixPos m f.shape (addPos p k) with
  | some q => simp [getD_castImg]
  | none => by_cases hm : m = .constant <;> simp [hm]

/-- sum of the magnitudes -/
def absSum (xs : List Int) : Int := (xs.map fun x => |x|).sum

theorem absSum_cons (x : Int) (xs : List Int) : absSum (x :: xs) = |x| + absSum xs := by
  unfold absSum; simp

theorem absSum_nonneg (xs : List Int) : 0 ≤ absSum xs := by
  induction xs with
  | nil => simp [absSum]
  | cons x xs ih => rw [absSum_cons]; have := abs_nonneg x; linarith

/-- adding integers in rounded arithmetic is exact while the magnitudes sum to at most `2^53` -/
theorem foldl_rnd_add_exact (rnd : ℚ → ℚ) (hr : Rounding rnd) (xs : List Int) (acc : Int)
    (hb : |acc| + absSum xs ≤ 2 ^ 53) :
    (xs.map fun (x : Int) => (x : ℚ)).foldl (fun a b => rnd (a + b)) (acc : ℚ) = ((xs.foldl (· + ·) acc : Int) : ℚ) := by
  induction xs generalizing acc with
  | nil => rfl
  | cons x xs ih =>
    rw [absSum_cons] at hb
    simp only [List.map_cons, List.foldl_cons]
    have hax : |acc + x| ≤ |acc| + |x| := abs_add_le acc x
    have hn := absSum_nonneg xs
    have e : rnd ((acc : ℚ) + (x : ℚ)) = ((acc + x : Int) : ℚ) := by
      have := rnd_int rnd hr (acc + x) (by linarith)
      push_cast at this ⊢; exact this
    rw [e]
    exact ih (acc + x) (by linarith)

theorem length_le_of_pos (n : Nat) (h : (n : Int) ≤ 2 ^ 53) : |((n : Int) : ℚ)| ≤ 2 ^ 53 := by
  rw [abs_of_nonneg (by positivity)]
  exact_mod_cast h

/-- **`mean_filter` on integer-valued data is the correctly rounded exact mean** while the magnitudes of the samples
    sum to at most `2^53` (and there are at most `2^53` samples): the double accumulation is exact and only the final
    division rounds. -/
theorem meanAtG_rat_exact (rnd : ℚ → ℚ) (hr : Rounding rnd) (m : Mode) (f : Img Int) (fp : List (List Int)) (p : List Int)
    (hb : absSum (gather m f fp p) ≤ 2 ^ 53) (hn : (fp.length : Int) ≤ 2 ^ 53) :
    meanAtG (ratMeanOps rnd) m (castImg f) fp p =
      rnd (((meanParts m f fp p).1 : ℚ) / ((meanParts m f fp p).2 : ℚ)) := by
  unfold meanAtG meanParts ratMeanOps
  simp only
  rw [gatherG_cast]
  have h1 := foldl_rnd_add_exact rnd hr (gather m f fp p) 0 (by simpa using hb)
  have h1' : (List.map (fun (x : Int) => (x : ℚ)) (gather m f fp p)).foldl (fun a b => rnd (a + b)) 0 =
      ((List.foldl (· + ·) 0 (gather m f fp p) : Int) : ℚ) := by
    simpa using h1
  rw [h1', List.length_map]
  have hlen : ((gather m f fp p).length : Int) ≤ 2 ^ 53 := by
    have := gather_length_le' m f fp p
    have : ((gather m f fp p).length : Int) ≤ (fp.length : Int) := by exact_mod_cast this
    linarith
  have h2 := hr.exact_int ((gather m f fp p).length : Int) (length_le_of_pos _ hlen)
  push_cast at h2
  rw [h2]
where
  gather_length_le' (m : Mode) (f : Img Int) (fp : List (List Int)) (p : List Int) :
      (gather m f fp p).length ≤ fp.length := by
    unfold gather
    exact List.length_filterMap_le _ _

/-! ### forward error bound for arbitrary (rational) data: cancellation is possible, the bound is relative to the
sum of the magnitudes -/

/-- exact rational operations -/
def exactMeanOps : MeanOps ℚ := ⟨0, (· + ·), (· / ·), fun n => (n : ℚ)⟩

def absSumQ (xs : List ℚ) : ℚ := (xs.map fun x => |x|).sum

theorem absSumQ_cons (x : ℚ) (xs : List ℚ) : absSumQ (x :: xs) = |x| + absSumQ xs := by
  unfold absSumQ; simp

theorem absSumQ_nonneg (xs : List ℚ) : 0 ≤ absSumQ xs := by
  induction xs with
  | nil => simp [absSumQ]
  | cons x xs ih => rw [absSumQ_cons]; have := abs_nonneg x; linarith

/-- recursive summation: after the additions of `xs`, the computed sum differs from the exact one by at most
    `(c (1+u)^len − 1)` times the sum of the magnitudes, if it differed by at most `(c − 1) A` before -/
theorem foldl_rnd_add_bound (rnd : ℚ → ℚ) (u : ℚ) (hu0 : 0 < u) (hrel : ∀ x : ℚ, |rnd x - x| ≤ |x| * u)
    (xs : List ℚ) (S s A c : ℚ) (hc : 1 ≤ c) (hA : |S| ≤ A) (hE : |s - S| ≤ (c - 1) * A) :
    |xs.foldl (fun a b => rnd (a + b)) s - xs.foldl (· + ·) S| ≤ (c * (1 + u) ^ xs.length - 1) * (A + absSumQ xs) ∧
    |xs.foldl (· + ·) S| ≤ A + absSumQ xs := by
  induction xs generalizing S s A c with
  | nil => simp [absSumQ]; exact ⟨hE, hA⟩
  | cons x xs ih =>
    simp only [List.foldl_cons, List.length_cons]
    have hA0 : 0 ≤ A := le_trans (abs_nonneg S) hA
    have hx0 := abs_nonneg x
    have hA' : |S + x| ≤ A + |x| := le_trans (abs_add_le S x) (by linarith)
    have hsx : |s + x| ≤ c * (A + |x|) := by
      have h1 : s + x = (S + x) + (s - S) := by ring
      have h2 : |s + x| ≤ |S + x| + |s - S| := by rw [h1]; exact abs_add_le _ _
      have h3 : (c - 1) * A ≤ (c - 1) * (A + |x|) := mul_le_mul_of_nonneg_left (by linarith) (by linarith)
      nlinarith
    have hE' : |rnd (s + x) - (S + x)| ≤ (c * (1 + u) - 1) * (A + |x|) := by
      have h1 : rnd (s + x) - (S + x) = (rnd (s + x) - (s + x)) + (s - S) := by ring
      have h2 : |rnd (s + x) - (S + x)| ≤ |rnd (s + x) - (s + x)| + |s - S| := by rw [h1]; exact abs_add_le _ _
      have h3 := hrel (s + x)
      have h4 : |s + x| * u ≤ c * (A + |x|) * u := mul_le_mul_of_nonneg_right hsx hu0.le
      have h5 : (c - 1) * A ≤ (c - 1) * (A + |x|) := mul_le_mul_of_nonneg_left (by linarith) (by linarith)
      nlinarith
    have hc' : 1 ≤ c * (1 + u) := by nlinarith
    have := ih (S + x) (rnd (s + x)) (A + |x|) (c * (1 + u)) hc' hA' hE'
    rw [absSumQ_cons, pow_succ]
    have e1 : c * ((1 + u) ^ xs.length * (1 + u)) = c * (1 + u) * (1 + u) ^ xs.length := by ring
    have e2 : A + (|x| + absSumQ xs) = A + |x| + absSumQ xs := by ring
    rw [e1, e2]
    exact this

/-- **Forward error bound of `mean_filter`** for a rounding with relative error at most `u` that converts the
    sample count exactly: `|computed − exact mean| ≤ ((1+u)^(n+1) − 1) · (Σ|x|) / n`. -/
theorem meanAtG_rat_bound_u (rnd : ℚ → ℚ) (u : ℚ) (hu0 : 0 < u) (hrel : ∀ x : ℚ, |rnd x - x| ≤ |x| * u)
    (m : Mode) (f : Img ℚ) (fp : List (List Int)) (p : List Int)
    (hn0 : 0 < (gatherG (0 : ℚ) m f fp p).length)
    (hn : rnd ((gatherG (0 : ℚ) m f fp p).length : ℚ) = ((gatherG (0 : ℚ) m f fp p).length : ℚ)) :
    |meanAtG (ratMeanOps rnd) m f fp p - meanAtG exactMeanOps m f fp p| ≤
      ((1 + u) ^ ((gatherG (0 : ℚ) m f fp p).length + 1) - 1) * absSumQ (gatherG (0 : ℚ) m f fp p) /
        ((gatherG (0 : ℚ) m f fp p).length : ℚ) := by
  unfold meanAtG ratMeanOps exactMeanOps
  simp only
  set xs := gatherG (0 : ℚ) m f fp p with hxs
  set n : ℚ := (xs.length : ℚ) with hnq
  have hnpos : 0 < n := by rw [hnq]; exact_mod_cast hn0
  rw [hn]
  obtain ⟨hE, hS⟩ := foldl_rnd_add_bound rnd u hu0 hrel xs 0 0 0 1 (le_refl _) (by simp) (by simp)
  simp only [zero_add, one_mul] at hE hS
  set sh := xs.foldl (fun a b => rnd (a + b)) 0 with hsh
  set S := xs.foldl (· + ·) (0 : ℚ) with hS_def
  set A := absSumQ xs with hA_def
  set c := (1 + u) ^ xs.length with hc_def
  have hA0 : 0 ≤ A := absSumQ_nonneg xs
  have hc1 : 1 ≤ c := one_le_pow₀ (by linarith)
  -- |sh| ≤ c A
  have hsh_abs : |sh| ≤ c * A := by
    have h1 : sh = S + (sh - S) := by ring
    have h2 : |sh| ≤ |S| + |sh - S| := by
      have := abs_add_le S (sh - S)
      rwa [← h1] at this
    nlinarith
  -- the division
  have hdiv := hrel (sh / n)
  have hq : |sh / n| = |sh| / n := by rw [abs_div, abs_of_pos hnpos]
  have hsplit : rnd (sh / n) - S / n = (rnd (sh / n) - sh / n) + (sh - S) / n := by ring
  have h3 : |rnd (sh / n) - S / n| ≤ |rnd (sh / n) - sh / n| + |(sh - S) / n| := by
    rw [hsplit]; exact abs_add_le _ _
  have h4 : |(sh - S) / n| = |sh - S| / n := by rw [abs_div, abs_of_pos hnpos]
  rw [h4] at h3
  rw [hq] at hdiv
  have h5 : |sh| / n * u ≤ c * A / n * u := by
    apply mul_le_mul_of_nonneg_right _ hu0.le
    exact div_le_div_of_nonneg_right hsh_abs hnpos.le
  have h6 : |sh - S| / n ≤ (c - 1) * A / n := div_le_div_of_nonneg_right hE hnpos.le
  have h7 : c * A / n * u + (c - 1) * A / n = ((1 + u) ^ (xs.length + 1) - 1) * A / n := by
    rw [pow_succ, ← hc_def]; field_simp; ring
  linarith

end Mahotas.C07
